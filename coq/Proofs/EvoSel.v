(* EvoSel.v — selectors return members of their input, in the documented number (C14). *)
From PG Require Import Common.Tactics Model.Geno Model.Evo Model.EvoOps Proofs.GenoBasics Proofs.EvoBase.
From Coq Require Import Permutation.

Lemma nths_spec : forall A (l : list A) idx out, nths l idx = Some out -> incl out l /\ length out = length idx.
Proof.
  unfold nths. intros A l idx. induction idx as [|i idx IH]; simpl; intros out H.
  - inv H. split; [intros x []|auto].
  - destruct (nth_error l i) eqn:E; [|discriminate]. simpl in H.
    destruct (opt_list (map (nth_error l) idx)) eqn:E2; inv H.
    destruct (IH _ eq_refl) as [Hi Hl]. split; [|simpl; auto].
    intros x [<-|Hx]; auto. eapply nth_error_In; eauto.
Qed.

Lemma incl_firstn : forall A n (l : list A), incl (firstn n l) l.
Proof. intros A n l x H. rewrite <- (firstn_skipn n l). apply in_or_app; auto. Qed.
Lemma incl_skipn : forall A n (l : list A), incl (skipn n l) l.
Proof. intros A n l x H. rewrite <- (firstn_skipn n l). apply in_or_app; auto. Qed.
Lemma incl_filter : forall A (p : A -> bool) l, incl (filter p l) l.
Proof. intros A p l x H. apply filter_In in H. tauto. Qed.
Lemma in_combine_snd : forall A B (l : list A) (m : list B) x, In x (map snd (combine l m)) -> In x m.
Proof. intros. apply in_map_iff in H as [[a b] [<- H]]. eapply in_combine_r; eauto. Qed.

Section Sel.
  Variable R : Type.
  Variable G : rng R.

  Lemma top_bottom_incl : forall desc n cl pop out, top_bottom desc n cl pop = Ok out -> incl out pop.
  Proof.
    unfold top_bottom. intros desc n cl pop out H. destruct pop as [|x pop]. inv H; intros y [].
    destruct (keys_of (x :: pop)) as [ks|]; simpl in H; [|discriminate].
    destruct cl; inv H; intros y Hy.
    - apply in_map_iff in Hy as [[k z] [<- Hy]]. apply sort_by_In in Hy. apply filter_In in Hy as [Hy _].
      eapply in_combine_r; eauto.
    - apply incl_firstn in Hy. apply in_map_iff in Hy as [[k z] [<- Hy]]. apply sort_by_In in Hy.
      eapply in_combine_r; eauto.
  Qed.

  Theorem select_members : forall sl pop r out r', select R G sl pop r = Ok (out, r') -> incl out pop.
  Proof.
    intros sl pop r out r' H. destruct sl; simpl in H.
    - destruct repl.
      + destruct ((length pop =? 0) && negb (num_out n (length pop) =? 0)); [discriminate|].
        destruct (map_st _ _ r) as [idx r1]. destruct (nths pop idx) eqn:E; inv H. apply nths_spec in E; tauto.
      + destruct (sample G _ _ r) as [idx r1]. destruct (nths pop idx) eqn:E; inv H. apply nths_spec in E; tauto.
    - destruct (weights_of w pop); simpl in H; [|discriminate].
      destruct (length pop =? 0); [discriminate|]. destruct (sumZ a <=? 0)%Z; [discriminate|].
      destruct (picks G a _ r) as [idx r1]. destruct (nths pop idx) eqn:E; inv H. apply nths_spec in E; tauto.
    - destruct (weights_of w pop); simpl in H; [|discriminate].
      destruct (partition a _); simpl in H; inv H.
      intros y Hy. apply in_concat in Hy as [l [Hl Hy]]. apply in_map_iff in Hl as [[z q] [<- Hq]].
      simpl in Hy. apply repeat_spec in Hy. subst. eapply in_combine_r; eauto.
    - destruct (top_bottom true _ cluster pop) eqn:E; simpl in H; inv H. eapply top_bottom_incl; eauto.
    - destruct (top_bottom false _ cluster pop) eqn:E; simpl in H; inv H. eapply top_bottom_incl; eauto.
    - inv H. apply incl_firstn.
    - inv H. apply incl_skipn.
  Qed.
End Sel.

(* ---- the documented number ----------------------------------------------------------------------------- *)
Lemma sumZ_set_nth : forall (l : list Z) i d, i < length l -> sumZ (set_nth l i (nth i l 0 + d)%Z) = (sumZ l + d)%Z.
Proof.
  induction l as [|x l IH]; simpl; intros i d Hi. lia.
  destruct i; simpl. lia. rewrite IH by lia. lia.
Qed.
Lemma Forall_set_nth : forall A (P : A -> Prop) l i x, Forall P l -> P x -> Forall P (set_nth l i x).
Proof. induction l; destruct i; simpl; intros; auto; inv H; constructor; auto. Qed.
Lemma nth_Forall : forall A (P : A -> Prop) l i d, Forall P l -> i < length l -> P (nth i l d).
Proof. intros. rewrite Forall_forall in H. apply H, nth_In; auto. Qed.

Arguments skip_zero : simpl never.
Lemma skip_zero_lt : forall cand alloc m fu q, m <> 0 -> q < m -> skip_zero cand alloc m fu q < m.
Proof.
  induction fu; unfold skip_zero; fold skip_zero; intros q Hm Hq; auto. destruct (_ =? 0)%Z; auto. apply IHfu; auto. apply Nat.mod_upper_bound; auto.
Qed.
Lemma adjust_spec : forall fuel cand alloc extra next al,
  Forall (fun i => i < length alloc) cand -> Forall (fun a => (0 <= a)%Z) alloc ->
  adjust fuel cand alloc extra next = Ok al ->
  length al = length alloc /\ sumZ al = (sumZ alloc + extra)%Z /\ Forall (fun a => (0 <= a)%Z) al.
Proof.
  induction fuel as [|fuel IH]; simpl; intros cand alloc extra next al Hc Hp H. discriminate.
  destruct (Z.eqb_spec extra 0). inv H. split; auto. split; [lia|auto].
  destruct (length cand =? 0) eqn:Em; [discriminate|]. apply Nat.eqb_neq in Em.
  set (m := length cand) in *.
  match type of H with context [nth ?q cand 0] => set (nx := q) in * end.
  assert (Hnx : nx < m).
  { unfold nx. clear H. destruct (extra <? 0)%Z; [|apply Nat.mod_upper_bound; auto].
    apply skip_zero_lt; auto. apply Nat.mod_upper_bound; auto. }
  assert (Hidx : nth nx cand 0 < length alloc) by (apply nth_Forall; auto).
  destruct ((extra <? 0)%Z && (nth (nth nx cand 0%nat) alloc 0 <=? 0)%Z) eqn:Eg; [discriminate|].
  apply IH in H.
  - rewrite set_nth_length, sumZ_set_nth in H by auto. destruct H as [Hl [Hs Hq]]. split; auto. split; auto. lia.
  - rewrite set_nth_length; auto.
  - apply Forall_set_nth; auto.
    assert (0 <= nth (nth nx cand 0%nat) alloc 0)%Z by (apply nth_Forall; auto).
    destruct (0 <? extra)%Z eqn:E1. lia.
    apply andb_false_iff in Eg. destruct Eg as [Eg|Eg]; lia.
Qed.

Lemma partition_spec : forall ws n al, Forall (fun w => (0 <= w)%Z) ws -> partition ws n = Ok al ->
  length al = length ws /\ sumZ al = Z.of_nat n /\ Forall (fun a => (0 <= a)%Z) al.
Proof.
  unfold partition. intros ws n al Hw H. destruct ws as [|w0 ws'] eqn:Ews.
  - destruct (n =? 0) eqn:E; inv H. apply Nat.eqb_eq in E. subst. simpl. auto.
  - rewrite <- Ews in *. clear Ews w0 ws'.
    destruct (Z.eqb_spec (sumZ ws) 0); [discriminate|].
    assert (Hden : (0 < sumZ ws)%Z).
    { assert (0 <= sumZ ws)%Z; [|lia]. clear -Hw. induction Hw; simpl; lia. }
    apply adjust_spec in H.
    + rewrite map_length in H. destruct H as [Hl [Hs Hp]]. split; auto. split; auto. lia.
    + rewrite map_length. destruct (0 <? _)%Z; apply Forall_forall; intros i Hi; apply sort_by_In in Hi;
        apply filter_In in Hi as [Hi _]; apply in_seq in Hi; lia.
    + apply Forall_forall. intros a Ha. apply in_map_iff in Ha as [w [<- Hin]].
      rewrite Forall_forall in Hw. specialize (Hw _ Hin). apply Z.div_pos; nia.
Qed.

Lemma length_concat_repeat : forall A (al : list Z) (pop : list A), length al = length pop -> Forall (fun a => (0 <= a)%Z) al ->
  length (concat (map (fun ax => repeat (snd ax) (Z.to_nat (fst ax))) (combine al pop))) = Z.to_nat (sumZ al).
Proof.
  induction al as [|a al IH]; destruct pop as [|x pop]; simpl; intros Hl Hp; try discriminate; auto.
  inv Hp. rewrite app_length, repeat_length, IH; auto.
  assert (0 <= sumZ al)%Z by (clear -H2; induction H2; simpl; lia). lia.
Qed.

Lemma keys_of_length : forall pop ks, keys_of pop = Ok ks -> length ks = length pop.
Proof.
  unfold keys_of, its. intros pop ks H. destruct (opt_list (map _ pop)) eqn:E1; [|discriminate].
  destruct (opt_list (map ifit l)) eqn:E2; inv H.
  apply opt_list_length in E1, E2. rewrite map_length in *. lia.
Qed.

Lemma filter_combine_length : forall (best : list Z) ks (l : list item), length ks = length l ->
  length (filter (fun kv : Z * item => existsb (Z.eqb (fst kv)) best) (combine ks l)) =
  length (filter (fun k => existsb (Z.eqb k) best) ks).
Proof.
  induction ks as [|k ks IH]; destruct l as [|y l]; simpl; intros Hl; try discriminate; auto.
  destruct (existsb (Z.eqb k) best); simpl; auto.
Qed.
Lemma top_bottom_count : forall desc n cl pop out, top_bottom desc n cl pop = Ok out ->
  length out =
  if cl then match keys_of pop with
             | Ok ks => length (filter (fun k => existsb (Z.eqb k)
                                  (firstn n (sort_by (fun a b : Z => if desc then (b <=? a)%Z else (a <=? b)%Z) (dedupZ ks)))) ks)
             | Err _ => 0 end
  else Nat.min n (length pop).
Proof.
  unfold top_bottom. intros desc n cl pop out E. destruct pop as [|x pop].
  - inv E. destruct cl; auto. rewrite Nat.min_0_r; auto.
  - destruct (keys_of (x :: pop)) as [ks|] eqn:Ek; [|discriminate].
    pose proof (keys_of_length _ _ Ek) as Hk. unfold rbind in E.
    destruct cl; inv E.
    + rewrite map_length, sort_by_length. apply filter_combine_length; auto.
    + rewrite firstn_length, map_length, sort_by_length, combine_length. lia.
Qed.

Section Count.
  Variable R : Type.
  Variable G : rng R.
  Hypothesis GOK : rng_ok G.

  (* the weighting function returns weights that are not negative (its value spec is Float(min_value=0.0)) *)
  Definition weights_nonneg (pop : list item) : Prop :=
    forall w ws, weights_of w pop = Ok ws -> Forall (fun x => (0 <= x)%Z) ws.

  Theorem select_count : forall sl pop r out r', weights_nonneg pop ->
    select R G sl pop r = Ok (out, r') -> length out = documented_count sl pop.
  Proof.
    intros sl pop r out r' HW H. destruct sl; simpl in H |- *.
    - destruct repl.
      + destruct ((length pop =? 0) && negb (num_out n (length pop) =? 0)); [discriminate|].
        pose proof (map_st_length _ _ _ (fun (_ : nat) r0 => pick G (length pop) r0) (seq 0 (num_out n (length pop))) r) as Hm.
        destruct (map_st _ _ r) as [idx r1]. destruct (nths pop idx) eqn:E; inv H. apply nths_spec in E as [_ E].
        simpl in Hm. rewrite seq_length in Hm. lia.
      + pose proof (sample_ok G GOK (length pop) (Nat.min (num_out n (length pop)) (length pop)) r (Nat.le_min_r _ _)) as [Hs _].
        destruct (sample G _ _ r) as [idx r1]. destruct (nths pop idx) eqn:E; inv H. apply nths_spec in E as [_ E]. simpl in Hs. lia.
    - destruct (weights_of w pop) eqn:Ew; simpl in H; [|discriminate].
      destruct (length pop =? 0); [discriminate|]. destruct (sumZ a <=? 0)%Z eqn:Es; [discriminate|].
      pose proof (picks_ok G GOK a (num_out n (length pop)) r) as Hp.
      destruct (picks G a _ r) as [idx r1]. destruct (nths pop idx) eqn:E; inv H. apply nths_spec in E as [_ E].
      destruct Hp as [Hp _]; [lia|eapply HW; eauto|]. simpl in Hp. lia.
    - destruct (weights_of w pop) eqn:Ew; simpl in H; [|discriminate].
      destruct (partition a _) eqn:Ep; simpl in H; inv H.
      apply partition_spec in Ep; [|eapply HW; eauto]. destruct Ep as [Hl [Hs Hp]].
      rewrite length_concat_repeat; auto. lia.
      rewrite Hl. unfold weights_of in Ew. destruct w. inv Ew. apply map_length.
      destruct (its pop) eqn:E1; [|discriminate]. destruct (opt_list (map ifit l)) eqn:E2; inv Ew.
      apply opt_list_length in E1, E2. rewrite !map_length in *. lia.
      destruct (its pop) eqn:E1; [|discriminate]. destruct (opt_list (map ifit l)) eqn:E2; inv Ew.
      apply opt_list_length in E1, E2. rewrite !map_length in *. lia.
    - destruct (top_bottom true _ cluster pop) eqn:E; simpl in H; inv H.
      apply top_bottom_count in E. rewrite E. destruct cluster; auto.
    - destruct (top_bottom false _ cluster pop) eqn:E; simpl in H; inv H.
      apply top_bottom_count in E. rewrite E. destruct cluster; auto.
    - inv H. apply firstn_length.
    - inv H. rewrite skipn_length. lia.
  Qed.
End Count.

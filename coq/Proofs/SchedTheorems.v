(* SchedTheorems.v — the statements of property C16 on the model, for EVERY program set accepted by the discipline
   check, every configuration, any number of workers with any scripts, and EVERY schedule (any list of thread ids). *)
From PG Require Import Common.Tactics Model.Sched Model.SchedDisc Proofs.SchedBase Proofs.SchedMutex Proofs.SchedSound Proofs.SchedSound2 Proofs.SchedSound3 Proofs.SchedSound4 Proofs.SchedSound5 Proofs.SchedLive.

Lemma sumz_zero : forall f ts, (forall th, In th ts -> f th = 0%Z) -> sumz f ts = 0%Z.
Proof. induction ts; simpl; intros; auto. rewrite H, IHts; auto. Qed.

Lemma cntb_zero : forall f ts, (forall th, In th ts -> f th = false) -> cntb f ts = 0.
Proof. unfold cntb. induction ts; simpl; intros; auto. rewrite H; auto. Qed.

Lemma filter_split : forall (p : trial -> bool) l, length (filter p l) + length (filter (fun x => negb (p x)) l) = length l.
Proof. induction l; cbn [filter]; auto. destruct (p a); cbn [negb length]; lia. Qed.

Lemma cntb_pos_ex' : forall f l, cntb f l > 0 -> exists t th, nth_error l t = Some th /\ f th = true.
Proof.
  unfold cntb. induction l as [|a l IH]; cbn [filter]; intros. simpl in H. lia.
  destruct (f a) eqn:E. exists 0, a. auto. destruct (IH H) as [t [th [A B]]]. exists (S t), th. auto.
Qed.

Lemma cntb_two_ex : forall f l, cntb f l >= 2 ->
  exists t1 t2 th1 th2, t1 <> t2 /\ nth_error l t1 = Some th1 /\ nth_error l t2 = Some th2 /\ f th1 = true /\ f th2 = true.
Proof.
  unfold cntb. induction l as [|a l IH]; cbn [filter]; intros.
  - simpl in H. lia.
  - destruct (f a) eqn:E.
    + cbn [length] in H. assert (Hp : cntb f l > 0) by (unfold cntb; lia).
      destruct (cntb_pos_ex' f l Hp) as [t2 [th2 [A B]]]. exists 0, (S t2), a, th2. repeat split; auto.
    + destruct (IH H) as [t1 [t2 [th1 [th2 [A [B [C1 [D E1]]]]]]]]. exists (S t1), (S t2), th1, th2. repeat split; auto.
Qed.

Section Theorems.
Variable ps : progs.
Variable c : cfg.
Hypothesis HD : disciplined ps = true.

Lemma Inv_init : forall ws, Inv ps c (fst (init_state c ws)) (snd (init_state c ws)).
Proof.
  intros ws. simpl.
  assert (Hth : forall th, In th (map (fun w => thread0 (fst (fst w)) (snd (fst w)) (snd w)) ws) -> exists gr gn s, th = thread0 gr gn s).
  { intros th Hin. apply in_map_iff in Hin. destruct Hin as [w [A B]]. eauto. }
  constructor.
  - apply (LockInv_init c ws).
  - constructor; simpl; auto.
    + rewrite cntb_zero; auto. intros th Hin. destruct (Hth _ Hin) as [gr [gn [s E]]]. subst. reflexivity.
    + intros t th Hn Hr. apply nth_error_In in Hn. destruct (Hth _ Hn) as [gr [gn [s E]]]. subst. discriminate.
    + split; auto. intros. simpl. lia.
    + discriminate.
    + intros i x Hn. destruct i; discriminate.
    + intros t th i Hn Ho. apply nth_error_In in Hn. destruct (Hth _ Hn) as [gr [gn [s E]]]. subst. discriminate.
    + intros i x Hn. destruct i; discriminate.
    + rewrite sumz_zero; auto. intros th Hin. destruct (Hth _ Hin) as [gr [gn [s E]]]. subst. reflexivity.
    + rewrite !sumz_zero; auto; intros th Hin; destruct (Hth _ Hin) as [gr [gn [s E]]]; subst; reflexivity.
    + rewrite sumz_zero; auto. intros th Hin. destruct (Hth _ Hin) as [gr [gn [s E]]]. subst. reflexivity.
  - intros t th Hn. apply nth_error_In in Hn. destruct (Hth _ Hn) as [gr [gn [s E]]]. subst.
    destruct (entry_ann ps HD P_init false) as [x [A B]].
    exists x. split. unfold cur_a. simpl. exact A.
    eapply sat_leq; eauto. constructor; simpl; auto; try discriminate; try (intros; contradiction).
Qed.

Theorem Inv_run : forall ws sched, Inv ps c (fst (run ps c (init_state c ws) sched)) (snd (run ps c (init_state c ws) sched)).
Proof.
  intros. destruct (init_state c ws) as [g ts] eqn:E.
  apply run_invariant with (P := Inv ps c).
  - intros. eapply Inv_step; eauto.
  - pose proof (Inv_init ws). rewrite E in H. auto.
Qed.

(* a finished worker has no lock, no debt *)
Lemma finished_debts : forall g ts, Inv ps c g ts -> finished ts = true ->
  forall t th, nth_error ts t = Some th -> held th = [] /\ g_cc (gh th) = 0%Z /\ g_dp (gh th) = 0%Z /\ g_ip (gh th) = 0%Z /\ g_infd (gh th) = 0%Z /\ g_fb (gh th) = false.
Proof.
  intros g ts HI Hfin t th Hn. unfold finished in Hfin. rewrite forallb_forall in Hfin.
  pose proof (Hfin _ (nth_error_In _ _ Hn)) as Hp. destruct (pc th) eqn:Epc; try discriminate.
  destruct (inv_th _ _ _ _ HI _ _ Hn) as [a [A B]]. unfold cur_a in A. rewrite Epc in A. inv A.
  destruct B. simpl in *. repeat split; auto. destruct (held th); auto. discriminate.
Qed.


Definition trials_of (st : gstate * list tstate) : list trial := s_trials (studies (fst st) 0).
Definition study0_of (st : gstate * list tstate) : study := studies (fst st) 0.

(* C16, ids: in EVERY reachable state (not only at quiescence) the trial ids are 1..n, each once, never more than requested;
   once a worker has been told the study is full exactly the requested number exists; all workers share study 0 *)
Theorem ids_exact : forall ws sched,
  let st := run ps c (init_state c ws) sched in
  let tr := trials_of st in
  map t_id tr = seq 1 (length tr) /\ NoDup (map t_id tr) /\
  (forall n, c_max c = Some n -> length tr <= n) /\
  (s_full (study0_of st) = true -> c_max c = Some (length tr)) /\
  (forall t th, nth_error (snd st) t = Some th -> r_study th = 0).
Proof.
  intros. pose proof (Inv_run ws sched) as HI. fold st in HI. destruct HI as [HL HG HT].
  destruct HG as [G_reg G_nst G_reglock gi_ids0 gi_max0 gi_full0 G7 G8 G9 G10 G11 G12].
  unfold tr, trials_of, study0_of. unfold T, St in *.
  split; auto. split. rewrite gi_ids0. apply seq_NoDup.
  destruct gi_max0 as [M1 M2]. split. intros. apply M2. congruence.
  split. intros Hf. destruct (gi_full0 Hf) as [m [A B]]. congruence.
  intros t th Hn. destruct (HT _ _ Hn) as [a [_ Hs]]. apply (s_study _ _ _ _ Hs).
Qed.

(* C16, feedback: a trial is never reported twice, in any state; when all workers have finished, a trial has been reported
   exactly once iff it is completed and feasible (skipped trials are not reported) *)
Theorem feedback_exactly_once : forall ws sched,
  let st := run ps c (init_state c ws) sched in
  (forall i x, nth_error (trials_of st) i = Some x -> t_fed x <= 1) /\
  (finished (snd st) = true -> forall i x, nth_error (trials_of st) i = Some x -> t_fed x = if t_done x && negb (t_inf x) then 1 else 0).
Proof.
  intros. pose proof (Inv_run ws sched) as HI. fold st in HI. split.
  - intros i x Hn. pose proof (gi_fed _ _ _ (inv_gi _ _ _ _ HI) _ _ Hn). destruct (t_done x && negb (t_inf x)); lia.
  - intros Hfin i x Hn. pose proof (gi_fed _ _ _ (inv_gi _ _ _ _ HI) _ _ Hn) as Hf.
    assert (Hz : fbdebt (snd st) i = 0).
    { unfold fbdebt. apply cntb_all_false. intros t th Hnt. destruct (finished_debts _ _ HI Hfin _ _ Hnt) as [_ [_ [_ [_ [_ Hfb]]]]]. rewrite Hfb. reflexivity. }
    lia.
Qed.

(* C16, bookkeeping at quiescence: the status counters equal what the trial list says, and add up *)
Theorem bookkeeping_counters : forall ws sched,
  let st := run ps c (init_state c ws) sched in
  finished (snd st) = true ->
  s_comp (study0_of st) = countp t_done (trials_of st) /\
  s_pend (study0_of st) = countp (fun x => negb (t_done x)) (trials_of st) /\
  s_inf (study0_of st) = countp t_inf (trials_of st) /\
  (s_comp (study0_of st) + s_pend (study0_of st))%Z = Z.of_nat (length (trials_of st)).
Proof.
  intros ws sched st Hfin. pose proof (Inv_run ws sched) as HI. fold st in HI.
  pose proof (inv_gi _ _ _ _ HI) as HG.
  destruct HG as [G_reg G_nst G_reglock gi_ids0 gi_max0 gi_full0 G7 G8 G9 gi_comp0 gi_pendc0 gi_infc0]. unfold T, St, study0_of, trials_of in *.
  assert (Z1 : sumz (fun th => g_cc (gh th)) (snd st) = 0%Z).
  { apply sumz_zero. intros th Hin. apply In_nth_error in Hin. destruct Hin as [t Hn]. destruct (finished_debts _ _ HI Hfin _ _ Hn) as [_ [A _]]. auto. }
  assert (Z2 : sumz (fun th => g_ip (gh th)) (snd st) = 0%Z).
  { apply sumz_zero. intros th Hin. apply In_nth_error in Hin. destruct Hin as [t Hn]. destruct (finished_debts _ _ HI Hfin _ _ Hn) as [_ [_ [_ [A _]]]]. auto. }
  assert (Z3 : sumz (fun th => g_dp (gh th)) (snd st) = 0%Z).
  { apply sumz_zero. intros th Hin. apply In_nth_error in Hin. destruct Hin as [t Hn]. destruct (finished_debts _ _ HI Hfin _ _ Hn) as [_ [_ [A _]]]. auto. }
  assert (Z4 : sumz (fun th => g_infd (gh th)) (snd st) = 0%Z).
  { apply sumz_zero. intros th Hin. apply In_nth_error in Hin. destruct Hin as [t Hn]. destruct (finished_debts _ _ HI Hfin _ _ Hn) as [_ [_ [_ [_ [A _]]]]]. auto. }
  rewrite Z1 in gi_comp0. rewrite Z2, Z3 in gi_pendc0. rewrite Z4 in gi_infc0.
  assert (E1 : s_comp (studies (fst st) 0) = countp t_done (s_trials (studies (fst st) 0))) by (rewrite <- gi_comp0; ring).
  assert (E2 : s_pend (studies (fst st) 0) = countp (fun x => negb (t_done x)) (s_trials (studies (fst st) 0))) by (rewrite <- gi_pendc0; ring).
  assert (E3 : s_inf (studies (fst st) 0) = countp t_inf (s_trials (studies (fst st) 0))) by (rewrite <- gi_infc0; ring).
  repeat split; auto.
  rewrite E1, E2. unfold countp. rewrite <- Nat2Z.inj_add. f_equal. apply filter_split.
Qed.


(* ---- all five layers together ---------------------------------------------------------------------------------------- *)
Record InvAll (g : gstate) (ts : list tstate) : Prop := { ia_1 : Inv ps c g ts; ia_2 : Inv2 ps g ts; ia_3 : GI3 g ts; ia_4 : Inv4 ps g ts; ia_5 : Inv5 ps g ts }.

Lemma InvAll_init : forall ws, InvAll (fst (init_state c ws)) (snd (init_state c ws)).
Proof.
  intros ws. pose proof (Inv_init ws) as H1. simpl in *.
  assert (Hth : forall th, In th (map (fun w => thread0 (fst (fst w)) (snd (fst w)) (snd w)) ws) -> exists gr gn s, th = thread0 gr gn s).
  { intros th Hin. apply in_map_iff in Hin. destruct Hin as [w [A B]]. eauto. }
  constructor; auto.
  - constructor.
    + constructor; simpl; auto; try (intros; discriminate).
      * intros i x Hn. destruct i; discriminate.
      * intros t th i Hn Hl. apply nth_error_In in Hn. destruct (Hth _ Hn) as [gr [gn [s E]]]. subst. discriminate.
      * intros i x r Hn. destruct i; discriminate.
      * intros i x Hn. destruct i; discriminate.
    + intros t th Hn. apply nth_error_In in Hn. destruct (Hth _ Hn) as [gr [gn [s E]]]. subst.
      destruct (entry_ann ps HD P_init false) as [x [A B]]. exists x. split. unfold cur_a. simpl. exact A.
      eapply sat2_leq; eauto. apply sat2_a0e.
  - constructor.
    + intros t th j Hn Hl. apply nth_error_In in Hn. destruct (Hth _ Hn) as [gr [gn [s E]]]. subst. discriminate.
    + intros t th i Hn Hc. apply nth_error_In in Hn. destruct (Hth _ Hn) as [gr [gn [s E]]]. subst. discriminate.
  - assert (Hnp : np_sum (map (fun w => thread0 (fst (fst w)) (snd (fst w)) (snd w)) ws) = 0%Z).
    { unfold np_sum. apply sumz_zero. intros th Hin. destruct (Hth _ Hin) as [gr [gn [s E]]]. subst. reflexivity. }
    constructor.
    + constructor; simpl; auto; try (intros; discriminate).
      * intros t th Hn Hw. apply nth_error_In in Hn. destruct (Hth _ Hn) as [gr [gn [s E]]]. subst. discriminate.
    + intros t th Hn. apply nth_error_In in Hn. destruct (Hth _ Hn) as [gr [gn [s E]]]. subst.
      destruct (entry_ann ps HD P_init false) as [x [A B]]. exists x. split. unfold cur_a. simpl. exact A.
      eapply sat4_leq; eauto. constructor; simpl; auto; intros; discriminate.
  - constructor.
    + constructor; simpl; auto. intros s k r [].
    + intros t th Hn. apply nth_error_In in Hn. destruct (Hth _ Hn) as [gr [gn [s E]]]. subst.
      destruct (entry_ann ps HD P_init false) as [x [A B]]. exists x. split. unfold cur_a. simpl. exact A.
      eapply sat5_leq; eauto. apply sat5_none. reflexivity.
Qed.

Lemma InvAll_step : forall g ts t g' ts', InvAll g ts -> step1 ps c g ts t = Some (g', ts') -> InvAll g' ts'.
Proof.
  intros g ts t g' ts' [H1 H2 H3 H4 H5] Hs. constructor.
  - eapply Inv_step; eauto.
  - eapply Inv2_step; eauto.
  - eapply GI3_step; eauto.
  - eapply Inv4_step; eauto.
  - eapply Inv5_step; eauto.
Qed.

Theorem InvAll_run : forall ws sched, InvAll (fst (run ps c (init_state c ws) sched)) (snd (run ps c (init_state c ws) sched)).
Proof.
  intros. destruct (init_state c ws) as [g ts] eqn:E.
  apply run_invariant with (P := InvAll).
  - intros. eapply InvAll_step; eauto.
  - pose proof (InvAll_init ws). rewrite E in H. auto.
Qed.

(* C16, same group: in EVERY reachable state a group has at most one pending trial (so all its workers are given that one
   until it is finished), and the trial a worker holds is a trial of the worker's own group *)
Theorem same_group_same_trial : forall ws sched,
  let st := run ps c (init_state c ws) sched in
  (forall i j xi xj, nth_error (trials_of st) i = Some xi -> nth_error (trials_of st) j = Some xj ->
     t_done xi = false -> t_done xj = false -> t_group xi = t_group xj -> i = j) /\
  (forall t th i, nth_error (snd st) t = Some th -> r_cur th = Some i ->
     exists x, nth_error (trials_of st) i = Some x /\ t_group x = r_group th).
Proof.
  intros. pose proof (InvAll_run ws sched) as HA. fold st in HA. destruct HA as [H1 H2 H3 _ _].
  pose proof (i2_gi _ _ _ H2) as G2. unfold trials_of. fold (T (fst st)). split.
  - intros i j xi xj Hi Hj Pi Pj Hg.
    assert (Hcase : forall i j xi xj, nth_error (T (fst st)) i = Some xi -> nth_error (T (fst st)) j = Some xj ->
              t_done xi = false -> t_done xj = false -> t_group xi = t_group xj ->
              lat (fst st) (t_group xi) = Some i -> (exists t th, nth_error (snd st) t = Some th /\ g_lat (gh th) = Some j) -> False).
    { intros i0 j0 x0 y0 A0 B0 P0 Q0 G0 L0 [t [th [Ht Hl]]].
      destruct (g2_latlock _ _ G2 _ _ _ Ht Hl) as [_ [y [Y1 Y2]]]. rewrite B0 in Y1. inv Y1.
      pose proof (g3_latdone _ _ H3 _ _ _ Ht Hl) as Hd. rewrite <- Y2, <- G0, L0 in Hd. destruct Hd as [z [Z1 Z2]]. rewrite A0 in Z1. inv Z1. congruence. }
    destruct (g2_same _ _ G2 _ _ Hi Pi) as [Li | Fi]; destruct (g2_same _ _ G2 _ _ Hj Pj) as [Lj | Fj].
    + rewrite Hg in Li. congruence.
    + exfalso. eapply (Hcase i j); eauto.
    + exfalso. eapply (Hcase j i); eauto.
    + destruct Fi as [t1 [th1 [A1 B1]]]. destruct Fj as [t2 [th2 [A2 B2]]].
      destruct (g2_latlock _ _ G2 _ _ _ A1 B1) as [K1 _]. destruct (g2_latlock _ _ G2 _ _ _ A2 B2) as [K2 _].
      assert (t1 = t2) by (eapply LockInv_mutex with (k := KStudy 0); eauto; apply (inv_lock _ _ _ _ H1)). subst. rewrite A1 in A2. inv A2. congruence.
  - intros t th i Hn Hc. eapply (g3_curgroup _ _ H3); eauto.
Qed.

(* C16, best trial: in every state the best trial is a completed feasible trial with a final measurement (an infeasible trial
   is never best); when all workers have finished no completed feasible trial has a larger reward *)
Theorem best_trial_max : forall ws sched,
  let st := run ps c (init_state c ws) sched in
  (forall b, s_best (study0_of st) = Some b ->
     exists xb rb, nth_error (trials_of st) b = Some xb /\ t_done xb = true /\ t_inf xb = false /\ t_final xb = Some rb) /\
  (finished (snd st) = true -> forall i x r, nth_error (trials_of st) i = Some x -> t_done x = true -> t_inf x = false -> t_final x = Some r ->
     exists b xb rb, s_best (study0_of st) = Some b /\ nth_error (trials_of st) b = Some xb /\ t_final xb = Some rb /\ (r <= rb)%Z).
Proof.
  intros. pose proof (InvAll_run ws sched) as HA. fold st in HA. destruct HA as [H1 H2 H3 _ _].
  pose proof (i2_gi _ _ _ H2) as G2. unfold trials_of, study0_of. fold (T (fst st)). fold (St (fst st)). split.
  - intros b Hb. destruct (g2_best1 _ _ G2 _ Hb) as [xb [rb [A [B [C1 [D _]]]]]]. eauto 8.
  - intros Hfin i x r Hn Hd Hi Hf. destruct (g2_best2 _ _ G2 _ _ _ Hn Hd Hi Hf) as [[t [th [A [B C1]]]] | H]; auto.
    exfalso. unfold finished in Hfin. rewrite forallb_forall in Hfin. pose proof (Hfin _ (nth_error_In _ _ A)) as Hp.
    destruct (pc th) eqn:Epc; try discriminate.
    destruct (inv_th _ _ _ _ H1 _ _ A) as [a [A1 B1]]. unfold cur_a in A1. rewrite Epc in A1. inv A1.
    rewrite (s_dbest _ _ _ _ B1) in C1. discriminate.
Qed.

(* C16, one study per name *)
Theorem single_study : forall ws sched, nstudies (fst (run ps c (init_state c ws) sched)) <= 1.
Proof.
  intros. pose proof (InvAll_run ws sched) as HA. destruct HA as [H1 H2 H3 _ _].
  set (st := run ps c (init_state c ws) sched) in *.
  pose proof (inv_gi _ _ _ _ H1) as G1. pose proof (i2_gi _ _ _ H2) as G2.
  rewrite (gi_nst _ _ _ G1).
  destruct (registry (fst st)) eqn:Er.
  - rewrite cntb_all_false. lia. intros t th Hn. destruct (g_reg (gh th)) eqn:E; auto.
    pose proof (g2_regnone _ _ G2 _ _ Hn E). congruence.
  - destruct (le_lt_dec (cntb (fun th => g_reg (gh th)) (snd st)) 1); auto. exfalso.
    assert (Hex : exists t1 t2 th1 th2, t1 <> t2 /\ nth_error (snd st) t1 = Some th1 /\ nth_error (snd st) t2 = Some th2 /\ g_reg (gh th1) = true /\ g_reg (gh th2) = true).
    { apply cntb_two_ex. lia. }
    destruct Hex as [t1 [t2 [th1 [th2 [A [B [C1 [D E]]]]]]]]. apply A.
    eapply LockInv_mutex with (k := KReg); eauto. apply (inv_lock _ _ _ _ H1); eapply (gi_reglock _ _ _ G1); eauto.
    eapply (gi_reglock _ _ _ G1); eauto. eapply (gi_reglock _ _ _ G1); eauto.
Qed.

(* C16, the list of reports to the algorithm (ghost): no trial appears twice, ever; at quiescence it contains exactly the
   completed feasible trials *)
Theorem reports_exact : forall ws sched,
  let st := run ps c (init_state c ws) sched in
  NoDup (a_fed (alg (fst st))) /\
  (finished (snd st) = true -> forall i x, nth_error (trials_of st) i = Some x ->
     (In (0, t_id x) (a_fed (alg (fst st))) <-> (t_done x = true /\ t_inf x = false))).
Proof.
  intros. pose proof (InvAll_run ws sched) as HA. fold st in HA. destruct HA as [H1 H2 H3 _ _].
  pose proof (i2_gi _ _ _ H2) as G2. pose proof (inv_gi _ _ _ _ H1) as G1.
  split.
  - apply (NoDup_count_occ pdec). intros [s k].
    destruct (in_dec pdec (s, k) (a_fed (alg (fst st)))) as [Hin | Hnin].
    + pose proof (g2_fedbound _ _ G2) as Hb. rewrite Forall_forall in Hb. destruct (Hb _ Hin) as [A B]. simpl in *. subst.
      assert (Hk : k - 1 < length (T (fst st))) by lia.
      destruct (nth_error (T (fst st)) (k - 1)) as [x|] eqn:Ex; [| apply nth_error_None in Ex; lia].
      assert (Hid : t_id x = k).
      { pose proof (gi_ids _ _ _ G1) as Hids.
        assert (E : nth_error (map t_id (T (fst st))) (k - 1) = Some (t_id x)) by (erewrite map_nth_error; eauto).
        rewrite Hids in E. rewrite nth_error_nth' with (d := 0) in E by (rewrite seq_length; auto). inv E. rewrite seq_nth; auto. lia. }
      rewrite <- Hid. rewrite (g2_fedlist _ _ G2 _ _ Ex).
      pose proof (gi_fed _ _ _ G1 _ _ Ex). destruct (t_done x && negb (t_inf x)); lia.
    + rewrite (count_occ_not_In pdec) in Hnin. lia.
  - intros Hfin i x Hn. unfold trials_of in Hn. fold (T (fst st)) in Hn.
    pose proof (g2_fedlist _ _ G2 _ _ Hn) as Hc.
    destruct (feedback_exactly_once ws sched) as [_ Hq]. fold st in Hq. specialize (Hq Hfin _ _ Hn). rewrite Hq in Hc.
    rewrite (count_occ_In pdec). rewrite Hc. destruct (t_done x), (t_inf x); simpl; split; intros; try lia; try tauto; destruct H; discriminate.
Qed.

(* C16, the algorithm is set up at most once: the statement `setup(dna_spec)` runs at most once in any schedule, however many
   workers race for the first `sample()` *)
Theorem setup_once : forall ws sched, a_nset (alg (fst (run ps c (init_state c ws) sched))) <= 1.
Proof.
  intros. pose proof (InvAll_run ws sched) as HA. destruct HA as [_ _ _ H4 _].
  rewrite (g4_nset _ _ (i4_gi _ _ _ H4)). destruct (a_spec _); lia.
Qed.

(* C16, the counters of the algorithm: in EVERY reachable state outside the setup window (the stretch, inside the registry
   lock, between `setup` and the two counter resets) `num_feedbacks` is the number of reports and `num_proposals` is the number
   of trials plus the proposals in flight (counter incremented, trial not yet appended); when all workers have finished,
   num_proposals = number of trials and num_feedbacks = number of reports *)
Theorem algorithm_counters : forall ws sched,
  let st := run ps c (init_state c ws) sched in
  (a_win (alg (fst st)) = false ->
     a_nf (alg (fst st)) = length (a_fed (alg (fst st))) /\
     Z.of_nat (a_np (alg (fst st))) = (Z.of_nat (length (trials_of st)) + sumz (fun th => g_np (gh2 th)) (snd st))%Z) /\
  (finished (snd st) = true ->
     a_nf (alg (fst st)) = length (a_fed (alg (fst st))) /\ a_np (alg (fst st)) = length (trials_of st)).
Proof.
  intros. pose proof (InvAll_run ws sched) as HA. fold st in HA. destruct HA as [H1 _ _ H4 _].
  pose proof (i4_gi _ _ _ H4) as G4. unfold trials_of. fold (T (fst st)). fold (np_sum (snd st)).
  assert (Hany : a_win (alg (fst st)) = false ->
     a_nf (alg (fst st)) = length (a_fed (alg (fst st))) /\ Z.of_nat (a_np (alg (fst st))) = (Z.of_nat (length (T (fst st))) + np_sum (snd st))%Z).
  { intros Hw. destruct (a_spec (alg (fst st))) eqn:Es.
    - apply (g4_cnt _ _ G4); auto.
    - destruct (g4_zero _ _ G4 Es) as [A [B _]]. destruct (g4_empty _ _ G4 (or_introl Es)) as [C1 [D E]].
      rewrite A, B, C1, D, E. split; reflexivity. }
  split; auto.
  intros Hfin. unfold finished in Hfin. rewrite forallb_forall in Hfin.
  assert (Hth : forall t th, nth_error (snd st) t = Some th -> gh2 th = ghost20).
  { intros t th Hn. pose proof (Hfin _ (nth_error_In _ _ Hn)) as Hp. destruct (pc th) eqn:Epc; try discriminate.
    destruct (i4_th _ _ _ H4 _ _ Hn) as [a [A B]]. unfold cur_a in A. rewrite Epc in A. inv A.
    destruct B. simpl in *. destruct (gh2 th); simpl in *; subst; reflexivity. }
  assert (Hw : a_win (alg (fst st)) = false).
  { destruct (a_win (alg (fst st))) eqn:Ew; auto. destruct (g4_win2 _ _ G4 Ew) as [t [th [A [B _]]]].
    unfold in_window in B. rewrite (Hth _ _ A) in B. discriminate. }
  destruct (Hany Hw) as [A B]. split; auto.
  assert (Hz : np_sum (snd st) = 0%Z).
  { unfold np_sum. apply sumz_zero. intros th Hin. destruct (In_nth_error _ _ Hin) as [t Hn]. rewrite (Hth _ _ Hn). reflexivity. }
  rewrite Hz in B. lia.
Qed.

(* C16, the value that is fed back: in EVERY reachable state the (ghost) list of reports with their rewards projects onto the list of
   reports, and every report (trial k, reward r) is about a completed feasible trial whose final measurement is r — when the report
   is made and for ever after (the outcome of a reported trial is never rewritten, by anybody) *)
Theorem feedback_value : forall ws sched,
  let st := run ps c (init_state c ws) sched in
  map fst (a_fedv (alg (fst st))) = a_fed (alg (fst st)) /\
  (forall s k r, In (s, k, r) (a_fedv (alg (fst st))) ->
     exists x, nth_error (trials_of st) (k - 1) = Some x /\ t_id x = k /\ t_final x = Some r /\ t_done x = true /\ t_inf x = false).
Proof.
  intros. pose proof (InvAll_run ws sched) as HA. fold st in HA. destruct HA as [H1 _ _ _ H5].
  pose proof (i5_gi _ _ _ H5) as G5. pose proof (inv_gi _ _ _ _ H1) as G1. unfold trials_of. fold (T (fst st)). split.
  - apply (g5_fst _ G5).
  - intros s k r Hin. destruct (g5_val _ G5 _ _ _ Hin) as [x [A [B [C1 D]]]]. exists x. repeat split; auto.
    + pose proof (gi_fed _ _ _ G1 _ _ A) as Hf. destruct (t_done x); auto. simpl in Hf. lia.
    + pose proof (gi_fed _ _ _ G1 _ _ A) as Hf. destruct (t_inf x); auto. rewrite andb_false_r in Hf. lia.
Qed.

(* C16, no deadlock: in EVERY reachable state in which some worker has not finished its script, some worker can take a step
   ([step1 … t = None] means thread t is finished or blocked on a lock) *)
Theorem no_deadlock : forall ws sched,
  let st := run ps c (init_state c ws) sched in
  finished (snd st) = false -> exists t, step1 ps c (fst st) (snd st) t <> None.
Proof. intros ws sched st Hfin. apply (some_can_step ps c HD); auto. apply Inv_run. Qed.

End Theorems.

(* SchedTheorems.v — the statements of property C16 on the model, for EVERY program set accepted by the discipline
   check, every configuration, any number of workers with any scripts, and EVERY schedule (any list of thread ids). *)
From PG Require Import Common.Tactics Model.Sched Model.SchedDisc Proofs.SchedBase Proofs.SchedMutex Proofs.SchedSound.

Lemma sumz_zero : forall f ts, (forall th, In th ts -> f th = 0%Z) -> sumz f ts = 0%Z.
Proof. induction ts; simpl; intros; auto. rewrite H, IHts; auto. Qed.

Lemma cntb_zero : forall f ts, (forall th, In th ts -> f th = false) -> cntb f ts = 0.
Proof. unfold cntb. induction ts; simpl; intros; auto. rewrite H; auto. Qed.

Lemma filter_split : forall (p : trial -> bool) l, length (filter p l) + length (filter (fun x => negb (p x)) l) = length l.
Proof. induction l; cbn [filter]; auto. destruct (p a); cbn [negb length]; lia. Qed.

Section Theorems.
Variable ps : progs.
Variable c : cfg.
Hypothesis HD : disciplined ps = true.

Lemma Inv_init : forall ws, Inv ps c (fst (init_state c ws)) (snd (init_state c ws)).
Proof.
  intros ws. simpl.
  assert (Hth : forall th, In th (map (fun w => thread0 (fst (fst w)) (snd (fst w)) (snd w)) ws) -> exists gr gn s, th = thread0 gr gn s).
  { intros th Hin. apply in_map_iff in Hin. destruct Hin as [w [A B]]. eauto. }
  constructor.
  - apply (LockInv_init c ws).
  - constructor; simpl; auto.
    + rewrite cntb_zero; auto. intros th Hin. destruct (Hth _ Hin) as [gr [gn [s E]]]. subst. reflexivity.
    + intros t th Hn Hr. apply nth_error_In in Hn. destruct (Hth _ Hn) as [gr [gn [s E]]]. subst. discriminate.
    + split; auto. intros. simpl. lia.
    + discriminate.
    + intros i x Hn. destruct i; discriminate.
    + intros t th i Hn Ho. apply nth_error_In in Hn. destruct (Hth _ Hn) as [gr [gn [s E]]]. subst. discriminate.
    + intros i x Hn. destruct i; discriminate.
    + rewrite sumz_zero; auto. intros th Hin. destruct (Hth _ Hin) as [gr [gn [s E]]]. subst. reflexivity.
    + rewrite !sumz_zero; auto; intros th Hin; destruct (Hth _ Hin) as [gr [gn [s E]]]; subst; reflexivity.
    + rewrite sumz_zero; auto. intros th Hin. destruct (Hth _ Hin) as [gr [gn [s E]]]. subst. reflexivity.
  - intros t th Hn. apply nth_error_In in Hn. destruct (Hth _ Hn) as [gr [gn [s E]]]. subst.
    destruct (entry_ann ps HD P_init false) as [x [A B]].
    exists x. split. unfold cur_a. simpl. exact A.
    eapply sat_leq; eauto. constructor; simpl; auto; try discriminate; try (intros; contradiction).
Qed.

Theorem Inv_run : forall ws sched, Inv ps c (fst (run ps c (init_state c ws) sched)) (snd (run ps c (init_state c ws) sched)).
Proof.
  intros. destruct (init_state c ws) as [g ts] eqn:E.
  apply run_invariant with (P := Inv ps c).
  - intros. eapply Inv_step; eauto.
  - pose proof (Inv_init ws). rewrite E in H. auto.
Qed.

(* a finished worker has no lock, no debt *)
Lemma finished_debts : forall g ts, Inv ps c g ts -> finished ts = true ->
  forall t th, nth_error ts t = Some th -> held th = [] /\ g_cc (gh th) = 0%Z /\ g_dp (gh th) = 0%Z /\ g_ip (gh th) = 0%Z /\ g_infd (gh th) = 0%Z /\ g_fb (gh th) = false.
Proof.
  intros g ts HI Hfin t th Hn. unfold finished in Hfin. rewrite forallb_forall in Hfin.
  pose proof (Hfin _ (nth_error_In _ _ Hn)) as Hp. destruct (pc th) eqn:Epc; try discriminate.
  destruct (inv_th _ _ _ _ HI _ _ Hn) as [a [A B]]. unfold cur_a in A. rewrite Epc in A. inv A.
  destruct B. simpl in *. repeat split; auto. destruct (held th); auto. discriminate.
Qed.


Definition trials_of (st : gstate * list tstate) : list trial := s_trials (studies (fst st) 0).
Definition study0_of (st : gstate * list tstate) : study := studies (fst st) 0.

(* C16, ids: in EVERY reachable state (not only at quiescence) the trial ids are 1..n, each once, never more than requested;
   once a worker has been told the study is full exactly the requested number exists; all workers share study 0 *)
Theorem ids_exact : forall ws sched,
  let st := run ps c (init_state c ws) sched in
  let tr := trials_of st in
  map t_id tr = seq 1 (length tr) /\ NoDup (map t_id tr) /\
  (forall n, c_max c = Some n -> length tr <= n) /\
  (s_full (study0_of st) = true -> c_max c = Some (length tr)) /\
  (forall t th, nth_error (snd st) t = Some th -> r_study th = 0).
Proof.
  intros. pose proof (Inv_run ws sched) as HI. fold st in HI. destruct HI as [HL HG HT].
  destruct HG as [G_reg G_nst G_reglock gi_ids0 gi_max0 gi_full0 G7 G8 G9 G10 G11 G12].
  unfold tr, trials_of, study0_of. unfold T, St in *.
  split; auto. split. rewrite gi_ids0. apply seq_NoDup.
  destruct gi_max0 as [M1 M2]. split. intros. apply M2. congruence.
  split. intros Hf. destruct (gi_full0 Hf) as [m [A B]]. congruence.
  intros t th Hn. destruct (HT _ _ Hn) as [a [_ Hs]]. apply (s_study _ _ _ _ Hs).
Qed.

(* C16, feedback: a trial is never reported twice, in any state; when all workers have finished, a trial has been reported
   exactly once iff it is completed and feasible (skipped trials are not reported) *)
Theorem feedback_exactly_once : forall ws sched,
  let st := run ps c (init_state c ws) sched in
  (forall i x, nth_error (trials_of st) i = Some x -> t_fed x <= 1) /\
  (finished (snd st) = true -> forall i x, nth_error (trials_of st) i = Some x -> t_fed x = if t_done x && negb (t_inf x) then 1 else 0).
Proof.
  intros. pose proof (Inv_run ws sched) as HI. fold st in HI. split.
  - intros i x Hn. pose proof (gi_fed _ _ _ (inv_gi _ _ _ _ HI) _ _ Hn). destruct (t_done x && negb (t_inf x)); lia.
  - intros Hfin i x Hn. pose proof (gi_fed _ _ _ (inv_gi _ _ _ _ HI) _ _ Hn) as Hf.
    assert (Hz : fbdebt (snd st) i = 0).
    { unfold fbdebt. apply cntb_all_false. intros t th Hnt. destruct (finished_debts _ _ HI Hfin _ _ Hnt) as [_ [_ [_ [_ [_ Hfb]]]]]. rewrite Hfb. reflexivity. }
    lia.
Qed.

(* C16, bookkeeping at quiescence: the status counters equal what the trial list says, and add up *)
Theorem bookkeeping_counters : forall ws sched,
  let st := run ps c (init_state c ws) sched in
  finished (snd st) = true ->
  s_comp (study0_of st) = countp t_done (trials_of st) /\
  s_pend (study0_of st) = countp (fun x => negb (t_done x)) (trials_of st) /\
  s_inf (study0_of st) = countp t_inf (trials_of st) /\
  (s_comp (study0_of st) + s_pend (study0_of st))%Z = Z.of_nat (length (trials_of st)).
Proof.
  intros ws sched st Hfin. pose proof (Inv_run ws sched) as HI. fold st in HI.
  pose proof (inv_gi _ _ _ _ HI) as HG.
  destruct HG as [G_reg G_nst G_reglock gi_ids0 gi_max0 gi_full0 G7 G8 G9 gi_comp0 gi_pendc0 gi_infc0]. unfold T, St, study0_of, trials_of in *.
  assert (Z1 : sumz (fun th => g_cc (gh th)) (snd st) = 0%Z).
  { apply sumz_zero. intros th Hin. apply In_nth_error in Hin. destruct Hin as [t Hn]. destruct (finished_debts _ _ HI Hfin _ _ Hn) as [_ [A _]]. auto. }
  assert (Z2 : sumz (fun th => g_ip (gh th)) (snd st) = 0%Z).
  { apply sumz_zero. intros th Hin. apply In_nth_error in Hin. destruct Hin as [t Hn]. destruct (finished_debts _ _ HI Hfin _ _ Hn) as [_ [_ [_ [A _]]]]. auto. }
  assert (Z3 : sumz (fun th => g_dp (gh th)) (snd st) = 0%Z).
  { apply sumz_zero. intros th Hin. apply In_nth_error in Hin. destruct Hin as [t Hn]. destruct (finished_debts _ _ HI Hfin _ _ Hn) as [_ [_ [A _]]]. auto. }
  assert (Z4 : sumz (fun th => g_infd (gh th)) (snd st) = 0%Z).
  { apply sumz_zero. intros th Hin. apply In_nth_error in Hin. destruct Hin as [t Hn]. destruct (finished_debts _ _ HI Hfin _ _ Hn) as [_ [_ [_ [_ [A _]]]]]. auto. }
  rewrite Z1 in gi_comp0. rewrite Z2, Z3 in gi_pendc0. rewrite Z4 in gi_infc0.
  assert (E1 : s_comp (studies (fst st) 0) = countp t_done (s_trials (studies (fst st) 0))) by (rewrite <- gi_comp0; ring).
  assert (E2 : s_pend (studies (fst st) 0) = countp (fun x => negb (t_done x)) (s_trials (studies (fst st) 0))) by (rewrite <- gi_pendc0; ring).
  assert (E3 : s_inf (studies (fst st) 0) = countp t_inf (s_trials (studies (fst st) 0))) by (rewrite <- gi_infc0; ring).
  repeat split; auto.
  rewrite E1, E2. unfold countp. rewrite <- Nat2Z.inj_add. f_equal. apply filter_split.
Qed.

End Theorems.

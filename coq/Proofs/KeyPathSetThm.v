(* KeyPathSetThm.v — the KeyPathSet API on well-formed tries, stated on tries (dict roots). *)
From PG Require Import Common.Tactics Model.KeyPath Proofs.KeyPathArith Proofs.KeyPathSetBase Proofs.KeyPathSetOps
  Proofs.KeyPathSetAlg Proofs.KeyPathSetIter.

Definition twf (q : quirks) (t : trie) : Prop := wf q (TDict t).
Definition mem (q : quirks) (p : list key) (t : trie) : bool := memb q p (TDict t).

Lemma twf_empty : forall q, twf q [].
Proof. intros; apply wf_empty. Qed.

Lemma union_spec : forall q t s, twf q t -> twf q s ->
  twf q (t_union t s) /\ forall p, cleanp q p -> mem q p (t_union t s) = mem q p t || mem q p s.
Proof.
  intros q t s Ht Hs. unfold t_union, mem.
  destruct (merge_spec_all q (TDict s) s eq_refl Hs t Ht) as (rk & -> & Hw & _ & Hlaw). auto.
Qed.

Lemma diff_spec : forall q t s, twf q t -> twf q s ->
  twf q (t_diff t s) /\ forall p, cleanp q p -> mem q p (t_diff t s) = mem q p t && negb (mem q p s).
Proof.
  intros q t s Ht Hs. unfold t_diff, mem.
  destruct (diff_spec_all q (TDict t) t eq_refl Ht s Hs) as (rk & -> & Hw & Hlaw). auto.
Qed.

Lemma inter_spec : forall q t s, twf q t -> twf q s ->
  twf q (t_inter t s) /\ forall p, cleanp q p -> mem q p (t_inter t s) = mem q p t && mem q p s.
Proof.
  intros q t s Ht Hs. unfold t_inter, mem.
  destruct (inter_spec_all q (TDict t) t eq_refl Ht s Hs) as (rk & -> & Hw & Hlaw). auto.
Qed.

(* every step of the register machine over clean paths keeps all registers well-formed and never raises *)
Definition sop_clean (q : quirks) (o : sop) : Prop :=
  match o with
  | SAdd _ p ii => cleanp q p /\ ii = false
  | SRemove _ p | SContains _ p | SHasPrefix _ p | SRebase _ p | SSubtree _ p | SKpAdd _ p _ => cleanp q p
  | _ => True
  end.

Lemma reg_get_wf : forall q regs r, Forall (twf q) regs -> twf q (reg_get regs r).
Proof.
  intros q regs r H. unfold reg_get. revert r. induction H; intros [| r]; simpl; auto using twf_empty.
Qed.

Lemma reg_set_wf : forall q regs r t, Forall (twf q) regs -> twf q t -> Forall (twf q) (reg_set regs r t).
Proof.
  intros q regs r t H Ht. revert r. induction H; intros [| r]; simpl; auto.
Qed.

Lemma step_wf : forall q regs o, Forall (twf q) regs -> sop_clean q o ->
  Forall (twf q) (fst (step q regs o)).
Proof.
  intros q regs o Hr Hc. destruct o; cbn [step sop_clean] in *; try (cbn [fst]; exact Hr).
  - destruct Hc as [Hc ->]. destruct (add_spec q p _ (reg_get_wf q regs r Hr) Hc) as (k' & -> & Hw & _). cbn. apply reg_set_wf; [assumption | exact Hw].
  - destruct (remove_spec q p _ (reg_get_wf q regs r Hr) Hc) as (k' & -> & Hw & _). cbn. apply reg_set_wf; [assumption | exact Hw].
  - destruct (contains_go q p (TDict (reg_get regs r))); cbn [fst]; exact Hr.
  - destruct (has_prefix q p (reg_get regs r)); cbn [fst]; exact Hr.
  - cbn. apply reg_set_wf; [assumption |]. apply (proj1 (rebase_spec q _ p (reg_get_wf q regs r Hr) Hc)).
  - cbn. apply reg_set_wf; [assumption | apply twf_empty].
  - cbn. apply reg_set_wf; [assumption |]. apply (proj1 (union_spec q _ _ (reg_get_wf q regs r Hr) (reg_get_wf q regs r2 Hr))).
  - cbn. apply reg_set_wf; [assumption |]. apply (proj1 (diff_spec q _ _ (reg_get_wf q regs r Hr) (reg_get_wf q regs r2 Hr))).
  - cbn. apply reg_set_wf; [assumption |]. apply (proj1 (inter_spec q _ _ (reg_get_wf q regs r Hr) (reg_get_wf q regs r2 Hr))).
  - cbn. apply reg_set_wf; [assumption |]. apply (proj1 (union_spec q _ _ (reg_get_wf q regs r Hr) (reg_get_wf q regs r2 Hr))).
  - cbn. apply reg_set_wf; [assumption |]. apply (proj1 (diff_spec q _ _ (reg_get_wf q regs r Hr) (reg_get_wf q regs r2 Hr))).
  - cbn. apply reg_set_wf; [assumption |]. apply (proj1 (inter_spec q _ _ (reg_get_wf q regs r Hr) (reg_get_wf q regs r2 Hr))).
  - cbn. apply reg_set_wf; [assumption | apply reg_get_wf; assumption].
  - destruct (iter_ok (TDict (reg_get regs r))); cbn [fst]; exact Hr.
  - destruct p; [cbn [fst]; exact Hr |]. destruct (walk q (k :: p) (TDict (reg_get regs r))) as [[[|]|]|]; cbn [fst]; exact Hr.
  - cbn. apply reg_set_wf; [assumption |]. apply (proj1 (rebase_spec q _ p (reg_get_wf q regs r Hr) Hc)).
Qed.

(* ---- nothing raises on well-formed tries and clean paths --------------------------------------------------------------- *)
Lemma walk_ok : forall q ks kids, wf q (TDict kids) -> cleanp q ks ->
  exists res, walk q ks (TDict kids) = Some res /\ (res = None \/ exists ck, res = Some (TDict ck) /\ wf q (TDict ck)).
Proof.
  induction ks as [| k r IH]; intros kids Hw Hc; cbn [walk].
  - eexists. split; [reflexivity |]. right. eauto.
  - inv Hc. rewrite H1. destruct (aget (MK k) kids) eqn:E; [| eexists; split; [reflexivity | auto]].
    destruct (wf_child _ _ _ _ Hw E) as (ck & -> & _ & Hck). apply IH; auto.
Qed.

Lemma iter_ok_wf : forall q n, wf q n -> iter_ok n = true.
Proof.
  intros q. apply (tnode_ind' (fun n => wf q n -> iter_ok n = true)); [reflexivity |].
  intros kids IH Hw. apply wf_dict in Hw as [_ Hent]. cbn [iter_ok].
  induction kids as [| [m v] r IHr]; [reflexivity |].
  inv IH. inv Hent. destruct m as [| k]; [apply IHr; assumption |].
  destruct H3 as (_ & Hne & Hvw). cbn [fst snd] in *. destruct v as [| vk]; [contradiction |].
  rewrite (H1 Hvw). cbn [andb]. apply IHr; assumption.
Qed.

Lemma step_no_crash : forall q regs o, Forall (twf q) regs -> sop_clean q o -> snd (step q regs o) <> OCrash.
Proof.
  intros q regs o Hr Hc. pose proof (reg_get_wf q regs) as G.
  destruct o; cbn [step sop_clean] in *; try discriminate.
  - destruct Hc as [Hc ->]. destruct (add_spec q p _ (G r Hr) Hc) as (k' & -> & _). discriminate.
  - destruct (remove_spec q p _ (G r Hr) Hc) as (k' & -> & _). discriminate.
  - rewrite (contains_memb q p _ (G r Hr) Hc). discriminate.
  - unfold has_prefix. destruct (walk_ok q p _ (G r Hr) Hc) as (res & -> & [-> | (ck & -> & _)]); discriminate.
  - rewrite (iter_ok_wf q _ (G r Hr)). discriminate.
  - destruct p; [discriminate |].
    destruct (walk_ok q (k :: p) _ (G r Hr) Hc) as (res & -> & [-> | (ck & -> & _)]); discriminate.
Qed.

Theorem steps_safe : forall q os regs, Forall (twf q) regs -> Forall (sop_clean q) os ->
  Forall (twf q) (fst (steps q regs os)) /\ ~ In OCrash (snd (steps q regs os)).
Proof.
  induction os as [| o r IH]; intros regs Hr Hc; cbn [steps].
  - split; [assumption | intros []].
  - inv Hc. pose proof (step_wf q regs o Hr H1) as Hw. pose proof (step_no_crash q regs o Hr H1) as Hn.
    destruct (step q regs o) as [regs' out]. cbn [fst snd] in *.
    destruct (IH regs' Hw H2) as [A B].
    destruct out; try contradiction; destruct (steps q regs' r) as [rf outs]; cbn [fst snd] in *;
      (split; [assumption | intros [F | F]; [discriminate | contradiction]]).
Qed.

(* the dollar quirk, as the code is: adding the path ['$'] lists the root path instead *)
Lemma dollar_witness :
  let q := {| q_dollar := true |} in
  exists t, add_go q false [KStr [c_dollar]] (TDict []) = Some (TDict t, true) /\
            paths t = [[]] /\ contains_go q [] (TDict t) = Some true.
Proof. eexists. split; [vm_compute; reflexivity |]. split; vm_compute; reflexivity. Qed.

(* ---- all set laws in one statement ----------------------------------------------------------------------------------- *)
Definition set_laws (q : quirks) (ok : list key -> Prop) (t s : trie) (p : list key) : Prop :=
  (* add *)
  (exists t', add_go q false p (TDict t) = Some (TDict t', negb (mem q p t)) /\ twf q t' /\
     forall p', ok p' -> mem q p' t' = path_eqb p' p || mem q p' t) /\
  (* remove *)
  (exists t', remove_go q p (TDict t) = Some (TDict t', mem q p t) /\ twf q t' /\
     forall p', ok p' -> mem q p' t' = mem q p' t && negb (path_eqb p' p)) /\
  (* in *)
  contains_go q p (TDict t) = Some (mem q p t) /\
  (* union / intersection / difference (update, intersection_update, difference_update and the copying forms) *)
  (twf q (t_union t s) /\ forall p', ok p' -> mem q p' (t_union t s) = mem q p' t || mem q p' s) /\
  (twf q (t_inter t s) /\ forall p', ok p' -> mem q p' (t_inter t s) = mem q p' t && mem q p' s) /\
  (twf q (t_diff t s) /\ forall p', ok p' -> mem q p' (t_diff t s) = mem q p' t && negb (mem q p' s)) /\
  (* rebase: exactly the old members, each prefixed *)
  (twf q (rebase q p t) /\ (rebase q p t = [] <-> t = []) /\
     forall p', ok p' -> mem q p' (rebase q p t) = match path_sub p' p with inr r => mem q r t | inl _ => false end).

Theorem set_laws_clean : forall q t s p, twf q t -> twf q s -> cleanp q p -> set_laws q (cleanp q) t s p.
Proof.
  intros q t s p Ht Hs Hp. unfold set_laws.
  destruct (add_spec q p t Ht Hp) as (t1 & A1 & A2 & _ & A3).
  destruct (remove_spec q p t Ht Hp) as (t2 & B1 & B2 & B3).
  split; [exists t1; auto |]. split; [exists t2; auto |].
  split; [apply contains_memb; assumption |].
  split; [apply union_spec; assumption |]. split; [apply inter_spec; assumption |]. split; [apply diff_spec; assumption |].
  apply rebase_spec; assumption.
Qed.

Theorem set_laws_no_quirks : forall q t s p, no_quirks q -> twf q t -> twf q s -> set_laws q (fun _ => True) t s p.
Proof.
  intros q t s p Hq Ht Hs.
  pose proof (set_laws_clean q t s p Ht Hs (no_quirks_clean q p Hq)) as (A & B & C & D & E & F & G).
  assert (forall p', cleanp q p') as Hall by (intros; apply no_quirks_clean; assumption).
  unfold set_laws. split; [| split; [| split; [exact C | split; [| split; [| split]]]]].
  - destruct A as (t' & A1 & A2 & A3). exists t'. auto.
  - destruct B as (t' & B1 & B2 & B3). exists t'. auto.
  - destruct D; auto.
  - destruct E; auto.
  - destruct F; auto.
  - destruct G as (G1 & G2 & G3); auto.
Qed.

(* EvalOutProofs.v — proofs about Model/EvalOut.v (property C19, clause "intermediate variables"). *)
From Coq Require Import NArith List Bool Lia.
Import ListNotations.
From PG Require Import Model.EvalOut.
Local Open Scope N_scope.

(* ---- dictionaries --------------------------------------------------------------------------------------------- *)
Lemma lookup_set k k' v e : lookup k (set k' v e) = if N.eqb k k' then Some v else lookup k e.
Proof.
  induction e as [|[k1 v1] r IH]; cbn [set lookup].
  - destruct (N.eqb k k'); reflexivity.
  - destruct (N.eqb k' k1) eqn:E1; cbn [lookup].
    + apply N.eqb_eq in E1; subst k1. destruct (N.eqb k k'); reflexivity.
    + destruct (N.eqb k k1) eqn:E2.
      * apply N.eqb_eq in E2; subst k1. rewrite N.eqb_sym, E1. reflexivity.
      * exact IH.
Qed.

Lemma lookup_del k k' e : lookup k (del k' e) = if N.eqb k k' then None else lookup k e.
Proof.
  unfold del. induction e as [|[k1 v1] r IH]; cbn [filter lookup fst].
  - destruct (N.eqb k k'); reflexivity.
  - destruct (N.eqb k' k1) eqn:E1; cbn [negb lookup].
    + apply N.eqb_eq in E1; subst k1. rewrite IH. destruct (N.eqb k k'); reflexivity.
    + rewrite IH. destruct (N.eqb k k1) eqn:E2; [|reflexivity].
      apply N.eqb_eq in E2; subst k1. rewrite N.eqb_sym, E1. reflexivity.
Qed.

Lemma lookup_none_notin k e : lookup k e = None <-> ~ In k (keys e).
Proof.
  unfold keys. induction e as [|[k1 v1] r IH]; cbn [lookup map fst In].
  - tauto.
  - destruct (N.eqb k k1) eqn:E.
    + apply N.eqb_eq in E. split; [discriminate | intros H; exfalso; apply H; left; congruence].
    + apply N.eqb_neq in E. rewrite IH. split; [intros H [H1|H1]; [congruence | tauto] | tauto].
Qed.

Lemma in_lookup k v e : wf e -> (In (k, v) e <-> lookup k e = Some v).
Proof.
  unfold wf, keys. induction e as [|[k1 v1] r IH]; cbn [lookup map fst In]; intros Hwf.
  - split; [tauto | discriminate].
  - inversion Hwf as [|? ? Hni Hnd]; subst. destruct (N.eqb k k1) eqn:E.
    + apply N.eqb_eq in E; subst k1. split.
      * intros [H|H]; [congruence|]. exfalso; apply Hni. change k with (fst (k, v)). apply in_map; exact H.
      * intros H; left; congruence.
    + apply N.eqb_neq in E. rewrite <- (IH Hnd). split; [intros [H|H]; [congruence | exact H] | tauto].
Qed.

Lemma keys_set k v e : forall x, In x (keys (set k v e)) <-> x = k \/ In x (keys e).
Proof.
  unfold keys. induction e as [|[k1 v1] r IH]; cbn [set map fst In]; intros x.
  - intuition congruence.
  - destruct (N.eqb k k1) eqn:E; cbn [map fst In].
    + apply N.eqb_eq in E; subst k1. intuition congruence.
    + rewrite IH. intuition congruence.
Qed.

Lemma wf_set k v e : wf e -> wf (set k v e).
Proof.
  unfold wf. induction e as [|[k1 v1] r IH]; cbn [set]; intros H.
  - repeat constructor. intros [].
  - inversion H as [|? ? Hni Hnd]; subst. destruct (N.eqb k k1) eqn:E.
    + apply N.eqb_eq in E; subst k1. constructor; assumption.
    + apply N.eqb_neq in E. cbn [keys map fst]. constructor; [|apply IH; exact Hnd].
      intros Hin. apply (keys_set k v r) in Hin. destruct Hin as [Hin|Hin]; [congruence | exact (Hni Hin)].
Qed.

Lemma wf_del k e : wf e -> wf (del k e).
Proof.
  unfold wf, del, keys. induction e as [|[k1 v1] r IH]; cbn [filter map fst]; intros H; [constructor|].
  inversion H as [|? ? Hni Hnd]; subst. destruct (negb (N.eqb k k1)); [|apply IH; exact Hnd].
  cbn [map fst]. constructor; [|apply IH; exact Hnd].
  intros Hin. apply Hni. apply in_map_iff in Hin. destruct Hin as [[a b] [Hab Hin]].
  apply filter_In in Hin. destruct Hin as [Hin _]. cbn in Hab; subst a.
  change k1 with (fst (k1, b)). apply in_map; exact Hin.
Qed.

Lemma update_cons d kv o : update d (kv :: o) = update (set (fst kv) (snd kv) d) o.
Proof. reflexivity. Qed.

Lemma wf_update d o : wf d -> wf (update d o).
Proof.
  revert d; induction o as [|kv o IH]; intros d H; [exact H|].
  rewrite update_cons. apply IH. apply wf_set; exact H.
Qed.

Lemma lookup_update k d o : wf o ->
  lookup k (update d o) = match lookup k o with Some v => Some v | None => lookup k d end.
Proof.
  revert d; induction o as [|[k1 v1] o IH]; intros d Hwf; [reflexivity|].
  rewrite update_cons. inversion Hwf as [|? ? Hni Hnd]; subst.
  rewrite (IH _ Hnd). cbn [lookup fst snd]. rewrite lookup_set.
  destruct (N.eqb k k1) eqn:E.
  - apply N.eqb_eq in E; subst k1. apply lookup_none_notin in Hni. rewrite Hni. reflexivity.
  - reflexivity.
Qed.

Lemma wf_nil : wf []. Proof. constructor. Qed.

(* ---- how the symbols are assembled ---------------------------------------------------------------------------- *)
Lemma plan_ok_inv pl : plan_ok pl = true ->
  gv_over_ctx pl = true /\ inner_over_outer pl = true /\ skip_builtins pl = true /\ changed_only pl = true.
Proof. unfold plan_ok. rewrite !andb_true_iff. tauto. Qed.

Lemma wf_context_symbols pl ctxs : plan_ok pl = true -> wf (context_symbols pl ctxs).
Proof.
  intros Hp. apply plan_ok_inv in Hp. destruct Hp as (_ & Hi & _). unfold context_symbols. rewrite Hi.
  assert (G : forall acc, wf acc -> wf (fold_left (fun a c => update a c) ctxs acc)).
  { induction ctxs as [|c r IH]; intros acc H; [exact H|]. cbn [fold_left]. apply IH. apply wf_update; exact H. }
  apply G. exact wf_nil.
Qed.

Lemma wf_symbols pl ctxs gv : plan_ok pl = true -> wf (symbols pl ctxs gv).
Proof.
  intros Hp. unfold symbols. destruct (plan_ok_inv _ Hp) as (Hg & _). rewrite Hg.
  apply wf_update. apply wf_context_symbols; exact Hp.
Qed.

Lemma global_vars_win pl ctxs gv k : plan_ok pl = true -> wf gv ->
  lookup k (symbols pl ctxs gv) = match lookup k gv with Some v => Some v | None => lookup k (context_symbols pl ctxs) end.
Proof.
  intros Hp Hwf. unfold symbols. destruct (plan_ok_inv _ Hp) as (Hg & _). rewrite Hg. apply lookup_update; exact Hwf.
Qed.

Lemma inner_context_wins pl ctxs c k : plan_ok pl = true -> wf c ->
  lookup k (context_symbols pl (ctxs ++ [c])) =
  match lookup k c with Some v => Some v | None => lookup k (context_symbols pl ctxs) end.
Proof.
  intros Hp Hwf. destruct (plan_ok_inv _ Hp) as (_ & Hi & _). unfold context_symbols. rewrite Hi.
  rewrite fold_left_app. cbn [fold_left]. apply lookup_update; exact Hwf.
Qed.

(* ---- programs ----------------------------------------------------------------------------------------------- *)
Lemma exec_app g p q : exec g (p ++ q) = match exec g p with Some g' => exec g' q | None => None end.
Proof.
  revert g; induction p as [|s p IH]; intros g; cbn [app exec]; [reflexivity|].
  destruct (step g s); [apply IH | reflexivity].
Qed.

Lemma wf_step g s g' : wf g -> step g s = Some g' -> wf g'.
Proof.
  intros H. destruct s as [x src|x o|x|src]; cbn [step].
  - destruct (lookup src g); [|discriminate]. intros E; inversion E; subst. apply wf_set; exact H.
  - intros E; inversion E; subst. apply wf_set; exact H.
  - destruct (lookup x g); [|discriminate]. intros E; inversion E; subst. apply wf_del; exact H.
  - destruct (lookup src g); [|discriminate]. intros E; inversion E; subst. exact H.
Qed.

Lemma wf_exec p : forall g g', wf g -> exec g p = Some g' -> wf g'.
Proof.
  induction p as [|s p IH]; intros g g' H; cbn [exec].
  - intros E; inversion E; subst; exact H.
  - destruct (step g s) as [g1|] eqn:Es; [|discriminate]. intros E. apply (IH g1 g'); [|exact E].
    apply (wf_step g s); assumption.
Qed.

Lemma wf_add_builtins g : wf g -> wf (add_builtins g).
Proof. intros H. unfold add_builtins. destruct (lookup BUILTINS g); [exact H | apply wf_set; exact H]. Qed.

Lemma rhs_step g s : is_popped s = true -> (rhs s g = None <-> step g s = None).
Proof.
  destruct s as [x src|x o|x|src]; cbn [is_popped rhs step]; intros Hp; try discriminate.
  - destruct (lookup src g); split; congruence.
  - split; congruence.
  - destruct (lookup src g); split; congruence.
Qed.

(* what the popped last statement does, given its value *)
Lemma step_popped g s v : is_popped s = true -> rhs s g = Some v ->
  step g s = Some (match s with SAssign x _ | SNew x _ => set x v g | _ => g end).
Proof.
  destruct s as [x src|x o|x|src]; cbn [is_popped rhs step]; intros Hp Hr; try discriminate.
  - rewrite Hr. reflexivity.
  - inversion Hr; subst. reflexivity.
  - rewrite Hr. reflexivity.
Qed.

(* evaluate() leaves every name except '__result__' bound as plain execution does, and fails exactly when it does *)
Lemma final_env_plain g0 p : p <> [] ->
  match final_env g0 p, plain_env g0 p with
  | Some g, Some gp => forall k, k <> RESULT -> lookup k g = lookup k gp
  | None, None => True
  | _, _ => False
  end.
Proof.
  intros Hne. unfold final_env, plain_env.
  destruct (rev p) as [|s rbody] eqn:Er.
  { exfalso. apply Hne. rewrite <- (rev_involutive p), Er. reflexivity. }
  assert (Hp : p = rev rbody ++ [s]). { rewrite <- (rev_involutive p), Er. reflexivity. }
  destruct (is_popped s) eqn:Epop.
  - rewrite Hp. rewrite exec_app.
    destruct (exec (add_builtins g0) (rev rbody)) as [g1|]; [|exact I].
    cbn [exec]. destruct (rhs s g1) as [v|] eqn:Erhs.
    + rewrite (step_popped g1 s v Epop Erhs). intros k Hk.
      destruct s as [x src|x o|x|src]; try discriminate Epop; rewrite ?lookup_set;
        apply N.eqb_neq in Hk; rewrite Hk; reflexivity.
    + apply (rhs_step g1 s Epop) in Erhs. rewrite Erhs. exact I.
  - destruct (exec (add_builtins g0) p) as [g1|]; [|exact I].
    intros k Hk. rewrite lookup_set. apply N.eqb_neq in Hk. rewrite Hk. reflexivity.
Qed.

Lemma wf_final_env g0 p g : wf g0 -> final_env g0 p = Some g -> wf g.
Proof.
  intros H. unfold final_env. destruct (rev p) as [|s rbody]; [intros E; inversion E; subst; exact H|].
  destruct (is_popped s).
  - destruct (exec (add_builtins g0) (rev rbody)) as [g1|] eqn:Ex; [|discriminate].
    assert (H1 : wf g1) by (apply (wf_exec _ _ _ (wf_add_builtins _ H) Ex)).
    destruct (rhs s g1) as [v|]; [|discriminate]. intros E; inversion E; subst.
    destruct s; repeat apply wf_set; exact H1.
  - destruct (exec (add_builtins g0) p) as [g1|] eqn:Ex; [|discriminate].
    intros E; inversion E; subst. apply wf_set. apply (wf_exec _ _ _ (wf_add_builtins _ H) Ex).
Qed.

(* ---- the report ------------------------------------------------------------------------------------------------ *)
Lemma report_spec pl orig final k v : plan_ok pl = true ->
  (In (k, v) (report pl orig final) <-> In (k, v) final /\ k <> BUILTINS /\ lookup k orig <> Some v).
Proof.
  intros Hp. destruct (plan_ok_inv _ Hp) as (_ & _ & Hs & Hc).
  unfold report. rewrite filter_In. unfold reported. rewrite Hs, Hc. cbn [fst snd negb orb andb].
  rewrite andb_true_iff, negb_true_iff, N.eqb_neq.
  assert (X : match lookup k orig with Some o => negb (N.eqb o v) | None => true end = true <-> lookup k orig <> Some v).
  { destruct (lookup k orig) as [o|]; [|split; [discriminate | reflexivity]].
    rewrite negb_true_iff, N.eqb_neq. split; congruence. }
  rewrite X. tauto.
Qed.

(* The clause of the property: the names evaluate(outputs_intermediate=True) reports (other than '__result__') are exactly
   the names plain execution of the same program leaves bound to an object that is not the injected one; nothing else,
   and an error exactly when plain execution raises one. *)
Theorem intermediates_exact pl ctxs gv p : plan_ok pl = true -> p <> [] ->
  match evaluate_out pl ctxs gv p, plain_env (symbols pl ctxs gv) p with
  | Some r, Some gp =>
      forall k v, k <> RESULT ->
        (In (k, v) r <-> k <> BUILTINS /\ lookup k gp = Some v /\ lookup k (symbols pl ctxs gv) <> Some v)
  | None, None => True
  | _, _ => False
  end.
Proof.
  intros Hp Hne. unfold evaluate_out. destruct p as [|s0 p0]; [congruence|].
  set (p := s0 :: p0) in *. set (g0 := symbols pl ctxs gv).
  pose proof (final_env_plain g0 p Hne) as H.
  destruct (final_env g0 p) as [g|] eqn:Ef; destruct (plain_env g0 p) as [gp|]; try exact H.
  intros k v Hk. rewrite (report_spec pl g0 g k v Hp).
  assert (Hwf : wf g) by (apply (wf_final_env g0 p g (wf_symbols pl ctxs gv Hp) Ef)).
  rewrite (in_lookup k v g Hwf), (H k Hk). tauto.
Qed.

(* the value of a trailing expression / assignment is reported under '__result__' (when the caller did not inject that
   very object under the name '__result__') *)
Theorem result_reported pl ctxs gv body s g1 v : plan_ok pl = true -> is_popped s = true ->
  exec (add_builtins (symbols pl ctxs gv)) body = Some g1 -> rhs s g1 = Some v ->
  lookup RESULT (symbols pl ctxs gv) <> Some v ->
  exists r, evaluate_out pl ctxs gv (body ++ [s]) = Some r /\ In (RESULT, v) r.
Proof.
  intros Hp Hpop Hex Hr Horig. unfold evaluate_out.
  destruct (body ++ [s]) as [|s0 p0] eqn:Eb; [destruct body; discriminate|]. rewrite <- Eb.
  unfold final_env. rewrite rev_app_distr. cbn [rev app]. rewrite Hpop, rev_involutive, Hex, Hr.
  eexists; split; [reflexivity|]. apply (report_spec _ _ _ _ _ Hp). split; [|split; [discriminate | exact Horig]].
  assert (Hwf1 : wf g1) by (apply (wf_exec _ _ _ (wf_add_builtins _ (wf_symbols pl ctxs gv Hp)) Hex)).
  destruct s as [x src|x o|x|src]; try discriminate Hpop.
  - apply in_lookup; [repeat apply wf_set; exact Hwf1|]. rewrite !lookup_set.
    destruct (N.eqb RESULT x) eqn:E; [reflexivity|]. reflexivity.
  - apply in_lookup; [repeat apply wf_set; exact Hwf1|]. rewrite !lookup_set.
    destruct (N.eqb RESULT x) eqn:E; reflexivity.
  - apply in_lookup; [apply wf_set; exact Hwf1|]. rewrite lookup_set. reflexivity.
Qed.

(* an injected symbol the program never rebinds is not reported; a deleted name is not reported *)
Corollary untouched_not_reported pl ctxs gv p r k v : plan_ok pl = true -> p <> [] -> k <> RESULT ->
  evaluate_out pl ctxs gv p = Some r -> lookup k (symbols pl ctxs gv) = Some v -> ~ In (k, v) r.
Proof.
  intros Hp Hne Hk Hr Hs Hin. pose proof (intermediates_exact pl ctxs gv p Hp Hne) as H. rewrite Hr in H.
  destruct (plain_env (symbols pl ctxs gv) p) as [gp|]; [|exact H].
  apply (H k v Hk) in Hin. tauto.
Qed.

Corollary deleted_not_reported pl ctxs gv p r gp k v : plan_ok pl = true -> p <> [] -> k <> RESULT ->
  evaluate_out pl ctxs gv p = Some r -> plain_env (symbols pl ctxs gv) p = Some gp -> lookup k gp = None -> ~ In (k, v) r.
Proof.
  intros Hp Hne Hk Hr Hpl Hnone Hin. pose proof (intermediates_exact pl ctxs gv p Hp Hne) as H. rewrite Hr, Hpl in H.
  apply (H k v Hk) in Hin. destruct Hin as (_ & Hl & _). congruence.
Qed.

(* ---- the statements are not vacuous, and the plan matters ------------------------------------------------------ *)
Definition ok_plan : oplan := {| gv_over_ctx := true; inner_over_outer := true; skip_builtins := true; changed_only := true |}.

(* contexts: outer {a↦10, b↦11}, inner {a↦12}; global_vars {b↦13, c↦14};
   program:  d = a ; c = NEW(20) ; del b ; e = d   — reports d, c (rebound), e and __result__; not a, not b *)
Example intermediates_example :
  evaluate_out ok_plan [[(5, 10); (6, 11)]; [(5, 12)]] [(6, 13); (7, 14)]
               [SAssign 8 5; SNew 7 20; SDel 6; SAssign 9 8]
  = Some [(7, 20); (8, 12); (1, 12); (9, 12)].
Proof. vm_compute. reflexivity. Qed.

Example report_everything_refuted :
  exists r, evaluate_out {| gv_over_ctx := true; inner_over_outer := true; skip_builtins := true; changed_only := false |}
                         [] [(5, 10)] [SNew 6 20] = Some r /\ In (5, 10) r.
Proof. eexists; split; [vm_compute; reflexivity | left; reflexivity]. Qed.

Example context_over_global_vars_refuted :
  evaluate_out {| gv_over_ctx := false; inner_over_outer := true; skip_builtins := true; changed_only := true |}
               [[(5, 10)]] [(5, 11)] [SAssign 6 5] = Some [(1, 10); (6, 10)]
  /\ evaluate_out ok_plan [[(5, 10)]] [(5, 11)] [SAssign 6 5] = Some [(1, 11); (6, 11)].
Proof. split; vm_compute; reflexivity. Qed.

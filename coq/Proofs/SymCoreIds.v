(* SymCoreIds.v — "one node object never appears in two places": the node ids of a state stay pairwise distinct
   (and below the allocation counter) through every step. *)
From PG Require Import Common.Tactics Model.SymCoreDefs Model.SymCoreOps Model.SymCoreSpec
     Proofs.SymCoreBase Proofs.SymCoreWF Proofs.SymCoreClone Proofs.SymCoreWFOps.
From Coq Require Import NArith Permutation.
Local Open Scope Z_scope.
#[local] Arguments ids_items : simpl never.

(* --- ids of transformed nodes ---------------------------------------------------------------------------------------- *)
Lemma flat_map_ids_ext : forall (f : node -> node) (its : list (key * node)),
  Forall (fun kv => ids (f (snd kv)) = ids (snd kv)) its ->
  flat_map (fun kv => ids (snd kv)) (map (fun kv => (fst kv, f (snd kv))) its) = flat_map (fun kv => ids (snd kv)) its.
Proof. induction its; simpl; intros; auto. inv H. rewrite H2, IHits; auto. Qed.
Lemma ids_set_path : forall n p, ids (set_path p n) = ids n.
Proof.
  induction n using node_ind'; intros; simpl; auto.
  destruct (path_eqb pt p); simpl; auto. f_equal.
  induction its as [|[k0 c] r IH]; simpl; auto. inv H. simpl in *. rewrite H2, IH; auto.
Qed.
Lemma ids_set_par : forall n p, ids (set_par p n) = ids n.
Proof. destruct n; auto. Qed.
Lemma ids_detach : forall n, ids (detach n) = ids n.
Proof. intros; unfold detach. rewrite ids_set_path, ids_set_par; auto. Qed.
Lemma ids_set_flags : forall f n, ids (set_flags f n) = ids n.
Proof. destruct n; auto. Qed.
Lemma nid_set_path : forall n p, nid (set_path p n) = nid n.
Proof. destruct n; simpl; auto. intros; destruct (path_eqb pth p); auto. Qed.

Lemma ids_node : forall i k pa pt fl its, ids (Node i k pa pt fl its) = i :: ids_items its.
Proof. reflexivity. Qed.
Lemma ids_items_app : forall a b, ids_items (a ++ b) = ids_items a ++ ids_items b.
Proof. unfold ids_items; intros; apply flat_map_app. Qed.
Lemma ids_items_cons : forall k c r, ids_items ((k, c) :: r) = ids c ++ ids_items r.
Proof. reflexivity. Qed.

Lemma ids_reindex_child : forall cp i c, ids (reindex_child cp i c) = ids c.
Proof.
  intros. destruct c; simpl; auto.
  destruct (last_key pth); [destruct (key_eqb k0 (KI i))|]; auto;
    change (ids (set_path (cp ++ [KI i]) (Node id k par pth fl items)) = ids (Node id k par pth fl items)); apply ids_set_path.
Qed.
Lemma ids_items_renum_from : forall cp l i, ids_items (renum_from cp i l) = ids_items l.
Proof.
  induction l as [|[k c] r]; intros; [reflexivity|].
  simpl renum_from. rewrite !ids_items_cons, ids_reindex_child, IHr. reflexivity.
Qed.
Lemma ids_items_renum : forall cp l, ids_items (renum cp l) = ids_items l.
Proof. intros; apply ids_items_renum_from. Qed.
Lemma ids_items_filter_missing : forall l,
  ids_items (filter (fun kv => negb (is_missing (snd kv))) l) = ids_items l.
Proof.
  induction l as [|[k c] r]; [reflexivity|]. simpl filter.
  destruct (is_missing c) eqn:E; simpl negb; cbv iota; rewrite ?ids_items_cons, IHr; auto.
  destruct c as [[]|]; simpl in E; try discriminate. reflexivity.
Qed.
Lemma ids_purge_list : forall n, ids (purge_list n) = ids n.
Proof.
  destruct n; simpl; auto. destruct k; auto. simpl. f_equal.
  fold (ids_items (renum pth (filter (fun kv => negb (is_missing (snd kv))) items))). fold (ids_items items).
  rewrite ids_items_renum, ids_items_filter_missing. auto.
Qed.

(* --- permutations by counting occurrences --------------------------------------------------------------------------------- *)
Definition cnt (l : list N) (x : N) : nat := count_occ N.eq_dec l x.
Lemma perm_cnt : forall a b, Permutation a b <-> forall x, cnt a x = cnt b x.
Proof. intros; apply (Permutation_count_occ N.eq_dec). Qed.
Lemma cnt_app : forall a b x, cnt (a ++ b) x = (cnt a x + cnt b x)%nat.
Proof. intros; apply count_occ_app. Qed.
Definition one (i x : N) : nat := if N.eq_dec i x then 1%nat else 0%nat.
Lemma cnt_cons : forall i l x, cnt (i :: l) x = (one i x + cnt l x)%nat.
Proof. intros. unfold cnt, one. simpl. destruct (N.eq_dec i x); auto. Qed.
Global Opaque one.
Lemma cnt_nil : forall x, cnt [] x = 0%nat.
Proof. reflexivity. Qed.
Ltac perm_hyps x :=
  repeat match goal with
         | H : Permutation _ _ |- _ => let H' := fresh "PC" in pose proof (proj1 (perm_cnt _ _) H x) as H'; clear H
         end.
Ltac perm :=
  apply perm_cnt; let x := fresh "x" in intro x; perm_hyps x;
  repeat (rewrite ?cnt_app, ?cnt_nil in * ); try lia.

(* --- item-list surgery, up to permutation ----------------------------------------------------------------------------- *)
Lemma perm_set_nth : forall l n k0 old k nw,
  nth_error l n = Some (k0, old) ->
  Permutation (ids_items (set_nth n (k, nw) l) ++ ids old) (ids_items l ++ ids nw).
Proof.
  induction l as [|[k1 c] r]; intros; destruct n; simpl in H; try discriminate.
  - inv H. simpl. rewrite !ids_items_cons. perm.
  - simpl. rewrite !ids_items_cons. specialize (IHr _ _ _ k nw H). perm.
Qed.
Lemma perm_insert_at : forall l n k nw,
  Permutation (ids_items (insert_at n (k, nw) l)) (ids_items l ++ ids nw).
Proof.
  induction l as [|[k1 c] r]; intros; destruct n; simpl; rewrite ?ids_items_cons; try (specialize (IHr n k nw)); perm.
Qed.
Lemma perm_remove_nth : forall l n k0 old,
  nth_error l n = Some (k0, old) -> Permutation (ids_items (remove_nth n l) ++ ids old) (ids_items l).
Proof.
  induction l as [|[k1 c] r]; intros; destruct n; simpl in H; try discriminate.
  - inv H. simpl. rewrite ids_items_cons. perm.
  - simpl. rewrite !ids_items_cons. specialize (IHr _ _ _ H). perm.
Qed.
Lemma perm_rev : forall l, Permutation (ids_items (rev l)) (ids_items l).
Proof.
  induction l as [|[k c] r]; simpl; auto. rewrite ids_items_app, !ids_items_cons. perm.
Qed.
Lemma perm_flat_map : forall A B (f : A -> list B) l l', Permutation l l' -> Permutation (flat_map f l) (flat_map f l').
Proof.
  induction 1; simpl; auto.
  - apply Permutation_app_head; auto.
  - rewrite !app_assoc. apply Permutation_app_tail. apply Permutation_app_comm.
  - eapply perm_trans; eauto.
Qed.
Lemma insert_sorted_perm : forall A le (x : Z * A) l, Permutation (insert_sorted le x l) (x :: l).
Proof.
  induction l; simpl; auto. destruct (le (fst x) (fst a)); auto.
  eapply perm_trans. apply perm_skip. apply IHl. apply perm_swap.
Qed.
Lemma stable_sort_perm : forall A rv (l : list (Z * A)), Permutation (stable_sort rv l) l.
Proof.
  unfold stable_sort. induction l; simpl; auto.
  eapply perm_trans. apply insert_sorted_perm. auto.
Qed.
Lemma map_snd_zip_keys : forall A ks (l : list A), map snd (zip_keys ks l) = l.
Proof. intros A ks l; revert ks; induction l; simpl; intros; auto. destruct ks; simpl; f_equal; auto. Qed.
Lemma perm_sorted : forall rv ks (l : list (key * node)),
  Permutation (ids_items (map snd (stable_sort rv (zip_keys ks l)))) (ids_items l).
Proof.
  intros. unfold ids_items. apply perm_flat_map.
  rewrite <- (map_snd_zip_keys _ ks l) at 2. apply Permutation_map. apply stable_sort_perm.
Qed.
Lemma perm_set_assoc_some : forall l k old nw,
  assoc k l = Some old -> Permutation (ids_items (set_assoc k nw l) ++ ids old) (ids_items l ++ ids nw).
Proof.
  induction l as [|[k1 c] r]; simpl; intros; try discriminate.
  destruct (key_eqb k k1).
  - inv H. rewrite !ids_items_cons. perm.
  - rewrite !ids_items_cons. specialize (IHr _ _ nw H). perm.
Qed.
Lemma set_assoc_none : forall A k (v : A) l, assoc k l = None -> set_assoc k v l = l ++ [(k, v)].
Proof.
  induction l as [|[k1 c] r]; simpl; intros; auto. destruct (key_eqb k k1); [discriminate|]. f_equal; auto.
Qed.
Lemma perm_remove_assoc : forall l k old,
  assoc k l = Some old -> Permutation (ids_items (remove_assoc k l) ++ ids old) (ids_items l).
Proof.
  induction l as [|[k1 c] r]; simpl; intros; try discriminate.
  destruct (key_eqb k k1).
  - inv H. rewrite ids_items_cons. perm.
  - rewrite !ids_items_cons. specialize (IHr _ _ H). perm.
Qed.
Lemma remove_assoc_none : forall A k (l : list (key * A)), assoc k l = None -> remove_assoc k l = l.
Proof. induction l as [|[k1 c] r]; simpl; intros; auto. destruct (key_eqb k k1); [discriminate|]. f_equal; auto. Qed.
Lemma perm_removelast : forall l k old r, rev l = (k, old) :: r ->
  Permutation (ids_items (removelast l) ++ ids old) (ids_items l).
Proof.
  intros. assert (l = rev r ++ [(k, old)]).
  { rewrite <- (rev_involutive l), H. reflexivity. }
  subst l. rewrite removelast_last, ids_items_app, ids_items_cons. perm.
Qed.

(* --- ids of a state under the state surgery ----------------------------------------------------------------------------- *)
Lemma ids_items_map_assoc : forall k f l c,
  assoc k l = Some c -> Permutation (ids_items (map_assoc k f l) ++ ids c) (ids_items l ++ ids (f c)).
Proof.
  induction l as [|[k1 c1] r]; simpl; intros; try discriminate.
  destruct (key_eqb k k1).
  - inv H. rewrite !ids_items_cons. perm.
  - rewrite !ids_items_cons. specialize (IHr _ H). perm.
Qed.
Lemma ids_update_in : forall p f t c,
  get_in p t = Some c -> Permutation (ids (update_in p f t) ++ ids c) (ids t ++ ids (f c)).
Proof.
  induction p; simpl; intros.
  - inv H. perm.
  - destruct t as [l|i k pa pt fl its]; simpl in H; [discriminate|].
    destruct (assoc a its) as [c0|] eqn:A; [|discriminate].
    rewrite !ids_node.
    pose proof (ids_items_map_assoc a (update_in p f) its c0 A) as P1.
    pose proof (IHp f c0 c H) as P2.
    apply perm_cnt; intro x. pose proof (proj1 (perm_cnt _ _) P1 x). pose proof (proj1 (perm_cnt _ _) P2 x).
    rewrite ?cnt_app, ?cnt_cons in *. rewrite ?cnt_app in *. lia.
Qed.
Lemma ids_update_in_none : forall p f t, get_in p t = None -> update_in p f t = t.
Proof.
  induction p; simpl; intros; [discriminate|].
  destruct t as [l|i k pa pt fl its]; auto. simpl in H. f_equal.
  induction its as [|[k1 c1] r]; simpl in *; auto.
  destruct (key_eqb a k1); [rewrite IHp; auto| f_equal; auto].
Qed.

Lemma all_ids_set_nth : forall rs r s old,
  nth_error rs r = Some old ->
  Permutation (flat_map ids_slot (set_nth r s rs) ++ ids_slot old) (flat_map ids_slot rs ++ ids_slot s).
Proof.
  induction rs; intros; destruct r; simpl in H; try discriminate.
  - inv H. simpl. perm.
  - simpl. specialize (IHrs _ s _ H). perm.
Qed.
Lemma set_nth_none : forall A (rs : list A) r s, nth_error rs r = None -> set_nth r s rs = rs.
Proof. induction rs; intros; destruct r; simpl in *; auto; try discriminate. f_equal; auto. Qed.

Lemma all_ids_update_at : forall st ps f c,
  get_at st ps = Some c ->
  Permutation (all_ids (update_at st ps f) ++ ids c) (all_ids st ++ ids (f c)).
Proof.
  unfold get_at, update_at, all_ids; intros.
  destruct (get_root st (fst ps)) as [t|] eqn:E; [|discriminate].
  unfold get_root in E. destruct (nth_error (roots st) (fst ps)) as [[t'|]|] eqn:NE; try discriminate. inv E.
  simpl. pose proof (all_ids_set_nth _ _ (Live (update_in (snd ps) f t)) _ NE) as P1. simpl in P1.
  pose proof (ids_update_in _ f _ _ H) as P2. perm.
Qed.
Lemma all_ids_update_at_same : forall st ps f,
  (forall n, ids (f n) = ids n) -> Permutation (all_ids (update_at st ps f)) (all_ids st).
Proof.
  intros. destruct (get_at st ps) as [c|] eqn:G.
  - pose proof (all_ids_update_at _ _ f _ G) as P1. rewrite H in P1. perm.
  - unfold update_at, get_at in *. destruct (get_root st (fst ps)) as [t|] eqn:E; auto.
    rewrite ids_update_in_none; auto.
    unfold get_root in E. destruct (nth_error (roots st) (fst ps)) as [[t'|]|] eqn:NE; try discriminate. inv E.
    unfold all_ids, set_root. simpl.
    pose proof (all_ids_set_nth _ _ (Live t) _ NE) as P1. simpl in P1. perm.
Qed.
Lemma restore_slot_ids : forall i t rs rs', restore_slot i t rs = Some rs' ->
  Permutation (flat_map ids_slot rs') (flat_map ids_slot rs ++ ids t).
Proof.
  induction rs; simpl; intros; try discriminate. destruct a.
  - destruct (restore_slot i t rs) eqn:E; [|discriminate]. inv H. simpl. specialize (IHrs _ eq_refl). perm.
  - destruct (N.eqb i i0).
    + inv H. simpl. perm.
    + destruct (restore_slot i t rs) eqn:E; [|discriminate]. inv H. simpl. specialize (IHrs _ eq_refl). perm.
Qed.
Lemma all_ids_add_root : forall st t, all_ids (add_root st t) = all_ids st ++ ids t.
Proof. intros. unfold all_ids, add_root. simpl. rewrite flat_map_app. simpl. rewrite app_nil_r. auto. Qed.
Lemma all_ids_add_detached : forall st n, Permutation (all_ids (add_detached st n)) (all_ids st ++ ids n).
Proof.
  intros. destruct n as [l|i k pa pt fl its]; [simpl; rewrite app_nil_r; auto|].
  unfold add_detached.
  destruct (restore_slot i (detach (Node i k pa pt fl its)) (roots st)) eqn:E.
  - unfold all_ids; simpl. apply restore_slot_ids in E. rewrite ids_detach in E. auto.
  - rewrite all_ids_add_root, ids_detach. auto.
Qed.

(* --- the invariant and the relation between successive states ---------------------------------------------------------------- *)
Definition IDS (st : state) : Prop := NoDup (all_ids st) /\ ids_below (next_id st) (all_ids st).
(* st' holds ids of st plus fresh ones (some may have been dropped as garbage) *)
Definition ids_rel (st st' : state) : Prop :=
  (next_id st <= next_id st')%N /\
  exists fresh rest, Permutation (all_ids st' ++ rest) (all_ids st ++ fresh) /\
                     in_range (next_id st) (next_id st') fresh /\ NoDup fresh.
Lemma ids_rel_refl : forall st, ids_rel st st.
Proof. intros. split. lia. exists [], []. repeat split; auto; try constructor. Qed.
Lemma ids_rel_same : forall st st', next_id st' = next_id st -> Permutation (all_ids st') (all_ids st) -> ids_rel st st'.
Proof.
  intros. split. lia. exists [], []. rewrite !app_nil_r. repeat split; auto; constructor.
Qed.
Lemma ids_rel_trans : forall a b c, ids_rel a b -> ids_rel b c -> ids_rel a c.
Proof.
  intros a b c (L1 & f1 & r1 & P1 & R1 & N1) (L2 & f2 & r2 & P2 & R2 & N2).
  split. lia. exists (f1 ++ f2), (r2 ++ r1). repeat split.
  - perm.
  - apply in_range_app; eapply in_range_weaken; eauto; lia.
  - apply nodup_app; auto. intros x I J. eapply (ranges_disjoint (next_id a) (next_id b) (next_id c) f1 f2); eauto.
Qed.
Lemma perm_nodup : forall (a b : list N), Permutation a b -> NoDup a -> NoDup b.
Proof. intros. eapply Permutation_NoDup; eauto. Qed.
Lemma IDS_step : forall st st', IDS st -> ids_rel st st' -> IDS st'.
Proof.
  intros st st' (ND & B) (L & fresh & rest & P & R & NF).
  assert (NA : NoDup (all_ids st ++ fresh)).
  { apply nodup_app; auto. intros x I J. unfold ids_below in B. rewrite Forall_forall in B.
    unfold in_range in R. rewrite Forall_forall in R. specialize (B _ I). specialize (R _ J). simpl in *. lia. }
  assert (NB : NoDup (all_ids st' ++ rest)) by (eapply perm_nodup; [apply Permutation_sym; eauto|auto]).
  apply nodup_app_inv in NB. destruct NB as (N1 & _ & _). split; auto.
  unfold ids_below. rewrite Forall_forall. intros x I.
  assert (In x (all_ids st ++ fresh)).
  { eapply Permutation_in; [exact P|]. apply in_app_iff; auto. }
  apply in_app_iff in H. destruct H.
  - unfold ids_below in B. rewrite Forall_forall in B. specialize (B _ H). lia.
  - unfold in_range in R. rewrite Forall_forall in R. specialize (R _ H). simpl in R. lia.
Qed.


(* --- where an id is --------------------------------------------------------------------------------------------------------- *)
Lemma positions_lt : forall l i k, positions i l -> In k l -> exists j, k = KI j /\ i <= j.
Proof.
  induction l; simpl; intros. tauto. destruct H. destruct H0.
  - subst. exists i; split; auto; lia.
  - destruct (IHl _ _ H1 H0) as (j & E & L). exists j; split; auto; lia.
Qed.
Lemma positions_nodup : forall l i, positions i l -> NoDup l.
Proof.
  induction l; simpl; intros. constructor. destruct H. constructor; eauto.
  intro I. destruct (positions_lt _ _ _ H0 I) as (j & E & L). subst. inv E. lia.
Qed.
Lemma class_fields_nodup : forall c, NoDup (class_fields c).
Proof.
  intros. unfold class_fields.
  assert (kx <> ky /\ kx <> kz /\ ky <> kz) as (A & B & C) by (repeat split; discriminate).
  destruct c as [|[| |]]; repeat constructor; simpl; intuition congruence.
Qed.
Lemma keys_ok_nodup : forall k ks, keys_ok k ks -> NoDup ks.
Proof. destruct k; simpl; intros; subst; eauto using positions_nodup, class_fields_nodup. Qed.
Lemma assoc_some_in_keys : forall A k (l : list (key * A)) v, assoc k l = Some v -> In k (map fst l).
Proof.
  induction l as [|[k1 v1] r]; simpl; intros; try discriminate.
  destruct (key_eqb k k1) eqn:E; [apply key_eqb_eq in E; auto | eauto].
Qed.

Definition found_at (i : N) (q : list key) (c : node) : Prop :=
  exists k pa pt fl its, get_in q c = Some (Node i k pa pt fl its).
Lemma find_in_items : forall i (its : list (key * node)) p,
  NoDup (map fst its) ->
  Forall (fun kv => forall q, find_id i (snd kv) = Some q -> found_at i q (snd kv)) its ->
  (fix go (l : list (key * node)) : option (list key) :=
     match l with
     | [] => None
     | (k, c) :: r => match find_id i c with Some p => Some (k :: p) | None => go r end
     end) its = Some p ->
  exists a q c, p = a :: q /\ assoc a its = Some c /\ found_at i q c.
Proof.
  induction its as [|[k0 c] r IH]; intros; [discriminate|].
  inversion H0 as [|? ? Hh Ht]; subst. simpl in Hh. inv H.
  destruct (find_id i c) as [q|] eqn:FI.
  - inv H1. exists k0, q, c. simpl. rewrite key_eqb_refl. auto.
  - destruct (IH _ H5 Ht H1) as (a & q & c' & E & A & FA). subst.
    exists a, q, c'. split; auto. split; auto. simpl.
    destruct (key_eqb a k0) eqn:EK; auto.
    apply key_eqb_eq in EK; subst a. exfalso. apply H4. eapply assoc_some_in_keys; eauto.
Qed.
Lemma find_id_spec : forall i t ep epth p, wf_node ep epth t -> find_id i t = Some p -> found_at i p t.
Proof.
  intros i t. induction t as [l|j k pa pt fl its IHits] using node_ind'; simpl; intros; [discriminate|].
  destruct (N.eqb i j) eqn:E.
  - inv H0. apply N.eqb_eq in E; subst. unfold found_at. simpl. repeat eexists.
  - apply wf_node_unfold in H. destruct H as (_ & _ & KO & F).
    apply keys_ok_nodup in KO.
    destruct (find_in_items i its p KO) as (a & q & c & E1 & A & FA); auto.
    + rewrite Forall_forall in *. intros kv I q FI. eapply IHits; eauto.
    + subst. unfold found_at in *. simpl. rewrite A. auto.
Qed.
Lemma locate_from_spec : forall i rs idx ps, Forall wf_slot rs -> locate_from i rs idx = Some ps ->
  exists t k pa pt fl its, nth_error rs (fst ps - idx) = Some (Live t) /\ (idx <= fst ps)%nat /\
                           get_in (snd ps) t = Some (Node i k pa pt fl its).
Proof.
  induction rs; simpl; intros; [discriminate|]. inv H. destruct a.
  - destruct (find_id i t) as [p|] eqn:F.
    + inv H0. simpl. destruct H3 as [_ W]. destruct (find_id_spec _ _ _ _ _ W F) as (k & pa & pt & fl & its & G).
      exists t, k, pa, pt, fl, its. rewrite Nat.sub_diag. simpl. auto.
    + destruct (IHrs _ _ H4 H0) as (t' & k & pa & pt & fl & its & NE & L & G).
      exists t', k, pa, pt, fl, its. repeat split; auto; [|lia].
      replace (fst ps - idx)%nat with (S (fst ps - S idx)) by lia. auto.
  - destruct (IHrs _ _ H4 H0) as (t' & k & pa & pt & fl & its & NE & L & G).
    exists t', k, pa, pt, fl, its. repeat split; auto; [|lia].
    replace (fst ps - idx)%nat with (S (fst ps - S idx)) by lia. auto.
Qed.
Lemma locate_spec : forall st i ps, wfs st -> locate st i = Some ps ->
  exists k pa pt fl its, get_at st ps = Some (Node i k pa pt fl its).
Proof.
  unfold locate; intros. destruct (locate_from_spec _ _ _ _ H H0) as (t & k & pa & pt & fl & its & NE & _ & G).
  exists k, pa, pt, fl, its. unfold get_at, get_root. rewrite Nat.sub_0_r in NE. rewrite NE. auto.
Qed.

Lemma get_in_ids : forall p t i k pa pt fl its, get_in p t = Some (Node i k pa pt fl its) -> In i (ids t).
Proof.
  induction p; simpl; intros.
  - inv H. simpl; auto.
  - destruct t as [l|j kd pa0 pt0 fl0 its0]; simpl in *; [discriminate|].
    destruct (assoc a its0) as [c|] eqn:A; [|discriminate]. right.
    destruct (assoc_in _ _ _ _ A) as (k' & _ & I).
    apply in_flat_map. exists (k', c). split; auto. simpl. eauto.
Qed.
Lemma slots_disjoint : forall rs r1 r2 t1 t2 i,
  NoDup (flat_map ids_slot rs) -> nth_error rs r1 = Some (Live t1) -> nth_error rs r2 = Some (Live t2) ->
  In i (ids t1) -> In i (ids t2) -> r1 = r2.
Proof.
  induction rs; intros; destruct r1, r2; simpl in *; try discriminate; auto.
  - inv H0. simpl in H. apply nodup_app_inv in H. destruct H as (_ & _ & D). exfalso. eapply D; eauto.
    apply in_flat_map. exists (Live t2). split; auto. eapply nth_error_In; eauto.
  - inv H1. simpl in H. apply nodup_app_inv in H. destruct H as (_ & _ & D). exfalso. eapply D; eauto.
    apply in_flat_map. exists (Live t1). split; auto. eapply nth_error_In; eauto.
  - f_equal. apply nodup_app_inv in H. destruct H as (_ & H & _). eauto.
Qed.
Lemma same_id_same_root : forall st r1 p1 r2 p2 i k1 pa1 pt1 fl1 its1 k2 pa2 pt2 fl2 its2,
  NoDup (all_ids st) ->
  get_at st (r1, p1) = Some (Node i k1 pa1 pt1 fl1 its1) -> get_at st (r2, p2) = Some (Node i k2 pa2 pt2 fl2 its2) ->
  r1 = r2.
Proof.
  unfold get_at, get_root; simpl; intros.
  destruct (nth_error (roots st) r1) as [[t1|]|] eqn:E1; try discriminate.
  destruct (nth_error (roots st) r2) as [[t2|]|] eqn:E2; try discriminate.
  eapply slots_disjoint; eauto using get_in_ids.
Qed.

Lemma positions_assoc : forall (l : list (key * node)) i n k0 old,
  positions i (map fst l) -> nth_error l n = Some (k0, old) -> assoc (KI (i + Z.of_nat n)) l = Some old.
Proof.
  induction l as [|[k1 c] r]; intros; destruct n; simpl in H0; try discriminate; simpl in H; destruct H.
  - inv H0. simpl. rewrite Z.add_0_r, Z.eqb_refl. auto.
  - subst k1.
    replace (i + Z.of_nat (S n)) with ((i + 1) + Z.of_nat n) by (rewrite Nat2Z.inj_succ; lia).
    simpl. destruct (i + 1 + Z.of_nat n =? i) eqn:E; [lia|]. eapply IHr; eauto.
Qed.
Lemma positions_assoc_none : forall (l : list (key * node)) i j,
  positions i (map fst l) -> (j < i \/ i + zlen l <= j) -> assoc (KI j) l = None.
Proof.
  induction l as [|[k1 c] r]; simpl; intros; auto. destruct H. subst. simpl.
  destruct (j =? i) eqn:E; [unfold zlen in *; simpl in *; lia|].
  apply IHr with (i := i + 1); auto. unfold zlen in *. simpl length in *. lia.
Qed.

Lemma inner_has_parent : forall st r p i k pa pt fl its,
  wfs st -> p <> [] -> get_at st (r, p) = Some (Node i k pa pt fl its) ->
  exists p' kk cid ck cpa cpt cfl cits,
    p = p' ++ [kk] /\ get_at st (r, p') = Some (Node cid ck cpa cpt cfl cits) /\ pa = Some cid /\ pt = p.
Proof.
  intros. destruct (exists_last H0) as (p' & kk & E). subst p.
  pose proof H1 as G. unfold get_at in G. simpl in G.
  destruct (get_root st r) as [t|] eqn:R; [|discriminate].
  rewrite get_in_app in G. destruct (get_in p' t) as [c|] eqn:GC; [|discriminate].
  destruct c as [l|cid ck cpa cpt cfl cits]; [simpl in G; discriminate|].
  assert (GA : get_at st (r, p') = Some (Node cid ck cpa cpt cfl cits)).
  { unfold get_at. simpl. rewrite R. auto. }
  destruct (child_reports_container _ _ _ _ _ _ _ _ _ _ _ _ _ _ _ _ H GA H1) as (E1 & E2).
  exists p', kk, cid, ck, cpa, cpt, cfl, cits. auto.
Qed.

(* --- formalize: the stored value brings fresh ids, or moves the ids of a root; nothing is duplicated ----------------------- *)
Definition not_current (its : list (key * node)) (k : key) (rv : rvalue) : Prop :=
  forall i, rv = RNodeId i -> match assoc k its with Some (Node j _ _ _ _ _) => j <> i | _ => True end.

Ltac trivial_ids :=
  split; [lia|]; split; [auto|]; exists []; simpl; rewrite ?app_nil_r;
  split; [apply Permutation_refl|]; split; constructor.

Opaque set_path.
Lemma formalize_ids : forall q sc st cp ck cid pa pt cfl its k ins rv nw st1,
  wfs st -> IDS st -> rv_ok rv ->
  get_at st cp = Some (Node cid ck pa pt cfl its) ->
  (ins = false -> not_current its k rv) ->
  formalize q sc st (fst cp) ck cid cfl (pt ++ [k]) ins rv = (nw, st1) ->
  (next_id st <= next_id st1)%N /\
  get_root st1 (fst cp) = get_root st (fst cp) /\
  exists fresh, Permutation (all_ids st1 ++ ids nw) (all_ids st ++ fresh) /\
                in_range (next_id st) (next_id st1) fresh /\ NoDup fresh.
Proof.
  intros q sc st cp ck cid pa pt cfl its k ins rv nw st1 W (ND & BL) OK G NC F.
  destruct (container_facts _ _ _ _ _ _ _ _ W G) as (Ept & KO & FC).
  destruct rv; simpl in F.
  - inv F. trivial_ids.
  - pose proof (build_ids l (accepts_partial sc cfl) (Some cid) (pt ++ [k]) (next_id st)) as B.
    destruct (build (accepts_partial sc cfl) (Some cid) (pt ++ [k]) l (next_id st)) as [n nx].
    inversion F; subst nw st1; clear F.
    destruct B as (L & R & N). simpl in *. split; auto. split; auto.
    exists (ids n). repeat split; auto.
  - destruct (locate st i) as [vpos|] eqn:LO.
    2:{ inv F. trivial_ids. }
    destruct (locate_spec _ _ _ W LO) as (vk & vpa & vpt & vfl & vits & GV). rewrite GV in F.
    destruct (needs_clone (fst cp) ck cid (pt ++ [k]) ins vpos (Node i vk vpa vpt vfl vits)) eqn:NCL.
    + pose proof (clone_at_ids (q_copy_drops_missing q) false (Node i vk vpa vpt vfl vits) (Some cid) (pt ++ [k]) (next_id st, [])) as C.
      destruct (clone_at (q_copy_drops_missing q) false (Some cid) (pt ++ [k]) (Node i vk vpa vpt vfl vits) (next_id st, [])) as [c cs].
      inversion F; subst nw st1; clear F.
      destruct C as (L & R & N). simpl in *. split; auto. split; auto. exists (ids c). repeat split; auto.
    + destruct vpos as [rv pv]. simpl in *.
      destruct pv as [|a pv'].
      * (* a root is adopted: its slot is emptied *)
        inversion F; subst nw st1; clear F.
        destruct (root_reports_no_parent _ _ _ _ _ _ _ _ W GV) as (E1 & E2). subst.
        unfold needs_clone in NCL. simpl in NCL. rewrite andb_true_r in NCL. apply Nat.eqb_neq in NCL.
        split; [simpl; lia|]. split; [apply get_root_set_root_other; auto|].
        exists []. rewrite app_nil_r. split; [|split; constructor].
        rewrite ids_set_par, ids_set_path.
        unfold get_at, get_root in GV. simpl in GV.
        destruct (nth_error (roots st) rv) as [[t|]|] eqn:NE; try discriminate. inv GV.
        unfold all_ids, set_root. simpl.
        pose proof (all_ids_set_nth _ _ (Moved i) _ NE) as P1. simpl in P1. perm.
      * (* an inner node that is not cloned would have to be the element that is being replaced *)
        exfalso.
        assert (NE : a :: pv' <> []) by discriminate.
        destruct (inner_has_parent _ _ _ _ _ _ _ _ _ W NE GV) as (p' & kk & cid' & ck' & cpa' & cpt' & cfl' & cits' & E1 & GP & E2 & E3).
        subst vpa vpt. unfold needs_clone in NCL. simpl in NCL.
        destruct ck; try discriminate.
        -- apply orb_false_iff in NCL. destruct NCL as [N1 N2]. apply negb_false_iff in N1.
           apply andb_true_iff in N1. destruct N1 as [N1 N3]. apply N.eqb_eq in N1. subst cid'.
           rewrite N.eqb_refl, andb_true_r in N2. subst ins.
           apply path_eqb_eq in N3.
           rewrite E1 in N3. apply app_inj_tail in N3. destruct N3; subst p' kk.
           assert (rv = fst cp).
           { destruct cp as [r cp']. simpl in *. subst pt. eapply same_id_same_root; eauto. }
           subst rv. destruct cp as [r cp']. simpl in *. subst pt. rewrite G in GP. inv GP.
           specialize (NC eq_refl i eq_refl).
           rewrite E1 in GV. unfold get_at in GV, G. simpl in *. destruct (get_root st r); [|discriminate].
           rewrite get_in_app, G in GV. simpl in GV. destruct (assoc k cits') as [c|]; [|discriminate]. inv GV. congruence.
        -- apply orb_false_iff in NCL. destruct NCL as [N1 N2]. apply negb_false_iff in N1.
           apply andb_true_iff in N1. destruct N1 as [N1 N3]. apply N.eqb_eq in N1. subst cid'.
           rewrite N.eqb_refl, andb_true_r in N2. subst ins.
           apply path_eqb_eq in N3.
           rewrite E1 in N3. apply app_inj_tail in N3. destruct N3; subst p' kk.
           assert (rv = fst cp).
           { destruct cp as [r cp']. simpl in *. subst pt. eapply same_id_same_root; eauto. }
           subst rv. destruct cp as [r cp']. simpl in *. subst pt. rewrite G in GP. inv GP.
           specialize (NC eq_refl i eq_refl).
           rewrite E1 in GV. unfold get_at in GV, G. simpl in *. destruct (get_root st r); [|discriminate].
           rewrite get_in_app, G in GV. simpl in GV. destruct (assoc k cits') as [c|]; [|discriminate]. inv GV. congruence.
  - inv F. trivial_ids.
Qed.
Transparent set_path.

(* --- the write primitives ------------------------------------------------------------------------------------------------------ *)
Definition WFI (st : state) : Prop := wfs st /\ IDS st.

Lemma next_update_at : forall st ps f, next_id (update_at st ps f) = next_id st.
Proof. intros. unfold update_at. destruct (get_root st (fst ps)); auto. Qed.
Lemma next_add_detached : forall st n, next_id (add_detached st n) = next_id st.
Proof.
  intros. destruct n; simpl; auto. destruct (restore_slot _ _ _); auto.
Qed.
Lemma next_fix_chain : forall st ps, next_id (fix_chain st ps) = next_id st.
Proof.
  intros. unfold fix_chain. generalize (prefixes_desc (snd ps)). intros l. revert st.
  induction l; simpl; intros; auto. rewrite IHl. apply next_update_at.
Qed.
Lemma all_ids_fix_chain : forall st ps, Permutation (all_ids (fix_chain st ps)) (all_ids st).
Proof.
  intros. unfold fix_chain. generalize (prefixes_desc (snd ps)). intros l. revert st.
  induction l; simpl; intros; auto.
  eapply perm_trans. apply IHl. apply all_ids_update_at_same. apply ids_purge_list.
Qed.
Lemma fix_chain_rel : forall st ps, ids_rel st (fix_chain st ps).
Proof. intros. apply ids_rel_same. apply next_fix_chain. apply all_ids_fix_chain. Qed.
Lemma fix_chains_rel : forall l st, ids_rel st (fix_chains st l).
Proof.
  unfold fix_chains. induction l; simpl; intros. apply ids_rel_refl.
  eapply ids_rel_trans; [|apply IHl]. destruct (locate st a). apply fix_chain_rel. apply ids_rel_refl.
Qed.
Lemma notified_rel : forall sc st ps p, ids_rel st (notified sc st ps p).
Proof. intros. unfold notified. destruct p; try apply ids_rel_refl. destruct (notify_on sc). apply fix_chain_rel. apply ids_rel_refl. Qed.

Lemma replace_items_ids : forall st st1 cp cid ck pa pt fl its its' nw fresh olds,
  get_at st cp = Some (Node cid ck pa pt fl its) -> get_root st1 (fst cp) = get_root st (fst cp) ->
  Permutation (all_ids st1 ++ ids nw) (all_ids st ++ fresh) ->
  Permutation (ids_items its' ++ olds) (ids_items its ++ ids nw) ->
  Permutation (all_ids (update_at st1 cp (set_items its')) ++ olds) (all_ids st ++ fresh).
Proof.
  intros.
  assert (G1 : get_at st1 cp = Some (Node cid ck pa pt fl its)) by (unfold get_at in *; rewrite H0; auto).
  pose proof (all_ids_update_at _ _ (set_items its') _ G1) as P1. simpl in P1.
  apply perm_cnt; intro x.
  pose proof (proj1 (perm_cnt _ _) P1 x). pose proof (proj1 (perm_cnt _ _) H1 x). pose proof (proj1 (perm_cnt _ _) H2 x).
  rewrite ?cnt_app, ?cnt_cons in *. fold (ids_items its) in *. fold (ids_items its') in *. lia.
Qed.
Lemma detached_rel : forall st st2 old fresh,
  (next_id st <= next_id st2)%N -> in_range (next_id st) (next_id st2) fresh -> NoDup fresh ->
  Permutation (all_ids st2 ++ ids old) (all_ids st ++ fresh) ->
  ids_rel st (add_detached st2 old).
Proof.
  intros. split. rewrite next_add_detached; auto.
  exists fresh, []. rewrite app_nil_r, next_add_detached. repeat split; auto.
  eapply perm_trans. apply all_ids_add_detached. auto.
Qed.

Lemma same_obj_not_current_nth : forall its idx k0 old v,
  positions 0 (map fst its) -> 0 <= idx -> nth_error its (Z.to_nat idx) = Some (k0, old) -> same_obj old v = false ->
  not_current its (KI idx) v.
Proof.
  intros. intros i E. subst v.
  rewrite <- (Z2Nat.id idx) by auto. change (KI (Z.of_nat (Z.to_nat idx))) with (KI (0 + Z.of_nat (Z.to_nat idx))).
  erewrite positions_assoc; eauto. destruct old; auto. simpl in H2. apply N.eqb_neq in H2. auto.
Qed.

Lemma lprim_ids : forall q sc st cp k rv st' p,
  WFI st -> rv_ok rv -> lprim q sc st cp k rv = (st', p) -> ids_rel st st'.
Proof.
  intros q sc st cp k rv st' p (W & I) OK L. unfold lprim in L.
  destruct (get_at st cp) as [[|cid ck pa pt cfl its]|] eqn:G; try (inv L; apply ids_rel_refl).
  destruct ck; try (inv L; apply ids_rel_refl).
  destruct (container_facts _ _ _ _ _ _ _ _ W G) as (Ept & K & F). simpl in K.
  destruct k as [s|z]; [inv L; apply ids_rel_refl|].
  destruct ((z >=? zlen its) && is_missing_rv rv); [inv L; apply ids_rel_refl|].
  set (n := zlen its) in *.
  set (idx0 := if z >=? n then n else z) in *.
  destruct (match rv with RIns v' => (true, v') | _ => (false, rv) end) as [ins v] eqn:IV.
  assert (OKv : rv_ok v). { destruct rv; inv IV; simpl in *; auto. }
  set (idx := if idx0 <? 0 then if idx0 >=? - n then idx0 + n else if ins then 0 else idx0 else idx0) in *.
  destruct ((idx <? n) && negb ins) eqn:C1.
  - destruct (idx <? 0) eqn:C2; [inv L; apply ids_rel_refl|].
    destruct (nth_error its (Z.to_nat idx)) as [[k0 old]|] eqn:NE; [|inv L; apply ids_rel_refl].
    destruct (same_obj old v) eqn:SO; [inv L; apply ids_rel_refl|].
    destruct (formalize q sc st (fst cp) KList cid cfl (pt ++ [KI idx]) false v) as [nw st1] eqn:FO.
    assert (NC : false = false -> not_current its (KI idx) v).
    { intros _. eapply same_obj_not_current_nth; eauto. lia. }
    destruct (formalize_ids _ _ _ _ _ _ _ _ _ _ _ _ _ _ _ W I OKv G NC FO) as (L1 & R1 & fresh & P1 & RG & NF).
    inv L. eapply detached_rel; eauto; rewrite ?next_update_at; auto.
    eapply replace_items_ids; eauto. eapply perm_set_nth; eauto.
  - destruct (formalize q sc st (fst cp) KList cid cfl (pt ++ [KI idx]) ins v) as [nw st1] eqn:FO.
    assert (NC : ins = false -> not_current its (KI idx) v).
    { intros E i _. subst ins. rewrite andb_true_r in C1.
      rewrite positions_assoc_none with (i := 0); auto. right. unfold n in *. lia. }
    destruct (formalize_ids _ _ _ _ _ _ _ _ _ _ _ _ _ _ _ W I OKv G NC FO) as (L1 & R1 & fresh & P1 & RG & NF).
    assert (X : forall its', Permutation (ids_items its') (ids_items its ++ ids nw) ->
                ids_rel st (update_at st1 cp (set_items its'))).
    { intros its' PI. split. rewrite next_update_at; auto.
      exists fresh, []. rewrite next_update_at. repeat split; auto.
      eapply replace_items_ids; eauto. rewrite app_nil_r; auto. }
    destruct (idx <? n); inv L; apply X.
    + rewrite ids_items_renum. apply perm_insert_at.
    + rewrite ids_items_app. unfold ids_items at 2. simpl. rewrite app_nil_r. auto.
Qed.

Lemma dprim_ids : forall q sc st cp k rv st' p,
  WFI st -> rv_ok rv -> dprim q sc st cp k rv = (st', p) -> ids_rel st st'.
Proof.
  intros q sc st cp k rv st' p (W & I) OK L. unfold dprim in L.
  destruct (get_at st cp) as [[|cid ck pa pt cfl its]|] eqn:G; try (inv L; apply ids_rel_refl).
  destruct ck; try (inv L; apply ids_rel_refl).
  set (old := match assoc k its with Some o => o | None => Leaf LMissing end) in *.
  destruct (same_obj old rv) eqn:SO; [inv L; apply ids_rel_refl|].
  assert (PO : forall its' nw, (match assoc k its with Some _ => Permutation (ids_items its' ++ ids old) (ids_items its ++ ids nw)
                                                   | None => Permutation (ids_items its') (ids_items its ++ ids nw) end) ->
               Permutation (ids_items its' ++ ids old) (ids_items its ++ ids nw)).
  { intros. unfold old in *. destruct (assoc k its); auto. simpl. rewrite app_nil_r. auto. }
  destruct (is_missing_rv rv).
  - inv L. eapply detached_rel; try rewrite next_update_at; try lia; try constructor.
    apply (replace_items_ids st st cp cid KDict pa pt cfl its (remove_assoc k its) (Leaf LNone) [] (ids old) G eq_refl).
    + simpl. auto.
    + apply PO. destruct (assoc k its) eqn:A.
      * simpl. rewrite app_nil_r. apply perm_remove_assoc; auto.
      * simpl. rewrite app_nil_r, remove_assoc_none; auto.
  - destruct (formalize q sc st (fst cp) KDict cid cfl (pt ++ [k]) false rv) as [nw st1] eqn:FO.
    assert (NC : false = false -> not_current its k rv).
    { intros _ i E. subst rv. unfold old in SO. destruct (assoc k its) as [[|j]|]; auto. simpl in SO.
      apply N.eqb_neq in SO; auto. }
    destruct (formalize_ids _ _ _ _ _ _ _ _ _ _ _ _ _ _ _ W I OK G NC FO) as (L1 & R1 & fresh & P1 & RG & NF).
    inv L. eapply detached_rel; eauto; rewrite ?next_update_at; auto.
    eapply replace_items_ids; eauto. apply PO. destruct (assoc k its) eqn:A.
    + apply perm_set_assoc_some; auto.
    + rewrite set_assoc_none; auto. rewrite ids_items_app. unfold ids_items at 2. simpl. rewrite app_nil_r. auto.
Qed.

Lemma oprim_ids : forall q sc st cp k rv st' p,
  WFI st -> rv_ok rv -> oprim q sc st cp k rv = (st', p) -> ids_rel st st'.
Proof.
  intros q sc st cp k rv st' p (W & I) OK L. unfold oprim in L.
  destruct (get_at st cp) as [[|cid ck pa pt cfl its]|] eqn:G; try (inv L; apply ids_rel_refl).
  destruct ck; try (inv L; apply ids_rel_refl).
  destruct (assoc k its) as [old|] eqn:A; [|destruct (is_missing_rv rv); inv L; apply ids_rel_refl].
  destruct (same_obj old rv) eqn:SO; [inv L; apply ids_rel_refl|].
  destruct (is_missing_rv rv).
  - inv L. eapply detached_rel; try rewrite next_update_at; try lia; try constructor.
    apply (replace_items_ids st st cp cid (KObj cls) pa pt cfl its (set_assoc k (Leaf LNone) its) (Leaf LNone) [] (ids old) G eq_refl).
    + simpl. auto.
    + apply perm_set_assoc_some; auto.
  - destruct (formalize q sc st (fst cp) (KObj cls) cid cfl (pt ++ [k]) false rv) as [nw st1] eqn:FO.
    assert (NC : false = false -> not_current its k rv).
    { intros _ i E. subst rv. rewrite A. destruct old as [|j]; auto. simpl in SO. apply N.eqb_neq in SO; auto. }
    destruct (formalize_ids _ _ _ _ _ _ _ _ _ _ _ _ _ _ _ W I OK G NC FO) as (L1 & R1 & fresh & P1 & RG & NF).
    inv L. eapply detached_rel; eauto; rewrite ?next_update_at; auto.
    eapply replace_items_ids; eauto. apply perm_set_assoc_some; auto.
Qed.

Lemma prim_ids : forall q sc st cp k rv st' p,
  WFI st -> rv_ok rv -> prim q sc st cp k rv = (st', p) -> ids_rel st st'.
Proof.
  intros. unfold prim in H1.
  destruct (get_at st cp) as [[|cid ck pa pt cfl its]|]; try (inv H1; apply ids_rel_refl).
  destruct ck; eauto using lprim_ids, dprim_ids, oprim_ids.
Qed.
Lemma WFI_step : forall st st', WFI st -> wfs st' -> ids_rel st st' -> WFI st'.
Proof. intros st st' (W & I) W' R. split; auto. eapply IDS_step; eauto. Qed.

(* --- the mutators ------------------------------------------------------------------------------------------------------------------ *)
Lemma items_only_rel : forall st cp cid ck pa pt fl its its',
  get_at st cp = Some (Node cid ck pa pt fl its) -> Permutation (ids_items its') (ids_items its) ->
  ids_rel st (update_at st cp (set_items its')).
Proof.
  intros. apply ids_rel_same. apply next_update_at.
  pose proof (replace_items_ids st st cp cid ck pa pt fl its its' (Leaf LNone) [] [] H eq_refl) as X.
  simpl in X. rewrite !app_nil_r in X. apply X; auto.
Qed.
Lemma detach_all_ids : forall its st, Permutation (all_ids (detach_all st its)) (all_ids st ++ ids_items its).
Proof.
  unfold detach_all. intros its. induction its as [|[k c] r IH]; simpl; intros.
  - unfold ids_items. simpl. rewrite app_nil_r. auto.
  - eapply perm_trans. apply IH. rewrite ids_items_cons.
    pose proof (all_ids_add_detached st c). perm.
Qed.
Lemma next_detach_all : forall its st, next_id (detach_all st its) = next_id st.
Proof.
  unfold detach_all. intros its. induction its; simpl; intros; auto. rewrite IHits. apply next_add_detached.
Qed.
Lemma clear_core_rel : forall sc st ps tid tk pa pt fl its,
  get_at st ps = Some (Node tid tk pa pt fl its) -> ids_rel st (clear_core sc st ps its).
Proof.
  intros.
  assert (R : ids_rel st (detach_all (update_at st ps (set_items [])) its)).
  { apply ids_rel_same. rewrite next_detach_all. apply next_update_at.
    eapply perm_trans. apply detach_all_ids.
    pose proof (replace_items_ids st st ps tid tk pa pt fl its [] (Leaf LNone) [] (ids_items its) H eq_refl) as X.
    simpl in X. rewrite !app_nil_r in X. apply X; auto; unfold ids_items at 1; simpl; auto. }
  unfold clear_core. destruct its; auto. destruct (notify_on sc); auto.
  eapply ids_rel_trans; [exact R|apply fix_chain_rel].
Qed.
Lemma reorder_core_rel : forall sc st ps tid tk pa pt fl its its' tpth,
  get_at st ps = Some (Node tid tk pa pt fl its) -> Permutation (ids_items its') (ids_items its) ->
  ids_rel st (reorder_core sc st ps tpth its its').
Proof.
  intros. unfold reorder_core.
  assert (R : ids_rel st (update_at st ps (set_items (renum tpth its')))).
  { eapply items_only_rel; eauto. rewrite ids_items_renum. auto. }
  destruct (negb (all_same its its') && notify_on sc); auto.
  eapply ids_rel_trans; [exact R|apply fix_chain_rel].
Qed.
Lemma ldel_core_rel : forall sc st ps idx st' r tid tk pa pt fl its,
  get_at st ps = Some (Node tid tk pa pt fl its) -> ldel_core sc st ps idx = (st', r) -> ids_rel st st'.
Proof.
  intros sc st ps idx st' r tid tk pa pt fl its G L. unfold ldel_core in L.
  destruct (cur_items_facts _ _ _ _ _ _ _ _ G) as (E1 & E2 & _). rewrite E1, E2 in L. clear E1 E2.
  destruct (nth_error its idx) as [[k0 old]|] eqn:NE; [|inv L; apply ids_rel_refl].
  assert (R : ids_rel st (add_detached (update_at st ps (set_items (renum pt (remove_nth idx its)))) old)).
  { eapply detached_rel; try rewrite next_update_at; try lia; try constructor.
    apply (replace_items_ids st st ps tid tk pa pt fl its _ (Leaf LNone) [] (ids old) G eq_refl).
    - simpl. auto.
    - simpl. rewrite app_nil_r, ids_items_renum. eapply perm_remove_nth; eauto. }
  inv L. destruct (notify_on sc); auto. eapply ids_rel_trans; [exact R|apply fix_chain_rel].
Qed.

Lemma extend_loop_rel : forall q sc rvs st ps upd st' u e,
  WFI st -> Forall rv_ok rvs -> extend_loop q sc st ps rvs upd = (st', u, e) -> ids_rel st st'.
Proof.
  induction rvs; simpl; intros. inv H1; apply ids_rel_refl. inv H0.
  destruct (lprim q sc st ps (KI (cur_len st ps)) a) as [st1 p] eqn:L.
  pose proof (lprim_ids _ _ _ _ _ _ _ _ H H4 L) as R1.
  assert (W1 : WFI st1). { eapply WFI_step; eauto. destruct H. eapply lprim_wfs; eauto. }
  destruct p; [eapply ids_rel_trans; [exact R1|eapply IHrvs; eauto] | eapply ids_rel_trans; [exact R1|eapply IHrvs; eauto] | inv H1; auto].
Qed.
Lemma extend_core_rel : forall q sc rvs st ps st' o,
  WFI st -> Forall rv_ok rvs -> extend_core q sc st ps rvs = (st', o) -> ids_rel st st'.
Proof.
  intros. unfold extend_core in H1.
  destruct (extend_loop q sc st ps rvs false) as [[st1 u] e] eqn:E.
  pose proof (extend_loop_rel _ _ _ _ _ _ _ _ _ H H0 E).
  destruct e; inv H1; auto. destruct (u && notify_on sc); auto.
  eapply ids_rel_trans; [eauto|apply fix_chain_rel].
Qed.

Lemma new_list_from_rel : forall q st its c st1,
  new_list_from q st its = (c, st1) ->
  ids_rel st (add_root st1 c).
Proof.
  intros. unfold new_list_from in H.
  pose proof (clone_at_ids (q_copy_drops_missing q) false (Node 0%N KList None [] default_flags its) None [] (next_id st, [])) as C.
  destruct (clone_at _ _ None [] _ _) as [c0 cs]. inv H. destruct C as (L & R & N). simpl in *.
  split; auto. exists (ids c), []. rewrite app_nil_r. repeat split; auto.
  rewrite all_ids_add_root. auto.
Qed.
Lemma clone_root_rel : forall dm deep st tgt c cs,
  clone_at dm deep None [] tgt (next_id st, []) = (c, cs) -> ids_rel st (add_root (with_next st (fst cs)) c).
Proof.
  intros. pose proof (clone_at_ids dm deep tgt None [] (next_id st, [])) as C. rewrite H in C.
  destruct C as (L & R & N). simpl in *.
  split; auto. exists (ids c), []. rewrite app_nil_r. repeat split; auto.
  rewrite all_ids_add_root. auto.
Qed.

Lemma rebind_one_rel : forall q sc st tp path rv st' p c,
  WFI st -> rv_ok rv -> rebind_one q sc st tp path rv = (st', p, c) -> ids_rel st st'.
Proof.
  intros. unfold rebind_one in H1.
  destruct path; [inv H1; apply ids_rel_refl|].
  destruct (get_at st tp); [|inv H1; apply ids_rel_refl].
  destruct (query_path n (removelast (k :: path))); [|inv H1; apply ids_rel_refl].
  destruct (get_at st (fst tp, snd tp ++ l)) as [[|cid ck pa pt cfl its]|]; try (inv H1; apply ids_rel_refl).
  destruct (treats_as_sealed sc cfl); [inv H1; apply ids_rel_refl|].
  destruct (prim q sc st (fst tp, snd tp ++ l) (last (k :: path) (KI 0)) rv) as [st1 p1] eqn:P.
  inv H1. eapply prim_ids; eauto.
Qed.
Lemma rebind_loop_rel : forall q sc pvs st tp upd st' u e,
  WFI st -> Forall (fun kv => rv_ok (snd kv)) pvs -> rebind_loop q sc st tp pvs upd = (st', u, e) -> ids_rel st st'.
Proof.
  induction pvs as [|[p rv] r]; simpl; intros. inv H1; apply ids_rel_refl. inv H0.
  destruct (rebind_one q sc st tp p rv) as [[st1 p1] c] eqn:R.
  pose proof (rebind_one_rel _ _ _ _ _ _ _ _ _ H H4 R) as R1.
  assert (W1 : WFI st1). { eapply WFI_step; eauto. destruct H. eapply rebind_one_wfs; eauto. }
  destruct p1; [destruct c | destruct c | inv H1; auto]; eapply ids_rel_trans; eauto.
Qed.
Lemma rebind_core_rel : forall q sc st tp tk pvs nt st' o,
  WFI st -> Forall (fun kv => rv_ok (snd kv)) pvs -> rebind_core q sc st tp tk pvs nt = (st', o) -> ids_rel st st'.
Proof.
  intros. unfold rebind_core in H1.
  assert (F : Forall (fun kv => rv_ok (snd kv)) (match tk with KList => sort_desc pvs | _ => pvs end)).
  { destruct tk; auto. apply sort_desc_forall; auto. }
  destruct (rebind_loop q sc st tp _ []) as [[st1 u] e] eqn:E.
  pose proof (rebind_loop_rel _ _ _ _ _ _ _ _ _ H F E).
  destruct e; inv H1; auto. destruct nt; auto.
  eapply ids_rel_trans; [eauto|apply fix_chains_rel].
Qed.

Lemma gc_slots_ids : forall base keep rs, exists rest,
  Permutation (flat_map ids_slot (gc_slots base keep rs) ++ rest) (flat_map ids_slot rs).
Proof.
  induction rs; simpl. exists []; auto.
  destruct IHrs as (rest & P). destruct a.
  - destruct (negb keep && _).
    + exists (rest ++ ids t). simpl. perm.
    + exists rest. simpl. perm.
  - exists rest. simpl. auto.
Qed.
Lemma gc_rel : forall n base keep st, ids_rel st (gc n base keep st).
Proof.
  intros. split. simpl; lia.
  destruct (gc_slots_ids base keep (skipn n (roots st))) as (rest & P).
  exists [], rest. simpl. repeat split; try constructor.
  unfold all_ids. simpl. rewrite flat_map_app, app_nil_r.
  rewrite <- (firstn_skipn n (roots st)) at 3. rewrite flat_map_app. perm.
Qed.

(* --- every operation ---------------------------------------------------------------------------------------------------------------- *)
Ltac finr E := inv E; try apply ids_rel_refl; auto; try (eapply ids_rel_trans; [eassumption|]); auto using notified_rel, fix_chain_rel;
  try (destruct (notify_on _); [apply fix_chain_rel | apply ids_rel_refl]).

Lemma exec_rel : forall q sc st ps tid tk pa tpth tfl its ro st' out,
  WFI st -> get_at st ps = Some (Node tid tk pa tpth tfl its) -> kind_ok tk ro = true -> op_ok ro ->
  exec q sc st ps tid tk tpth tfl its ro = (st', out) -> ids_rel st st'.
Proof.
  intros q sc st ps tid tk pa tpth tfl its ro st' out WI G K OK E.
  pose proof WI as (W & I).
  destruct ro; simpl in K, OK, E;
    try (destruct tk; try discriminate; []);
    try (destruct (treats_as_sealed sc tfl); [inv E; apply ids_rel_refl; fail|]).
  - (* LSet *)
    destruct (negb (writable_via_accessors sc tfl)); [finr E|].
    destruct ((i <? - zlen its) || (i >=? zlen its)); [finr E|].
    destruct (lprim q sc st ps (KI i) v) as [st1 p] eqn:L. pose proof (lprim_ids _ _ _ _ _ _ _ _ WI OK L).
    destruct p; finr E.
  - (* LDel *)
    destruct (negb (writable_via_accessors sc tfl)); [finr E|].
    destruct ((i <? - zlen its) || (i >=? zlen its)); [finr E|].
    destruct (ldel_core sc st ps _) as [st1 r] eqn:L. inv E. eapply ldel_core_rel; eauto.
  - (* LAppend *)
    destruct (lprim q sc st ps (KI (zlen its)) v) as [st1 p] eqn:L. pose proof (lprim_ids _ _ _ _ _ _ _ _ WI OK L).
    destruct p; finr E.
  - (* LInsert *)
    destruct (lprim q sc st ps (KI i) (RIns v)) as [st1 p] eqn:L.
    assert (rv_ok (RIns v)) by (simpl; auto). pose proof (lprim_ids _ _ _ _ _ _ _ _ WI H L).
    destruct p; finr E.
  - (* LExtend *) eapply extend_core_rel; eauto.
  - (* LPop *)
    destruct ((_ <? - zlen its) || (_ >=? zlen its)); [finr E|].
    destruct (treats_as_sealed sc tfl); [finr E|].
    destruct (ldel_core sc st ps _) as [st1 r] eqn:L. inv E. eapply ldel_core_rel; eauto.
  - (* LRemove *)
    destruct (find_index _ its); [|finr E].
    destruct (treats_as_sealed sc tfl); [finr E|].
    destruct (negb (writable_via_accessors sc tfl)); [finr E|].
    destruct (ldel_core sc st ps n) as [st1 r] eqn:L. inv E. eapply ldel_core_rel; eauto.
  - (* LClear *) inv E. eapply clear_core_rel; eauto.
  - (* LReverse *) inv E. eapply reorder_core_rel; eauto. apply perm_rev.
  - (* LSort *) inv E. eapply reorder_core_rel; eauto. apply perm_sorted.
  - (* LIAdd *) eapply extend_core_rel; eauto.
  - (* LIMul *)
    destruct (n <=? 0).
    + inv E. eapply clear_core_rel; eauto.
    + eapply extend_core_rel; [exact WI | apply repeat_list_forall, rv_of_item_ok | exact E].
  - (* LAdd *)
    destruct (treats_as_sealed sc default_flags); [finr E|].
    destruct (container_facts _ _ _ _ _ _ _ _ W G) as (Ept & KO & F).
    destruct (new_list_from q st its) as [c st1] eqn:NL.
    destruct (new_list_from_wfs _ _ _ _ _ _ _ W F NL) as (W1 & N1 & Wc).
    pose proof (new_list_from_rel _ _ _ _ _ NL) as R1.
    assert (WI1 : WFI (add_root st1 c)) by (eapply WFI_step; eauto using wfs_add_root).
    destruct (extend_core q sc (add_root st1 c) (length (roots st1), []) vs) as [st2 o2] eqn:X.
    pose proof (extend_core_rel _ _ _ _ _ _ _ WI1 OK X) as R2.
    assert (ids_rel st st2) by (eapply ids_rel_trans; eauto).
    destruct o2; inv E; auto.
  - (* LMul *)
    destruct ((n >=? 1) && treats_as_sealed sc default_flags); [finr E|].
    destruct (new_list_from q st []) as [c st1] eqn:NL.
    destruct (new_list_from_wfs q st [] c st1 tid (snd ps) W (Forall_nil _) NL) as (W1 & N1 & Wc).
    pose proof (new_list_from_rel _ _ _ _ _ NL) as R1.
    assert (WI1 : WFI (add_root st1 c)) by (eapply WFI_step; eauto using wfs_add_root).
    destruct (extend_loop q sc (add_root st1 c) (length (roots st1), []) _ false) as [[st2 u] e] eqn:X.
    assert (R2 : ids_rel (add_root st1 c) st2).
    { eapply extend_loop_rel; [exact WI1 | | exact X]. apply repeat_list_forall, rv_of_item_ok. }
    assert (ids_rel st st2) by (eapply ids_rel_trans; eauto).
    destruct e; inv E; auto.
  - (* LCopy *)
    destruct (new_list_from q st its) as [c st1] eqn:NL. inv E. eapply new_list_from_rel; eauto.
  - (* DSet *)
    destruct (negb (writable_via_accessors sc tfl)); [finr E|].
    destruct (dprim q sc st ps k v) as [st1 p] eqn:L. pose proof (dprim_ids _ _ _ _ _ _ _ _ WI OK L).
    destruct p; finr E.
  - (* DDel *)
    destruct (negb (writable_via_accessors sc tfl)); [finr E|].
    destruct (negb (has_key k its)); [finr E|].
    destruct (dprim q sc st ps k (RLeaf LMissing)) as [st1 p] eqn:L.
    assert (rv_ok (RLeaf LMissing)) by (simpl; auto). pose proof (dprim_ids _ _ _ _ _ _ _ _ WI H L).
    destruct p; finr E.
  - (* DPop *)
    destruct (assoc k its); [|destruct d; finr E].
    destruct (treats_as_sealed sc tfl); [finr E|].
    destruct (dprim q sc st ps k (RLeaf LMissing)) as [st1 p] eqn:L.
    assert (rv_ok (RLeaf LMissing)) by (simpl; auto). pose proof (dprim_ids _ _ _ _ _ _ _ _ WI H L).
    destruct p; finr E.
  - (* DPopItem *)
    destruct (rev its) as [|[k old] r] eqn:R; [finr E|]. inv E.
    assert (R1 : ids_rel st (add_detached (update_at st ps (set_items (removelast its))) old)).
    { eapply detached_rel; try rewrite next_update_at; try lia; try constructor.
      apply (replace_items_ids st st ps tid KDict pa tpth tfl its _ (Leaf LNone) [] (ids old) G eq_refl).
      - simpl. auto.
      - simpl. rewrite app_nil_r. eapply perm_removelast; eauto. }
    destruct (notify_on sc); auto. eapply ids_rel_trans; [exact R1|apply fix_chain_rel].
  - (* DClear *) inv E. eapply clear_core_rel; eauto.
  - (* DSetDefault *)
    assert (X : forall st1 p, dprim q sc st ps k v = (st1, p) -> ids_rel st st1) by (intros; eapply dprim_ids; eauto).
    destruct (assoc k its) as [old|].
    + destruct (is_missing old); [|finr E].
      destruct (treats_as_sealed sc tfl); [finr E|].
      destruct (negb (writable_via_accessors sc tfl)); [finr E|].
      destruct (dprim q sc st ps k v) as [st1 p] eqn:L. specialize (X _ _ eq_refl).
      destruct p; finr E.
    + destruct (treats_as_sealed sc tfl); [finr E|].
      destruct (negb (writable_via_accessors sc tfl)); [finr E|].
      destruct (dprim q sc st ps k v) as [st1 p] eqn:L. specialize (X _ _ eq_refl).
      destruct p; finr E.
  - (* DUpdate *)
    eapply rebind_core_rel; [exact WI| |exact E]. apply Forall_map. simpl. auto.
  - (* DIOr *)
    eapply rebind_core_rel; [exact WI| |exact E]. apply Forall_map. simpl. auto.
  - (* DCopy *)
    destruct (clone_at _ false None [] _ _) as [c cs] eqn:C. inv E. eapply clone_root_rel; eauto.
  - (* OSet *)
    destruct (negb (existsb (key_eqb k) (class_fields cls))); [finr E|].
    destruct (treats_as_sealed sc tfl); [finr E|].
    destruct (negb (writable_via_accessors sc tfl)); [finr E|].
    destruct (oprim q sc st ps k v) as [st1 p] eqn:L. pose proof (oprim_ids _ _ _ _ _ _ _ _ WI OK L).
    destruct p; finr E.
  - (* Rebind *)
    destruct pvs; [finr E|].
    destruct (match tk with KObj _ => treats_as_sealed sc tfl | _ => false end); [finr E|].
    eapply rebind_core_rel; eauto.
  - (* Clone *)
    destruct (clone_at _ _ None [] _ _) as [c cs] eqn:C. inv E. eapply clone_root_rel; eauto.
  - (* Seal *)
    inv E. apply ids_rel_same. apply next_update_at. apply all_ids_update_at_same. apply ids_seal_rec.
  - (* SetAW *)
    inv E. apply ids_rel_same. apply next_update_at. apply all_ids_update_at_same. apply ids_set_flags.
Qed.

Theorem step_rel : forall q st o, WFI st -> ids_rel st (fst (step q st o)).
Proof.
  intros. unfold step.
  destruct (get_at st (o_pos o)) as [[|tid tk pa pt fl its]|] eqn:G; try apply ids_rel_refl.
  destruct (kind_ok tk (o_op o)) eqn:K; try apply ids_rel_refl.
  destruct (resolve_op st (o_op o)) as [ro|] eqn:R; try apply ids_rel_refl.
  destruct (exec q (o_scope o) st (o_pos o) tid tk pt fl its ro) as [st' out] eqn:E. simpl.
  eapply ids_rel_trans; [|apply gc_rel].
  eapply exec_rel; eauto.
  - destruct (o_op o); simpl in *;
      repeat match goal with
             | H : option_map _ ?x = Some _ |- _ => destruct x eqn:?; simpl in H; [|discriminate]
             end; inv R; auto.
  - eapply resolve_op_ok; eauto.
Qed.
Theorem step_WFI : forall q st o, WFI st -> WFI (fst (step q st o)).
Proof. intros. eapply WFI_step; eauto. destruct H. apply step_wfs; auto. apply step_rel; auto. Qed.
Theorem run_ops_WFI : forall q ops st, WFI st -> WFI (run_ops q st ops).
Proof. unfold run_ops. induction ops; simpl; intros; auto. apply IHops. apply step_WFI; auto. Qed.

Lemma init_forest_WFI : forall ls st, WFI st -> forallb lit_valid ls = true -> WFI (init_forest ls st).
Proof.
  induction ls; simpl; intros; auto. apply andb_true_iff in H0. destruct H0.
  destruct a; auto.
  pose proof (build_ids (LitNode k fl plain items) false None [] (next_id st)) as B.
  destruct (build false None [] (LitNode k fl plain items) (next_id st)) as [n nx] eqn:BE.
  apply IHls; auto. destruct B as (L & R & N). simpl in *.
  eapply WFI_step; eauto.
  - destruct H. apply wfs_add_root; auto.
    + replace n with (fst (build false None [] (LitNode k fl plain items) (next_id st))) by (rewrite BE; auto).
      apply build_is_node.
    + replace n with (fst (build false None [] (LitNode k fl plain items) (next_id st))) by (rewrite BE; auto).
      apply build_wf; auto.
  - split; auto. exists (ids n), []. rewrite app_nil_r. repeat split; auto.
    rewrite all_ids_add_root. auto.
Qed.
Lemma empty_WFI : WFI empty_state.
Proof. split. constructor. split; constructor. Qed.
Theorem history_WFI : forall q ls ops, forallb lit_valid ls = true -> WFI (run_ops q (init_forest ls empty_state) ops).
Proof. intros. apply run_ops_WFI. apply init_forest_WFI; auto. apply empty_WFI. Qed.

(* In the words of the property: one node object never appears in two places *)
Theorem no_node_twice : forall st r1 p1 r2 p2 i k1 pa1 pt1 fl1 its1 k2 pa2 pt2 fl2 its2,
  WFI st ->
  get_at st (r1, p1) = Some (Node i k1 pa1 pt1 fl1 its1) -> get_at st (r2, p2) = Some (Node i k2 pa2 pt2 fl2 its2) ->
  r1 = r2 /\ p1 = p2.
Proof.
  intros. destruct H as (W & ND & _).
  assert (r1 = r2) by (eapply same_id_same_root; eauto). subst r2. split; auto.
  (* within one tree: distinct positions hold distinct ids *)
  unfold get_at, get_root in *. simpl in *.
  destruct (nth_error (roots st) r1) as [[t|]|] eqn:NE; try discriminate.
  assert (NT : NoDup (ids t)).
  { unfold all_ids in ND. clear - ND NE. revert r1 NE. induction (roots st); intros; destruct r1; simpl in *; try discriminate.
    - inv NE. simpl in ND. apply nodup_app_inv in ND. tauto.
    - apply nodup_app_inv in ND. destruct ND as (_ & ND & _). eauto. }
  clear - NT H0 H1. revert t p2 NT H0 H1. induction p1; intros.
  - simpl in H0. inv H0. destruct p2; auto. simpl in H1.
    destruct (assoc k its1) as [c|] eqn:A; [|discriminate].
    exfalso. simpl in NT. inv NT. apply H2.
    destruct (assoc_in _ _ _ _ A) as (k' & _ & I). apply in_flat_map. exists (k', c). split; auto.
    simpl. eapply get_in_ids; eauto.
  - destruct t as [l|j kd pa0 pt0 fl0 its0]; simpl in H0; [discriminate|].
    destruct (assoc a its0) as [c|] eqn:A; [|discriminate].
    destruct p2 as [|b p2'].
    + simpl in H1. inv H1. exfalso. simpl in NT. inv NT. apply H2.
      destruct (assoc_in _ _ _ _ A) as (k' & _ & I). apply in_flat_map. exists (k', c). split; auto.
      simpl. eapply get_in_ids; eauto.
    + simpl in H1. destruct (assoc b its0) as [c'|] eqn:B; [|discriminate].
      simpl in NT. inv NT. fold (ids_items its0) in *.
      destruct (key_eqb a b) eqn:EK.
      * apply key_eqb_eq in EK. subst b. rewrite A in B. inv B. f_equal.
        eapply IHp1; eauto.
        destruct (assoc_in _ _ _ _ A) as (k' & _ & I). clear - H4 I.
        unfold ids_items in H4. induction its0; simpl in *; [tauto|]. apply nodup_app_inv in H4. destruct H4 as (N1 & N2 & _).
        destruct I; subst; auto.
      * (* two different children both hold the id *)
        exfalso. apply key_eqb_neq in EK.
        assert (Ia : In i (ids c)) by (eapply get_in_ids; eauto).
        assert (Ib : In i (ids c')) by (eapply get_in_ids; eauto).
        clear - A B EK Ia Ib H4. unfold ids_items in H4.
        induction its0 as [|[k0 c0] r IH]; simpl in *; [discriminate|].
        apply nodup_app_inv in H4. destruct H4 as (N1 & N2 & D).
        destruct (key_eqb a k0) eqn:E1; destruct (key_eqb b k0) eqn:E2.
        -- apply key_eqb_eq in E1; apply key_eqb_eq in E2; congruence.
        -- inv A. eapply D; eauto. destruct (assoc_in _ _ _ _ B) as (k' & _ & I). apply in_flat_map. exists (k', c'); auto.
        -- inv B. eapply D; eauto. destruct (assoc_in _ _ _ _ A) as (k' & _ & I). apply in_flat_map. exists (k', c); auto.
        -- eauto.
Qed.

Lemma WF_WFI : forall st, WF st <-> WFI st.
Proof. intros. unfold WF, WFI, wfs, IDS. split; intros H; tauto. Qed.
Theorem step_WF : forall q st o, WF st -> WF (fst (step q st o)).
Proof. intros. apply WF_WFI. apply step_WFI. apply WF_WFI. exact H. Qed.
Theorem history_WF : forall q ls ops, forallb lit_valid ls = true -> WF (run_ops q (init_forest ls empty_state) ops).
Proof. intros. apply WF_WFI. apply history_WFI. exact H. Qed.
Theorem no_node_twice_WF : forall st r1 p1 r2 p2 i k1 pa1 pt1 fl1 its1 k2 pa2 pt2 fl2 its2,
  WF st ->
  get_at st (r1, p1) = Some (Node i k1 pa1 pt1 fl1 its1) -> get_at st (r2, p2) = Some (Node i k2 pa2 pt2 fl2 its2) ->
  r1 = r2 /\ p1 = p2.
Proof. intros. eapply no_node_twice; [apply WF_WFI; exact H | exact H0 | exact H1]. Qed.

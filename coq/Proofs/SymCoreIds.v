(* SymCoreIds.v — "one node object never appears in two places": the node ids of a state stay pairwise distinct
   (and below the allocation counter) through every step. *)
From PG Require Import Common.Tactics Model.SymCoreDefs Model.SymCoreOps Model.SymCoreSpec
     Proofs.SymCoreBase Proofs.SymCoreWF Proofs.SymCoreClone Proofs.SymCoreWFOps.
From Coq Require Import NArith Permutation.
Local Open Scope Z_scope.
#[local] Arguments ids_items : simpl never.

(* --- ids of transformed nodes ---------------------------------------------------------------------------------------- *)
Lemma flat_map_ids_ext : forall (f : node -> node) (its : list (key * node)),
  Forall (fun kv => ids (f (snd kv)) = ids (snd kv)) its ->
  flat_map (fun kv => ids (snd kv)) (map (fun kv => (fst kv, f (snd kv))) its) = flat_map (fun kv => ids (snd kv)) its.
Proof. induction its; simpl; intros; auto. inv H. rewrite H2, IHits; auto. Qed.
Lemma ids_set_path : forall n p, ids (set_path p n) = ids n.
Proof.
  induction n using node_ind'; intros; simpl; auto.
  destruct (path_eqb pt p); simpl; auto. f_equal.
  induction its as [|[k0 c] r IH]; simpl; auto. inv H. simpl in *. rewrite H2, IH; auto.
Qed.
Lemma ids_set_par : forall n p, ids (set_par p n) = ids n.
Proof. destruct n; auto. Qed.
Lemma ids_detach : forall n, ids (detach n) = ids n.
Proof. intros; unfold detach. rewrite ids_set_path, ids_set_par; auto. Qed.
Lemma ids_set_flags : forall f n, ids (set_flags f n) = ids n.
Proof. destruct n; auto. Qed.
Lemma nid_set_path : forall n p, nid (set_path p n) = nid n.
Proof. destruct n; simpl; auto. intros; destruct (path_eqb pth p); auto. Qed.

Lemma ids_node : forall i k pa pt fl its, ids (Node i k pa pt fl its) = i :: ids_items its.
Proof. reflexivity. Qed.
Lemma ids_items_app : forall a b, ids_items (a ++ b) = ids_items a ++ ids_items b.
Proof. unfold ids_items; intros; apply flat_map_app. Qed.
Lemma ids_items_cons : forall k c r, ids_items ((k, c) :: r) = ids c ++ ids_items r.
Proof. reflexivity. Qed.

Lemma ids_reindex_child : forall cp i c, ids (reindex_child cp i c) = ids c.
Proof.
  intros. destruct c; simpl; auto.
  destruct (last_key pth); [destruct (key_eqb k0 (KI i))|]; auto;
    change (ids (set_path (cp ++ [KI i]) (Node id k par pth fl items)) = ids (Node id k par pth fl items)); apply ids_set_path.
Qed.
Lemma ids_items_renum_from : forall cp l i, ids_items (renum_from cp i l) = ids_items l.
Proof.
  induction l as [|[k c] r]; intros; [reflexivity|].
  simpl renum_from. rewrite !ids_items_cons, ids_reindex_child, IHr. reflexivity.
Qed.
Lemma ids_items_renum : forall cp l, ids_items (renum cp l) = ids_items l.
Proof. intros; apply ids_items_renum_from. Qed.
Lemma ids_items_filter_missing : forall l,
  ids_items (filter (fun kv => negb (is_missing (snd kv))) l) = ids_items l.
Proof.
  induction l as [|[k c] r]; [reflexivity|]. simpl filter.
  destruct (is_missing c) eqn:E; simpl negb; cbv iota; rewrite ?ids_items_cons, IHr; auto.
  destruct c as [[]|]; simpl in E; try discriminate. reflexivity.
Qed.
Lemma ids_purge_list : forall n, ids (purge_list n) = ids n.
Proof.
  destruct n; simpl; auto. destruct k; auto. simpl. f_equal.
  fold (ids_items (renum pth (filter (fun kv => negb (is_missing (snd kv))) items))). fold (ids_items items).
  rewrite ids_items_renum, ids_items_filter_missing. auto.
Qed.

(* --- permutations by counting occurrences --------------------------------------------------------------------------------- *)
Definition cnt (l : list N) (x : N) : nat := count_occ N.eq_dec l x.
Lemma perm_cnt : forall a b, Permutation a b <-> forall x, cnt a x = cnt b x.
Proof. intros; apply (Permutation_count_occ N.eq_dec). Qed.
Lemma cnt_app : forall a b x, cnt (a ++ b) x = (cnt a x + cnt b x)%nat.
Proof. intros; apply count_occ_app. Qed.
Definition one (i x : N) : nat := if N.eq_dec i x then 1%nat else 0%nat.
Lemma cnt_cons : forall i l x, cnt (i :: l) x = (one i x + cnt l x)%nat.
Proof. intros. unfold cnt, one. simpl. destruct (N.eq_dec i x); auto. Qed.
Global Opaque one.
Lemma cnt_nil : forall x, cnt [] x = 0%nat.
Proof. reflexivity. Qed.
Ltac perm_hyps x :=
  repeat match goal with
         | H : Permutation _ _ |- _ => let H' := fresh "PC" in pose proof (proj1 (perm_cnt _ _) H x) as H'; clear H
         end.
Ltac perm :=
  apply perm_cnt; let x := fresh "x" in intro x; perm_hyps x;
  repeat (rewrite ?cnt_app, ?cnt_nil in * ); try lia.

(* --- item-list surgery, up to permutation ----------------------------------------------------------------------------- *)
Lemma perm_set_nth : forall l n k0 old k nw,
  nth_error l n = Some (k0, old) ->
  Permutation (ids_items (set_nth n (k, nw) l) ++ ids old) (ids_items l ++ ids nw).
Proof.
  induction l as [|[k1 c] r]; intros; destruct n; simpl in H; try discriminate.
  - inv H. simpl. rewrite !ids_items_cons. perm.
  - simpl. rewrite !ids_items_cons. specialize (IHr _ _ _ k nw H). perm.
Qed.
Lemma perm_insert_at : forall l n k nw,
  Permutation (ids_items (insert_at n (k, nw) l)) (ids_items l ++ ids nw).
Proof.
  induction l as [|[k1 c] r]; intros; destruct n; simpl; rewrite ?ids_items_cons; try (specialize (IHr n k nw)); perm.
Qed.
Lemma perm_remove_nth : forall l n k0 old,
  nth_error l n = Some (k0, old) -> Permutation (ids_items (remove_nth n l) ++ ids old) (ids_items l).
Proof.
  induction l as [|[k1 c] r]; intros; destruct n; simpl in H; try discriminate.
  - inv H. simpl. rewrite ids_items_cons. perm.
  - simpl. rewrite !ids_items_cons. specialize (IHr _ _ _ H). perm.
Qed.
Lemma perm_rev : forall l, Permutation (ids_items (rev l)) (ids_items l).
Proof.
  induction l as [|[k c] r]; simpl; auto. rewrite ids_items_app, !ids_items_cons. perm.
Qed.
Lemma perm_flat_map : forall A B (f : A -> list B) l l', Permutation l l' -> Permutation (flat_map f l) (flat_map f l').
Proof.
  induction 1; simpl; auto.
  - apply Permutation_app_head; auto.
  - rewrite !app_assoc. apply Permutation_app_tail. apply Permutation_app_comm.
  - eapply perm_trans; eauto.
Qed.
Lemma insert_sorted_perm : forall A le (x : Z * A) l, Permutation (insert_sorted le x l) (x :: l).
Proof.
  induction l; simpl; auto. destruct (le (fst x) (fst a)); auto.
  eapply perm_trans. apply perm_skip. apply IHl. apply perm_swap.
Qed.
Lemma stable_sort_perm : forall A rv (l : list (Z * A)), Permutation (stable_sort rv l) l.
Proof.
  unfold stable_sort. induction l; simpl; auto.
  eapply perm_trans. apply insert_sorted_perm. auto.
Qed.
Lemma map_snd_zip_keys : forall A ks (l : list A), map snd (zip_keys ks l) = l.
Proof. intros A ks l; revert ks; induction l; simpl; intros; auto. destruct ks; simpl; f_equal; auto. Qed.
Lemma perm_sorted : forall rv ks (l : list (key * node)),
  Permutation (ids_items (map snd (stable_sort rv (zip_keys ks l)))) (ids_items l).
Proof.
  intros. unfold ids_items. apply perm_flat_map.
  rewrite <- (map_snd_zip_keys _ ks l) at 2. apply Permutation_map. apply stable_sort_perm.
Qed.
Lemma perm_set_assoc_some : forall l k old nw,
  assoc k l = Some old -> Permutation (ids_items (set_assoc k nw l) ++ ids old) (ids_items l ++ ids nw).
Proof.
  induction l as [|[k1 c] r]; simpl; intros; try discriminate.
  destruct (key_eqb k k1).
  - inv H. rewrite !ids_items_cons. perm.
  - rewrite !ids_items_cons. specialize (IHr _ _ nw H). perm.
Qed.
Lemma set_assoc_none : forall A k (v : A) l, assoc k l = None -> set_assoc k v l = l ++ [(k, v)].
Proof.
  induction l as [|[k1 c] r]; simpl; intros; auto. destruct (key_eqb k k1); [discriminate|]. f_equal; auto.
Qed.
Lemma perm_remove_assoc : forall l k old,
  assoc k l = Some old -> Permutation (ids_items (remove_assoc k l) ++ ids old) (ids_items l).
Proof.
  induction l as [|[k1 c] r]; simpl; intros; try discriminate.
  destruct (key_eqb k k1).
  - inv H. rewrite ids_items_cons. perm.
  - rewrite !ids_items_cons. specialize (IHr _ _ H). perm.
Qed.
Lemma remove_assoc_none : forall A k (l : list (key * A)), assoc k l = None -> remove_assoc k l = l.
Proof. induction l as [|[k1 c] r]; simpl; intros; auto. destruct (key_eqb k k1); [discriminate|]. f_equal; auto. Qed.
Lemma perm_removelast : forall l k old r, rev l = (k, old) :: r ->
  Permutation (ids_items (removelast l) ++ ids old) (ids_items l).
Proof.
  intros. assert (l = rev r ++ [(k, old)]).
  { rewrite <- (rev_involutive l), H. reflexivity. }
  subst l. rewrite removelast_last, ids_items_app, ids_items_cons. perm.
Qed.

(* --- ids of a state under the state surgery ----------------------------------------------------------------------------- *)
Lemma ids_items_map_assoc : forall k f l c,
  assoc k l = Some c -> Permutation (ids_items (map_assoc k f l) ++ ids c) (ids_items l ++ ids (f c)).
Proof.
  induction l as [|[k1 c1] r]; simpl; intros; try discriminate.
  destruct (key_eqb k k1).
  - inv H. rewrite !ids_items_cons. perm.
  - rewrite !ids_items_cons. specialize (IHr _ H). perm.
Qed.
Lemma ids_update_in : forall p f t c,
  get_in p t = Some c -> Permutation (ids (update_in p f t) ++ ids c) (ids t ++ ids (f c)).
Proof.
  induction p; simpl; intros.
  - inv H. perm.
  - destruct t as [l|i k pa pt fl its]; simpl in H; [discriminate|].
    destruct (assoc a its) as [c0|] eqn:A; [|discriminate].
    rewrite !ids_node.
    pose proof (ids_items_map_assoc a (update_in p f) its c0 A) as P1.
    pose proof (IHp f c0 c H) as P2.
    apply perm_cnt; intro x. pose proof (proj1 (perm_cnt _ _) P1 x). pose proof (proj1 (perm_cnt _ _) P2 x).
    rewrite ?cnt_app, ?cnt_cons in *. rewrite ?cnt_app in *. lia.
Qed.
Lemma ids_update_in_none : forall p f t, get_in p t = None -> update_in p f t = t.
Proof.
  induction p; simpl; intros; [discriminate|].
  destruct t as [l|i k pa pt fl its]; auto. simpl in H. f_equal.
  induction its as [|[k1 c1] r]; simpl in *; auto.
  destruct (key_eqb a k1); [rewrite IHp; auto| f_equal; auto].
Qed.

Lemma all_ids_set_nth : forall rs r s old,
  nth_error rs r = Some old ->
  Permutation (flat_map ids_slot (set_nth r s rs) ++ ids_slot old) (flat_map ids_slot rs ++ ids_slot s).
Proof.
  induction rs; intros; destruct r; simpl in H; try discriminate.
  - inv H. simpl. perm.
  - simpl. specialize (IHrs _ s _ H). perm.
Qed.
Lemma set_nth_none : forall A (rs : list A) r s, nth_error rs r = None -> set_nth r s rs = rs.
Proof. induction rs; intros; destruct r; simpl in *; auto; try discriminate. f_equal; auto. Qed.

Lemma all_ids_update_at : forall st ps f c,
  get_at st ps = Some c ->
  Permutation (all_ids (update_at st ps f) ++ ids c) (all_ids st ++ ids (f c)).
Proof.
  unfold get_at, update_at, all_ids; intros.
  destruct (get_root st (fst ps)) as [t|] eqn:E; [|discriminate].
  unfold get_root in E. destruct (nth_error (roots st) (fst ps)) as [[t'|]|] eqn:NE; try discriminate. inv E.
  simpl. pose proof (all_ids_set_nth _ _ (Live (update_in (snd ps) f t)) _ NE) as P1. simpl in P1.
  pose proof (ids_update_in _ f _ _ H) as P2. perm.
Qed.
Lemma all_ids_update_at_same : forall st ps f,
  (forall n, ids (f n) = ids n) -> Permutation (all_ids (update_at st ps f)) (all_ids st).
Proof.
  intros. destruct (get_at st ps) as [c|] eqn:G.
  - pose proof (all_ids_update_at _ _ f _ G) as P1. rewrite H in P1. perm.
  - unfold update_at, get_at in *. destruct (get_root st (fst ps)) as [t|] eqn:E; auto.
    rewrite ids_update_in_none; auto.
    unfold get_root in E. destruct (nth_error (roots st) (fst ps)) as [[t'|]|] eqn:NE; try discriminate. inv E.
    unfold all_ids, set_root. simpl.
    pose proof (all_ids_set_nth _ _ (Live t) _ NE) as P1. simpl in P1. perm.
Qed.
Lemma restore_slot_ids : forall i t rs rs', restore_slot i t rs = Some rs' ->
  Permutation (flat_map ids_slot rs') (flat_map ids_slot rs ++ ids t).
Proof.
  induction rs; simpl; intros; try discriminate. destruct a.
  - destruct (restore_slot i t rs) eqn:E; [|discriminate]. inv H. simpl. specialize (IHrs _ eq_refl). perm.
  - destruct (N.eqb i i0).
    + inv H. simpl. perm.
    + destruct (restore_slot i t rs) eqn:E; [|discriminate]. inv H. simpl. specialize (IHrs _ eq_refl). perm.
Qed.
Lemma all_ids_add_root : forall st t, all_ids (add_root st t) = all_ids st ++ ids t.
Proof. intros. unfold all_ids, add_root. simpl. rewrite flat_map_app. simpl. rewrite app_nil_r. auto. Qed.
Lemma all_ids_add_detached : forall st n, Permutation (all_ids (add_detached st n)) (all_ids st ++ ids n).
Proof.
  intros. destruct n as [l|i k pa pt fl its]; [simpl; rewrite app_nil_r; auto|].
  unfold add_detached.
  destruct (restore_slot i (detach (Node i k pa pt fl its)) (roots st)) eqn:E.
  - unfold all_ids; simpl. apply restore_slot_ids in E. rewrite ids_detach in E. auto.
  - rewrite all_ids_add_root, ids_detach. auto.
Qed.

(* --- the invariant and the relation between successive states ---------------------------------------------------------------- *)
Definition IDS (st : state) : Prop := NoDup (all_ids st) /\ ids_below (next_id st) (all_ids st).
(* st' holds ids of st plus fresh ones (some may have been dropped as garbage) *)
Definition ids_rel (st st' : state) : Prop :=
  (next_id st <= next_id st')%N /\
  exists fresh rest, Permutation (all_ids st' ++ rest) (all_ids st ++ fresh) /\
                     in_range (next_id st) (next_id st') fresh /\ NoDup fresh.
Lemma ids_rel_refl : forall st, ids_rel st st.
Proof. intros. split. lia. exists [], []. repeat split; auto; try constructor. Qed.
Lemma ids_rel_same : forall st st', next_id st' = next_id st -> Permutation (all_ids st') (all_ids st) -> ids_rel st st'.
Proof.
  intros. split. lia. exists [], []. rewrite !app_nil_r. repeat split; auto; constructor.
Qed.
Lemma ids_rel_trans : forall a b c, ids_rel a b -> ids_rel b c -> ids_rel a c.
Proof.
  intros a b c (L1 & f1 & r1 & P1 & R1 & N1) (L2 & f2 & r2 & P2 & R2 & N2).
  split. lia. exists (f1 ++ f2), (r2 ++ r1). repeat split.
  - perm.
  - apply in_range_app; eapply in_range_weaken; eauto; lia.
  - apply nodup_app; auto. intros x I J. eapply (ranges_disjoint (next_id a) (next_id b) (next_id c) f1 f2); eauto.
Qed.
Lemma perm_nodup : forall (a b : list N), Permutation a b -> NoDup a -> NoDup b.
Proof. intros. eapply Permutation_NoDup; eauto. Qed.
Lemma IDS_step : forall st st', IDS st -> ids_rel st st' -> IDS st'.
Proof.
  intros st st' (ND & B) (L & fresh & rest & P & R & NF).
  assert (NA : NoDup (all_ids st ++ fresh)).
  { apply nodup_app; auto. intros x I J. unfold ids_below in B. rewrite Forall_forall in B.
    unfold in_range in R. rewrite Forall_forall in R. specialize (B _ I). specialize (R _ J). simpl in *. lia. }
  assert (NB : NoDup (all_ids st' ++ rest)) by (eapply perm_nodup; [apply Permutation_sym; eauto|auto]).
  apply nodup_app_inv in NB. destruct NB as (N1 & _ & _). split; auto.
  unfold ids_below. rewrite Forall_forall. intros x I.
  assert (In x (all_ids st ++ fresh)).
  { eapply Permutation_in; [exact P|]. apply in_app_iff; auto. }
  apply in_app_iff in H. destruct H.
  - unfold ids_below in B. rewrite Forall_forall in B. specialize (B _ H). lia.
  - unfold in_range in R. rewrite Forall_forall in R. specialize (R _ H). simpl in R. lia.
Qed.

(* SchedMutex.v — mutual exclusion, for EVERY program set, every number of threads, every schedule:
   the lock table and the threads' own lists of held locks agree, hence no lock has two holders. *)
From PG Require Import Common.Tactics Model.Sched Proofs.SchedBase.

Definition holds_k (th : tstate) (k : lockid) : Prop := In k (map snd (held th)).

Record LockInv (g : gstate) (ts : list tstate) : Prop := {
  li_owner : forall k t, locks g k = Some t -> exists th, nth_error ts t = Some th /\ holds_k th k;
  li_held : forall t th k, nth_error ts t = Some th -> holds_k th k -> locks g k = Some t;
  li_nodup : forall t th, nth_error ts t = Some th -> NoDup (map snd (held th)) }.

Lemma LockInv_mutex : forall g ts t1 t2 th1 th2 k,
  LockInv g ts -> nth_error ts t1 = Some th1 -> nth_error ts t2 = Some th2 -> holds_k th1 k -> holds_k th2 k -> t1 = t2.
Proof.
  intros. pose proof (li_held _ _ H _ _ _ H0 H2). pose proof (li_held _ _ H _ _ _ H1 H3). congruence.
Qed.

(* a step that leaves the lock table and the stepping thread's held list alone *)
Lemma LockInv_same : forall g ts t th g' th',
  LockInv g ts -> nth_error ts t = Some th -> locks g' = locks g -> held th' = held th -> LockInv g' (set_th ts t th').
Proof.
  intros g ts t th g' th' [Ho Hh Hn] Ht Hl Hd. constructor; intros.
  - rewrite Hl in H. destruct (Ho _ _ H) as [th0 [A B]].
    destruct (Nat.eq_dec t t0).
    + subst. exists th'. split. eapply nth_error_set_th_eq; eauto. unfold holds_k in *. rewrite Hd. congruence.
    + exists th0. split; auto. rewrite nth_error_set_th_neq; auto.
  - rewrite Hl. destruct (Nat.eq_dec t t0).
    + subst. erewrite nth_error_set_th_eq in H; eauto. inv H. eapply Hh; eauto. unfold holds_k in *. rewrite <- Hd. auto.
    + rewrite nth_error_set_th_neq in H; auto. eapply Hh; eauto.
  - destruct (Nat.eq_dec t t0).
    + subst. erewrite nth_error_set_th_eq in H; eauto. inv H. rewrite Hd. eauto.
    + rewrite nth_error_set_th_neq in H; auto. eauto.
Qed.

Lemma step_act_locks_other : forall c t a p i g th g' th',
  step_act c t a p i g th = Some (g', th') ->
  match a with Acquire _ | Release _ => True | _ => locks g' = locks g /\ held th' = held th end.
Proof.
  intros. destruct a; simpl in *; auto.
  - destruct (sem c t e g th) as [g1 th1] eqn:E. inv H. unfold sem in E. inv E.
    split. apply fold_mut_locks. simpl. apply regs_held.
  - inv H. split. apply note_full_locks. simpl. apply note_branch_held.
  - inv H. auto.
  - destruct k; try destruct (Nat.eqb p P_init); inv H; split; auto; apply to_script_held.
  - inv H. split; auto. apply to_script_held.
Qed.

Theorem LockInv_step : forall ps c g ts t g' ts', LockInv g ts -> step1 ps c g ts t = Some (g', ts') -> LockInv g' ts'.
Proof.
  intros ps c g ts t g' ts' HI Hs.
  destruct (step1_inv _ _ _ _ _ _ _ Hs) as [th [p [i [Ht [Hpc Hcase]]]]].
  destruct Hcase as [[Hf [Hg Hts]] | [gate [a [th' [Hf [Hact Hts]]]]]].
  - subst. eapply LockInv_same; eauto. apply to_script_held.
  - subst ts'. pose proof (step_act_locks_other _ _ _ _ _ _ _ _ _ Hact) as Hoth.
    destruct a; try (destruct Hoth; eapply LockInv_same; eauto; fail).
    + (* Acquire *)
      simpl in Hact. destruct (locks g (phys l g th)) eqn:Efree; try discriminate. inv Hact.
      set (k := phys l g th) in *.
      destruct HI as [Ho Hh Hn]. constructor; intros.
      * simpl in H. destruct (lockid_eqb k0 k) eqn:Ek.
        -- inv H. apply lockid_eqb_eq in Ek. subst k0. eexists. split. eapply nth_error_set_th_eq; eauto. unfold holds_k. simpl. auto.
        -- destruct (Ho _ _ H) as [th0 [A B]]. destruct (Nat.eq_dec t t0).
           ++ subst. eexists. split. eapply nth_error_set_th_eq; eauto. unfold holds_k in *. simpl. right. congruence.
           ++ exists th0. split; auto. rewrite nth_error_set_th_neq; auto.
      * simpl. destruct (Nat.eq_dec t t0).
        -- subst. erewrite nth_error_set_th_eq in H; eauto. inv H. unfold holds_k in H0. simpl in H0. destruct H0.
           ++ subst. rewrite lockid_eqb_refl. auto.
           ++ destruct (lockid_eqb k0 k) eqn:Ek; auto. eapply Hh; eauto.
        -- rewrite nth_error_set_th_neq in H; auto.
           destruct (lockid_eqb k0 k) eqn:Ek.
           ++ apply lockid_eqb_eq in Ek. subst. pose proof (Hh _ _ _ H H0). congruence.
           ++ eapply Hh; eauto.
      * destruct (Nat.eq_dec t t0).
        -- subst. erewrite nth_error_set_th_eq in H; eauto. inv H. simpl. constructor; eauto.
           intro Hin. pose proof (Hh _ _ _ Ht Hin). congruence.
        -- rewrite nth_error_set_th_neq in H; auto. eauto.
    + (* Release *)
      simpl in Hact. destruct (held th) as [|[l0 k] h] eqn:Eh.
      * inv Hact. eapply LockInv_same; eauto.
      * inv Hact. destruct HI as [Ho Hh Hn].
        pose proof (Hn _ _ Ht) as Hnd. rewrite Eh in Hnd. simpl in Hnd. inv Hnd.
        constructor; intros.
        -- simpl in H. destruct (lockid_eqb k0 k) eqn:Ek; try discriminate.
           destruct (Ho _ _ H) as [th0 [A B]]. destruct (Nat.eq_dec t t0).
           ++ subst. rewrite Ht in A. inv A. eexists. split. eapply nth_error_set_th_eq; eauto.
              unfold holds_k in *. simpl. rewrite Eh in B. simpl in B. destruct B; auto.
              subst. rewrite lockid_eqb_refl in Ek. discriminate.
           ++ exists th0. split; auto. rewrite nth_error_set_th_neq; auto.
        -- simpl. destruct (Nat.eq_dec t t0).
           ++ subst. erewrite nth_error_set_th_eq in H; eauto. inv H. unfold holds_k in H0. simpl in H0.
              rewrite lockid_eqb_neq. eapply Hh; eauto. unfold holds_k. rewrite Eh. simpl. auto.
              intro. subst. contradiction.
           ++ rewrite nth_error_set_th_neq in H; auto.
              destruct (lockid_eqb k0 k) eqn:Ek.
              ** apply lockid_eqb_eq in Ek. subst. exfalso. apply n.
                 eapply (LockInv_mutex g ts t t0); eauto. constructor; eauto. unfold holds_k. rewrite Eh. simpl. auto.
              ** eapply Hh; eauto.
        -- destruct (Nat.eq_dec t t0).
           ++ subst. erewrite nth_error_set_th_eq in H; eauto. inv H. simpl. auto.
           ++ rewrite nth_error_set_th_neq in H; auto. eauto.
Qed.

Lemma LockInv_init : forall c ws, LockInv (fst (init_state c ws)) (snd (init_state c ws)).
Proof.
  intros. simpl. constructor; simpl; intros.
  - discriminate.
  - apply nth_error_In in H. apply in_map_iff in H. destruct H as [w [A B]]. subst. unfold holds_k in H0. simpl in H0. contradiction.
  - apply nth_error_In in H. apply in_map_iff in H. destruct H as [w [A B]]. subst. simpl. constructor.
Qed.

(* for every program set, configuration, workers and schedule (hence in every prefix of every schedule): *)
Theorem sched_mutex : forall ps c ws sched,
  let st := run ps c (init_state c ws) sched in
  LockInv (fst st) (snd st).
Proof.
  intros. subst st. destruct (init_state c ws) as [g ts] eqn:E.
  apply run_invariant with (P := LockInv).
  - intros. eapply LockInv_step; eauto.
  - pose proof (LockInv_init c ws). rewrite E in H. auto.
Qed.

Theorem sched_mutex_holders : forall ps c ws sched t1 t2 th1 th2 k,
  let st := run ps c (init_state c ws) sched in
  nth_error (snd st) t1 = Some th1 -> nth_error (snd st) t2 = Some th2 ->
  In k (map snd (held th1)) -> In k (map snd (held th2)) -> t1 = t2.
Proof. intros. eapply LockInv_mutex; eauto. apply sched_mutex. Qed.

(* SymCoreTypedPrims.v — the write primitives preserve the schema invariant: SymCore's own primitives on containers that
   do not check their members, the typed primitives through tlit_conf. *)
From Coq Require Import ZArith NArith List Bool.
Import ListNotations.
From PG Require Import Common.Tactics Model.SymCoreDefs Model.SymCoreOps Model.SymCoreTyped.
From PG Require Import Proofs.SymCoreBase Proofs.SymCoreWF Proofs.SymCoreWFOps Proofs.SymCoreClone.
From PG Require Import Proofs.SymCoreTypedBase Proofs.SymCoreTypedConf Proofs.SymCoreTypedCopy Proofs.SymCoreTypedState Proofs.SymCoreTypedLit.
From PG Require Model.Typing Proofs.TypingTheorems.
Local Open Scope Z_scope.

Section Prims.
Variable ev : env.
Variable P : bool.
Notation cnode := (cnode ev P).
Notation node_ok := (node_ok ev P).
Notation Conforms := (Conforms ev P).

(* values that carry no value spec of their own *)
Fixpoint rv_free (rv : rvalue) : Prop :=
  match rv with RLit l => lit_spec_free l = true | RIns v => rv_free v | _ => True end.

Definition roots_kept (st st1 : state) : Prop :=
  forall r', get_root st1 r' = None \/ get_root st1 r' = get_root st r'.
Lemma roots_kept_refl : forall st, roots_kept st st.
Proof. intros st r. auto. Qed.

Lemma formalize_conf : forall q sc st r ck cid cfl tpath ins rv nw st1,
  Conforms st -> rv_free rv -> formalize q sc st r ck cid cfl tpath ins rv = (nw, st1) ->
  cnode nw /\ Conforms st1 /\ roots_kept st st1.
Proof.
  intros q sc st r ck cid cfl tpath ins rv nw st1 C OK F. destruct rv; simpl in F.
  - inv F. split; [exact I|]. split; auto. apply roots_kept_refl.
  - destruct (build (accepts_partial sc cfl) (Some cid) tpath l (next_id st)) as [n nx] eqn:B. inversion F; subst nw st1; clear F.
    split; [|split; [apply conforms_with_next; auto|intros r'; auto]].
    replace n with (fst (build (accepts_partial sc cfl) (Some cid) tpath l (next_id st))) by (rewrite B; auto).
    apply cnode_build_free. exact OK.
  - destruct (locate st i) as [vpos|]; [|inv F; split; [exact I|split; auto; apply roots_kept_refl]].
    destruct (get_at st vpos) as [v|] eqn:G; [|inv F; split; [exact I|split; auto; apply roots_kept_refl]].
    pose proof (conforms_get_at _ _ _ _ _ C G) as Cv.
    destruct (needs_clone r ck cid tpath ins vpos v).
    + destruct (clone_at (q_copy_drops_missing q) false (Some cid) tpath v (next_id st, [])) as [c cs] eqn:CL. inversion F; subst nw st1; clear F.
      split; [|split; [apply conforms_with_next; auto|intros r'; auto]].
      replace c with (fst (clone_at (q_copy_drops_missing q) false (Some cid) tpath v (next_id st, []))) by (rewrite CL; auto).
      apply cnode_clone_at; auto.
    + inv F. split; [apply cnode_set_par; apply cnode_set_path; auto|].
      destruct (snd vpos); [|split; auto; apply roots_kept_refl]. split.
      * apply conforms_set_root; simpl; auto.
      * intros r'. destruct (Nat.eq_dec (fst vpos) r').
        -- subst. left. apply get_root_set_root_moved.
        -- right. apply get_root_set_root_other; auto.
  - inv F. split; [exact I|]. split; auto. apply roots_kept_refl.
Qed.

Lemma Forall_cnode_renum : forall cp l, Forall (fun kc => cnode (snd kc)) l -> Forall (fun kc => cnode (snd kc)) (renum cp l).
Proof.
  unfold renum. intros cp l. generalize 0. induction l as [|[k c] r IH]; intros z F; simpl; auto.
  inv F. constructor; auto. simpl. unfold reindex_child. destruct c as [lf|i kd pa pt fl its]; auto.
  destruct (last_key pt) as [k0|]; [destruct (key_eqb k0 (KI z)); auto|]; apply cnode_set_path; auto.
Qed.

Lemma target_children : forall st cp cid ck pa pt fl its, Conforms st -> get_at st cp = Some (Node cid ck pa pt fl its) ->
  node_ok ck fl its /\ Forall (fun kc => cnode (snd kc)) its.
Proof. intros. eapply cnode_node. eapply conforms_get_at; eauto. Qed.

Lemma rv_free_ins : forall rv ins v, rv_free rv -> match rv with RIns v' => (true, v') | _ => (false, rv) end = (ins, v) -> rv_free v.
Proof. intros rv ins v OK E. destruct rv; inv E; simpl in *; auto. Qed.

Lemma lprim_conf : forall q sc st cp k rv st' p,
  Conforms st -> rv_free rv ->
  (forall n, get_at st cp = Some n -> checks_members ev n = false) ->
  lprim q sc st cp k rv = (st', p) -> Conforms st'.
Proof.
  intros q sc st cp k rv st' p C OK NC L. unfold lprim in L.
  destruct (get_at st cp) as [[|cid ck pa pt cfl its]|] eqn:G; try (inv L; auto; fail).
  destruct ck; try (inv L; auto; fail).
  destruct (target_children _ _ _ _ _ _ _ _ C G) as (NO & F).
  pose proof (NC _ eq_refl) as CM.
  assert (ANY : forall its', node_ok KList cfl its') by (intros; eapply node_ok_any; eauto).
  destruct k as [s|z]; [inv L; auto|].
  destruct ((z >=? zlen its) && is_missing_rv rv); [inv L; auto|].
  destruct (match rv with RIns v' => (true, v') | _ => (false, rv) end) as [ins v] eqn:IV.
  pose proof (rv_free_ins _ _ _ OK IV) as OKv.
  match type of L with (if ?c then _ else _) = _ => destruct c end.
  - match type of L with (if ?c then _ else _) = _ => destruct c; [inv L; auto|] end.
    match type of L with match ?x with _ => _ end = _ => destruct x as [[k0 old]|] eqn:NE; [|inv L; auto] end.
    destruct (same_obj old v); [inv L; auto|].
    match type of L with (let '(_, _) := ?f in _) = _ => destruct f as [nw st1] eqn:FO end.
    destruct (formalize_conf _ _ _ _ _ _ _ _ _ _ _ _ C OKv FO) as (Cn & C1 & R1).
    inv L. apply conforms_add_detached.
    + eapply conforms_replace_items; eauto. apply Forall_set_nth; auto.
    + apply nth_error_In in NE. rewrite Forall_forall in F. exact (F _ NE).
  - match type of L with (let '(_, _) := ?f in _) = _ => destruct f as [nw st1] eqn:FO end.
    destruct (formalize_conf _ _ _ _ _ _ _ _ _ _ _ _ C OKv FO) as (Cn & C1 & R1).
    match type of L with (if ?c then _ else _) = _ => destruct c end; inv L.
    + eapply conforms_replace_items; eauto. apply Forall_cnode_renum. apply Forall_insert_at; auto.
    + eapply conforms_replace_items; eauto. apply Forall_app; split; auto.
Qed.

Lemma assoc_cnode : forall k (its : list (key * node)) o, Forall (fun kc => cnode (snd kc)) its -> assoc k its = Some o -> cnode o.
Proof.
  intros k its o F A. destruct (assoc_in _ _ _ _ A) as (k' & _ & I). rewrite Forall_forall in F. exact (F _ I).
Qed.

Lemma dprim_conf : forall q sc st cp k rv st' p,
  Conforms st -> rv_free rv ->
  (forall n, get_at st cp = Some n -> checks_members ev n = false) ->
  dprim q sc st cp k rv = (st', p) -> Conforms st'.
Proof.
  intros q sc st cp k rv st' p C OK NC L. unfold dprim in L.
  destruct (get_at st cp) as [[|cid ck pa pt cfl its]|] eqn:G; try (inv L; auto; fail).
  destruct ck; try (inv L; auto; fail).
  destruct (target_children _ _ _ _ _ _ _ _ C G) as (NO & F).
  pose proof (NC _ eq_refl) as CM.
  assert (ANY : forall its', node_ok KDict cfl its') by (intros; eapply node_ok_any; eauto).
  set (old := match assoc k its with Some o => o | None => Leaf LMissing end) in *.
  assert (Cold : cnode old).
  { unfold old. destruct (assoc k its) eqn:A; [eapply assoc_cnode; eauto|exact I]. }
  destruct (same_obj old rv); [inv L; auto|].
  destruct (is_missing_rv rv).
  - inv L. apply conforms_add_detached; auto.
    eapply conforms_replace_items; eauto using roots_kept_refl. apply Forall_remove_assoc; auto.
  - match type of L with (let '(_, _) := ?f in _) = _ => destruct f as [nw st1] eqn:FO end.
    destruct (formalize_conf _ _ _ _ _ _ _ _ _ _ _ _ C OK FO) as (Cn & C1 & R1).
    inv L. apply conforms_add_detached; auto.
    eapply conforms_replace_items; eauto. apply Forall_set_assoc; auto.
Qed.

Lemma oprim_conf : forall q sc st cp k rv st' p,
  Conforms st -> rv_free rv ->
  (forall n, get_at st cp = Some n -> checks_members ev n = false) ->
  oprim q sc st cp k rv = (st', p) -> Conforms st'.
Proof.
  intros q sc st cp k rv st' p C OK NC L. unfold oprim in L.
  destruct (get_at st cp) as [[|cid ck pa pt cfl its]|] eqn:G; try (inv L; auto; fail).
  destruct ck as [| |c]; try (inv L; auto; fail).
  destruct (target_children _ _ _ _ _ _ _ _ C G) as (NO & F).
  pose proof (NC _ eq_refl) as CM.
  assert (ANY : forall its', node_ok (KObj c) cfl its') by (intros; eapply node_ok_any; eauto).
  destruct (assoc k its) as [old|] eqn:A; [|destruct (is_missing_rv rv); inv L; auto].
  pose proof (assoc_cnode _ _ _ F A) as Cold.
  destruct (same_obj old rv); [inv L; auto|].
  destruct (is_missing_rv rv).
  - inv L. apply conforms_add_detached; auto.
    eapply conforms_replace_items; eauto using roots_kept_refl. apply Forall_set_assoc; auto. intros; exact I.
  - match type of L with (let '(_, _) := ?f in _) = _ => destruct f as [nw st1] eqn:FO end.
    destruct (formalize_conf _ _ _ _ _ _ _ _ _ _ _ _ C OK FO) as (Cn & C1 & R1).
    inv L. apply conforms_add_detached; auto.
    eapply conforms_replace_items; eauto. apply Forall_set_assoc; auto.
Qed.

Lemma prim_conf : forall q sc st cp k rv st' p,
  Conforms st -> rv_free rv ->
  (forall n, get_at st cp = Some n -> checks_members ev n = false) ->
  prim q sc st cp k rv = (st', p) -> Conforms st'.
Proof.
  intros q sc st cp k rv st' p C OK NC L. unfold prim in L.
  destruct (get_at st cp) as [[|cid ck pa pt cfl its]|] eqn:G; try (inv L; auto; fail).
  destruct ck; [eapply dprim_conf|eapply lprim_conf|eapply oprim_conf]; eauto; intros n Gn; rewrite G in Gn; apply NC; exact Gn.
Qed.

(* --- counting the present items ---------------------------------------------------------------------------------------- *)
Definition pres1 (c : node) : Z := if is_missing c then 0 else 1.
Lemma count_present_cons : forall kc l, count_present (kc :: l) = pres1 (snd kc) + count_present l.
Proof.
  intros. unfold count_present, zlen, pres1. cbn [filter]. destruct (is_missing (snd kc)); cbn [negb length]; [reflexivity|].
  rewrite Nat2Z.inj_succ. lia.
Qed.
Lemma count_present_nil : count_present [] = 0.
Proof. reflexivity. Qed.
Lemma pres1_range : forall c, 0 <= pres1 c <= 1.
Proof. intros. unfold pres1. destruct (is_missing c); lia. Qed.
Lemma count_present_app : forall a b, count_present (a ++ b) = count_present a + count_present b.
Proof.
  induction a as [|x r IH]; intros; [change ([] ++ b) with b; rewrite count_present_nil; lia|].
  change ((x :: r) ++ b) with (x :: (r ++ b)). rewrite !count_present_cons, IH. lia.
Qed.
Lemma count_present_le : forall l, 0 <= count_present l <= zlen l.
Proof.
  induction l as [|x r IH]; [rewrite count_present_nil; unfold zlen; cbn [length]; lia|].
  rewrite count_present_cons. pose proof (pres1_range (snd x)). unfold zlen in *. cbn [length]. rewrite Nat2Z.inj_succ. lia.
Qed.
Lemma count_present_set_nth : forall n x l old, nth_error l n = Some old ->
  count_present (set_nth n x l) = count_present l - pres1 (snd old) + pres1 (snd x).
Proof.
  induction n; destruct l as [|y r]; cbn [set_nth nth_error]; intros old H; try discriminate.
  - inv H. rewrite !count_present_cons. lia.
  - rewrite !count_present_cons. rewrite (IHn _ _ _ H). lia.
Qed.
Lemma count_present_insert_at : forall n x l, count_present (insert_at n x l) = count_present l + pres1 (snd x).
Proof.
  induction n; destruct l as [|y r]; cbn [insert_at]; rewrite ?count_present_cons, ?count_present_nil; try lia.
  rewrite IHn. lia.
Qed.
Lemma count_present_remove_nth : forall n l, count_present l - 1 <= count_present (remove_nth n l) <= count_present l.
Proof.
  induction n; destruct l as [|y r]; cbn [remove_nth]; rewrite ?count_present_cons, ?count_present_nil; try lia;
    try (pose proof (pres1_range (snd y)); lia); try (pose proof (pres1_range (snd y)); specialize (IHn r); lia).
Qed.
Lemma zlen_set_nth : forall A n (x : A) l, zlen (set_nth n x l) = zlen l.
Proof. unfold zlen. induction n; destruct l; cbn [set_nth length]; auto; rewrite ?Nat2Z.inj_succ; try lia; try (specialize (IHn x l); lia). Qed.
Lemma zlen_insert_at : forall A n (x : A) l, zlen (insert_at n x l) = zlen l + 1.
Proof. unfold zlen. induction n; destruct l; cbn [insert_at length]; rewrite ?Nat2Z.inj_succ; try lia; try (specialize (IHn x l); lia). Qed.
Lemma zlen_remove_nth : forall A n (l : list A), zlen (remove_nth n l) <= zlen l.
Proof. unfold zlen. induction n; destruct l; cbn [remove_nth length]; rewrite ?Nat2Z.inj_succ; try lia; try (specialize (IHn l); lia). Qed.
Lemma zlen_app1 : forall A (l : list A) x, zlen (l ++ [x]) = zlen l + 1.
Proof. intros. unfold zlen. rewrite app_length. cbn [length]. lia. Qed.

(* --- renumbering / dropping placeholders of a list ------------------------------------------------------------------------ *)
Lemma face_reindex_child : forall cp i c, same_face c (reindex_child cp i c) /\ is_missing (reindex_child cp i c) = is_missing c.
Proof.
  intros. unfold reindex_child. destruct c as [l|j k pa pt fl its]; [split; [apply same_face_refl|auto]|].
  destruct (last_key pt) as [k0|]; [destruct (key_eqb k0 (KI i))|]; split; auto using same_face_refl, face_set_path, is_missing_set_path.
Qed.
Lemma lfaces_renum_from : forall cp l i, lfaces l (renum_from cp i l).
Proof.
  induction l as [|[k c] r IH]; intros i; simpl; [constructor|].
  destruct (face_reindex_child cp i c) as (A & B). apply lf_keep; auto.
Qed.
Lemma lfaces_trans : forall a b c, lfaces a b -> lfaces b c -> lfaces a c.
Proof.
  intros a b c H. revert c. induction H; intros c0 H2.
  - exact H2.
  - inv H2.
    + apply lf_keep; auto.
      * destruct a as [ka na], b as [kb nb], b0 as [kc nc]. simpl in *.
        destruct na, nb, nc; simpl in *; try contradiction; try congruence.
        destruct H as (-> & ->). destruct H5 as (-> & ->). auto.
      * congruence.
    + apply lf_drop; auto. congruence.
  - apply lf_drop; auto.
Qed.
Lemma lfaces_filter : forall l, lfaces l (filter (fun kv => negb (is_missing (snd kv))) l).
Proof.
  induction l as [|x r IH]; simpl; [constructor|].
  destruct (is_missing (snd x)) eqn:M; simpl.
  - apply lf_drop; auto.
  - apply lf_keep; auto. apply same_face_refl.
Qed.
Lemma node_ok_renum : forall fl cp its, node_ok KList fl its -> node_ok KList fl (renum cp its).
Proof. intros. eapply node_ok_lfaces; [apply lfaces_renum_from|auto]. Qed.

Lemma purge_list_keeps : forall m, cnode m -> cnode (purge_list m) /\ same_face m (purge_list m) /\ is_missing (purge_list m) = is_missing m.
Proof.
  intros m C. destruct m as [l|i k pa pt fl its]; [simpl; auto|].
  destruct k; cbn [purge_list]; try (split; [exact C|split; [apply same_face_refl|reflexivity]]).
  apply cnode_node in C. destruct C as (NO & F). split; [|split; [simpl; auto|reflexivity]].
  apply cnode_node. split.
  - eapply node_ok_lfaces; [|exact NO]. eapply lfaces_trans; [apply lfaces_filter|apply lfaces_renum_from].
  - apply Forall_cnode_renum. apply Forall_forall. intros x I. apply filter_In in I. destruct I as (I & _).
    rewrite Forall_forall in F. auto.
Qed.
Lemma fix_chain_conf : forall st ps, Conforms st -> Conforms (fix_chain st ps).
Proof.
  intros st ps. unfold fix_chain. generalize (prefixes_desc (snd ps)). intros l. revert st.
  induction l as [|pre r IH]; intros st C; simpl; auto.
  apply IH. apply conforms_update_at_total; auto. apply purge_list_keeps.
Qed.
Lemma fix_chains_conf : forall ids st, Conforms st -> Conforms (fix_chains st ids).
Proof.
  unfold fix_chains. induction ids as [|i r IH]; intros st C; simpl; auto.
  apply IH. destruct (locate st i); auto. apply fix_chain_conf; auto.
Qed.
Lemma notified_conf : forall sc st ps p, Conforms st -> Conforms (notified sc st ps p).
Proof. intros. unfold notified. destruct p; auto. destruct (notify_on sc); auto. apply fix_chain_conf; auto. Qed.

(* --- the typed write path ------------------------------------------------------------------------------------------------ *)
(* every spec of the table is union-free, with distinct keys, atomic frozen / enum values *)
Definition good_env : Prop := forall r sp, spec_at ev r = Some sp -> good sp = true.
(* P records that the history uses an allow_partial(True) scope *)
Definition scope_ok (sc : scope) : Prop := scope_partial sc = Some true -> P = true.

Lemma accepts_partial_cases : forall sc fl, scope_ok sc -> accepts_partial sc fl = true -> part P fl = true.
Proof.
  intros sc fl S H. unfold accepts_partial in H. unfold part.
  destruct (innermost None (sc_partial sc)) as [b|] eqn:E.
  - subst b. rewrite (S E). apply orb_true_r.
  - rewrite H. reflexivity.
Qed.

Lemma prune_missing : forall s v, prune s v = Typing.PMissing -> v = Typing.PMissing.
Proof. destruct v; simpl; intros; auto; discriminate. Qed.

Lemma stored_ok_parts : forall p f l v, stored_ok false p f l v = true ->
  lit_pv l = v /\ dict_keys_nodup v = true /\ lists_present v = true /\ Typing.apply p f v = Typing.Ok v.
Proof.
  intros p f l v H. unfold stored_ok in H. simpl in H.
  apply andb_true_iff in H as [H H4]. apply andb_true_iff in H as [H H3]. apply andb_true_iff in H as [H1 H2].
  apply TypingTheorems.pv_eqb_eq in H1. repeat split; auto.
  destruct (Typing.apply p f v) as [w|]; [|discriminate]. apply TypingTheorems.pv_eqb_eq in H4. congruence.
Qed.

Lemma tformalize_conf : forall q sc st r ck cid cfl tpath ins f v nw st1,
  Conforms st -> good f = true -> scope_ok sc ->
  tformalize q false ev sc st r ck cid cfl tpath ins f v = inl (nw, st1) ->
  cnode nw /\ child_ok ev (part P cfl) f nw /\ Conforms st1 /\ roots_kept st st1 /\
  (is_missing nw = true -> v = Typing.PMissing).
Proof.
  intros q sc st r ck cid cfl tpath ins f v nw st1 C G S T. unfold tformalize in T.
  destruct (Typing.apply (accepts_partial sc cfl) f v) as [v'|] eqn:A; [|discriminate].
  set (v2 := prune (Some f) v') in *.
  set (l := tlit ev (f_partial cfl) (Some f) v2) in *.
  destruct (stored_ok false (accepts_partial sc cfl) f l v2) eqn:SO; [|discriminate].
  destruct (stored_ok_parts _ _ _ _ SO) as (LP & ND & PR & FX).
  simpl in T.
  destruct (build (accepts_partial sc cfl) (Some cid) tpath l (next_id st)) as [n nx] eqn:B. inv T.
  assert (PP : accepts_partial sc cfl = true -> part P cfl = true) by (apply accepts_partial_cases; auto).
  destruct (tlit_conf ev P v2 f (accepts_partial sc cfl) (f_partial cfl) (part P cfl) G FX LP ND PR PP PP
              (accepts_partial sc cfl) (Some cid) tpath (next_id st)) as (C1 & C2 & C3).
  fold l in C1, C2, C3. rewrite B in C1, C2, C3. simpl in C1, C2, C3.
  split; auto. split; auto. split; [apply conforms_with_next; auto|]. split; [intros r'; auto|].
  intros M. specialize (C3 M). unfold v2 in C3. apply prune_missing in C3. subst v'.
  eapply good_missing_out; eauto.
Qed.

(* --- a symbolic value handed over by reference ----------------------------------------------------------------------- *)
Lemma ref_decide_ok : forall sc cfl f v, scope_ok sc -> ref_decide ev sc cfl f v = RDAccept ->
  child_ok ev (part P cfl) f v /\ is_missing v = false.
Proof.
  intros sc cfl f v S H. destruct v as [l|i k pa pt fl its]; simpl in H; [discriminate|]. split; [|reflexivity].
  destruct k as [| |c].
  - destruct (route true f) eqn:R.
    + destruct (bound_for true f) as [b|] eqn:B.
      * match type of H with (if ?c then _ else _) = _ => destruct c eqn:E; [|discriminate] end.
        apply andb_true_iff in E as [E _]. apply andb_true_iff in E as [E _]. apply andb_true_iff in E as [_ E]. apply N.eqb_eq in E.
        simpl. split; auto. rewrite B. exact E.
      * simpl. split; auto. rewrite B. exact I.
    + destruct (N.eqb (f_spec fl) 0); [|discriminate]. destruct (Typing.apply _ f _); discriminate.
  - destruct (route false f) eqn:R.
    + destruct (bound_for false f) as [b|] eqn:B.
      * match type of H with (if ?c then _ else _) = _ => destruct c eqn:E; [|discriminate] end.
        apply andb_true_iff in E as [E _]. apply andb_true_iff in E as [E _]. apply andb_true_iff in E as [_ E]. apply N.eqb_eq in E.
        simpl. split; auto. rewrite B. exact E.
      * simpl. split; auto. rewrite B. exact I.
    + destruct (N.eqb (f_spec fl) 0); [|discriminate]. destruct (Typing.apply _ f _); discriminate.
  - destruct (Typing.frozen (Typing.mods_of f)); [discriminate|].
    destruct (Typing.apply (accepts_partial sc cfl) f (obj_pv c)) as [w|] eqn:A; [|discriminate].
    destruct (Typing.pv_eqb w (obj_pv c)) eqn:E; [|discriminate]. apply TypingTheorems.pv_eqb_eq in E. subst w.
    simpl. destruct (accepts_partial sc cfl) eqn:AP.
    + right. split; auto. apply (accepts_partial_cases sc cfl); auto.
    + left. exact A.
Qed.

Lemma ref_decide2_ok : forall sc cfl f v, scope_ok sc -> ref_decide2 ev sc cfl f v = RDAccept ->
  child_ok ev (part P cfl) f v /\ is_missing v = false.
Proof.
  intros sc cfl f v S H. apply ref_decide_ok with (sc := sc); auto.
  destruct v as [l|i k pa pt fl its]; simpl in H; auto.
  destruct k; auto; destruct (spec_at ev (f_spec fl)); auto; destruct (Typing.compat (e_tq ev) f s); auto; discriminate.
Qed.

Lemma formalize_ref_face : forall q sc st r ck cid cfl tpath ins i vpos v nw st1,
  Conforms st -> locate st i = Some vpos -> get_at st vpos = Some v ->
  formalize q sc st r ck cid cfl tpath ins (RNodeId i) = (nw, st1) -> same_face v nw.
Proof.
  intros q sc st r ck cid cfl tpath ins i vpos v nw st1 C LO G F. simpl in F. rewrite LO, G in F.
  destruct (needs_clone r ck cid tpath ins vpos v).
  - destruct (clone_at (q_copy_drops_missing q) false (Some cid) tpath v (next_id st, [])) as [c cs] eqn:CL. inv F.
    replace nw with (fst (clone_at (q_copy_drops_missing q) false (Some cid) tpath v (next_id st, []))) by (rewrite CL; auto).
    apply (face_clone_at ev P). eapply conforms_get_at; eauto.
  - inv F. destruct v as [l|j k pa pt fl its]; simpl; auto. destruct (path_eqb pt tpath); simpl; auto.
Qed.

Lemma tformalize_s_conf : forall q sc st r ck cid cfl tpath ins f s nw st1,
  Conforms st -> good f = true -> scope_ok sc ->
  tformalize_s q false ev sc st r ck cid cfl tpath ins f s = inl (nw, st1) ->
  cnode nw /\ child_ok ev (part P cfl) f nw /\ Conforms st1 /\ roots_kept st st1 /\
  (is_missing nw = true -> s = inl Typing.PMissing).
Proof.
  intros q sc st r ck cid cfl tpath ins f s nw st1 C G S T. destruct s as [v|rv]; simpl in T.
  - destruct (tformalize_conf _ _ _ _ _ _ _ _ _ _ _ _ _ C G S T) as (A1 & A2 & A3 & A4 & MS).
    repeat (split; auto). intros M. f_equal. auto.
  - unfold tformalize_ref in T. destruct rv as [| |i|]; try discriminate.
    destruct (locate st i) as [vpos|] eqn:LO; [|discriminate].
    destruct (get_at st vpos) as [v|] eqn:Gv; [|discriminate].
    destruct (ref_decide2 ev sc cfl f v) eqn:RD; try discriminate.
    assert (F : formalize q sc st r ck cid cfl tpath ins (RNodeId i) = (nw, st1)) by (inversion T; reflexivity).
    destruct (formalize_conf q sc st r ck cid cfl tpath ins (RNodeId i) nw st1 C I F) as (Cn & C1 & R1).
    pose proof (formalize_ref_face _ _ _ _ _ _ _ _ _ _ _ _ _ _ C LO Gv F) as SF.
    destruct (ref_decide2_ok _ _ _ _ S RD) as (CO & NM).
    split; auto. split; [eapply child_ok_face; eauto|]. split; auto. split; auto.
    intros M. destruct v as [l|j k pa pt fl its]; [simpl in NM; discriminate|].
    destruct nw; simpl in SF; [contradiction|]. simpl in M. discriminate.
Qed.
Lemma xval_missing : forall x, xval x = inl Typing.PMissing -> x_missing x = true.
Proof. unfold xval, x_missing. intros x H. destruct (r_pv x); inv H. reflexivity. Qed.

Lemma x_missing_pv : forall x v, r_pv x = Some v -> x_missing x = false -> v <> Typing.PMissing.
Proof. intros x v E M. unfold x_missing in M. rewrite E in M. intro; subst; discriminate. Qed.

Lemma pres1_not_missing : forall c, is_missing c = false -> pres1 c = 1.
Proof. intros. unfold pres1. rewrite H. reflexivity. Qed.

Lemma tlprim_conf : forall q sc st cp k x e mn mx m st' p,
  Conforms st -> good_env -> scope_ok sc ->
  (forall cid ck pa pt cfl its, get_at st cp = Some (Node cid ck pa pt cfl its) -> spec_at ev (f_spec cfl) = Some (Typing.SList e mn mx m)) ->
  tlprim q false ev sc st cp k x e mn mx = (st', p) -> Conforms st'.
Proof.
  intros q sc st cp k x e mn mx m st' p C GE S SP L. unfold tlprim in L.
  destruct (get_at st cp) as [[|cid ck pa pt cfl its]|] eqn:G; try (inv L; auto; fail).
  destruct ck; try (inv L; auto; fail).
  pose proof (SP _ _ _ _ _ _ eq_refl) as SA.
  pose proof (good_list _ _ _ _ (GE _ _ SA)) as Ge.
  destruct (target_children _ _ _ _ _ _ _ _ C G) as (NO & F).
  unfold SymCoreTypedConf.node_ok in NO. rewrite SA in NO. destruct NO as (N1 & N2 & N3).
  assert (MK : forall its', Forall (fun kc => child_ok ev (part P cfl) e (snd kc)) its' -> mn <= count_present its' ->
                 match mx with Some mm => zlen its' <= mm | None => True end -> node_ok KList cfl its').
  { intros. unfold SymCoreTypedConf.node_ok. rewrite SA. auto. }
  destruct k as [s|z]; [inv L; auto|].
  match type of L with (if ?c then _ else _) = _ => destruct c; [inv L; auto|] end.
  match type of L with (if ?c then _ else _) = _ => destruct c end.
  - match type of L with (if ?c then _ else _) = _ => destruct c; [inv L; auto|] end.
    match type of L with match ?y with _ => _ end = _ => destruct y as [[k0 old]|] eqn:NE; [|inv L; auto] end.
    destruct (same_obj_t old (r_rv x)); [inv L; auto|].
    destruct (x_missing x && negb (removable mn its 1)) eqn:RM; [inv L; auto|].
    match type of L with match ?t with _ => _ end = _ => destruct t as [[nw st1]|er] eqn:TF; [|inv L; auto] end.
    destruct (tformalize_s_conf _ _ _ _ _ _ _ _ _ _ _ _ _ C Ge S TF) as (Cn & CO & C1 & R1 & MS).
    inv L. apply conforms_add_detached.
    + eapply conforms_replace_items; eauto.
      * apply MK.
        -- apply Forall_set_nth; auto.
        -- rewrite (count_present_set_nth _ _ _ _ NE). simpl snd.
           pose proof (pres1_range old). pose proof (pres1_range nw).
           destruct (x_missing x) eqn:XM.
           ++ simpl in RM. apply negb_false_iff in RM. unfold removable in RM. apply negb_true_iff in RM. lia.
           ++ rewrite (pres1_not_missing nw); [lia|].
              destruct (is_missing nw) eqn:MN; auto. exfalso. rewrite (xval_missing _ (MS eq_refl)) in XM. discriminate.
        -- destruct mx; auto. rewrite zlen_set_nth. auto.
      * apply Forall_set_nth; auto.
    + apply nth_error_In in NE. rewrite Forall_forall in F. exact (F _ NE).
  - destruct (full mx (zlen its)) eqn:FU; [inv L; auto|].
    match type of L with match ?t with _ => _ end = _ => destruct t as [[nw st1]|er] eqn:TF; [|inv L; auto] end.
    destruct (tformalize_s_conf _ _ _ _ _ _ _ _ _ _ _ _ _ C Ge S TF) as (Cn & CO & C1 & R1 & MS).
    assert (ROOM : match mx with Some mm => zlen its + 1 <= mm | None => True end).
    { unfold full in FU. destruct mx; auto. lia. }
    pose proof (pres1_range nw).
    match type of L with (if ?c then _ else _) = _ => destruct c end; inv L.
    + eapply conforms_replace_items; eauto.
      * apply node_ok_renum. apply MK.
        -- apply Forall_insert_at; auto.
        -- rewrite count_present_insert_at. simpl snd. lia.
        -- destruct mx; auto. rewrite zlen_insert_at. auto.
      * apply Forall_cnode_renum. apply Forall_insert_at; auto.
    + eapply conforms_replace_items; eauto.
      * apply MK.
        -- apply Forall_app; split; auto.
        -- rewrite count_present_app, count_present_cons, count_present_nil. simpl snd. lia.
        -- destruct mx; auto. rewrite zlen_app1. auto.
      * apply Forall_app; split; auto.
Qed.

Lemma key_eqb_sym : forall a b, key_eqb a b = key_eqb b a.
Proof.
  intros. destruct (key_eqb a b) eqn:E.
  - apply key_eqb_eq in E. subst. symmetry. apply key_eqb_refl.
  - destruct (key_eqb b a) eqn:E2; auto. apply key_eqb_eq in E2. subst. rewrite key_eqb_refl in E. discriminate.
Qed.
Lemma has_key_set_assoc : forall (k' k : key) (v : node) l, has_key k' l = true -> has_key k' (set_assoc k v l) = true.
Proof.
  unfold has_key. induction l as [|[k0 v0] r IH]; simpl; intros H; [discriminate|].
  destruct (key_eqb k k0) eqn:E; simpl.
  - destruct (key_eqb k' k0); auto.
  - destruct (key_eqb k' k0); auto.
Qed.
Lemma has_key_remove_other : forall (k' k : key) (l : list (key * node)), key_eqb k' k = false ->
  has_key k' (remove_assoc k l) = has_key k' l.
Proof.
  unfold has_key. induction l as [|[k0 v0] r IH]; simpl; intros H; auto.
  destruct (key_eqb k k0) eqn:E; simpl.
  - apply key_eqb_eq in E. subst. rewrite H. reflexivity.
  - destruct (key_eqb k' k0); auto.
Qed.

Lemma tdprim_conf : forall q sc st cp k x fs m st' p,
  Conforms st -> good_env -> scope_ok sc ->
  (forall cid ck pa pt cfl its, get_at st cp = Some (Node cid ck pa pt cfl its) ->
     ck <> KList /\ spec_at ev (f_spec cfl) = Some (Typing.SDict (Some fs) m)) ->
  tdprim q false ev sc st cp k x fs = (st', p) -> Conforms st'.
Proof.
  intros q sc st cp k x fs m st' p C GE S SP L. unfold tdprim in L.
  destruct (get_at st cp) as [[|cid ck pa pt cfl its]|] eqn:G; try (inv L; auto; fail).
  destruct (SP _ _ _ _ _ _ eq_refl) as (KL & SA).
  pose proof (GE _ _ SA) as Gs.
  destruct (target_children _ _ _ _ _ _ _ _ C G) as (NO & F).
  assert (NO' : Forall (fun kc => exists f, dict_field fs (fst kc) = Some f /\ child_ok ev (part P cfl) f (snd kc)) its /\
                (forall s, Typing.has_const s fs = true -> has_key (KS s) its = true)).
  { unfold SymCoreTypedConf.node_ok in NO. rewrite SA in NO. destruct ck; try congruence; exact NO. }
  destruct NO' as (N1 & N2).
  assert (MK : forall its',
                 Forall (fun kc => exists f, dict_field fs (fst kc) = Some f /\ child_ok ev (part P cfl) f (snd kc)) its' ->
                 (forall s, Typing.has_const s fs = true -> has_key (KS s) its' = true) -> node_ok ck cfl its').
  { intros. unfold SymCoreTypedConf.node_ok. rewrite SA. destruct ck; try congruence; auto. }
  set (old := match assoc k its with Some o => o | None => Leaf LMissing end) in *.
  assert (Cold : cnode old).
  { unfold old. destruct (assoc k its) eqn:A; [eapply assoc_cnode; eauto|exact I]. }
  match type of L with (if ?c then _ else _) = _ => destruct c; [inv L; auto|] end.
  destruct (dict_field fs k) as [f|] eqn:DF; [|inv L; auto].
  assert (Gf : good f = true).
  { unfold dict_field in DF. destruct k as [s|z]; [|discriminate].
    destruct (Typing.field_of (Typing.KConst s) fs) eqn:E1.
    - inv DF. eapply good_field; eauto. eapply TypingDict.field_of_In'; eauto.
    - eapply good_field; eauto. eapply TypingDict.field_of_In'; eauto. }
  match type of L with (if ?c then _ else _) = _ => destruct c eqn:DEL end.
  - (* a key of the StrKey() field is deleted *)
    inv L. apply conforms_add_detached; auto.
    eapply conforms_replace_items; eauto using roots_kept_refl.
    + apply MK.
      * apply Forall_remove_assoc; auto.
      * intros s HS. rewrite has_key_remove_other; auto.
        apply andb_true_iff in DEL as [_ NC]. apply negb_true_iff in NC.
        destruct (key_eqb (KS s) k) eqn:E; auto. apply key_eqb_eq in E. subst k. simpl in NC. congruence.
    + apply Forall_remove_assoc; auto.
  - cbv zeta in L.
    match type of L with match ?t with _ => _ end = _ => destruct t as [[nw st1]|er] eqn:TF; [|inv L; auto] end.
    destruct (tformalize_s_conf _ _ _ _ _ _ _ _ _ _ _ _ _ C Gf S TF) as (Cn & CO & C1 & R1 & MS).
    inv L. apply conforms_add_detached; auto.
    eapply conforms_replace_items; eauto.
    + apply MK.
      * apply Forall_set_assoc; auto. intros k' E. apply key_eqb_eq in E. subst k'. exists f. auto.
      * intros s HS. apply has_key_set_assoc. auto.
    + apply Forall_set_assoc; auto.
Qed.

Lemma tprim_conf : forall q sc st cp k x st' p,
  Conforms st -> good_env -> scope_ok sc ->
  (forall n, get_at st cp = Some n -> checks_members ev n = false -> rv_free (to_rv x)) ->
  tprim q false ev sc st cp k x = (st', p) -> Conforms st'.
Proof.
  intros q sc st cp k x st' p C GE S FR L. unfold tprim in L.
  destruct (get_at st cp) as [[|cid ck pa pt cfl its]|] eqn:G; try (inv L; auto; fail).
  assert (UNT : checks_members ev (Node cid ck pa pt cfl its) = false ->
                prim q sc st cp k (to_rv x) = (st', p) -> Conforms st').
  { intros CM L'. eapply prim_conf; eauto. intros n Gn. rewrite G in Gn. inv Gn. auto. }
  unfold checks_members, node_spec in UNT.
  destruct ck; destruct (spec_at ev (f_spec cfl)) as [sp|] eqn:SA; try (apply UNT; auto; fail);
    destruct sp; try (apply UNT; auto; fail); try destruct schema; try (apply UNT; auto; fail).
  - eapply tdprim_conf; eauto. intros. rewrite G in H. inv H. split; [congruence|eauto].
  - eapply tlprim_conf; eauto. intros. rewrite G in H. inv H. eauto.
  - eapply tdprim_conf; eauto. intros. rewrite G in H. inv H. split; [congruence|eauto].
Qed.
End Prims.

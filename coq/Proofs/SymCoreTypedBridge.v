(* SymCoreTypedBridge.v — from the local invariant to whole values: in a conforming forest the Python value of every
   member of a schema-carrying node is accepted by its field's spec and mapped to itself (Typing.apply on the whole nested
   value), provided the nodes below share the allow_partial regime, the dict nodes have distinct keys and the table holds
   the specs the fields bind. *)
From Coq Require Import ZArith NArith List Bool.
Import ListNotations.
From PG Require Import Common.Tactics Model.SymCoreDefs Model.SymCoreOps Model.SymCoreTyped.
From PG Require Import Proofs.SymCoreBase Proofs.SymCoreWF Proofs.SymCoreTypedBase Proofs.SymCoreTypedConf Proofs.SymCoreTypedState Proofs.SymCoreTypedLit Proofs.SymCoreTypedPrims
                       Proofs.SymCoreTypedOps Proofs.SymCoreTypedTheorems.
From PG Require Import Model.Typing Proofs.TypingBasics Proofs.TypingApply Proofs.TypingDict Proofs.TypingApplyDict.
Local Open Scope Z_scope.

(* --- allow_partial only ever helps ------------------------------------------------------------------------------------ *)
Definition mono (s : spec) : Prop := forall v v', apply false s v = Ok v' -> apply true s v = Ok v'.

Lemma mapM_mono : forall (f g : pv -> res pv) l l', (forall x x', f x = Ok x' -> g x = Ok x') ->
  TypingApply.mapM f l = Ok l' -> TypingApply.mapM g l = Ok l'.
Proof.
  induction l as [|a r IH]; simpl; intros l' H M; auto.
  destruct (f a) eqn:Fa; simpl in M; [|discriminate]. destruct (TypingApply.mapM f r) eqn:E; simpl in M; inv M.
  rewrite (H _ _ Fa). simpl. rewrite (IH _ H eq_refl). reflexivity.
Qed.
Lemma zipM_mono : forall (f g : spec -> pv -> res pv) es l l',
  Forall (fun e => forall x x', f e x = Ok x' -> g e x = Ok x') es -> zipM f es l = Ok l' -> zipM g es l = Ok l'.
Proof.
  induction es as [|e es IH]; simpl; intros l l' H M; auto. destruct l as [|x r]; auto. inv H.
  destruct (f e x) eqn:Fa; simpl in M; [|discriminate]. destruct (zipM f es r) eqn:E; simpl in M; inv M.
  rewrite (H2 _ _ Fa). simpl. rewrite (IH _ _ H3 E). reflexivity.
Qed.
Lemma dyn_apply_mono : forall (f g : pv -> res pv) d fs l mine, (forall x x', f x = Ok x' -> g x = Ok x') ->
  dyn_apply f d fs l = Ok mine -> dyn_apply g d fs l = Ok mine.
Proof.
  induction l as [|[k x] r IH]; simpl; intros mine H M; auto.
  destruct (has_const k fs); auto.
  destruct (f (if is_missing x then d else x)) eqn:Fa; simpl in M; [|discriminate].
  destruct (dyn_apply f d fs r) eqn:E; simpl in M; inv M.
  rewrite (H _ _ Fa). simpl. rewrite (IH _ H eq_refl). reflexivity.
Qed.
Lemma fields_apply_mono : forall (f g : spec -> pv -> res pv) fs kvs fs' ups,
  Forall (fun kf => forall x x', f (snd kf) x = Ok x' -> g (snd kf) x = Ok x') fs' ->
  fields_apply f fs kvs fs' = Ok ups -> fields_apply g fs kvs fs' = Ok ups.
Proof.
  induction fs' as [|[[k|] sp] r IH]; simpl; intros ups H M; auto; inv H; simpl in *.
  - destruct (f sp (field_input sp (lookup k kvs))) eqn:Fa; simpl in M; [|discriminate].
    destruct (fields_apply f fs kvs r) eqn:E; simpl in M; inv M.
    rewrite (H2 _ _ Fa). simpl. rewrite (IH _ H3 eq_refl). reflexivity.
  - destruct (dyn_apply (f sp) (dflt (mods_of sp)) fs kvs) eqn:D; simpl in M; [|discriminate].
    destruct (fields_apply f fs kvs r) eqn:E; simpl in M; inv M.
    rewrite (dyn_apply_mono _ _ _ _ _ _ (H2) D). simpl. rewrite (IH _ H3 eq_refl). reflexivity.
Qed.

Lemma pipeline_mono : forall s,
  (forall v1 v', apply_body false s v1 = Ok v' -> apply_body true s v1 = Ok v') ->
  forall v v', pipeline false s v = Ok v' -> pipeline true s v = Ok v'.
Proof.
  intros s HB v v' H. unfold pipeline in *.
  destruct (frozen (mods_of s)); auto.
  destruct v; auto; try discriminate;
    try (destruct (coerce (vtype s) _) as [v1|]; simpl in *; [apply HB; exact H|discriminate]).
Qed.

Theorem apply_mono : forall s, no_union s = true -> mono s.
Proof.
  induction s using spec_ind'; intros NU v v'; rewrite !apply_eq; apply pipeline_mono; intros v1 w B; cbn [apply_body] in *; auto.
  - (* List *)
    destruct v1; try discriminate.
    destruct (TypingApply.mapM (apply false s) l) as [l'|] eqn:M; simpl in B; [|discriminate].
    rewrite (mapM_mono _ (apply true s) _ _ (IHs NU) M). simpl. exact B.
  - (* Tuple *)
    simpl in NU. rewrite forallb_forall in NU.
    assert (HF : Forall (fun e => forall x x', apply false e x = Ok x' -> apply true e x = Ok x') es).
    { rewrite Forall_forall in *. intros e I. apply H; auto. }
    destruct v1; try discriminate.
    destruct (fixed_length mn mx).
    + destruct (negb (len l =? len es)); auto.
      destruct (zipM (apply false) es l) as [l'|] eqn:M; simpl in B; [|discriminate].
      rewrite (zipM_mono _ (apply true) _ _ _ HF M). exact B.
    + destruct (negb (size_ok mn mx (len l))); auto.
      destruct es as [|e es']; auto.
      destruct (TypingApply.mapM (apply false e) l) as [l'|] eqn:M; simpl in B; [|discriminate].
      inv HF. rewrite (mapM_mono _ (apply true e) _ _ H2 M). exact B.
  - (* Dict with a schema *)
    simpl in NU. rewrite forallb_forall in NU.
    destruct v1; try discriminate.
    destruct (unknown_keys fs kvs); auto.
    destruct (fields_apply (apply false) fs kvs fs) as [ups|] eqn:M; simpl in B; [|discriminate].
    assert (HF : Forall (fun kf : fkey * spec => forall x x', apply false (snd kf) x = Ok x' -> apply true (snd kf) x = Ok x') fs).
    { rewrite Forall_forall in *. intros kf I. apply H; auto. }
    rewrite (fields_apply_mono _ (apply true) _ _ _ _ HF M). exact B.
  - simpl in NU. discriminate.
Qed.

(* --- rebuilding a fixed point of a Dict schema from fixed points of its fields ------------------------------------------- *)
Definition str_field (fs : list (fkey * spec)) (k : str) : option spec :=
  match field_of (KConst k) fs with Some f => Some f | None => field_of KDyn fs end.

Lemma lookup_nodup : forall (kvs : list (str * pv)) k x, NoDup (map fst kvs) -> In (k, x) kvs -> lookup k kvs = Some x.
Proof.
  induction kvs as [|[k0 x0] r IH]; simpl; intros k x N I; [contradiction|]. inv N.
  destruct I as [I|I].
  - inv I. rewrite str_eqb_refl. reflexivity.
  - destruct (str_eqb k k0) eqn:E.
    + apply str_eqb_eq in E. subst. exfalso. apply H1. apply in_map_iff. exists (k0, x). auto.
    + apply IH; auto.
Qed.

Lemma dict_fixpoint : forall p fs m kvs,
  keys_distinct fs = true -> frozen m = false -> NoDup (map fst kvs) ->
  (forall k x, In (k, x) kvs -> is_missing x = false /\ exists f, str_field fs k = Some f /\ apply p f x = Ok x) ->
  (forall k, has_const k fs = true -> Typing.has_key k kvs = true) ->
  apply p (SDict (Some fs) m) (PDict kvs) = Ok (PDict kvs).
Proof.
  intros p fs m kvs KD F ND MEM CK. rewrite apply_eq. unfold pipeline. simpl mods_of. rewrite F. simpl.
  assert (UK : unknown_keys fs kvs = false).
  { unfold unknown_keys. destruct (has_dyn fs) eqn:HD; auto. simpl.
    destruct (existsb (fun kv => negb (has_const (fst kv) fs)) kvs) eqn:EX; auto.
    apply existsb_exists in EX. destruct EX as ([k x] & I & NC). simpl in NC.
    destruct (MEM _ _ I) as (_ & f & SF & _). unfold str_field in SF. unfold has_const in NC. unfold has_dyn in HD.
    destruct (field_of (KConst k) fs); [discriminate|]. rewrite SF in HD. discriminate. }
  rewrite UK.
  assert (CS : forall k sp, In (KConst k, sp) fs -> has_const k fs = true) by (intros; eapply has_const_In; eauto).
  destruct (fields_apply_ok (apply p) fs kvs fs) as (ups & FA).
  { intros k sa I. pose proof (CK _ (CS _ _ I)) as HK. destruct (has_key_lookup _ _ HK) as (x & L).
    pose proof (lookup_In _ _ _ L) as Ix. destruct (MEM _ _ Ix) as (NM & f & SF & A).
    unfold str_field in SF. rewrite (In_field_of _ _ _ KD I) in SF. inv SF.
    exists x. unfold field_input. rewrite L, NM. exact A. }
  { intros sa I k x Ix NC. destruct (MEM _ _ Ix) as (NM & f & SF & A).
    unfold str_field in SF. unfold has_const in NC. destruct (field_of (KConst k) fs); [discriminate|].
    rewrite (In_field_of _ _ _ KD I) in SF. inv SF. exists x. rewrite NM. exact A. }
  rewrite FA. simpl. f_equal. f_equal. apply merge_fixed_conv.
  - intros k y I. destruct (fields_entries _ _ _ _ _ FA _ _ I) as [(sp & IS & _)|(_ & spd & x & _ & Ix & _)].
    + apply CK. eapply CS; eauto.
    + eapply In_has_key; eauto.
  - intros k x Ix x' L. pose proof (lookup_In _ _ _ L) as Iu.
    pose proof (lookup_nodup _ _ _ ND Ix) as Lk.
    destruct (MEM _ _ Ix) as (NM & f & SF & A). unfold str_field in SF.
    destruct (fields_entries _ _ _ _ _ FA _ _ Iu) as [(sp & IS & B)|(NC & spd & x0 & ID & Ix0 & B)].
    + rewrite (In_field_of _ _ _ KD IS) in SF. inv SF. unfold field_input in B. rewrite Lk, NM in B. congruence.
    + unfold has_const in NC. destruct (field_of (KConst k) fs); [discriminate|].
      rewrite (In_field_of _ _ _ KD ID) in SF. inv SF.
      pose proof (lookup_nodup _ _ _ ND Ix0) as Lk0. rewrite Lk in Lk0. inv Lk0. rewrite NM in B. congruence.
Qed.

(* --- whole values, when nothing is partial ------------------------------------------------------------------------------- *)
Section Bridge.
Variable ev : env.
Notation cnode := (cnode ev false).
Notation child_ok := (child_ok ev).

(* every node at or below n has allow_partial off *)
Fixpoint total_node (n : node) : Prop :=
  match n with
  | Leaf _ => True
  | Node _ _ _ _ fl its =>
      f_partial fl = false /\
      (fix all (l : list (key * node)) : Prop := match l with [] => True | kc :: r => total_node (snd kc) /\ all r end) its
  end.
Lemma total_items : forall (l : list (key * node)),
  (fix all (l : list (key * node)) : Prop := match l with [] => True | kc :: r => total_node (snd kc) /\ all r end) l
  <-> Forall (fun kc => total_node (snd kc)) l.
Proof. induction l; simpl; split; intros; auto. destruct H; constructor; auto. apply IHl; auto. inv H; split; auto. apply IHl; auto. Qed.
Lemma acc_false : forall f v, acc false f v -> apply false f v = Ok v.
Proof. intros f v [A|(X & _)]; auto. discriminate. Qed.

Lemma route_shape : forall dict f, no_union f = true -> route dict f = true ->
  frozen (mods_of f) = false /\
  ((exists m, f = SAny m) \/ (if dict then exists sc m, f = SDict sc m else exists e mn mx m, f = SList e mn mx m)).
Proof.
  intros dict f NU R. destruct f; simpl in R, NU; try discriminate;
    apply andb_true_iff in R as [F R]; apply negb_true_iff in F; split; auto; try discriminate.
  - right. destruct dict; try discriminate. eauto.
  - right. destruct dict; try discriminate. eauto.
  - left. eauto.
Qed.

Lemma apply_any_container : forall p m v, frozen m = false -> (match v with PList _ | PDict _ => True | _ => False end) ->
  apply p (SAny m) v = Ok v.
Proof. intros p m v F T. rewrite apply_eq. unfold pipeline. simpl. rewrite F. destruct v; try contradiction; reflexivity. Qed.

Lemma mapM_of_forall : forall (f : pv -> res pv) l, Forall (fun x => f x = Ok x) l -> TypingApply.mapM f l = Ok l.
Proof. induction 1; simpl; auto. rewrite H. simpl. rewrite IHForall. reflexivity. Qed.

(* the Python value of a node: the nested plain value, an object standing for its class (what child_ok checks of it) *)
Fixpoint plain (n : node) : pv :=
  match n with
  | Leaf l => leaf_pv l
  | Node _ k _ _ _ its =>
      match k with
      | KDict => PDict ((fix go (l : list (key * node)) : list (str * pv) :=
                           match l with [] => [] | (kk, c) :: r => (key_str_of kk, plain c) :: go r end) its)
      | KList => PList ((fix go (l : list (key * node)) : list pv :=
                           match l with [] => [] | (_, c) :: r => plain c :: go r end) its)
      | KObj c => obj_pv c
      end
  end.
Lemma plain_list : forall i pa pt fl its,
  plain (Node i KList pa pt fl its) = PList (map (fun kc => plain (snd kc)) its).
Proof. intros. simpl. f_equal. induction its as [|[k c] r IH]; simpl; auto. f_equal; auto. Qed.
Lemma plain_dict : forall i pa pt fl its,
  plain (Node i KDict pa pt fl its) = PDict (map (fun kc => (key_str_of (fst kc), plain (snd kc))) its).
Proof. intros. simpl. f_equal. induction its as [|[k c] r IH]; simpl; auto. f_equal; auto. Qed.

Lemma list_fixpoint : forall p e mn mx m vs, frozen m = false ->
  Forall (fun x => apply p e x = Ok x) vs -> size_ok mn mx (len vs) = true ->
  apply p (SList e mn mx m) (PList vs) = Ok (PList vs).
Proof.
  intros p e mn mx m vs F A SZ. rewrite apply_eq. unfold pipeline. simpl mods_of. rewrite F. simpl.
  rewrite (mapM_of_forall _ _ A). simpl. rewrite SZ. reflexivity.
Qed.
Lemma dict_free_fixpoint : forall p m kvs, frozen m = false -> apply p (SDict None m) (PDict kvs) = Ok (PDict kvs).
Proof. intros p m kvs F. rewrite apply_eq. unfold pipeline. simpl mods_of. rewrite F. reflexivity. Qed.

Lemma good_no_missing : forall f, good f = true -> apply false f PMissing <> Ok PMissing.
Proof.
  intros f G H. rewrite apply_eq in H. unfold pipeline in H. destruct (frozen (mods_of f)) eqn:F; simpl in H; [|discriminate].
  inv H. pose proof (good_frozen_has_value _ G F) as M. rewrite H1 in M. discriminate.
Qed.
Lemma missing_is : forall v, Typing.is_missing v = true -> v = PMissing.
Proof. destruct v; simpl; intros; try discriminate; auto. Qed.

Lemma ref_of_nonzero : forall s, ref_of ev s <> 0%N -> spec_at ev (ref_of ev s) = Some s.
Proof.
  intros s NZ. unfold spec_at. destruct (ref_of ev s) eqn:R; [congruence|].
  unfold ref_of in R. destruct (find_spec_sound s (e_tab ev) 1%N (N.pos p) R) as (A & B); [discriminate|lia|]. exact B.
Qed.

(* the table holds the Dict / List specs that the fields of its entries bind their members to *)
Definition holds (s : spec) : Prop :=
  match s with SDict _ _ | SList _ _ _ _ => ref_of ev s <> 0%N | _ => True end.
Definition closed_env : Prop := forall r sp, spec_at ev r = Some sp ->
  match sp with
  | SList e _ _ _ => holds e
  | SDict (Some fs) _ => forall kf, In kf fs -> holds (snd kf)
  | _ => True
  end.
(* dict / object nodes are Python dicts: pairwise distinct keys *)
Fixpoint keyed (n : node) : Prop :=
  match n with
  | Leaf _ => True
  | Node _ k _ _ _ its =>
      (k <> KList -> NoDup (map fst its)) /\
      (fix all (l : list (key * node)) : Prop := match l with [] => True | kc :: r => keyed (snd kc) /\ all r end) its
  end.
Lemma keyed_items : forall (l : list (key * node)),
  (fix all (l : list (key * node)) : Prop := match l with [] => True | kc :: r => keyed (snd kc) /\ all r end) l
  <-> Forall (fun kc => keyed (snd kc)) l.
Proof. induction l; simpl; split; intros; auto. destruct H; constructor; auto. apply IHl; auto. inv H; split; auto. apply IHl; auto. Qed.

Lemma nodup_strs : forall (its : list (key * node)), NoDup (map fst its) -> Forall (fun kc => exists s, fst kc = KS s) its ->
  NoDup (map (fun kc => key_str_of (fst kc)) its).
Proof.
  induction its as [|[k c] r IH]; simpl; intros N F; [constructor|]. inv N. inv F. destruct H3 as (s & E). simpl in E. subst k.
  constructor; [|apply IH; auto].
  intros I. apply H1. apply in_map_iff in I. destruct I as ([k' c'] & E' & I'). simpl in E'.
  rewrite Forall_forall in H4. destruct (H4 _ I') as (s' & Es). simpl in Es. subst k'. simpl in E'. subst s'.
  apply in_map_iff. exists (KS s, c'). auto.
Qed.

Lemma dict_field_str : forall fs s, dict_field fs (KS s) = str_field fs s.
Proof. reflexivity. Qed.

Theorem reapply_fixed : good_env ev -> closed_env -> forall n f,
  good f = true -> holds f -> cnode n -> total_node n -> keyed n -> child_ok false f n ->
  apply false f (plain n) = Ok (plain n).
Proof.
  intros GE CE. induction n using node_ind'; intros f G HO C T S CO.
  - simpl in *. apply acc_false; auto.
  - pose proof (good_parts _ G) as (NU & _ & _).
    apply cnode_node in C. destruct C as (NO & CF).
    simpl in T. destruct T as (TP & TF). apply total_items in TF.
    simpl in S. destruct S as (ND & SF). apply keyed_items in SF.
    unfold node_ok, part in NO. rewrite TP in NO. simpl in NO.
    rewrite Forall_forall in H, CF, TF, SF.
    destruct k.
    + (* a dict *)
      simpl in CO. destruct CO as (R & B).
      destruct (route_shape true f NU R) as (FZ & [(m & ->)|(sc & m & ->)]).
      * rewrite plain_dict. apply apply_any_container; simpl; auto.
      * simpl in B, HO, FZ. pose proof (ref_of_nonzero _ HO) as SA. rewrite <- B in SA. rewrite SA in NO.
        rewrite plain_dict. destruct sc as [fs|]; [|apply dict_free_fixpoint; auto].
        destruct NO as (MEM & CK). rewrite Forall_forall in MEM.
        pose proof (CE _ _ SA) as HF. simpl in HF.
        assert (KSs : Forall (fun kc : key * node => exists s, fst kc = KS s) its).
        { rewrite Forall_forall. intros [k c] I. destruct (MEM _ I) as (f' & D & _). simpl in *. destruct k; eauto. discriminate. }
        apply dict_fixpoint; auto.
        -- eapply good_keys; eauto.
        -- rewrite map_map. simpl. apply nodup_strs; auto. apply ND. discriminate.
        -- intros k x I. apply in_map_iff in I. destruct I as ([kk c] & E & I). simpl in E. inv E.
           destruct (MEM _ I) as (f' & D & CO'). simpl in D, CO'.
           destruct kk as [s|z]; [|discriminate]. simpl.
           pose proof D as D'. rewrite dict_field_str in D'. unfold str_field in D'.
           assert (IF : exists k0, In (k0, f') fs).
           { destruct (field_of (KConst s) fs) eqn:FC.
             - inv D'. exists (KConst s). eapply field_of_In'; eauto.
             - exists KDyn. eapply field_of_In'; eauto. }
           destruct IF as (k0 & IF).
           assert (A : apply false f' (plain c) = Ok (plain c)).
           { exact (H _ I f' (good_field _ _ _ _ G IF) (HF _ IF) (CF _ I) (TF _ I) (SF _ I) CO'). }
           split; [|exists f'; split; auto].
           destruct (Typing.is_missing (plain c)) eqn:M; auto.
           apply missing_is in M. rewrite M in A. exfalso. eapply good_no_missing; [|exact A]. eapply good_field; eauto.
        -- intros k HC. pose proof (CK _ HC) as HK. unfold SymCoreDefs.has_key in HK.
           destruct (assoc (KS k) its) as [c|] eqn:AS; [|discriminate].
           destruct (assoc_in _ _ _ _ AS) as (k' & E & I). apply key_eqb_eq in E. subst k'.
           eapply In_has_key. apply in_map_iff. exists (KS k, c). split; [reflexivity|exact I].
    + (* a list *)
      simpl in CO. destruct CO as (R & B).
      destruct (route_shape false f NU R) as (FZ & [(m & ->)|(e & mn & mx & m & ->)]).
      * rewrite plain_list. apply apply_any_container; simpl; auto.
      * simpl in B, HO, FZ. pose proof (ref_of_nonzero _ HO) as SA. rewrite <- B in SA. rewrite SA in NO.
        destruct NO as (MEM & MN & MX). rewrite Forall_forall in MEM.
        pose proof (CE _ _ SA) as HF. simpl in HF.
        rewrite plain_list. apply list_fixpoint; auto.
        -- rewrite Forall_forall. intros x I. apply in_map_iff in I. destruct I as (kc & <- & I).
           exact (H _ I e (good_list _ _ _ _ G) HF (CF _ I) (TF _ I) (SF _ I) (MEM _ I)).
        -- unfold size_ok, len. rewrite map_length. pose proof (count_present_le its) as CP. unfold zlen in *.
           apply andb_true_iff. split.
           ++ apply negb_true_iff. apply Z.ltb_ge. lia.
           ++ destruct mx as [mxv|]; auto. apply negb_true_iff. rewrite Z.gtb_ltb. apply Z.ltb_ge. lia.
    + (* an object: what its field sees of it is its class *)
      simpl in CO. simpl. apply acc_false; auto.
Qed.

(* the value a schema-carrying node stands for: a dict, a list, or the attribute dict of an object *)
Definition value_of (n : node) : pv :=
  match n with
  | Node i (KObj _) pa pt fl its => plain (Node i KDict pa pt fl its)
  | _ => plain n
  end.
(* the node is bound to sp: it carries the reference of sp, and sp is the kind of spec such a node can carry *)
Definition bound_to (n : node) (sp : spec) : Prop :=
  match n with
  | Leaf _ => False
  | Node _ k _ _ fl _ =>
      f_spec fl = ref_of ev sp /\ ref_of ev sp <> 0%N /\ frozen (mods_of sp) = false /\
      match k, sp with
      | KList, SList _ _ _ _ | KDict, SDict _ _ | KObj _, SDict (Some _) _ => True
      | _, _ => False
      end
  end.

Theorem typed_node_reapplies : good_env ev -> closed_env -> forall n sp,
  cnode n -> total_node n -> keyed n -> bound_to n sp ->
  apply false sp (value_of n) = Ok (value_of n).
Proof.
  intros GE CE n sp C T K B. destruct n as [l|i k pa pt fl its]; [contradiction|].
  simpl in B. destruct B as (R & NZ & FZ & SH).
  pose proof (ref_of_nonzero _ NZ) as SA. pose proof (GE _ _ SA) as G.
  destruct k; destruct sp; try contradiction; unfold value_of.
  - (* dict *)
    apply reapply_fixed; auto. simpl. simpl in FZ. rewrite FZ. auto.
  - (* list *)
    apply reapply_fixed; auto. simpl. simpl in FZ. rewrite FZ. auto.
  - (* object: its attributes, as the dict they are *)
    destruct schema as [fs|]; [|contradiction].
    apply reapply_fixed; auto.
    + apply cnode_node in C. apply cnode_node. destruct C as (NO & CF). split; auto.
      unfold node_ok in *. rewrite R, SA in *. exact NO.
    + simpl in K. simpl. destruct K as (ND & KF). split; auto. intros _. apply ND. discriminate.
    + simpl. simpl in FZ. rewrite FZ. auto.
Qed.

(* ... and for a node found in a conforming forest *)
Theorem conforming_value_reapplies : good_env ev -> closed_env -> forall st ps n sp,
  Conforms ev false st -> get_at st ps = Some n -> total_node n -> keyed n -> bound_to n sp ->
  apply false sp (value_of n) = Ok (value_of n).
Proof. intros GE CE st ps n sp C G. apply typed_node_reapplies; auto. eapply conforms_get_at; eauto. Qed.
End Bridge.

(* the property as it is worded: after any history without an allow_partial(True) scope, every typed value that was not made
   partial is accepted by the schema it was declared with, and mapped to itself *)
Theorem schema_holds_after_history : forall q ev rs ops ps n sp,
  good_env ev -> closed_env ev -> history_ok false ops ->
  get_at (run_ops2 q false ev (fst (init_roots false ev empty_state rs)) ops) ps = Some n ->
  total_node n -> keyed n -> bound_to ev n sp ->
  apply false sp (value_of n) = Ok (value_of n).
Proof.
  intros q ev rs ops ps n sp GE CE H G. eapply conforming_value_reapplies; eauto. apply schema_invariant; auto.
Qed.

(* --- a decidable form of [closed_env], and the theorem at work on a history ------------------------------------------------ *)
Definition holds_b (ev : env) (s : spec) : bool :=
  match s with SDict _ _ | SList _ _ _ _ => negb (N.eqb (ref_of ev s) 0) | _ => true end.
Definition closed_b (ev : env) (sp : spec) : bool :=
  match sp with
  | SList e _ _ _ => holds_b ev e
  | SDict (Some fs) _ => forallb (fun kf => holds_b ev (snd kf)) fs
  | _ => true
  end.
Lemma holds_b_ok : forall ev s, holds_b ev s = true -> holds ev s.
Proof. intros ev s H. destruct s; simpl in *; auto; apply negb_true_iff in H; apply N.eqb_neq in H; exact H. Qed.
Lemma closed_env_of_table : forall ev, forallb (closed_b ev) (e_tab ev) = true -> closed_env ev.
Proof.
  intros ev H r sp S. unfold spec_at in S. destruct r; [discriminate|]. apply nth_error_In in S.
  rewrite forallb_forall in H. specialize (H _ S). destruct sp; auto; simpl in H.
  - apply holds_b_ok; auto.
  - destruct schema as [fs|]; auto. rewrite forallb_forall in H. intros kf I. apply holds_b_ok. auto.
Qed.

Definition ex_roots : list root :=
  [RootTyped KDict 1 (mkFlags false true false 0) (PDict [([121%N], PDict [([112%N], PFlt 64)])])].
Definition ex_ops : list sop2 :=
  [mkSop2 no_scope (O, [KS [121%N]]) (DSet false (KS [113%N]) (TPv (PList [PInt 1; PInt 2])))].
Definition ex_state : state := run_ops2 q0 false ex_ev (fst (init_roots false ex_ev empty_state ex_roots)) ex_ops.
Example closed_env_example : closed_env ex_ev.
Proof. apply closed_env_of_table. vm_compute. reflexivity. Qed.
(* after the history, the root dict {y: {p: 1.0, q: [1, 2]}, x: 1} is mapped to itself by the schema it was declared with *)
Example reapply_example : exists n sp,
  get_at ex_state (O, []) = Some n /\ spec_at ex_ev 1 = Some sp /\
  value_of n = PDict [([121%N], PDict [([112%N], PFlt 64); ([113%N], PList [PInt 1; PInt 2])]); ([120%N], PInt 1)] /\
  apply false sp (value_of n) = Ok (value_of n).
Proof.
  destruct (get_at ex_state (O, [])) as [n|] eqn:G; [|vm_compute in G; discriminate].
  exists n. eexists. split; [reflexivity|]. split; [reflexivity|].
  assert (C : Conforms ex_ev false ex_state).
  { apply schema_invariant; [apply good_env_example|apply history_ok_false; vm_compute; reflexivity]. }
  pose proof G as G'. vm_compute in G'. inv G'. split; [vm_compute; reflexivity|].
  eapply (conforming_value_reapplies ex_ev good_env_example closed_env_example ex_state (O, [])); [exact C|exact G| | |].
  - cbn. repeat split.
  - cbn. repeat split; intros; repeat constructor; cbn; intuition discriminate.
  - cbn. repeat split; discriminate.
Qed.

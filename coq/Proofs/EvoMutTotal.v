(* EvoMutTotal.v — Uniform mutation finds the node it drew: on a space without custom decision points it returns a
   child whenever the DNA has a mutable node (and raises 'Immutable DNA' otherwise). *)
From PG Require Import Common.Tactics Model.Geno Model.Evo Proofs.GenoBasics Proofs.GenoValid Proofs.GenoExact Proofs.GenoRandom Proofs.EvoBase Proofs.EvoMut.

Definition b2n (b : bool) : nat := if b then 1 else 0.

Section Count.
  Variable R : Type.
  Variable G : rng R.
  Variable wh : nwhere.

  (* "the walk counts c nodes": below c it stops at a node, from c on it skips exactly c *)
  Definition counts {X} (c : nat) (f : nat -> mres R X) : Prop :=
    (forall m, m < c -> exists x r, f m = Done x r) /\ (forall m, c <= m -> f m = Skip (m - c)).

  Lemma counts_mmap : forall X Y (g : X -> Y) c f, counts c f -> counts c (fun m => mmap R g (f m)).
  Proof.
    intros X Y g c f [H1 H2]. split; intros m Hm.
    - destruct (H1 m Hm) as (x & r & ->). simpl. eauto.
    - rewrite (H2 m Hm). reflexivity.
  Qed.
  Lemma counts_here : forall X on (act : unit -> mres R X) rest c,
    (exists x r, act tt = Done x r) -> counts c rest -> counts (b2n on + c) (fun m => here R on m act rest).
  Proof.
    intros X on act rest c (x & r & Ha) [H1 H2]. unfold here. destruct on; simpl.
    - split; intros m Hm.
      + destruct m as [|m]; [exists x, r; exact Ha|apply H1; lia].
      + destruct m as [|m]; [lia|]. rewrite H2 by lia. f_equal.
    - split; auto.
  Qed.
  Lemma counts_mor : forall X (a : nat -> mres R X) b ca cb, counts ca a -> counts cb b -> counts (ca + cb) (fun m => mor R (a m) b).
  Proof.
    intros X a b ca cb [A1 A2] [B1 B2]. unfold mor. split; intros m Hm.
    - destruct (Nat.lt_ge_cases m ca).
      + destruct (A1 m H) as (x & r & ->). eauto.
      + rewrite (A2 m H). apply B1. lia.
    - rewrite (A2 m) by lia. rewrite B2 by lia. f_equal. lia.
  Qed.
  Lemma counts_ext : forall X c (f g : nat -> mres R X), (forall m, f m = g m) -> counts c f -> counts c g.
  Proof. intros X c f g E [H1 H2]. split; intros m Hm; rewrite <- E; auto. Qed.

  Lemma subs_walk_counts : forall on act into (cj : nat -> nat) js,
    (forall j, exists x r, act j = Done x r) -> (forall j, In j js -> counts (cj j) (into j)) ->
    counts (fold_right (fun j acc => b2n on + cj j + acc) 0 js) (subs_walk R on act into js).
  Proof.
    intros on act into cj js Ha. induction js as [|j js IH]; intros Hi; simpl.
    - split; intros m Hm. lia. f_equal. lia.
    - replace (b2n on + cj j + fold_right (fun j0 acc => b2n on + cj j0 + acc) 0 js)
        with (b2n on + (cj j + fold_right (fun j0 acc => b2n on + cj j0 + acc) 0 js)) by lia.
      apply (counts_here _ on (fun _ => act j)). apply Ha.
      apply (counts_mor _ (into j) (subs_walk R on act into js)). apply Hi; left; auto.
      apply IH. intros j0 Hj0. apply Hi. right; auto.
  Qed.

  Lemma mut_list_counts : forall A X (f : A -> X -> nat -> mres R X) (cf : A -> X -> nat) es ds,
    length es = length ds -> (forall e x, In (e, x) (combine es ds) -> counts (cf e x) (f e x)) ->
    counts ((fix go (es : list A) (ds : list X) : nat :=
               match es, ds with e :: es', x :: ds' => cf e x + go es' ds' | _, _ => O end) es ds)
           (mut_list R f es ds).
  Proof.
    intros A X f cf. induction es as [|e es IH]; intros [|x ds] Hl Hc; simpl in *; try discriminate.
    - split; intros m Hm. lia. f_equal. lia.
    - assert (He : counts (cf e x) (f e x)) by (apply Hc; left; auto).
      assert (Hr : counts ((fix go (es : list A) (ds : list X) : nat :=
               match es, ds with e :: es', x :: ds' => cf e x + go es' ds' | _, _ => O end) es ds) (mut_list R f es ds)).
      { apply IH. lia. intros e0 x0 Hin. apply Hc. right; auto. }
      destruct He as [E1 E2]. destruct Hr as [R1 R2]. split; intros m Hm.
      + destruct (Nat.lt_ge_cases m (cf e x)).
        * destruct (E1 m H) as (x' & r & ->). eauto.
        * rewrite (E2 m H). destruct (R1 (m - cf e x)) as (l & r & ->). lia. simpl. eauto.
      + rewrite (E2 m) by lia. rewrite R2 by lia. simpl. f_equal. lia.
  Qed.
End Count.

Lemma Forall2_combine_in : forall A B (P : A -> B -> Prop) l m a b, Forall2 P l m -> In (a, b) (combine l m) -> P a b.
Proof. intros A B P l m a b H. induction H; simpl; intros Hin. contradiction. destruct Hin as [Hin|Hin]; [inv Hin|]; auto. Qed.

(* random generation never reaches a custom decision point in a space that has none *)
Section NoCustom.
  Variable R : Type.
  Variable sample : nat -> nat -> R -> list nat * R.
  Variable randint : nat -> R -> nat * R.
  Variable uniform : flt -> flt -> R -> flt * R.
  Lemma existsb_false_Forall2 : forall A X (f : X -> bool) (l : list A) (m : list X),
    Forall2 (fun _ x => f x = false) l m -> existsb f m = false.
  Proof. induction 1; simpl; auto. rewrite H, IHForall2. auto. Qed.
  Lemma nocust_both :
    (forall s, nocustom s = true -> forall r, scust (fst (random_dna R sample randint uniform s r)) = false) /\
    (forall p, nocustom_p p = true -> forall r, pcust (fst (random_p R sample randint uniform p r)) = false).
  Proof.
    apply dspec_dpoint_ind.
    - intros es IH Hn r. rewrite random_dna_space.
      pose proof (map_st_Forall2 _ _ _ (fun e r0 => random_p R sample randint uniform e r0) (fun _ x => pcust x = false) es) as HF.
      assert (Hf : Forall (fun e => forall r0, pcust (fst (random_p R sample randint uniform e r0)) = false) es).
      { simpl in Hn. rewrite forallb_forall in Hn. rewrite Forall_forall in *. intros e He r0. apply IH; auto. }
      specialize (HF Hf r). destruct (map_st _ es r) as [ds r']. simpl in *. eapply existsb_false_Forall2; eauto.
    - intros k cands dist srt nm lits IH Hn r. rewrite random_p_choices. cbv zeta.
      destruct (if dist then sample (length cands) k r else map_st (fun _ r0 => randint (length cands) r0) (seq 0 k) r) as [ch r1].
      set (g := fun c r0 => let (sub, r') := with_nth (fun s => random_dna R sample randint uniform s) (fun r' => (SSpace [], r')) cands c r0 in ((c, sub), r')).
      pose proof (map_st_Forall2 _ _ _ g (fun (_ : nat) (x : nat * sdna) => scust (snd x) = false) (if srt then isort ch else ch)) as HF.
      assert (Hf : Forall (fun c => forall r0, scust (snd (fst (g c r0))) = false) (if srt then isort ch else ch)).
      { apply Forall_forall. intros c _ r0. unfold g. rewrite with_nth_nth_error.
        destruct (nth_error cands c) as [sc|] eqn:E; [|reflexivity].
        destruct (random_dna R sample randint uniform sc r0) as [sub r'] eqn:Er. simpl.
        eapply nth_error_Forall in IH; eauto. simpl in Hn. rewrite forallb_forall in Hn.
        specialize (IH (Hn sc (nth_error_In _ _ E)) r0). rewrite Er in IH. auto. }
      specialize (HF Hf r1). fold g. destruct (map_st g (if srt then isort ch else ch) r1) as [cs r2]. simpl in *.
      eapply (existsb_false_Forall2 _ _ (fun c : nat * sdna => scust (snd c))); eauto.
    - intros lo hi nm _ r.
      change (random_p R sample randint uniform (FloatP lo hi nm) r) with (let (f, r') := uniform lo hi r in (PFloat f, r')).
      destruct (uniform lo hi r). reflexivity.
    - intros nm Hn. discriminate.
  Qed.
End NoCustom.

Section Total.
  Variable R : Type.
  Variable G : rng R.
  Variable wh : nwhere.

  Lemma cnt_space_eq : forall es top ds,
    cnt_space wh (Space es) top (SSpace ds) =
    (fix go (es0 : list dpoint) (ds0 : list pdna) : nat :=
       match es0, ds0 with e :: es', x :: ds' => cnt_point wh e ((length es =? 1) && negb top) x + go es' ds' | _, _ => O end) es ds.
  Proof. reflexivity. Qed.
  Lemma cnt_point_choices_eq : forall k cands dist srt nm lits fold cs,
    cnt_point wh (Choices k cands dist srt nm lits) fold (PChoices cs) =
    let at_ := fun j => match nth_error cs j with
                        | Some c => with_nth (fun s => cnt_space wh s false (snd c)) O cands (fst c) | None => O end in
    if k =? 1 then b2n (w_choice wh) + at_ O
    else b2n (w_choice wh && negb fold) + fold_right (fun j acc => b2n (w_choice wh) + at_ j + acc) O (seq 0 k).
  Proof. reflexivity. Qed.

  Lemma counts_skip : forall X, counts R 0 (fun m => @Skip R X m).
  Proof. intros. split; intros m Hm. lia. f_equal. lia. Qed.

  Lemma mut_counts_both :
    (forall s, nocustom s = true -> forall top d r, valid s d = true ->
       counts R (cnt_space wh s top d) (fun m => mut_space R G wh s top d m r)) /\
    (forall p, nocustom_p p = true -> forall fold x r, valid_p p x = true ->
       counts R (cnt_point wh p fold x) (fun m => mut_point R G wh p fold x m r)).
  Proof.
    apply dspec_dpoint_ind.
    - intros es IH Hnc top [ds] r Hv. simpl in Hv. apply forallb2_Forall2 in Hv.
      rewrite cnt_space_eq.
      eapply counts_ext. { intros m. symmetry. apply mut_space_eq. }
      apply (counts_mmap R _ _ SSpace).
      apply (mut_list_counts R dpoint pdna (fun e x m' => mut_point R G wh e ((length es =? 1) && negb top) x m' r)
               (fun e x => cnt_point wh e ((length es =? 1) && negb top) x)).
      + clear -Hv. induction Hv; simpl; auto.
      + intros e x Hin. rewrite Forall_forall in IH. apply IH.
        * eapply in_combine_l; eauto.
        * simpl in Hnc. rewrite forallb_forall in Hnc. apply Hnc. eapply in_combine_l; eauto.
        * eapply (Forall2_combine_in _ _ (fun e0 x0 => valid_p e0 x0 = true)); eauto.
    - intros k cands dist srt nm lits IH Hnc fold x r Hv.
      destruct x as [cs| |]; try discriminate.
      pose proof Hv as Hv'. apply valid_p_choices_iff in Hv'. destruct Hv' as (Hl & _ & Hs).
      rewrite cnt_point_choices_eq. cbv zeta.
      eapply counts_ext.
      { intros m. symmetry.
        change (mut_point R G wh (Choices k cands dist srt nm lits) fold (PChoices cs) m r) with
          (let n := length cands in
           let whole := fun (_ : unit) => let (x1, r1) := rand_p R G (Choices k cands dist srt nm lits) r in
                                          if pcust x1 then @Fail R pdna ENotImpl else Done x1 r1 in
           let into := sub_into R (fun s sub m' => mut_space R G wh s false sub m' r) cands cs in
           if k =? 1 then here R (w_choice wh) m whole (fun m' => mmap R PChoices (into O m'))
           else here R (w_choice wh && negb fold) m whole (fun m0 =>
                  mmap R PChoices (subs_walk R (w_choice wh)
                     (fun j => match redraw_sub R G n cands dist srt cs j r with
                               | (cs', r1, false) => Done cs' r1 | (_, _, true) => Fail ENotImpl end) into (seq 0 k) m0))).
        reflexivity. }
      cbv zeta.
      set (at_ := fun j => match nth_error cs j with
                           | Some c => with_nth (fun s => cnt_space wh s false (snd c)) O cands (fst c) | None => O end).
      assert (Hinto : forall j, j < k -> counts R (at_ j) (sub_into R (fun s sub m' => mut_space R G wh s false sub m' r) cands cs j)).
      { intros j Hj. unfold at_, sub_into.
        destruct (nth_error cs j) as [[c sub]|] eqn:Ej; [|apply nth_error_None in Ej; lia].
        rewrite Forall_forall in Hs. pose proof (Hs _ (nth_error_In _ _ Ej)) as Hsub. simpl in Hsub |- *.
        rewrite !with_nth_nth_error in *. destruct (nth_error cands c) as [cand|] eqn:Ec; [|discriminate].
        apply (counts_mmap R _ _ (fun sub' => set_nth cs j (c, sub'))).
        apply (counts_ext R _ _ (fun m => mut_space R G wh cand false sub m r)).
        { intros m. rewrite with_nth_nth_error, Ec. reflexivity. }
        eapply nth_error_Forall in IH; [|exact Ec]. apply IH; auto.
        simpl in Hnc. rewrite forallb_forall in Hnc. apply Hnc. eapply nth_error_In; eauto. }
      assert (redraw_nocust : forall j, snd (redraw_sub R G (length cands) cands dist srt cs j r) = false).
      { intros j. unfold redraw_sub.
        assert (SUB : forall v r0, scust (fst (with_nth (fun s => rand_dna R G s) (fun r' => (SSpace [], r')) cands v r0)) = false).
        { intros v r0. rewrite with_nth_nth_error. destruct (nth_error cands v) as [sc|] eqn:E; [|reflexivity].
          apply (proj1 (nocust_both R (sample G) (pick G) (uniform G))). simpl in Hnc. rewrite forallb_forall in Hnc. apply Hnc. eapply nth_error_In; eauto. }
        destruct dist.
        - destruct (filter _ (seq 0 (length cands))) as [|a0 av]; [reflexivity|].
          destruct (pick G _ r) as [i r1].
          match goal with |- context [with_nth ?f ?d cands ?v r1] => pose proof (SUB v r1) as Hsc; destruct (with_nth f d cands v r1) as [sub r2] end.
          simpl in *. auto.
        - destruct (pick G (length cands) r) as [v r1]. pose proof (SUB v r1) as Hsc.
          destruct (with_nth (fun s => rand_dna R G s) (fun r' => (SSpace [], r')) cands v r1) as [sub r2]. simpl in *. auto. }
      assert (Hwhole : exists x0 r0, (let (x1, r1) := rand_p R G (Choices k cands dist srt nm lits) r in
                                      if pcust x1 then @Fail R pdna ENotImpl else Done x1 r1) = Done x0 r0).
      { pose proof (proj2 (nocust_both R (sample G) (pick G) (uniform G)) _ Hnc r) as Hpc. fold (rand_p R G (Choices k cands dist srt nm lits) r) in Hpc.
        destruct (rand_p R G (Choices k cands dist srt nm lits) r) as [x1 r1]. simpl in Hpc. rewrite Hpc. eauto. }
      destruct (k =? 1) eqn:Ek.
      + apply Nat.eqb_eq in Ek.
        apply (counts_here R _ (w_choice wh) (fun _ => let (x1, r1) := rand_p R G (Choices k cands dist srt nm lits) r in
                                                       if pcust x1 then @Fail R pdna ENotImpl else Done x1 r1)). exact Hwhole.
        apply (counts_mmap R _ _ PChoices). apply Hinto. lia.
      + apply (counts_here R _ (w_choice wh && negb fold) (fun _ => let (x1, r1) := rand_p R G (Choices k cands dist srt nm lits) r in
                                                                      if pcust x1 then @Fail R pdna ENotImpl else Done x1 r1)). exact Hwhole.
        apply (counts_mmap R _ _ PChoices).
        apply (subs_walk_counts R (w_choice wh) _ _ at_).
        * intros j. pose proof (redraw_nocust j) as Hrc.
          destruct (redraw_sub R G (length cands) cands dist srt cs j r) as [[cs1 r1] b]. simpl in Hrc. subst b. eauto.
        * intros j Hj. apply Hinto. apply in_seq in Hj. lia.
    - intros lo hi nm _ fold x r Hv. destruct x; try discriminate. simpl.
      replace (if w_float wh then 1 else 0) with (b2n (w_float wh) + 0) by (unfold b2n; destruct (w_float wh); auto).
      apply (counts_here R _ (w_float wh) (fun _ => let (f0, r') := uniform G lo hi r in @Done R pdna (PFloat f0) r')).
      destruct (uniform G lo hi r). eauto. apply counts_skip.
    - intros nm Hnc. discriminate.
  Qed.

  Theorem mutate_uniform_total : rng_ok G -> forall s d r, nocustom s = true -> valid s d = true ->
    (cnt_space wh s true d = 0 -> mutate_uniform R G wh s d r = Err ERuntime) /\
    (0 < cnt_space wh s true d -> exists d' r', mutate_uniform R G wh s d r = Ok (d', r')).
  Proof.
    intros GOK s d r Hnc Hv. unfold mutate_uniform. split.
    - intros ->. reflexivity.
    - intros Hc. destruct (cnt_space wh s true d =? 0) eqn:E. apply Nat.eqb_eq in E. lia.
      pose proof (pick_ok G GOK (cnt_space wh s true d) r Hc) as Hp.
      destruct (pick G (cnt_space wh s true d) r) as [m r1]. simpl in Hp.
      destruct (proj1 mut_counts_both s Hnc true d r1 Hv) as [H1 _].
      destruct (H1 m Hp) as (d' & r2 & ->). eauto.
  Qed.
End Total.

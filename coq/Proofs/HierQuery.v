(* HierQuery.v — pg.query without entering selected nodes: exactly the selected nodes none of whose proper ancestors
   is selected; and the traversals with CONTINUE. *)
From PG Require Import Common.Tactics Model.KeyPath Model.Hier Proofs.KeyPathArith Proofs.HierTraverse.
Local Open Scope Z_scope.

Section Cut.
  Variable sel : list key -> pv -> bool.

  (* the nodes a pre-order walk reaches when it does not go below a selected node *)
  Fixpoint nodes_cut (v : pv) (path : list key) {struct v} : list (list key * pv) :=
    (path, v) ::
    if sel path v then [] else
    match v with
    | PDict kvs =>
        (fix go (l : list (key * pv)) : list (list key * pv) :=
           match l with [] => [] | (k, c) :: r => nodes_cut c (path ++ [k]) ++ go r end) kvs
    | PList l =>
        (fix go (l : list pv) (i : Z) : list (list key * pv) :=
           match l with [] => [] | c :: r => nodes_cut c (path ++ [KInt i]) ++ go r (i + 1) end) l 0
    | _ => []
    end.

  Lemma nodes_cut_dict : forall path kvs,
    nodes_cut (PDict kvs) path = (path, PDict kvs) :: if sel path (PDict kvs) then [] else nodes_dict nodes_cut path kvs.
  Proof.
    intros. cbn [nodes_cut]. f_equal. destruct (sel path (PDict kvs)); [reflexivity |].
    induction kvs as [| [k c] r IH]; [reflexivity |]. cbn [nodes_dict]. rewrite <- IH. reflexivity.
  Qed.
  Lemma nodes_cut_list : forall path l,
    nodes_cut (PList l) path = (path, PList l) :: if sel path (PList l) then [] else nodes_list nodes_cut path l 0.
  Proof.
    intros. cbn [nodes_cut]. f_equal. destruct (sel path (PList l)); [reflexivity |].
    generalize 0. induction l as [| c r IH]; intros i; [reflexivity |]. cbn [nodes_list]. rewrite <- IH. reflexivity.
  Qed.

  (* x is the node of v at s and no node strictly above it on the way (v included) is selected; root = path of v *)
  Inductive at_cut : list key -> pv -> list key -> pv -> Prop :=
  | ac_here : forall root v, at_cut root v [] v
  | ac_dict : forall root kvs k c p x, sel root (PDict kvs) = false -> In (k, c) kvs ->
      at_cut (root ++ [k]) c p x -> at_cut root (PDict kvs) (k :: p) x
  | ac_list : forall root l i c p x, sel root (PList l) = false -> nth_error l i = Some c ->
      at_cut (root ++ [KInt (Z.of_nat i)]) c p x -> at_cut root (PList l) (KInt (Z.of_nat i) :: p) x.

  Definition cut_spec (c : pv) : Prop :=
    forall path p x, In (p, x) (nodes_cut c path) <-> exists s, p = path ++ s /\ at_cut path c s x.

  Lemma cut_list_in : forall path l i0 p x, Forall cut_spec l ->
    (In (p, x) (nodes_list nodes_cut path l i0) <->
     exists j c s, nth_error l j = Some c /\ p = path ++ KInt (i0 + Z.of_nat j) :: s /\
                   at_cut (path ++ [KInt (i0 + Z.of_nat j)]) c s x).
  Proof.
    intros path l. induction l as [| c r IH]; intros i0 p x H; cbn [nodes_list].
    - split; [intros [] | intros (j & c & s & E & _); destruct j; discriminate].
    - inv H. rewrite in_app_iff, (H2 (path ++ [KInt i0]) p x), (IH (i0 + 1) p x H3). split.
      + intros [(s & -> & Hs) | (j & c' & s & E & -> & Hs)].
        * exists O, c, s. rewrite <- app_assoc. cbn. rewrite Z.add_0_r. auto.
        * exists (S j), c', s. cbn [nth_error]. replace (i0 + Z.of_nat (S j)) with (i0 + 1 + Z.of_nat j) by lia. auto.
      + intros (j & c' & s & E & -> & Hs). destruct j as [| j].
        * left. inv E. exists s. rewrite <- app_assoc. cbn in *. rewrite Z.add_0_r in *. auto.
        * right. exists j, c', s. cbn [nth_error] in E. replace (i0 + Z.of_nat (S j)) with (i0 + 1 + Z.of_nat j) in * by lia. auto.
  Qed.

  Lemma cut_dict_in : forall path kvs p x, Forall (fun kv => cut_spec (snd kv)) kvs ->
    (In (p, x) (nodes_dict nodes_cut path kvs) <->
     exists k c s, In (k, c) kvs /\ p = path ++ k :: s /\ at_cut (path ++ [k]) c s x).
  Proof.
    intros path kvs. induction kvs as [| [k c] r IH]; intros p x H; cbn [nodes_dict].
    - split; [intros [] | intros (k & c & s & [] & _)].
    - inv H. cbn [snd] in H2. rewrite in_app_iff, (H2 (path ++ [k]) p x), (IH p x H3). split.
      + intros [(s & -> & Hs) | (k' & c' & s & E & -> & Hs)].
        * exists k, c, s. rewrite <- app_assoc. cbn. auto.
        * exists k', c', s. cbn. auto.
      + intros (k' & c' & s & [E | E] & -> & Hs).
        * inv E. left. exists s. rewrite <- app_assoc. auto.
        * right. exists k', c', s. auto.
  Qed.

  Theorem nodes_cut_iff : forall v, cut_spec v.
  Proof.
    apply pv_ind'; unfold cut_spec.
    - intros path p x. cbn. destruct (sel path PNone); cbn; (split;
        [intros [E | []]; inv E; exists []; rewrite app_nil_r; split; [reflexivity | constructor]
        | intros (s & -> & H); inv H; rewrite app_nil_r; auto]).
    - intros z path p x. cbn. destruct (sel path (PInt z)); cbn; (split;
        [intros [E | []]; inv E; exists []; rewrite app_nil_r; split; [reflexivity | constructor]
        | intros (s & -> & H); inv H; rewrite app_nil_r; auto]).
    - intros s0 path p x. cbn. destruct (sel path (PStr s0)); cbn; (split;
        [intros [E | []]; inv E; exists []; rewrite app_nil_r; split; [reflexivity | constructor]
        | intros (s & -> & H); inv H; rewrite app_nil_r; auto]).
    - intros l IH path p x. rewrite nodes_cut_list. cbn [In]. destruct (sel path (PList l)) eqn:S.
      + split.
        * intros [E | []]. inv E. exists []. rewrite app_nil_r. split; [reflexivity | constructor].
        * intros (s & -> & H). inv H; [rewrite app_nil_r; auto | congruence].
      + rewrite (cut_list_in path l 0 p x IH). split.
        * intros [E | (j & c & s & E & -> & Hs)].
          -- inv E. exists []. rewrite app_nil_r. split; [reflexivity | constructor].
          -- exists (KInt (Z.of_nat j) :: s). split; [reflexivity |]. econstructor; eauto.
        * intros (s & -> & H). inv H.
          -- left. rewrite app_nil_r. reflexivity.
          -- right. do 3 eexists. split; [eassumption |]. split; [reflexivity | eassumption].
    - intros kvs IH path p x. rewrite nodes_cut_dict. cbn [In]. destruct (sel path (PDict kvs)) eqn:S.
      + split.
        * intros [E | []]. inv E. exists []. rewrite app_nil_r. split; [reflexivity | constructor].
        * intros (s & -> & H). inv H; [rewrite app_nil_r; auto | congruence].
      + rewrite (cut_dict_in path kvs p x IH). split.
        * intros [E | (k & c & s & E & -> & Hs)].
          -- inv E. exists []. rewrite app_nil_r. split; [reflexivity | constructor].
          -- exists (k :: s). split; [reflexivity |]. econstructor; eauto.
        * intros (s & -> & H). inv H.
          -- left. rewrite app_nil_r. reflexivity.
          -- right. do 3 eexists. split; [eassumption |]. split; [reflexivity | eassumption].
  Qed.

  (* an unselected way down is a way down *)
  Lemma at_cut_at_path : forall root v s x, at_cut root v s x -> at_path v s x.
  Proof. intros root v s x H. induction H; econstructor; eauto. Qed.
End Cut.

(* ---- the walk of pg.traverse under such a visitor ----------------------------------------------------------------------------- *)
Definition visits_N (N : pv -> list key -> list (list key * pv)) (f : pv -> list key -> list ev * bool) (v : pv) : Prop :=
  forall path, snd (f v path) = true /\ pres (fst (f v path)) = N v path.

Lemma go_dict_N : forall N f path kvs, Forall (fun kv => visits_N N f (snd kv)) kvs ->
  snd (go_dict f path kvs) = true /\ pres (fst (go_dict f path kvs)) = nodes_dict N path kvs.
Proof.
  intros N f path kvs H. induction H as [| [k c] r Hc _ IH]; cbn [go_dict nodes_dict]; [auto |].
  destruct (Hc (path ++ [k])) as [A B]. cbn [snd] in *. destruct (f c (path ++ [k])) as [lg ok]. cbn [fst snd] in *. subst ok.
  destruct IH as [C D]. destruct (go_dict f path r) as [lg2 ok2]. cbn [fst snd] in *. subst ok2.
  split; [reflexivity |]. rewrite pres_app. congruence.
Qed.

Lemma go_list_N : forall N f path l i, Forall (visits_N N f) l ->
  snd (go_list f path l i) = true /\ pres (fst (go_list f path l i)) = nodes_list N path l i.
Proof.
  intros N f path l i H. revert i. induction H as [| c r Hc _ IH]; intros i; cbn [go_list nodes_list]; [auto |].
  destruct (Hc (path ++ [KInt i])) as [A B]. destruct (f c (path ++ [KInt i])) as [lg ok]. cbn [fst snd] in *. subst ok.
  destruct (IH (i + 1)) as [C D]. destruct (go_list f path r (i + 1)) as [lg2 ok2]. cbn [fst snd] in *. subst ok2.
  split; [reflexivity |]. rewrite pres_app. congruence.
Qed.

Definition cut_pre (sel : list key -> pv -> bool) : list key -> pv -> action :=
  fun p x => if sel p x then AContinue else AEnter.
Definition enter_post : list key -> pv -> action := fun _ _ => AEnter.

Lemma cut_pre_true : forall sel p x, sel p x = true -> cut_pre sel p x = AContinue.
Proof. intros sel p x H. unfold cut_pre. rewrite H. reflexivity. Qed.
Lemma cut_pre_false : forall sel p x, sel p x = false -> cut_pre sel p x = AEnter.
Proof. intros sel p x H. unfold cut_pre. rewrite H. reflexivity. Qed.

Theorem strav_cut : forall sel v, visits_N (nodes_cut sel) (strav (cut_pre sel) enter_post) v.
Proof.
  intros sel. apply pv_ind'; intros; intro path; rewrite strav_unfold; cbv zeta;
    change (enter_post path _) with AEnter.
  - cbn [nodes_cut]. destruct (sel path PNone) eqn:S; [rewrite (cut_pre_true _ _ _ S) | rewrite (cut_pre_false _ _ _ S)]; cbn; auto.
  - cbn [nodes_cut]. destruct (sel path (PInt z)) eqn:S; [rewrite (cut_pre_true _ _ _ S) | rewrite (cut_pre_false _ _ _ S)]; cbn; auto.
  - cbn [nodes_cut]. destruct (sel path (PStr s)) eqn:S; [rewrite (cut_pre_true _ _ _ S) | rewrite (cut_pre_false _ _ _ S)]; cbn; auto.
  - rewrite nodes_cut_list. destruct (sel path (PList l)) eqn:S; [rewrite (cut_pre_true _ _ _ S); cbn; auto |].
    rewrite (cut_pre_false _ _ _ S). cbn [kids_of].
    destruct (go_list_N (nodes_cut sel) _ path l 0 H) as [A B].
    destruct (go_list _ path l 0) as [lg ok]. cbn [fst snd] in *. subst ok. cbn [is_stop orb negb fst snd]. split; [reflexivity |].
    change (EPre path (PList l) :: lg ++ [EPost path (PList l)]) with ([EPre path (PList l)] ++ lg ++ [EPost path (PList l)]).
    rewrite !pres_app, B. cbn. rewrite app_nil_r. reflexivity.
  - rewrite nodes_cut_dict. destruct (sel path (PDict kvs)) eqn:S; [rewrite (cut_pre_true _ _ _ S); cbn; auto |].
    rewrite (cut_pre_false _ _ _ S). cbn [kids_of].
    destruct (go_dict_N (nodes_cut sel) _ path kvs H) as [A B].
    destruct (go_dict _ path kvs) as [lg ok]. cbn [fst snd] in *. subst ok. cbn [is_stop orb negb fst snd]. split; [reflexivity |].
    change (EPre path (PDict kvs) :: lg ++ [EPost path (PDict kvs)]) with ([EPre path (PDict kvs)] ++ lg ++ [EPost path (PDict kvs)]).
    rewrite !pres_app, B. cbn. rewrite app_nil_r. reflexivity.
Qed.

(* pg.query(custom_selector=sel, enter_selected=False) *)
Theorem squery_not_entering : forall sel v,
  squery sel false v = filter (fun px => sel (fst px) (snd px)) (nodes_cut sel v []).
Proof.
  intros sel v. unfold squery. fold (cut_pre sel). fold enter_post.
  destruct (strav_cut sel v []) as [_ B].
  destruct (strav (cut_pre sel) enter_post v []) as [lg ok]. cbn [fst] in B.
  rewrite select_pres, B. reflexivity.
Qed.

Theorem squery_not_entering_spec : forall sel v p x,
  In (p, x) (squery sel false v) <-> at_cut sel [] v p x /\ sel p x = true.
Proof.
  intros sel v p x. rewrite squery_not_entering, filter_In. cbn [fst snd].
  rewrite (nodes_cut_iff sel v [] p x). cbn [app]. split.
  - intros [(s & -> & H) S]. auto.
  - intros [H S]. split; [eauto | assumption].
Qed.

(* HyperTypingProofs.v — a value decoded from a placeholder that was bound to a value spec is accepted by that spec. *)
From PG Require Import Common.Tactics Model.Geno Proofs.GenoBasics Model.Hyper Model.HyperSpec Model.HyperTyping
  Proofs.HyperBasics Proofs.HyperDecode Proofs.HyperEncode.
From PG Require Proofs.TypingApply Proofs.TypingCompat.
Module TA := PG.Proofs.TypingApply.
Module TC := PG.Proofs.TypingCompat.

(* ---- acceptance facts about the two structured specs a placeholder can be bound to ------------------------------ *)
Lemma accepts_list : forall e mn mx m l, T.frozen m = false -> T.size_ok mn mx (T.len l) = true ->
  Forall (T.accepts e) l -> T.accepts (T.SList e mn mx m) (T.PList l).
Proof.
  intros e mn mx m l F S A.
  destruct (TC.mapM_accepts (T.apply false e) l A) as (l' & Hm & Hl).
  eapply (TC.accepts_inst (T.SList e mn mx m) (T.PList l) (T.PList l') [T.TyList]); auto.
  cbn [TA.apply_body]. rewrite Hm. cbn. unfold T.len in *. rewrite Hl, S. reflexivity.
Qed.

Lemma in_range_between : forall flo fhi lo hi f, T.in_range flo fhi lo = true -> T.in_range flo fhi hi = true ->
  (lo <= f <= hi)%Z -> T.in_range flo fhi f = true.
Proof.
  unfold T.in_range. intros flo fhi lo hi f H1 H2 Hf.
  apply andb_true_iff in H1 as [A1 _]. apply andb_true_iff in H2 as [_ B2]. apply andb_true_iff; split.
  - destruct flo; auto. apply negb_true_iff in A1. apply negb_true_iff. apply Z.ltb_ge in A1. apply Z.ltb_ge. lia.
  - destruct fhi; auto. apply negb_true_iff in B2. apply negb_true_iff. apply Z.gtb_ltb in B2 || idtac.
    rewrite Z.gtb_ltb in *. apply Z.ltb_ge in B2. apply Z.ltb_ge. lia.
Qed.

Lemma accepts_float : forall flo fhi m lo hi f, T.frozen m = false ->
  T.in_range flo fhi lo = true -> T.in_range flo fhi hi = true -> (lo <= f <= hi)%Z ->
  T.accepts (T.SFloat flo fhi m) (T.PFlt f).
Proof.
  intros. eapply (TC.accepts_inst (T.SFloat flo fhi m) (T.PFlt f) (T.PFlt f) [T.TyFloat]); auto.
  cbn [TA.apply_body]. unfold T.validate_num. cbn [T.num_of]. rewrite (in_range_between _ _ _ _ _ H0 H1 H2). reflexivity.
Qed.

(* ---- a template without placeholders decodes to itself ----------------------------------------------------------------- *)
Section Resp.
  Variable cdec : nat -> str -> result tmpl.
  Notation all := (fun _ : tmpl => true).
  Notation sdec := (sdec cdec all).

  Lemma flat_map_nil : forall A B (f : A -> list B) l, flat_map f l = [] -> Forall (fun x => f x = []) l.
  Proof. induction l; simpl; intros; auto. apply app_eq_nil in H as [H1 H2]. constructor; auto. Qed.

  Lemma const_list : forall ts, Forall (fun t => hypers_of t = [] -> forall ds, sdec t ds = Ok (t, ds)) ts ->
    Forall (fun t => hypers_of t = []) ts -> forall ds, trav_list sdec ts ds = Ok (ts, ds).
  Proof.
    induction 1 as [|t ts Ht _ IH]; intros Hc ds; [reflexivity|]. inv Hc.
    rewrite trav_list_cons, (Ht H1), (IH H2). reflexivity.
  Qed.
  Lemma const_kvs : forall (kvs : list (str * tmpl)),
    Forall (fun kv => hypers_of (snd kv) = [] -> forall ds, sdec (snd kv) ds = Ok (snd kv, ds)) kvs ->
    Forall (fun kv => hypers_of (snd kv) = []) kvs -> forall ds, trav_kvs sdec kvs ds = Ok (kvs, ds).
  Proof.
    induction 1 as [|[k t] kvs Ht _ IH]; intros Hc ds; [reflexivity|]. inv Hc. simpl in Ht, H1.
    rewrite trav_kvs_cons, (Ht H1), (IH H2). reflexivity.
  Qed.
  Lemma sdec_const : forall t, hypers_of t = [] -> forall ds, sdec t ds = Ok (t, ds).
  Proof.
    induction t using tmpl_ind'; intros Hc ds; simpl in Hc; try discriminate.
    - reflexivity.
    - rewrite sdec_dict, (const_kvs kvs H (flat_map_nil _ _ _ _ Hc)). reflexivity.
    - rewrite sdec_obj, (const_kvs kvs H (flat_map_nil _ _ _ _ Hc)). reflexivity.
    - rewrite sdec_list, (const_list ts H (flat_map_nil _ _ _ _ Hc)). reflexivity.
  Qed.

  Definition accepted (sp : T.spec) (v : tmpl) : Prop := exists pv, to_pv v = Some pv /\ T.accepts sp pv.

  Definition resp (t : tmpl) : Prop := forall sp p ds1 rest v r, bound sp t ->
    forallb2 valid_p (pts all p t) ds1 = true -> sdec t (ds1 ++ rest) = Ok (v, r) -> accepted sp v.

  Lemma resp_const : forall t sp ds v r, hypers_of t = [] -> accepted sp t -> sdec t ds = Ok (v, r) -> accepted sp v.
  Proof. intros t sp ds v r Hc Ha Hd. rewrite (sdec_const t Hc) in Hd. inv Hd. exact Ha. Qed.

  Lemma resp_choice : forall cands, Forall resp cands -> forall sp, Forall (bound sp) cands -> forall cs v,
    with_nth (fun s => valid s (snd cs)) false (map (fun c => Space (pts all [] c)) cands) (fst cs) = true ->
    choice_of cdec all cands cs = Ok v -> accepted sp v.
  Proof.
    intros cands HR sp HB [c [sds]] v Hv Hc. simpl in Hv. unfold choice_of in Hc; simpl in Hc.
    rewrite with_nth_map, with_nth_nth_error in Hv. rewrite with_nth_nth_error in Hc.
    destruct (nth_error cands c) as [cc|] eqn:En; try discriminate. simpl in Hv.
    destruct (sdec cc sds) as [[v0 r0]|] eqn:Ed; try discriminate.
    assert (Ed' : sdec cc (sds ++ []) = Ok (v0, r0)) by (rewrite app_nil_r; auto).
    pose proof (nth_error_Forall _ _ _ _ _ HR En sp [] sds [] v0 r0 (nth_error_Forall _ _ _ _ _ HB En) Hv Ed') as G.
    destruct r0; simpl in Hc; inv Hc. exact G.
  Qed.

  Lemma resp_choices : forall cands, Forall resp cands -> forall e, Forall (bound e) cands -> forall cs vs,
    forallb (fun cs0 => with_nth (fun s => valid s (snd cs0)) false (map (fun c => Space (pts all [] c)) cands) (fst cs0)) cs = true ->
    map_res (choice_of cdec all cands) cs = Ok vs ->
    exists pvs, opt_map_all to_pv vs = Some pvs /\ Forall (T.accepts e) pvs /\ length pvs = length cs.
  Proof.
    intros cands HR e HB. induction cs as [|c cs IH]; intros vs Hv Hm.
    - simpl in Hm. inv Hm. exists []; simpl; auto.
    - simpl in Hv. apply andb_true_iff in Hv as [H1 H2]. rewrite map_res_cons in Hm.
      destruct (choice_of cdec all cands c) as [v|] eqn:Ec; try discriminate.
      destruct (map_res (choice_of cdec all cands) cs) as [vs'|] eqn:Em; try discriminate. inv Hm.
      destruct (resp_choice cands HR e HB c v H1 Ec) as (pv & Hp & Ha).
      destruct (IH _ H2 eq_refl) as (pvs & Hps & Has & Hl).
      exists (pv :: pvs). simpl. rewrite Hp, Hps. repeat split; auto.
  Qed.

  Lemma resp_list : forall ts, Forall resp ts -> forall e, Forall (bound e) ts -> forall (pf : nat -> list ikey) n ds1 rest vs r,
    forallb2 valid_p (flat_mapi (fun i x => pts all (pf i) x) n ts) ds1 = true ->
    trav_list sdec ts (ds1 ++ rest) = Ok (vs, r) ->
    exists pvs, opt_map_all to_pv vs = Some pvs /\ Forall (T.accepts e) pvs /\ length pvs = length ts.
  Proof.
    induction 1 as [|t ts Ht _ IH]; intros e HB pf n ds1 rest vs r Hv Hd.
    - simpl in Hd. inv Hd. exists []; simpl; auto.
    - apply Forall_cons_iff in HB as [HB1 HB2].
      rewrite flat_mapi_cons in Hv. apply forallb2_app_l in Hv as (d1 & d2 & -> & H1 & H2).
      rewrite <- app_assoc, trav_list_cons in Hd.
      pose proof (dec_good cdec all t (pf n) d1 (d2 ++ rest) H1) as G.
      destruct (sdec t (d1 ++ d2 ++ rest)) as [[v1 r1]|] eqn:E1; try discriminate. destruct G as (-> & _).
      destruct (trav_list sdec ts (d2 ++ rest)) as [[vs2 r2]|] eqn:E2; try discriminate. inv Hd.
      destruct (Ht e (pf n) d1 (d2 ++ rest) v1 (d2 ++ rest) HB1 H1 E1) as (pv & Hp & Ha).
      destruct (IH e HB2 pf (S n) d2 rest vs2 r H2 E2) as (pvs & Hps & Has & Hl).
      exists (pv :: pvs). simpl. rewrite Hp, Hps. repeat split; auto.
  Qed.

  Lemma decode_respects : forall t, resp t.
  Proof.
    induction t using tmpl_ind'; intros sp p ds1 rest v r HB Hv Hd.
    - match type of HB with bound _ ?t => change (hypers_of t = [] /\ exists v0, to_pv t = Some v0 /\ T.accepts sp v0) in HB end. destruct HB as [Hc Ha]. exact (resp_const _ sp _ v r Hc Ha Hd).
    - match type of HB with bound _ ?t => change (hypers_of t = [] /\ exists v0, to_pv t = Some v0 /\ T.accepts sp v0) in HB end. destruct HB as [Hc Ha]. exact (resp_const _ sp _ v r Hc Ha Hd).
    - match type of HB with bound _ ?t => change (hypers_of t = [] /\ exists v0, to_pv t = Some v0 /\ T.accepts sp v0) in HB end. destruct HB as [Hc Ha]. exact (resp_const _ sp _ v r Hc Ha Hd).
    - (* list *) cbn [bound] in HB. destruct HB as [[Hc Ha]|HB]; [exact (resp_const _ sp _ v r Hc Ha Hd)|].
      destruct sp as [?|? ? ?|? ? ?|?|? ?|e mn mx m|? ? ? ?|? ?|? ?|? ?|?]; try contradiction. destruct HB as (F & S & HB).
      apply all_P_Forall in HB. simpl in Hv. rewrite sdec_list in Hd.
      destruct (trav_list sdec ts (ds1 ++ rest)) as [[vs r']|] eqn:E; inv Hd.
      destruct (resp_list ts H e HB (fun i => p ++ [KIdx i]) 0 ds1 rest vs r Hv E) as (pvs & Hp & Ha & Hl).
      exists (T.PList pvs). split; [simpl; rewrite Hp; reflexivity|].
      apply accepts_list; auto. unfold T.len. rewrite Hl. exact S.
    - (* oneof *) simpl in HB. apply all_P_Forall in HB. simpl in Hv. rewrite sdec_oneof in Hd.
      destruct ds1 as [|x ds1]; simpl in Hv; try discriminate.
      apply andb_true_iff in Hv as [Hx Hn]. destruct ds1; [|discriminate Hn].
      destruct x as [cs| |]; simpl in Hx; try discriminate.
      apply andb_true_iff in Hx as [Hx Hall]. apply andb_true_iff in Hx as [Hlen _].
      destruct cs as [|c [|c' cs]]; simpl in Hlen; try discriminate.
      simpl in Hall. rewrite andb_true_r in Hall. simpl in Hd.
      destruct (choice_of cdec all cands c) as [v0|] eqn:Ec; inv Hd.
      eapply resp_choice; eauto.
    - (* manyof *) simpl in HB. destruct sp; try contradiction. destruct HB as (F & S & HB). apply all_P_Forall in HB.
      simpl in Hv. rewrite sdec_manyof in Hd.
      destruct ds1 as [|x ds1]; simpl in Hv; try discriminate.
      apply andb_true_iff in Hv as [Hx Hn]. destruct ds1; [|discriminate Hn].
      destruct x as [cs| |]; simpl in Hx; try discriminate.
      apply andb_true_iff in Hx as [Hx Hall]. apply andb_true_iff in Hx as [Hlen Hc].
      simpl in Hd. rewrite Hlen, Hc in Hd. simpl in Hd.
      destruct (map_res (choice_of cdec all cands) cs) as [vs|] eqn:Em; inv Hd.
      destruct (resp_choices cands H sp HB cs vs Hall Em) as (pvs & Hp & Ha & Hl).
      exists (T.PList pvs). split; [simpl; rewrite Hp; reflexivity|].
      apply accepts_list; auto. unfold T.len. rewrite Hl. apply Nat.eqb_eq in Hlen. rewrite Hlen. exact S.
    - (* float *) simpl in HB. destruct sp as [?|? ? ?|flo fhi fm|?|? ?|? ? ? ?|? ? ? ?|? ?|? ?|? ?|?]; try contradiction. destruct HB as (F & R1 & R2).
      simpl in Hv, Hd. destruct ds1 as [|x ds1]; simpl in Hv; try discriminate.
      apply andb_true_iff in Hv as [Hx Hn]. destruct ds1; [|discriminate Hn].
      destruct x as [|f|]; simpl in Hx; try discriminate. simpl in Hd. rewrite Hx in Hd. inv Hd.
      exists (T.PFlt f). split; [reflexivity|]. apply andb_true_iff in Hx as [X1 X2].
      apply (accepts_float flo fhi fm lo hi f F R1 R2). lia.
    - (* custom *) simpl in HB. contradiction.
  Qed.

  Theorem decode_respects_spec : forall t sp d v, bound sp t ->
    valid (dna_spec all t) d = true -> sdecode cdec all t d = Ok v ->
    exists pv, to_pv v = Some pv /\ T.accepts sp pv.
  Proof.
    intros t sp [ds] v HB Hv Hd. simpl in Hv. unfold sdecode in Hd.
    destruct (sdec t ds) as [[v0 r]|] eqn:E; try discriminate.
    assert (E' : sdec t (ds ++ []) = Ok (v0, r)) by (rewrite app_nil_r; auto).
    pose proof (decode_respects t sp [] ds [] v0 r HB Hv E') as G. destruct r; simpl in Hd; inv Hd. exact G.
  Qed.
End Resp.

(* ---- non-vacuity: a multi-choice with a nested choice bound to List(Int(min 0, max 9), min_size 2, max_size 3) ---------- *)
Definition m0 : T.mods := T.Mods false None false.
Definition ex_spec : T.spec := T.SList (T.SInt (Some 0%Z) (Some 9%Z) m0) 2 (Some 3%Z) m0.
Definition ex_bt : tmpl :=
  TManyOf 2 [TLeaf (LfInt 1); TOneOf [TLeaf (LfInt 2); TLeaf (LfInt 3)] (mkA None None); TLeaf (LfInt 4)] true false (mkA None None).
Example ex_bound : bound ex_spec ex_bt.
Proof.
  simpl. repeat split; auto; eexists; (split; [reflexivity|]); eexists; reflexivity.
Qed.
Example ex_respects : exists pv, to_pv (TList [TLeaf (LfInt 3); TLeaf (LfInt 1)]) = Some pv /\ T.accepts ex_spec pv.
Proof.
  apply (decode_respects_spec (fun _ _ => Err E_VALUE) ex_bt ex_spec
           (SSpace [PChoices [(1%nat, SSpace [PChoices [(1%nat, SSpace [])]]); (0%nat, SSpace [])]])); [exact ex_bound | reflexivity | reflexivity].
Qed.

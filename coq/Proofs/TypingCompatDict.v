(* TypingCompatDict.v — soundness of Schema.is_compatible: a Dict spec compatible with another
   accepts every value of the other. *)
From PG Require Import Common.Tactics Model.Typing Proofs.TypingBasics Proofs.TypingApply Proofs.TypingDict
                       Proofs.TypingCompat.
Local Open Scope Z_scope.
Local Arguments Z.mul : simpl never.

Lemma schema_compat_inv : forall f (fs ofs : list (fkey * spec)), schema_compat f fs ofs = true ->
  (forall key s, In (key, s) ofs -> exists s', field_of key fs = Some s') /\
  (forall key sa, In (key, sa) fs -> exists sb, field_of key ofs = Some sb /\ f sa sb = true).
Proof.
  unfold schema_compat. intros f fs ofs H. apply andb_true_iff in H as [A B].
  rewrite forallb_forall in A, B. split.
  - intros key s I. specialize (A _ I). simpl in A. destruct (field_of key fs); eauto. discriminate.
  - intros key sa I. specialize (B _ I). simpl in B. destruct (field_of key ofs); eauto. discriminate.
Qed.

Lemma same_field_keys : forall f (fs ofs : list (fkey * spec)), schema_compat f fs ofs = true ->
  forall key, (exists s, field_of key fs = Some s) <-> (exists s, field_of key ofs = Some s).
Proof.
  intros f fs ofs H key. destruct (schema_compat_inv _ _ _ H) as [A B]. split; intros [s E].
  - apply field_of_In' in E. destruct (B _ _ E) as [sb [E' _]]. eauto.
  - apply field_of_In' in E. eauto.
Qed.

Lemma same_has_const : forall f (fs ofs : list (fkey * spec)), schema_compat f fs ofs = true ->
  forall k, has_const k fs = has_const k ofs.
Proof.
  intros f fs ofs H k. unfold has_const. pose proof (same_field_keys _ _ _ H (KConst k)) as [A B].
  destruct (field_of (KConst k) fs) eqn:E1, (field_of (KConst k) ofs) eqn:E2; auto.
  - destruct A as [s' X]; eauto. discriminate.
  - destruct B as [s' X]; eauto. discriminate.
Qed.

Lemma same_has_dyn : forall f (fs ofs : list (fkey * spec)), schema_compat f fs ofs = true ->
  has_dyn fs = has_dyn ofs.
Proof.
  intros f fs ofs H. unfold has_dyn. pose proof (same_field_keys _ _ _ H KDyn) as [A B].
  destruct (field_of KDyn fs) eqn:E1, (field_of KDyn ofs) eqn:E2; auto.
  - destruct A as [s' X]; eauto. discriminate.
  - destruct B as [s' X]; eauto. discriminate.
Qed.

Lemma same_unknown_keys : forall f (fs ofs : list (fkey * spec)) kvs, schema_compat f fs ofs = true ->
  unknown_keys fs kvs = unknown_keys ofs kvs.
Proof.
  intros f fs ofs kvs H. unfold unknown_keys. rewrite (same_has_dyn _ _ _ H). f_equal.
  induction kvs as [|[k x] r IH]; simpl; auto. rewrite (same_has_const _ _ _ H k), IH. reflexivity.
Qed.

Lemma total_dict_in : forall kvs k x, total (PDict kvs) = true -> In (k, x) kvs -> total x = true /\ is_missing x = false.
Proof.
  simpl. intros kvs k x T I. rewrite forallb_forall in T. specialize (T _ I). simpl in T.
  split; auto. destruct x; auto; discriminate.
Qed.

Lemma sound_dict : forall q fs m ofs mb v,
  frozen m = false -> total v = true -> none_ok m mb = true ->
  schema_compat (compat q) fs ofs = true -> keys_distinct ofs = true ->
  (forall key sa sb, In (key, sa) fs -> In (key, sb) ofs -> compat q sa sb = true ->
     forall x, total x = true -> conforms sb x -> accepts sa x) ->
  conforms (unfreeze (SDict (Some ofs) mb)) v -> accepts (SDict (Some fs) m) v.
Proof.
  intros q fs m ofs mb v Fa TV NO SCM KD IH C.
  apply conforms_inv in C; auto using frozen_unfreeze, total_not_missing.
  destruct C as [[E N]|[T [v1 [Co Bo]]]].
  - subst. apply accepts_none; auto. eapply none_ok_use; eauto.
  - simpl in Co. apply coerce_nofloat in Co as [E I]; [|reflexivity]. subst v1.
    cbn [unfreeze with_mods apply_body] in Bo.
    destruct v; try discriminate.
    destruct (unknown_keys ofs kvs) eqn:UK; [discriminate|].
    destruct (fields_apply (apply false) ofs kvs ofs) as [ups|] eqn:FA; simpl in Bo; [|discriminate].
    injection Bo as Hm. destruct (merge_fixed _ _ Hm) as [M1 M2]. clear Hm.
    destruct (schema_compat_inv _ _ _ SCM) as [SC1 SC2].
    assert (CONST : forall k sp, In (KConst k, sp) ofs -> has_const k ofs = true)
      by (intros; eapply has_const_In; eauto).
    (* the receiver's fields all succeed *)
    destruct (fields_apply_ok (apply false) fs kvs fs) as [ups_a HA].
    + intros k sa Isa. destruct (SC2 _ _ Isa) as [sb [Fb Cab]].
      pose proof (field_of_In' _ _ _ Fb) as Isb.
      destruct (fields_const _ _ _ _ _ FA KD CONST k sb Isb) as [x' [Lx Fx]].
      pose proof (M1 _ _ (lookup_In _ _ _ Lx)) as HK.
      destruct (has_key_lookup _ _ HK) as [x Lk].
      pose proof (lookup_In _ _ _ Lk) as Ik.
      pose proof (M2 _ _ Ik _ Lx); subst x'.
      destruct (total_dict_in _ _ _ TV Ik) as [Tx Mx].
      rewrite Lk in *. simpl in *. rewrite Mx in *.
      apply (IH _ _ _ Isa Isb Cab x Tx Fx).
    + intros sa Isa k x Ik NC. destruct (SC2 _ _ Isa) as [sb [Fb Cab]].
      pose proof (field_of_In' _ _ _ Fb) as Isb.
      rewrite (same_has_const _ _ _ SCM) in NC.
      destruct (has_key_lookup _ _ (In_has_key _ _ _ Ik)) as [x0 L0].
      destruct (fields_dyn _ _ _ _ _ FA KD CONST sb Isb k x0 NC L0) as [y [Ly Fy]].
      pose proof (M2 _ _ (lookup_In _ _ _ L0) _ Ly). subst y.
      pose proof (M2 _ _ Ik _ Ly). subst x0.
      destruct (total_dict_in _ _ _ TV Ik) as [Tx Mx]. rewrite Mx in *.
      apply (IH _ _ _ Isa Isb Cab x Tx Fy).
    + eapply accepts_inst with (ts := [TyDict]) (v' := PDict (dict_merge kvs ups_a)); auto.
      cbn [apply_body]. rewrite (same_unknown_keys _ _ _ kvs SCM), UK, HA. reflexivity.
Qed.

(* ------------------------------------------------------------------------------------------ *)
(** * compat soundness for every receiver without Union (any sender whose schemas have distinct keys) *)

Definition sound_for_all (q : quirks) (a : spec) : Prop :=
  forall b, wf a -> wf b -> keys_ok b = true -> compat q a b = true ->
  forall v, total v = true -> conforms b v -> accepts a v.

Theorem compat_sound : forall q, no_quirks q -> forall a, no_union a = true -> sound_for_all q a.
Proof.
  intros q (Q1 & Q2 & Q3 & Q4 & Q5).
  induction a using spec_ind'; intros NU b Wa Wb KB CP v TV C;
    rewrite compat_eq in CP; unfold compat1 in CP; cbn [mods_of] in CP;
    apply andb_true_iff in CP as [FO CP];
    (destruct (frozen m) eqn:Fa;
     [ destruct (frozen_ok_true _ _ _ Q2 Fa FO) as [Fb E];
       eapply sound_frozen_receiver; eauto
     | pose proof (conforms_unfreeze _ _ Wb TV C) as C';
       pose proof (total_not_missing _ TV) as NM ]).
  - (* Bool *)
    destruct b; try discriminate.
    eapply sound_leaf with (b := SBool m0); eauto;
      try (intros v1 B; inv B; reflexivity); try (intros _; eexists; reflexivity).
  - (* Int *)
    destruct b; try discriminate. bsplit.
    eapply sound_leaf with (b := SInt lo0 hi0 m0); eauto.
    + intros v1 B. symmetry. eapply validate_num_same; eauto.
    + intros B. cbn [apply_body] in *. destruct (validate_num_ok _ _ _ B) as [x [N I]].
      exists v. unfold validate_num. rewrite N. erewrite in_range_compat64; eauto.
  - (* Float *)
    destruct b; try discriminate. bsplit.
    eapply sound_leaf with (b := SFloat lo0 hi0 m0); eauto.
    + intros v1 B. symmetry. eapply validate_num_same; eauto.
    + intros B. cbn [apply_body] in *. destruct (validate_num_ok _ _ _ B) as [x [N I]].
      exists v. unfold validate_num. rewrite N. erewrite in_range_compat; eauto.
  - (* Str *)
    destruct b; try discriminate.
    eapply sound_leaf with (b := SStr m0); eauto;
      try (intros v1 B; inv B; reflexivity); try (intros _; eexists; reflexivity).
  - (* Enum *)
    apply orb_true_iff in CP as [SC|CP].
    + bsplit. rewrite Q3, orb_false_l in H0.
      rewrite (conforms_frozen _ _ H C).
      destruct (apply false (SEnum vs m) (dflt (mods_of b))) eqn:A; [|discriminate].
      eexists; eauto.
    + destruct b; try discriminate. bsplit. eapply sound_enum_enum; eauto.
  - (* List *)
    destruct b; try discriminate. bsplit. rewrite Q1, orb_false_l in H2.
    simpl in NU, KB.
    eapply sound_list; eauto.
    intros x Tx Cx. apply (IHa NU b); eauto using wf_list.
  - (* Tuple *)
    destruct b; try discriminate. apply andb_true_iff in CP as [NO CP].
    simpl in NU, KB. rewrite forallb_forall in NU, KB.
    pose proof (wf_tuple _ _ _ _ Wa) as Wes. pose proof (wf_tuple _ _ _ _ Wb) as Woes.
    rewrite Forall_forall in *.
    eapply sound_tuple; eauto.
    intros e He oe Hoe CPe x Tx Cx. apply (H e He (NU e He) oe); auto.
  - (* schema-less Dict *)
    destruct b; try discriminate. bsplit. eapply sound_dict_none; eauto.
  - (* Dict with a schema *)
    destruct b; try discriminate. apply andb_true_iff in CP as [NO CP].
    destruct schema as [ofs|]; [|discriminate].
    simpl in NU, KB. apply andb_true_iff in KB as [KD KB]. rewrite forallb_forall in NU, KB.
    pose proof (wf_dict _ _ Wa) as Wfs. pose proof (wf_dict _ _ Wb) as Wofs.
    rewrite Forall_forall in *.
    eapply sound_dict; eauto.
    intros key sa sb Isa Isb Cab x Tx Cx.
    apply (H _ Isa (NU _ Isa) sb); auto;
      first [apply (Wfs _ Isa) | apply (Wofs _ Isb) | apply (KB _ Isb)].
  - (* Object *)
    destruct b; try discriminate. bsplit. eapply sound_obj; eauto.
  - simpl in NU. discriminate.
  - (* Any *)
    destruct Wa as [_ N]. eapply sound_any; eauto.
Qed.

(* ------------------------------------------------------------------------------------------ *)
(** * The same for the code as it is: any quirk flags, a receiver that avoids the flagged cases *)

Definition sound_for_avoiding (q : quirks) (a : spec) : Prop :=
  forall b, wf a -> wf b -> keys_ok b = true -> sizes_ok b = true -> compat q a b = true ->
  forall v, total v = true -> conforms b v -> accepts a v.

Lemma avoids_frozen : forall q a, avoids q a = true -> frozen (mods_of a) = true -> q_frozen_recv q = false.
Proof.
  intros q a AV F. destruct a; simpl in AV; apply andb_true_iff in AV as [AV _];
    cbn [mods_of] in F; rewrite F in AV; simpl in AV; rewrite orb_false_r in AV;
    destruct (q_frozen_recv q); auto; discriminate.
Qed.

Theorem compat_sound_avoiding : forall q a, no_union a = true -> avoids q a = true -> sound_for_avoiding q a.
Proof.
  intros q.
  induction a using spec_ind'; intros NU AV b Wa Wb KB SB CP v TV C;
    rewrite compat_eq in CP; unfold compat1 in CP; cbn [mods_of] in CP;
    apply andb_true_iff in CP as [FO CP];
    (destruct (frozen m) eqn:Fa;
     [ match goal with AV0 : avoids q ?aa = true |- _ =>
         pose proof (avoids_frozen q aa AV0 Fa) as Q2 end;
       destruct (frozen_ok_true _ _ _ Q2 Fa FO) as [Fb E];
       eapply sound_frozen_receiver; eauto
     | pose proof (conforms_unfreeze _ _ Wb TV C) as C';
       pose proof (total_not_missing _ TV) as NM ]);
    simpl in AV; apply andb_true_iff in AV as [_ AV].
  - (* Bool *)
    destruct b; try discriminate.
    eapply sound_leaf with (b := SBool m0); eauto;
      try (intros v1 B; inv B; reflexivity); try (intros _; eexists; reflexivity).
  - (* Int *)
    destruct b; try discriminate. bsplit.
    eapply sound_leaf with (b := SInt lo0 hi0 m0); eauto.
    + intros v1 B. symmetry. eapply validate_num_same; eauto.
    + intros B. cbn [apply_body] in *. destruct (validate_num_ok _ _ _ B) as [x [N I]].
      exists v. unfold validate_num. rewrite N. erewrite in_range_compat64; eauto.
  - (* Float *)
    destruct b; try discriminate. bsplit.
    eapply sound_leaf with (b := SFloat lo0 hi0 m0); eauto.
    + intros v1 B. symmetry. eapply validate_num_same; eauto.
    + intros B. cbn [apply_body] in *. destruct (validate_num_ok _ _ _ B) as [x [N I]].
      exists v. unfold validate_num. rewrite N. erewrite in_range_compat; eauto.
  - (* Str *)
    destruct b; try discriminate.
    eapply sound_leaf with (b := SStr m0); eauto;
      try (intros v1 B; inv B; reflexivity); try (intros _; eexists; reflexivity).
  - (* Enum: only when both Enum flags are off *)
    apply andb_true_iff in AV as [Q3 Q4].
    apply negb_true_iff in Q3. apply negb_true_iff in Q4.
    apply orb_true_iff in CP as [SC|CP].
    + bsplit. rewrite Q3, orb_false_l in H0.
      rewrite (conforms_frozen _ _ H C).
      destruct (apply false (SEnum vs m) (dflt (mods_of b))) eqn:A; [|discriminate].
      eexists; eauto.
    + destruct b; try discriminate. bsplit. eapply sound_enum_enum; eauto.
  - (* List *)
    destruct b; try discriminate. bsplit.
    simpl in NU, KB, SB. apply andb_true_iff in SB as [SB1 SB2].
    assert (MN : negb (mn >? mn0) = true).
    { destruct (q_list_min q); simpl in *; auto. lia. }
    eapply sound_list; eauto.
    intros x Tx Cx. apply (IHa NU ltac:(assumption) b); eauto using wf_list.
  - (* Tuple *)
    destruct b; try discriminate. apply andb_true_iff in CP as [NO CP].
    simpl in NU, KB, SB. apply andb_true_iff in SB as [_ SB].
    rewrite forallb_forall in NU, KB, SB, AV.
    pose proof (wf_tuple _ _ _ _ Wa) as Wes. pose proof (wf_tuple _ _ _ _ Wb) as Woes.
    rewrite Forall_forall in *.
    eapply sound_tuple; eauto.
    intros e He oe Hoe CPe x Tx Cx. apply (H e He (NU e He) (AV e He) oe); auto.
  - (* schema-less Dict *)
    destruct b; try discriminate. bsplit. eapply sound_dict_none; eauto.
  - (* Dict with a schema *)
    destruct b; try discriminate. apply andb_true_iff in CP as [NO CP].
    destruct schema as [ofs|]; [|discriminate].
    simpl in NU, KB, SB. apply andb_true_iff in KB as [KD KB]. rewrite forallb_forall in NU, KB, SB, AV.
    pose proof (wf_dict _ _ Wa) as Wfs. pose proof (wf_dict _ _ Wb) as Wofs.
    rewrite Forall_forall in *.
    eapply sound_dict; eauto.
    intros key sa sb Isa Isb Cab x Tx Cx.
    apply (H _ Isa (NU _ Isa) (AV _ Isa) sb); auto;
      first [apply (Wfs _ Isa) | apply (Wofs _ Isb) | apply (KB _ Isb) | apply (SB _ Isb)].
  - (* Object *)
    destruct b; try discriminate. bsplit. eapply sound_obj; eauto.
  - simpl in NU. discriminate.
  - (* Any *)
    destruct Wa as [_ N]. eapply sound_any; eauto.
Qed.

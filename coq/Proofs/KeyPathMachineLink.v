(* KeyPathMachineLink.v — the programs regenerated from the source of KeyPath.parse / _append_key / path_str
   (Gen/KeyPathSrc.v), run by the interpreter of Model/KeyPathMachine.v, compute parse / format of Model/KeyPath.v. *)
From PG Require Import Common.Tactics Model.KeyPath Model.KeyPathMachine Gen.KeyPathSrc Proofs.KeyPathParse.
Local Open Scope Z_scope.

(* the programs the proofs below are about *)
Definition exp_append_key : list akstmt := [AKReturnIfEmptyNotPreserved; AKIntIfNumeric 45%N; AKAppend].
Definition key_done : stmt := SSeq SKeySlice (SSeq (SAppendKey false false) SKeyStartNext).
Definition exp_body : stmt :=
  SIf (CChEq 93%N)
      (SSeq (SDepthAdd (-1))
            (SIf CDepthEq0 (SSeq SKeySlice (SSeq (SAppendKey true true) SKeyStartNext))
                 (SIf CDepthLt0 (SRaise PEClose) SSkip)))
      (SIf (CChEq 91%N)
           (SSeq (SIf CDepthEq0 key_done SSkip) (SDepthAdd 1))
           (SIf (CAnd (CChEq 46%N) CDepthEq0) key_done SSkip)).
Definition exp_final : stmt :=
  SSeq (SIf CKeyStartNeLen (SSeq SKeySlice (SAppendKey false false)) SSkip) (SIf (CNot CDepthEq0) (SRaise PEOpen) SSkip).
Definition exp_parse : parse_prog := {| pp_ak := exp_append_key; pp_body := exp_body; pp_final := exp_final |}.
Definition exp_fmt : fmt_params := {| fp_special := [91; 93; 46]%N; fp_sep := [46%N]; fp_open := [91%N]; fp_close := [93%N] |}.

(* instance obligation, re-checked on the file regenerated from the current source *)
Lemma src_is_expected : src_parse = exp_parse /\ src_fmt = exp_fmt.
Proof. split; reflexivity. Qed.

(* ---- _append_key ------------------------------------------------------------------------------------------------------------ *)
Lemma lstrip_c_dash : forall s, lstrip_c c_dash s = lstrip_dash s.
Proof. induction s as [| x r IH]; cbn; [reflexivity |]. destruct (N.eqb x c_dash); auto. Qed.

Lemma exec_ak_eq : forall pe num k acc, exec_ak exp_append_key pe num (inl k) acc = append_key acc k pe num.
Proof.
  intros pe num k acc. unfold exp_append_key, append_key. cbn [exec_ak].
  change 45%N with c_dash. rewrite lstrip_c_dash.
  destruct pe, (is_nil k) eqn:E; cbn [negb orb andb]; try reflexivity;
    destruct (num && isdigit (lstrip_dash k)); try reflexivity; destruct (py_int k); reflexivity.
Qed.

(* ---- the loop ------------------------------------------------------------------------------------------------------------------ *)
Definition st_of (cur : list N) (d : nat) (k : list N) (acc : list key) : mstate :=
  {| m_cur := cur; m_next := false; m_depth := Z.of_nat d; m_key := k; m_acc := acc |}.

Lemma depth_facts : forall d : nat,
  (Z.of_nat (S (S d)) + -1 =? 0) = false /\ (Z.of_nat (S (S d)) + -1 <? 0) = false /\
  (Z.of_nat (S d) =? 0) = false /\ Z.of_nat (S d) + -1 = Z.of_nat d /\ Z.of_nat d + 1 = Z.of_nat (S d).
Proof. intros d. repeat split; try (apply Z.eqb_neq; lia); try (apply Z.ltb_ge; lia); lia. Qed.

Lemma loop_eq : forall rest cur d k acc,
  finish exp_parse (run_loop exp_append_key exp_body rest (st_of cur d k acc)) = parse_go rest cur d acc.
Proof.
  induction rest as [| ch r IH]; intros cur d k acc.
  - cbn [run_loop finish parse_go]. unfold exp_parse, exp_final. unfold append_key. cbn [negb andb].
    destruct cur as [| c0 cur'].
    + cbn [pp_ak pp_final exec eval_cond st_of m_cur m_next m_depth m_key m_acc is_nil negb].
      destruct d; cbn; reflexivity.
    + cbn [pp_ak pp_final exec eval_cond st_of m_cur m_next m_depth m_key m_acc is_nil negb].
      rewrite exec_ak_eq. unfold append_key. cbn [negb andb is_nil].
      destruct d; cbn; reflexivity.
  - cbn [run_loop parse_go]. unfold exp_body, key_done.
    cbn [exec eval_cond st_of m_cur m_next m_depth m_key m_acc].
    change 93%N with c_close. change 91%N with c_open. change 46%N with c_dot.
    destruct (N.eqb ch c_close) eqn:E1.
    + (* ']' *)
      destruct d as [| [| d']].
      * cbn. reflexivity.
      * cbn [exec eval_cond m_cur m_next m_depth m_key m_acc Z.of_nat Pos.of_succ_nat Z.add Z.eqb Z.pos_sub Z.ltb Z.compare].
        rewrite exec_ak_eq. destruct (append_key acc cur true true) as [acc' |]; [| reflexivity].
        cbn [st_of m_cur m_next m_depth m_key m_acc]. apply (IH [] O cur acc').
      * destruct (depth_facts d') as (F1 & F2 & _ & _ & _).
        cbn [exec eval_cond st_of m_cur m_next m_depth m_key m_acc]. rewrite F1, F2.
        cbn [exec st_of m_cur m_next m_depth m_key m_acc].
        replace (Z.of_nat (S (S d')) + -1) with (Z.of_nat (S d')) by lia. apply (IH (cur ++ [ch]) (S d') k acc).
    + destruct (N.eqb ch c_open) eqn:E2.
      * (* '[' *)
        destruct d as [| d'].
        -- cbn [exec eval_cond m_cur m_next m_depth m_key m_acc Z.of_nat Z.eqb].
           rewrite exec_ak_eq. destruct (append_key acc cur false false) as [acc' |]; [| reflexivity].
           cbn [exec st_of m_cur m_next m_depth m_key m_acc Z.add]. apply (IH [] 1%nat cur acc').
        -- destruct (depth_facts d') as (_ & _ & F3 & _ & _).
           cbn [exec eval_cond st_of m_cur m_next m_depth m_key m_acc]. rewrite F3.
           cbn [exec st_of m_cur m_next m_depth m_key m_acc].
           replace (Z.of_nat (S d') + 1) with (Z.of_nat (S (S d'))) by lia. apply (IH (cur ++ [ch]) (S (S d')) k acc).
      * (* '.' at depth 0, or an ordinary character *)
        destruct d as [| d'].
        -- cbn [Z.of_nat Z.eqb is_zero]. rewrite andb_true_r. destruct (N.eqb ch c_dot) eqn:E3.
           ++ cbn [exec eval_cond st_of m_cur m_next m_depth m_key m_acc].
              rewrite exec_ak_eq. destruct (append_key acc cur false false) as [acc' |]; [| reflexivity].
              cbn [st_of m_cur m_next m_depth m_key m_acc]. apply (IH [] O cur acc').
           ++ cbn [exec st_of m_cur m_next m_depth m_key m_acc]. apply (IH (cur ++ [ch]) O k acc).
        -- destruct (depth_facts d') as (_ & _ & F3 & _ & _). rewrite F3. cbn [is_zero]. rewrite !andb_false_r.
           cbn [exec st_of m_cur m_next m_depth m_key m_acc]. apply (IH (cur ++ [ch]) (S d') k acc).
Qed.

Theorem run_parse_eq : forall s, run_parse exp_parse s = parse s.
Proof. intros s. unfold run_parse, parse. apply (loop_eq s [] O [] []). Qed.

(* ---- path_str ------------------------------------------------------------------------------------------------------------------ *)
Lemma g_special_eq : forall s, g_has_special exp_fmt s = has_special s.
Proof.
  intros s. unfold g_has_special, exp_fmt, has_special. cbn [fp_special existsb].
  rewrite orb_false_r.
  induction s as [| c r IH]; [reflexivity |]. cbn [existsb]. rewrite <- IH. unfold is_special.
  change c_open with 91%N. change c_close with 93%N. change c_dot with 46%N.
  rewrite (N.eqb_sym 91 c), (N.eqb_sym 93 c), (N.eqb_sym 46 c).
  destruct (N.eqb c 91), (N.eqb c 93), (N.eqb c 46), (existsb (N.eqb 91%N) r), (existsb (N.eqb 93%N) r), (existsb (N.eqb 46%N) r); reflexivity.
Qed.

Theorem g_fmt_eq : forall preserve ks first, g_fmt_go exp_fmt preserve first ks = fmt_go preserve first ks.
Proof.
  intros preserve. induction ks as [| k r IH]; intros first; [reflexivity |].
  cbn [g_fmt_go fmt_go]. rewrite IH. f_equal.
  destruct k as [s | z]; cbn [g_fmt_key fmt_key]; [| reflexivity].
  rewrite g_special_eq. destruct (preserve && has_special s); reflexivity.
Qed.

(* ---- the round trip, stated on the programs regenerated from the source -------------------------------------------------------- *)
Theorem src_run_parse : forall s, run_parse src_parse s = parse s.
Proof. intros. rewrite (proj1 src_is_expected). apply run_parse_eq. Qed.

Theorem src_format : forall preserve ks, g_fmt_go src_fmt preserve true ks = fmt_go preserve true ks.
Proof. intros. rewrite (proj2 src_is_expected). apply g_fmt_eq. Qed.

Theorem src_parse_format : forall ks, Forall key_ok ks -> run_parse src_parse (g_fmt_go src_fmt true true ks) = POk ks.
Proof. intros ks H. rewrite src_run_parse, src_format. apply parse_format. assumption. Qed.

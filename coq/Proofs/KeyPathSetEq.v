(* KeyPathSetEq.v — s1 == s2 iff the same members; has_prefix; subtree. *)
From PG Require Import Common.Tactics Model.KeyPath Proofs.KeyPathArith Proofs.KeyPathSetBase Proofs.KeyPathSetIter.

(* a non-empty well-formed dict has a member *)
Lemma wf_inhabited : forall q kids, wf q (TDict kids) -> kids <> [] -> exists s, cleanp q s /\ memb q s (TDict kids) = true.
Proof.
  intros q kids Hw Hne.
  destruct (inhab_all q (TDict kids) kids eq_refl Hw Hne []) as (p & Hp).
  apply (iter_spec_all q (TDict kids) kids eq_refl Hw [] p) in Hp as (s & -> & Hc & Hm). eauto.
Qed.

Definition same_members (q : quirks) (a b : tnode) : Prop := forall p, cleanp q p -> memb q p a = memb q p b.

Lemma keys_incl_of_members : forall q ka kb, wf q (TDict ka) -> wf q (TDict kb) -> same_members q (TDict ka) (TDict kb) ->
  forall m, In m (keys_of ka) -> In m (keys_of kb).
Proof.
  intros q ka kb Ha Hb Hs m Hin.
  destruct (aget m ka) eqn:E; [| apply aget_none_notin in E; contradiction].
  destruct m as [| k].
  - specialize (Hs [] (Forall_nil _)). cbn [memb] in Hs. unfold ahas in Hs. rewrite E in Hs.
    destruct (aget MTerm kb) eqn:F; [| discriminate]. eapply key_in_keys. eapply aget_in; eauto.
  - pose proof (wf_entry _ _ _ _ Ha E) as (Hc & _ & _). cbn [fst] in Hc.
    destruct (wf_child _ _ _ _ Ha E) as (ck & -> & Hne & Hck).
    destruct (wf_inhabited q ck Hck Hne) as (s & Hcs & Hm).
    specialize (Hs (k :: s) (Forall_cons _ Hc Hcs)). cbn [memb] in Hs. rewrite Hc, E, Hm in Hs.
    destruct (aget (MK k) kb) eqn:F; [| discriminate]. eapply key_in_keys. eapply aget_in; eauto.
Qed.

Lemma teq_dict : forall ka kb,
  teq (TDict ka) (TDict kb) =
  Nat.eqb (length ka) (length kb) &&
  forallb (fun mv => match aget (fst mv) kb with Some v' => teq (snd mv) v' | None => false end) ka.
Proof. reflexivity. Qed.

Definition teq_P (q : quirks) (a : tnode) : Prop :=
  forall b, wf q a -> wf q b -> (exists ka, a = TDict ka) -> (exists kb, b = TDict kb) ->
  (teq a b = true <-> same_members q a b).

Lemma length_keys : forall (l : trie), length (keys_of l) = length l.
Proof. intros. unfold keys_of. apply map_length. Qed.

Lemma teq_spec_all : forall q a, teq_P q a.
Proof.
  intros q. apply tnode_ind'; unfold teq_P.
  - intros b _ _ (ka & F). discriminate.
  - intros ka IH b Ha Hb _ (kb & ->). rewrite teq_dict.
    pose proof (proj1 (wf_dict _ _) Ha) as [Hnda Henta]. pose proof (proj1 (wf_dict _ _) Hb) as [Hndb Hentb].
    rewrite Forall_forall in IH. split.
    + (* == implies the same members *)
      intros H. apply andb_true_iff in H as [Hlen Hall]. apply Nat.eqb_eq in Hlen. rewrite forallb_forall in Hall.
      assert (forall m, In m (keys_of ka) -> In m (keys_of kb)) as Hincl.
      { intros m Hm. apply in_map_iff in Hm as ([m' v] & <- & Hin). specialize (Hall _ Hin). cbn [fst snd] in Hall.
        destruct (aget m' kb) eqn:F; [| discriminate]. eapply key_in_keys. eapply aget_in; eauto. }
      assert (forall m, In m (keys_of kb) -> In m (keys_of ka)) as Hincl'.
      { apply NoDup_length_incl; auto. rewrite !length_keys. lia. }
      assert (forall m v, aget m ka = Some v -> exists v', aget m kb = Some v' /\ teq v v' = true) as Hget.
      { intros m v E. specialize (Hall _ (aget_in _ _ _ E)). cbn [fst snd] in Hall. destruct (aget m kb); [eauto | discriminate]. }
      intros p Hp. destruct p as [| k s]; cbn [memb].
      * unfold ahas. destruct (aget MTerm ka) eqn:E.
        -- destruct (Hget _ _ E) as (v' & -> & _). reflexivity.
        -- destruct (aget MTerm kb) eqn:F; [| reflexivity].
           apply aget_none_notin in E. exfalso. apply E. apply Hincl'. eapply key_in_keys. eapply aget_in; eauto.
      * inv Hp. rewrite H1. destruct (aget (MK k) ka) eqn:E.
        -- destruct (Hget _ _ E) as (v' & F & Hteq). rewrite F.
           destruct (wf_child _ _ _ _ Ha E) as (ck & -> & _ & Hck). destruct (wf_child _ _ _ _ Hb F) as (ck' & -> & _ & Hck').
           pose proof (IH _ (aget_in _ _ _ E) (TDict ck') Hck Hck' (ex_intro _ ck eq_refl) (ex_intro _ ck' eq_refl)) as [I _].
           cbn [snd] in I. apply (I Hteq). assumption.
        -- destruct (aget (MK k) kb) eqn:F; [| reflexivity].
           apply aget_none_notin in E. exfalso. apply E. apply Hincl'. eapply key_in_keys. eapply aget_in; eauto.
    + (* the same members imply == *)
      intros Hs.
      assert (same_members q (TDict kb) (TDict ka)) as Hs' by (intros p Hp; symmetry; apply Hs; assumption).
      pose proof (keys_incl_of_members q ka kb Ha Hb Hs) as I1.
      pose proof (keys_incl_of_members q kb ka Hb Ha Hs') as I2.
      apply andb_true_iff. split.
      * apply Nat.eqb_eq. rewrite <- !length_keys. apply Nat.le_antisymm; apply NoDup_incl_length; assumption.
      * apply forallb_forall. intros [m v] Hin. cbn [fst snd].
        pose proof (in_aget _ _ _ Hnda Hin) as E.
        destruct (aget m kb) eqn:F; [| apply aget_none_notin in F; exfalso; apply F; apply I1; eapply key_in_keys; eauto].
        destruct m as [| k].
        -- pose proof (wf_entry _ _ _ _ Ha E) as Hv. pose proof (wf_entry _ _ _ _ Hb F) as Hv'. cbn in Hv, Hv'. subst. reflexivity.
        -- pose proof (wf_entry _ _ _ _ Ha E) as (Hc & _ & _). cbn [fst] in Hc.
           destruct (wf_child _ _ _ _ Ha E) as (ck & -> & _ & Hck). destruct (wf_child _ _ _ _ Hb F) as (ck' & -> & _ & Hck').
           pose proof (IH _ Hin (TDict ck') Hck Hck' (ex_intro _ ck eq_refl) (ex_intro _ ck' eq_refl)) as [_ I].
           cbn [snd] in I. apply I.
           intros s Hcs. specialize (Hs (k :: s) (Forall_cons _ Hc Hcs)). cbn [memb] in Hs. rewrite Hc, E, F in Hs. exact Hs.
Qed.

Theorem eq_spec : forall q t s, wf q (TDict t) -> wf q (TDict s) ->
  (teq (TDict t) (TDict s) = true <-> forall p, cleanp q p -> memb q p (TDict t) = memb q p (TDict s)).
Proof. intros q t s Ht Hs. apply (teq_spec_all q (TDict t) (TDict s) Ht Hs); eauto. Qed.

(* ---- has_prefix / subtree ------------------------------------------------------------------------------------------------ *)
Lemma walk_memb : forall q p kids, wf q (TDict kids) -> cleanp q p ->
  (walk q p (TDict kids) = Some None /\ forall s, memb q (p ++ s) (TDict kids) = false) \/
  (exists ck, walk q p (TDict kids) = Some (Some (TDict ck)) /\ wf q (TDict ck) /\ (p <> [] -> ck <> []) /\
              forall s, memb q (p ++ s) (TDict kids) = memb q s (TDict ck)).
Proof.
  induction p as [| k r IH]; intros kids Hw Hc.
  - right. exists kids. split; [reflexivity |]. split; [assumption |]. split; [congruence | reflexivity].
  - inv Hc. cbn [walk app]. rewrite H1. destruct (aget (MK k) kids) eqn:E.
    + destruct (wf_child _ _ _ _ Hw E) as (ck & -> & Hne & Hck).
      destruct (IH ck Hck H2) as [[A B] | (ck' & A & B & C & D0)].
      * left. split; [assumption |]. intros s. cbn [memb]. rewrite H1, E. apply B.
      * right. exists ck'. rewrite ?H1, ?E. split; [assumption |]. split; [assumption |]. split.
        -- intros _. destruct r; [cbn in A; inv A; assumption | apply C; discriminate].
        -- intros s. cbn [memb]. rewrite H1, E. apply D0.
    + left. split; [reflexivity |]. intros s. cbn [memb]. rewrite H1, E. reflexivity.
Qed.

Theorem has_prefix_spec : forall q p t, wf q (TDict t) -> cleanp q p ->
  exists b, has_prefix q p t = Some b /\
    (b = true <-> p = [] \/ exists s, cleanp q s /\ memb q (p ++ s) (TDict t) = true).
Proof.
  intros q p t Hw Hc. unfold has_prefix.
  destruct (walk_memb q p t Hw Hc) as [[A B] | (ck & A & Hck & Hne & B)]; rewrite A.
  - exists false. split; [reflexivity |]. split; [discriminate |].
    intros [-> | (s & _ & Hm)]; [cbn in A; discriminate | rewrite B in Hm; discriminate].
  - exists true. split; [reflexivity |]. split; [| reflexivity]. intros _.
    destruct p as [| k r]; [left; reflexivity | right].
    destruct (wf_inhabited q ck Hck (Hne ltac:(discriminate))) as (s & Hcs & Hm).
    exists s. split; [assumption |]. rewrite B. exact Hm.
Qed.

Theorem subtree_spec : forall q p t, wf q (TDict t) -> cleanp q p -> p <> [] ->
  (walk q p (TDict t) = Some None /\ forall s, memb q (p ++ s) (TDict t) = false) \/
  (exists ck, walk q p (TDict t) = Some (Some (TDict ck)) /\ wf q (TDict ck) /\
     forall s, In s (paths ck) <-> cleanp q s /\ memb q (p ++ s) (TDict t) = true).
Proof.
  intros q p t Hw Hc Hp. destruct (walk_memb q p t Hw Hc) as [H | (ck & A & Hck & _ & B)]; [left; exact H | right].
  exists ck. split; [assumption |]. split; [assumption |]. intros s. rewrite (paths_spec q ck s Hck), B. reflexivity.
Qed.

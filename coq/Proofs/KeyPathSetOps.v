(* KeyPathSetOps.v — add / remove / rebase on well-formed tries compute the set operations. *)
From PG Require Import Common.Tactics Model.KeyPath Proofs.KeyPathArith Proofs.KeyPathSetBase.

Lemma aset_aset : forall m v v0 l, aset m v (aset m v0 l) = aset m v l.
Proof.
  induction l as [| [m0 x] r IH]; simpl.
  - rewrite mkey_eqb_refl. reflexivity.
  - destruct (mkey_eqb m m0) eqn:E; simpl; rewrite E; [reflexivity | rewrite IH; reflexivity].
Qed.

Lemma aset_nonempty : forall m v l, aset m v l <> [].
Proof. destruct l as [| [m0 x] r]; simpl; [discriminate|]. destruct (mkey_eqb m m0); discriminate. Qed.

Lemma ahas_nonempty : forall m l, ahas m l = true -> l <> [].
Proof. intros m [| x r] H; [discriminate | discriminate]. Qed.

Lemma MK_neq : forall k k', k' <> k -> MK k <> MK k'.
Proof. congruence. Qed.

(* membership in a dict whose entry [MK k] was replaced *)
Lemma memb_aset_child : forall q k child' kids p',
  inj q k = MK k -> cleanp q p' ->
  memb q p' (TDict (aset (MK k) child' kids)) =
  match p' with
  | [] => ahas MTerm kids
  | k' :: r' => if key_eqb k' k then memb q r' child' else memb q p' (TDict kids)
  end.
Proof.
  intros q k child' kids p' Hk Hc. destruct p' as [| k' r']; cbn [memb].
  - unfold ahas. rewrite aget_aset_other by discriminate. reflexivity.
  - inv Hc. rewrite H1. destruct (key_eqb k' k) eqn:E.
    + apply key_eqb_eq in E. subst. rewrite aget_aset_same. reflexivity.
    + rewrite aget_aset_other; auto. intros F. inv F. rewrite key_eqb_refl in E. discriminate.
Qed.

(* ---- add(path) -------------------------------------------------------------------------------------------------- *)
Lemma add_spec : forall q p kids, wf q (TDict kids) -> cleanp q p ->
  exists kids',
    add_go q false p (TDict kids) = Some (TDict kids', negb (memb q p (TDict kids))) /\
    wf q (TDict kids') /\ kids' <> [] /\
    forall p', cleanp q p' -> memb q p' (TDict kids') = path_eqb p' p || memb q p' (TDict kids).
Proof.
  induction p as [| k r IH]; intros kids Hw Hc.
  - cbn [add_go memb]. destruct (ahas MTerm kids) eqn:E.
    + exists kids. split; [reflexivity |]. split; [exact Hw |]. split.
      * eapply ahas_nonempty; eauto.
      * intros [| k' r'] _; cbn [memb path_eqb]; [rewrite E |]; reflexivity.
    + exists (aset MTerm TTrue kids). split; [reflexivity |]. split; [| split].
      * apply wf_aset; auto. reflexivity.
      * apply aset_nonempty.
      * intros [| k' r'] Hp'; cbn [memb path_eqb orb].
        -- unfold ahas. rewrite aget_aset_same. reflexivity.
        -- inv Hp'. rewrite H1. rewrite aget_aset_other by discriminate. reflexivity.
  - inv Hc. rename H1 into Hk, H2 into Hr. cbn [add_go memb]. rewrite Hk.
    destruct (aget (MK k) kids) eqn:E.
    + destruct (wf_child _ _ _ _ Hw E) as (ck & -> & _ & Hck).
      destruct (IH ck Hck Hr) as (ck' & Hadd & Hw' & Hne & Hlaw).
      unfold ahas. rewrite ?E. cbn [negb andb]. rewrite ?E. rewrite Hadd.
      exists (aset (MK k) (TDict ck') kids). rewrite orb_false_r. split; [reflexivity |]. split; [| split].
      * apply wf_aset; auto. split; [exact Hk|]. split; [| exact Hw']. destruct ck'; [congruence | exact I].
      * apply aset_nonempty.
      * intros p' Hp'. rewrite memb_aset_child by auto.
        destruct p' as [| k' r']; cbn [path_eqb orb memb]; auto.
        inv Hp'. rewrite H1. destruct (key_eqb k' k) eqn:Ek; cbn [andb orb]; auto.
        apply key_eqb_eq in Ek. subst. rewrite E. apply Hlaw. assumption.
    + destruct (IH [] (wf_empty q) Hr) as (ck' & Hadd & Hw' & Hne & Hlaw).
      unfold ahas. rewrite ?E. cbn [negb andb]. rewrite aget_aset_same, Hadd. rewrite memb_empty. cbn [negb orb].
      rewrite aset_aset.
      exists (aset (MK k) (TDict ck') kids). split; [reflexivity |]. split; [| split].
      * apply wf_aset; auto. split; [exact Hk|]. split; [| exact Hw']. destruct ck'; [congruence | exact I].
      * apply aset_nonempty.
      * intros p' Hp'. rewrite memb_aset_child by auto.
        destruct p' as [| k' r']; cbn [path_eqb orb memb]; auto.
        inv Hp'. rewrite H1. destruct (key_eqb k' k) eqn:Ek; cbn [andb orb]; auto.
        apply key_eqb_eq in Ek. subst. rewrite E. rewrite (Hlaw r' H2), memb_empty. reflexivity.
Qed.

(* ---- remove(path) ----------------------------------------------------------------------------------------------- *)
Lemma memb_law_trivial : forall q p p' n, memb q p n = false ->
  memb q p' n = memb q p' n && negb (path_eqb p' p).
Proof.
  intros q p p' n H. destruct (path_eqb p' p) eqn:E.
  - apply path_eqb_eq in E. subst. rewrite H. reflexivity.
  - rewrite andb_true_r. reflexivity.
Qed.

Lemma remove_spec : forall q p kids, wf q (TDict kids) -> cleanp q p ->
  exists kids',
    remove_go q p (TDict kids) = Some (TDict kids', memb q p (TDict kids)) /\
    wf q (TDict kids') /\
    forall p', cleanp q p' -> memb q p' (TDict kids') = memb q p' (TDict kids) && negb (path_eqb p' p).
Proof.
  induction p as [| k r IH]; intros kids Hw Hc.
  - cbn [remove_go memb]. destruct (ahas MTerm kids) eqn:E.
    + exists (adel MTerm kids). split; [reflexivity |]. split; [apply wf_adel; assumption |].
      intros [| k' r'] Hp'; cbn [memb path_eqb negb].
      * unfold ahas. rewrite aget_adel_same; [rewrite andb_false_r; reflexivity |]. apply wf_dict in Hw. tauto.
      * inv Hp'. rewrite H1. rewrite aget_adel_other by discriminate. rewrite andb_true_r. reflexivity.
    + exists kids. split; [reflexivity |]. split; [assumption |].
      intros p' _. apply memb_law_trivial. exact E.
  - inv Hc. rename H1 into Hk, H2 into Hr. cbn [remove_go]. rewrite Hk.
    destruct (aget (MK k) kids) eqn:E.
    + destruct (wf_child _ _ _ _ Hw E) as (ck & -> & _ & Hck).
      destruct (IH ck Hck Hr) as (ck' & Hrem & Hw' & Hlaw). rewrite Hrem.
      assert (memb q (k :: r) (TDict kids) = memb q r (TDict ck)) as Hm by (cbn [memb]; rewrite Hk, E; reflexivity).
      rewrite Hm. destruct (memb q r (TDict ck)) eqn:M.
      * destruct ck' as [| x ck'']; cbn [node_empty].
        -- exists (adel (MK k) kids). split; [reflexivity |]. split; [apply wf_adel; assumption |].
           intros [| k' r'] Hp'; cbn [memb path_eqb negb].
           ++ unfold ahas. rewrite aget_adel_other by discriminate. rewrite andb_true_r. reflexivity.
           ++ inv Hp'. rewrite H1. destruct (key_eqb k' k) eqn:Ek.
              ** apply key_eqb_eq in Ek. subst. rewrite E. cbn [andb].
                 rewrite aget_adel_same by (apply wf_dict in Hw; tauto).
                 rewrite <- (Hlaw r' H2). rewrite memb_empty. reflexivity.
              ** rewrite aget_adel_other by (intros F; inv F; rewrite key_eqb_refl in Ek; discriminate).
                 cbn [andb negb]. rewrite andb_true_r. reflexivity.
        -- exists (aset (MK k) (TDict (x :: ck'')) kids). split; [reflexivity |]. split.
           ++ apply wf_aset; auto. split; [exact Hk |]. split; [exact I | exact Hw'].
           ++ intros p' Hp'. rewrite memb_aset_child by auto.
              destruct p' as [| k' r']; cbn [memb path_eqb negb]; [rewrite andb_true_r; reflexivity |].
              inv Hp'. rewrite H1. destruct (key_eqb k' k) eqn:Ek; cbn [andb negb].
              ** apply key_eqb_eq in Ek. subst. rewrite E. apply Hlaw. assumption.
              ** rewrite andb_true_r. reflexivity.
      * exists kids. split; [reflexivity |]. split; [assumption |].
        intros p' _. apply memb_law_trivial. exact Hm.
    + exists kids. split; [cbn [memb]; rewrite Hk, E; reflexivity |]. split; [assumption |].
      intros p' _. apply memb_law_trivial. cbn [memb]. rewrite Hk, E. reflexivity.
Qed.

(* ---- rebase(root_path) --------------------------------------------------------------------------------------------- *)
Definition sub_memb (q : quirks) (p' ks : list key) (t : trie) : bool :=
  match path_sub p' ks with inr r => memb q r (TDict t) | inl _ => false end.

Lemma rebase_fold_spec : forall q t ks, wf q (TDict t) -> t <> [] -> cleanp q ks ->
  let R := fold_right (fun k n => [(inj q k, TDict n)]) t ks in
  R <> [] /\ wf q (TDict R) /\ forall p', cleanp q p' -> memb q p' (TDict R) = sub_memb q p' ks t.
Proof.
  intros q t ks Hw Hne. induction ks as [| k ks' IH]; intros Hc; cbn [fold_right].
  - split; [assumption |]. split; [assumption |]. intros p' _. unfold sub_memb. destruct p'; reflexivity.
  - inv Hc. rename H1 into Hk, H2 into Hr. destruct (IH Hr) as (Rne & Rwf & Rlaw).
    set (R' := fold_right (fun k n => [(inj q k, TDict n)]) t ks') in *.
    rewrite Hk. split; [discriminate |]. split.
    + apply wf_dict. split.
      * repeat constructor. simpl. tauto.
      * constructor; [| constructor]. split; [exact Hk |]. split; [| exact Rwf].
        simpl. destruct R'; [congruence | exact I].
    + intros [| k' r'] Hp'; unfold sub_memb; cbn [memb path_sub]; rewrite ?Hk.
      * reflexivity.
      * inv Hp'. rewrite H1. cbn [aget mkey_eqb]. destruct (key_eqb k' k); [| reflexivity].
        apply Rlaw. assumption.
Qed.

Lemma rebase_spec : forall q t ks, wf q (TDict t) -> cleanp q ks ->
  wf q (TDict (rebase q ks t)) /\
  (rebase q ks t = [] <-> t = []) /\
  forall p', cleanp q p' -> memb q p' (TDict (rebase q ks t)) = sub_memb q p' ks t.
Proof.
  intros q t ks Hw Hc. destruct t as [| x t'].
  - cbn [rebase]. split; [apply wf_empty |]. split; [tauto |].
    intros p' _. rewrite memb_empty. unfold sub_memb. destruct (path_sub p' ks); [| rewrite memb_empty]; reflexivity.
  - assert (x :: t' <> []) as Hne by discriminate.
    destruct (rebase_fold_spec q (x :: t') ks Hw Hne Hc) as (A & B & C).
    cbn [rebase]. split; [exact B |]. split; [| exact C]. split; intros F; [contradiction | discriminate].
Qed.

(* TypingExtendFrozenBase.v — extending a frozen base: the child must be frozen to an == value; the
   result stays frozen to a value == the base's, so the base is compatible with it and accepts it. *)
From PG Require Import Common.Tactics Model.Typing Proofs.TypingBasics Proofs.TypingApply Proofs.TypingDict
                       Proofs.TypingApplyDict Proofs.TypingCompat Proofs.TypingExtend Proofs.TypingTheorems
                       Proofs.TypingExtendFrozen Proofs.TypingPyEq.
Local Open Scope Z_scope.
Local Arguments Z.mul : simpl never.

(* the frozen flag of the receiver only enters compat through frozen_ok (receiver not Enum / Union) *)
Lemma compat_unfreeze_l : forall q b s, is_enum b = false -> is_union b = false ->
  compat q b s = frozen_ok q (mods_of b) (mods_of s) && compat q (unfreeze b) s.
Proof.
  intros q b s E U. rewrite !compat_eq. unfold compat1.
  destruct b; try discriminate; cbn [unfreeze with_mods mods_of];
    rewrite (compat1_frozen_ok q (Mods (noneable m) (default m) false)) by reflexivity;
    destruct s; reflexivity.
Qed.

Lemma revalidate_cases : forall s c', revalidate (Ok s) = Ok c' ->
  (default (mods_of s) = None /\ c' = s) \/
  (exists d d', default (mods_of s) = Some d /\ apply true (unfreeze s) d = Ok d' /\ c' = set_default s (Some d')).
Proof.
  unfold revalidate. cbn [bind]. intros s c' H. destruct (default (mods_of s)) as [d|] eqn:D.
  - destruct (apply true (unfreeze s) d) as [d'|] eqn:A; inv H. right. eauto.
  - inv H. auto.
Qed.

(* a child frozen to an == value sees a frozen base exactly as it sees the unfrozen one *)
Lemma extend_in_unfreeze_base : forall q c b,
  q_frozen_recv q = false -> q_enum_base q = false ->
  no_schema b = true -> is_union b = false -> is_enum b = false ->
  frozen (mods_of c) = true -> frozen (mods_of b) = true ->
  py_eq (dflt (mods_of c)) (dflt (mods_of b)) = true ->
  extend_in q c b = extend_in q c (unfreeze b).
Proof.
  intros q c b Q2 Q5 NS U E Fc Fb PE.
  pose proof (py_eq_sym _ _ PE) as PE'.
  rewrite !extend_in_eq. unfold extend_in1, frozen_base_bad.
  assert (NB : noneable (mods_of (unfreeze b)) = noneable (mods_of b)) by apply noneable_unfreeze.
  destruct b; try discriminate; cbn [unfreeze with_mods mods_of is_enum is_any is_union] in *;
    rewrite ?Fb, ?Fc, ?PE; cbn [negb orb andb]; rewrite ?andb_false_r; cbn [bind];
    try reflexivity;
    destruct c; cbn [same_class is_enum orb andb negb] ; rewrite ?Q5; cbn [andb orb negb]; try reflexivity;
    cbn [mods_of] in *; try reflexivity.
  cbn [frozen noneable andb]. destruct (negb (noneable m) && noneable m0); [reflexivity|]. f_equal.
  cbn [extend_class]. rewrite !compat_eq. unfold compat1, frozen_ok. cbn [mods_of frozen noneable dflt default].
  rewrite Q2, Fb, Fc. cbn [negb orb andb].
  change (py_eq (match default m with Some d => d | None => PMissing end)
                (match default m0 with Some d => d | None => PMissing end)) with (py_eq (dflt m) (dflt m0)).
  rewrite PE'. reflexivity.
Qed.

(* the class-specific _extend keeps the mods of the child (no Dict schema on the base side) *)
Lemma extend_class_mods : forall q c b s, no_schema b = true -> extend_class q c b = Ok s -> mods_of s = mods_of c.
Proof.
  intros q c b s NS H. destruct c; cbn [extend_class] in H.
  - inv H; auto.
  - destruct b; try discriminate. destruct (number_extend lo hi lo0 hi0); inv H; auto.
  - destruct b; try discriminate. destruct (number_extend lo hi lo0 hi0); inv H; auto.
  - inv H; auto.
  - destruct (enum_go_inv _ _ _ _ H) as [E _]. subst. auto.
  - destruct b; try discriminate. destruct (listkey_extend mn mx mn0 mx0); simpl in H; try discriminate.
    destruct (extend_in q c b); inv H; auto.
  - destruct b; try discriminate.
    repeat match type of H with
    | (if ?x then _ else _) = _ => destruct x; try discriminate
    | (let? _ := ?x in _) = _ => destruct x; simpl in H; try discriminate
    | match ?x with _ => _ end = _ => destruct x; try discriminate
    end; inv H; auto.
  - destruct b; try discriminate. simpl in NS. destruct schema0; [discriminate|]. inv H; auto.
  - destruct (compat q b (SObj c m)); inv H; auto.
  - destruct (union_extend (extend_in q) b cs); inv H; auto.
  - inv H; auto.
Qed.

Theorem extend_frozen_base : forall q c b c',
  no_quirks q -> goodf c -> basef (unfreeze b) -> is_enum b = false ->
  frozen (mods_of c) = true -> frozen (mods_of b) = true ->
  total (dflt (mods_of c)) = true ->
  extend q c b = Ok c' ->
  compat q b c' = true /\ (forall v, total v = true -> conforms c' v -> accepts b v).
Proof.
  intros q c b c' NQ G B NE Fc Fb TD H.
  pose proof NQ as (Q1 & Q2 & Q3 & Q4 & Q5).
  pose proof B as (NUb & NSb & SZb & ENb & NFb).
  assert (NSb' : no_schema b = true) by (destruct b; auto).
  assert (Ub : is_union b = false) by (destruct b; auto; discriminate).
  (* the frozen check passed: the defaults are == *)
  unfold extend in H. rewrite Fb, Fc, NE in H. cbn [andb negb orb] in H.
  destruct (py_eq (dflt (mods_of c)) (dflt (mods_of b))) eqn:PE; cbn [negb andb] in H; [|discriminate].
  rewrite ?andb_false_r in H.
  rewrite (extend_in_unfreeze_base q c b Q2 Q5 NSb' Ub NE Fc Fb PE) in H.
  destruct (extend_compat_frozen q NQ c G (unfreeze b) c' B H) as [CU Gc'].
  (* the result is frozen to a value == the child's *)
  assert (FR : frozen (mods_of c') = true /\ py_eq (dflt (mods_of c)) (dflt (mods_of c')) = true).
  { pose proof H as HX. rewrite extend_in_eq in HX. unfold extend_in1, frozen_base_bad in HX.
    rewrite frozen_unfreeze in HX. cbn [andb] in HX.
    assert (NEu : is_enum (unfreeze b) = false) by (destruct b; auto).
    assert (Uu : is_union (unfreeze b) = false) by (destruct b; auto).
    rewrite NEu, Uu in HX. rewrite !andb_false_r in HX. cbn [bind] in HX.
    destruct (is_any (unfreeze b)). { inv HX. split; auto. apply py_eq_refl. }
    destruct (negb (same_class c (unfreeze b) || q_enum_base q && is_enum c)); [discriminate|].
    destruct (negb (noneable (mods_of (unfreeze b))) && noneable (mods_of c)); [discriminate|].
    destruct (extend_class q c (unfreeze b)) as [s|] eqn:EC; [|discriminate].
    assert (NSu : no_schema (unfreeze b) = true) by exact NSb.
    pose proof (extend_class_mods _ _ _ _ NSu EC) as MS.
    destruct (revalidate_cases _ _ HX) as [[D E]|[d [d' [D [A E]]]]]; subst c'.
    - rewrite MS. split; auto. apply py_eq_refl.
    - destruct (flags_set_default s (Some d')) as (A1 & A2 & _ & _ & _ & A6).
      rewrite A6, MS. split; auto. rewrite dflt_set_default.
      assert (DD : dflt (mods_of c) = d) by (unfold dflt; rewrite <- MS, D; reflexivity).
      rewrite DD in *.
      destruct Gc' as (NU' & NS' & _).
      rewrite A1 in NU'. rewrite A2 in NS'.
      eapply (apply_py_eq (unfreeze s)); eauto; unfold unfreeze.
      + rewrite no_union_with_mods; auto.
      + rewrite no_schema_with_mods; auto. }
  destruct FR as [Fc' PE2].
  assert (PB : py_eq (dflt (mods_of b)) (dflt (mods_of c')) = true).
  { eapply py_eq_trans; [apply py_eq_sym; exact PE | exact PE2]. }
  split.
  - rewrite compat_unfreeze_l; auto. rewrite CU, andb_true_r.
    unfold frozen_ok. rewrite Fb, Fc', PB. cbn. apply orb_true_r.
  - intros v T Cv. rewrite (conforms_frozen _ _ Fc' Cv).
    exists (dflt (mods_of b)). rewrite apply_eq. unfold pipeline. rewrite Fb, PB, orb_true_r. reflexivity.
Qed.

Example ex_frozen_base :
  let c := SInt (Some 1) None (Mods false (Some (PInt 3)) true) in
  let b := SInt None (Some 5) (Mods false (Some (PInt 3)) true) in
  goodf c /\ basef (unfreeze b) /\
  extend noq c b = Ok (SInt (Some 1) (Some 5) (Mods false (Some (PInt 3)) true)).
Proof.
  split; [|split].
  - unfold goodf. simpl. repeat split; auto; try (intros; vm_compute; reflexivity).
  - repeat split; reflexivity.
  - vm_compute. reflexivity.
Qed.

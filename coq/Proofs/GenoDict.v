(* GenoDict.v — dictionary views (property C12): addresses of decision points are unique, to_dict of the
   bound DNA of a valid decision lists the active decisions in order, from_dict reads them back. *)
From PG Require Import Common.Tactics Model.Geno Model.GenoViews Proofs.GenoBasics Proofs.GenoValid Proofs.GenoNext
  Proofs.GenoConcrete Proofs.GenoViewsProofs.

(* ---- addresses ---------------------------------------------------------------------------------------------- *)
Definition prefix (a b : addr) : Prop := exists t, b = a ++ t.
Lemma prefix_refl : forall a, prefix a a. Proof. intros a. exists []. rewrite app_nil_r. auto. Qed.
Lemma prefix_app : forall a t b, prefix (a ++ t) b -> prefix a b.
Proof. intros a t b [u ->]. exists (t ++ u). rewrite app_assoc. auto. Qed.
Lemma prefix_snoc_neq : forall a i j b, i <> j -> prefix (a ++ [i]) b -> ~ prefix (a ++ [j]) b.
Proof.
  intros a i j b Hij [t ->] [u E]. rewrite <- !app_assoc in E. apply app_inv_head in E. simpl in E. congruence.
Qed.

Lemma in_concat_mapi : forall A B (f : nat -> A -> list B) l k x,
  In x (concat (mapi f k l)) <-> exists i e, nth_error l i = Some e /\ In x (f (k + i) e).
Proof.
  induction l as [|a l IH]; intros k x; simpl.
  - split. intros []. intros (i & e & H & _). destruct i; discriminate.
  - rewrite in_app_iff, IH. split.
    + intros [H|(i & e & H1 & H2)].
      * exists 0, a. split; auto. rewrite Nat.add_0_r. auto.
      * exists (S i), e. split; auto. rewrite Nat.add_succ_r. auto.
    + intros (i & e & H1 & H2). destruct i.
      * inv H1. left. rewrite Nat.add_0_r in H2. auto.
      * right. exists i, e. split; auto. rewrite Nat.add_succ_r in H2. auto.
Qed.

(* every decision point listed below address a has an address extending a *)
Lemma dps_prefix_both :
  (forall s a pid i, In i (dps s a pid) -> prefix a (i_addr i)) /\
  (forall p a pid i, In i (dps_p p a pid) -> prefix a (i_addr i)).
Proof.
  apply dspec_dpoint_ind.
  - intros es IH a pid i Hin. simpl in Hin. apply in_concat_mapi in Hin as (j & e & He & Hin). simpl in Hin.
    eapply nth_error_Forall in IH; eauto. apply IH in Hin. eapply prefix_app; eauto.
  - intros k cands dist srt [loc name] lits IH a pid i Hin. simpl in Hin.
    assert (Hs : forall a' id' sub, prefix a a' ->
              In i ({| i_addr := a'; i_id := id'; i_name := name; i_kind := PKChoice (length cands) lits; i_sub := sub |}
                    :: concat (mapi (fun j c => dps c (a' ++ [j]) (id' ++ [KCond j (length cands)])) 0 cands)) ->
              prefix a (i_addr i)).
    { intros a' id' sub Hp [<-|Hin']. auto.
      apply in_concat_mapi in Hin' as (j & c & Hc & Hin'). simpl in Hin'.
      eapply nth_error_Forall in IH; eauto. apply IH in Hin'. destruct Hp as [t ->]. destruct Hin' as [u ->].
      exists (t ++ [j] ++ u). rewrite !app_assoc. auto. }
    destruct (k =? 1).
    + eapply Hs; eauto. apply prefix_refl.
    + apply in_concat in Hin as [l [Hl Hin]]. apply in_map_iff in Hl as [j [<- Hj]].
      eapply Hs; eauto. exists [j]. auto.
  - intros lo hi [loc name] a pid i [<-|[]]. apply prefix_refl.
  - intros [loc name] a pid i [<-|[]]. apply prefix_refl.
Qed.

Lemma NoDup_addr_app : forall (l1 l2 : list dpinfo),
  NoDup (map i_addr l1) -> NoDup (map i_addr l2) ->
  (forall x y, In x l1 -> In y l2 -> i_addr x <> i_addr y) -> NoDup (map i_addr (l1 ++ l2)).
Proof.
  induction l1 as [|x l1 IH]; intros l2 H1 H2 Hd; simpl; auto. inv H1. constructor.
  - rewrite map_app, in_app_iff. intros [Hin|Hin]; auto.
    apply in_map_iff in Hin as [y [Ey Hy]]. apply (Hd x y); [simpl; auto | exact Hy | congruence].
  - apply IH; auto. intros; apply Hd; simpl; auto.
Qed.

Lemma nodup_mapi : forall A (f : nat -> A -> list dpinfo) a l k,
  (forall i e, nth_error l i = Some e ->
     NoDup (map i_addr (f (k + i) e)) /\ forall x, In x (f (k + i) e) -> prefix (a ++ [k + i]) (i_addr x)) ->
  NoDup (map i_addr (concat (mapi f k l))).
Proof.
  induction l as [|e l IH]; intros k H; simpl. constructor.
  destruct (H 0 e eq_refl) as [Hn Hp]. rewrite Nat.add_0_r in *.
  apply NoDup_addr_app; auto.
  - apply IH. intros i e' He'. specialize (H (S i) e' He'). rewrite Nat.add_succ_r in H. exact H.
  - intros x y Hx Hy E. apply in_concat_mapi in Hy as (i & e' & He' & Hy).
    destruct (H (S i) e' He') as [_ Hp']. rewrite Nat.add_succ_r in Hp'.
    apply Hp in Hx. apply Hp' in Hy. rewrite E in Hx.
    eapply (prefix_snoc_neq a k (S (k + i))); eauto. lia.
Qed.

Lemma nodup_map_seq : forall (g : nat -> list dpinfo) a len s,
  (forall j, s <= j < s + len -> NoDup (map i_addr (g j)) /\ forall x, In x (g j) -> prefix (a ++ [j]) (i_addr x)) ->
  NoDup (map i_addr (concat (map g (seq s len)))).
Proof.
  induction len; intros s H; simpl. constructor.
  destruct (H s ltac:(lia)) as [Hn Hp]. apply NoDup_addr_app; auto.
  - apply IHlen. intros j Hj. apply H. lia.
  - intros x y Hx Hy E. apply in_concat in Hy as [l [Hl Hy]]. apply in_map_iff in Hl as [j [<- Hj]].
    apply in_seq in Hj. destruct (H j ltac:(lia)) as [_ Hp']. apply Hp in Hx. apply Hp' in Hy. rewrite E in Hx.
    eapply (prefix_snoc_neq a s j); eauto. lia.
Qed.

Lemma prefix_longer_neq : forall a t x, prefix (a ++ t) x -> t <> [] -> x <> a.
Proof.
  intros a t x [u ->] Ht E. rewrite <- app_assoc in E. rewrite <- (app_nil_r a) in E at 2.
  apply app_inv_head in E. destruct t; [congruence|discriminate].
Qed.

Lemma dps_nodup_both :
  (forall s a pid, NoDup (map i_addr (dps s a pid))) /\
  (forall p a pid, NoDup (map i_addr (dps_p p a pid))).
Proof.
  apply dspec_dpoint_ind.
  - intros es IH a pid. simpl. apply nodup_mapi with (a := a). intros i e He. simpl.
    split. eapply nth_error_Forall in IH; eauto. intros x Hx. eapply (proj2 dps_prefix_both); eauto.
  - intros k cands dist srt [loc name] lits IH a pid. simpl.
    assert (Hs : forall a' id' sub,
              NoDup (map i_addr ({| i_addr := a'; i_id := id'; i_name := name; i_kind := PKChoice (length cands) lits; i_sub := sub |}
                    :: concat (mapi (fun j c => dps c (a' ++ [j]) (id' ++ [KCond j (length cands)])) 0 cands)))).
    { intros a' id' sub. simpl. constructor.
      - intros Hin. apply in_map_iff in Hin as [x [Ex Hx]]. apply in_concat_mapi in Hx as (j & c & Hc & Hx). simpl in Hx.
        apply (proj1 dps_prefix_both) in Hx. eapply prefix_longer_neq; eauto. discriminate.
      - apply nodup_mapi with (a := a'). intros j c Hc. simpl. split.
        + eapply nth_error_Forall in IH; eauto.
        + intros x Hx. eapply (proj1 dps_prefix_both); eauto. }
    destruct (k =? 1). apply Hs.
    apply nodup_map_seq with (a := a). intros j Hj. split. apply Hs.
    intros x [<-|Hx]. apply prefix_refl.
    apply in_concat_mapi in Hx as (j' & c & Hc & Hx). simpl in Hx.
    apply (proj1 dps_prefix_both) in Hx. eapply prefix_app; eauto.
  - intros lo hi [loc name] a pid. simpl. repeat constructor. auto.
  - intros [loc name] a pid. simpl. repeat constructor. auto.
Qed.

Lemma info_at_found : forall infos i, NoDup (map i_addr infos) -> In i infos -> info_at infos (i_addr i) = Some i.
Proof.
  induction infos as [|x infos IH]; intros i Hn Hin. inv Hin. inv Hn. unfold info_at in *. simpl.
  destruct Hin as [->|Hin].
  - unfold addr_eqb. destruct (list_eq_dec Nat.eq_dec (i_addr i) (i_addr i)); [reflexivity|contradiction].
  - unfold addr_eqb. destruct (list_eq_dec Nat.eq_dec (i_addr x) (i_addr i)) as [E|E].
    + exfalso. apply H1. rewrite E. apply in_map; auto.
    + apply IH; auto.
Qed.

(* ---- looking an address up in a list of blocks separated by their prefixes ------------------------------- *)
Lemma info_at_app : forall l1 l2 a, info_at (l1 ++ l2) a = match info_at l1 a with Some i => Some i | None => info_at l2 a end.
Proof. unfold info_at. induction l1; intros; simpl; auto. destruct (addr_eqb (i_addr a) a0); auto. Qed.
Lemma info_at_none : forall l a, (forall i, In i l -> i_addr i <> a) -> info_at l a = None.
Proof.
  unfold info_at. induction l; intros a' H; simpl; auto.
  unfold addr_eqb at 1. destruct (list_eq_dec Nat.eq_dec (i_addr a) a') as [E|E].
  - exfalso. eapply H; eauto. simpl; auto.
  - apply IHl. intros; apply H; simpl; auto.
Qed.
Lemma prefix_conflict : forall a i j x, i <> j -> prefix (a ++ [i]) x -> prefix (a ++ [j]) x -> False.
Proof. intros. eapply prefix_snoc_neq; eauto. Qed.

(* the infos agree with a local block on every address below a *)
Definition agree (infos blk : list dpinfo) (a : addr) : Prop :=
  forall a', prefix a a' -> info_at infos a' = info_at blk a'.

Lemma agree_mapi : forall A (f : nat -> A -> list dpinfo) a l k j e,
  (forall i e, nth_error l i = Some e -> forall x, In x (f (k + i) e) -> prefix (a ++ [k + i]) (i_addr x)) ->
  nth_error l j = Some e ->
  agree (concat (mapi f k l)) (f (k + j) e) (a ++ [k + j]).
Proof.
  induction l as [|e0 l IH]; intros k j e Hp Hj a' Ha'. destruct j; discriminate.
  simpl. rewrite info_at_app. destruct j.
  - inv Hj. rewrite Nat.add_0_r in *. destruct (info_at (f k e) a') eqn:E; auto.
    apply info_at_none. intros i Hi Ei. apply in_concat_mapi in Hi as (i' & e' & He' & Hi).
    replace (S k + i') with (k + S i') in Hi by lia.
    specialize (Hp (S i') e' He' _ Hi). rewrite Ei in Hp.
    eapply (prefix_conflict a k (k + S i')); eauto. lia.
  - rewrite info_at_none.
    + replace (k + S j) with (S k + j) in * by lia. apply (IH (S k) j e); auto.
      intros i e' He' x Hx. replace (S k + i) with (k + S i) in * by lia. apply (Hp (S i) e' He' x); auto.
    + intros i Hi Ei. specialize (Hp 0 e0 eq_refl i). rewrite Nat.add_0_r in Hp. specialize (Hp Hi). rewrite Ei in Hp.
      eapply (prefix_conflict a k (k + S j)); eauto. lia.
Qed.

Lemma agree_map_seq : forall (g : nat -> list dpinfo) a len s j,
  (forall i, s <= i < s + len -> forall x, In x (g i) -> prefix (a ++ [i]) (i_addr x)) ->
  s <= j < s + len ->
  agree (concat (map g (seq s len))) (g j) (a ++ [j]).
Proof.
  induction len; intros s j Hp Hj a' Ha'. lia.
  simpl. rewrite info_at_app. destruct (Nat.eq_dec s j) as [->|Hne].
  - destruct (info_at (g j) a') eqn:E; auto.
    apply info_at_none. intros i Hi Ei. apply in_concat in Hi as [l [Hl Hi]]. apply in_map_iff in Hl as [i' [<- Hi']].
    apply in_seq in Hi'. specialize (Hp i' ltac:(lia) _ Hi). rewrite Ei in Hp.
    eapply (prefix_conflict a j i'); eauto. lia.
  - rewrite info_at_none.
    + apply (IHlen (S s) j); auto. intros; apply Hp; auto; lia. lia.
    + intros i Hi Ei. specialize (Hp s ltac:(lia) _ Hi). rewrite Ei in Hp.
      eapply (prefix_conflict a s j); eauto.
Qed.

Lemma agree_trans : forall infos blk blk' a a', agree infos blk a -> prefix a a' -> agree blk blk' a' -> agree infos blk' a'.
Proof.
  intros infos blk blk' a a' H1 Hp H2 x Hx. rewrite H1. apply H2; auto.
  destruct Hp as [t ->]. destruct Hx as [u ->]. exists (t ++ u). rewrite app_assoc. auto.
Qed.

(* ---- the active decisions of a valid decision, in the order to_dict visits them ---------------------------- *)
Inductive aval := AChoice (c : nat) | AFlt (f : flt) | AStr (s : str).
Definition mapi2 {A B C} (f : nat -> A -> B -> C) : nat -> list A -> list B -> list C :=
  fix go i l1 l2 := match l1, l2 with a :: r1, b :: r2 => f i a b :: go (S i) r1 r2 | _, _ => [] end.
Fixpoint acts (s : dspec) (a : addr) (sd : sdna) {struct s} : list (addr * aval) :=
  match s, sd with Space es, SSpace ds => concat (mapi2 (fun i e x => acts_p e (a ++ [i]) x) 0 es ds) end
with acts_p (p : dpoint) (a : addr) (x : pdna) {struct p} : list (addr * aval) :=
  match p, x with
  | Choices k cands _ _ _ _, PChoices cs =>
      let single := fun (a' : addr) (cs0 : nat * sdna) =>
        (a', AChoice (fst cs0)) :: with_nth (fun sc => acts sc (a' ++ [fst cs0]) (snd cs0)) [] cands (fst cs0) in
      if k =? 1 then match cs with [cs0] => single a cs0 | _ => [] end
      else concat (mapi (fun i cs0 => single (a ++ [i]) cs0) 0 cs)
  | FloatP _ _ _, PFloat f => [(a, AFlt f)]
  | CustomP _, PCustom s => [(a, AStr s)]
  | _, _ => []
  end.

Definition put1 (infos : list dpinfo) (kt : key_type) (vt : value_type) (d : dict) (e : addr * aval) : dict :=
  match info_at infos (fst e) with
  | Some i =>
      let k := key_of kt (i_id i) (i_name i) (fst e) in
      match snd e, i_kind i with
      | AChoice c, PKChoice n lits => dput d k (format_candidate vt n lits c (D VNone []))
      | AFlt f, _ => dput d k (LfV (VFlt f))
      | AStr s, _ => dput d k (LfV (VStr s))
      | _, _ => d
      end
  | None => d
  end.
Definition puts infos kt vt (es : list (addr * aval)) (d : dict) : dict := fold_left (put1 infos kt vt) es d.
Lemma puts_app : forall infos kt vt l1 l2 d, puts infos kt vt (l1 ++ l2) d = puts infos kt vt l2 (puts infos kt vt l1 d).
Proof. intros. unfold puts. apply fold_left_app. Qed.

(* ---- to_dict of a bound valid decision ----------------------------------------------------------------------- *)
Lemma dump_unfold : forall infos kt vt m v sp kids d,
  dump infos kt vt m (B v sp kids) d =
  fold_left (fun acc c => dump infos kt vt m c acc) kids
    (match sp with
     | None => d
     | Some a =>
       match info_at infos a with
       | None => d
       | Some i =>
         let k := key_of kt (i_id i) (i_name i) a in
         match i_kind i with
         | PKChoice n lits =>
             match v with
             | VInt z =>
                 let x := format_candidate vt n lits (Z.to_nat z) (strip (B v sp kids)) in
                 match i_sub i with
                 | Some (_, pa, pid) =>
                     let d' := if use_parent m then dput d (key_of kt pid (i_name i) pa) x else d in
                     if needs_subchoice_key kt m (i_name i) then dput d' k x else d'
                 | None => dput d k x
                 end
             | _ => d
             end
         | _ => dput d k (match vt with VT_dna => LfDna (strip (B v sp kids)) | _ => LfV v end)
         end
       end
     end).
Proof. reflexivity. Qed.

Lemma info_at_head : forall i rest, info_at (i :: rest) (i_addr i) = Some i.
Proof.
  intros. unfold info_at. simpl. unfold addr_eqb.
  destruct (list_eq_dec Nat.eq_dec (i_addr i) (i_addr i)); [reflexivity|contradiction].
Qed.
Lemma info_at_skip : forall i rest a, i_addr i <> a -> info_at (i :: rest) a = info_at rest a.
Proof.
  intros. unfold info_at. simpl. unfold addr_eqb.
  destruct (list_eq_dec Nat.eq_dec (i_addr i) a); [contradiction|reflexivity].
Qed.

(* the block of one single choice (a sub-choice of a multi-choice, or a single choice itself) *)
Definition single_block (cands : list dspec) (name : option str) (lits : list lit) (a' : addr) (id' : did)
  (sub : option (nat * addr * did)) : list dpinfo :=
  {| i_addr := a'; i_id := id'; i_name := name; i_kind := PKChoice (length cands) lits; i_sub := sub |}
  :: concat (mapi (fun j c => dps c (a' ++ [j]) (id' ++ [KCond j (length cands)])) 0 cands).
Lemma dps_p_choices_unfold : forall k cands dist srt loc name lits a pid,
  dps_p (Choices k cands dist srt (loc, name) lits) a pid =
  if k =? 1 then single_block cands name lits a (pid ++ loc) None
  else concat (map (fun i => single_block cands name lits (a ++ [i]) (pid ++ loc ++ [KIdx i]) (Some (i, a, pid ++ loc))) (seq 0 k)).
Proof. intros. simpl. unfold single_block. destruct (k =? 1); auto. f_equal. apply map_ext. intros i. rewrite <- app_assoc. reflexivity. Qed.
Lemma single_block_prefix : forall cands name lits a' id' sub x,
  In x (single_block cands name lits a' id' sub) -> prefix a' (i_addr x).
Proof.
  intros cands name lits a' id' sub x [<-|Hx]. apply prefix_refl.
  apply in_concat_mapi in Hx as (j & c & Hc & Hx). simpl in Hx. apply (proj1 dps_prefix_both) in Hx. eapply prefix_app; eauto.
Qed.
Lemma agree_single_cand : forall infos cands name lits a' id' sub c sc,
  agree infos (single_block cands name lits a' id' sub) a' -> nth_error cands c = Some sc ->
  agree infos (dps sc (a' ++ [c]) (id' ++ [KCond c (length cands)])) (a' ++ [c]).
Proof.
  intros infos cands name lits a' id' sub c sc Ha Hc.
  eapply agree_trans; [exact Ha | exists [c]; reflexivity |].
  intros a'' Hp. unfold single_block. rewrite info_at_skip.
  - apply (agree_mapi _ (fun j c0 => dps c0 (a' ++ [j]) (id' ++ [KCond j (length cands)])) a' cands 0 c sc); auto.
    intros i e He x Hx. simpl in *. eapply (proj1 dps_prefix_both); eauto.
  - simpl. intros E. subst a''. destruct Hp as [t Ht]. rewrite <- app_assoc in Ht.
    rewrite <- (app_nil_r a') in Ht at 1. apply app_inv_head in Ht. discriminate.
Qed.
Lemma multi_addr_none : forall infos k cands dist srt loc name lits a pid,
  (k =? 1) = false -> agree infos (dps_p (Choices k cands dist srt (loc, name) lits) a pid) a -> info_at infos a = None.
Proof.
  intros infos k cands dist srt loc name lits a pid Hk Ha. rewrite (Ha a (prefix_refl a)).
  rewrite dps_p_choices_unfold, Hk. apply info_at_none. intros i Hi.
  apply in_concat in Hi as [l [Hl Hi]]. apply in_map_iff in Hl as [j [<- Hj]].
  apply single_block_prefix in Hi. eapply prefix_longer_neq; eauto. discriminate.
Qed.
Lemma format_candidate_irrel : forall vt n lits c d1 d2, vt <> VT_dna ->
  format_candidate vt n lits c d1 = format_candidate vt n lits c d2.
Proof. intros. destruct vt; try reflexivity. congruence. Qed.

Lemma fold_bind_all : forall A X (f : nat -> A -> dna -> option bdna) (nrm : X -> dna)
  (g : nat -> A -> X -> list (addr * aval)) (dumpf : bdna -> dict -> dict) (putsf : list (addr * aval) -> dict -> dict),
  (forall l1 l2 d, putsf (l1 ++ l2) d = putsf l2 (putsf l1 d)) -> (forall d, putsf [] d = d) ->
  forall es xs i bs d0, bind_all f i es (map nrm xs) = Some bs ->
  (forall j e x b d, nth_error es j = Some e -> nth_error xs j = Some x -> f (i + j) e (nrm x) = Some b ->
                     dumpf b d = putsf (g (i + j) e x) d) ->
  fold_left (fun acc c => dumpf c acc) bs d0 = putsf (concat (mapi2 g i es xs)) d0.
Proof.
  intros A X f nrm g dumpf putsf Happ Hnil. induction es as [|e es IH]; intros [|x xs] i bs d0 Hb H; simpl in Hb; try discriminate.
  - inv Hb. simpl. rewrite Hnil. reflexivity.
  - destruct (f i e (nrm x)) as [b|] eqn:E; [|discriminate].
    destruct (bind_all f (S i) es (map nrm xs)) as [bs'|] eqn:E2; [|discriminate]. inv Hb.
    simpl. rewrite Happ. pose proof (H 0 e x b d0 eq_refl eq_refl) as H0. rewrite Nat.add_0_r in H0.
    rewrite <- (H0 E). apply IH; auto.
    intros j e' x' b' d He' Hx' Hf. replace (S i + j) with (i + S j) in * by lia. apply (H (S j) e' x' b' d); auto.
Qed.

Section Dump.
  Variables (q : quirks) (infos : list dpinfo) (kt : key_type) (vt : value_type).
  Hypothesis Hvt : vt <> VT_dna.
  Notation dumpf := (dump infos kt vt MC_subchoice).
  Notation putsf := (puts infos kt vt).

  Lemma putsf_nil : forall d, putsf [] d = d. Proof. reflexivity. Qed.

  Lemma dump_both :
    (forall s, wf s = true -> forall sd a bs pid d0, valid s sd = true ->
       bind_kids q s a (unwrap (normalize sd)) = Some bs -> agree infos (dps s a pid) a ->
       fold_left (fun acc c => dumpf c acc) bs d0 = putsf (acts s a sd) d0) /\
    (forall p, wf_p p = true -> forall x a b pid d0, valid_p p x = true ->
       bind_p q p a (norm_p x) = Some b -> agree infos (dps_p p a pid) a ->
       dumpf b d0 = putsf (acts_p p a x) d0).
  Proof.
    apply dspec_dpoint_ind.
    - (* Space *)
      intros es IH Hwf [ds] a bs pid d0 Hv Hb Hag. simpl in Hwf. pose proof Hv as Hv0. simpl in Hv. apply forallb2_Forall2 in Hv.
      rewrite (shape_s es ds Hwf Hv) in Hb. rewrite bind_kids_unfold in Hb.
      pose proof (Forall2_len _ _ _ _ _ Hv) as Hl.
      (* the infos agree with the block of every element *)
      assert (Hel : forall j e, nth_error es j = Some e -> agree infos (dps_p e (a ++ [j]) pid) (a ++ [j])).
      { intros j e He. eapply agree_trans; [exact Hag | exists [j]; reflexivity |].
        simpl. apply (agree_mapi _ (fun i e0 => dps_p e0 (a ++ [i]) pid) a es 0 j e); auto.
        intros i e0 He0 x Hx. simpl in *. eapply (proj2 dps_prefix_both); eauto. }
      destruct es as [|e [|e2 es]]; destruct ds as [|x [|y r]]; simpl in Hl; try lia.
      + simpl in Hb. inv Hb. reflexivity.
      + inversion Hv as [|? ? ? ? He _]; subst. simpl in Hwf. rewrite andb_true_r in Hwf.
        apply Forall_cons_iff in IH as [IHe _].
        change (acts (Space [e]) a (SSpace [x])) with (acts_p e (a ++ [0]) x ++ []). rewrite app_nil_r.
        destruct (unwrap_multi e x Hwf He) as [[Em En]|[Em En]]; rewrite Em in Hb.
        * rewrite En in Hb. destruct (bind_p q e (a ++ [0]) (norm_p x)) as [b|] eqn:Eb; [|discriminate]. inv Hb.
          rewrite <- (IHe Hwf x (a ++ [0]) b pid d0 He Eb (Hel 0 e eq_refl)).
          (* the node of the multi-choice itself contributes nothing *)
          destruct e as [k cands dist srt [loc name] lits| |]; try discriminate. unfold is_multi in Em. apply negb_true_iff in Em.
          rewrite bind_p_choices_unfold, Em in Eb.
          destruct (negb (is_none (Geno.dvalue (norm_p x)))); [discriminate|].
          destruct (bind_all _ 0 (seq 0 k) (dkids (norm_p x))) as [ks|]; [|discriminate].
          cbv zeta in Eb. destruct (_ && _); [|discriminate]. inv Eb.
          rewrite dump_unfold. rewrite (multi_addr_none infos k cands dist srt loc name lits (a ++ [0]) pid Em (Hel 0 _ eq_refl)).
          reflexivity.
        * rewrite En in Hb. destruct (bind_p q e (a ++ [0]) (norm_p x)) as [b|] eqn:Eb; [|discriminate]. inv Hb.
          simpl. apply (IHe Hwf x (a ++ [0]) b pid d0 He Eb (Hel 0 e eq_refl)).
      + cbn [unwrap] in Hb.
        apply (fold_bind_all _ _ (fun i e0 d => bind_p q e0 (a ++ [i]) d) norm_p (fun i e0 x0 => acts_p e0 (a ++ [i]) x0) dumpf putsf
                 (puts_app infos kt vt) putsf_nil (e :: e2 :: es) (x :: y :: r) 0 bs d0 Hb).
        intros j e' x' b d He' Hx' Hf. simpl in Hf.
        rewrite Forall_forall in IH. rewrite forallb_forall in Hwf.
        apply (IH e' (nth_error_In _ _ He') (Hwf e' (nth_error_In _ _ He')) x' (a ++ [j]) b pid d); auto.
        * clear - Hv He' Hx'. revert j He' Hx'. induction Hv; intros [|j] He' Hx'; simpl in *; try discriminate.
          inv He'; inv Hx'; auto. eapply IHHv; eauto.
    - (* Choices *)
      intros k cands dist srt [loc name] lits IH Hwf x a b pid d0 Hv Hb Hag.
      pose proof (shape_p _ x Hwf Hv) as Hs. cbv beta iota in Hs.
      pose proof Hwf as Hwf0. apply wf_p_choices in Hwf as (Hk & Hn & Hdk & Hwc).
      rewrite dps_p_choices_unfold in Hag.
      (* one choice node *)
      assert (Hsingle : forall a' id' sub c sb b' d,
                c < length cands -> with_nth (fun s => valid s sb) false cands c = true ->
                single_bind q cands a' (D (vint c) (unwrap (normalize sb))) = Some b' ->
                agree infos (single_block cands name lits a' id' sub) a' ->
                dumpf b' d = putsf ((a', AChoice c) :: with_nth (fun sc => acts sc (a' ++ [c]) sb) [] cands c) d).
      { intros a' id' sub c sb b' d Hc Hvs Hsb Ha'. unfold single_bind in Hsb. cbn [Geno.dvalue dkids] in Hsb.
        rewrite index_of_vint in Hsb by auto. rewrite with_nth_nth_error in *.
        destruct (nth_error cands c) as [sc|] eqn:E; [|discriminate].
        destruct (bind_kids q sc (a' ++ [c]) (unwrap (normalize sb))) as [ks|] eqn:Ek; [|discriminate]. inv Hsb.
        rewrite dump_unfold. rewrite (Ha' a' (prefix_refl a')). unfold single_block at 1. rewrite info_at_head.
        cbv zeta. cbn [i_kind i_sub i_id i_name].
        assert (Ed : forall dd, (match sub with
                      | Some (_, pa, pid0) =>
                          let d' := if use_parent MC_subchoice then dput dd (key_of kt pid0 name pa) (format_candidate vt (length cands) lits (Z.to_nat (Z.of_nat c)) (strip (B (vint c) (Some a') ks))) else dd in
                          if needs_subchoice_key kt MC_subchoice name then dput d' (key_of kt id' name a') (format_candidate vt (length cands) lits (Z.to_nat (Z.of_nat c)) (strip (B (vint c) (Some a') ks))) else d'
                      | None => dput dd (key_of kt id' name a') (format_candidate vt (length cands) lits (Z.to_nat (Z.of_nat c)) (strip (B (vint c) (Some a') ks)))
                      end) = dput dd (key_of kt id' name a') (format_candidate vt (length cands) lits c (D VNone []))).
        { intros dd. rewrite Nat2Z.id. rewrite (format_candidate_irrel vt _ _ _ _ (D VNone []) Hvt).
          destruct sub as [[[? ?] ?]|]; [|reflexivity]. simpl. destruct kt; reflexivity. }
        unfold vint at 1. rewrite Ed.
        rewrite forallb_forall in Hwc. eapply nth_error_Forall in IH; eauto.
        rewrite (IH (Hwc sc (nth_error_In _ _ E)) sb (a' ++ [c]) ks (id' ++ [KCond c (length cands)]) _ Hvs Ek
                    (agree_single_cand infos cands name lits a' id' sub c sc Ha' E)).
        unfold puts at 2. simpl fold_left. unfold put1 at 2. cbn [fst snd].
        rewrite (Ha' a' (prefix_refl a')). unfold single_block. rewrite info_at_head. cbn [i_kind i_id i_name]. reflexivity. }
      rewrite bind_p_choices_unfold in Hb.
      destruct (k =? 1) eqn:Ek.
      + destruct Hs as (c & sb & -> & Hn1). rewrite Hn1, node_eq in Hb.
        apply valid_p_choices in Hv as [_ [[_ Hbd] Hf]].
        apply Forall_cons_iff in Hbd as [Hbd _]. apply Forall_cons_iff in Hf as [Hf _]. simpl in Hbd, Hf.
        change (acts_p (Choices k cands dist srt (loc, name) lits) a (PChoices [(c, sb)])) with
          (if k =? 1 then (a, AChoice c) :: with_nth (fun sc => acts sc (a ++ [c]) sb) [] cands c else
             concat (mapi (fun i (cs0 : nat * sdna) => (a ++ [i], AChoice (fst cs0)) :: with_nth (fun sc => acts sc ((a ++ [i]) ++ [fst cs0]) (snd cs0)) [] cands (fst cs0)) 0 [(c, sb)])).
        rewrite Ek. eapply Hsingle; eauto.
      + destruct Hs as (cs & -> & Hlen & Hn2). rewrite Hn2 in Hb.
        apply valid_p_choices in Hv as [_ [[_ Hbd] Hf]].
        cbn [Geno.dvalue dkids is_none negb] in Hb.
        set (node := fun cs0 : nat * sdna => mk (VInt (Z.of_nat (fst cs0))) [normalize (snd cs0)]) in *.
        destruct (bind_all (fun i (_ : nat) d' => single_bind q cands (a ++ [i]) d') 0 (seq 0 k) (map node cs)) as [ks|] eqn:Ea; [|discriminate].
        cbv zeta in Hb. destruct (_ && _); [|discriminate]. injection Hb as <-.
        rewrite dump_unfold.
        rewrite (multi_addr_none infos k cands dist srt loc name lits a pid Ek
                   ltac:(rewrite dps_p_choices_unfold, Ek; exact Hag)).
        change (acts_p (Choices k cands dist srt (loc, name) lits) a (PChoices cs)) with
          (if k =? 1 then match cs with [cs0] => (a, AChoice (fst cs0)) :: with_nth (fun sc => acts sc (a ++ [fst cs0]) (snd cs0)) [] cands (fst cs0) | _ => [] end else
             concat (mapi (fun i (cs0 : nat * sdna) => (a ++ [i], AChoice (fst cs0)) :: with_nth (fun sc => acts sc ((a ++ [i]) ++ [fst cs0]) (snd cs0)) [] cands (fst cs0)) 0 cs)).
        rewrite Ek.
        (* mapi over cs = mapi2 over (seq 0 k, cs) *)
        assert (Em : forall (l : list (nat * sdna)) s0,
                  mapi (fun i (cs0 : nat * sdna) => (a ++ [i], AChoice (fst cs0)) :: with_nth (fun sc => acts sc ((a ++ [i]) ++ [fst cs0]) (snd cs0)) [] cands (fst cs0)) s0 l =
                  mapi2 (fun i (_ : nat) (cs0 : nat * sdna) => (a ++ [i], AChoice (fst cs0)) :: with_nth (fun sc => acts sc ((a ++ [i]) ++ [fst cs0]) (snd cs0)) [] cands (fst cs0)) s0 (seq s0 (length l)) l).
        { induction l; intros s0; simpl; auto. f_equal. apply IHl. }
        rewrite Em, Hlen.
        apply (fold_bind_all _ _ (fun i (_ : nat) d' => single_bind q cands (a ++ [i]) d') node _ dumpf putsf
                 (puts_app infos kt vt) putsf_nil (seq 0 k) cs 0 ks d0 Ea).
        intros j e' [c sb] b' d He' Hx' Hsb. simpl in Hsb. unfold node in Hsb. cbn [fst snd] in *. rewrite node_eq in Hsb.
        rewrite Forall_forall in Hbd, Hf.
        assert (Hin : In (c, sb) cs) by (eapply nth_error_In; eauto).
        eapply (Hsingle (a ++ [j]) (pid ++ loc ++ [KIdx j]) (Some (j, a, pid ++ loc))); eauto.
        * apply (Hbd c). apply in_map_iff. exists (c, sb). auto.
        * apply (Hf (c, sb)); auto.
        * assert (Hj : j < k). { rewrite <- Hlen. apply nth_error_Some. rewrite Hx'. discriminate. }
          eapply agree_trans; [exact Hag | exists [j]; reflexivity |].
          apply (agree_map_seq (fun i => single_block cands name lits (a ++ [i]) (pid ++ loc ++ [KIdx i]) (Some (i, a, pid ++ loc))) a k 0 j).
          -- intros i Hi y Hy. eapply single_block_prefix; eauto.
          -- lia.
    - (* Float *)
      intros lo hi [loc name] Hwf x a b pid d0 Hv Hb Hag. destruct x; try discriminate. simpl in Hb.
      destruct (_ && _); [|discriminate]. inv Hb. rewrite dump_unfold. simpl fold_left.
      rewrite (Hag a (prefix_refl a)). simpl dps_p. rewrite info_at_head. cbv zeta. cbn [i_kind i_id i_name].
      unfold puts. simpl. unfold put1. cbn [fst snd]. rewrite (Hag a (prefix_refl a)). simpl dps_p. rewrite info_at_head.
      cbn [i_kind i_id i_name]. destruct vt; try reflexivity. congruence.
    - intros [loc name] Hwf x a b pid d0 Hv Hb Hag. destruct x; try discriminate. simpl in Hb. inv Hb.
      rewrite dump_unfold. simpl fold_left.
      rewrite (Hag a (prefix_refl a)). simpl dps_p. rewrite info_at_head. cbv zeta. cbn [i_kind i_id i_name].
      unfold puts. simpl. unfold put1. cbn [fst snd]. rewrite (Hag a (prefix_refl a)). simpl dps_p. rewrite info_at_head.
      cbn [i_kind i_id i_name]. destruct vt; try reflexivity. congruence.
  Qed.
End Dump.

(* GenoDict.v — dictionary views (property C12): addresses of decision points are unique, to_dict of the
   bound DNA of a valid decision lists the active decisions in order, from_dict reads them back. *)
From PG Require Import Common.Tactics Model.Geno Model.GenoViews Proofs.GenoBasics Proofs.GenoValid Proofs.GenoNext
  Proofs.GenoConcrete Proofs.GenoViewsProofs.

(* ---- addresses ---------------------------------------------------------------------------------------------- *)
Definition prefix (a b : addr) : Prop := exists t, b = a ++ t.
Lemma prefix_refl : forall a, prefix a a. Proof. intros a. exists []. rewrite app_nil_r. auto. Qed.
Lemma prefix_app : forall a t b, prefix (a ++ t) b -> prefix a b.
Proof. intros a t b [u ->]. exists (t ++ u). rewrite app_assoc. auto. Qed.
Lemma prefix_snoc_neq : forall a i j b, i <> j -> prefix (a ++ [i]) b -> ~ prefix (a ++ [j]) b.
Proof.
  intros a i j b Hij [t ->] [u E]. rewrite <- !app_assoc in E. apply app_inv_head in E. simpl in E. congruence.
Qed.

Lemma in_concat_mapi : forall A B (f : nat -> A -> list B) l k x,
  In x (concat (mapi f k l)) <-> exists i e, nth_error l i = Some e /\ In x (f (k + i) e).
Proof.
  induction l as [|a l IH]; intros k x; simpl.
  - split. intros []. intros (i & e & H & _). destruct i; discriminate.
  - rewrite in_app_iff, IH. split.
    + intros [H|(i & e & H1 & H2)].
      * exists 0, a. split; auto. rewrite Nat.add_0_r. auto.
      * exists (S i), e. split; auto. rewrite Nat.add_succ_r. auto.
    + intros (i & e & H1 & H2). destruct i.
      * inv H1. left. rewrite Nat.add_0_r in H2. auto.
      * right. exists i, e. split; auto. rewrite Nat.add_succ_r in H2. auto.
Qed.

(* every decision point listed below address a has an address extending a *)
Lemma dps_prefix_both :
  (forall s a pid i, In i (dps s a pid) -> prefix a (i_addr i)) /\
  (forall p a pid i, In i (dps_p p a pid) -> prefix a (i_addr i)).
Proof.
  apply dspec_dpoint_ind.
  - intros es IH a pid i Hin. simpl in Hin. apply in_concat_mapi in Hin as (j & e & He & Hin). simpl in Hin.
    eapply nth_error_Forall in IH; eauto. apply IH in Hin. eapply prefix_app; eauto.
  - intros k cands dist srt [loc name] lits IH a pid i Hin. simpl in Hin.
    assert (Hs : forall a' id' sub, prefix a a' ->
              In i ({| i_addr := a'; i_id := id'; i_name := name; i_kind := PKChoice (length cands) lits; i_sub := sub |}
                    :: concat (mapi (fun j c => dps c (a' ++ [j]) (id' ++ [KCond j (length cands)])) 0 cands)) ->
              prefix a (i_addr i)).
    { intros a' id' sub Hp [<-|Hin']. auto.
      apply in_concat_mapi in Hin' as (j & c & Hc & Hin'). simpl in Hin'.
      eapply nth_error_Forall in IH; eauto. apply IH in Hin'. destruct Hp as [t ->]. destruct Hin' as [u ->].
      exists (t ++ [j] ++ u). rewrite !app_assoc. auto. }
    destruct (k =? 1).
    + eapply Hs; eauto. apply prefix_refl.
    + apply in_concat in Hin as [l [Hl Hin]]. apply in_map_iff in Hl as [j [<- Hj]].
      eapply Hs; eauto. exists [j]. auto.
  - intros lo hi [loc name] a pid i [<-|[]]. apply prefix_refl.
  - intros [loc name] a pid i [<-|[]]. apply prefix_refl.
Qed.

Lemma NoDup_addr_app : forall (l1 l2 : list dpinfo),
  NoDup (map i_addr l1) -> NoDup (map i_addr l2) ->
  (forall x y, In x l1 -> In y l2 -> i_addr x <> i_addr y) -> NoDup (map i_addr (l1 ++ l2)).
Proof.
  induction l1 as [|x l1 IH]; intros l2 H1 H2 Hd; simpl; auto. inv H1. constructor.
  - rewrite map_app, in_app_iff. intros [Hin|Hin]; auto.
    apply in_map_iff in Hin as [y [Ey Hy]]. apply (Hd x y); [simpl; auto | exact Hy | congruence].
  - apply IH; auto. intros; apply Hd; simpl; auto.
Qed.

Lemma nodup_mapi : forall A (f : nat -> A -> list dpinfo) a l k,
  (forall i e, nth_error l i = Some e ->
     NoDup (map i_addr (f (k + i) e)) /\ forall x, In x (f (k + i) e) -> prefix (a ++ [k + i]) (i_addr x)) ->
  NoDup (map i_addr (concat (mapi f k l))).
Proof.
  induction l as [|e l IH]; intros k H; simpl. constructor.
  destruct (H 0 e eq_refl) as [Hn Hp]. rewrite Nat.add_0_r in *.
  apply NoDup_addr_app; auto.
  - apply IH. intros i e' He'. specialize (H (S i) e' He'). rewrite Nat.add_succ_r in H. exact H.
  - intros x y Hx Hy E. apply in_concat_mapi in Hy as (i & e' & He' & Hy).
    destruct (H (S i) e' He') as [_ Hp']. rewrite Nat.add_succ_r in Hp'.
    apply Hp in Hx. apply Hp' in Hy. rewrite E in Hx.
    eapply (prefix_snoc_neq a k (S (k + i))); eauto. lia.
Qed.

Lemma nodup_map_seq : forall (g : nat -> list dpinfo) a len s,
  (forall j, s <= j < s + len -> NoDup (map i_addr (g j)) /\ forall x, In x (g j) -> prefix (a ++ [j]) (i_addr x)) ->
  NoDup (map i_addr (concat (map g (seq s len)))).
Proof.
  induction len; intros s H; simpl. constructor.
  destruct (H s ltac:(lia)) as [Hn Hp]. apply NoDup_addr_app; auto.
  - apply IHlen. intros j Hj. apply H. lia.
  - intros x y Hx Hy E. apply in_concat in Hy as [l [Hl Hy]]. apply in_map_iff in Hl as [j [<- Hj]].
    apply in_seq in Hj. destruct (H j ltac:(lia)) as [_ Hp']. apply Hp in Hx. apply Hp' in Hy. rewrite E in Hx.
    eapply (prefix_snoc_neq a s j); eauto. lia.
Qed.

Lemma prefix_longer_neq : forall a t x, prefix (a ++ t) x -> t <> [] -> x <> a.
Proof.
  intros a t x [u ->] Ht E. rewrite <- app_assoc in E. rewrite <- (app_nil_r a) in E at 2.
  apply app_inv_head in E. destruct t; [congruence|discriminate].
Qed.

Lemma dps_nodup_both :
  (forall s a pid, NoDup (map i_addr (dps s a pid))) /\
  (forall p a pid, NoDup (map i_addr (dps_p p a pid))).
Proof.
  apply dspec_dpoint_ind.
  - intros es IH a pid. simpl. apply nodup_mapi with (a := a). intros i e He. simpl.
    split. eapply nth_error_Forall in IH; eauto. intros x Hx. eapply (proj2 dps_prefix_both); eauto.
  - intros k cands dist srt [loc name] lits IH a pid. simpl.
    assert (Hs : forall a' id' sub,
              NoDup (map i_addr ({| i_addr := a'; i_id := id'; i_name := name; i_kind := PKChoice (length cands) lits; i_sub := sub |}
                    :: concat (mapi (fun j c => dps c (a' ++ [j]) (id' ++ [KCond j (length cands)])) 0 cands)))).
    { intros a' id' sub. simpl. constructor.
      - intros Hin. apply in_map_iff in Hin as [x [Ex Hx]]. apply in_concat_mapi in Hx as (j & c & Hc & Hx). simpl in Hx.
        apply (proj1 dps_prefix_both) in Hx. eapply prefix_longer_neq; eauto. discriminate.
      - apply nodup_mapi with (a := a'). intros j c Hc. simpl. split.
        + eapply nth_error_Forall in IH; eauto.
        + intros x Hx. eapply (proj1 dps_prefix_both); eauto. }
    destruct (k =? 1). apply Hs.
    apply nodup_map_seq with (a := a). intros j Hj. split. apply Hs.
    intros x [<-|Hx]. apply prefix_refl.
    apply in_concat_mapi in Hx as (j' & c & Hc & Hx). simpl in Hx.
    apply (proj1 dps_prefix_both) in Hx. eapply prefix_app; eauto.
  - intros lo hi [loc name] a pid. simpl. repeat constructor. auto.
  - intros [loc name] a pid. simpl. repeat constructor. auto.
Qed.

Lemma info_at_found : forall infos i, NoDup (map i_addr infos) -> In i infos -> info_at infos (i_addr i) = Some i.
Proof.
  induction infos as [|x infos IH]; intros i Hn Hin. inv Hin. inv Hn. unfold info_at in *. simpl.
  destruct Hin as [->|Hin].
  - unfold addr_eqb. destruct (list_eq_dec Nat.eq_dec (i_addr i) (i_addr i)); [reflexivity|contradiction].
  - unfold addr_eqb. destruct (list_eq_dec Nat.eq_dec (i_addr x) (i_addr i)) as [E|E].
    + exfalso. apply H1. rewrite E. apply in_map; auto.
    + apply IH; auto.
Qed.

(* ---- looking an address up in a list of blocks separated by their prefixes ------------------------------- *)
Lemma info_at_app : forall l1 l2 a, info_at (l1 ++ l2) a = match info_at l1 a with Some i => Some i | None => info_at l2 a end.
Proof. unfold info_at. induction l1; intros; simpl; auto. destruct (addr_eqb (i_addr a) a0); auto. Qed.
Lemma info_at_none : forall l a, (forall i, In i l -> i_addr i <> a) -> info_at l a = None.
Proof.
  unfold info_at. induction l; intros a' H; simpl; auto.
  unfold addr_eqb at 1. destruct (list_eq_dec Nat.eq_dec (i_addr a) a') as [E|E].
  - exfalso. eapply H; eauto. simpl; auto.
  - apply IHl. intros; apply H; simpl; auto.
Qed.
Lemma prefix_conflict : forall a i j x, i <> j -> prefix (a ++ [i]) x -> prefix (a ++ [j]) x -> False.
Proof. intros. eapply prefix_snoc_neq; eauto. Qed.

(* the infos agree with a local block on every address below a *)
Definition agree (infos blk : list dpinfo) (a : addr) : Prop :=
  forall a', prefix a a' -> info_at infos a' = info_at blk a'.

Lemma agree_mapi : forall A (f : nat -> A -> list dpinfo) a l k j e,
  (forall i e, nth_error l i = Some e -> forall x, In x (f (k + i) e) -> prefix (a ++ [k + i]) (i_addr x)) ->
  nth_error l j = Some e ->
  agree (concat (mapi f k l)) (f (k + j) e) (a ++ [k + j]).
Proof.
  induction l as [|e0 l IH]; intros k j e Hp Hj a' Ha'. destruct j; discriminate.
  simpl. rewrite info_at_app. destruct j.
  - inv Hj. rewrite Nat.add_0_r in *. destruct (info_at (f k e) a') eqn:E; auto.
    apply info_at_none. intros i Hi Ei. apply in_concat_mapi in Hi as (i' & e' & He' & Hi).
    replace (S k + i') with (k + S i') in Hi by lia.
    specialize (Hp (S i') e' He' _ Hi). rewrite Ei in Hp.
    eapply (prefix_conflict a k (k + S i')); eauto. lia.
  - rewrite info_at_none.
    + replace (k + S j) with (S k + j) in * by lia. apply (IH (S k) j e); auto.
      intros i e' He' x Hx. replace (S k + i) with (k + S i) in * by lia. apply (Hp (S i) e' He' x); auto.
    + intros i Hi Ei. specialize (Hp 0 e0 eq_refl i). rewrite Nat.add_0_r in Hp. specialize (Hp Hi). rewrite Ei in Hp.
      eapply (prefix_conflict a k (k + S j)); eauto. lia.
Qed.

Lemma agree_map_seq : forall (g : nat -> list dpinfo) a len s j,
  (forall i, s <= i < s + len -> forall x, In x (g i) -> prefix (a ++ [i]) (i_addr x)) ->
  s <= j < s + len ->
  agree (concat (map g (seq s len))) (g j) (a ++ [j]).
Proof.
  induction len; intros s j Hp Hj a' Ha'. lia.
  simpl. rewrite info_at_app. destruct (Nat.eq_dec s j) as [->|Hne].
  - destruct (info_at (g j) a') eqn:E; auto.
    apply info_at_none. intros i Hi Ei. apply in_concat in Hi as [l [Hl Hi]]. apply in_map_iff in Hl as [i' [<- Hi']].
    apply in_seq in Hi'. specialize (Hp i' ltac:(lia) _ Hi). rewrite Ei in Hp.
    eapply (prefix_conflict a j i'); eauto. lia.
  - rewrite info_at_none.
    + apply (IHlen (S s) j); auto. intros; apply Hp; auto; lia. lia.
    + intros i Hi Ei. specialize (Hp s ltac:(lia) _ Hi). rewrite Ei in Hp.
      eapply (prefix_conflict a s j); eauto.
Qed.

Lemma agree_trans : forall infos blk blk' a a', agree infos blk a -> prefix a a' -> agree blk blk' a' -> agree infos blk' a'.
Proof.
  intros infos blk blk' a a' H1 Hp H2 x Hx. rewrite H1. apply H2; auto.
  destruct Hp as [t ->]. destruct Hx as [u ->]. exists (t ++ u). rewrite app_assoc. auto.
Qed.

(* ---- the active decisions of a valid decision, in the order to_dict visits them ---------------------------- *)
Inductive aval := AChoice (c : nat) | AFlt (f : flt) | AStr (s : str).
Definition mapi2 {A B C} (f : nat -> A -> B -> C) : nat -> list A -> list B -> list C :=
  fix go i l1 l2 := match l1, l2 with a :: r1, b :: r2 => f i a b :: go (S i) r1 r2 | _, _ => [] end.
Fixpoint acts (s : dspec) (a : addr) (sd : sdna) {struct s} : list (addr * aval) :=
  match s, sd with Space es, SSpace ds => concat (mapi2 (fun i e x => acts_p e (a ++ [i]) x) 0 es ds) end
with acts_p (p : dpoint) (a : addr) (x : pdna) {struct p} : list (addr * aval) :=
  match p, x with
  | Choices k cands _ _ _ _, PChoices cs =>
      let single := fun (a' : addr) (cs0 : nat * sdna) =>
        (a', AChoice (fst cs0)) :: with_nth (fun sc => acts sc (a' ++ [fst cs0]) (snd cs0)) [] cands (fst cs0) in
      if k =? 1 then match cs with [cs0] => single a cs0 | _ => [] end
      else concat (mapi (fun i cs0 => single (a ++ [i]) cs0) 0 cs)
  | FloatP _ _ _, PFloat f => [(a, AFlt f)]
  | CustomP _, PCustom s => [(a, AStr s)]
  | _, _ => []
  end.

Definition put1 (infos : list dpinfo) (kt : key_type) (vt : value_type) (d : dict) (e : addr * aval) : dict :=
  match info_at infos (fst e) with
  | Some i =>
      let k := key_of kt (i_id i) (i_name i) (fst e) in
      match snd e, i_kind i with
      | AChoice c, PKChoice n lits => dput d k (format_candidate vt n lits c (D VNone []))
      | AFlt f, _ => dput d k (LfV (VFlt f))
      | AStr s, _ => dput d k (LfV (VStr s))
      | _, _ => d
      end
  | None => d
  end.
Definition puts infos kt vt (es : list (addr * aval)) (d : dict) : dict := fold_left (put1 infos kt vt) es d.
Lemma puts_app : forall infos kt vt l1 l2 d, puts infos kt vt (l1 ++ l2) d = puts infos kt vt l2 (puts infos kt vt l1 d).
Proof. intros. unfold puts. apply fold_left_app. Qed.

(* ---- to_dict of a bound valid decision ----------------------------------------------------------------------- *)
Lemma dump_unfold : forall infos kt vt m v sp kids d,
  dump infos kt vt m (B v sp kids) d =
  fold_left (fun acc c => dump infos kt vt m c acc) kids
    (match sp with
     | None => d
     | Some a =>
       match info_at infos a with
       | None => d
       | Some i =>
         let k := key_of kt (i_id i) (i_name i) a in
         match i_kind i with
         | PKChoice n lits =>
             match v with
             | VInt z =>
                 let x := format_candidate vt n lits (Z.to_nat z) (strip (B v sp kids)) in
                 match i_sub i with
                 | Some (_, pa, pid) =>
                     let d' := if use_parent m then dput d (key_of kt pid (i_name i) pa) x else d in
                     if needs_subchoice_key kt m (i_name i) then dput d' k x else d'
                 | None => dput d k x
                 end
             | _ => d
             end
         | _ => dput d k (match vt with VT_dna => LfDna (strip (B v sp kids)) | _ => LfV v end)
         end
       end
     end).
Proof. reflexivity. Qed.

Lemma info_at_head : forall i rest, info_at (i :: rest) (i_addr i) = Some i.
Proof.
  intros. unfold info_at. simpl. unfold addr_eqb.
  destruct (list_eq_dec Nat.eq_dec (i_addr i) (i_addr i)); [reflexivity|contradiction].
Qed.
Lemma info_at_skip : forall i rest a, i_addr i <> a -> info_at (i :: rest) a = info_at rest a.
Proof.
  intros. unfold info_at. simpl. unfold addr_eqb.
  destruct (list_eq_dec Nat.eq_dec (i_addr i) a); [contradiction|reflexivity].
Qed.

(* the block of one single choice (a sub-choice of a multi-choice, or a single choice itself) *)
Definition single_block (cands : list dspec) (name : option str) (lits : list lit) (a' : addr) (id' : did)
  (sub : option (nat * addr * did)) : list dpinfo :=
  {| i_addr := a'; i_id := id'; i_name := name; i_kind := PKChoice (length cands) lits; i_sub := sub |}
  :: concat (mapi (fun j c => dps c (a' ++ [j]) (id' ++ [KCond j (length cands)])) 0 cands).
Lemma dps_p_choices_unfold : forall k cands dist srt loc name lits a pid,
  dps_p (Choices k cands dist srt (loc, name) lits) a pid =
  if k =? 1 then single_block cands name lits a (pid ++ loc) None
  else concat (map (fun i => single_block cands name lits (a ++ [i]) (pid ++ loc ++ [KIdx i]) (Some (i, a, pid ++ loc))) (seq 0 k)).
Proof. intros. simpl. unfold single_block. destruct (k =? 1); auto. f_equal. apply map_ext. intros i. rewrite <- app_assoc. reflexivity. Qed.
Lemma single_block_prefix : forall cands name lits a' id' sub x,
  In x (single_block cands name lits a' id' sub) -> prefix a' (i_addr x).
Proof.
  intros cands name lits a' id' sub x [<-|Hx]. apply prefix_refl.
  apply in_concat_mapi in Hx as (j & c & Hc & Hx). simpl in Hx. apply (proj1 dps_prefix_both) in Hx. eapply prefix_app; eauto.
Qed.
Lemma agree_single_cand : forall infos cands name lits a' id' sub c sc,
  agree infos (single_block cands name lits a' id' sub) a' -> nth_error cands c = Some sc ->
  agree infos (dps sc (a' ++ [c]) (id' ++ [KCond c (length cands)])) (a' ++ [c]).
Proof.
  intros infos cands name lits a' id' sub c sc Ha Hc.
  eapply agree_trans; [exact Ha | exists [c]; reflexivity |].
  intros a'' Hp. unfold single_block. rewrite info_at_skip.
  - apply (agree_mapi _ (fun j c0 => dps c0 (a' ++ [j]) (id' ++ [KCond j (length cands)])) a' cands 0 c sc); auto.
    intros i e He x Hx. simpl in *. eapply (proj1 dps_prefix_both); eauto.
  - simpl. intros E. subst a''. destruct Hp as [t Ht]. rewrite <- app_assoc in Ht.
    rewrite <- (app_nil_r a') in Ht at 1. apply app_inv_head in Ht. discriminate.
Qed.
Lemma multi_addr_none : forall infos k cands dist srt loc name lits a pid,
  (k =? 1) = false -> agree infos (dps_p (Choices k cands dist srt (loc, name) lits) a pid) a -> info_at infos a = None.
Proof.
  intros infos k cands dist srt loc name lits a pid Hk Ha. rewrite (Ha a (prefix_refl a)).
  rewrite dps_p_choices_unfold, Hk. apply info_at_none. intros i Hi.
  apply in_concat in Hi as [l [Hl Hi]]. apply in_map_iff in Hl as [j [<- Hj]].
  apply single_block_prefix in Hi. eapply prefix_longer_neq; eauto. discriminate.
Qed.
Lemma format_candidate_irrel : forall vt n lits c d1 d2, vt <> VT_dna ->
  format_candidate vt n lits c d1 = format_candidate vt n lits c d2.
Proof. intros. destruct vt; try reflexivity. congruence. Qed.

Lemma fold_bind_all : forall A X (f : nat -> A -> dna -> option bdna) (nrm : X -> dna)
  (g : nat -> A -> X -> list (addr * aval)) (dumpf : bdna -> dict -> dict) (putsf : list (addr * aval) -> dict -> dict),
  (forall l1 l2 d, putsf (l1 ++ l2) d = putsf l2 (putsf l1 d)) -> (forall d, putsf [] d = d) ->
  forall es xs i bs d0, bind_all f i es (map nrm xs) = Some bs ->
  (forall j e x b d, nth_error es j = Some e -> nth_error xs j = Some x -> f (i + j) e (nrm x) = Some b ->
                     dumpf b d = putsf (g (i + j) e x) d) ->
  fold_left (fun acc c => dumpf c acc) bs d0 = putsf (concat (mapi2 g i es xs)) d0.
Proof.
  intros A X f nrm g dumpf putsf Happ Hnil. induction es as [|e es IH]; intros [|x xs] i bs d0 Hb H; simpl in Hb; try discriminate.
  - inv Hb. simpl. rewrite Hnil. reflexivity.
  - destruct (f i e (nrm x)) as [b|] eqn:E; [|discriminate].
    destruct (bind_all f (S i) es (map nrm xs)) as [bs'|] eqn:E2; [|discriminate]. inv Hb.
    simpl. rewrite Happ. pose proof (H 0 e x b d0 eq_refl eq_refl) as H0. rewrite Nat.add_0_r in H0.
    rewrite <- (H0 E). apply IH; auto.
    intros j e' x' b' d He' Hx' Hf. replace (S i + j) with (i + S j) in * by lia. apply (H (S j) e' x' b' d); auto.
Qed.

Section Dump.
  Variables (q : quirks) (infos : list dpinfo) (kt : key_type) (vt : value_type).
  Hypothesis Hvt : vt <> VT_dna.
  Notation dumpf := (dump infos kt vt MC_subchoice).
  Notation putsf := (puts infos kt vt).

  Lemma putsf_nil : forall d, putsf [] d = d. Proof. reflexivity. Qed.

  Lemma dump_both :
    (forall s, wf s = true -> forall sd a bs pid d0, valid s sd = true ->
       bind_kids q s a (unwrap (normalize sd)) = Some bs -> agree infos (dps s a pid) a ->
       fold_left (fun acc c => dumpf c acc) bs d0 = putsf (acts s a sd) d0) /\
    (forall p, wf_p p = true -> forall x a b pid d0, valid_p p x = true ->
       bind_p q p a (norm_p x) = Some b -> agree infos (dps_p p a pid) a ->
       dumpf b d0 = putsf (acts_p p a x) d0).
  Proof.
    apply dspec_dpoint_ind.
    - (* Space *)
      intros es IH Hwf [ds] a bs pid d0 Hv Hb Hag. simpl in Hwf. pose proof Hv as Hv0. simpl in Hv. apply forallb2_Forall2 in Hv.
      rewrite (shape_s es ds Hwf Hv) in Hb. rewrite bind_kids_unfold in Hb.
      pose proof (Forall2_len _ _ _ _ _ Hv) as Hl.
      (* the infos agree with the block of every element *)
      assert (Hel : forall j e, nth_error es j = Some e -> agree infos (dps_p e (a ++ [j]) pid) (a ++ [j])).
      { intros j e He. eapply agree_trans; [exact Hag | exists [j]; reflexivity |].
        simpl. apply (agree_mapi _ (fun i e0 => dps_p e0 (a ++ [i]) pid) a es 0 j e); auto.
        intros i e0 He0 x Hx. simpl in *. eapply (proj2 dps_prefix_both); eauto. }
      destruct es as [|e [|e2 es]]; destruct ds as [|x [|y r]]; simpl in Hl; try lia.
      + simpl in Hb. inv Hb. reflexivity.
      + inversion Hv as [|? ? ? ? He _]; subst. simpl in Hwf. rewrite andb_true_r in Hwf.
        apply Forall_cons_iff in IH as [IHe _].
        change (acts (Space [e]) a (SSpace [x])) with (acts_p e (a ++ [0]) x ++ []). rewrite app_nil_r.
        destruct (unwrap_multi e x Hwf He) as [[Em En]|[Em En]]; rewrite Em in Hb.
        * rewrite En in Hb. destruct (bind_p q e (a ++ [0]) (norm_p x)) as [b|] eqn:Eb; [|discriminate]. inv Hb.
          rewrite <- (IHe Hwf x (a ++ [0]) b pid d0 He Eb (Hel 0 e eq_refl)).
          (* the node of the multi-choice itself contributes nothing *)
          destruct e as [k cands dist srt [loc name] lits| |]; try discriminate. unfold is_multi in Em. apply negb_true_iff in Em.
          rewrite bind_p_choices_unfold, Em in Eb.
          destruct (negb (is_none (Geno.dvalue (norm_p x)))); [discriminate|].
          destruct (bind_all _ 0 (seq 0 k) (dkids (norm_p x))) as [ks|]; [|discriminate].
          cbv zeta in Eb. destruct (_ && _); [|discriminate]. inv Eb.
          rewrite dump_unfold. rewrite (multi_addr_none infos k cands dist srt loc name lits (a ++ [0]) pid Em (Hel 0 _ eq_refl)).
          reflexivity.
        * rewrite En in Hb. destruct (bind_p q e (a ++ [0]) (norm_p x)) as [b|] eqn:Eb; [|discriminate]. inv Hb.
          simpl. apply (IHe Hwf x (a ++ [0]) b pid d0 He Eb (Hel 0 e eq_refl)).
      + cbn [unwrap] in Hb.
        apply (fold_bind_all _ _ (fun i e0 d => bind_p q e0 (a ++ [i]) d) norm_p (fun i e0 x0 => acts_p e0 (a ++ [i]) x0) dumpf putsf
                 (puts_app infos kt vt) putsf_nil (e :: e2 :: es) (x :: y :: r) 0 bs d0 Hb).
        intros j e' x' b d He' Hx' Hf. simpl in Hf.
        rewrite Forall_forall in IH. rewrite forallb_forall in Hwf.
        apply (IH e' (nth_error_In _ _ He') (Hwf e' (nth_error_In _ _ He')) x' (a ++ [j]) b pid d); auto.
        * clear - Hv He' Hx'. revert j He' Hx'. induction Hv; intros [|j] He' Hx'; simpl in *; try discriminate.
          inv He'; inv Hx'; auto. eapply IHHv; eauto.
    - (* Choices *)
      intros k cands dist srt [loc name] lits IH Hwf x a b pid d0 Hv Hb Hag.
      pose proof (shape_p _ x Hwf Hv) as Hs. cbv beta iota in Hs.
      pose proof Hwf as Hwf0. apply wf_p_choices in Hwf as (Hk & Hn & Hdk & Hwc).
      rewrite dps_p_choices_unfold in Hag.
      (* one choice node *)
      assert (Hsingle : forall a' id' sub c sb b' d,
                c < length cands -> with_nth (fun s => valid s sb) false cands c = true ->
                single_bind q cands a' (D (vint c) (unwrap (normalize sb))) = Some b' ->
                agree infos (single_block cands name lits a' id' sub) a' ->
                dumpf b' d = putsf ((a', AChoice c) :: with_nth (fun sc => acts sc (a' ++ [c]) sb) [] cands c) d).
      { intros a' id' sub c sb b' d Hc Hvs Hsb Ha'. unfold single_bind in Hsb. cbn [Geno.dvalue dkids] in Hsb.
        rewrite index_of_vint in Hsb by auto. rewrite with_nth_nth_error in *.
        destruct (nth_error cands c) as [sc|] eqn:E; [|discriminate].
        destruct (bind_kids q sc (a' ++ [c]) (unwrap (normalize sb))) as [ks|] eqn:Ek; [|discriminate]. inv Hsb.
        rewrite dump_unfold. rewrite (Ha' a' (prefix_refl a')). unfold single_block at 1. rewrite info_at_head.
        cbv zeta. cbn [i_kind i_sub i_id i_name].
        assert (Ed : forall dd, (match sub with
                      | Some (_, pa, pid0) =>
                          let d' := if use_parent MC_subchoice then dput dd (key_of kt pid0 name pa) (format_candidate vt (length cands) lits (Z.to_nat (Z.of_nat c)) (strip (B (vint c) (Some a') ks))) else dd in
                          if needs_subchoice_key kt MC_subchoice name then dput d' (key_of kt id' name a') (format_candidate vt (length cands) lits (Z.to_nat (Z.of_nat c)) (strip (B (vint c) (Some a') ks))) else d'
                      | None => dput dd (key_of kt id' name a') (format_candidate vt (length cands) lits (Z.to_nat (Z.of_nat c)) (strip (B (vint c) (Some a') ks)))
                      end) = dput dd (key_of kt id' name a') (format_candidate vt (length cands) lits c (D VNone []))).
        { intros dd. rewrite Nat2Z.id. rewrite (format_candidate_irrel vt _ _ _ _ (D VNone []) Hvt).
          destruct sub as [[[? ?] ?]|]; [|reflexivity]. simpl. destruct kt; reflexivity. }
        unfold vint at 1. rewrite Ed.
        rewrite forallb_forall in Hwc. eapply nth_error_Forall in IH; eauto.
        rewrite (IH (Hwc sc (nth_error_In _ _ E)) sb (a' ++ [c]) ks (id' ++ [KCond c (length cands)]) _ Hvs Ek
                    (agree_single_cand infos cands name lits a' id' sub c sc Ha' E)).
        unfold puts at 2. simpl fold_left. unfold put1 at 2. cbn [fst snd].
        rewrite (Ha' a' (prefix_refl a')). unfold single_block. rewrite info_at_head. cbn [i_kind i_id i_name]. reflexivity. }
      rewrite bind_p_choices_unfold in Hb.
      destruct (k =? 1) eqn:Ek.
      + destruct Hs as (c & sb & -> & Hn1). rewrite Hn1, node_eq in Hb.
        apply valid_p_choices in Hv as [_ [[_ Hbd] Hf]].
        apply Forall_cons_iff in Hbd as [Hbd _]. apply Forall_cons_iff in Hf as [Hf _]. simpl in Hbd, Hf.
        change (acts_p (Choices k cands dist srt (loc, name) lits) a (PChoices [(c, sb)])) with
          (if k =? 1 then (a, AChoice c) :: with_nth (fun sc => acts sc (a ++ [c]) sb) [] cands c else
             concat (mapi (fun i (cs0 : nat * sdna) => (a ++ [i], AChoice (fst cs0)) :: with_nth (fun sc => acts sc ((a ++ [i]) ++ [fst cs0]) (snd cs0)) [] cands (fst cs0)) 0 [(c, sb)])).
        rewrite Ek. eapply Hsingle; eauto.
      + destruct Hs as (cs & -> & Hlen & Hn2). rewrite Hn2 in Hb.
        apply valid_p_choices in Hv as [_ [[_ Hbd] Hf]].
        cbn [Geno.dvalue dkids is_none negb] in Hb.
        set (node := fun cs0 : nat * sdna => mk (VInt (Z.of_nat (fst cs0))) [normalize (snd cs0)]) in *.
        destruct (bind_all (fun i (_ : nat) d' => single_bind q cands (a ++ [i]) d') 0 (seq 0 k) (map node cs)) as [ks|] eqn:Ea; [|discriminate].
        cbv zeta in Hb. destruct (_ && _); [|discriminate]. injection Hb as <-.
        rewrite dump_unfold.
        rewrite (multi_addr_none infos k cands dist srt loc name lits a pid Ek
                   ltac:(rewrite dps_p_choices_unfold, Ek; exact Hag)).
        change (acts_p (Choices k cands dist srt (loc, name) lits) a (PChoices cs)) with
          (if k =? 1 then match cs with [cs0] => (a, AChoice (fst cs0)) :: with_nth (fun sc => acts sc (a ++ [fst cs0]) (snd cs0)) [] cands (fst cs0) | _ => [] end else
             concat (mapi (fun i (cs0 : nat * sdna) => (a ++ [i], AChoice (fst cs0)) :: with_nth (fun sc => acts sc ((a ++ [i]) ++ [fst cs0]) (snd cs0)) [] cands (fst cs0)) 0 cs)).
        rewrite Ek.
        (* mapi over cs = mapi2 over (seq 0 k, cs) *)
        assert (Em : forall (l : list (nat * sdna)) s0,
                  mapi (fun i (cs0 : nat * sdna) => (a ++ [i], AChoice (fst cs0)) :: with_nth (fun sc => acts sc ((a ++ [i]) ++ [fst cs0]) (snd cs0)) [] cands (fst cs0)) s0 l =
                  mapi2 (fun i (_ : nat) (cs0 : nat * sdna) => (a ++ [i], AChoice (fst cs0)) :: with_nth (fun sc => acts sc ((a ++ [i]) ++ [fst cs0]) (snd cs0)) [] cands (fst cs0)) s0 (seq s0 (length l)) l).
        { induction l; intros s0; simpl; auto. f_equal. apply IHl. }
        rewrite Em, Hlen.
        apply (fold_bind_all _ _ (fun i (_ : nat) d' => single_bind q cands (a ++ [i]) d') node _ dumpf putsf
                 (puts_app infos kt vt) putsf_nil (seq 0 k) cs 0 ks d0 Ea).
        intros j e' [c sb] b' d He' Hx' Hsb. simpl in Hsb. unfold node in Hsb. cbn [fst snd] in *. rewrite node_eq in Hsb.
        rewrite Forall_forall in Hbd, Hf.
        assert (Hin : In (c, sb) cs) by (eapply nth_error_In; eauto).
        eapply (Hsingle (a ++ [j]) (pid ++ loc ++ [KIdx j]) (Some (j, a, pid ++ loc))); eauto.
        * apply (Hbd c). apply in_map_iff. exists (c, sb). auto.
        * apply (Hf (c, sb)); auto.
        * assert (Hj : j < k). { rewrite <- Hlen. apply nth_error_Some. rewrite Hx'. discriminate. }
          eapply agree_trans; [exact Hag | exists [j]; reflexivity |].
          apply (agree_map_seq (fun i => single_block cands name lits (a ++ [i]) (pid ++ loc ++ [KIdx i]) (Some (i, a, pid ++ loc))) a k 0 j).
          -- intros i Hi y Hy. eapply single_block_prefix; eauto.
          -- lia.
    - (* Float *)
      intros lo hi [loc name] Hwf x a b pid d0 Hv Hb Hag. destruct x; try discriminate. simpl in Hb.
      destruct (_ && _); [|discriminate]. inv Hb. rewrite dump_unfold. simpl fold_left.
      rewrite (Hag a (prefix_refl a)). simpl dps_p. rewrite info_at_head. cbv zeta. cbn [i_kind i_id i_name].
      unfold puts. simpl. unfold put1. cbn [fst snd]. rewrite (Hag a (prefix_refl a)). simpl dps_p. rewrite info_at_head.
      cbn [i_kind i_id i_name]. destruct vt; try reflexivity. congruence.
    - intros [loc name] Hwf x a b pid d0 Hv Hb Hag. destruct x; try discriminate. simpl in Hb. inv Hb.
      rewrite dump_unfold. simpl fold_left.
      rewrite (Hag a (prefix_refl a)). simpl dps_p. rewrite info_at_head. cbv zeta. cbn [i_kind i_id i_name].
      unfold puts. simpl. unfold put1. cbn [fst snd]. rewrite (Hag a (prefix_refl a)). simpl dps_p. rewrite info_at_head.
      cbn [i_kind i_id i_name]. destruct vt; try reflexivity. congruence.
  Qed.
End Dump.

(* ---- reading a candidate index back from its rendering ------------------------------------------------------- *)
Lemma str_eqb_refl : forall s, str_eqb s s = true.
Proof. intros. unfold str_eqb. induction s; simpl; auto. rewrite N.compare_refl. auto. Qed.
Lemma lit_eqb_refl : forall l, lit_eqb l l = true.
Proof. destruct l; simpl. apply str_eqb_refl. apply Z.eqb_refl. apply Z.eqb_refl. Qed.

(* literal values distinguishable as Python values (1 == 1.0) *)
Definition lits_distinct (lits : list lit) : Prop :=
  forall i j li lj, nth_error lits i = Some li -> nth_error lits j = Some lj -> lit_eqb li lj = true -> i = j.

Fixpoint last_match (l : lit) (i : nat) (ls : list lit) : option nat :=
  match ls with
  | [] => None
  | x :: r => match last_match l (S i) r with Some j => Some j | None => if lit_eqb x l then Some i else None end
  end.
Lemma index_from_literal_go : forall lits l i0 found,
  (fix go (i : nat) (ls : list lit) (found : option nat) : option nat :=
     match ls with [] => found | x :: r => go (S i) r (if lit_eqb x l then Some i else found) end) i0 lits found =
  match last_match l i0 lits with Some j => Some j | None => found end.
Proof.
  induction lits as [|x lits IH]; intros l i0 found; simpl; auto.
  rewrite IH. destruct (last_match l (S i0) lits); auto. destruct (lit_eqb x l); auto.
Qed.
Lemma last_match_none : forall l ls i, (forall j lj, nth_error ls j = Some lj -> lit_eqb lj l = false) -> last_match l i ls = None.
Proof.
  induction ls as [|x ls IH]; intros i H; simpl; auto.
  rewrite IH. rewrite (H 0 x eq_refl). reflexivity. intros j lj Hj. apply (H (S j) lj Hj).
Qed.
Lemma last_match_found : forall l ls i j,
  nth_error ls j = Some l ->
  (forall j' lj, nth_error ls j' = Some lj -> lit_eqb lj l = true -> j' = j) ->
  last_match l i ls = Some (i + j).
Proof.
  induction ls as [|x ls IH]; intros i j Hj Hu. destruct j; discriminate.
  destruct j.
  - simpl in Hj. inv Hj. simpl. rewrite last_match_none.
    + rewrite lit_eqb_refl, Nat.add_0_r. reflexivity.
    + intros j lj Hj. destruct (lit_eqb lj l) eqn:E; auto. specialize (Hu (S j) lj Hj E). discriminate.
  - simpl in Hj. simpl. rewrite (IH (S i) j Hj).
    + f_equal. lia.
    + intros j' lj Hj' He. specialize (Hu (S j') lj Hj' He). lia.
Qed.

Lemma index_from_literal_found : forall lits c l, lits_distinct lits -> nth_error lits c = Some l ->
  index_from_literal lits l = Some c.
Proof.
  intros lits c l Hd Hc. unfold index_from_literal. rewrite index_from_literal_go.
  rewrite (last_match_found l lits 0 c Hc). reflexivity.
  intros j' lj Hj' He. eapply Hd; eauto.
Qed.

Definition ial_of (vt : value_type) : bool := match vt with VT_literal => true | _ => false end.
Lemma choice_index_format : forall vt n lits c node, vt <> VT_dna -> c < n ->
  (length lits = 0 \/ length lits = n) -> (vt = VT_literal -> lits_distinct lits) ->
  choice_index (ial_of vt) n lits (format_candidate vt n lits c node) = Some c.
Proof.
  intros vt n lits c node Hvt Hc Hl Hd.
  assert (Hin : (Z.of_nat c <? Z.of_nat n)%Z = true) by (apply Z.ltb_lt; lia).
  assert (H0 : (0 <=? Z.of_nat c)%Z = true) by (apply Z.leb_le; lia).
  assert (Hcn : (c <? n) = true) by (apply Nat.ltb_lt; auto).
  destruct vt; try congruence; simpl.
  - rewrite H0, Hin, Nat2Z.id. reflexivity.
  - rewrite Nat.eqb_refl, Hcn. reflexivity.
  - destruct (nth_error lits c) as [l|] eqn:E.
    + specialize (Hd eq_refl). pose proof (index_from_literal_found lits c l Hd E) as Hi.
      destruct l; simpl; auto.
    + simpl. rewrite Nat.eqb_refl, Hcn. reflexivity.
  - destruct (nth_error lits c) as [l|] eqn:E.
    + simpl. rewrite Nat.eqb_refl, Hcn, E, lit_eqb_refl. reflexivity.
    + simpl. rewrite Nat.eqb_refl, Hcn. reflexivity.
Qed.

(* ---- the active decisions have pairwise different addresses --------------------------------------------------- *)
Lemma nodup_app_gen : forall A (l1 l2 : list A), NoDup l1 -> NoDup l2 -> (forall x, In x l1 -> ~ In x l2) -> NoDup (l1 ++ l2).
Proof.
  induction l1; intros l2 H1 H2 Hd; simpl; auto. inv H1. constructor.
  - rewrite in_app_iff. intros [H|H]; auto. eapply Hd; eauto. simpl; auto.
  - apply IHl1; auto. intros; apply Hd; simpl; auto.
Qed.
Lemma nodup_prefix_blocks : forall T (key : T -> addr) a (blocks : list (list T)) k,
  (forall i b, nth_error blocks i = Some b ->
     NoDup (map key b) /\ forall x, In x b -> prefix (a ++ [k + i]) (key x)) ->
  NoDup (map key (concat blocks)).
Proof.
  induction blocks as [|b blocks IH]; intros k H; simpl. constructor.
  destruct (H 0 b eq_refl) as [Hn Hp]. rewrite Nat.add_0_r in Hp.
  rewrite map_app. apply nodup_app_gen; auto.
  - apply (IH (S k)). intros i b' Hb'. replace (S k + i) with (k + S i) by lia. apply (H (S i) b' Hb').
  - intros x Hx Hy. apply in_map_iff in Hx as [u [<- Hu]]. apply in_map_iff in Hy as [w [Ew Hw]].
    apply in_concat in Hw as [b' [Hb' Hw]]. apply In_nth_error in Hb' as [i Hi].
    destruct (H (S i) b' Hi) as [_ Hp']. apply Hp in Hu. apply Hp' in Hw. rewrite Ew in Hw.
    eapply (prefix_conflict a k (k + S i)); eauto. lia.
Qed.

Lemma nth_error_mapi2 : forall A B C (g : nat -> A -> B -> C) es ds k i b,
  nth_error (mapi2 g k es ds) i = Some b ->
  exists e x, nth_error es i = Some e /\ nth_error ds i = Some x /\ b = g (k + i) e x.
Proof.
  induction es as [|e es IH]; intros [|x ds] k i b H; simpl in H; try (destruct i; discriminate).
  destruct i; simpl in H.
  - inv H. exists e, x. rewrite Nat.add_0_r. auto.
  - apply IH in H as (e' & x' & H1 & H2 & H3). exists e', x'. repeat split; auto. subst. f_equal. lia.
Qed.
Lemma nth_error_mapi : forall A C (g : nat -> A -> C) l k i b,
  nth_error (mapi g k l) i = Some b -> exists e, nth_error l i = Some e /\ b = g (k + i) e.
Proof.
  induction l as [|e l IH]; intros k i b H; simpl in H; try (destruct i; discriminate).
  destruct i; simpl in H.
  - inv H. exists e. rewrite Nat.add_0_r. auto.
  - apply IH in H as (e' & H1 & H2). exists e'. split; auto. subst. f_equal. lia.
Qed.

Lemma acts_prefix_both :
  (forall s a sd e, In e (acts s a sd) -> prefix a (fst e)) /\
  (forall p a x e, In e (acts_p p a x) -> prefix a (fst e)).
Proof.
  apply dspec_dpoint_ind.
  - intros es IH a [ds] e Hin. simpl in Hin. apply in_concat in Hin as [b [Hb Hin]].
    apply In_nth_error in Hb as [i Hi]. apply nth_error_mapi2 in Hi as (p & x & Hp & Hx & ->). simpl in Hin.
    eapply nth_error_Forall in IH; eauto. apply IH in Hin. eapply prefix_app; eauto.
  - intros k cands dist srt nm lits IH a x e Hin. destruct x as [cs| |]; simpl in Hin; try contradiction.
    assert (Hs : forall a' (cs0 : nat * sdna), prefix a a' ->
              In e ((a', AChoice (fst cs0)) :: with_nth (fun sc => acts sc (a' ++ [fst cs0]) (snd cs0)) [] cands (fst cs0)) ->
              prefix a (fst e)).
    { intros a' [c sb] Hp [<-|Hin']. auto. simpl in Hin'. rewrite with_nth_nth_error in Hin'.
      destruct (nth_error cands c) as [sc|] eqn:E; [|contradiction].
      eapply nth_error_Forall in IH; eauto. apply IH in Hin'. destruct Hp as [t ->]. destruct Hin' as [u ->].
      exists (t ++ [c] ++ u). rewrite !app_assoc. auto. }
    destruct (k =? 1).
    + destruct cs as [|cs0 [|]]; try contradiction. eapply Hs; eauto. apply prefix_refl.
    + apply in_concat in Hin as [b [Hb Hin]]. apply In_nth_error in Hb as [i Hi].
      apply nth_error_mapi in Hi as (cs0 & Hc & ->). simpl in Hin. eapply Hs; eauto. exists [i]. auto.
  - intros lo hi nm a x e Hin. destruct x; simpl in Hin; try contradiction. destruct Hin as [<-|[]]. apply prefix_refl.
  - intros nm a x e Hin. destruct x; simpl in Hin; try contradiction. destruct Hin as [<-|[]]. apply prefix_refl.
Qed.

Lemma acts_nodup_both :
  (forall s a sd, NoDup (map fst (acts s a sd))) /\ (forall p a x, NoDup (map fst (acts_p p a x))).
Proof.
  apply dspec_dpoint_ind.
  - intros es IH a [ds]. simpl. apply nodup_prefix_blocks with (a := a) (k := 0).
    intros i b Hb. apply nth_error_mapi2 in Hb as (p & x & Hp & Hx & ->). simpl.
    split. eapply nth_error_Forall in IH; eauto. intros e He. eapply (proj2 acts_prefix_both); eauto.
  - intros k cands dist srt nm lits IH a x. destruct x as [cs| |]; simpl; try constructor.
    assert (Hs : forall a' (cs0 : nat * sdna),
              NoDup (map fst ((a', AChoice (fst cs0)) :: with_nth (fun sc => acts sc (a' ++ [fst cs0]) (snd cs0)) [] cands (fst cs0)))).
    { intros a' [c sb]. simpl. rewrite with_nth_nth_error. destruct (nth_error cands c) as [sc|] eqn:E.
      - constructor.
        + intros Hin. apply in_map_iff in Hin as [[ea ev] [Ee He]]. apply (proj1 acts_prefix_both) in He.
          simpl in Ee, He. subst ea. eapply prefix_longer_neq; eauto. discriminate.
        + eapply nth_error_Forall in IH; eauto.
      - simpl. repeat constructor. auto. }
    destruct (k =? 1).
    + destruct cs as [|cs0 [|]]; [constructor | apply Hs | constructor].
    + apply nodup_prefix_blocks with (a := a) (k := 0). intros i b Hb.
      apply nth_error_mapi in Hb as (cs0 & Hc & ->). simpl. split. apply Hs.
      intros e [<-|He]. simpl. apply prefix_refl.
      rewrite with_nth_nth_error in He. destruct (nth_error cands (fst cs0)) as [sc|] eqn:E; [|contradiction].
      apply (proj1 acts_prefix_both) in He. eapply prefix_app; eauto.
  - intros lo hi nm a x. destruct x; simpl; repeat constructor; auto.
  - intros nm a x. destruct x; simpl; repeat constructor; auto.
Qed.

(* ---- dictionaries ------------------------------------------------------------------------------------------------ *)
Lemma str_eqb_eq : forall s t, str_eqb s t = true <-> s = t.
Proof.
  intros. unfold str_eqb. split.
  - destruct (str_cmp s t) eqn:E; try discriminate. intros _.
    revert t E. induction s; destruct t; simpl; intros; try discriminate; auto.
    destruct (N.compare a n) eqn:En; try discriminate. apply N.compare_eq in En. subst. f_equal. auto.
  - intros ->. apply str_eqb_refl.
Qed.
Lemma ikey_eqb_eq : forall a b, ikey_eqb a b = true <-> a = b.
Proof.
  destruct a, b; simpl; split; intros H; try discriminate; try (inv H; fail).
  - apply str_eqb_eq in H. subst; auto.
  - inv H. apply str_eqb_refl.
  - apply Nat.eqb_eq in H. subst; auto.
  - inv H. apply Nat.eqb_refl.
  - apply andb_true_iff in H as [H1 H2]. apply Nat.eqb_eq in H1, H2. subst; auto.
  - inv H. rewrite !Nat.eqb_refl. auto.
Qed.
Lemma did_eqb_eq : forall a b, did_eqb a b = true <-> a = b.
Proof.
  induction a; destruct b; simpl; split; intros H; try discriminate; auto; try (inv H; fail).
  - apply andb_true_iff in H as [H1 H2]. apply ikey_eqb_eq in H1. apply IHa in H2. subst; auto.
  - inv H. apply andb_true_iff; split. apply ikey_eqb_eq; auto. apply IHa; auto.
Qed.
Lemma dkey_eqb_eq : forall a b, dkey_eqb a b = true <-> a = b.
Proof.
  destruct a, b; simpl; split; intros H; try discriminate; try (inv H; fail).
  - apply did_eqb_eq in H. subst; auto.
  - inv H. apply did_eqb_eq; auto.
  - apply str_eqb_eq in H. subst; auto.
  - inv H. apply str_eqb_refl.
  - unfold addr_eqb in H. destruct (list_eq_dec Nat.eq_dec a a0); [subst; auto|discriminate].
  - inv H. unfold addr_eqb. destruct (list_eq_dec Nat.eq_dec a0 a0); auto.
Qed.
Lemma dkey_eqb_refl : forall k, dkey_eqb k k = true. Proof. intros. apply dkey_eqb_eq. auto. Qed.
Lemma dkey_eqb_neq : forall a b, a <> b -> dkey_eqb a b = false.
Proof. intros. destruct (dkey_eqb a b) eqn:E; auto. apply dkey_eqb_eq in E. contradiction. Qed.

Lemma dget_dset_same : forall d k v, dget (dset d k v) k = Some v.
Proof.
  induction d as [|[k' v'] d IH]; intros; simpl. rewrite dkey_eqb_refl. auto.
  destruct (dkey_eqb k' k) eqn:E; simpl; rewrite E; auto.
Qed.
Lemma dget_dset_other : forall d k k' v, k <> k' -> dget (dset d k v) k' = dget d k'.
Proof.
  induction d as [|[k0 v0] d IH]; intros k k' v Hne; simpl.
  - rewrite dkey_eqb_neq; auto.
  - destruct (dkey_eqb k0 k) eqn:E; simpl.
    + apply dkey_eqb_eq in E. subst k0. rewrite dkey_eqb_neq; auto.
    + destruct (dkey_eqb k0 k'); auto.
Qed.
Lemma dget_dput_fresh : forall d k x, dget d k = None -> dget (dput d k x) k = Some (DS x).
Proof. intros. unfold dput. rewrite H. apply dget_dset_same. Qed.
Lemma dget_dput_other : forall d k k' x, k <> k' -> dget (dput d k x) k' = dget d k'.
Proof. intros. unfold dput. destruct (dget d k) as [[|]|]; apply dget_dset_other; auto. Qed.

(* a fold of puts under pairwise different keys stores every entry as a single value *)
Lemma puts_distinct : forall (es : list (dkey * dleaf)) d,
  NoDup (map fst es) -> (forall e, In e es -> dget d (fst e) = None) ->
  forall e, In e es -> dget (fold_left (fun acc e0 => dput acc (fst e0) (snd e0)) es d) (fst e) = Some (DS (snd e)).
Proof.
  induction es as [|e0 es IH]; intros d Hn Hf e Hin. inv Hin.
  inv Hn. simpl. destruct Hin as [->|Hin].
  - (* later puts use other keys *)
    assert (G : forall l dd, ~ In (fst e) (map fst l) ->
              dget (fold_left (fun acc e1 => dput acc (fst e1) (snd e1)) l dd) (fst e) = dget dd (fst e)).
    { induction l as [|e1 l IHl]; intros dd Hni; simpl; auto. rewrite IHl.
      apply dget_dput_other. intros E. apply Hni. simpl. auto. intros H; apply Hni; simpl; auto. }
    rewrite G; auto. apply dget_dput_fresh. apply Hf. simpl; auto.
  - apply IH; auto. intros e1 He1. rewrite dget_dput_other. apply Hf; simpl; auto.
    intros E. apply H1. rewrite E. apply in_map; auto.
Qed.

(* ---- from_dict reads the view back ------------------------------------------------------------------------------- *)
Section Loops.
  Variable ial : bool.
  Section SpaceLoop.
    Variables (a : addr) (pid : did).
    Fixpoint space_loop (i : nat) (es : list dpoint) (d : dict) : option (list dna * dict) :=
      match es with
      | [] => Some ([], d)
      | e :: r => match make_dna_p ial e (a ++ [i]) pid d with
                  | Some (x, d1) => match space_loop (S i) r d1 with Some (xs, d2) => Some (x :: xs, d2) | None => None end
                  | None => None end
      end.
  End SpaceLoop.
  Section ChoiceLoop.
    Variables (k : nat) (cands : list dspec) (name : option str) (lits : list lit) (a : addr) (id : did).
    Fixpoint choice_loop (idxs : list nat) (d : dict) : option (list dna * dict) :=
      let n := length cands in
      let multi := negb (k =? 1) in
      match idxs with
      | [] => Some ([], d)
      | i :: r =>
          let a' := if multi then a ++ [i] else a in
          let id' := if multi then id ++ [KIdx i] else id in
          let (v0, d0) := get_decision id' a' name d in
          let (v1, d1) := match v0 with
                          | Some v => (Some v, d0)
                          | None => if multi then
                                      match get_decision id a name d0 with
                                      | (Some (DL l), d') => (if length l =? k then match nth_error l i with Some x => Some (DS x) | None => None end else None, d')
                                      | (Some (DS _), d') => (None, d')
                                      | (None, d') => (None, d') end
                                    else (None, d0)
                          end in
          match v1 with
          | Some (DS (LfDna sub)) =>
              match choice_loop r d1 with Some (xs, d2) => Some (sub :: xs, d2) | None => None end
          | Some (DS x) =>
              match choice_index ial n lits x with
              | None => None
              | Some c =>
                  match with_nth (fun cand => make_dna ial cand (a' ++ [c]) (id' ++ [KCond c n]) d1) None cands c with
                  | Some (sub, d2) =>
                      match choice_loop r d2 with
                      | Some (xs, d3) => Some (mk (VInt (Z.of_nat c)) [sub] :: xs, d3)
                      | None => None end
                  | None => None end
              end
          | _ => None
          end
      end.
  End ChoiceLoop.
End Loops.
Lemma make_dna_space : forall ial es a pid d,
  make_dna ial (Space es) a pid d =
  match space_loop ial a pid 0 es d with Some (cs, d') => Some (mk VNone cs, d') | None => None end.
Proof. reflexivity. Qed.
Lemma make_dna_p_choices : forall ial k cands dist srt loc name lits a pid d,
  make_dna_p ial (Choices k cands dist srt (loc, name) lits) a pid d =
  match choice_loop ial k cands name lits a (pid ++ loc) (seq 0 k) d with
  | Some (cs, d') => Some (mk VNone cs, d') | None => None end.
Proof. reflexivity. Qed.

(* literal values of every choice of the specification *)
Fixpoint all_lits (s : dspec) : list (list lit) := match s with Space es => concat (map all_lits_p es) end
with all_lits_p (p : dpoint) : list (list lit) :=
  match p with Choices _ cands _ _ _ lits => lits :: concat (map all_lits cands) | _ => [] end.

Definition key1 (infos : list dpinfo) (e : addr * aval) : dkey :=
  match info_at infos (fst e) with Some i => DKId (i_id i) | None => DKId [] end.
Definition leaf1 (infos : list dpinfo) (vt : value_type) (e : addr * aval) : dleaf :=
  match info_at infos (fst e) with
  | Some i => match snd e, i_kind i with
              | AChoice c, PKChoice n lits => format_candidate vt n lits c (D VNone [])
              | AFlt f, _ => LfV (VFlt f)
              | AStr s, _ => LfV (VStr s)
              | _, _ => LfNone end
  | None => LfNone
  end.
Definition carry (infos : list dpinfo) (vt : value_type) (dd : dict) (l : list (addr * aval)) : Prop :=
  forall e, In e l -> dget dd (key1 infos e) = Some (DS (leaf1 infos vt e)).

Lemma get_decision_found : forall id a name dd x, dget dd (DKId id) = Some (DS x) -> leaf_is_none x = false ->
  get_decision id a name dd = (Some (DS x), dd).
Proof. intros. unfold get_decision. rewrite H. simpl. rewrite H0. reflexivity. Qed.
Lemma format_candidate_not_none : forall vt n lits c node, leaf_is_none (format_candidate vt n lits c node) = false.
Proof. intros. destruct vt; simpl; auto; destruct (nth_error lits c); auto. Qed.

Lemma choice_loop_cons : forall ial k cands name lits a id i r d,
  choice_loop ial k cands name lits a id (i :: r) d =
  let n := length cands in
  let multi := negb (k =? 1) in
  let a' := if multi then a ++ [i] else a in
  let id' := if multi then id ++ [KIdx i] else id in
  let (v0, d0) := get_decision id' a' name d in
  let (v1, d1) := match v0 with
                  | Some v => (Some v, d0)
                  | None => if multi then
                              match get_decision id a name d0 with
                              | (Some (DL l), d') => (if length l =? k then match nth_error l i with Some x => Some (DS x) | None => None end else None, d')
                              | (Some (DS _), d') => (None, d')
                              | (None, d') => (None, d') end
                            else (None, d0)
                  end in
  match v1 with
  | Some (DS (LfDna sub)) =>
      match choice_loop ial k cands name lits a id r d1 with Some (xs, d2) => Some (sub :: xs, d2) | None => None end
  | Some (DS x) =>
      match choice_index ial n lits x with
      | None => None
      | Some c =>
          match with_nth (fun cand => make_dna ial cand (a' ++ [c]) (id' ++ [KCond c n]) d1) None cands c with
          | Some (sub, d2) =>
              match choice_loop ial k cands name lits a id r d2 with
              | Some (xs, d3) => Some (mk (VInt (Z.of_nat c)) [sub] :: xs, d3)
              | None => None end
          | None => None end
      end
  | _ => None
  end.
Proof. reflexivity. Qed.

Lemma mapi2_nth_in : forall A B C (g : nat -> A -> B -> C) es ds k j e x,
  nth_error es j = Some e -> nth_error ds j = Some x -> In (g (k + j) e x) (mapi2 g k es ds).
Proof.
  induction es as [|e1 es IH]; intros [|x1 ds] k [|j] e x He Hx; simpl in *; try discriminate.
  - inv He; inv Hx. left. rewrite Nat.add_0_r. reflexivity.
  - right. replace (k + S j) with (S k + j) by lia. eapply IH; eauto.
Qed.
Lemma mapi_nth_in : forall A C (g : nat -> A -> C) l k j e,
  nth_error l j = Some e -> In (g (k + j) e) (mapi g k l).
Proof.
  induction l as [|e1 l IH]; intros k [|j] e He; simpl in *; try discriminate.
  - inv He. left. rewrite Nat.add_0_r. reflexivity.
  - right. replace (k + S j) with (S k + j) by lia. eapply IH; eauto.
Qed.

Section ReadBack.
  Variables (infos : list dpinfo) (vt : value_type).
  Hypothesis Hvt : vt <> VT_dna.
  Notation ial := (ial_of vt).

  Lemma readback_both :
    (forall s, wf s = true -> forall sd a pid dd, valid s sd = true -> agree infos (dps s a pid) a ->
       carry infos vt dd (acts s a sd) -> (vt = VT_literal -> Forall lits_distinct (all_lits s)) ->
       make_dna ial s a pid dd = Some (normalize sd, dd)) /\
    (forall p, wf_p p = true -> forall x a pid dd, valid_p p x = true -> agree infos (dps_p p a pid) a ->
       carry infos vt dd (acts_p p a x) -> (vt = VT_literal -> Forall lits_distinct (all_lits_p p)) ->
       make_dna_p ial p a pid dd = Some (norm_p x, dd)).
  Proof.
    apply dspec_dpoint_ind.
    - (* Space *)
      intros es IH Hwf [ds] a pid dd Hv Hag Hc Hl. simpl in Hwf. simpl in Hv. apply forallb2_Forall2 in Hv.
      rewrite make_dna_space.
      assert (Hel : forall j e, nth_error es j = Some e -> agree infos (dps_p e (a ++ [j]) pid) (a ++ [j])).
      { intros j e He. eapply agree_trans; [exact Hag | exists [j]; reflexivity |].
        simpl. apply (agree_mapi _ (fun i e0 => dps_p e0 (a ++ [i]) pid) a es 0 j e); auto.
        intros i e0 He0 x Hx. simpl in *. eapply (proj2 dps_prefix_both); eauto. }
      assert (G : forall es' ds' i, Forall2 (fun e x => valid_p e x = true) es' ds' ->
                  (forall j e x, nth_error es' j = Some e -> nth_error ds' j = Some x ->
                                 make_dna_p ial e (a ++ [i + j]) pid dd = Some (norm_p x, dd)) ->
                  space_loop ial a pid i es' dd = Some (map norm_p ds', dd)).
      { induction es' as [|e es' IHe]; intros ds' i Hv' Hm; inversion Hv' as [|? x ? ds'' Hx Hds]; subst; simpl. reflexivity.
        pose proof (Hm 0 e x eq_refl eq_refl) as H0. rewrite Nat.add_0_r in H0. rewrite H0.
        rewrite (IHe ds'' (S i) Hds). reflexivity.
        intros j e' x' He' Hx'. replace (S i + j) with (i + S j) by lia. apply (Hm (S j) e' x'); auto. }
      rewrite (G es ds 0 Hv). reflexivity.
      intros j e x He Hx. simpl.
      rewrite Forall_forall in IH. rewrite forallb_forall in Hwf.
      apply (IH e (nth_error_In _ _ He) (Hwf e (nth_error_In _ _ He)) x (a ++ [j]) pid dd); auto.
      + clear - Hv He Hx. revert j He Hx. induction Hv; intros [|j] He Hx; simpl in *; try discriminate.
        inv He; inv Hx; auto. eapply IHHv; eauto.
      + intros e0 He0. apply Hc. simpl. apply in_concat. exists (acts_p e (a ++ [j]) x). split; auto.
        apply (mapi2_nth_in _ _ _ (fun i e1 x1 => acts_p e1 (a ++ [i]) x1) es ds 0 j e x He Hx).
      + intros E. specialize (Hl E). simpl in Hl. rewrite Forall_forall in *. intros l Hin. apply Hl.
        apply in_concat. exists (all_lits_p e). split; auto. apply in_map. eapply nth_error_In; eauto.
    - (* Choices *)
      intros k cands dist srt [loc name] lits IH Hwf x a pid dd Hv Hag Hc Hl.
      pose proof (shape_p _ x Hwf Hv) as Hs. cbv beta iota in Hs.
      pose proof Hwf as Hwf0. apply wf_p_choices in Hwf as (Hk & Hn & Hdk & Hwc).
      assert (Hlw : length lits = 0 \/ length lits = length cands).
      { change (((1 <=? k) && (1 <=? length cands) && (negb dist || (k <=? length cands)) &&
                 ((length lits =? 0) || (length lits =? length cands)) && forallb wf cands) = true) in Hwf0.
        apply andb_true_iff in Hwf0 as [Hw _]. apply andb_true_iff in Hw as [_ Hw].
        apply orb_true_iff in Hw as [Hw|Hw]; apply Nat.eqb_eq in Hw; auto. }
      rewrite dps_p_choices_unfold in Hag. rewrite make_dna_p_choices.
      (* one step of the loop *)
      assert (Hstep : forall a' id' sub c sb,
                c < length cands -> with_nth (fun s => valid s sb) false cands c = true ->
                agree infos (single_block cands name lits a' id' sub) a' ->
                carry infos vt dd ((a', AChoice c) :: with_nth (fun sc => acts sc (a' ++ [c]) sb) [] cands c) ->
                get_decision id' a' name dd = (Some (DS (format_candidate vt (length cands) lits c (D VNone []))), dd) /\
                with_nth (fun cand => make_dna ial cand (a' ++ [c]) (id' ++ [KCond c (length cands)]) dd) None cands c = Some (normalize sb, dd)).
      { intros a' id' sub c sb Hcn Hvs Ha' Hc'. split.
        - apply get_decision_found; [|apply format_candidate_not_none].
          specialize (Hc' (a', AChoice c) (or_introl eq_refl)). unfold key1, leaf1 in Hc'. cbn [fst snd] in Hc'.
          rewrite (Ha' a' (prefix_refl a')) in Hc'. unfold single_block in Hc'. rewrite info_at_head in Hc'.
          cbn [i_id i_kind] in Hc'. exact Hc'.
        - rewrite with_nth_nth_error in *. destruct (nth_error cands c) as [sc|] eqn:E; [|discriminate].
          rewrite forallb_forall in Hwc. eapply nth_error_Forall in IH; eauto.
          apply (IH (Hwc sc (nth_error_In _ _ E))); auto.
          + eapply agree_single_cand; eauto.
          + intros e He. apply Hc'. right. exact He.
          + intros Ev. specialize (Hl Ev). simpl in Hl. apply Forall_cons_iff in Hl as [_ Hl].
            rewrite Forall_forall in *. intros l Hin. apply Hl. apply in_concat. exists (all_lits sc). split; auto.
            apply in_map. eapply nth_error_In; eauto. }
      assert (Hci : forall c, c < length cands ->
                choice_index ial (length cands) lits (format_candidate vt (length cands) lits c (D VNone [])) = Some c).
      { intros c Hcn. apply choice_index_format; auto. intros Ev. specialize (Hl Ev). simpl in Hl.
        apply Forall_cons_iff in Hl as [Hl _]. exact Hl. }
      assert (Hnd : forall c, match format_candidate vt (length cands) lits c (D VNone []) with LfDna _ => False | _ => True end).
      { intros c. destruct vt; simpl; auto; try congruence; destruct (nth_error lits c); auto. }
      destruct (k =? 1) eqn:Ek.
      + destruct Hs as (c & sb & -> & Hn1). rewrite Hn1.
        apply Nat.eqb_eq in Ek. subst k.
        apply valid_p_choices in Hv as [_ [[_ Hbd] Hf]].
        apply Forall_cons_iff in Hbd as [Hbd _]. apply Forall_cons_iff in Hf as [Hf _]. simpl in Hbd, Hf.
        change (acts_p (Choices 1 cands dist srt (loc, name) lits) a (PChoices [(c, sb)])) with
          ((a, AChoice c) :: with_nth (fun sc => acts sc (a ++ [c]) sb) [] cands c) in Hc.
        destruct (Hstep a (pid ++ loc) None c sb Hbd Hf Hag Hc) as [Hg Hm].
        simpl seq. rewrite choice_loop_cons. simpl negb. cbv zeta. cbv iota. rewrite Hg.
        specialize (Hnd c). specialize (Hci c Hbd).
        destruct (format_candidate vt (length cands) lits c (D VNone [])) eqn:Ef; try contradiction;
          rewrite Hci, Hm; reflexivity.
      + destruct Hs as (cs & -> & Hlen & Hn2). rewrite Hn2.
        apply valid_p_choices in Hv as [_ [[_ Hbd] Hf]].
        change (acts_p (Choices k cands dist srt (loc, name) lits) a (PChoices cs)) with
          (if k =? 1 then match cs with [cs0] => (a, AChoice (fst cs0)) :: with_nth (fun sc => acts sc (a ++ [fst cs0]) (snd cs0)) [] cands (fst cs0) | _ => [] end else
             concat (mapi (fun i (cs0 : nat * sdna) => (a ++ [i], AChoice (fst cs0)) :: with_nth (fun sc => acts sc ((a ++ [i]) ++ [fst cs0]) (snd cs0)) [] cands (fst cs0)) 0 cs)) in Hc.
        rewrite Ek in Hc.
        assert (G : forall (l : list (nat * sdna)) s0, s0 + length l = k ->
                  (forall j cs0, nth_error l j = Some cs0 ->
                      fst cs0 < length cands /\ with_nth (fun s => valid s (snd cs0)) false cands (fst cs0) = true /\
                      carry infos vt dd ((a ++ [s0 + j], AChoice (fst cs0)) :: with_nth (fun sc => acts sc ((a ++ [s0 + j]) ++ [fst cs0]) (snd cs0)) [] cands (fst cs0))) ->
                  choice_loop ial k cands name lits a (pid ++ loc) (seq s0 (length l)) dd =
                  Some (map (fun cs0 => mk (VInt (Z.of_nat (fst cs0))) [normalize (snd cs0)]) l, dd)).
        { induction l as [|[c sb] l IHl]; intros s0 Hs0 Hall. reflexivity.
          destruct (Hall 0 (c, sb) eq_refl) as (Hcn & Hvs & Hcar). cbn [fst snd] in *. rewrite Nat.add_0_r in Hcar.
          assert (Hs0k : s0 < k) by (simpl in Hs0; lia).
          assert (Hblk : agree infos (single_block cands name lits (a ++ [s0]) ((pid ++ loc) ++ [KIdx s0]) (Some (s0, a, pid ++ loc))) (a ++ [s0])).
          { eapply agree_trans; [exact Hag | exists [s0]; reflexivity |].
            rewrite <- app_assoc.
            apply (agree_map_seq (fun i => single_block cands name lits (a ++ [i]) (pid ++ loc ++ [KIdx i]) (Some (i, a, pid ++ loc))) a k 0 s0).
            - intros i Hi y Hy. eapply single_block_prefix; eauto.
            - lia. }
          destruct (Hstep (a ++ [s0]) ((pid ++ loc) ++ [KIdx s0]) (Some (s0, a, pid ++ loc)) c sb Hcn Hvs Hblk Hcar) as [Hg Hm].
          simpl length. simpl seq.
          rewrite choice_loop_cons.
          cbv zeta. rewrite Ek. simpl negb. cbv iota. rewrite Hg.
          specialize (Hnd c). specialize (Hci c Hcn).
          assert (IHl' : choice_loop ial k cands name lits a (pid ++ loc) (seq (S s0) (length l)) dd =
                         Some (map (fun cs0 => mk (VInt (Z.of_nat (fst cs0))) [normalize (snd cs0)]) l, dd)).
          { apply IHl. simpl in Hs0. lia. intros j cs0 Hj. replace (S s0 + j) with (s0 + S j) by lia. apply (Hall (S j) cs0 Hj). }
          destruct (format_candidate vt (length cands) lits c (D VNone [])) eqn:Ef; try contradiction;
            rewrite Hci, Hm, IHl'; reflexivity. }
        replace (seq 0 k) with (seq 0 (length cs)) by (rewrite Hlen; reflexivity).
        rewrite (G cs 0); [rewrite mk_none_many; [reflexivity | rewrite map_length; apply Nat.eqb_neq in Ek; lia] | simpl; auto |].
        intros j [c sb] Hj. cbn [fst snd]. rewrite Forall_forall in Hbd, Hf.
        assert (Hin : In (c, sb) cs) by (eapply nth_error_In; eauto).
        split. apply (Hbd c). apply in_map_iff. exists (c, sb); auto.
        split. apply (Hf (c, sb)); auto.
        intros e He. apply Hc. apply in_concat.
        exists ((a ++ [j], AChoice c) :: with_nth (fun sc => acts sc ((a ++ [j]) ++ [c]) sb) [] cands c). split; auto.
        apply (mapi_nth_in _ _ (fun i (cs0 : nat * sdna) => (a ++ [i], AChoice (fst cs0)) :: with_nth (fun sc => acts sc ((a ++ [i]) ++ [fst cs0]) (snd cs0)) [] cands (fst cs0)) cs 0 j (c, sb) Hj).
    - (* Float *)
      intros lo hi [loc name] Hwf x a pid dd Hv Hag Hc Hl. destruct x; try discriminate.
      specialize (Hc (a, AFlt f) (or_introl eq_refl)). unfold key1, leaf1 in Hc. cbn [fst snd] in Hc.
      rewrite (Hag a (prefix_refl a)) in Hc. simpl dps_p in Hc. rewrite info_at_head in Hc. cbn [i_id i_kind] in Hc.
      simpl make_dna_p. rewrite (get_decision_found _ _ _ _ _ Hc eq_refl). simpl in Hv. rewrite Hv. reflexivity.
    - intros [loc name] Hwf x a pid dd Hv Hag Hc Hl. destruct x; try discriminate.
      specialize (Hc (a, AStr s) (or_introl eq_refl)). unfold key1, leaf1 in Hc. cbn [fst snd] in Hc.
      rewrite (Hag a (prefix_refl a)) in Hc. simpl dps_p in Hc. rewrite info_at_head in Hc. cbn [i_id i_kind] in Hc.
      simpl make_dna_p. rewrite (get_decision_found _ _ _ _ _ Hc eq_refl). reflexivity.
  Qed.
End ReadBack.

(* every active decision has its decision point among the infos, of the right kind *)
Lemma acts_kinded_both : forall infos,
  (forall s, wf s = true -> forall sd a pid e, valid s sd = true -> agree infos (dps s a pid) a -> In e (acts s a sd) ->
     exists i, info_at infos (fst e) = Some i /\ In i (dps s a pid) /\ i_addr i = fst e /\
               (forall c, snd e = AChoice c -> exists n lits, i_kind i = PKChoice n lits)) /\
  (forall p, wf_p p = true -> forall x a pid e, valid_p p x = true -> agree infos (dps_p p a pid) a -> In e (acts_p p a x) ->
     exists i, info_at infos (fst e) = Some i /\ In i (dps_p p a pid) /\ i_addr i = fst e /\
               (forall c, snd e = AChoice c -> exists n lits, i_kind i = PKChoice n lits)).
Proof.
  intros infos. apply dspec_dpoint_ind.
  - intros es IH Hwf [ds] a pid e0 Hv Hag Hin. simpl in Hwf, Hv. apply forallb2_Forall2 in Hv. simpl in Hin.
    apply in_concat in Hin as [b [Hb Hin]]. apply In_nth_error in Hb as [j Hj].
    apply nth_error_mapi2 in Hj as (p & x & Hp & Hx & ->). simpl in Hin.
    assert (Hel : agree infos (dps_p p (a ++ [j]) pid) (a ++ [j])).
    { eapply agree_trans; [exact Hag | exists [j]; reflexivity |].
      simpl. apply (agree_mapi _ (fun i e1 => dps_p e1 (a ++ [i]) pid) a es 0 j p); auto.
      intros i e1 He1 y Hy. simpl in *. eapply (proj2 dps_prefix_both); eauto. }
    rewrite Forall_forall in IH. rewrite forallb_forall in Hwf.
    assert (Hvx : valid_p p x = true).
    { clear - Hv Hp Hx. revert j Hp Hx. induction Hv; intros [|j] Hp Hx; simpl in *; try discriminate. inv Hp; inv Hx; auto. eapply IHHv; eauto. }
    destruct (IH p (nth_error_In _ _ Hp) (Hwf p (nth_error_In _ _ Hp)) x (a ++ [j]) pid e0 Hvx Hel Hin) as (i & H1 & H2 & H3 & H4).
    exists i. repeat split; auto. simpl. apply in_concat_mapi. exists j, p. split; auto.
  - intros k cands dist srt [loc name] lits IH Hwf x a pid e0 Hv Hag Hin.
    pose proof Hwf as Hwf0. apply wf_p_choices in Hwf as (Hk & Hn & Hdk & Hwc).
    destruct x as [cs| |]; try discriminate.
    apply valid_p_choices in Hv as [Hlen [[_ Hbd] Hf]].
    rewrite dps_p_choices_unfold in *.
    assert (Hs : forall a' id' sub (cs0 : nat * sdna), In cs0 cs ->
              agree infos (single_block cands name lits a' id' sub) a' ->
              In e0 ((a', AChoice (fst cs0)) :: with_nth (fun sc => acts sc (a' ++ [fst cs0]) (snd cs0)) [] cands (fst cs0)) ->
              exists i, info_at infos (fst e0) = Some i /\ In i (single_block cands name lits a' id' sub) /\ i_addr i = fst e0 /\
                        (forall c, snd e0 = AChoice c -> exists n lits0, i_kind i = PKChoice n lits0)).
    { intros a' id' sub [c sb] Hcs Ha' [<-|Hin'].
      - cbn [fst snd]. rewrite (Ha' a' (prefix_refl a')). unfold single_block. rewrite info_at_head.
        eexists. split; [reflexivity|]. split; [left; reflexivity|]. split; [reflexivity|]. intros; simpl; eauto.
      - cbn [fst snd] in Hin'. rewrite with_nth_nth_error in Hin'. destruct (nth_error cands c) as [sc|] eqn:E; [|contradiction].
        rewrite forallb_forall in Hwc. rewrite Forall_forall in Hf. specialize (Hf (c, sb) Hcs). simpl in Hf.
        rewrite with_nth_nth_error, E in Hf. eapply nth_error_Forall in IH; eauto.
        destruct (IH (Hwc sc (nth_error_In _ _ E)) sb (a' ++ [c]) (id' ++ [KCond c (length cands)]) e0 Hf
                     (agree_single_cand infos cands name lits a' id' sub c sc Ha' E) Hin') as (i & H1 & H2 & H3 & H4).
        exists i. repeat split; auto. right. apply in_concat_mapi. exists c, sc. split; auto. }
    simpl in Hin. destruct (k =? 1) eqn:Ek.
    + destruct cs as [|cs0 [|]]; try contradiction. eapply Hs; eauto. simpl; auto.
    + apply in_concat in Hin as [b [Hb Hin]]. apply In_nth_error in Hb as [j Hj].
      apply nth_error_mapi in Hj as (cs0 & Hc & ->). simpl in Hin.
      assert (Hjk : j < k). { rewrite <- Hlen. apply nth_error_Some. rewrite Hc. discriminate. }
      assert (Hblk : agree infos (single_block cands name lits (a ++ [j]) (pid ++ loc ++ [KIdx j]) (Some (j, a, pid ++ loc))) (a ++ [j])).
      { eapply agree_trans; [exact Hag | exists [j]; reflexivity |].
        apply (agree_map_seq (fun i => single_block cands name lits (a ++ [i]) (pid ++ loc ++ [KIdx i]) (Some (i, a, pid ++ loc))) a k 0 j).
        - intros i Hi y Hy. eapply single_block_prefix; eauto.
        - lia. }
      destruct (Hs (a ++ [j]) (pid ++ loc ++ [KIdx j]) (Some (j, a, pid ++ loc)) cs0 (nth_error_In _ _ Hc) Hblk Hin) as (i & H1 & H2 & H3 & H4).
      exists i. repeat split; auto. apply in_concat. eexists. split; [|exact H2]. apply in_map_iff. exists j. split; auto. apply in_seq. lia.
  - intros lo hi [loc name] Hwf x a pid e0 Hv Hag Hin. destruct x; try discriminate. destruct Hin as [<-|[]].
    cbn [fst snd]. rewrite (Hag a (prefix_refl a)). simpl dps_p. rewrite info_at_head.
    eexists. split; [reflexivity|]. split; [left; reflexivity|]. split; [reflexivity|]. intros c E; discriminate.
  - intros [loc name] Hwf x a pid e0 Hv Hag Hin. destruct x; try discriminate. destruct Hin as [<-|[]].
    cbn [fst snd]. rewrite (Hag a (prefix_refl a)). simpl dps_p. rewrite info_at_head.
    eexists. split; [reflexivity|]. split; [left; reflexivity|]. split; [reflexivity|]. intros c E; discriminate.
Qed.

(* ids of the decision points are pairwise different (what unique locations give) *)
Definition ids_unique (s : dspec) : Prop := NoDup (map i_id (decision_points s)).

Lemma root_agree : forall s, agree (decision_points s) (dps s [] []) [].
Proof. intros s a' _. reflexivity. Qed.
Lemma root_addr_none : forall s, info_at (decision_points s) [] = None.
Proof.
  intros [es]. apply info_at_none. intros i Hi. unfold decision_points in Hi. simpl in Hi.
  apply in_concat_mapi in Hi as (j & e & He & Hi). simpl in Hi. apply (proj2 dps_prefix_both) in Hi.
  destruct Hi as [t Ht]. rewrite Ht. discriminate.
Qed.

Theorem to_dict_acts : forall q s sd vt b, wf s = true -> valid s sd = true -> vt <> VT_dna ->
  bind q s (normalize sd) = Some b ->
  to_dict (decision_points s) KT_id vt MC_subchoice false b = puts (decision_points s) KT_id vt (acts s [] sd) [].
Proof.
  intros q [es] [ds] vt b Hwf Hv Hvt Hb. unfold to_dict.
  set (infos := decision_points (Space es)).
  pose proof Hv as Hv0. simpl in Hwf, Hv. apply forallb2_Forall2 in Hv.
  rewrite (shape_s es ds Hwf Hv) in Hb. unfold bind in Hb. pose proof (Forall2_len _ _ _ _ _ Hv) as Hl.
  assert (Hel : forall j e, nth_error es j = Some e -> agree infos (dps_p e [j] []) [j]).
  { intros j e He. eapply agree_trans; [apply root_agree | exists [j]; reflexivity |].
    simpl. apply (agree_mapi _ (fun i e0 => dps_p e0 ([] ++ [i]) []) [] es 0 j e); auto.
    intros i e0 He0 x Hx. simpl in *. eapply (proj2 dps_prefix_both); eauto. }
  destruct es as [|e [|e2 es]]; destruct ds as [|x [|y r]]; simpl in Hl; try lia.
  - simpl in Hb. inv Hb. reflexivity.
  - inversion Hv as [|? ? ? ? He _]; subst. simpl in Hwf. rewrite andb_true_r in Hwf.
    change (acts (Space [e]) [] (SSpace [x])) with (acts_p e [0] x ++ []). rewrite app_nil_r.
    apply (proj2 (dump_both q infos KT_id vt Hvt) e Hwf x [0] b [] [] He Hb (Hel 0 e eq_refl)).
  - cbn [Geno.dvalue dkids is_none] in Hb.
    destruct (bind_all (fun i e0 c => bind_p q e0 [i] c) 0 (e :: e2 :: es) (map norm_p (x :: y :: r))) as [bs|] eqn:Ea; [|discriminate].
    simpl in Hb. inv Hb. rewrite dump_unfold.
    assert (E0 : info_at infos [] = None) by apply root_addr_none. rewrite E0.
    apply (fold_bind_all _ _ (fun i e0 d => bind_p q e0 [i] d) norm_p (fun i e0 x0 => acts_p e0 ([] ++ [i]) x0)
             (dump infos KT_id vt MC_subchoice) (puts infos KT_id vt) (puts_app infos KT_id vt) (fun d => eq_refl)
             (e :: e2 :: es) (x :: y :: r) 0 bs [] Ea).
    intros j e' x' b' d He' Hx' Hf. simpl in Hf.
    rewrite forallb_forall in Hwf.
    apply (proj2 (dump_both q infos KT_id vt Hvt) e' (Hwf e' (nth_error_In _ _ He')) x' [j] b' [] d); auto.
    clear - Hv He' Hx'. revert j He' Hx'. induction Hv; intros [|j] He' Hx'; simpl in *; try discriminate.
    inv He'; inv Hx'; auto. eapply IHHv; eauto.
Qed.

Lemma NoDup_map_inj : forall A B (f : A -> B) l x y, NoDup (map f l) -> In x l -> In y l -> f x = f y -> x = y.
Proof.
  induction l as [|a l IH]; intros x y Hn Hx Hy E. inv Hx. inv Hn. destruct Hx as [->|Hx], Hy as [->|Hy]; auto.
  - exfalso. apply H1. rewrite E. apply in_map; auto.
  - exfalso. apply H1. rewrite <- E. apply in_map; auto.
Qed.
Lemma NoDup_map_inj_on : forall A B C (f : A -> B) (g : A -> C) l,
  NoDup (map f l) -> (forall x y, In x l -> In y l -> g x = g y -> f x = f y) -> NoDup (map g l).
Proof.
  induction l as [|a l IH]; intros Hn Hi; simpl. constructor. inv Hn. constructor.
  - intros Hin. apply in_map_iff in Hin as [y [Ey Hy]]. apply H1.
    rewrite (Hi a y); simpl; auto. apply in_map; auto.
  - apply IH; auto. intros; apply Hi; simpl; auto.
Qed.

Theorem to_dict_reports : forall q s sd vt b, wf s = true -> valid s sd = true -> vt <> VT_dna ->
  ids_unique s -> bind q s (normalize sd) = Some b ->
  carry (decision_points s) vt (to_dict (decision_points s) KT_id vt MC_subchoice false b) (acts s [] sd).
Proof.
  intros q s sd vt b Hwf Hv Hvt Hid Hb.
  rewrite (to_dict_acts q s sd vt b Hwf Hv Hvt Hb).
  set (infos := decision_points s). set (L := acts s [] sd).
  assert (Hk : forall e, In e L -> exists i, info_at infos (fst e) = Some i /\ In i infos /\ i_addr i = fst e /\
                                   (forall c, snd e = AChoice c -> exists n lits, i_kind i = PKChoice n lits)).
  { intros e He. apply (proj1 (acts_kinded_both infos) s Hwf sd [] [] e Hv (root_agree s) He). }
  assert (Hput : forall e d, In e L -> put1 infos KT_id vt d e = dput d (key1 infos e) (leaf1 infos vt e)).
  { intros [ea ev] d He. destruct (Hk _ He) as (i & Hi & _ & _ & Hc). unfold put1, key1, leaf1. cbn [fst snd] in *. rewrite Hi.
    destruct ev; auto. destruct (Hc c eq_refl) as (n & lits & Ek). rewrite Ek. reflexivity. }
  assert (Hfold : forall l d, (forall e, In e l -> In e L) ->
            puts infos KT_id vt l d = fold_left (fun acc e0 => dput acc (fst e0) (snd e0)) (map (fun e => (key1 infos e, leaf1 infos vt e)) l) d).
  { induction l as [|e l IHl]; intros d Hin; simpl; auto. unfold puts in *. simpl. rewrite Hput by (apply Hin; simpl; auto).
    apply IHl. intros; apply Hin; simpl; auto. }
  assert (Hnd : NoDup (map (key1 infos) L)).
  { apply (NoDup_map_inj_on _ _ _ fst (key1 infos) L (proj1 acts_nodup_both s [] sd)).
    intros x y Hx Hy E. destruct (Hk _ Hx) as (ix & Hix & Hinx & Hax & _). destruct (Hk _ Hy) as (iy & Hiy & Hiny & Hay & _).
    unfold key1 in E. rewrite Hix, Hiy in E. inv E.
    rewrite <- Hax, <- Hay. f_equal. eapply (NoDup_map_inj _ _ i_id infos); eauto. }
  intros e He. rewrite Hfold by auto.
  apply (puts_distinct (map (fun e0 => (key1 infos e0, leaf1 infos vt e0)) L) []
           ltac:(rewrite map_map; exact Hnd) ltac:(intros; reflexivity) (key1 infos e, leaf1 infos vt e)).
  apply in_map_iff. exists e. auto.
Qed.

Theorem dict_roundtrip_id : forall q s sd vt b, wf s = true -> valid s sd = true -> vt <> VT_dna ->
  ids_unique s -> (vt = VT_literal -> Forall lits_distinct (all_lits s)) ->
  bind q s (normalize sd) = Some b ->
  from_dict (ial_of vt) q s (to_dict (decision_points s) KT_id vt MC_subchoice false b) = Some b.
Proof.
  intros q s sd vt b Hwf Hv Hvt Hid Hl Hb.
  pose proof (to_dict_reports q s sd vt b Hwf Hv Hvt Hid Hb) as Hcarry.
  unfold from_dict.
  rewrite (proj1 (readback_both (decision_points s) vt Hvt) s Hwf sd [] [] _ Hv (root_agree s) Hcarry Hl).
  exact Hb.
Qed.

(* non-vacuity of the hypotheses of dict_roundtrip_id *)
Definition ex_dict_spec : dspec :=
  Space [ Choices 2 [Space []; Space [Choices 1 [Space []; Space []] true false ([KName [120%N]], None) [LStr [117%N]; LStr [118%N]]]; Space []]
            true false ([KName [97%N]], Some [109%N]) [LInt 10%Z; LInt 11%Z; LInt 12%Z];
          FloatP 0%Z 64%Z ([KName [98%N]], None) ].
Example ex_dict_hyps :
  wf ex_dict_spec = true /\ ids_unique ex_dict_spec /\ Forall lits_distinct (all_lits ex_dict_spec).
Proof.
  split; [reflexivity|]. split.
  - unfold ids_unique. vm_compute. repeat (constructor; [simpl; intuition discriminate|]). constructor.
  - vm_compute. repeat constructor; intros i j li lj Hi Hj He;
      repeat (destruct i as [|i]; simpl in Hi; try discriminate); repeat (destruct j as [|j]; simpl in Hj; try discriminate);
      try reflexivity; inv Hi; inv Hj; simpl in He; discriminate.
Qed.

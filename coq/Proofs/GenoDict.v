(* GenoDict.v — dictionary views (property C12): addresses of decision points are unique, to_dict of the
   bound DNA of a valid decision lists the active decisions in order, from_dict reads them back. *)
From PG Require Import Common.Tactics Model.Geno Model.GenoViews Proofs.GenoBasics Proofs.GenoValid Proofs.GenoNext
  Proofs.GenoConcrete Proofs.GenoViewsProofs.

(* ---- addresses ---------------------------------------------------------------------------------------------- *)
Definition prefix (a b : addr) : Prop := exists t, b = a ++ t.
Lemma prefix_refl : forall a, prefix a a. Proof. intros a. exists []. rewrite app_nil_r. auto. Qed.
Lemma prefix_app : forall a t b, prefix (a ++ t) b -> prefix a b.
Proof. intros a t b [u ->]. exists (t ++ u). rewrite app_assoc. auto. Qed.
Lemma prefix_snoc_neq : forall a i j b, i <> j -> prefix (a ++ [i]) b -> ~ prefix (a ++ [j]) b.
Proof.
  intros a i j b Hij [t ->] [u E]. rewrite <- !app_assoc in E. apply app_inv_head in E. simpl in E. congruence.
Qed.

Lemma in_concat_mapi : forall A B (f : nat -> A -> list B) l k x,
  In x (concat (mapi f k l)) <-> exists i e, nth_error l i = Some e /\ In x (f (k + i) e).
Proof.
  induction l as [|a l IH]; intros k x; simpl.
  - split. intros []. intros (i & e & H & _). destruct i; discriminate.
  - rewrite in_app_iff, IH. split.
    + intros [H|(i & e & H1 & H2)].
      * exists 0, a. split; auto. rewrite Nat.add_0_r. auto.
      * exists (S i), e. split; auto. rewrite Nat.add_succ_r. auto.
    + intros (i & e & H1 & H2). destruct i.
      * inv H1. left. rewrite Nat.add_0_r in H2. auto.
      * right. exists i, e. split; auto. rewrite Nat.add_succ_r in H2. auto.
Qed.

(* every decision point listed below address a has an address extending a *)
Lemma dps_prefix_both :
  (forall s a pid i, In i (dps s a pid) -> prefix a (i_addr i)) /\
  (forall p a pid i, In i (dps_p p a pid) -> prefix a (i_addr i)).
Proof.
  apply dspec_dpoint_ind.
  - intros es IH a pid i Hin. simpl in Hin. apply in_concat_mapi in Hin as (j & e & He & Hin). simpl in Hin.
    eapply nth_error_Forall in IH; eauto. apply IH in Hin. eapply prefix_app; eauto.
  - intros k cands dist srt [loc name] lits IH a pid i Hin. simpl in Hin.
    assert (Hs : forall a' id' sub, prefix a a' ->
              In i ({| i_addr := a'; i_id := id'; i_name := name; i_kind := PKChoice (length cands) lits; i_sub := sub |}
                    :: concat (mapi (fun j c => dps c (a' ++ [j]) (id' ++ [KCond j (length cands)])) 0 cands)) ->
              prefix a (i_addr i)).
    { intros a' id' sub Hp [<-|Hin']. auto.
      apply in_concat_mapi in Hin' as (j & c & Hc & Hin'). simpl in Hin'.
      eapply nth_error_Forall in IH; eauto. apply IH in Hin'. destruct Hp as [t ->]. destruct Hin' as [u ->].
      exists (t ++ [j] ++ u). rewrite !app_assoc. auto. }
    destruct (k =? 1).
    + eapply Hs; eauto. apply prefix_refl.
    + apply in_concat in Hin as [l [Hl Hin]]. apply in_map_iff in Hl as [j [<- Hj]].
      eapply Hs; eauto. exists [j]. auto.
  - intros lo hi [loc name] a pid i [<-|[]]. apply prefix_refl.
  - intros [loc name] a pid i [<-|[]]. apply prefix_refl.
Qed.

Lemma NoDup_addr_app : forall (l1 l2 : list dpinfo),
  NoDup (map i_addr l1) -> NoDup (map i_addr l2) ->
  (forall x y, In x l1 -> In y l2 -> i_addr x <> i_addr y) -> NoDup (map i_addr (l1 ++ l2)).
Proof.
  induction l1 as [|x l1 IH]; intros l2 H1 H2 Hd; simpl; auto. inv H1. constructor.
  - rewrite map_app, in_app_iff. intros [Hin|Hin]; auto.
    apply in_map_iff in Hin as [y [Ey Hy]]. apply (Hd x y); [simpl; auto | exact Hy | congruence].
  - apply IH; auto. intros; apply Hd; simpl; auto.
Qed.

Lemma nodup_mapi : forall A (f : nat -> A -> list dpinfo) a l k,
  (forall i e, nth_error l i = Some e ->
     NoDup (map i_addr (f (k + i) e)) /\ forall x, In x (f (k + i) e) -> prefix (a ++ [k + i]) (i_addr x)) ->
  NoDup (map i_addr (concat (mapi f k l))).
Proof.
  induction l as [|e l IH]; intros k H; simpl. constructor.
  destruct (H 0 e eq_refl) as [Hn Hp]. rewrite Nat.add_0_r in *.
  apply NoDup_addr_app; auto.
  - apply IH. intros i e' He'. specialize (H (S i) e' He'). rewrite Nat.add_succ_r in H. exact H.
  - intros x y Hx Hy E. apply in_concat_mapi in Hy as (i & e' & He' & Hy).
    destruct (H (S i) e' He') as [_ Hp']. rewrite Nat.add_succ_r in Hp'.
    apply Hp in Hx. apply Hp' in Hy. rewrite E in Hx.
    eapply (prefix_snoc_neq a k (S (k + i))); eauto. lia.
Qed.

Lemma nodup_map_seq : forall (g : nat -> list dpinfo) a len s,
  (forall j, s <= j < s + len -> NoDup (map i_addr (g j)) /\ forall x, In x (g j) -> prefix (a ++ [j]) (i_addr x)) ->
  NoDup (map i_addr (concat (map g (seq s len)))).
Proof.
  induction len; intros s H; simpl. constructor.
  destruct (H s ltac:(lia)) as [Hn Hp]. apply NoDup_addr_app; auto.
  - apply IHlen. intros j Hj. apply H. lia.
  - intros x y Hx Hy E. apply in_concat in Hy as [l [Hl Hy]]. apply in_map_iff in Hl as [j [<- Hj]].
    apply in_seq in Hj. destruct (H j ltac:(lia)) as [_ Hp']. apply Hp in Hx. apply Hp' in Hy. rewrite E in Hx.
    eapply (prefix_snoc_neq a s j); eauto. lia.
Qed.

Lemma prefix_longer_neq : forall a t x, prefix (a ++ t) x -> t <> [] -> x <> a.
Proof.
  intros a t x [u ->] Ht E. rewrite <- app_assoc in E. rewrite <- (app_nil_r a) in E at 2.
  apply app_inv_head in E. destruct t; [congruence|discriminate].
Qed.

Lemma dps_nodup_both :
  (forall s a pid, NoDup (map i_addr (dps s a pid))) /\
  (forall p a pid, NoDup (map i_addr (dps_p p a pid))).
Proof.
  apply dspec_dpoint_ind.
  - intros es IH a pid. simpl. apply nodup_mapi with (a := a). intros i e He. simpl.
    split. eapply nth_error_Forall in IH; eauto. intros x Hx. eapply (proj2 dps_prefix_both); eauto.
  - intros k cands dist srt [loc name] lits IH a pid. simpl.
    assert (Hs : forall a' id' sub,
              NoDup (map i_addr ({| i_addr := a'; i_id := id'; i_name := name; i_kind := PKChoice (length cands) lits; i_sub := sub |}
                    :: concat (mapi (fun j c => dps c (a' ++ [j]) (id' ++ [KCond j (length cands)])) 0 cands)))).
    { intros a' id' sub. simpl. constructor.
      - intros Hin. apply in_map_iff in Hin as [x [Ex Hx]]. apply in_concat_mapi in Hx as (j & c & Hc & Hx). simpl in Hx.
        apply (proj1 dps_prefix_both) in Hx. eapply prefix_longer_neq; eauto. discriminate.
      - apply nodup_mapi with (a := a'). intros j c Hc. simpl. split.
        + eapply nth_error_Forall in IH; eauto.
        + intros x Hx. eapply (proj1 dps_prefix_both); eauto. }
    destruct (k =? 1). apply Hs.
    apply nodup_map_seq with (a := a). intros j Hj. split. apply Hs.
    intros x [<-|Hx]. apply prefix_refl.
    apply in_concat_mapi in Hx as (j' & c & Hc & Hx). simpl in Hx.
    apply (proj1 dps_prefix_both) in Hx. eapply prefix_app; eauto.
  - intros lo hi [loc name] a pid. simpl. repeat constructor. auto.
  - intros [loc name] a pid. simpl. repeat constructor. auto.
Qed.

Lemma info_at_found : forall infos i, NoDup (map i_addr infos) -> In i infos -> info_at infos (i_addr i) = Some i.
Proof.
  induction infos as [|x infos IH]; intros i Hn Hin. inv Hin. inv Hn. unfold info_at in *. simpl.
  destruct Hin as [->|Hin].
  - unfold addr_eqb. destruct (list_eq_dec Nat.eq_dec (i_addr i) (i_addr i)); [reflexivity|contradiction].
  - unfold addr_eqb. destruct (list_eq_dec Nat.eq_dec (i_addr x) (i_addr i)) as [E|E].
    + exfalso. apply H1. rewrite E. apply in_map; auto.
    + apply IH; auto.
Qed.

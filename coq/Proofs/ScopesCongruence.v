(* C17: the observational equality used by the restoration theorem is a congruence: equivalent states give the
   same value to every getter, and stay equivalent (with the same observations) under every program. *)
From PG Require Import Common.Tactics Common.Tr Model.ScopesBase Gen.ScopeDefs Model.Scopes Proofs.ScopesStore Proofs.ScopesRestore.

(* --- reads ---------------------------------------------------------------------------------------------- *)
Lemma get_exact_congr : forall cls k i s t, cls (k + i) = KExact -> seq_at cls k s t -> st_get i s = st_get i t.
Proof. intros cls k i s t C H. pose proof (seq_at_get cls s t k i H) as G. rewrite C in G. rewrite !nrm_at_exact in G. assumption. Qed.

Lemma tl_get_none_congr : forall cls k i s t, cls (k + i) = KNone -> seq_at cls k s t -> tl_get i v_none s = tl_get i v_none t.
Proof.
  intros cls k i s t C H. pose proof (seq_at_get cls s t k i H) as G. rewrite C in G. unfold tl_get.
  destruct (st_get i s) as [[[]|d|l]|]; destruct (st_get i t) as [[[]|d'|l']|]; simpl in G; try discriminate; try congruence; reflexivity.
Qed.

Lemma tl_get_dict_congr : forall cls k i s t, cls (k + i) = KDict -> seq_at cls k s t -> tl_get i v_empty_dict s = tl_get i v_empty_dict t.
Proof.
  intros cls k i s t C H. pose proof (seq_at_get cls s t k i H) as G. rewrite C in G. unfold tl_get.
  destruct (st_get i s) as [[a|[|e d]|l]|]; destruct (st_get i t) as [[a'|[|e' d']|l']|]; simpl in G; try discriminate; try congruence; reflexivity.
Qed.

Lemma tl_peek_congr : forall cls k i d s t, seq_at cls k s t -> tl_peek i d s = tl_peek i d t.
Proof.
  intros cls k i d s t H. pose proof (seq_at_get cls s t k i H) as G. unfold tl_peek.
  destruct (st_get i s) as [[a|dd|[|x l]]|] eqn:Es;
    try (destruct (st_get i t) as [[a'|d'|[|x' l']]|] eqn:Et; auto; apply nrm_at_stack_cons in G; discriminate).
  symmetry in G. apply nrm_at_stack_cons in G. rewrite G. reflexivity.
Qed.

(* truthiness of a stack-class slot *)
Lemma stack_get_congr : forall cls k i s t, cls (k + i) = KStack -> seq_at cls k s t ->
  (st_get i s = st_get i t) \/ (st_get i s = Some (VS []) /\ st_get i t = None) \/ (st_get i s = None /\ st_get i t = Some (VS [])).
Proof.
  intros cls k i s t C H. pose proof (seq_at_get cls s t k i H) as G. rewrite C in G.
  destruct (st_get i s) as [[a|d|[|x l]]|]; destruct (st_get i t) as [[a'|d'|[|x' l']]|]; simpl in G; try discriminate; auto; left; congruence.
Qed.

(* every flag getter key is compared exactly (recomputed on the regenerated table) *)
Lemma flag_getter_keys_exact : forallb (fun kd => match lclass (fst kd) with KExact => true | _ => false end) flag_getters = true.
Proof. vm_compute. reflexivity. Qed.
Lemma flag_scope_keys_exact : forallb (fun kd => match lclass (fst kd) with KExact => true | _ => false end) flag_scopes = true.
Proof. vm_compute. reflexivity. Qed.

Lemma flag_key_exact : forall (tbl : list (tlkey * val)) i k d,
  forallb (fun kd => match lclass (fst kd) with KExact => true | _ => false end) tbl = true ->
  nth_error tbl i = Some (k, d) -> lclass k = KExact.
Proof.
  intros tbl i k d F H. rewrite forallb_forall in F. specialize (F (k, d) (nth_error_In _ _ H)). simpl in F.
  destruct (lclass k); try discriminate; reflexivity.
Qed.

Lemma tl_get_exact_congr0 : forall cls k i d s t, cls (k + i) = KExact -> seq_at cls k s t -> tl_get i d s = tl_get i d t.
Proof. intros. unfold tl_get. erewrite get_exact_congr; eauto. Qed.

Theorem observe_congr : forall g s t, obs_eq s t -> observe g s = observe g t.
Proof.
  intros g s t H. apply obs_eq_split in H. destruct H as [Hl Hg]. destruct s as [l gl]. destruct t as [l' gl']. cbn [fst snd] in *.
  destruct g; unfold observe; cbn [fst snd].
  - destruct (nth_error flag_getters i) as [[k d]|] eqn:E; auto.
    unfold tl_get. rewrite (get_exact_congr lclass 0 k l l'); auto. eapply flag_key_exact; eauto. apply flag_getter_keys_exact.
  - unfold get_permission. eapply tl_get_none_congr; eauto. reflexivity.
  - unfold thread_local_kwargs. eapply tl_peek_congr; eauto.
  - unfold thread_local_kwargs. eapply tl_peek_congr; eauto.
  - eapply tl_peek_congr; eauto.
  - unfold get_context, tl_get.
    match goal with |- context [st_get ?k l] => destruct (stack_get_congr lclass 0 k l l') as [E|[[E1 E2]|[E1 E2]]]; auto end.
    + rewrite E. reflexivity.
    + rewrite E1, E2. reflexivity.
    + rewrite E1, E2. reflexivity.
  - eapply tl_get_dict_congr; eauto. reflexivity.
  - unfold current_mappings, tl_get.
    destruct (stack_get_congr lclass 0 k_detour l l' eq_refl Hl) as [E|[[E1 E2]|[E1 E2]]]; rewrite ?E, ?E1, ?E2; reflexivity.
  - eapply tl_get_none_congr; eauto. reflexivity.
  - unfold get_dynamic_evaluate_fn. rewrite (tl_get_none_congr gclass 0 g_dynamic_evaluate gl gl'); auto.
    match goal with |- tl_get ?k ?d l = tl_get ?k ?d l' => exact (tl_get_exact_congr0 lclass 0 k d l l' eq_refl Hl) end.
  - eapply tl_peek_congr; eauto.
  - unfold stack_read.
    destruct (stack_get_congr lclass 0 k_dynstack l l' eq_refl Hl) as [E|[[E1 E2]|[E1 E2]]]; rewrite ?E, ?E1, ?E2; reflexivity.
  - unfold stack_read.
    destruct (stack_get_congr gclass 0 g_dynstack gl gl' eq_refl Hg) as [E|[[E1 E2]|[E1 E2]]]; rewrite ?E, ?E1, ?E2; reflexivity.
Qed.

(* --- writes ------------------------------------------------------------------------------------------------ *)
Lemma tl_push_congr : forall cls k i v s t, cls (k + i) = KStack -> seq_at cls k s t -> seq_at cls k (tl_push i v s) (tl_push i v t).
Proof.
  intros cls k i v s t C H. unfold tl_push. destruct v as [a|d|l]; auto.
  destruct (stack_get_congr cls k i s t C H) as [E|[[E1 E2]|[E1 E2]]].
  - rewrite E. destruct (st_get i t) as [[a|dd|l]|]; auto; apply nrm_set_congr; auto.
  - rewrite E1, E2. apply nrm_set_congr; auto.
  - rewrite E1, E2. apply nrm_set_congr; auto.
Qed.

Lemma tl_has_exact_congr : forall cls k i s t, cls (k + i) = KExact -> seq_at cls k s t -> tl_has i s = tl_has i t.
Proof. intros. unfold tl_has. erewrite get_exact_congr; eauto. Qed.
Lemma tl_get_exact_congr : forall cls k i d s t, cls (k + i) = KExact -> seq_at cls k s t -> tl_get i d s = tl_get i d t.
Proof. intros. unfold tl_get. erewrite get_exact_congr; eauto. Qed.

Lemma get_context_congr : forall s t, seq_at lclass 0 s t -> get_context s = get_context t.
Proof.
  intros s t H. unfold get_context, tl_get.
  match goal with |- context [st_get ?k s] => destruct (stack_get_congr lclass 0 k s t) as [E|[[E1 E2]|[E1 E2]]]; auto end.
  - rewrite E. reflexivity.
  - rewrite E1, E2. reflexivity.
  - rewrite E1, E2. reflexivity.
Qed.

(* entering on equivalent states: both fail, or both succeed with the same saved values and equivalent states *)
Definition enter_rel (r1 r2 : option (store * list val)) : Prop :=
  match r1, r2 with
  | Some (s1, sv), Some (t1, sv') => sv = sv' /\ seq_at lclass 0 s1 t1
  | None, None => True
  | _, _ => False
  end.

Lemma value_scope_enter_congr : forall k a i s t, lclass k = KExact -> seq_at lclass 0 s t ->
  enter_rel (thread_local_value_scope_enter k a i s) (thread_local_value_scope_enter k a i t).
Proof.
  intros k a i s t C H. unfold thread_local_value_scope_enter, enter_rel.
  rewrite (tl_has_exact_congr lclass 0 k s t C H), (tl_get_exact_congr lclass 0 k i s t C H).
  split; auto. apply tl_set_congr; auto.
Qed.
Lemma arg_scope_enter_congr : forall k a s t, lclass k = KStack -> seq_at lclass 0 s t ->
  enter_rel (thread_local_arg_scope_enter k a s) (thread_local_arg_scope_enter k a t).
Proof.
  intros k a s t C H. unfold thread_local_arg_scope_enter, enter_rel.
  rewrite (tl_peek_congr lclass 0 k v_empty_dict s t H). split; auto. apply tl_push_congr; auto.
Qed.
Lemma permission_enter_congr : forall a s t, seq_at lclass 0 s t -> enter_rel (permission_enter a s) (permission_enter a t).
Proof.
  intros a s t H. unfold permission_enter, enter_rel.
  match goal with |- context [tl_get ?k v_none s] => rewrite (tl_get_none_congr lclass 0 k s t eq_refl H) end.
  match goal with |- context [if ?b then _ else _] => destruct b end; split; auto; apply tl_set_congr; auto.
Qed.
Lemma timeit_enter_congr : forall a s t, seq_at lclass 0 s t -> enter_rel (timeit_enter a s) (timeit_enter a t).
Proof.
  intros a s t H. unfold timeit_enter, enter_rel.
  match goal with |- context [tl_get ?k v_none s] => rewrite (tl_get_none_congr lclass 0 k s t eq_refl H) end.
  match goal with |- context [if ?b then _ else _] => destruct b end; split; auto; apply tl_set_congr; auto.
Qed.
Lemma context_enter_congr : forall a s t, seq_at lclass 0 s t -> enter_rel (context_enter a s) (context_enter a t).
Proof.
  intros a s t H. unfold context_enter, enter_rel. rewrite (get_context_congr s t H). split; auto.
  apply tl_push_congr; auto.
Qed.
Lemma view_options_enter_congr : forall a s t, seq_at lclass 0 s t -> enter_rel (view_options_enter a s) (view_options_enter a t).
Proof.
  intros a s t H. unfold view_options_enter, enter_rel.
  match goal with |- context [tl_peek ?k ?d s] => rewrite (tl_peek_congr lclass 0 k d s t H) end.
  split; auto. apply tl_push_congr; auto.
Qed.
Lemma contextual_enter_congr : forall a s t, seq_at lclass 0 s t -> enter_rel (contextual_scope_enter a s) (contextual_scope_enter a t).
Proof.
  intros a s t H. unfold contextual_scope_enter, enter_rel.
  rewrite (tl_get_dict_congr lclass 0 k_contextual s t eq_refl H).
  split; auto. apply tl_set_congr; auto.
Qed.
Lemma current_mappings_congr : forall s t, seq_at lclass 0 s t -> current_mappings s = current_mappings t.
Proof.
  intros s t H. unfold current_mappings, tl_get.
  destruct (stack_get_congr lclass 0 k_detour s t eq_refl H) as [E|[[E1 E2]|[E1 E2]]]; rewrite ?E, ?E1, ?E2; reflexivity.
Qed.

Lemma detour_enter_congr : forall a s t, seq_at lclass 0 s t -> enter_rel (detour_scope_enter a s) (detour_scope_enter a t).
Proof.
  intros a s t H. unfold detour_scope_enter, enter_rel.
  rewrite (current_mappings_congr s t H). split; auto. apply tl_push_congr; auto.
Qed.

Lemma load_types_enter_congr : forall a l l' g g', seq_at gclass 0 g g' ->
  match load_types_enter a l g, load_types_enter a l' g' with
  | Some (l1, g1, sv), Some (l1', g1', sv') => l1 = l /\ l1' = l' /\ sv = sv' /\ seq_at gclass 0 g1 g1'
  | _, _ => False
  end.
Proof.
  intros a l l' g g' H. unfold load_types_enter, tl_get.
  destruct (stack_get_congr gclass 0 g_ondemand_types g g' eq_refl H) as [Q|[[Q1 Q2]|[Q1 Q2]]].
  - rewrite Q. match goal with |- context [if ?b then _ else _] => destruct b end;
      repeat split; auto; apply tl_push_congr; auto.
  - rewrite Q1, Q2. cbn [truthy v_none]. repeat split; auto. apply tl_push_congr; auto.
  - rewrite Q1, Q2. cbn [truthy v_none]. repeat split; auto. apply tl_push_congr; auto.
Qed.

Definition enter_rel_state (r1 r2 : option (state * list val)) : Prop :=
  match r1, r2 with
  | Some (s1, sv), Some (t1, sv') => sv = sv' /\ obs_eq s1 t1
  | None, None => True
  | _, _ => False
  end.

Lemma lift_enter_rel : forall f g s t, enter_rel (f (fst s)) (g (fst t)) -> seq_at gclass 0 (snd s) (snd t) ->
  enter_rel_state (lift_enter f s) (lift_enter g t).
Proof.
  intros f g s t R G. unfold lift_enter, enter_rel, enter_rel_state in *.
  destruct (f (fst s)) as [[l1 sv]|]; destruct (g (fst t)) as [[l2 sv']|]; auto.
  destruct R as [-> R]. split; auto. apply obs_eq_split. auto.
Qed.

Theorem enter_congr : forall c a s t, obs_eq s t -> enter_rel_state (cm_enter c a s) (cm_enter c a t).
Proof.
  intros c a s t H. apply obs_eq_split in H. destruct H as [Hl Hg].
  destruct c; cbn [cm_enter]; try (apply lift_enter_rel; auto).
  - destruct (nth_error flag_scopes i) as [[k init]|] eqn:E.
    + apply lift_enter_rel; auto. apply value_scope_enter_congr; auto.
      eapply flag_key_exact; eauto. apply flag_scope_keys_exact.
    + unfold enter_rel_state. split; auto. apply obs_eq_split; auto.
  - apply permission_enter_congr; auto.
  - apply arg_scope_enter_congr; auto.
  - apply arg_scope_enter_congr; auto.
  - apply view_options_enter_congr; auto.
  - apply context_enter_congr; auto.
  - apply contextual_enter_congr; auto.
  - apply detour_enter_congr; auto.
  - apply detour_enter_congr; auto.
  - apply timeit_enter_congr; auto.
  - destruct s as [l g], t as [l' g']. cbn [fst snd] in *. rewrite !dyn_enter_thread. unfold enter_rel_state.
    rewrite (tl_get_none_congr gclass 0 g_dynamic_evaluate g g' eq_refl Hg).
    destruct (is_none (tl_get g_dynamic_evaluate v_none g')); auto.
    rewrite (tl_has_exact_congr lclass 0 k_dynamic_evaluate l l' eq_refl Hl).
    rewrite (tl_get_exact_congr lclass 0 k_dynamic_evaluate v_none l l' eq_refl Hl).
    split; auto. apply obs_eq_split. cbn [fst snd]. split; auto. apply tl_set_congr; auto.
  - destruct s as [l g], t as [l' g']. cbn [fst snd] in *. rewrite !dyn_enter_global. unfold enter_rel_state.
    rewrite (tl_get_none_congr gclass 0 g_dynamic_evaluate g g' eq_refl Hg).
    split; auto. apply obs_eq_split. cbn [fst snd]. split; auto. apply tl_set_congr; auto.
  - destruct s as [l g], t as [l' g']. cbn [fst snd] in *. unfold loadtypes_enter, lift2_enter. cbn [fst snd].
    pose proof (load_types_enter_congr a l l' g g' Hg) as C.
    destruct (load_types_enter a l g) as [[[l1 g1] sv]|]; destruct (load_types_enter a l' g') as [[[l1' g1'] sv']|]; try contradiction.
    destruct C as [-> [-> [-> C]]]. unfold enter_rel_state. split; auto. apply obs_eq_split. cbn [fst snd]. split; auto.
  - (* the mixing guard reads only the truth value of the two stacks *)
    unfold dynguard_enter, enter_rel_state.
    assert (TG : truthy (tl_get g_dynstack v_none (snd s)) = truthy (tl_get g_dynstack v_none (snd t))).
    { unfold tl_get. destruct (stack_get_congr gclass 0 g_dynstack (snd s) (snd t) eq_refl Hg) as [E|[[E1 E2]|[E1 E2]]]; rewrite ?E, ?E1, ?E2; reflexivity. }
    assert (TL : truthy (tl_get k_dynstack v_none (fst s)) = truthy (tl_get k_dynstack v_none (fst t))).
    { unfold tl_get. destruct (stack_get_congr lclass 0 k_dynstack (fst s) (fst t) eq_refl Hl) as [E|[[E1 E2]|[E1 E2]]]; rewrite ?E, ?E1, ?E2; reflexivity. }
    rewrite TG, TL. destruct (truthy a); match goal with |- context [if ?b then _ else _] => destruct b end; auto;
      split; auto; apply obs_eq_split; auto.
  - unfold enter_rel_state. destruct a as [x|d|x]; auto. split; auto. apply obs_eq_split. cbn [fst snd]. split; auto. apply tl_push_congr; auto.
  - unfold enter_rel_state. destruct a as [x|d|x]; auto. split; auto. apply obs_eq_split. cbn [fst snd]. split; auto. apply tl_push_congr; auto.
Qed.

(* --- programs cannot tell equivalent states apart ---------------------------------------------------------- *)
Theorem exec_congr : forall p s t, obs_eq s t ->
  observations (exec p s) = observations (exec p t) /\ escapes (exec p s) = escapes (exec p t) /\
  obs_eq (final (exec p s)) (final (exec p t)).
Proof.
  unfold observations, escapes, final.
  induction p; intros s t H; cbn [exec].
  - simpl. auto.
  - simpl. rewrite (observe_congr g s t H). auto.
  - simpl. auto.
  - specialize (IHp1 s t H). destruct (exec p1 s) as [[s1 o1] e1]. destruct (exec p1 t) as [[t1 o1'] e1'].
    simpl in IHp1. destruct IHp1 as [-> [-> H1]]. destruct e1'; simpl; auto.
    specialize (IHp2 s1 t1 H1). destruct (exec p2 s1) as [[s2 o2] e2]. destruct (exec p2 t1) as [[t2 o2'] e2'].
    simpl in *. destruct IHp2 as [-> [-> H2]]. auto.
  - specialize (IHp s t H). destruct (exec p s) as [[s1 o1] e1]. destruct (exec p t) as [[t1 o1'] e1'].
    simpl in *. destruct IHp as [-> [_ H1]]. auto.
  - pose proof (enter_congr c a s t H) as EC. unfold enter_rel_state in EC.
    destruct (cm_enter c a s) as [[s1 sv]|]; destruct (cm_enter c a t) as [[t1 sv']|]; try contradiction.
    + destruct EC as [-> H1]. specialize (IHp s1 t1 H1).
      destruct (exec p s1) as [[s2 o] e]. destruct (exec p t1) as [[t2 o'] e'].
      simpl in *. destruct IHp as [-> [-> H2]]. repeat split; auto. apply exit_congr; auto.
    + simpl. auto.
Qed.

(* RESTORATION, observably: whatever is run afterwards behaves as if the program p had never run *)
Theorem restore_indistinguishable : forall p q s,
  observations (exec q (final (exec p s))) = observations (exec q s) /\
  escapes (exec q (final (exec p s))) = escapes (exec q s).
Proof.
  intros p q s. destruct (exec_congr q (final (exec p s)) s (restore p s)) as [A [B _]]. auto.
Qed.

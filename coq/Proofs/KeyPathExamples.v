(* KeyPathExamples.v — the hypotheses of the C10 theorems are satisfiable by non-trivial inputs. *)
From PG Require Import Common.Tactics Model.KeyPath Model.Hier Proofs.KeyPathArith Proofs.KeyPathParse
  Proofs.KeyPathSetBase Proofs.KeyPathSetThm Proofs.KeyPathSetInter Proofs.HierTraverse Proofs.HierFlatten Proofs.HierCanon.
Local Open Scope N_scope.

Definition ka : key := KStr [97].
Definition kb : key := KStr [98; 46; 99].
Definition q0 : quirks := {| q_dollar := false |}.
Definition q1 : quirks := {| q_dollar := true |}.

(* a program of the register machine: three adds, a union, a rebase, a removal *)
Definition example_program : list sop :=
  [SAdd 0 [ka; kb] false; SAdd 0 [ka] false; SAdd 1 [KInt 0; ka] false; SUnion 0 1 2; SRebase 2 [kb]; SRemove 0 [ka]].

Example example_program_clean : Forall (sop_clean q1) example_program.
Proof. repeat constructor. Qed.

(* ... reaches non-empty, well-formed sets (so twf has non-trivial inhabitants, with the quirk flag on or off) *)
Example example_twf : Forall (twf q1) (fst (steps q1 [[]; []; []] example_program))
                      /\ map paths (fst (steps q1 [[]; []; []] example_program)) =
                         [[[ka; kb]]; [[KInt 0; ka]]; [[kb; ka; kb]; [kb; ka]; [kb; KInt 0; ka]]].
Proof.
  split; [apply steps_safe; [repeat constructor; apply twf_empty | exact example_program_clean] | vm_compute; reflexivity].
Qed.

(* a prefix-closed set built with include_intermediate=True *)
Example example_prefix_closed :
  exists t, add_go q0 true [ka; kb; KInt 3] (TDict []) = Some (TDict t, true) /\ twf q0 t /\ prefix_closed q0 t /\
            paths t = [[ka; kb; KInt 3]; [ka; kb]; [ka]; []].
Proof.
  destruct (add_intermediate_spec q0 [ka; kb; KInt 3] [] (twf_empty q0) (no_quirks_clean q0 _ eq_refl) (closed_empty q0))
    as (t & A & B & _ & D).
  exists t. split; [exact A |]. split; [exact B |]. split; [eapply closed_from_law; [apply closed_empty | exact D] |].
  vm_compute in A. inv A. vm_compute. reflexivity.
Qed.

Example example_wfv : wfv example_value.
Proof. apply flat_ok_wfv. apply example_flat_ok. Qed.

Example example_simple_keys :
  simple_keys (PDict [(KStr [97], PList [PInt 1; PDict [(KStr [48], PNone)]]); (KInt 2, PStr [120])]).
Proof. repeat (constructor; cbn [fst snd simple_key]; try reflexivity; try exact I). Qed.

Example example_canonical :
  canonical (PDict [(KStr [97%N], PList [PInt 1; PDict [(KStr [48%N], PNone)]]); (KInt 2, PStr [120%N])]).
Proof.
  repeat (first [ apply cn_none | apply cn_int | apply cn_str | apply cn_list | apply cn_dict
                | apply Forall_nil | apply Forall_cons | reflexivity | exact I
                | (split; [discriminate | reflexivity])
                | (apply NoDup_cons; [cbn; intuition discriminate |]) | apply NoDup_nil ]).
Qed.

(* EvoSeg.v — segment-wise recombinators (KPoint, Segmented) produce valid children (C14). *)
From PG Require Import Common.Tactics Model.Geno Model.GenoViews Model.Evo Proofs.GenoBasics Proofs.GenoValid Proofs.EvoBase Proofs.EvoMut.

Lemma mapi_length : forall A B (f : nat -> A -> B) l i, length (mapi f i l) = length l.
Proof. induction l; simpl; intros; auto. Qed.
Lemma mapi_Forall : forall A B (f : nat -> A -> B) (P : A -> Prop) (Q : B -> Prop) l i,
  Forall P l -> (forall j a, P a -> Q (f j a)) -> Forall Q (mapi f i l).
Proof. induction l; simpl; intros i H Hf; constructor; inv H; auto. Qed.
Lemma Forall_combine : forall A B (P : A -> Prop) (Q : B -> Prop) l m,
  Forall P l -> Forall Q m -> Forall (fun ab => P (fst ab) /\ Q (snd ab)) (combine l m).
Proof. induction l; destruct m; simpl; intros H1 H2; constructor; inv H1; inv H2; auto. Qed.

Lemma splits_spec : forall e, splits e = true -> exists k cands nm lits, e = Choices k cands false false nm lits /\ k <> 1.
Proof.
  destruct e as [k cands dist srt nm lits| |]; simpl; intros H; try discriminate.
  apply andb_true_iff in H as [H1 H2]. apply negb_true_iff in H1, H2. apply orb_false_iff in H2 as [-> ->].
  apply Nat.eqb_neq in H1. eauto 6.
Qed.

Lemma seg_mix_valid : forall par flip es dx dy off,
  Forall2 (fun e x => valid_p e x = true) es dx -> Forall2 (fun e x => valid_p e x = true) es dy ->
  Forall2 (fun e x => valid_p e x = true) es (seg_mix par flip es dx dy off).
Proof.
  intros par flip es dx dy off Hx. revert dy off. induction Hx as [|e x es dx Hex Hx IH]; intros dy off Hy; inv Hy; simpl. constructor.
  rename y into y0. rename H1 into Hey. rename H3 into Hy.
  assert (D : forall b : bool, valid_p e (if b then y0 else x) = true) by (intros []; auto).
  destruct x as [cx| |]; try (constructor; auto).
  destruct y0 as [cy| |]; try (constructor; auto).
  destruct (splits e) eqn:Es; [|constructor; auto].
  apply splits_spec in Es as (k & cands & nm & lits & -> & Hk).
  constructor; auto.
  apply valid_p_choices_iff in Hex, Hey. destruct Hex as (Hlx & _ & Hsx). destruct Hey as (Hly & _ & Hsy).
  apply valid_p_choices_iff. rewrite mapi_length, combine_length. split; [lia|]. split.
  - apply constraint_ok_spec. split; intros; discriminate.
  - eapply mapi_Forall. apply Forall_combine; [exact Hsx|exact Hsy].
    intros j [a b] [Ha Hb]. simpl in *. destruct (xorb _ _); auto.
Qed.

Theorem segment_valid : forall cuts s x y, valid s x = true -> valid s y = true ->
  Forall (fun c => valid s c = true) (segment cuts s x y).
Proof.
  intros cuts [es] [dx] [dy] Hx Hy. simpl in Hx, Hy. apply forallb2_Forall2 in Hx, Hy.
  unfold segment. repeat constructor; simpl; apply forallb2_Forall2; apply seg_mix_valid; auto.
Qed.

Theorem kpoint_valid : forall R (G : rng R) k s x y r, valid s x = true -> valid s y = true ->
  Forall (fun c => valid s c = true) (fst (kpoint R G k s x y r)).
Proof.
  intros. unfold kpoint. destruct (kpoint_cuts R G k _ r). simpl. apply segment_valid; auto.
Qed.

(* SymCoreC02Rebind.v -- rebind with one or several single-key paths on a pg.Dict is dict.update (with its notification:
   the change notification of the updated container is the identity on a clean well-formed chain). *)
From Coq Require Import ZArith NArith List Bool Lia.
Import ListNotations.
From PG Require Import Common.Tactics Model.SymCoreDefs Model.SymCoreOps Model.SymCoreSpec Model.SymCoreC02
     Proofs.SymCoreBase Proofs.SymCoreWF Proofs.SymCoreWFOps Proofs.SymCoreClone Proofs.SymCoreIds Proofs.SymCoreC02Read
     Proofs.SymCoreC02Frame Proofs.SymCoreC02Prim Proofs.SymCoreC02List Proofs.SymCoreC02Items Proofs.SymCoreC02Dict.
From PG Require Model.PyList Model.PyDict.
Local Open Scope Z_scope.

Section Rebind.
Variables (q : quirks) (sc : scope) (ps : pos) (tid : N) (pa : option N) (fl : flags).
Hypothesis NQ : no_quirks q.

(* the containers a batch of single-key writes reports as updated are the target *)
Lemma update_loop_ids : forall kvs st its upd st' u e,
  at_is st ps tid KDict pa fl its -> clean its -> anc_clean st ps -> wfs st ->
  treats_as_sealed sc fl = false -> Forall (fun kv => plain_rv (snd kv)) kvs -> Forall (fun i => i = tid) upd ->
  rebind_loop q sc st ps (map (fun kv : key * rvalue => ([fst kv], snd kv)) kvs) upd = (st', u, e) ->
  Forall (fun i => i = tid) u.
Proof.
  induction kvs as [|[k rv] kvs IH]; intros st its upd st' u e R C A W SL F FU E; simpl in E.
  - inv E. auto.
  - inv F. simpl in H1.
    unfold at_is in R. rewrite R in E. cbv iota beta in E. rewrite app_nil_r in E. rewrite <- surjective_pairing in E.
    rewrite R in E. cbv iota beta in E. rewrite SL in E. unfold prim in E. rewrite R in E. cbv iota beta in E.
    destruct (dprim q sc st ps k rv) as [st1 p] eqn:D.
    destruct (dprim_set q sc st ps tid pa fl its R C A W k rv st1 p H1 D) as (PP & its1 & R1 & C1 & E1 & K1 & A1 & W1).
    destruct PP; subst p.
    + eapply (IH st1 its1 upd); eauto.
    + eapply (IH st1 its1 (upd ++ [tid])); eauto. apply Forall_app; auto.
Qed.

Lemma fix_chains_id : forall st its u,
  WFI st -> at_is st ps tid KDict pa fl its -> anc_clean st ps -> Forall (fun i => i = tid) u -> fix_chains st u = st.
Proof.
  intros st its u W R A F. unfold fix_chains. induction F; simpl; auto. subst x.
  rewrite (locate_complete' _ _ _ _ _ _ _ _ W R). rewrite fix_chain_id; auto. apply W.
  intros pre suf i pa0 pt fl0 its0 ES G. destruct suf.
  - rewrite app_nil_r in ES. subst pre. unfold at_is in R. rewrite <- surjective_pairing in G. rewrite R in G. discriminate.
  - eapply A; eauto. discriminate.
Qed.

(* x.rebind({k1: v1, ...}) on a dict = x.update({k1: v1, ...}), notification included *)
Theorem exec_rebind_dict_refines : forall st its kvs st' out,
  WFI st -> at_is st ps tid KDict pa fl its -> clean its -> anc_clean st ps -> treats_as_sealed sc fl = false ->
  Forall (fun kv => plain_rv (snd kv)) kvs -> kvs <> [] ->
  exec q sc st ps tid KDict (snd ps) fl its (Rebind (map (fun kv : key * rvalue => ([fst kv], snd kv)) kvs)) = (st', out) ->
  out = Ok RNone /\ WFI st' /\
  dwrote st ps tid pa fl st' (PyDict.dupdate key_eqb (eitems its) (map (fun kv => (fst kv, prv (snd kv))) kvs)).
Proof.
  intros st its kvs st' out W R C A SL F NE E. unfold exec in E.
  assert (OKS : Forall (fun kv : list key * rvalue => rv_ok (snd kv)) (map (fun kv : key * rvalue => ([fst kv], snd kv)) kvs)).
  { clear - F. induction F; simpl; constructor; auto. simpl. apply plain_rv_ok; auto. }
  assert (NN : match map (fun kv : key * rvalue => ([fst kv], snd kv)) kvs with [] => False | _ => True end).
  { destruct kvs; simpl; auto. }
  destruct (map (fun kv : key * rvalue => ([fst kv], snd kv)) kvs) as [|pv0 pvs0] eqn:MP; [contradiction|].
  rewrite <- MP in *. clear NN.
  unfold rebind_core in E.
  destruct (rebind_loop q sc st ps (map (fun kv : key * rvalue => ([fst kv], snd kv)) kvs) []) as [[st1 u] e] eqn:L.
  destruct (update_loop_at q sc ps tid pa fl kvs st its [] st1 u e R C A (proj1 W) SL F L) as [EE WR]. subst e.
  pose proof (update_loop_ids kvs st its [] st1 u None R C A (proj1 W) SL F ltac:(constructor) L) as FU.
  destruct WR as (its1 & R1 & C1 & E1 & K1 & A1 & WS1).
  assert (W1 : WFI st1).
  { eapply WFI_step; [exact W|exact WS1|]. eapply rebind_loop_rel; eauto. }
  inv E. split; auto.
  destruct (notify_on sc).
  - rewrite (fix_chains_id st1 its1 u W1 R1 A1 FU). split; auto. exists its1; auto 10.
  - split; auto. exists its1; auto 10.
Qed.
End Rebind.

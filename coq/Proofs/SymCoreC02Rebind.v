(* SymCoreC02Rebind.v -- rebind with one or several single-key paths on a pg.Dict is dict.update (with its notification:
   the change notification of the updated container is the identity on a clean well-formed chain). *)
From Coq Require Import ZArith NArith List Bool Lia.
Import ListNotations.
From PG Require Import Common.Tactics Model.SymCoreDefs Model.SymCoreOps Model.SymCoreSpec Model.SymCoreC02
     Proofs.SymCoreBase Proofs.SymCoreWF Proofs.SymCoreWFOps Proofs.SymCoreClone Proofs.SymCoreIds Proofs.SymCoreC02Read
     Proofs.SymCoreC02Frame Proofs.SymCoreC02Prim Proofs.SymCoreC02List Proofs.SymCoreC02Items Proofs.SymCoreC02Dict Proofs.SymCoreC02Ext.
From PG Require Model.PyList Model.PyDict.
Local Open Scope Z_scope.

Section Rebind.
Variables (q : quirks) (sc : scope) (ps : pos) (tid : N) (pa : option N) (fl : flags).
Hypothesis NQ : no_quirks q.

(* the containers a batch of single-key writes reports as updated are the target *)
Lemma update_loop_ids : forall kvs st its upd st' u e,
  at_is st ps tid KDict pa fl its -> clean its -> anc_clean st ps -> wfs st ->
  treats_as_sealed sc fl = false -> Forall (fun kv => plain_rv (snd kv)) kvs -> Forall (fun i => i = tid) upd ->
  rebind_loop q sc st ps (map (fun kv : key * rvalue => ([fst kv], snd kv)) kvs) upd = (st', u, e) ->
  Forall (fun i => i = tid) u.
Proof.
  induction kvs as [|[k rv] kvs IH]; intros st its upd st' u e R C A W SL F FU E; simpl in E.
  - inv E. auto.
  - inv F. simpl in H1.
    unfold at_is in R. rewrite R in E. cbv iota beta in E. rewrite app_nil_r in E. rewrite <- surjective_pairing in E.
    rewrite R in E. cbv iota beta in E. rewrite SL in E. unfold prim in E. rewrite R in E. cbv iota beta in E.
    destruct (dprim q sc st ps k rv) as [st1 p] eqn:D.
    destruct (dprim_set q sc st ps tid pa fl its R C A W k rv st1 p H1 D) as (PP & its1 & R1 & C1 & E1 & K1 & A1 & W1).
    destruct PP; subst p.
    + eapply (IH st1 its1 upd); eauto.
    + eapply (IH st1 its1 (upd ++ [tid])); eauto. apply Forall_app; auto.
Qed.

Lemma fix_chains_id : forall st its u,
  WFI st -> at_is st ps tid KDict pa fl its -> anc_clean st ps -> Forall (fun i => i = tid) u -> fix_chains st u = st.
Proof.
  intros st its u W R A F. unfold fix_chains. induction F; simpl; auto. subst x.
  rewrite (locate_complete' _ _ _ _ _ _ _ _ W R). rewrite fix_chain_id; auto. apply W.
  intros pre suf i pa0 pt fl0 its0 ES G. destruct suf.
  - rewrite app_nil_r in ES. subst pre. unfold at_is in R. rewrite <- surjective_pairing in G. rewrite R in G. discriminate.
  - eapply A; eauto. discriminate.
Qed.

(* x.rebind({k1: v1, ...}) on a dict = x.update({k1: v1, ...}), notification included *)
Theorem exec_rebind_dict_refines : forall st its kvs st' out,
  WFI st -> at_is st ps tid KDict pa fl its -> clean its -> anc_clean st ps -> treats_as_sealed sc fl = false ->
  Forall (fun kv => plain_rv (snd kv)) kvs -> kvs <> [] ->
  exec q sc st ps tid KDict (snd ps) fl its (Rebind (map (fun kv : key * rvalue => ([fst kv], snd kv)) kvs)) = (st', out) ->
  out = Ok RNone /\ WFI st' /\
  dwrote st ps tid pa fl st' (PyDict.dupdate key_eqb (eitems its) (map (fun kv => (fst kv, prv (snd kv))) kvs)).
Proof.
  intros st its kvs st' out W R C A SL F NE E. unfold exec in E.
  assert (OKS : Forall (fun kv : list key * rvalue => rv_ok (snd kv)) (map (fun kv : key * rvalue => ([fst kv], snd kv)) kvs)).
  { clear - F. induction F; simpl; constructor; auto. simpl. apply plain_rv_ok; auto. }
  assert (NN : match map (fun kv : key * rvalue => ([fst kv], snd kv)) kvs with [] => False | _ => True end).
  { destruct kvs; simpl; auto. }
  destruct (map (fun kv : key * rvalue => ([fst kv], snd kv)) kvs) as [|pv0 pvs0] eqn:MP; [contradiction|].
  rewrite <- MP in *. clear NN.
  unfold rebind_core in E.
  destruct (rebind_loop q sc st ps (map (fun kv : key * rvalue => ([fst kv], snd kv)) kvs) []) as [[st1 u] e] eqn:L.
  destruct (update_loop_at q sc ps tid pa fl kvs st its [] st1 u e R C A (proj1 W) SL F L) as [EE WR]. subst e.
  pose proof (update_loop_ids kvs st its [] st1 u None R C A (proj1 W) SL F ltac:(constructor) L) as FU.
  destruct WR as (its1 & R1 & C1 & E1 & K1 & A1 & WS1).
  assert (W1 : WFI st1).
  { eapply WFI_step; [exact W|exact WS1|]. eapply rebind_loop_rel; eauto. }
  inv E. split; auto.
  destruct (notify_on sc).
  - rewrite (fix_chains_id st1 its1 u W1 R1 A1 FU). split; auto. exists its1; auto 10.
  - split; auto. exists its1; auto 10.
Qed.
End Rebind.

(* ======= rebind with several single-key paths on a pg.List: the batch is applied from the highest index to the lowest ============ *)
(* what one entry {z: v} of the batch does to a plain list: an insertion marker inserts (clamped like list.insert), an index at
   or past the end appends, an index below -len is an IndexError, anything else replaces *)
Inductive lw : Type := LWVal (v : pv) | LWIns (v : pv).
Definition py_lwrite (l : list pv) (z : Z) (w : lw) : list pv + PyList.pyerr :=
  match w with
  | LWIns v => inl (PyList.insert l z v)
  | LWVal v =>
      if z >=? PyList.len l then inl (l ++ [v])
      else if z <? - PyList.len l then inr PyList.PyIndexError
      else inl (PyList.replace_nth (Z.to_nat (if z <? 0 then z + PyList.len l else z)) v l)
  end.
(* the writes one after the other; the first error stops the batch and leaves the earlier writes in place *)
Fixpoint py_lwrites (l : list pv) (ws : list (Z * lw)) : list pv * option PyList.pyerr :=
  match ws with
  | [] => (l, None)
  | (z, w) :: r => match py_lwrite l z w with inl l' => py_lwrites l' r | inr e => (l, Some e) end
  end.
(* an entry of the batch as the model sees it: a one-key path and a plain value, possibly inside an insertion marker *)
Definition entry_ok (pv0 : list key * rvalue) : Prop :=
  (exists z, fst pv0 = [KI z]) /\ match snd pv0 with RIns v => plain_rv v | v => plain_rv v end.
Definition entry_w (pv0 : list key * rvalue) : Z * lw :=
  (match fst pv0 with [KI z] => z | _ => 0 end, match snd pv0 with RIns v => LWIns (prv v) | v => LWVal (prv v) end).

Section ListRebind.
Variables (q : quirks) (sc : scope) (ps : pos) (tid : N) (pa : option N) (fl : flags).

Lemma lprim_below : forall st its z rv,
  at_is st ps tid KList pa fl its -> plain_rv rv -> z < - zlen its -> lprim q sc st ps (KI z) rv = (st, PErr EIndex).
Proof.
  intros st its z rv R PL LT. unfold lprim. unfold at_is in R. rewrite R.
  assert (NN : 0 <= zlen its) by (unfold zlen; lia).
  replace (z >=? zlen its) with false by lia. cbn [andb].
  rewrite (storable_no_ins _ (plain_storable _ PL)).
  replace (z <? 0) with true by lia. replace (z >=? - zlen its) with false by lia.
  replace (z <? zlen its) with true by lia. cbn [andb negb]. replace (z <? 0) with true by lia. reflexivity.
Qed.

Lemma fix_chains_id_list : forall st its u,
  WFI st -> at_is st ps tid KList pa fl its -> clean its -> anc_clean st ps -> Forall (fun i => i = tid) u -> fix_chains st u = st.
Proof.
  intros st its u W R C A F. unfold fix_chains. induction F; simpl; auto. subst x.
  rewrite (locate_complete' _ _ _ _ _ _ _ _ W R). rewrite fix_chain_id; auto. apply W.
  intros pre suf i pa0 pt fl0 its0 ES G. destruct suf.
  - rewrite app_nil_r in ES. subst pre. unfold at_is in R. rewrite <- surjective_pairing in G. rewrite R in G. inv G. auto.
  - eapply A; eauto. discriminate.
Qed.

Lemma rebind_list_loop : forall pvs st its upd st' u e,
  WFI st -> at_is st ps tid KList pa fl its -> clean its -> anc_clean st ps -> treats_as_sealed sc fl = false ->
  Forall entry_ok pvs -> Forall (fun i => i = tid) upd ->
  rebind_loop q sc st ps pvs upd = (st', u, e) ->
  WFI st' /\ Forall (fun i => i = tid) u /\
  wrote st ps tid pa fl st' (fst (py_lwrites (evals its) (map entry_w pvs))) /\
  e = option_map err_of (snd (py_lwrites (evals its) (map entry_w pvs))).
Proof.
  induction pvs as [|[path rv] pvs IH]; intros st its upd st' u e W R C A SL F FU E; simpl in E.
  - inv E. simpl. split; [auto|split; [auto|split; [apply wrote_refl; auto; apply W|auto]]].
  - inv F. destruct H1 as [[z EZ] PV]. simpl in EZ. cbn [snd] in PV. subst path.
    rewrite (rebind_one_single q sc ps tid pa fl st its z rv R SL) in E.
    destruct (lprim q sc st ps (KI z) rv) as [st1 p] eqn:L. cbn [fst snd] in E.
    assert (OK : rv_ok rv) by (destruct rv; simpl in *; auto using plain_rv_ok; destruct l; auto; contradiction).
    pose proof (lprim_WFI _ _ _ _ _ _ _ _ W OK L) as W1.
    simpl map. set (w := snd (entry_w ([KI z], rv))). change (entry_w ([KI z], rv)) with (z, w). cbn [py_lwrites].
    assert (STEP : match py_lwrite (evals its) z w with
                   | inl l1 => (p = PNone \/ p = PUpd) /\ wrote st ps tid pa fl st1 l1
                   | inr e1 => p = PErr (err_of e1) /\ st1 = st
                   end).
    { unfold w, entry_w. cbn [fst snd]. destruct rv as [l|l|i|v]; simpl in PV; try contradiction; unfold py_lwrite; rewrite ?len_evals.
      - destruct (z >=? zlen its) eqn:GE.
        + destruct (lprim_append q sc st ps tid pa fl its R C A (proj1 W) z (RLeaf l) st1 p (plain_storable (RLeaf l) PV) ltac:(lia) L); auto.
        + destruct (z <? - zlen its) eqn:LT.
          * rewrite (lprim_below st its z (RLeaf l) R (PV : plain_rv (RLeaf l)) ltac:(lia)) in L. inv L. auto.
          * destruct (lprim_replace q sc st ps tid pa fl its R C A (proj1 W) z (RLeaf l) st1 p (PV : plain_rv (RLeaf l)) ltac:(lia) L); auto.
      - destruct (z >=? zlen its) eqn:GE.
        + destruct (lprim_append q sc st ps tid pa fl its R C A (proj1 W) z (RLit l) st1 p (plain_storable (RLit l) PV) ltac:(lia) L); auto.
        + destruct (z <? - zlen its) eqn:LT.
          * rewrite (lprim_below st its z (RLit l) R (PV : plain_rv (RLit l)) ltac:(lia)) in L. inv L. auto.
          * destruct (lprim_replace q sc st ps tid pa fl its R C A (proj1 W) z (RLit l) st1 p (PV : plain_rv (RLit l)) ltac:(lia) L); auto.
      - destruct (lprim_insert q sc st ps tid pa fl its R C A (proj1 W) z v st1 p (plain_storable v PV) L); auto. }
    destruct (py_lwrite (evals its) z w) as [l1|e1].
    + destruct STEP as [PP WR]. pose proof WR as (its1 & R1 & C1 & E1 & K1 & A1 & WS1).
      assert (exists upd', Forall (fun i => i = tid) upd' /\ rebind_loop q sc st1 ps pvs upd' = (st', u, e)).
      { destruct PP; subst p; eauto. exists (upd ++ [tid]). split; auto. apply Forall_app; auto. }
      destruct H as (upd' & FU' & E').
      destruct (IH st1 its1 upd' st' u e W1 R1 C1 A1 SL H2 FU' E') as (W' & FU2 & WR2 & EE).
      rewrite E1 in WR2, EE. split; [auto|split; [auto|split; [|auto]]].
      eapply wrote_step; [exact WR|]. intros its1' R1' _ _ _ _. unfold at_is in R1, R1'. rewrite R1 in R1'. inv R1'. exact WR2.
    + destruct STEP as [PP ES]. subst p st1. inv E. simpl. split; [auto|split; [auto|split; [apply wrote_refl; auto; apply W|auto]]].
Qed.

(* x.rebind({z1: v1, z2: v2, ...}) on a list: the entries sorted from the highest index down, applied one after the other *)
Theorem exec_rebind_list_refines : forall st its pvs st' out,
  WFI st -> at_is st ps tid KList pa fl its -> clean its -> anc_clean st ps -> treats_as_sealed sc fl = false ->
  Forall entry_ok pvs -> pvs <> [] ->
  exec q sc st ps tid KList (snd ps) fl its (Rebind pvs) = (st', out) ->
  WFI st' /\ wrote st ps tid pa fl st' (fst (py_lwrites (evals its) (map entry_w (sort_desc pvs)))) /\
  out = match snd (py_lwrites (evals its) (map entry_w (sort_desc pvs))) with None => Ok RNone | Some e => Err (err_of e) end.
Proof.
  intros st its pvs st' out W R C A SL F NE E. unfold exec in E.
  destruct pvs as [|pv0 pvs0] eqn:EP; [congruence|]. rewrite <- EP in *. clear EP.
  assert (E2 : rebind_core q sc st ps KList pvs (notify_on sc) = (st', out)) by (destruct pvs; [congruence|exact E]).
  clear E. unfold rebind_core in E2.
  destruct (rebind_loop q sc st ps (sort_desc pvs) []) as [[st1 u] e] eqn:L.
  destruct (rebind_list_loop (sort_desc pvs) st its [] st1 u e W R C A SL (sort_desc_forall _ _ _ F) ltac:(constructor) L) as (W1 & FU & WR & EE).
  destruct (snd (py_lwrites (evals its) (map entry_w (sort_desc pvs)))) as [pe|]; simpl in EE; subst e; inv E2; auto.
  destruct WR as (its1 & R1 & C1 & E1 & K1 & A1 & WS1).
  destruct (notify_on sc).
  - rewrite (fix_chains_id_list st1 its1 u W1 R1 C1 A1 FU). split; [auto|split; [exists its1; auto 10|auto]].
  - split; [auto|split; [exists its1; auto 10|auto]].
Qed.
End ListRebind.

(* Per-run instance obligation of C19 on the symbol-handling plan regenerated from execution.py (Gen/EvalOutPlan.v). *)
From PG Require Import Model.EvalOut Gen.EvalOutPlan Proofs.EvalOutProofs.

Lemma generated_out_plan_ok : plan_ok out_plan = true.
Proof. vm_compute. reflexivity. Qed.

(* SymCoreEventsTheorems.v -- the event contract of one call, stated on SymCore.step. *)
From PG Require Import Common.Tactics Model.SymCoreDefs Model.SymCoreOps Model.SymCoreSpec Model.SymCoreEvents
     Proofs.SymCoreBase Proofs.SymCoreWF Proofs.SymCoreClone Proofs.SymCoreWFOps Proofs.SymCoreIds
     Proofs.SymCoreEventsBase Proofs.SymCoreEventsDeliver Proofs.SymCoreEventsStep Proofs.SymCoreEventsWF.
From Coq Require Import NArith Permutation.

Theorem step_trace_ok : forall q st o, WFI st -> trace_ok (step_trace q st o).
Proof.
  intros. unfold step_trace.
  destruct (get_at st (o_pos o)) as [[lf|tid tk pa tpth tfl its]|] eqn:G; try apply trace_ok_nil.
  destruct (kind_ok tk (o_op o)) eqn:K; simpl; [|apply trace_ok_nil].
  destruct (resolve_op st (o_op o)) as [ro|] eqn:R; [|apply trace_ok_nil].
  eapply exec_trace_ok; eauto.
  - clear - K R. destruct (o_op o); simpl in *;
      repeat match goal with
             | H : option_map _ ?x = Some _ |- _ => destruct x eqn:?; simpl in H; [|discriminate]
             end; inv R; auto.
  - eapply resolve_op_ok; eauto.
Qed.

(* the notification of a single trace is its last entry *)
Lemma silent_no_tn : forall t st ups stop, silent t -> ~ In (TN st ups stop) t.
Proof. unfold silent. intros t st ups stop S I. rewrite Forall_forall in S. apply S in I. auto. Qed.
Lemma affected_refresh : forall st st0 ups, affected st (map (refresh st0) ups) = affected st ups.
Proof.
  intros. unfold affected, pairs. induction ups; simpl; auto. rewrite !map_app, IHups. f_equal. rewrite !map_map. auto.
Qed.
Lemma single_the_tn : forall t st ups stop, single t -> In (TN st ups stop) t -> events_of t = deliver st (map (refresh st) ups) stop.
Proof.
  intros t st ups stop [S|(t0 & s & u & sp & E & S)] I.
  - exfalso. eapply silent_no_tn; eauto.
  - subst. apply in_app_or in I. destruct I as [I|[I|[]]]. exfalso; eapply silent_no_tn; eauto. inv I.
    unfold events_of. rewrite flat_map_app. fold (events_of t0). rewrite (silent_events _ S). simpl. rewrite app_nil_r. auto.
Qed.
Lemma no_tn_no_events : forall t, (forall st ups stop, ~ In (TN st ups stop) t) -> events_of t = [].
Proof.
  intros. apply silent_events. unfold silent. apply Forall_forall. intros [s i|s u sp] I; auto. eapply H; eauto.
Qed.

(* WHO HEARS: with [st'] the forest right after the writes of the call and [ups] its field updates, the receivers are exactly
   the observing nodes among the written containers and the containers above them -- each once (step_once) *)
Theorem step_who : forall q st o st' ups i, WFI st -> In (TN st' ups None) (step_trace q st o) ->
  (In i (map ev_id (events_of (step_trace q st o))) <->
   exists n, In n (affected st' ups) /\ nid0 n = i /\ observes n = true).
Proof.
  intros q st o st' ups i W I.
  rewrite (single_the_tn _ _ _ _ (step_trace_single q st o) I). rewrite <- (affected_refresh st' st' ups).
  apply deliver_who. apply affected_inj.
  assert (T := step_trace_ok q st o W). unfold trace_ok in T. rewrite Forall_forall in T. apply (T _ I).
Qed.
(* WHAT THEY ARE TOLD *)
Theorem step_payload : forall q st o st' ups e, WFI st -> In (TN st' ups None) (step_trace q st o) ->
  In e (events_of (step_trace q st o)) ->
  exists m, In m (affected st' ups) /\ observes m = true /\
            ev_id e = nid0 m /\ ev_path e = npth m /\ ev_payload e = payload_spec st' (map (refresh st') ups) m.
Proof.
  intros q st o st' ups e W I E.
  rewrite (single_the_tn _ _ _ _ (step_trace_single q st o) I) in E. rewrite <- (affected_refresh st' st' ups).
  apply deliver_payload; auto. apply affected_inj.
  assert (T := step_trace_ok q st o W). unfold trace_ok in T. rewrite Forall_forall in T. apply (T _ I).
Qed.

(* the chain of a written container, read positionally: the container and the containers it is (actually) stored in *)
Lemma inits_in : forall A (pre rest : list A), In pre (inits (pre ++ rest)).
Proof. intros. apply in_inits. eauto. Qed.
Theorem affected_are_the_ancestors : forall st ups n, wfs st ->
  (In n (affected st ups) <->
   exists u r pre rest, In u ups /\ locate st (u_tid u) = Some (r, pre ++ rest) /\ get_at st (r, pre) = Some n).
Proof.
  intros st ups n W. split.
  - intros I. apply affected_in in I. destruct I as (u & Iu & C).
    destruct (chain_of_in _ _ _ W C) as (r & p & pre & rest & L & E & G & _). subst. exists u, r, pre, rest. auto.
  - intros (u & r & pre & rest & Iu & L & G). eapply in_affected; eauto.
    unfold chain_of. rewrite L. unfold chain_at. simpl. apply in_flat_map. exists pre. split.
    + unfold prefixes_desc. apply -> in_rev. apply inits_in.
    + rewrite G. simpl. auto.
Qed.

(* --- children first, on the step ---------------------------------------------------------------------------------------------- *)
From PG Require Import Proofs.SymCoreEventsOrder.
Theorem step_children_first : forall q st o,
  (forall st' ups stop, In (TN st' ups stop) (step_trace q st o) -> Forall (fun n => simple_path (npth n)) (affected st' ups)) ->
  children_first (map ev_path (events_of (step_trace q st o))).
Proof.
  intros. destruct (single_events _ (step_trace_single q st o)) as [E|(s & u & sp & I & E)]; rewrite E.
  simpl; auto. apply deliver_children_first. rewrite affected_refresh. eauto.
Qed.

(* --- the caller skips: Dict.update / |= never notify; rebind(skip_notification=True) does not ---------------------------------- *)
Theorem update_is_silent : forall q st o kvs, o_op o = DUpdate kvs \/ o_op o = DIOr kvs -> events_of (step_trace q st o) = [].
Proof.
  intros. apply silent_events. unfold step_trace.
  destruct (get_at st (o_pos o)) as [[lf|tid tk pa tpth tfl its]|]; auto with c09.
  destruct (negb (kind_ok tk (o_op o))); auto with c09.
  destruct H as [H|H]; rewrite H; simpl; destruct (resolve_kvs st kvs); simpl; auto with c09; apply rebind_core_tr_silent.
Qed.
Theorem skip_is_silent : forall q st sc ps pvs np, events_of (snd (stepx q st sc ps pvs (Some true) np)) = [].
Proof.
  intros. apply silent_events. unfold stepx.
  destruct (get_at st ps) as [[lf|tid tk pa tpth tfl its]|]; simpl; auto with c09.
  destruct (resolve_kvs st pvs) as [[|pv r]|]; simpl; auto with c09.
  destruct (match tk with KObj _ => treats_as_sealed sc tfl | _ => false end); simpl; auto with c09.
  destruct (rebindx_core q sc st ps tk (pv :: r) false np). simpl. apply rebind_core_tr_silent.
Qed.
(* ... and skip_notification=False notifies even inside a disabled scope, None follows the scope: the flag is all that matters *)
Theorem skip_none_is_rebind : forall q st sc ps pvs,
  snd (stepx q st sc ps pvs None true) = step_trace q st (mkSop sc ps (Rebind pvs)).
Proof.
  intros. unfold stepx, step_trace. simpl.
  destruct (get_at st ps) as [[lf|tid tk pa tpth tfl its]|]; simpl; auto.
  destruct (resolve_kvs st pvs) as [[|pv r]|]; simpl; auto.
  destruct tk; simpl; try destruct (treats_as_sealed sc tfl); simpl; auto;
    unfold rebindx_core; destruct (rebind_core q sc st ps _ (pv :: r) (notify_on sc)); auto.
Qed.

(* --- what an update says: the container, the written key, what was there, what is there ------------------------------------------ *)
Theorem update_reads_the_states : forall st st' cp ky rv cid kd pa cpath cfl its u,
  get_at st cp = Some (Node cid kd pa cpath cfl its) -> In u (upd_of st st' cp ky rv) ->
  u_tid u = cid /\ exists k', u_path u = cpath ++ [k'] /\ u_new u = item_at st' cp k' /\
                              (u_old u = item_at st cp k' \/ u_old u = Leaf LMissing).
Proof.
  intros. unfold upd_of in H0. rewrite H in H0.
  destruct (match kd, ky with KList, KI z => let '(i, f) := l_actual its z rv in (KI i, f) | _, _ => (ky, false) end) as [k' fresh] eqn:E.
  destruct H0 as [H0|[]]. subst u. simpl. split; auto. exists k'. repeat split; auto.
  destruct fresh; auto. left. unfold item_at. rewrite H. auto.
Qed.
(* the path relative to a receiver that sits [length pre] levels above the root... : what follows its own path *)
Theorem relative_path_exact : forall m u pre rest k, npth m = pre -> u_path u = pre ++ rest ++ [k] -> rel_path m u = rest ++ [k].
Proof.
  intros. unfold rel_path. rewrite H, H0. clear. induction pre; simpl; auto.
Qed.

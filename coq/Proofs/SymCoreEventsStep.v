(* SymCoreEventsStep.v -- one call, at most one notification; hence no receiver hears twice. *)
From PG Require Import Common.Tactics Model.SymCoreDefs Model.SymCoreOps Model.SymCoreEvents
     Proofs.SymCoreBase Proofs.SymCoreEventsBase Proofs.SymCoreEventsDeliver.
From Coq Require Import NArith Permutation.

(* a trace with at most one notification, which comes last *)
Definition single (t : trace) : Prop := silent t \/ exists t0 st ups stop, t = t0 ++ [TN st ups stop] /\ silent t0.
Lemma single_silent : forall t, silent t -> single t. Proof. left; auto. Qed.
Lemma single_nil : single []. Proof. left. constructor. Qed.
Lemma single_tw : forall st i t, single t -> single (TW st i :: t).
Proof.
  intros st i t [S|(t0 & s & u & sp & E & S)].
  - left. auto with c09.
  - right. exists (TW st i :: t0), s, u, sp. subst. split; auto with c09.
Qed.
Lemma single_app_silent : forall a b, silent a -> single b -> single (a ++ b).
Proof.
  intros a b SA [S|(t0 & s & u & sp & E & S)].
  - left. auto with c09.
  - right. exists (a ++ t0), s, u, sp. subst. rewrite app_assoc. split; auto with c09.
Qed.
Lemma single_ntf : forall sc st ups, single (ntf sc st ups).
Proof.
  intros. unfold ntf. destruct ups; [apply single_nil|]. destruct (notify_on sc); [|apply single_nil].
  right. exists [], st, (u :: ups), None. split; auto with c09.
Qed.
Lemma single_tn : forall st ups stop, single [TN st ups stop].
Proof. intros. right. exists [], st, ups, stop. split; auto with c09. Qed.
#[global] Hint Resolve single_silent single_nil single_tw single_app_silent single_ntf single_tn : c09.

Lemma wtrace_silent' : forall st st' cp ky rv p, silent (fst (wtrace st st' cp ky rv p)).
Proof. intros. unfold wtrace. destruct p; simpl; auto with c09. Qed.
Lemma write1_single : forall pr sc st ps ky rv, single (write1_tr pr sc st ps ky rv).
Proof.
  intros. unfold write1_tr. destruct (pr sc st ps ky rv) as [st' p]. destruct p; auto with c09.
  simpl. auto with c09.
Qed.
Lemma ldel_single : forall sc st ps idx, single (ldel_tr sc st ps idx).
Proof. intros. unfold ldel_tr. destruct (nth_error (cur_items st ps) idx) as [[k old]|]; auto with c09. Qed.
Lemma extend_tr_silent' : forall q sc rvs st ps, silent (fst (fst (fst (extend_tr q sc st ps rvs)))).
Proof.
  induction rvs; simpl; intros; auto with c09.
  destruct (lprim q sc st ps (KI (cur_len st ps)) a) as [st' p] eqn:E.
  assert (W := wtrace_silent' st st' ps (KI (cur_len st ps)) a).
  specialize (IHrvs st' ps). destruct (extend_tr q sc st' ps rvs) as [[[t u] stf] ok]. simpl in IHrvs.
  destruct p; simpl; auto with c09.
Qed.
Lemma extend_core_single : forall q sc rvs st ps, single (extend_core_tr q sc st ps rvs).
Proof.
  intros. unfold extend_core_tr. assert (H := extend_tr_silent' q sc rvs st ps).
  destruct (extend_tr q sc st ps rvs) as [[[t u] stf] ok]. simpl in H. destruct ok; auto with c09.
Qed.
Lemma rebind_tr_silent' : forall q sc pvs st tp, silent (fst (fst (fst (rebind_tr q sc st tp pvs)))).
Proof.
  induction pvs as [|[p rv] r IH]; simpl; intros; auto with c09.
  destruct (rebind_one q sc st tp p rv) as [[st' pr] c].
  assert (W : silent (fst (rebind_one_tr q sc st tp p rv))).
  { unfold rebind_one_tr.
    repeat (first [ apply silent_nil | (unfold wtrace; destr_match; simpl; auto with c09; fail) | destr_match; simpl ]). }
  specialize (IH st' tp). destruct (rebind_tr q sc st' tp r) as [[[t u] stf] ok]. simpl in IH.
  destruct (rebind_one_tr q sc st tp p rv) as [tw us]. simpl in W. destruct pr; simpl; auto with c09.
Qed.
Lemma rebind_core_single : forall q sc st tp tk pvs nt stop, single (rebind_core_tr q sc st tp tk pvs nt stop).
Proof.
  intros. unfold rebind_core_tr.
  set (ordered := match tk with KList => sort_desc pvs | _ => pvs end).
  assert (H := rebind_tr_silent' q sc ordered st tp).
  destruct (rebind_tr q sc st tp ordered) as [[[t u] stf] ok]. simpl in H.
  destruct (ok && nt); auto with c09.
  destruct (match tk with KList => rev u | _ => u end); [rewrite app_nil_r; auto with c09|].
  right. exists t, stf, (u0 :: l), stop. auto.
Qed.

Lemma exec_trace_single : forall q sc st ps tid tk tpth tfl its o, single (exec_trace q sc st ps tid tk tpth tfl its o).
Proof.
  intros. unfold exec_trace.
  destruct o; repeat (first [ apply single_nil | apply write1_single | apply ldel_single | apply extend_core_single
                             | apply rebind_core_single | destr_if | destr_match ]); auto with c09.
  all: try (unfold clear_list_tr, reorder_tr; simpl; repeat destr_match; auto with c09).
  all: try (destruct (new_list_from q st its) as [c st1]; apply extend_core_single).
  all: try (destruct (new_list_from q st []) as [c st1]; apply single_silent; apply extend_tr_silent').
Qed.
Theorem step_trace_single : forall q st o, single (step_trace q st o).
Proof. intros. unfold step_trace. repeat destr_match; auto with c09. apply exec_trace_single. Qed.

(* events of a single trace = what its notification delivers *)
Lemma single_events : forall t, single t ->
  events_of t = [] \/ exists st ups stop, In (TN st ups stop) t /\ events_of t = deliver st (map (refresh st) ups) stop.
Proof.
  intros t [S|(t0 & st & ups & stop & E & S)].
  - left. apply silent_events; auto.
  - right. exists st, ups, stop. subst. split. apply in_or_app; right; simpl; auto.
    unfold events_of. rewrite flat_map_app. fold (events_of t0). rewrite (silent_events _ S). simpl. rewrite app_nil_r. auto.
Qed.

Lemma cut_after_incl : forall stop ts, exists rest, ts = cut_after stop ts ++ rest.
Proof.
  induction ts; simpl. exists []; auto. destruct IHts as [r E]. destruct stop.
  - destruct (N.eqb (nid0 (fst a)) n). exists ts; auto. exists r. simpl. congruence.
  - exists r. simpl. congruence.
Qed.
Lemma nodup_app_l : forall A (a b : list A), NoDup (a ++ b) -> NoDup a.
Proof. intros. apply nodup_app_inv in H. tauto. Qed.
Theorem deliver_once_stop : forall st ups stop, NoDup (map ev_id (deliver st ups stop)).
Proof.
  intros. assert (H := deliver_once st ups). unfold deliver, notified_targets in *. rewrite cut_none in H.
  destruct (cut_after_incl stop (order (group st ups))) as [rest E]. rewrite E in H.
  rewrite flat_map_app, map_app in H. eapply nodup_app_l; eauto.
Qed.

(* EXACTLY ONCE, first half: whatever the operation, the scope, the state -- no node hears about one call twice *)
Theorem step_once : forall q st o, NoDup (map ev_id (events_of (step_trace q st o))).
Proof.
  intros. destruct (single_events _ (step_trace_single q st o)) as [E|(s & u & sp & _ & E)]; rewrite E.
  constructor. apply deliver_once_stop.
Qed.

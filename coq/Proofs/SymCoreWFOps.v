(* SymCoreWFOps.v — every step keeps every slot well-formed (stored parent = container, stored path = position). *)
From PG Require Import Common.Tactics Model.SymCoreDefs Model.SymCoreOps Model.SymCoreSpec
     Proofs.SymCoreBase Proofs.SymCoreWF Proofs.SymCoreClone.
From Coq Require Import NArith.
Local Open Scope Z_scope.

(* --- slots ---------------------------------------------------------------------------------------------------- *)
Lemma get_root_in : forall st r t, get_root st r = Some t -> In (Live t) (roots st).
Proof.
  unfold get_root; intros. destruct (nth_error (roots st) r) as [[x|]|] eqn:E; try discriminate.
  inv H. eapply nth_error_In; eauto.
Qed.
Lemma wfs_get_root : forall st r t, wfs st -> get_root st r = Some t -> is_node t = true /\ wf_node None [] t.
Proof.
  intros. apply get_root_in in H0. unfold wfs in H. rewrite Forall_forall in H. apply (H _ H0).
Qed.
Lemma wfs_get_at : forall st ps n, wfs st -> get_at st ps = Some n -> exists ep, wf_node ep (snd ps) n.
Proof.
  unfold get_at; intros. destruct (get_root st (fst ps)) eqn:E; [|discriminate].
  destruct (wfs_get_root _ _ _ H E) as [_ W].
  destruct (wf_get_in _ _ _ _ _ W H0) as (ep & W' & _). eauto.
Qed.
Lemma Forall_set_nth_slot : forall (P : slot -> Prop) n x l, P x -> Forall P l -> Forall P (set_nth n x l).
Proof. intros; apply Forall_set_nth; auto. Qed.
Lemma wfs_set_root : forall st r s, wfs st -> wf_slot s -> wfs (set_root st r s).
Proof. unfold wfs, set_root; simpl; intros. apply Forall_set_nth; auto. Qed.
Lemma wfs_with_next : forall st nx, wfs st -> wfs (with_next st nx).
Proof. auto. Qed.
Lemma wfs_add_root : forall st t, wfs st -> is_node t = true -> wf_node None [] t -> wfs (add_root st t).
Proof. unfold wfs, add_root; simpl; intros. apply Forall_app; split; auto. constructor; simpl; auto. Qed.
Lemma restore_slot_wf : forall i t rs rs', Forall wf_slot rs -> wf_slot (Live t) -> restore_slot i t rs = Some rs' -> Forall wf_slot rs'.
Proof.
  induction rs; simpl; intros; try discriminate. inv H.
  destruct a.
  - destruct (restore_slot i t rs) eqn:E; [|discriminate]. inv H1. constructor; auto.
  - destruct (N.eqb i i0). inv H1. constructor; auto.
    destruct (restore_slot i t rs) eqn:E; [|discriminate]. inv H1. constructor; auto.
Qed.
Lemma wfs_add_detached : forall st n ep pt, wfs st -> wf_node ep pt n -> wfs (add_detached st n).
Proof.
  intros. destruct n as [l|i k pa p fl its]; [exact H|].
  assert (W : wf_slot (Live (detach (Node i k pa p fl its)))).
  { split. rewrite is_node_detach; auto. eapply detach_wf; eauto. }
  unfold add_detached.
  destruct (restore_slot i (detach (Node i k pa p fl its)) (roots st)) eqn:E.
  - unfold wfs; simpl. eapply restore_slot_wf; eauto.
  - destruct W. apply wfs_add_root; auto.
Qed.

(* --- replacing the subtree at a position --------------------------------------------------------------------- *)
Lemma Forall_map_assoc_first : forall A (P : key * A -> Prop) k f l,
  (forall v k', assoc k l = Some v -> key_eqb k k' = true -> P (k', v) -> P (k', f v)) ->
  Forall P l -> Forall P (map_assoc k f l).
Proof.
  induction l as [|[k' v'] r]; simpl; intros; auto. inv H0.
  destruct (key_eqb k k') eqn:E; constructor; auto.
Qed.
Lemma update_in_wf : forall p f t ep epth c,
  wf_node ep epth t -> get_in p t = Some c ->
  (forall ep', wf_node ep' (epth ++ p) c -> wf_node ep' (epth ++ p) (f c)) ->
  wf_node ep epth (update_in p f t).
Proof.
  induction p; simpl; intros.
  - inv H0. rewrite app_nil_r in H1. auto.
  - destruct t as [l|i k pa pt fl its]; simpl in *; [discriminate|].
    destruct (assoc a its) as [c0|] eqn:A; [|discriminate].
    apply wf_node_unfold in H. destruct H as (E1 & E2 & K & F).
    apply wf_node_unfold. repeat split; auto.
    + rewrite map_assoc_keys; auto.
    + apply Forall_map_assoc_first; auto.
      intros v k' A' E W. simpl in *. rewrite A in A'; inv A'. apply key_eqb_eq in E; subst k'.
      eapply IHp; eauto. intros. rewrite <- app_assoc in *. simpl in *. auto.
Qed.
Lemma update_in_is_node : forall p f t, (is_node (f t) = is_node t) -> is_node (update_in p f t) = is_node t.
Proof. destruct p; simpl; intros; auto. destruct t; auto. Qed.
Lemma wfs_update_at : forall st ps f c,
  wfs st -> get_at st ps = Some c ->
  (forall ep, wf_node ep (snd ps) c -> wf_node ep (snd ps) (f c)) ->
  (forall t, is_node (f t) = is_node t) ->
  wfs (update_at st ps f).
Proof.
  unfold update_at, get_at; intros. destruct (get_root st (fst ps)) as [t|] eqn:E; auto.
  destruct (wfs_get_root _ _ _ H E) as [N W].
  apply wfs_set_root; auto. simpl. split.
  - rewrite update_in_is_node; auto.
  - eapply update_in_wf; eauto.
Qed.

Lemma wfs_replace_items : forall st st1 cp cid ck pa pt fl its its',
  wfs st -> wfs st1 -> get_at st cp = Some (Node cid ck pa pt fl its) ->
  (get_root st1 (fst cp) = None \/ get_root st1 (fst cp) = get_root st (fst cp)) ->
  keys_ok ck (map fst its') -> Forall (child_wf cid pt) its' ->
  wfs (update_at st1 cp (set_items its')).
Proof.
  intros. destruct H2 as [E|E].
  - unfold update_at. rewrite E. auto.
  - eapply wfs_update_at with (c := Node cid ck pa pt fl its); eauto.
    + unfold get_at in *. rewrite E. auto.
    + intros ep W. simpl. apply wf_node_unfold in W. destruct W as (E1 & E2 & _ & _). subst.
      apply wf_node_unfold. repeat split; auto.
    + destruct t; auto.
Qed.
(* what the container at a position looks like in a well-formed state *)
Lemma container_facts : forall st cp cid ck pa pt fl its,
  wfs st -> get_at st cp = Some (Node cid ck pa pt fl its) ->
  pt = snd cp /\ keys_ok ck (map fst its) /\ Forall (child_wf cid pt) its.
Proof.
  intros. destruct (wfs_get_at _ _ _ H H0) as (ep & W).
  apply wf_node_unfold in W. destruct W as (_ & E & K & F). subst. auto.
Qed.

(* --- values --------------------------------------------------------------------------------------------------------- *)
Fixpoint rv_ok (rv : rvalue) : Prop :=
  match rv with RLit l => lit_valid l = true | RIns v => rv_ok v | _ => True end.
Lemma resolve_ok : forall st v rv, resolve st v = Some rv -> rv_ok rv.
Proof.
  induction v; simpl; intros.
  - destruct l. inv H; simpl; auto. destruct (lit_valid (LitNode k fl plain items)) eqn:E; inv H. simpl; auto.
  - destruct (get_at st p) as [[|]|]; inv H; simpl; auto.
  - destruct (resolve st v); inv H. simpl; auto.
Qed.
Lemma resolve_all_ok : forall st vs rvs, resolve_all st vs = Some rvs -> Forall rv_ok rvs.
Proof.
  induction vs; simpl; intros. inv H; auto.
  destruct (resolve st a) eqn:E; [|discriminate]. destruct (resolve_all st vs); [|discriminate]. inv H.
  constructor; eauto using resolve_ok.
Qed.
Lemma resolve_kvs_ok : forall K st (kvs : list (K * value)) rvs, resolve_kvs st kvs = Some rvs -> Forall (fun kv => rv_ok (snd kv)) rvs.
Proof.
  induction kvs as [|[k v] r]; simpl; intros. inv H; auto.
  destruct (resolve st v) eqn:E; [|discriminate]. destruct (resolve_kvs st r); [|discriminate]. inv H.
  constructor; simpl; eauto using resolve_ok.
Qed.

Lemma get_root_set_root_other : forall st r r' s, r <> r' -> get_root (set_root st r s) r' = get_root st r'.
Proof.
  unfold get_root, set_root; simpl; intros. f_equal.
  revert r r' H. induction (roots st); intros; destruct r, r'; simpl; auto; try congruence.
Qed.
Lemma get_root_set_root_moved : forall st r i, get_root (set_root st r (Moved i)) r = None.
Proof.
  unfold get_root, set_root; simpl; intros.
  revert r. induction (roots st); intros; destruct r; simpl; auto.
Qed.

(* formalize: the value that gets stored is well-formed at its new place; the rest of the state stays well-formed and
   the root the container lives in is either untouched or (degenerate) gone *)
Lemma formalize_wf : forall q sc st r ck cid cfl tpath ins rv nw st1,
  wfs st -> rv_ok rv -> formalize q sc st r ck cid cfl tpath ins rv = (nw, st1) ->
  wf_node (Some cid) tpath nw /\ wfs st1 /\
  (forall r', get_root st1 r' = None \/ get_root st1 r' = get_root st r').
Proof.
  intros q sc st r ck cid cfl tpath ins rv nw st1 W OK F.
  destruct rv; simpl in F.
  - inv F. auto.
  - destruct (build (accepts_partial sc cfl) (Some cid) tpath l (next_id st)) as [n nx] eqn:B. inversion F; subst nw st1; clear F.
    split; [|split; auto].
    replace n with (fst (build (accepts_partial sc cfl) (Some cid) tpath l (next_id st))) by (rewrite B; auto).
    apply build_wf; auto.
  - destruct (locate st i) as [vpos|]; [|inv F; auto].
    destruct (get_at st vpos) as [v|] eqn:G; [|inv F; auto].
    destruct (wfs_get_at _ _ _ W G) as (ep & Wv).
    destruct (needs_clone r ck cid tpath ins vpos v).
    + destruct (clone_at (q_copy_drops_missing q) false (Some cid) tpath v (next_id st, [])) as [c cs] eqn:C. inversion F; subst nw st1; clear F.
      split; [|split; auto].
      replace c with (fst (clone_at (q_copy_drops_missing q) false (Some cid) tpath v (next_id st, []))) by (rewrite C; auto).
      eapply clone_at_wf; eauto.
    + inv F. split; [eapply relocate_wf; eauto|].
      destruct (snd vpos); auto. split.
      * apply wfs_set_root; simpl; auto.
      * intros r'. destruct (Nat.eq_dec (fst vpos) r').
        -- subst. left. apply get_root_set_root_moved.
        -- right. apply get_root_set_root_other; auto.
  - inv F. auto.
Qed.

(* --- the write primitives ----------------------------------------------------------------------------------------- *)
Lemma zlen_map : forall A B (f : A -> B) l, zlen (map f l) = zlen l.
Proof. intros; unfold zlen; rewrite map_length; auto. Qed.

Lemma lprim_wfs : forall q sc st cp k rv st' p,
  wfs st -> rv_ok rv -> lprim q sc st cp k rv = (st', p) -> wfs st'.
Proof.
  intros q sc st cp k rv st' p W OK L. unfold lprim in L.
  destruct (get_at st cp) as [[|cid ck pa pt cfl its]|] eqn:G; try (inv L; auto; fail).
  destruct ck; try (inv L; auto; fail).
  destruct (container_facts _ _ _ _ _ _ _ _ W G) as (Ept & K & F). simpl in K.
  destruct k as [s|z]; [inv L; auto|].
  destruct ((z >=? zlen its) && is_missing_rv rv); [inv L; auto|].
  set (n := zlen its) in *.
  set (idx0 := if z >=? n then n else z) in *.
  destruct (match rv with RIns v' => (true, v') | _ => (false, rv) end) as [ins v] eqn:IV.
  assert (OKv : rv_ok v). { destruct rv; inv IV; simpl in *; auto. }
  set (idx := if idx0 <? 0 then if idx0 >=? - n then idx0 + n else if ins then 0 else idx0 else idx0) in *.
  destruct ((idx <? n) && negb ins) eqn:C1.
  - (* replace *)
    destruct (idx <? 0) eqn:C2; [inv L; auto|].
    destruct (nth_error its (Z.to_nat idx)) as [[k0 old]|] eqn:NE; [|inv L; auto].
    destruct (same_obj old v); [inv L; auto|].
    destruct (formalize q sc st (fst cp) KList cid cfl (pt ++ [KI idx]) false v) as [nw st1] eqn:FO.
    destruct (formalize_wf _ _ _ _ _ _ _ _ _ _ _ _ W OKv FO) as (Wn & W1 & R1).
    inv L.
    eapply wfs_add_detached.
    + eapply wfs_replace_items; [exact W | exact W1 | exact G | apply R1 | | ].
      * simpl. rewrite map_fst_set_nth.
        replace (KI idx) with (KI (0 + Z.of_nat (Z.to_nat idx))) by (f_equal; lia).
        apply positions_set_nth; auto. rewrite map_length. apply nth_error_Some. congruence.
      * apply Forall_set_nth; auto.
    + eapply Forall_nth_error in NE; eauto. exact NE.
  - destruct (formalize q sc st (fst cp) KList cid cfl (pt ++ [KI idx]) ins v) as [nw st1] eqn:FO.
    destruct (formalize_wf _ _ _ _ _ _ _ _ _ _ _ _ W OKv FO) as (Wn & W1 & R1).
    destruct (idx <? n) eqn:C3; inv L.
    + (* insert *)
      eapply wfs_replace_items; [exact W | exact W1 | exact G | apply R1 | | ].
      * simpl. apply renum_keys.
      * apply renum_wf. apply Forall_insert_at. exists (KI idx); auto. apply child_wf_any_of; auto.
    + (* append *)
      assert (idx = n).
      { unfold idx, idx0 in *. destruct (z >=? n) eqn:Z1.
        - destruct (n <? 0) eqn:Z2; [unfold n, zlen in *; lia|]. auto.
        - destruct (z <? 0) eqn:Z2; [|lia].
          destruct (z >=? - n) eqn:Z3; [lia|]. destruct ins; simpl in C1; unfold n, zlen in *; lia. }
      rewrite H.
      eapply wfs_replace_items; [exact W | exact W1 | exact G | apply R1 | | ].
      * simpl. rewrite map_app. simpl.
        replace (KI n) with (KI (0 + Z.of_nat (length (map fst its)))) by (rewrite map_length; auto).
        apply positions_app; auto.
      * apply Forall_app; split; auto. constructor; auto. unfold child_wf; simpl. rewrite <- H; auto.
Qed.

Lemma dprim_wfs : forall q sc st cp k rv st' p,
  wfs st -> rv_ok rv -> dprim q sc st cp k rv = (st', p) -> wfs st'.
Proof.
  intros q sc st cp k rv st' p W OK L. unfold dprim in L.
  destruct (get_at st cp) as [[|cid ck pa pt cfl its]|] eqn:G; try (inv L; auto; fail).
  destruct ck; try (inv L; auto; fail).
  destruct (container_facts _ _ _ _ _ _ _ _ W G) as (Ept & K & F). simpl in K.
  set (old := match assoc k its with Some o => o | None => Leaf LMissing end) in *.
  assert (Wold : exists ep p0, wf_node ep p0 old).
  { unfold old. destruct (assoc k its) eqn:A; [|exists None, []; auto].
    destruct (assoc_in _ _ _ _ A) as (k' & _ & I). rewrite Forall_forall in F. specialize (F _ I). eauto. }
  destruct Wold as (ep & p0 & Wold).
  destruct (same_obj old rv); [inv L; auto|].
  destruct (is_missing_rv rv).
  - inv L. eapply wfs_add_detached; eauto.
    eapply wfs_replace_items; [exact W | exact W | exact G | auto | | ].
    + simpl. apply remove_assoc_nodup; auto.
    + apply Forall_remove_assoc; auto.
  - destruct (formalize q sc st (fst cp) KDict cid cfl (pt ++ [k]) false rv) as [nw st1] eqn:FO.
    destruct (formalize_wf _ _ _ _ _ _ _ _ _ _ _ _ W OK FO) as (Wn & W1 & R1).
    inv L. eapply wfs_add_detached; eauto.
    eapply wfs_replace_items; [exact W | exact W1 | exact G | apply R1 | | ].
    + simpl. apply set_assoc_nodup; auto.
    + apply Forall_set_assoc; auto. intros k' E. apply key_eqb_eq in E; subst. auto.
Qed.

Lemma oprim_wfs : forall q sc st cp k rv st' p,
  wfs st -> rv_ok rv -> oprim q sc st cp k rv = (st', p) -> wfs st'.
Proof.
  intros q sc st cp k rv st' p W OK L. unfold oprim in L.
  destruct (get_at st cp) as [[|cid ck pa pt cfl its]|] eqn:G; try (inv L; auto; fail).
  destruct ck; try (inv L; auto; fail).
  destruct (container_facts _ _ _ _ _ _ _ _ W G) as (Ept & K & F). simpl in K.
  destruct (assoc k its) as [old|] eqn:A; [|destruct (is_missing_rv rv); inv L; auto].
  destruct (same_obj old rv); [inv L; auto|].
  destruct (assoc_in _ _ _ _ A) as (k' & _ & I).
  pose proof F as F'. rewrite Forall_forall in F'. specialize (F' _ I).
  assert (X : exists nw st1, (if is_missing_rv rv then (Leaf LNone, st)
                              else formalize q sc st (fst cp) (KObj cls) cid cfl (pt ++ [k]) false rv) = (nw, st1)
                             /\ wf_node (Some cid) (pt ++ [k]) nw /\ wfs st1 /\
                             (forall r', get_root st1 r' = None \/ get_root st1 r' = get_root st r')).
  { destruct (is_missing_rv rv).
    - exists (Leaf LNone), st. repeat split; auto.
    - destruct (formalize q sc st (fst cp) (KObj cls) cid cfl (pt ++ [k]) false rv) as [nw st1] eqn:FO.
      exists nw, st1. split; auto. eapply formalize_wf; eauto. }
  destruct X as (nw & st1 & E & Wn & W1 & R1). rewrite E in L. inv L.
  eapply wfs_add_detached; eauto.
  eapply wfs_replace_items; [exact W | exact W1 | exact G | apply R1 | | ].
  - simpl. erewrite set_assoc_same_keys; eauto.
  - apply Forall_set_assoc; auto. intros k'' E'. apply key_eqb_eq in E'; subst. auto.
Qed.

Lemma prim_wfs : forall q sc st cp k rv st' p,
  wfs st -> rv_ok rv -> prim q sc st cp k rv = (st', p) -> wfs st'.
Proof.
  intros. unfold prim in H1.
  destruct (get_at st cp) as [[|cid ck pa pt cfl its]|]; try (inv H1; auto; fail).
  destruct ck; eauto using lprim_wfs, dprim_wfs, oprim_wfs.
Qed.

(* --- change notification: purging MISSING_VALUE from the lists on the way up -------------------------------------- *)
Lemma purge_list_wf : forall n ep pt, wf_node ep pt n -> wf_node ep pt (purge_list n).
Proof.
  destruct n as [l|i k pa p fl its]; intros; [exact H|]. destruct k; try exact H.
  unfold purge_list.
  apply wf_node_unfold in H. destruct H as (E1 & E2 & K & F). subst.
  apply wf_node_unfold. split; [auto|]. split; [auto|]. split.
  - simpl. apply renum_keys.
  - apply renum_wf. apply child_wf_any_of.
    rewrite Forall_forall in *. intros kv I. apply filter_In in I. destruct I. apply F; auto.
Qed.
Lemma is_node_purge_list : forall n, is_node (purge_list n) = is_node n.
Proof. destruct n; simpl; auto. destruct k; auto. Qed.
(* nothing at that position: update_in does not find it either *)
Lemma update_in_wf_missing : forall p f t ep epth,
  wf_node ep epth t -> get_in p t = None -> wf_node ep epth (update_in p f t).
Proof.
  induction p as [|a p IH]; simpl; intros; [discriminate|].
  destruct t as [lf|i k pa pt fl its]; auto. simpl in H0.
  apply wf_node_unfold in H. destruct H as (E1 & E2 & K & F).
  apply wf_node_unfold. split; [auto|]. split; [auto|]. split; [rewrite map_assoc_keys; auto|].
  apply Forall_map_assoc_first; auto. intros v k' A E W. apply key_eqb_eq in E; subst.
  rewrite A in H0. simpl. eapply IH; eauto.
Qed.
Lemma wfs_update_at_total : forall st ps f,
  wfs st -> (forall n ep pt, wf_node ep pt n -> wf_node ep pt (f n)) -> (forall t, is_node (f t) = is_node t) ->
  wfs (update_at st ps f).
Proof.
  intros. unfold update_at. destruct (get_root st (fst ps)) as [t|] eqn:E; auto.
  destruct (wfs_get_root _ _ _ H E) as [N W].
  apply wfs_set_root; auto. simpl. split.
  - rewrite update_in_is_node; auto.
  - destruct (get_in (snd ps) t) as [c|] eqn:G.
    + eapply update_in_wf; eauto.
    + eapply update_in_wf_missing; eauto.
Qed.
Lemma fix_chain_wfs : forall st ps, wfs st -> wfs (fix_chain st ps).
Proof.
  intros. unfold fix_chain. generalize (prefixes_desc (snd ps)). intros l. revert st H.
  induction l; simpl; intros; auto. apply IHl.
  apply wfs_update_at_total; auto using purge_list_wf, is_node_purge_list.
Qed.
Lemma fix_chains_wfs : forall ids st, wfs st -> wfs (fix_chains st ids).
Proof.
  unfold fix_chains. induction ids; simpl; intros; auto. apply IHids.
  destruct (locate st a); auto using fix_chain_wfs.
Qed.
Lemma notified_wfs : forall sc st ps p, wfs st -> wfs (notified sc st ps p).
Proof. intros. unfold notified. destruct p; auto. destruct (notify_on sc); auto using fix_chain_wfs. Qed.

(* --- the mutators built on the primitives ---------------------------------------------------------------------------- *)
Lemma cur_items_facts : forall st ps tid tk pa pt fl its,
  get_at st ps = Some (Node tid tk pa pt fl its) -> cur_items st ps = its /\ cur_path st ps = pt /\ cur_len st ps = zlen its.
Proof. intros. unfold cur_items, cur_path, cur_len. rewrite H. auto. Qed.

Lemma detach_all_wfs : forall its st, wfs st -> Forall (fun kv => exists ep pt, wf_node ep pt (snd kv)) its -> wfs (detach_all st its).
Proof.
  unfold detach_all. intros its. induction its as [|kv its IH]; simpl; intros; auto. inv H0. destruct H3 as (ep & pt & W).
  apply IH; auto. eapply wfs_add_detached; eauto.
Qed.
Lemma children_wf_any : forall cid pt its, Forall (child_wf cid pt) its -> Forall (fun kv => exists ep p, wf_node ep p (snd kv)) its.
Proof. intros. eapply Forall_impl; [|exact H]. intros kv W. unfold child_wf in W. eauto. Qed.

Lemma ldel_core_wfs : forall sc st ps idx st' r tid pa pt fl its,
  wfs st -> get_at st ps = Some (Node tid KList pa pt fl its) -> ldel_core sc st ps idx = (st', r) -> wfs st'.
Proof.
  intros sc st ps idx st' r tid pa pt fl its W G L. unfold ldel_core in L.
  destruct (cur_items_facts _ _ _ _ _ _ _ _ G) as (E1 & E2 & _). rewrite E1, E2 in L. clear E1 E2.
  destruct (container_facts _ _ _ _ _ _ _ _ W G) as (Ept & K & F).
  destruct (nth_error its idx) as [[k0 old]|] eqn:NE; [|inv L; auto].
  inv L.
  assert (W2 : wfs (add_detached (update_at st ps (set_items (renum (snd ps) (remove_nth idx its)))) old)).
  { eapply Forall_nth_error in NE; eauto. eapply wfs_add_detached; [|exact NE].
    eapply wfs_replace_items; [exact W | exact W | exact G | auto | | ].
    - simpl. apply renum_keys.
    - apply renum_wf. apply child_wf_any_of. apply Forall_remove_nth; auto. }
  destruct (notify_on sc); auto using fix_chain_wfs.
Qed.

Lemma extend_loop_wfs : forall q sc rvs st ps upd st' u e,
  wfs st -> Forall rv_ok rvs -> extend_loop q sc st ps rvs upd = (st', u, e) -> wfs st'.
Proof.
  induction rvs; simpl; intros. inv H1; auto. inv H0.
  destruct (lprim q sc st ps (KI (cur_len st ps)) a) as [st1 p] eqn:L.
  pose proof (lprim_wfs _ _ _ _ _ _ _ _ H H4 L).
  destruct p; eauto. inv H1; auto.
Qed.
Lemma extend_core_wfs : forall q sc rvs st ps st' o,
  wfs st -> Forall rv_ok rvs -> extend_core q sc st ps rvs = (st', o) -> wfs st'.
Proof.
  intros. unfold extend_core in H1.
  destruct (extend_loop q sc st ps rvs false) as [[st1 u] e] eqn:E.
  pose proof (extend_loop_wfs _ _ _ _ _ _ _ _ _ H H0 E).
  destruct e; inv H1; auto. destruct (u && notify_on sc); auto using fix_chain_wfs.
Qed.

Lemma new_list_from_wfs : forall q st its c st1 cid pt,
  wfs st -> Forall (child_wf cid pt) its -> new_list_from q st its = (c, st1) ->
  wfs st1 /\ is_node c = true /\ wf_node None [] c.
Proof.
  intros. unfold new_list_from in H1.
  destruct (clone_at (q_copy_drops_missing q) false None [] (Node 0%N KList None [] default_flags its) (next_id st, [])) as [c0 cs] eqn:C.
  inv H1. split; auto.
  replace c with (fst (clone_at (q_copy_drops_missing q) false None [] (Node 0%N KList None [] default_flags its) (next_id st, []))) by (rewrite C; auto).
  split. rewrite clone_at_is_node; auto.
  (* the source needs no particular position: its children are well-formed somewhere *)
  rewrite clone_at_node. simpl.
  assert (W : Forall (child_wf (next_id st) []) (fst (clone_items (clone_at (q_copy_drops_missing q) false) KList (q_copy_drops_missing q) (next_id st) [] its 0 (N.succ (next_id st), [])))).
  { apply clone_items_wf. rewrite Forall_forall in *. intros kv I pa' q' cs'. eapply clone_at_wf. apply (H0 _ I). }
  pose proof (clone_items_keys_list (clone_at (q_copy_drops_missing q) false) (q_copy_drops_missing q) (next_id st) [] its 0 (N.succ (next_id st), [])) as KK.
  destruct (clone_items _ _ _ _ _ _ _ _) as [its' cs']. simpl in *.
  apply wf_node_unfold. auto.
Qed.

Lemma rebind_one_wfs : forall q sc st tp path rv st' p c,
  wfs st -> rv_ok rv -> rebind_one q sc st tp path rv = (st', p, c) -> wfs st'.
Proof.
  intros. unfold rebind_one in H1.
  destruct path; [inv H1; auto|].
  destruct (get_at st tp); [|inv H1; auto].
  destruct (query_path n (removelast (k :: path))); [|inv H1; auto].
  destruct (get_at st (fst tp, snd tp ++ l)) as [[|cid ck pa pt cfl its]|]; try (inv H1; auto; fail).
  destruct (treats_as_sealed sc cfl); [inv H1; auto|].
  destruct (prim q sc st (fst tp, snd tp ++ l) (last (k :: path) (KI 0)) rv) as [st1 p1] eqn:P.
  inv H1. eapply prim_wfs; eauto.
Qed.
Lemma rebind_loop_wfs : forall q sc pvs st tp upd st' u e,
  wfs st -> Forall (fun kv => rv_ok (snd kv)) pvs -> rebind_loop q sc st tp pvs upd = (st', u, e) -> wfs st'.
Proof.
  induction pvs as [|[p rv] r]; simpl; intros. inv H1; auto. inv H0.
  destruct (rebind_one q sc st tp p rv) as [[st1 p1] c] eqn:R.
  pose proof (rebind_one_wfs _ _ _ _ _ _ _ _ _ H H4 R).
  destruct p1; [destruct c | destruct c | inv H1; auto]; eauto.
Qed.
Lemma insert_desc_forall : forall A (P : list key * A -> Prop) x l, P x -> Forall P l -> Forall P (insert_desc x l).
Proof. induction l; simpl; intros; auto. inv H0. destruct (path_ltb (fst x) (fst a)); auto. Qed.
Lemma sort_desc_forall : forall A (P : list key * A -> Prop) l, Forall P l -> Forall P (sort_desc l).
Proof. unfold sort_desc. induction l; simpl; intros; auto. inv H. apply insert_desc_forall; auto. Qed.
Lemma rebind_core_wfs : forall q sc st tp tk pvs nt st' o,
  wfs st -> Forall (fun kv => rv_ok (snd kv)) pvs -> rebind_core q sc st tp tk pvs nt = (st', o) -> wfs st'.
Proof.
  intros. unfold rebind_core in H1.
  assert (F : Forall (fun kv => rv_ok (snd kv)) (match tk with KList => sort_desc pvs | _ => pvs end)).
  { destruct tk; auto. apply sort_desc_forall; auto. }
  destruct (rebind_loop q sc st tp _ []) as [[st1 u] e] eqn:E.
  pose proof (rebind_loop_wfs _ _ _ _ _ _ _ _ _ H F E).
  destruct e; inv H1; auto. destruct nt; auto using fix_chains_wfs.
Qed.

Lemma gc_slots_wf : forall base keep rs, Forall wf_slot rs -> Forall wf_slot (gc_slots base keep rs).
Proof.
  induction rs; simpl; intros; auto. inv H. destruct a; auto.
  destruct (negb keep && _); auto.
Qed.
Lemma gc_wfs : forall n base keep st, wfs st -> wfs (gc n base keep st).
Proof.
  unfold wfs, gc; simpl; intros. apply Forall_app; split.
  - rewrite Forall_forall in *. intros x I. apply H.
    rewrite <- (firstn_skipn n (roots st)). apply in_app_iff; auto.
  - apply gc_slots_wf. rewrite Forall_forall in *. intros x I. apply H.
    rewrite <- (firstn_skipn n (roots st)). apply in_app_iff; auto.
Qed.

(* --- every operation ---------------------------------------------------------------------------------------------------- *)
Definition op_ok (o : op rvalue) : Prop :=
  match o with
  | LSet _ v | LAppend v | LInsert _ v | DSet _ _ v | DSetDefault _ v | OSet _ v => rv_ok v
  | LExtend vs | LIAdd vs | LAdd vs => Forall rv_ok vs
  | DUpdate kvs | DIOr kvs => Forall (fun kv => rv_ok (snd kv)) kvs
  | Rebind pvs => Forall (fun kv => rv_ok (snd kv)) pvs
  | _ => True
  end.
Lemma resolve_op_ok : forall st o ro, resolve_op st o = Some ro -> op_ok ro.
Proof.
  intros. destruct o; simpl in H;
    repeat match goal with
           | H : option_map _ ?x = Some _ |- _ => destruct x eqn:?; simpl in H; [|discriminate]
           end; inv H; simpl; eauto using resolve_ok, resolve_all_ok, resolve_kvs_ok.
Qed.

Lemma repeat_extend_wfs : forall q sc ps rvs k st st' o,
  wfs st -> Forall rv_ok rvs -> repeat_extend q sc ps rvs k st = (st', o) -> wfs st'.
Proof.
  induction k; simpl; intros. inv H1; auto.
  destruct (extend_core q sc st ps rvs) as [st1 o1] eqn:E.
  pose proof (extend_core_wfs _ _ _ _ _ _ _ H H0 E).
  destruct o1; eauto. inv H1; auto.
Qed.
Lemma rv_of_item_ok : forall its, Forall rv_ok (map (fun kv : key * node => rv_of_item (snd kv)) its).
Proof. induction its; simpl; constructor; auto. destruct (snd a); simpl; auto. Qed.
Lemma repeat_list_forall : forall A (P : A -> Prop) n l, Forall P l -> Forall P (repeat_list n l).
Proof. induction n; simpl; intros; auto. apply Forall_app; auto. Qed.

Lemma insert_sorted_in : forall A le (x : Z * A) l y, In y (insert_sorted le x l) -> y = x \/ In y l.
Proof.
  induction l; simpl; intros. destruct H; auto.
  destruct (le (fst x) (fst a)); simpl in H.
  - destruct H; auto.
  - destruct H; auto. destruct (IHl _ H); auto.
Qed.
Lemma stable_sort_in : forall A rv (l : list (Z * A)) y, In y (stable_sort rv l) -> In y l.
Proof.
  unfold stable_sort. induction l; simpl; intros; auto.
  apply insert_sorted_in in H. destruct H; auto.
Qed.
Lemma zip_keys_snd : forall A ks (l : list A) y, In y (zip_keys ks l) -> In (snd y) l.
Proof.
  intros A ks l; revert ks. induction l; simpl; intros; auto.
  destruct ks; simpl in H; destruct H; subst; simpl; eauto.
Qed.
Lemma sorted_forall : forall A (P : A -> Prop) rv ks l, Forall P l -> Forall P (map snd (stable_sort rv (zip_keys ks l))).
Proof.
  intros. rewrite Forall_forall in *. intros x I. apply in_map_iff in I. destruct I as (y & E & I). subst.
  apply H. eapply zip_keys_snd. eapply stable_sort_in; eauto.
Qed.
Lemma removelast_forall : forall A (P : A -> Prop) l, Forall P l -> Forall P (removelast l).
Proof. induction l; simpl; intros; auto. inv H. destruct l; auto. Qed.
Lemma removelast_in : forall A (l : list A) x, In x (removelast l) -> In x l.
Proof.
  induction l; simpl; intros; auto. destruct l; simpl in *; [tauto|]. destruct H; auto.
Qed.
Lemma removelast_nodup : forall A (l : list A), NoDup l -> NoDup (removelast l).
Proof.
  induction l; simpl; intros; auto. inv H. destruct l; [constructor|].
  constructor; auto. intro I. apply H2. apply removelast_in; auto.
Qed.
Lemma map_fst_removelast : forall A B (l : list (A * B)), map fst (removelast l) = removelast (map fst l).
Proof. induction l; simpl; auto. destruct l; simpl in *; auto. f_equal; auto. Qed.
Lemma clone_at_ignores_header : forall dm deep pa p i k pa0 pt fl its i' pa1 pt1 cs,
  clone_at dm deep pa p (Node i k pa0 pt fl its) cs = clone_at dm deep pa p (Node i' k pa1 pt1 fl its) cs.
Proof. intros. rewrite !clone_at_node. reflexivity. Qed.

Lemma clone_root_wfs : forall q deep st tid tk pa pt fl its ps c cs,
  wfs st -> get_at st ps = Some (Node tid tk pa pt fl its) ->
  clone_at (q_copy_drops_missing q) deep None [] (Node tid tk None [] fl its) (next_id st, []) = (c, cs) ->
  wfs (add_root (with_next st (fst cs)) c).
Proof.
  intros. destruct (wfs_get_at _ _ _ H H0) as (ep & W).
  rewrite (clone_at_ignores_header _ _ _ _ _ _ None [] _ _ tid pa pt) in H1.
  apply wfs_add_root; auto.
  - replace c with (fst (clone_at (q_copy_drops_missing q) deep None [] (Node tid tk pa pt fl its) (next_id st, []))) by (rewrite H1; auto).
    rewrite clone_at_is_node; auto.
  - replace c with (fst (clone_at (q_copy_drops_missing q) deep None [] (Node tid tk pa pt fl its) (next_id st, []))) by (rewrite H1; auto).
    eapply clone_at_wf; eauto.
Qed.

Ltac prim_case lem :=
  match goal with
  | H : context [match ?p with pair _ _ => _ end] |- _ =>
      match p with
      | lprim _ _ _ _ _ _ => destruct p as [?st ?pr] eqn:?P
      | dprim _ _ _ _ _ _ => destruct p as [?st ?pr] eqn:?P
      | oprim _ _ _ _ _ _ => destruct p as [?st ?pr] eqn:?P
      end
  end.

Lemma clear_core_wfs : forall sc st ps tid tk pa pt fl its,
  wfs st -> get_at st ps = Some (Node tid tk pa pt fl its) -> keys_ok tk [] -> wfs (clear_core sc st ps its).
Proof.
  intros. destruct (container_facts _ _ _ _ _ _ _ _ H H0) as (Ept & KO & F).
  assert (wfs (detach_all (update_at st ps (set_items [])) its)).
  { apply detach_all_wfs; [|eapply children_wf_any; eauto].
    eapply wfs_replace_items; [exact H | exact H | exact H0 | auto | exact H1 | constructor]. }
  unfold clear_core. destruct its; auto. destruct (notify_on sc); auto using fix_chain_wfs.
Qed.
Lemma reorder_core_wfs : forall sc st ps tid pa pt fl its its',
  wfs st -> get_at st ps = Some (Node tid KList pa pt fl its) -> Forall (child_wf tid pt) its' ->
  wfs (reorder_core sc st ps pt its its').
Proof.
  intros.
  assert (wfs (update_at st ps (set_items (renum pt its')))).
  { eapply wfs_replace_items; [exact H | exact H | exact H0 | auto | apply renum_keys | ].
    apply renum_wf. apply child_wf_any_of; auto. }
  unfold reorder_core. destruct (negb (all_same its its') && notify_on sc); auto using fix_chain_wfs.
Qed.

Ltac fin E := inv E; auto; try (destruct (notify_on _)); auto using fix_chain_wfs, notified_wfs.

Lemma exec_wfs : forall q sc st ps tid tk pa tpth tfl its ro st' out,
  wfs st -> get_at st ps = Some (Node tid tk pa tpth tfl its) -> kind_ok tk ro = true -> op_ok ro ->
  exec q sc st ps tid tk tpth tfl its ro = (st', out) -> wfs st'.
Proof.
  intros q sc st ps tid tk pa tpth tfl its ro st' out W G K OK E.
  destruct (container_facts _ _ _ _ _ _ _ _ W G) as (Ept & KO & F).
  pose proof (children_wf_any _ _ _ F) as FA.
  destruct ro; simpl in K, OK, E;
    try (destruct tk; try discriminate; []);
    try (destruct (treats_as_sealed sc tfl); [inv E; auto; fail|]).
  - (* LSet *)
    destruct (negb (writable_via_accessors sc tfl)); [inv E; auto|].
    destruct ((i <? - zlen its) || (i >=? zlen its)); [inv E; auto|].
    destruct (lprim q sc st ps (KI i) v) as [st1 p] eqn:L. pose proof (lprim_wfs _ _ _ _ _ _ _ _ W OK L).
    destruct p; fin E.
  - (* LDel *)
    destruct (negb (writable_via_accessors sc tfl)); [inv E; auto|].
    destruct ((i <? - zlen its) || (i >=? zlen its)); [inv E; auto|].
    destruct (ldel_core sc st ps _) as [st1 r] eqn:L. inv E. eapply ldel_core_wfs; eauto.
  - (* LAppend *)
    destruct (lprim q sc st ps (KI (zlen its)) v) as [st1 p] eqn:L. pose proof (lprim_wfs _ _ _ _ _ _ _ _ W OK L).
    destruct p; fin E.
  - (* LInsert *)
    destruct (lprim q sc st ps (KI i) (RIns v)) as [st1 p] eqn:L.
    assert (rv_ok (RIns v)) by (simpl; auto). pose proof (lprim_wfs _ _ _ _ _ _ _ _ W H L).
    destruct p; fin E.
  - (* LExtend *) eapply extend_core_wfs; eauto.
  - (* LPop *)
    destruct ((_ <? - zlen its) || (_ >=? zlen its)); [inv E; auto|].
    destruct (treats_as_sealed sc tfl); [inv E; auto|].
    destruct (ldel_core sc st ps _) as [st1 r] eqn:L. inv E. eapply ldel_core_wfs; eauto.
  - (* LRemove *)
    destruct (find_index _ its); [|inv E; auto].
    destruct (treats_as_sealed sc tfl); [inv E; auto|].
    destruct (negb (writable_via_accessors sc tfl)); [inv E; auto|].
    destruct (ldel_core sc st ps n) as [st1 r] eqn:L. inv E. eapply ldel_core_wfs; eauto.
  - (* LClear *)
    inv E. eapply clear_core_wfs; eauto; simpl; auto.
  - (* LReverse *)
    inv E. eapply reorder_core_wfs; eauto; apply Forall_rev; auto.
  - (* LSort *)
    inv E. eapply reorder_core_wfs; eauto; apply sorted_forall; auto.
  - (* LIAdd *) eapply extend_core_wfs; eauto.
  - (* LIMul *)
    destruct (n <=? 0).
    + inv E. eapply clear_core_wfs; eauto; simpl; auto.
    + eapply extend_core_wfs; [exact W | apply repeat_list_forall, rv_of_item_ok | exact E].
  - (* LAdd *)
    destruct (treats_as_sealed sc default_flags); [inv E; auto|].
    destruct (new_list_from q st its) as [c st1] eqn:NL.
    destruct (new_list_from_wfs _ _ _ _ _ _ _ W F NL) as (W1 & N1 & Wc).
    destruct (extend_core q sc (add_root st1 c) (length (roots st1), []) vs) as [st2 o2] eqn:X.
    assert (wfs st2) by (eapply extend_core_wfs; [ | | exact X]; [apply wfs_add_root; auto | exact OK]).
    destruct o2; inv E; auto.
  - (* LMul *)
    destruct ((n >=? 1) && treats_as_sealed sc default_flags); [inv E; auto|].
    destruct (new_list_from q st []) as [c st1] eqn:NL.
    destruct (new_list_from_wfs q st [] c st1 tid (snd ps) W (Forall_nil _) NL) as (W1 & N1 & Wc).
    destruct (extend_loop q sc (add_root st1 c) (length (roots st1), []) _ false) as [[st2 u] e] eqn:X.
    assert (wfs st2).
    { eapply extend_loop_wfs; [ | | exact X]; [apply wfs_add_root; auto | apply repeat_list_forall, rv_of_item_ok]. }
    destruct e; inv E; auto.
  - (* LCopy *)
    destruct (new_list_from q st its) as [c st1] eqn:NL.
    destruct (new_list_from_wfs _ _ _ _ _ _ _ W F NL) as (W1 & N1 & Wc).
    inv E. apply wfs_add_root; auto.
  - (* DSet *)
    destruct (negb (writable_via_accessors sc tfl)); [inv E; auto|].
    destruct (dprim q sc st ps k v) as [st1 p] eqn:L. pose proof (dprim_wfs _ _ _ _ _ _ _ _ W OK L).
    destruct p; fin E.
  - (* DDel *)
    destruct (negb (writable_via_accessors sc tfl)); [inv E; auto|].
    destruct (negb (has_key k its)); [inv E; auto|].
    destruct (dprim q sc st ps k (RLeaf LMissing)) as [st1 p] eqn:L.
    assert (rv_ok (RLeaf LMissing)) by (simpl; auto). pose proof (dprim_wfs _ _ _ _ _ _ _ _ W H L).
    destruct p; fin E.
  - (* DPop *)
    destruct (assoc k its); [|destruct d; inv E; auto].
    destruct (treats_as_sealed sc tfl); [inv E; auto|].
    destruct (dprim q sc st ps k (RLeaf LMissing)) as [st1 p] eqn:L.
    assert (rv_ok (RLeaf LMissing)) by (simpl; auto). pose proof (dprim_wfs _ _ _ _ _ _ _ _ W H L).
    destruct p; fin E.
  - (* DPopItem *)
    destruct (rev its) as [|[k old] r] eqn:R; [inv E; auto|]. inv E.
    assert (In (k, old) its). { apply in_rev. rewrite R. simpl; auto. }
    rewrite Forall_forall in FA. destruct (FA _ H) as (ep & p0 & Wo).
    assert (wfs (add_detached (update_at st ps (set_items (removelast its))) old)).
    { eapply wfs_add_detached; eauto.
      eapply wfs_replace_items; [exact W | exact W | exact G | auto | | apply removelast_forall; auto].
      simpl. rewrite map_fst_removelast. apply removelast_nodup; auto. }
    destruct (notify_on sc); auto using fix_chain_wfs.
  - (* DClear *)
    inv E. eapply clear_core_wfs; eauto; simpl; constructor.
  - (* DSetDefault *)
    assert (X : forall st1 p, dprim q sc st ps k v = (st1, p) -> wfs st1) by (intros; eapply dprim_wfs; eauto).
    destruct (assoc k its) as [old|].
    + destruct (is_missing old); [|inv E; auto].
      destruct (treats_as_sealed sc tfl); [inv E; auto|].
      destruct (negb (writable_via_accessors sc tfl)); [inv E; auto|].
      destruct (dprim q sc st ps k v) as [st1 p] eqn:L. specialize (X _ _ eq_refl).
      destruct p; fin E.
    + destruct (treats_as_sealed sc tfl); [inv E; auto|].
      destruct (negb (writable_via_accessors sc tfl)); [inv E; auto|].
      destruct (dprim q sc st ps k v) as [st1 p] eqn:L. specialize (X _ _ eq_refl).
      destruct p; fin E.
  - (* DUpdate *)
    eapply rebind_core_wfs; [exact W| |exact E].
    apply Forall_map. simpl. auto.
  - (* DIOr *)
    eapply rebind_core_wfs; [exact W| |exact E].
    apply Forall_map. simpl. auto.
  - (* DCopy *)
    destruct (clone_at _ false None [] _ _) as [c cs] eqn:C. inv E. eapply clone_root_wfs; eauto.
  - (* OSet *)
    destruct (negb (existsb (key_eqb k) (class_fields cls))); [inv E; auto|].
    destruct (treats_as_sealed sc tfl); [inv E; auto|].
    destruct (negb (writable_via_accessors sc tfl)); [inv E; auto|].
    destruct (oprim q sc st ps k v) as [st1 p] eqn:L. pose proof (oprim_wfs _ _ _ _ _ _ _ _ W OK L).
    destruct p; fin E.
  - (* Rebind *)
    destruct pvs; [inv E; auto|].
    destruct (match tk with KObj _ => treats_as_sealed sc tfl | _ => false end); [inv E; auto|].
    eapply rebind_core_wfs; eauto.
  - (* Clone *)
    destruct (clone_at _ _ None [] _ _) as [c cs] eqn:C. inv E. eapply clone_root_wfs; eauto.
  - (* Seal *)
    inv E. apply wfs_update_at_total; auto using seal_rec_wf. destruct t; auto.
  - (* SetAW *)
    inv E. apply wfs_update_at_total; auto using set_flags_wf. destruct t; auto.
Qed.

Theorem step_wfs : forall q st o, wfs st -> wfs (fst (step q st o)).
Proof.
  intros. unfold step.
  destruct (get_at st (o_pos o)) as [[|tid tk pa pt fl its]|] eqn:G; auto.
  destruct (kind_ok tk (o_op o)) eqn:K; auto.
  destruct (resolve_op st (o_op o)) as [ro|] eqn:R; auto.
  destruct (exec q (o_scope o) st (o_pos o) tid tk pt fl its ro) as [st' out] eqn:E. simpl.
  apply gc_wfs. eapply exec_wfs; eauto.
  - destruct (o_op o); simpl in *;
      repeat match goal with
             | H : option_map _ ?x = Some _ |- _ => destruct x eqn:?; simpl in H; [|discriminate]
             end; inv R; auto.
  - eapply resolve_op_ok; eauto.
Qed.

Lemma init_forest_wfs : forall ls st, wfs st -> forallb lit_valid ls = true -> wfs (init_forest ls st).
Proof.
  induction ls; simpl; intros; auto. apply andb_true_iff in H0. destruct H0.
  destruct a; auto.
  destruct (build false None [] (LitNode k fl plain items) (next_id st)) as [n nx] eqn:B.
  apply IHls; auto. apply wfs_add_root; auto.
  - replace n with (fst (build false None [] (LitNode k fl plain items) (next_id st))) by (rewrite B; auto).
    apply build_is_node.
  - replace n with (fst (build false None [] (LitNode k fl plain items) (next_id st))) by (rewrite B; auto).
    apply build_wf; auto.
Qed.
Theorem run_ops_wfs : forall q ops st, wfs st -> wfs (run_ops q st ops).
Proof.
  unfold run_ops. induction ops; simpl; intros; auto. apply IHops. apply step_wfs; auto.
Qed.
Theorem history_wfs : forall q ls ops, forallb lit_valid ls = true -> wfs (run_ops q (init_forest ls empty_state) ops).
Proof. intros. apply run_ops_wfs. apply init_forest_wfs; auto. constructor. Qed.

(* --- what well-formedness says about a node and the container it is stored in -------------------------------------- *)
Lemma get_in_app : forall p q t, get_in (p ++ q) t = match get_in p t with Some c => get_in q c | None => None end.
Proof.
  induction p; simpl; intros; auto. destruct (assoc a (nitems t)); auto.
Qed.
Theorem child_reports_container : forall st r p k cid ck cpa cpt cfl cits i kd pa pt fl its,
  wfs st -> get_at st (r, p) = Some (Node cid ck cpa cpt cfl cits) ->
  get_at st (r, p ++ [k]) = Some (Node i kd pa pt fl its) ->
  pa = Some cid /\ pt = p ++ [k].
Proof.
  intros. destruct (container_facts _ _ _ _ _ _ _ _ H H0) as (Ept & _ & F). simpl in Ept. subst.
  unfold get_at in *. simpl in *. destruct (get_root st r) as [t|]; [|discriminate].
  assert (G : get_in [k] (Node cid ck cpa p cfl cits) = Some (Node i kd pa pt fl its)).
  { rewrite get_in_app, H0 in H1. auto. }
  simpl in G. destruct (assoc k cits) as [c|] eqn:A; [|discriminate]. inv G.
  destruct (assoc_in _ _ _ _ A) as (k' & E & I). apply key_eqb_eq in E; subst k'.
  rewrite Forall_forall in F. specialize (F _ I). unfold child_wf in F. simpl in F.
  apply wf_node_unfold in F. tauto.
Qed.
Theorem root_reports_no_parent : forall st r i kd pa pt fl its,
  wfs st -> get_at st (r, []) = Some (Node i kd pa pt fl its) -> pa = None /\ pt = [].
Proof.
  intros. unfold get_at in H0. simpl in H0. destruct (get_root st r) as [t|] eqn:E; [|discriminate]. inv H0.
  destruct (wfs_get_root _ _ _ H E) as [_ W]. apply wf_node_unfold in W. tauto.
Qed.
Theorem path_lookup_wfs : forall st r p i k pa pt fl its,
  wfs st -> get_at st (r, p) = Some (Node i k pa pt fl its) -> pt = p.
Proof.
  intros. destruct (container_facts _ _ _ _ _ _ _ _ H H0) as (E & _). auto.
Qed.

(* --- a node that leaves a tree is handed back as a root -------------------------------------------------------------------------- *)
Lemma restore_slot_live : forall i t rs rs', restore_slot i t rs = Some rs' -> exists r, nth_error rs' r = Some (Live t).
Proof.
  induction rs; simpl; intros; try discriminate. destruct a.
  - destruct (restore_slot i t rs) eqn:E; [|discriminate]. inv H. destruct (IHrs _ eq_refl) as (r & X). exists (S r); auto.
  - destruct (N.eqb i i0).
    + inv H. exists O; auto.
    + destruct (restore_slot i t rs) eqn:E; [|discriminate]. inv H. destruct (IHrs _ eq_refl) as (r & X). exists (S r); auto.
Qed.
Theorem detached_is_root : forall st i k pa pt fl its,
  exists r t, nth_error (roots (add_detached st (Node i k pa pt fl its))) r = Some (Live t) /\
              nid t = Some i /\ npar t = None /\ npth t = [] /\ t = detach (Node i k pa pt fl its).
Proof.
  intros. unfold add_detached.
  assert (D : nid (detach (Node i k pa pt fl its)) = Some i /\ npar (detach (Node i k pa pt fl its)) = None /\
              npth (detach (Node i k pa pt fl its)) = []).
  { unfold detach. simpl. destruct (path_eqb pt []) eqn:E; simpl; auto. apply path_eqb_eq in E; subst; auto. }
  destruct D as (D1 & D2 & D3).
  destruct (restore_slot i (detach (Node i k pa pt fl its)) (roots st)) eqn:E.
  - destruct (restore_slot_live _ _ _ _ E) as (r & X). exists r, (detach (Node i k pa pt fl its)). simpl. auto.
  - exists (length (roots st)), (detach (Node i k pa pt fl its)). simpl. rewrite nth_error_app2, Nat.sub_diag; auto.
Qed.

(* GenoSize.v — the number of valid decisions is what the transcribed space_size recurrences compute
   (all four distinct x sorted modes). *)
From Coq Require Import Nnat Sorted.
From PG Require Import Common.Tactics Model.Geno Proofs.GenoBasics.
Local Open Scope N_scope.

(* ---- sums ------------------------------------------------------------------------------------------- *)
Lemma sumN_app : forall a b, sumN (a ++ b) = sumN a + sumN b.
Proof. induction a; simpl; intros; auto. rewrite IHa. lia. Qed.
Lemma sumN_map_scale : forall A (f : A -> N) k l, sumN (map (fun x => k * f x) l) = k * sumN (map f l).
Proof. induction l; simpl; [lia | rewrite IHl; lia]. Qed.
Lemma sumN_map_add : forall A (f g : A -> N) l, sumN (map (fun x => f x + g x) l) = sumN (map f l) + sumN (map g l).
Proof. induction l; simpl; auto. rewrite IHl. lia. Qed.
Lemma sumN_map_ext : forall A (f g : A -> N) l, (forall x, In x l -> f x = g x) -> sumN (map f l) = sumN (map g l).
Proof. induction l; simpl; intros; auto. rewrite IHl, H; auto. Qed.
Lemma sumN_map_filter : forall A (p : A -> bool) (f : A -> N) l,
  sumN (map (fun x => if p x then f x else 0) l) = sumN (map f (filter p l)).
Proof. induction l; simpl; auto. destruct (p a); simpl; rewrite IHl; lia. Qed.
Lemma length_flat_map_N : forall A B (f : A -> list B) l,
  N.of_nat (length (flat_map f l)) = sumN (map (fun x => N.of_nat (length (f x))) l).
Proof. induction l; simpl; auto. rewrite app_length, Nat2N.inj_add, IHl. auto. Qed.

(* ---- counting the tuples position by position ---------------------------------------------------------- *)
(* weighted number of m-tuples that may follow [prior]; [sz c] = number of decisions of candidate c *)
Fixpoint wcount (dist srt : bool) (sz : nat -> N) (n : nat) (m : nat) (prior : list nat) : N :=
  match m with
  | O => 1
  | S m' => sumN (map (fun c => if allowed dist srt prior c then sz c * wcount dist srt sz n m' (prior ++ [c]) else 0) (seq 0 n))
  end.

Lemma length_tuples : forall dist srt n subs m prior,
  N.of_nat (length (tuples dist srt n subs m prior)) = wcount dist srt (fun c => N.of_nat (length (subs c))) n m prior.
Proof.
  induction m; intros prior; simpl; auto.
  rewrite length_flat_map_N. apply sumN_map_ext. intros c _.
  destruct (allowed dist srt prior c); auto.
  rewrite length_flat_map_N. rewrite (sumN_map_ext _ _ (fun _ => wcount dist srt (fun c0 => N.of_nat (length (subs c0))) n m (prior ++ [c]))).
  - generalize (wcount dist srt (fun c0 => N.of_nat (length (subs c0))) n m (prior ++ [c])). intros W.
    generalize (subs c). intros l. induction l; [simpl; lia|]. simpl length. rewrite Nat2N.inj_succ. simpl. lia.
  - intros. rewrite map_length. apply IHm.
Qed.

(* the same count, as a function of the list of indices still available *)
Fixpoint gcount (dist srt : bool) (sz : nat -> N) (m : nat) (av : list nat) : N :=
  match m with
  | O => 1
  | S m' => sumN (map (fun c => sz c * gcount dist srt sz m' (filter (allowed dist srt [c]) av)) av)
  end.

Lemma allowed_snoc : forall dist srt prior c x,
  allowed dist srt prior c = true ->
  allowed dist srt (prior ++ [c]) x = allowed dist srt [c] x && allowed dist srt prior x.
Proof.
  intros dist srt prior c x Ha. unfold allowed in *. rewrite last_opt_app. simpl.
  apply andb_true_iff in Ha as [Ha1 Ha2].
  destruct dist, srt; simpl in *; try reflexivity.
  - (* distinct, sorted *)
    unfold memb in *. rewrite existsb_app. simpl. rewrite orb_false_r.
    destruct (existsb (Nat.eqb x) prior) eqn:E1, (x =? c)%nat eqn:E2, (c <=? x)%nat eqn:E3; simpl; auto;
      destruct (last_opt prior) eqn:E4; simpl; auto.
    all: try (apply Nat.leb_le in Ha2; apply Nat.leb_le in E3; symmetry; apply Nat.leb_le; lia).
  - unfold memb in *. rewrite existsb_app. simpl. rewrite orb_false_r.
    destruct (existsb (Nat.eqb x) prior), (x =? c)%nat; auto.
  - destruct (c <=? x)%nat eqn:E3; simpl; auto. destruct (last_opt prior); auto.
    apply Nat.leb_le in Ha2; apply Nat.leb_le in E3; symmetry; apply Nat.leb_le; lia.
Qed.

Lemma filter_filter : forall A (p q : A -> bool) l, filter p (filter q l) = filter (fun x => p x && q x) l.
Proof. induction l; simpl; auto. destruct (q a); simpl; destruct (p a); simpl; rewrite IHl; auto. Qed.

Lemma wcount_gcount : forall dist srt sz n m prior,
  wcount dist srt sz n m prior = gcount dist srt sz m (filter (allowed dist srt prior) (seq 0 n)).
Proof.
  induction m; intros prior; simpl; auto.
  rewrite sumN_map_filter. apply sumN_map_ext. intros c Hc. apply filter_In in Hc as [_ Ha].
  rewrite IHm. f_equal. f_equal. rewrite filter_filter. apply filter_ext. intros x. apply allowed_snoc; auto.
Qed.

(* ---- the available indices form a strictly increasing list ------------------------------------------- *)
Definition asc (l : list nat) : Prop := StronglySorted lt l.
Lemma asc_seq : forall len lo, asc (seq lo len).
Proof.
  induction len; intros lo; simpl; constructor; auto. apply IHlen.
  apply Forall_forall. intros x Hx. apply in_seq in Hx. lia.
Qed.
Lemma asc_inv : forall c l, asc (c :: l) -> asc l /\ (forall x, In x l -> (c < x)%nat) /\ ~ In c l.
Proof.
  intros c l H. inv H. rewrite Forall_forall in H3. repeat split; auto.
  intros Hin. apply H3 in Hin. lia.
Qed.
Lemma filter_all : forall A (p : A -> bool) l, (forall x, In x l -> p x = true) -> filter p l = l.
Proof. induction l; simpl; intros; auto. rewrite H; auto. rewrite IHl; auto. Qed.
Lemma gcount_1 : forall dist srt sz av, gcount dist srt sz 1 av = sumN (map sz av).
Proof. intros. simpl. apply sumN_map_ext. intros; lia. Qed.
Lemma allowed_1 : forall dist srt c x,
  allowed dist srt [c] x = (negb dist || negb (x =? c)%nat) && (negb srt || (c <=? x)%nat).
Proof. intros. unfold allowed, memb. simpl. rewrite orb_false_r. auto. Qed.

(* neither distinct nor sorted: a power *)
Lemma gcount_FF : forall sz m av, gcount false false sz m av = pow_nat (sumN (map sz av)) m.
Proof.
  induction m; intros av. reflexivity.
  change (gcount false false sz (S m) av) with (sumN (map (fun c => sz c * gcount false false sz m (filter (allowed false false [c]) av)) av)).
  rewrite (sumN_map_ext _ _ (fun c => pow_nat (sumN (map sz av)) m * sz c)).
  - rewrite sumN_map_scale. unfold pow_nat. rewrite Nat2N.inj_succ, N.pow_succ_r'. lia.
  - intros c _. rewrite filter_all. rewrite IHm. lia. intros; apply allowed_1.
Qed.

(* sorted, not distinct: complete homogeneous recurrence *)
Lemma gcount_FT_step : forall sz m c0 rest, asc (c0 :: rest) ->
  gcount false true sz (S m) (c0 :: rest) = sz c0 * gcount false true sz m (c0 :: rest) + gcount false true sz (S m) rest.
Proof.
  intros sz m c0 rest Ha. apply asc_inv in Ha as (Har & Hlt & Hni).
  change (gcount false true sz (S m) (c0 :: rest)) with
    (sz c0 * gcount false true sz m (filter (allowed false true [c0]) (c0 :: rest)) +
     sumN (map (fun c => sz c * gcount false true sz m (filter (allowed false true [c]) (c0 :: rest))) rest)).
  f_equal.
  - f_equal. f_equal. apply filter_all. intros x [<-|Hx]; rewrite allowed_1; simpl.
    apply Nat.leb_refl. apply Nat.leb_le. apply Hlt in Hx. lia.
  - simpl. apply sumN_map_ext. intros c Hc. f_equal. f_equal. simpl.
    rewrite allowed_1. simpl. apply Hlt in Hc. destruct (c <=? c0)%nat eqn:E; auto. apply Nat.leb_le in E. lia.
Qed.
Lemma gcount_nil : forall dist srt sz m, gcount dist srt sz (S m) [] = 0.
Proof. reflexivity. Qed.
Lemma gcount_FT_single : forall sz m c0, gcount false true sz m [c0] = pow_nat (sz c0) m.
Proof.
  induction m; intros. reflexivity.
  rewrite gcount_FT_step by (repeat constructor). rewrite IHm, gcount_nil.
  unfold pow_nat. rewrite Nat2N.inj_succ, N.pow_succ_r'. lia.
Qed.
Lemma sum_seq_shift : forall (f : nat -> N) n,
  sumN (map f (seq 0 (S n))) = f 0%nat + sumN (map (fun i => f (S i)) (seq 0 n)).
Proof. intros. rewrite <- cons_seq, <- seq_shift, map_cons, map_map. reflexivity. Qed.
Lemma gcount_FT_sum : forall sz c0 rest, asc (c0 :: rest) -> forall k,
  gcount false true sz k (c0 :: rest) =
  sumN (map (fun i => pow_nat (sz c0) i * gcount false true sz (k - i) rest) (seq 0 (S k))).
Proof.
  intros sz c0 rest Ha. induction k.
  - simpl. lia.
  - rewrite gcount_FT_step by auto. rewrite IHk. rewrite (sum_seq_shift _ (S k)).
    rewrite <- sumN_map_scale.
    rewrite (sumN_map_ext _ (fun x => sz c0 * (pow_nat (sz c0) x * gcount false true sz (k - x) rest))
                            (fun x => pow_nat (sz c0) (S x) * gcount false true sz (S k - S x) rest)).
    + unfold pow_nat at 2. simpl N.of_nat. rewrite N.pow_0_r, Nat.sub_0_r. lia.
    + intros x _. unfold pow_nat. rewrite Nat2N.inj_succ, N.pow_succ_r'. simpl minus. lia.
Qed.

(* distinct and sorted: elementary symmetric recurrence *)
Lemma gcount_TT_step : forall sz m c0 rest, asc (c0 :: rest) ->
  gcount true true sz (S m) (c0 :: rest) = sz c0 * gcount true true sz m rest + gcount true true sz (S m) rest.
Proof.
  intros sz m c0 rest Ha. apply asc_inv in Ha as (Har & Hlt & Hni).
  change (gcount true true sz (S m) (c0 :: rest)) with
    (sz c0 * gcount true true sz m (filter (allowed true true [c0]) (c0 :: rest)) +
     sumN (map (fun c => sz c * gcount true true sz m (filter (allowed true true [c]) (c0 :: rest))) rest)).
  f_equal.
  - f_equal. f_equal. simpl. rewrite allowed_1. simpl. rewrite Nat.eqb_refl. simpl.
    apply filter_all. intros x Hx. rewrite allowed_1. simpl. apply Hlt in Hx.
    apply andb_true_iff; split. apply negb_true_iff. apply Nat.eqb_neq. lia. apply Nat.leb_le. lia.
  - simpl. apply sumN_map_ext. intros c Hc. f_equal. f_equal. simpl.
    rewrite allowed_1. simpl. apply Hlt in Hc. destruct (c <=? c0)%nat eqn:E; auto.
    apply Nat.leb_le in E. lia. rewrite andb_false_r. auto.
Qed.
Lemma gcount_TT_zero : forall sz av, asc av -> forall m, (length av < m)%nat -> gcount true true sz m av = 0.
Proof.
  induction av as [|c0 rest IH]; intros Ha m Hm.
  - destruct m. inv Hm. reflexivity.
  - destruct m. inv Hm. rewrite gcount_TT_step by auto. pose proof (asc_inv _ _ Ha) as (Har & _ & _).
    simpl in Hm. rewrite !IH by (auto; lia). lia.
Qed.

(* distinct, not sorted: k! e_k *)
Lemma gcount_TF_step : forall sz m c0 l, ~ In c0 l ->
  gcount true false sz (S m) (c0 :: l) =
  sz c0 * gcount true false sz m l +
  sumN (map (fun c => sz c * gcount true false sz m (c0 :: filter (allowed true false [c]) l)) l).
Proof.
  intros sz m c0 l Hni.
  change (gcount true false sz (S m) (c0 :: l)) with
    (sz c0 * gcount true false sz m (filter (allowed true false [c0]) (c0 :: l)) +
     sumN (map (fun c => sz c * gcount true false sz m (filter (allowed true false [c]) (c0 :: l))) l)).
  f_equal.
  - f_equal. f_equal. simpl. rewrite allowed_1. simpl. rewrite Nat.eqb_refl. simpl.
    apply filter_all. intros x Hx. rewrite allowed_1. simpl. rewrite andb_true_r.
    apply negb_true_iff. apply Nat.eqb_neq. intros ->. auto.
  - apply sumN_map_ext. intros c Hc. f_equal. f_equal. simpl. rewrite allowed_1. simpl. rewrite andb_true_r.
    destruct (c0 =? c)%nat eqn:E; auto. apply Nat.eqb_eq in E. subst. contradiction.
Qed.
Lemma gcount_TF_closed : forall sz m c0 l, ~ In c0 l ->
  gcount true false sz m (c0 :: l) = sz c0 * N.of_nat m * gcount true false sz (pred m) l + gcount true false sz m l.
Proof.
  induction m; intros c0 l Hni.
  - simpl. lia.
  - rewrite gcount_TF_step by auto.
    rewrite (sumN_map_ext _ _ (fun c => sz c0 * N.of_nat m * (sz c * gcount true false sz (pred m) (filter (allowed true false [c]) l))
                                        + sz c * gcount true false sz m (filter (allowed true false [c]) l))).
    + rewrite sumN_map_add, sumN_map_scale. simpl pred.
      change (sumN (map (fun c => sz c * gcount true false sz m (filter (allowed true false [c]) l)) l)) with (gcount true false sz (S m) l).
      destruct m.
      * simpl N.of_nat. lia.
      * simpl pred. change (sumN (map (fun x => sz x * gcount true false sz m (filter (allowed true false [x]) l)) l)) with (gcount true false sz (S m) l).
        rewrite (Nat2N.inj_succ (S m)). lia.
    + intros c Hc. rewrite IHm. lia.
      intros Hin. apply filter_In in Hin as [Hin _]. auto.
Qed.
Lemma gcount_TF_zero : forall sz av, NoDup av -> forall m, (length av < m)%nat -> gcount true false sz m av = 0.
Proof.
  induction av as [|c0 rest IH]; intros Hn m Hm.
  - destruct m. inv Hm. reflexivity.
  - inv Hn. rewrite gcount_TF_closed by auto. simpl in Hm. destruct m. inv Hm.
    simpl pred. rewrite !IH by (auto; lia). lia.
Qed.
Lemma asc_NoDup : forall l, asc l -> NoDup l.
Proof.
  induction l; intros H; constructor. apply asc_inv in H. tauto. apply IHl. apply asc_inv in H. tauto.
Qed.

(* ---- the code's recurrences compute that count --------------------------------------------------------- *)
Lemma csize_unfold : forall dist srt s j,
  csize dist srt s (S (S j)) =
  if dist && (length s <? S (S j))%nat then 0 else
  match s with
  | [] => 0
  | [x] => pow_nat x (S (S j))
  | x :: s' =>
      if dist && srt then x * csize dist srt s' (S j) + csize dist srt s' (S (S j))
      else if dist then x * N.of_nat (S (S j)) * csize dist srt s' (S j) + csize dist srt s' (S (S j))
      else if srt then sumN (map (fun i => pow_nat x i * csize dist srt s' (S (S j) - i)) (seq 0 (S (S (S j)))))
      else pow_nat (sumN s) (S (S j))
  end.
Proof. intros. destruct s as [|x [|y s']]; reflexivity. Qed.

Lemma csize_gcount : forall dist srt sz av, asc av -> forall k,
  csize dist srt (map sz av) k = gcount dist srt sz k av.
Proof.
  intros dist srt sz. induction av as [|c0 rest IH]; intros Ha k.
  - destruct k as [|[|j]]; try reflexivity. rewrite csize_unfold. simpl. destruct dist; reflexivity.
  - pose proof (asc_inv _ _ Ha) as (Har & Hlt & Hni).
    destruct k as [|[|j]]; try reflexivity.
    + rewrite gcount_1. reflexivity.
    + rewrite csize_unfold. rewrite map_length.
      destruct dist, srt; simpl andb.
      * (* distinct, sorted *)
        match goal with |- context [(?a <? ?b)%nat] => destruct (a <? b)%nat eqn:E end.
        { apply Nat.ltb_lt in E. rewrite (gcount_TT_zero sz _ Ha); [reflexivity | simpl; lia]. }
        apply Nat.ltb_ge in E. destruct rest as [|c1 r]. simpl in E; lia.
        change (map sz (c0 :: c1 :: r)) with (sz c0 :: map sz (c1 :: r)).
        cbv iota beta. rewrite gcount_TT_step by auto. rewrite !IH by auto.
        destruct (map sz (c1 :: r)) eqn:Em; [discriminate|]. reflexivity.
      * (* distinct *)
        match goal with |- context [(?a <? ?b)%nat] => destruct (a <? b)%nat eqn:E end.
        { apply Nat.ltb_lt in E. rewrite (gcount_TF_zero sz _ (asc_NoDup _ Ha)); [reflexivity | simpl; lia]. }
        apply Nat.ltb_ge in E. destruct rest as [|c1 r]. simpl in E; lia.
        change (map sz (c0 :: c1 :: r)) with (sz c0 :: map sz (c1 :: r)).
        rewrite gcount_TF_closed by auto. simpl pred. rewrite !IH by auto.
        destruct (map sz (c1 :: r)) eqn:Em; [discriminate|]. reflexivity.
      * (* sorted *)
        destruct rest as [|c1 r].
        { simpl map. rewrite gcount_FT_single. reflexivity. }
        rewrite gcount_FT_sum by auto.
        cbn [map]. change (sz c1 :: map sz r) with (map sz (c1 :: r)).
        apply sumN_map_ext. intros i _. rewrite IH by auto. reflexivity.
      * (* neither *)
        rewrite gcount_FF.
        destruct rest as [|c1 r].
        { simpl. f_equal. lia. }
        cbn [map]. reflexivity.
Qed.

Lemma filter_allowed_nil : forall dist srt l, filter (allowed dist srt []) l = l.
Proof. intros. apply filter_all. intros. unfold allowed. simpl. destruct dist, srt; reflexivity. Qed.

(* the code's formula applied to the candidates' sizes = number of tuples *)
Lemma csize_tuples : forall dist srt n subs k,
  csize dist srt (map (fun c => N.of_nat (length (subs c))) (seq 0 n)) k =
  N.of_nat (length (tuples dist srt n subs k [])).
Proof.
  intros. rewrite length_tuples, wcount_gcount, filter_allowed_nil.
  apply csize_gcount. apply asc_seq.
Qed.

(* ---- C11_size -------------------------------------------------------------------------------------------- *)
Lemma length_all_prod : forall A (ls : list (list A)),
  N.of_nat (length (all_prod ls)) = fold_right N.mul 1 (map (fun l => N.of_nat (length l)) ls).
Proof.
  induction ls as [|l ls IH]; simpl; auto.
  rewrite length_flat_map_N. rewrite (sumN_map_ext _ _ (fun _ => N.of_nat (length (all_prod ls)))).
  - rewrite <- IH. generalize (N.of_nat (length (all_prod ls))). intros W.
    induction l; [simpl; lia|]. simpl length. rewrite Nat2N.inj_succ. simpl. lia.
  - intros. rewrite map_length. auto.
Qed.
Lemma fold_left_mul : forall l a, fold_left N.mul l a = a * fold_right N.mul 1 l.
Proof. induction l; simpl; intros. lia. rewrite IHl. lia. Qed.

Lemma opt_all_map_some : forall A B (f : A -> option B) (g : A -> B) l,
  (forall x, In x l -> f x = Some (g x)) -> opt_all (map f l) = Some (map g l).
Proof. induction l; simpl; intros; auto. rewrite H, IHl; auto. Qed.

Lemma map_seq_nth_gen : forall A B (f : A -> B) (g : nat -> B) l k,
  (forall i x, nth_error l i = Some x -> g (k + i)%nat = f x) -> map g (seq k (length l)) = map f l.
Proof.
  induction l; intros k H; simpl; auto. f_equal.
  - rewrite <- (H 0%nat a eq_refl). f_equal. lia.
  - apply IHl. intros i x Hi. rewrite <- (H (S i) x Hi). f_equal. lia.
Qed.
Lemma map_seq_nth : forall A B (f : A -> B) (g : nat -> B) l,
  (forall i x, nth_error l i = Some x -> g i = f x) -> map g (seq 0 (length l)) = map f l.
Proof. intros. apply map_seq_nth_gen. intros. simpl. auto. Qed.

Lemma size_both :
  (forall s, finite s = true -> space_size s = Some (N.of_nat (length (all_valid s)))) /\
  (forall p, finite_p p = true -> size_p p = Some (N.of_nat (length (all_valid_p p)))).
Proof.
  apply dspec_dpoint_ind.
  - intros es IH Hfin. simpl in *.
    rewrite (opt_all_map_some _ _ size_p (fun e => N.of_nat (length (all_valid_p e)))).
    + rewrite map_length, length_all_prod, fold_left_mul, map_map. f_equal. lia.
    + intros e He. rewrite Forall_forall in IH. apply IH; auto. rewrite forallb_forall in Hfin; auto.
  - intros k cands dist srt nm lits IH Hfin. simpl in *.
    rewrite (opt_all_map_some _ _ space_size (fun c => N.of_nat (length (all_valid c)))).
    + rewrite map_length. rewrite <- csize_tuples. f_equal. f_equal. symmetry.
      apply map_seq_nth. intros i x Hi. rewrite with_nth_nth_error, Hi. reflexivity.
    + intros c Hc. rewrite Forall_forall in IH. apply IH; auto. rewrite forallb_forall in Hfin; auto.
  - intros; discriminate.
  - intros; discriminate.
Qed.

Lemma size_exact : forall s, finite s = true -> space_size s = Some (N.of_nat (length (all_valid s))).
Proof. apply size_both. Qed.

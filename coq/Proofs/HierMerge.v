(* HierMerge.v — merge_tree (merge_fn=None) on dicts: which keys the result has and what sits under each;
   merging a value into itself changes nothing; a conflict-free merge of canonicalize is the plain merge. *)
From PG Require Import Common.Tactics Model.KeyPath Model.Hier Proofs.KeyPathArith Proofs.HierTraverse Proofs.HierFlatten.
Local Open Scope Z_scope.

(* the loop of _merge_dict_into_dict over the entries of src, for any per-entry merge m *)
Fixpoint merge_go (m : pv -> pv -> herr + pv) (l acc : list (key * pv)) : herr + pv :=
  match l with
  | [] => inr (PDict acc)
  | (k, v) :: r =>
      match dget k acc with
      | None => merge_go m r (dset k v acc)
      | Some old => match m old v with inl e => inl e | inr x => merge_go m r (dset k x acc) end
      end
  end.

Lemma merge_plain_dict : forall d s, merge_plain (PDict d) (PDict s) = merge_go merge_plain s d.
Proof.
  intros d s. cbn [merge_plain]. revert d. induction s as [| [k v] r IH]; intros d; [reflexivity |].
  cbn [merge_go]. destruct (dget k d); [| apply IH]. destruct (merge_plain p v); [reflexivity | apply IH].
Qed.

Lemma merge_c_dict : forall d s, merge_c (PDict d) (PDict s) = merge_go merge_c s d.
Proof.
  intros d s. cbn [merge_c]. revert d. induction s as [| [k v] r IH]; intros d; [reflexivity |].
  cbn [merge_go]. destruct (dget k d); [| apply IH]. destruct (merge_c p v); [reflexivity | apply IH].
Qed.

Lemma dget_dset_same : forall k x l, dget k (dset k x l) = Some x.
Proof.
  induction l as [| [k0 v0] r IH]; cbn; [rewrite key_eqb_refl; reflexivity |].
  destruct (key_eqb k k0) eqn:E; cbn; rewrite E; auto.
Qed.

Lemma dget_dset_other : forall k k' x l, k <> k' -> dget k' (dset k x l) = dget k' l.
Proof.
  intros k k' x l H. induction l as [| [k0 v0] r IH]; cbn.
  - destruct (key_eqb k' k) eqn:E; [apply key_eqb_eq in E; congruence | reflexivity].
  - destruct (key_eqb k k0) eqn:E; cbn.
    + apply key_eqb_eq in E. subst k0. destruct (key_eqb k' k) eqn:F; [apply key_eqb_eq in F; congruence | reflexivity].
    + rewrite IH. reflexivity.
Qed.

Lemma dget_none_iff : forall k l, dget k l = None <-> ~ In k (map fst l).
Proof.
  induction l as [| [k0 v0] r IH]; cbn; [tauto |].
  destruct (key_eqb k k0) eqn:E.
  - apply key_eqb_eq in E. subst. split; [discriminate | intros H; exfalso; auto].
  - rewrite IH. split; intros H; [intros [F | F]; [subst; rewrite key_eqb_refl in E; discriminate | auto] | auto].
Qed.

(* what a successful merge holds under every key *)
Lemma merge_go_get : forall m s acc r, NoDup (map fst s) -> merge_go m s acc = inr r ->
  exists rk, r = PDict rk /\
    forall k, dget k rk =
      match dget k s with
      | None => dget k acc
      | Some sv => match dget k acc with
                   | None => Some sv
                   | Some dv => match m dv sv with inr x => Some x | inl _ => None end
                   end
      end.
Proof.
  induction s as [| [k0 v0] t IH]; intros acc r Hn H; cbn [merge_go] in H.
  - inv H. eexists. split; [reflexivity |]. intros k. reflexivity.
  - inv Hn. cbn [map fst] in *.
    assert (dget k0 t = None) as Hk0 by (apply dget_none_iff; assumption).
    destruct (dget k0 acc) as [old |] eqn:E.
    + destruct (m old v0) as [e | x] eqn:M; [discriminate |].
      destruct (IH _ _ H3 H) as (rk & -> & Hget). eexists. split; [reflexivity |]. intros k. rewrite Hget. cbn [dget].
      destruct (key_eqb k k0) eqn:F.
      * apply key_eqb_eq in F. subst k. rewrite Hk0, dget_dset_same, E, M. reflexivity.
      * assert (k0 <> k) by (intros ->; rewrite key_eqb_refl in F; discriminate).
        rewrite dget_dset_other by assumption. reflexivity.
    + destruct (IH _ _ H3 H) as (rk & -> & Hget). eexists. split; [reflexivity |]. intros k. rewrite Hget. cbn [dget].
      destruct (key_eqb k k0) eqn:F.
      * apply key_eqb_eq in F. subst k. rewrite Hk0, dget_dset_same, E. reflexivity.
      * assert (k0 <> k) by (intros ->; rewrite key_eqb_refl in F; discriminate).
        rewrite dget_dset_other by assumption. reflexivity.
Qed.

Theorem merge_plain_lookup : forall d s r, NoDup (map fst s) -> merge_plain (PDict d) (PDict s) = inr r ->
  exists rk, r = PDict rk /\
    forall k, dget k rk =
      match dget k s with
      | None => dget k d
      | Some sv => match dget k d with
                   | None => Some sv
                   | Some dv => match merge_plain dv sv with inr x => Some x | inl _ => None end
                   end
      end.
Proof. intros d s r Hn H. rewrite merge_plain_dict in H. eapply merge_go_get; eauto. Qed.

(* values that are not (dict, dict) or (list, dict): the source replaces the destination *)
Theorem merge_plain_replace : forall d s, (forall sk, s <> PDict sk) -> merge_plain d s = inr s.
Proof. intros d s H. destruct d, s; try reflexivity; exfalso; eapply H; reflexivity. Qed.

(* ---- merging a value into itself ------------------------------------------------------------------------------------------------ *)
Lemma dset_same_value : forall k x l, dget k l = Some x -> dset k x l = l.
Proof.
  induction l as [| [k0 v0] r IH]; cbn; intros H; [discriminate |].
  destruct (key_eqb k k0) eqn:E; [inv H; reflexivity | rewrite IH; auto].
Qed.

Lemma merge_go_self : forall (l : list (key * pv)) acc,
  Forall (fun kv => merge_plain (snd kv) (snd kv) = inr (snd kv)) l ->
  (forall k v, In (k, v) l -> dget k acc = Some v) ->
  merge_go merge_plain l acc = inr (PDict acc).
Proof.
  induction l as [| [k v] r IH]; intros acc Hs Hin; [reflexivity |].
  inv Hs. cbn [snd] in H1. cbn [merge_go]. rewrite (Hin k v (or_introl eq_refl)), H1.
  rewrite dset_same_value by (apply Hin; left; reflexivity). apply IH; auto. intros; apply Hin; right; assumption.
Qed.

Theorem merge_plain_idem : forall v, wfv v -> merge_plain v v = inr v.
Proof.
  apply (pv_ind' (fun v => wfv v -> merge_plain v v = inr v)); try reflexivity.
  intros kvs IH Hw. inv Hw. rewrite merge_plain_dict. apply merge_go_self.
  - rewrite Forall_forall in *. intros kv Hkv. apply IH; auto.
  - intros k v Hin. apply dget_in; assumption.
Qed.

(* ---- canonicalize's merge (two present values conflict) agrees with the plain merge whenever it succeeds --------------------- *)
Theorem merge_c_is_plain : forall s d r, merge_c d s = inr r -> merge_plain d s = inr r.
Proof.
  apply (pv_ind' (fun s => forall d r, merge_c d s = inr r -> merge_plain d s = inr r)).
  - intros d r H. destruct d; discriminate.
  - intros z d r H. destruct d; discriminate.
  - intros s d r H. destruct d; discriminate.
  - intros l _ d r H. destruct d; discriminate.
  - intros kvs IH d r H. destruct d as [| | | dl | dk]; try discriminate.
    + exact H.
    + rewrite merge_c_dict in H. rewrite merge_plain_dict. revert dk H.
      induction IH as [| [k v] t Hv _ IHt]; intros dk H; [exact H |].
      cbn [merge_go] in *. cbn [snd] in Hv. destruct (dget k dk) as [old |]; [| apply IHt; assumption].
      destruct (merge_c old v) as [e | x] eqn:M; [discriminate |]. rewrite (Hv _ _ M). apply IHt. assumption.
Qed.

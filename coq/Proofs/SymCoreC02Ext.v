(* SymCoreC02Ext.v -- C02_extensions: the four documented departures from list / dict, each as an equation on the erasure:
   assigning MISSING_VALUE deletes the key; rebinding an index past the end appends; an insertion marker inserts;
   a nested plain container is stored as a symbolic one (same value, child of the container). *)
From Coq Require Import ZArith NArith List Bool Lia.
Import ListNotations.
From PG Require Import Common.Tactics Model.SymCoreDefs Model.SymCoreOps Model.SymCoreSpec Model.SymCoreC02
     Proofs.SymCoreBase Proofs.SymCoreWF Proofs.SymCoreWFOps Proofs.SymCoreClone Proofs.SymCoreC02Read
     Proofs.SymCoreC02Frame Proofs.SymCoreC02Prim Proofs.SymCoreC02List Proofs.SymCoreC02Dict.
From PG Require Model.PyList Model.PyDict.
Local Open Scope Z_scope.

Lemma ddel_absent : forall (k : key) (d : list (key * pv)), PyDict.dget key_eqb k d = None -> PyDict.ddel key_eqb k d = d.
Proof.
  induction d as [|[k' v] d IH]; simpl; intros; auto. destruct (key_eqb k k'); try discriminate. f_equal; auto.
Qed.

Section Extensions.
Variables (q : quirks) (sc : scope) (ps : pos) (tid : N) (pa : option N) (fl : flags).

(* 1. d[k] = MISSING_VALUE deletes the key k (and is a no-op when k is absent) *)
Theorem ext_missing_deletes : forall st its a k st' out,
  wfs st -> at_is st ps tid KDict pa fl its -> clean its -> anc_clean st ps -> permits sc fl ->
  exec q sc st ps tid KDict (snd ps) fl its (DSet a k (RLeaf LMissing)) = (st', out) ->
  out = Ok RNone /\ dwrote st ps tid pa fl st' (PyDict.ddel key_eqb k (eitems its)).
Proof.
  intros st its a k st' out W R C A [SL AW] E. unfold exec in E. rewrite SL, AW in E. cbn [negb] in E.
  destruct (assoc k its) as [old|] eqn:AS.
  - destruct (dprim q sc st ps k (RLeaf LMissing)) as [st1 p] eqn:D.
    destruct (dprim_del q sc st ps tid pa fl its R C A W k st1 p ltac:(unfold has_key; rewrite AS; auto) D) as [PP WR].
    subst p. inv E. split; auto. apply dwrote_fix_chain; auto.
  - assert (D : dprim q sc st ps k (RLeaf LMissing) = (st, PNone)).
    { unfold dprim. unfold at_is in R. rewrite R, AS. reflexivity. }
    rewrite D in E. inv E. split; auto.
    rewrite ddel_absent by (rewrite dget_eitems, AS; auto). apply dwrote_refl; auto.
Qed.

Lemma rebind_one_single : forall st its z rv,
  at_is st ps tid KList pa fl its -> treats_as_sealed sc fl = false ->
  rebind_one q sc st ps [KI z] rv = (fst (lprim q sc st ps (KI z) rv), snd (lprim q sc st ps (KI z) rv), Some tid).
Proof.
  intros st its z rv R SL. unfold rebind_one. unfold at_is in R. simpl. rewrite R. cbv iota beta.
  rewrite app_nil_r, <- surjective_pairing, R. cbv iota beta. rewrite SL.
  unfold prim. rewrite R. cbv iota beta. destruct (lprim q sc st ps (KI z) rv); reflexivity.
Qed.

(* 2. rebinding an index at or past the end appends: the write of rebind({z: v}) with z >= len(l) *)
Theorem ext_rebind_past_end_appends : forall st its z rv st' p c,
  wfs st -> at_is st ps tid KList pa fl its -> clean its -> anc_clean st ps -> treats_as_sealed sc fl = false ->
  storable_rv rv -> zlen its <= z ->
  rebind_one q sc st ps [KI z] rv = (st', p, c) ->
  p = PUpd /\ wrote st ps tid pa fl st' (evals its ++ [prv rv]).
Proof.
  intros st its z rv st' p c W R C A SL SV GE E. rewrite (rebind_one_single _ _ _ _ R SL) in E.
  destruct (lprim q sc st ps (KI z) rv) as [st1 p1] eqn:L. inv E.
  eapply lprim_append; eauto.
Qed.

(* 3. an insertion marker inserts (with list.insert's clamping of the index): l.insert(z, v) and rebind({z: Insertion(v)}) *)
Theorem ext_insertion_inserts : forall st its z rv st' p c,
  wfs st -> at_is st ps tid KList pa fl its -> clean its -> anc_clean st ps -> treats_as_sealed sc fl = false -> storable_rv rv ->
  rebind_one q sc st ps [KI z] (RIns rv) = (st', p, c) ->
  p = PUpd /\ wrote st ps tid pa fl st' (PyList.insert (evals its) z (prv rv)).
Proof.
  intros st its z rv st' p c W R C A SL SV E. rewrite (rebind_one_single _ _ _ _ R SL) in E.
  destruct (lprim q sc st ps (KI z) (RIns rv)) as [st1 p1] eqn:L. inv E.
  eapply lprim_insert; eauto.
Qed.

(* 4. a nested plain container (a Python list / dict literal) is stored as a symbolic node: it denotes the same value,
   names the container as its parent and its position as its path *)
Theorem ext_plain_becomes_symbolic : forall st r ck cid cfl tp ins k f lits nw st1,
  formalize q sc st r ck cid cfl tp ins (RLit (LitNode k f true lits)) = (nw, st1) ->
  erase nw = plit (LitNode k f true lits) /\
  exists i f' its', nw = Node i k (Some cid) tp f' its'.
Proof.
  intros. simpl in H.
  destruct (build (accepts_partial sc cfl) (Some cid) tp (LitNode k f true lits) (next_id st)) as [n nx] eqn:B. inv H.
  pose proof (build_erase (LitNode k f true lits) (accepts_partial sc cfl) (Some cid) tp (next_id st)) as E. rewrite B in E.
  split; auto. rewrite build_node in B. cbv zeta in B.
  match type of B with (let '(_, _) := ?X in _) = _ => destruct X as [its' nx'] end. inv B.
  simpl. eauto.
Qed.
End Extensions.

(* EvoRec.v — recombinators produce valid children; every primitive and hence every operator expression is
   closed over valid populations (C14). *)
From PG Require Import Common.Tactics Model.Geno Model.GenoViews Model.Evo Model.EvoOps
  Proofs.GenoBasics Proofs.GenoValid Proofs.EvoBase Proofs.EvoSel Proofs.EvoComp Proofs.EvoMut Proofs.EvoSwap Proofs.EvoSeg Proofs.EvoPw.
From Coq Require Import Permutation.

Lemma dedup_incl : forall l, incl (dedup l) l.
Proof.
  induction l as [|x l IH]; simpl; intros y Hy; auto. destruct Hy as [<-|Hy]; [left; auto|].
  apply filter_In in Hy as [Hy _]. right; auto.
Qed.
Lemma set_order_incl : forall R (G : rng R) cs r l r', set_order R G cs r = Ok (l, r') -> incl l cs.
Proof.
  unfold set_order. intros R G cs r l r' H. destruct (order G _ r) as [perm r1].
  destruct (negb _ || negb _); [discriminate|].
  destruct (opt_list _) as [l0|] eqn:E; inv H.
  intros x Hx. apply opt_list_Some in E.
  assert (Hin : In (Some x) (map (nth_error (sort_by sle (dedup cs))) perm)) by (rewrite E; apply in_map; auto).
  apply in_map_iff in Hin as [i [Hi _]]. apply nth_error_In in Hi. apply sort_by_In in Hi. apply dedup_incl; auto.
Qed.
Lemma nodupb_NoDup : forall l, nodupb l = true -> NoDup l.
Proof.
  induction l as [|x l IH]; simpl; intros H. constructor. apply andb_true_iff in H as [H1 H2].
  constructor; auto. intros Hin. apply memb_In in Hin. rewrite Hin in H1. discriminate.
Qed.

Section Rec.
  Variable R : Type.
  Variable G : rng R.

  Theorem pointwise_valid : forall kd w ws s ps r cs r',
    Forall (fun d => valid s d = true) ps ->
    pointwise R G kd w ws s ps r = Ok (cs, r') -> Forall (fun d => valid s d = true) cs.
  Proof.
    unfold pointwise. intros kd w ws s ps r cs r' Hps H. destruct ps as [|p0 ps]. inv H; constructor.
    destruct (where_sel R G w _ r) as [[T r1]|]; simpl in H; [|discriminate].
    destruct (pw_space R G kd ws _ s [] false _ r1) as [[outs r2]|] eqn:E; simpl in H; [|discriminate].
    destruct (opt_list outs) as [cs0|] eqn:Eo; [|discriminate].
    apply set_order_incl in H. apply Forall_forall. intros d Hd. apply H in Hd.
    eapply (proj1 (pw_both R G kd ws _)) in E.
    - apply E. apply opt_list_Some in Eo. rewrite Eo. apply in_map; auto.
    - intros x Hx. change (Some p0 :: map Some ps) with (map Some (p0 :: ps)) in Hx.
      apply in_map_iff in Hx as [x0 [Hx Hin]]. inv Hx. rewrite Forall_forall in Hps; auto.
  Qed.

  Lemma set_end_valid : forall s i new d c cs prop,
    valid s d = true -> get_at (PEnd i) d = Some cs ->
    opt_list (map (fun v => find (fun c0 : nat * sdna => fst c0 =? v) cs) prop) = Some new ->
    nodupb prop = true -> length prop = length cs ->
    set_end s i new d = Some c -> valid s c = true.
  Proof.
    intros [es] i new [ds] c cs prop Hv Hg Hn Hnd Hlen H. simpl in Hg, H.
    destruct (nth_error ds i) as [[cs0| |]|] eqn:Ed; inv Hg.
    destruct (nth_error es i) as [[k cands dist srt nm lits| |]|] eqn:Ee; try discriminate.
    destruct (dist && negb srt) eqn:Ef; inv H; auto.
    apply andb_true_iff in Ef as [-> Ef]. apply negb_true_iff in Ef. subst srt.
    simpl in Hv |- *. apply forallb2_Forall2 in Hv. apply forallb2_Forall2.
    pose proof (Forall2_nth_error _ _ _ _ _ _ _ _ Hv Ee Ed) as Hp. cbv beta in Hp.
    apply valid_p_choices_iff in Hp. destruct Hp as (Hl & Hc & Hs).
    apply opt_list_Some in Hn.
    assert (Hnew : Forall2 (fun v c0 => In c0 cs /\ fst c0 = v) prop new).
    { revert new Hn. clear -cs. induction prop as [|v prop IH]; intros [|c0 new] Hn; simpl in Hn; try discriminate. constructor.
      inv Hn. constructor; auto. match goal with Hf : find _ _ = Some _ |- _ => apply find_some in Hf as [Hf1 Hf2]; apply Nat.eqb_eq in Hf2; auto end. }
    assert (Hval : valid_p (Choices k cands true false nm lits) (PChoices new) = true).
    { apply valid_p_choices_iff. split. apply Forall2_len in Hnew. lia. split.
      - replace (map fst new) with prop. apply constraint_ok_spec. split; [intros _; apply nodupb_NoDup; auto|intros; discriminate].
        clear -Hnew. induction Hnew; simpl; auto. destruct H. f_equal; auto.
      - rewrite Forall_forall in Hs. clear -Hnew Hs. induction Hnew; constructor; auto. destruct H. apply Hs; auto. }
    clear -Hv Ee Hval. revert ds i Ee Hv. induction es as [|e es IH]; intros ds i Ee Hv; destruct i; simpl in *; try discriminate.
    - inv Ee. inv Hv. constructor; auto.
    - inv Hv. constructor; auto.
  Qed.

  Lemma res_list_inv : forall (xs : list (res sdna)) l,
    fold_right (fun (x : res sdna) acc => dor c <- x; dor t <- acc; Ok (c :: t)) (Ok []) xs = Ok l ->
    forall c, In c l -> In (Ok c) xs.
  Proof.
    induction xs as [|x xs IH]; simpl; intros l H c Hc. inv H. contradiction.
    destruct x as [c0|]; simpl in H; [|discriminate].
    destruct (fold_right _ (Ok []) xs) as [t|] eqn:E; simpl in H; inv H.
    destruct Hc as [<-|Hc]; [left; auto|right; eauto].
  Qed.

  Theorem permutation_valid : forall pk w s x y r cs r', valid s x = true -> valid s y = true ->
    permutation R G pk w s x y r = Ok (Some cs, r') -> Forall (fun d => valid s d = true) cs.
  Proof.
    unfold permutation. intros pk w s x y r cs r' Hx Hy H.
    destruct (where_sel R G w _ r) as [[pts r1]|]; cbn [rbind fst snd] in H; [|discriminate].
    destruct pts as [|pt pts]; [inv H|].
    match type of H with rbind ?e _ = _ => destruct e as [[acc r2]|] eqn:E; cbn [rbind fst snd] in H; [|discriminate] end.
    destruct (set_order R G acc r2) as [[l r3]|] eqn:Es; cbn [rbind fst snd] in H; inv H.
    apply set_order_incl in Es. apply Forall_forall. intros d Hd. apply Es in Hd. revert d Hd. apply Forall_forall.
    change (Forall (fun d => valid s d = true) (fst (acc, r2))).
    refine (foldi_inv _ _ (fun (_ : nat) (st : list sdna * R) => Forall (fun d => valid s d = true) (fst st)) _ _ _ _ _ _ _ E).
    - constructor.
    - intros j pa [acc0 r0] st2 _ _ Hinv Hstep. simpl in Hstep.
      destruct (get_at pa x) as [cx|] eqn:Gx; [|discriminate]. destruct (get_at pa y) as [cy|] eqn:Gy; [|discriminate].
      destruct (permutate R G pk _ _ r0) as [[props r4]|]; simpl in Hstep; [|discriminate].
      match type of Hstep with rbind ?e _ = _ => destruct e as [l0|] eqn:El; simpl in Hstep; inv Hstep end.
      simpl. apply Forall_app; split; auto. apply Forall_forall. intros c Hc.
      eapply res_list_inv in El; eauto. apply in_app_or in El.
      assert (K : forall d cs0, valid s d = true -> get_at pa d = Some cs0 ->
                  In (Ok c) (map (fun prop => match opt_list (map (fun v => find (fun c0 : nat * sdna => fst c0 =? v) cs0) prop) with
                                          | Some new =>
                                              if nodupb prop && (length prop =? length cs0) then
                                                match pa with
                                                | PEnd i => match set_end s i new d with Some c => Ok c | None => Err EKey end
                                                | PStep _ _ _ => Ok d end
                                              else Err EValue
                                          | None => Err EKey end) props) -> valid s c = true).
      { intros d cs0 Hd Hg Hin. apply in_map_iff in Hin as [prop [Hp _]].
        destruct (opt_list _) as [new|] eqn:En; [|discriminate].
        destruct (nodupb prop && (length prop =? length cs0)) eqn:Ec; [|discriminate].
        apply andb_true_iff in Ec as [E1 E2]. apply Nat.eqb_eq in E2.
        destruct pa as [i|i j' rest]; [|inv Hp; auto].
        destruct (set_end s i new d) as [c1|] eqn:Ese; inv Hp. eapply set_end_valid; eauto. }
      destruct El as [El|El]; [eapply (K x cx)|eapply (K y cy)]; eauto.
  Qed.
End Rec.

(* ---- every primitive is closed; hence every operator expression ---------------------------------------- *)
Section Closed.
  Variable R : Type.
  Variable G : rng R.
  Hypothesis GOK : rng_ok G.
  Variable s : dspec.
  Hypothesis WF : wf s = true.

  Lemma its_valid : forall pop is, pop_ok s pop -> its pop = Some is -> Forall (fun i => valid s (idna i) = true) is.
  Proof.
    unfold its. intros pop is Hp H. apply opt_list_Some in H. revert is H.
    induction Hp as [|x pop Hx Hp IH]; intros [|i is] H; simpl in H; try discriminate; constructor.
    - destruct x; inv H. auto.
    - apply IH. inv H; auto.
  Qed.
  Lemma fresh_items_ok : forall ds (st : est R), Forall (fun d => valid s d = true) ds -> pop_ok s (fst (fresh_items R ds st)).
  Proof.
    unfold fresh_items, pop_ok. intros ds st H. simpl. apply Forall_forall. intros x Hx.
    apply in_map_iff in Hx as [[n d] [<- Hin]]. simpl. apply in_combine_r in Hin. rewrite Forall_forall in H; auto.
  Qed.

  Lemma run_mut_closed : forall m, closed s (run_mut R G s m).
  Proof.
    intros m pop st pop' st' Hp H. unfold run_mut in H. destruct (its pop) as [is|] eqn:Ei; [|discriminate].
    pose proof (its_valid _ _ Hp Ei) as Hv.
    match type of H with rbind ?e _ = _ => destruct e as [[ds r1]|] eqn:E; cbn [rbind fst snd] in H; inv H end.
    apply fresh_items_ok.
    change (Forall (fun d => valid s d = true) (fst (ds, r1))).
    refine (foldi_inv _ _ (fun (_ : nat) (acc : list sdna * R) => Forall (fun d => valid s d = true) (fst acc)) _ _ _ _ _ _ _ E).
    - constructor.
    - intros j i [acc r0] st2 Hi _ Hinv Hstep. cbn [fst snd] in Hstep.
      match type of Hstep with rbind ?e _ = _ => destruct e as [[d' r2]|] eqn:Em; cbn [rbind fst snd] in Hstep; inv Hstep end.
      simpl. apply Forall_app; split; auto. constructor; [|constructor].
      apply nth_error_In in Hi. rewrite Forall_forall in Hv. specialize (Hv _ Hi).
      destruct m; [eapply mutate_uniform_valid|eapply mutate_swap_valid]; eauto.
  Qed.

  Lemma run_rec_closed : forall rc, closed s (run_rec R G s rc).
  Proof.
    intros rc pop st pop' st' Hp H. unfold run_rec in H. destruct (its pop) as [is|] eqn:Ei; [|discriminate].
    pose proof (its_valid _ _ Hp Ei) as Hv.
    assert (Hd : Forall (fun d => valid s d = true) (map idna is)).
    { apply Forall_forall. intros d Hd. apply in_map_iff in Hd as [i [<- Hi]]. rewrite Forall_forall in Hv; auto. }
    destruct rc.
    - destruct (match kd with PWSample | PWWeighted => weights_of wf pop | _ => Ok [] end) as [ws|]; cbn [rbind] in H; [|discriminate].
      destruct (pointwise R G kd w ws s (map idna is) (fst st)) as [[cs r1]|] eqn:E; cbn [rbind fst snd] in H; inv H.
      apply fresh_items_ok. eapply pointwise_valid; eauto.
    - destruct (map idna is) as [|x [|y [|? ?]]]; try discriminate. inv Hd. inv H3. inv H.
      apply fresh_items_ok. apply kpoint_valid; auto.
    - destruct (map idna is) as [|x [|y [|? ?]]]; try discriminate. inv Hd. inv H3. inv H.
      apply fresh_items_ok. apply segment_valid; auto.
    - destruct (map idna is) as [|x [|y [|? ?]]]; try discriminate. inv Hd. inv H3.
      destruct (permutation R G pk w s x y (fst st)) as [[[cs|] r1]|] eqn:E; cbn [rbind fst snd] in H; inv H; auto.
      apply fresh_items_ok. eapply permutation_valid; [| |exact E]; auto.
  Qed.

  Lemma chunks_ok : forall fuel m (pop : list item), pop_ok s pop -> Forall (pop_ok s) (chunks fuel m pop).
  Proof.
    induction fuel as [|f IH]; simpl; intros m pop Hp. constructor. destruct pop as [|x pop]. constructor.
    constructor. eapply pop_ok_incl; [apply incl_firstn|auto]. apply IH. eapply pop_ok_incl; [apply incl_skipn|auto].
  Qed.

  Theorem prim_closed : forall p, closed s (run_prim R G s p).
  Proof.
    intros [sl|m|rc|m] pop st pop' st' Hp H; simpl in H.
    - destruct (select R G sl pop (fst st)) as [[out r1]|] eqn:E; cbn [rbind fst snd] in H; inv H.
      eapply pop_ok_incl; [eapply select_members; eauto|auto].
    - eapply run_mut_closed; eauto.
    - eapply run_rec_closed; eauto.
    - inv H. pose proof (chunks_ok (length pop) (Nat.max m 1) pop Hp) as Hc.
      unfold pop_ok. apply Forall_forall. intros x Hx. apply in_map_iff in Hx as [[n c] [<- Hin]].
      apply in_combine_r in Hin. rewrite Forall_forall in Hc. apply item_ok_grp. auto.
  Qed.

  (* ALL operator programs: every expression built from the shipped primitives with the composition operators *)
  Theorem expr_closed : forall x, closedg s (eval R G s x).
  Proof. intros x. apply comp_closed. exact prim_closed. Qed.
End Closed.

(* KeyPathSetInter.v — add(path, include_intermediate=True) on a prefix-closed set adds the path and all its prefixes
   (how tree_view builds its uncollapse sets: KeyPathSet.from_value(paths, include_intermediate=True)). *)
From PG Require Import Common.Tactics Model.KeyPath Proofs.KeyPathArith Proofs.KeyPathSetBase Proofs.KeyPathSetOps
  Proofs.KeyPathSetIter Proofs.KeyPathSetEq.

Definition prefix_closed (q : quirks) (kids : trie) : Prop :=
  forall a b, cleanp q (a ++ b) -> memb q (a ++ b) (TDict kids) = true -> memb q a (TDict kids) = true.

Lemma is_prefix_app_l : forall a b p, is_prefix (a ++ b) p = true -> is_prefix a p = true.
Proof.
  induction a as [| x a IH]; intros b p H; [destruct p; reflexivity |].
  destruct p as [| y p]; [discriminate |]. cbn in *. apply andb_true_iff in H as [H1 H2]. rewrite H1. cbn. eauto.
Qed.

Lemma is_prefix_nil_r : forall p', is_prefix p' [] = path_eqb p' [].
Proof. destruct p'; reflexivity. Qed.

Lemma closed_from_law : forall q kids kids' p, prefix_closed q kids ->
  (forall p', cleanp q p' -> memb q p' (TDict kids') = is_prefix p' p || memb q p' (TDict kids)) ->
  prefix_closed q kids'.
Proof.
  intros q kids kids' p Hc Hlaw a b Hab Hm.
  assert (cleanp q a) as Ha by (unfold cleanp in *; apply Forall_app in Hab; tauto).
  rewrite (Hlaw _ Hab) in Hm. rewrite (Hlaw _ Ha). apply orb_true_iff in Hm as [Hm | Hm].
  - rewrite (is_prefix_app_l _ _ _ Hm). reflexivity.
  - rewrite (Hc a b Hab Hm). apply orb_true_r.
Qed.

Lemma aset_swap_replace : forall m m' v w v0 l, m <> m' ->
  aset m v (aset m' w (aset m v0 l)) = aset m' w (aset m v l).
Proof.
  intros m m' v w v0 l Hne.
  assert (mkey_eqb m m = true) as E1 by apply mkey_eqb_refl.
  assert (mkey_eqb m' m = false) as E2 by (apply mkey_eqb_neq; auto).
  assert (mkey_eqb m m' = false) as E3 by (apply mkey_eqb_neq; auto).
  induction l as [| [m0 x] r IH].
  - do 4 (cbn [aset]; rewrite ?E1, ?E2, ?E3). reflexivity.
  - cbn [aset]. destruct (mkey_eqb m m0) eqn:E.
    + apply mkey_eqb_eq in E. subst m0. do 4 (cbn [aset]; rewrite ?E1, ?E2, ?E3). reflexivity.
    + cbn [aset]. destruct (mkey_eqb m' m0) eqn:F.
      * cbn [aset]. rewrite E. cbn [aset]. rewrite ?F, ?E. rewrite aset_aset. reflexivity.
      * cbn [aset]. rewrite E. rewrite IH. cbn [aset]. rewrite ?F, ?E. reflexivity.
Qed.

Lemma child_closed : forall q kids k ck, inj q k = MK k -> aget (MK k) kids = Some (TDict ck) ->
  prefix_closed q kids -> prefix_closed q ck.
Proof.
  intros q kids k ck Hk E Hc a b Hab Hm.
  assert (memb q ((k :: a) ++ b) (TDict kids) = true) as H1 by (cbn [app memb]; rewrite Hk, E; exact Hm).
  apply Hc in H1; [| constructor; assumption]. cbn [memb] in H1. rewrite Hk, E in H1. exact H1.
Qed.

Lemma closed_empty : forall q, prefix_closed q [].
Proof. intros q a b _ H. rewrite memb_empty in H. discriminate. Qed.

Theorem add_intermediate_spec : forall q p kids, wf q (TDict kids) -> cleanp q p -> prefix_closed q kids ->
  exists kids',
    add_go q true p (TDict kids) = Some (TDict kids', negb (memb q p (TDict kids))) /\
    wf q (TDict kids') /\ kids' <> [] /\
    forall p', cleanp q p' -> memb q p' (TDict kids') = is_prefix p' p || memb q p' (TDict kids).
Proof.
  induction p as [| k r IH]; intros kids Hw Hc Hpc.
  - destruct (add_spec q [] kids Hw Hc) as (kids' & A & B & C & D0).
    exists kids'. split; [exact A |]. split; [exact B |]. split; [exact C |].
    intros p' Hp'. rewrite is_prefix_nil_r. apply D0. assumption.
  - inv Hc. rename H1 into Hk, H2 into Hr. cbn [add_go memb]. rewrite Hk.
    destruct (aget (MK k) kids) eqn:E.
    + destruct (wf_child _ _ _ _ Hw E) as (ck & -> & Hne & Hck).
      destruct (IH ck Hck Hr (child_closed q kids k ck Hk E Hpc)) as (ck' & Hadd & Hw' & Hne' & Hlaw).
      unfold ahas. rewrite ?E. cbn [negb andb]. rewrite ?E. rewrite Hadd. rewrite orb_false_r.
      exists (aset (MK k) (TDict ck') kids). split; [reflexivity |]. split; [| split].
      * apply wf_aset; auto. split; [exact Hk |]. split; [| exact Hw']. destruct ck'; [congruence | exact I].
      * apply aset_nonempty.
      * intros p' Hp'. rewrite memb_aset_child by auto.
        destruct p' as [| k' r']; cbn [is_prefix orb memb].
        -- destruct (wf_inhabited q ck Hck Hne) as (s & Hcs & Hm).
           assert (memb q ([] ++ k :: s) (TDict kids) = true) as H1 by (cbn [app memb]; rewrite Hk, E; exact Hm).
           apply Hpc in H1; [exact H1 | constructor; assumption].
        -- inv Hp'. rewrite H1. rewrite (key_eqb_sym k k'). destruct (key_eqb k' k) eqn:Ek; cbn [andb orb]; auto.
           apply key_eqb_eq in Ek. subst. rewrite E. apply Hlaw. assumption.
    + destruct (IH [] (wf_empty q) Hr (closed_empty q)) as (ck' & Hadd & Hw' & Hne' & Hlaw).
      unfold ahas. rewrite ?E. cbn [negb andb].
      rewrite (aget_aset_other MTerm (MK k)) by discriminate. rewrite aget_aset_same, Hadd. rewrite orb_true_r.
      rewrite aset_swap_replace by discriminate.
      exists (aset MTerm TTrue (aset (MK k) (TDict ck') kids)). split; [reflexivity |]. split; [| split].
      * apply wf_aset; [| reflexivity]. apply wf_aset; auto. split; [exact Hk |]. split; [| exact Hw']. destruct ck'; [congruence | exact I].
      * apply aset_nonempty.
      * intros p' Hp'. destruct p' as [| k' r']; cbn [is_prefix orb memb].
        -- unfold ahas. rewrite aget_aset_same. reflexivity.
        -- inv Hp'. rewrite H1. rewrite (aget_aset_other MTerm (MK k')) by discriminate.
           rewrite (key_eqb_sym k k'). destruct (key_eqb k' k) eqn:Ek; cbn [andb orb].
           ++ apply key_eqb_eq in Ek. subst. rewrite aget_aset_same, E. rewrite (Hlaw r' H2), memb_empty. reflexivity.
           ++ rewrite aget_aset_other; [reflexivity |]. intros F. inv F. rewrite key_eqb_refl in Ek. discriminate.
Qed.

(* building a set from nothing with include_intermediate=True keeps it prefix-closed: every prefix of every added path *)
Corollary add_intermediate_closed : forall q p kids kids' u, wf q (TDict kids) -> cleanp q p -> prefix_closed q kids ->
  add_go q true p (TDict kids) = Some (TDict kids', u) -> wf q (TDict kids') /\ prefix_closed q kids'.
Proof.
  intros q p kids kids' u Hw Hc Hpc H.
  destruct (add_intermediate_spec q p kids Hw Hc Hpc) as (k2 & A & B & _ & D0). rewrite A in H. inv H.
  split; [assumption |]. eapply closed_from_law; eauto.
Qed.

(* ---- the general case: any well-formed set --------------------------------------------------------------------------------------
   ii_marks p t p': p' is a proper prefix of p and, in t, the node at p' has no child along p (so add creates that child
   and, with include_intermediate, marks p'). *)
Fixpoint ii_marks (q : quirks) (p : list key) (n : tnode) (p' : list key) : bool :=
  match p, p' with
  | [], _ => false
  | k :: r, [] => match n with TDict kids => negb (ahas (inj q k) kids) | TTrue => false end
  | k :: r, k' :: r' =>
      key_eqb k' k &&
      match n with
      | TDict kids => match aget (inj q k) kids with
                      | Some c => ii_marks q r c r'
                      | None => is_prefix r' r && negb (path_eqb r' r)
                      end
      | TTrue => false
      end
  end.

Lemma ii_marks_empty : forall q r r', ii_marks q r (TDict []) r' = is_prefix r' r && negb (path_eqb r' r).
Proof.
  intros q. induction r as [| k r IH]; intros r'.
  - destruct r'; reflexivity.
  - destruct r' as [| k' r'']; [reflexivity |]. cbn [ii_marks aget is_prefix path_eqb].
    rewrite (key_eqb_sym k k'). destruct (key_eqb k' k); reflexivity.
Qed.

Theorem add_intermediate_general : forall q p kids, wf q (TDict kids) -> cleanp q p ->
  exists kids',
    add_go q true p (TDict kids) = Some (TDict kids', negb (memb q p (TDict kids))) /\
    wf q (TDict kids') /\ kids' <> [] /\
    forall p', cleanp q p' ->
      memb q p' (TDict kids') = memb q p' (TDict kids) || path_eqb p' p || ii_marks q p (TDict kids) p'.
Proof.
  induction p as [| k r IH]; intros kids Hw Hc.
  - destruct (add_spec q [] kids Hw Hc) as (kids' & A & B & C & D0).
    exists kids'. split; [exact A |]. split; [exact B |]. split; [exact C |].
    intros p' Hp'. rewrite (D0 p' Hp'). cbn [ii_marks]. rewrite orb_false_r. apply orb_comm.
  - inv Hc. rename H1 into Hk, H2 into Hr. cbn [add_go memb]. rewrite Hk.
    destruct (aget (MK k) kids) eqn:E.
    + destruct (wf_child _ _ _ _ Hw E) as (ck & -> & Hne & Hck).
      destruct (IH ck Hck Hr) as (ck' & Hadd & Hw' & Hne' & Hlaw).
      unfold ahas. rewrite ?E. cbn [negb andb]. rewrite ?E. rewrite Hadd. rewrite orb_false_r.
      exists (aset (MK k) (TDict ck') kids). split; [reflexivity |]. split; [| split].
      * apply wf_aset; auto. split; [exact Hk |]. split; [| exact Hw']. destruct ck'; [congruence | exact I].
      * apply aset_nonempty.
      * intros p' Hp'. rewrite memb_aset_child by auto.
        destruct p' as [| k' r']; cbn [path_eqb ii_marks orb memb]; rewrite ?Hk.
        -- unfold ahas. rewrite E. cbn [negb]. rewrite !orb_false_r. reflexivity.
        -- inv Hp'. rewrite H1. destruct (key_eqb k' k) eqn:Ek; cbn [andb orb]; [| rewrite !orb_false_r; reflexivity].
           apply key_eqb_eq in Ek. subst. rewrite E. apply Hlaw. assumption.
    + destruct (IH [] (wf_empty q) Hr) as (ck' & Hadd & Hw' & Hne' & Hlaw).
      unfold ahas. rewrite ?E. cbn [negb andb].
      rewrite (aget_aset_other MTerm (MK k)) by discriminate. rewrite aget_aset_same, Hadd. rewrite orb_true_r.
      rewrite aset_swap_replace by discriminate.
      exists (aset MTerm TTrue (aset (MK k) (TDict ck') kids)). split; [reflexivity |]. split; [| split].
      * apply wf_aset; [| reflexivity]. apply wf_aset; auto. split; [exact Hk |]. split; [| exact Hw']. destruct ck'; [congruence | exact I].
      * apply aset_nonempty.
      * intros p' Hp'. destruct p' as [| k' r']; cbn [path_eqb ii_marks orb memb]; rewrite ?Hk.
        -- unfold ahas. rewrite aget_aset_same, E. cbn [negb]. rewrite !orb_true_r. reflexivity.
        -- inv Hp'. rewrite H1. rewrite (aget_aset_other MTerm (MK k')) by discriminate.
           destruct (key_eqb k' k) eqn:Ek; cbn [andb orb].
           ++ apply key_eqb_eq in Ek. subst. rewrite aget_aset_same, E. rewrite (Hlaw r' H2), memb_empty, ii_marks_empty. reflexivity.
           ++ rewrite aget_aset_other; [rewrite !orb_false_r; reflexivity |]. intros F. inv F. rewrite key_eqb_refl in Ek. discriminate.
Qed.

(* what ii_marks says, in terms of the trie: a proper prefix of p whose next node along p is absent *)
Lemma ii_marks_spec : forall q p kids p', wf q (TDict kids) -> cleanp q p -> cleanp q p' ->
  (ii_marks q p (TDict kids) p' = true <->
   exists k r, p = p' ++ k :: r /\ walk q (p' ++ [k]) (TDict kids) = Some None).
Proof.
  intros q. induction p as [| k r IH]; intros kids p' Hw Hc Hc'.
  - cbn. split; [discriminate | intros (k & r & E & _); destruct p'; discriminate].
  - inv Hc. rename H1 into Hk, H2 into Hr. destruct p' as [| k' r'].
    + cbn [ii_marks app walk]. rewrite Hk. unfold ahas. split.
      * intros H. exists k, r. split; [reflexivity |]. cbn [app walk]. rewrite Hk. destruct (aget (MK k) kids); [discriminate | reflexivity].
      * intros (k0 & r0 & E & W). inv E. cbn [app walk] in W. rewrite Hk in W. destruct (aget (MK k0) kids); [| reflexivity].
        cbn in W. discriminate.
    + inv Hc'. cbn [ii_marks]. rewrite Hk. destruct (key_eqb k' k) eqn:Ek; cbn [andb].
      * apply key_eqb_eq in Ek. subst k'. destruct (aget (MK k) kids) eqn:E.
        -- destruct (wf_child _ _ _ _ Hw E) as (ck & -> & _ & Hck). rewrite (IH ck r' Hck Hr H2). split.
           ++ intros (k0 & r0 & -> & W). exists k0, r0. split; [reflexivity |]. cbn [app walk]. rewrite Hk, E. exact W.
           ++ intros (k0 & r0 & E0 & W). inv E0. exists k0, r0. split; [reflexivity |]. cbn [app walk] in W. rewrite Hk, E in W. exact W.
        -- split.
           ++ intros H. apply andb_true_iff in H as [H1' H2']. apply (proj1 (relative_spec r r')) in H1' as (s & ->).
              destruct s as [| k0 s0]; [rewrite app_nil_r in H2'; rewrite (proj2 (path_eqb_eq r' r') eq_refl) in H2'; discriminate |].
              exists k0, s0. split; [reflexivity |]. cbn [app walk]. rewrite Hk, E. reflexivity.
           ++ intros (k0 & r0 & E0 & _). inv E0. apply andb_true_iff. split.
              ** apply (proj2 (relative_spec (r' ++ k0 :: r0) r')). eauto.
              ** apply negb_true_iff. destruct (path_eqb r' (r' ++ k0 :: r0)) eqn:F; [| reflexivity].
                 apply path_eqb_eq in F. apply (f_equal (@length key)) in F. rewrite app_length in F. cbn in F. lia.
      * split; [discriminate |]. intros (k0 & r0 & E0 & _). inv E0. rewrite key_eqb_refl in Ek. discriminate.
Qed.

(* TypingUnionCompat.v — compat soundness with Union receivers whose dispatch is safe
   ([union_safe]: simple unfrozen candidates with pairwise unrelated value types). *)
From PG Require Import Common.Tactics Model.Typing Proofs.TypingBasics Proofs.TypingApply Proofs.TypingDict
                       Proofs.TypingApplyDict Proofs.TypingCompat Proofs.TypingCompatDict Proofs.TypingUnion.
Local Open Scope Z_scope.
Local Arguments Z.mul : simpl never.

(* ------------------------------------------------------------------------------------------ *)
(** * The supertypes of a type form a chain *)

Lemma prefix_chain : forall c d d', is_subclass c d = true -> is_subclass c d' = true ->
  is_subclass d d' = true \/ is_subclass d' d = true.
Proof.
  induction c as [|x c IH]; intros d d' A B.
  - destruct d; [|discriminate]. right. destruct d'; reflexivity.
  - destruct d as [|y d]. { right. destruct d'; reflexivity. }
    destruct d' as [|y' d']. { left. reflexivity. }
    simpl in A, B. apply andb_true_iff in A as [A1 A2]. apply andb_true_iff in B as [B1 B2].
    apply N.eqb_eq in A1. apply N.eqb_eq in B1. subst.
    simpl. rewrite N.eqb_refl. simpl. apply IH; auto.
Qed.

Lemma supertypes_chain : forall tv t t', issub tv t = true -> issub tv t' = true ->
  issub t t' = true \/ issub t' t = true.
Proof.
  intros tv t t' A B.
  destruct t; try (right; destruct t'; simpl in *; auto; destruct tv; discriminate);
  destruct t'; try (left; reflexivity); try (right; reflexivity);
  destruct tv; simpl in *; try discriminate; auto.
  eapply prefix_chain; eauto.
Qed.

(* ------------------------------------------------------------------------------------------ *)
(** * Simple candidates *)

Lemma cand_simple_vtype : forall c, cand_simple c = true -> vtype c = Some [cand_type c] /\ frozen (mods_of c) = false /\ is_union c = false.
Proof.
  unfold cand_simple, cand_type. intros c H. apply andb_true_iff in H as [F K].
  apply negb_true_iff in F. destruct c; try discriminate; simpl; auto.
Qed.

Lemma find_unique : forall v cs c, forallb cand_simple cs = true -> pairwise_unrelated cs = true ->
  In c cs -> inst_of v c = true -> find (inst_of v) cs = Some c.
Proof.
  induction cs as [|c0 r IH]; intros c CS PU I X; [contradiction|].
  simpl in CS, PU. apply andb_true_iff in CS as [CS0 CSr]. apply andb_true_iff in PU as [PU0 PUr].
  simpl. destruct (inst_of v c0) eqn:X0.
  - destruct I as [E|I]; [congruence|]. exfalso.
    rewrite forallb_forall in PU0, CSr. pose proof (PU0 _ I) as U. pose proof (CSr _ I) as CSc.
    destruct (cand_simple_vtype _ CS0) as [V0 _]. destruct (cand_simple_vtype _ CSc) as [Vc _].
    unfold inst_of in X0, X. rewrite V0 in X0. rewrite Vc in X. unfold isinstance in X0, X.
    destruct (type_of v) as [tv|]; [|discriminate]. simpl in X0, X. rewrite orb_false_r in X0, X.
    unfold unrelated in U. apply andb_true_iff in U as [U1 U2].
    apply negb_true_iff in U1. apply negb_true_iff in U2.
    destruct (supertypes_chain _ _ _ X0 X); congruence.
  - destruct I as [E|I]; [subst; congruence|]. apply IH; auto.
Qed.

(* a value of a spec that a simple spec c declares itself compatible with is an instance of c's
   value type *)
Lemma compat_instance : forall q c b v, cand_simple c = true -> compat q c b = true ->
  type_of v <> None -> conforms (unfreeze b) v -> inst_of v c = true.
Proof.
  intros q c b v CS CP T C.
  destruct (cand_simple_vtype _ CS) as [VC [Fc _]].
  rewrite compat_eq in CP. unfold compat1 in CP. apply andb_true_iff in CP as [_ CP].
  apply conforms_inv in C; auto using frozen_unfreeze; [|intros X; subst; simpl in T; congruence].
  destruct C as [[E _]|[_ [v1 [Co Bo]]]]; [subst; simpl in T; congruence|].
  rewrite vtype_unfreeze in Co. rewrite body_unfreeze in Bo.
  unfold inst_of. rewrite VC. unfold cand_simple in CS. apply andb_true_iff in CS as [_ CS].
  destruct c; try discriminate; destruct b; try discriminate; cbn [cand_type vtype] in *; cbn [apply_body] in Bo.
  - inv Bo. apply coerce_fixed_instance in Co. exact Co.
  - apply validate_num_same in Bo. subst. apply coerce_fixed_instance in Co. exact Co.
  - apply validate_num_same in Bo. subst. apply coerce_fixed_instance in Co. exact Co.
  - inv Bo. apply coerce_fixed_instance in Co. exact Co.
  - apply coerce_nofloat in Co as [E I]; [|reflexivity]. subst. exact I.
  - apply coerce_nofloat in Co as [E I]; [|reflexivity]. subst. exact I.
  - apply coerce_nofloat in Co as [E I]; [|reflexivity]. subst. exact I.
  - bsplit. inv Bo. apply coerce_fixed_instance in Co.
    unfold isinstance in *. destruct (type_of v) as [tv|]; [|discriminate]. simpl in *.
    rewrite orb_false_r in *. destruct tv; simpl in *; try discriminate. eapply is_subclass_trans; eauto.
Qed.

Lemma union_types_in : forall cs ts c t, union_types cs = Some ts -> In c cs -> vtype c = Some [t] -> In t ts.
Proof.
  induction cs as [|c0 r IH]; simpl; intros ts c t U I V; [contradiction|].
  destruct (vtype c0) as [a|] eqn:V0; [|discriminate]. destruct (union_types r) as [b|] eqn:Ur; inv U.
  apply in_or_app. destruct I as [E|I].
  - subst. rewrite V in V0. inv V0. left. left. reflexivity.
  - right. eapply IH; eauto.
Qed.

Lemma simple_union_types : forall cs, forallb cand_simple cs = true -> exists ts, union_types cs = Some ts.
Proof.
  induction cs as [|c r IH]; simpl; intros H; eauto. apply andb_true_iff in H as [A B].
  destruct (IH B) as [ts E]. destruct (cand_simple_vtype _ A) as [V _]. rewrite V, E. eauto.
Qed.

(* a safe Union accepts what a compatible candidate accepts, for the values of a non-Union sender *)
Lemma sound_union_recv : forall q cs m b v,
  frozen m = false -> forallb cand_simple cs = true -> pairwise_unrelated cs = true ->
  none_ok m (mods_of b) = true -> existsb (fun c => compat q c b) cs = true ->
  (forall c, In c cs -> compat q c b = true -> accepts c v) ->
  v <> PMissing -> conforms (unfreeze b) v -> accepts (SUnion cs m) v.
Proof.
  intros q cs m b v Fa CS PU NO EX IH NM C.
  destruct (type_of v) eqn:T.
  - apply existsb_exists in EX as [c [Ic Cc]].
    rewrite forallb_forall in CS. pose proof (CS _ Ic) as CSc. rewrite <- forallb_forall in CS.
    assert (X : inst_of v c = true) by (eapply compat_instance; eauto; congruence).
    destruct (IH _ Ic Cc) as [v' Hv].
    destruct (simple_union_types _ CS) as [ts TS].
    destruct (cand_simple_vtype _ CSc) as [Vc _].
    assert (I : isinstance v ts = true).
    { unfold inst_of in X. rewrite Vc in X. unfold isinstance in *. destruct (type_of v) as [tv|]; [|discriminate].
      simpl in X. rewrite orb_false_r in X. apply existsb_exists. exists (cand_type c). split; auto.
      eapply union_types_in; eauto. }
    eapply accepts_inst with (v' := v') (ts := ts);
      [exact Fa | rewrite vtype_union; exact TS | exact I | ].
    cbn [apply_body]. rewrite strong_find, (find_unique v cs c CS PU Ic X). exact Hv.
  - destruct v; simpl in T; try discriminate; try congruence.
    apply conforms_inv in C; auto using frozen_unfreeze; try discriminate.
    destruct C as [[_ N]|[T' _]]; [|simpl in T'; congruence].
    rewrite noneable_unfreeze in N. apply accepts_none; auto. eapply none_ok_use; eauto.
Qed.

(* a typed value of a plain Union is a value of one of its candidates *)
Lemma union_value : forall ocs mb v, frozen mb = false -> forallb cand_plain ocs = true ->
  type_of v <> None -> conforms (SUnion ocs mb) v -> exists oc, In oc ocs /\ conforms oc v.
Proof.
  intros ocs mb v F CP T C. unfold conforms in *. rewrite apply_eq in C.
  rewrite pipeline_typed in C by auto.
  destruct (coerce (vtype (SUnion ocs mb)) v) as [v1|] eqn:Co; cbn [bind] in C; [|discriminate].
  pose proof (coerce_idem _ _ _ Co) as C1. rewrite vtype_union in C1, Co.
  assert (TS : exists ts, union_types ocs = Some ts).
  { clear - CP. induction ocs as [|c r IHr]; simpl; eauto. simpl in CP. apply andb_true_iff in CP as [A B].
    destruct (IHr B) as [ts E]. rewrite E. unfold cand_plain in A. apply andb_true_iff in A as [_ A].
    destruct (vtype c); eauto; discriminate. }
  destruct TS as [ts TS]. rewrite TS in C1, Co. apply coerce_fixed_instance in C1.
  destruct (find_inst_some _ _ _ TS C1) as [c0 F0].
  cbn [apply_body] in C. rewrite strong_find, F0 in C.
  destruct (find_some_in _ _ _ F0) as [I0 X0]. rewrite forallb_forall in CP.
  pose proof (cand_keeps_type _ _ _ _ (CP _ I0) X0 C) as TT.
  (* the type check did not convert: a conversion changes the type *)
  assert (E : v1 = v).
  { simpl in Co. destruct (isinstance v ts). { inv Co; auto. }
    unfold convert in Co. destruct (existsb is_float ts); [|discriminate].
    destruct v; simpl in Co; try discriminate; inv Co; simpl in TT; discriminate. }
  subst v1. exists c0. split; auto.
Qed.

(* a safe Union against a plain Union sender *)
Lemma sound_union_sender : forall q cs m ocs mb v,
  frozen m = false -> forallb cand_simple cs = true -> pairwise_unrelated cs = true ->
  none_ok m mb = true -> forallb (compat q (SUnion cs m)) ocs = true ->
  forallb cand_plain ocs = true -> frozen mb = false ->
  (forall c oc, In c cs -> In oc ocs -> compat q c oc = true -> conforms oc v -> accepts c v) ->
  v <> PMissing -> conforms (SUnion ocs mb) v -> accepts (SUnion cs m) v.
Proof.
  intros q cs m ocs mb v Fa CS PU NO ALL CPb Fb IH NM C.
  destruct (type_of v) eqn:T.
  - assert (TN : type_of v <> None) by congruence.
    destruct (union_value _ _ _ Fb CPb TN C) as [oc [Ioc Coc]].
    rewrite forallb_forall in ALL, CPb. pose proof (ALL _ Ioc) as CA. pose proof (CPb _ Ioc) as Poc.
    unfold cand_plain in Poc. apply andb_true_iff in Poc as [Poc _]. apply andb_true_iff in Poc as [Foc Uoc].
    apply negb_true_iff in Foc. apply negb_true_iff in Uoc.
    rewrite compat_eq in CA. unfold compat1 in CA. cbn [mods_of] in CA.
    apply andb_true_iff in CA as [_ CA]. apply andb_true_iff in CA as [NOc EX].
    assert (EX' : existsb (fun c => compat q c oc) cs = true) by (destruct oc; try discriminate; exact EX).
    eapply sound_union_recv with (b := oc); eauto.
    rewrite unfreeze_id; auto.
  - destruct v; simpl in T; try discriminate; try congruence.
    unfold conforms in C. rewrite apply_eq in C. unfold pipeline in C. cbn [mods_of] in C. rewrite Fb in C.
    destruct (noneable mb) eqn:N; [|discriminate].
    apply accepts_none; auto. eapply none_ok_use; eauto.
Qed.

(* ------------------------------------------------------------------------------------------ *)
(** * The theorem (the proof of [compat_sound_avoiding] plus the Union case) *)

Definition sound_for_union (q : quirks) (a : spec) : Prop :=
  forall b, wf a -> wf b -> keys_ok b = true -> sizes_ok b = true -> union_plain b = true ->
  compat q a b = true ->
  forall v, total v = true -> conforms b v -> accepts a v.

Theorem compat_sound_union : forall q a, union_safe a = true -> avoids q a = true -> sound_for_union q a.
Proof.
  intros q.
  induction a using spec_ind'; intros NU AV b Wa Wb KB SB UB CP v TV C;
    rewrite compat_eq in CP; unfold compat1 in CP; cbn [mods_of] in CP;
    apply andb_true_iff in CP as [FO CP];
    (destruct (frozen m) eqn:Fa;
     [ match goal with AV0 : avoids q ?aa = true |- _ =>
         pose proof (avoids_frozen q aa AV0 Fa) as Q2 end;
       destruct (frozen_ok_true _ _ _ Q2 Fa FO) as [Fb E];
       eapply sound_frozen_receiver; eauto
     | pose proof (conforms_unfreeze _ _ Wb TV C) as C';
       pose proof (total_not_missing _ TV) as NM ]);
    simpl in AV; apply andb_true_iff in AV as [_ AV].
  - (* Bool *)
    destruct b; try discriminate.
    eapply sound_leaf with (b := SBool m0); eauto;
      try (intros v1 B; inv B; reflexivity); try (intros _; eexists; reflexivity).
  - (* Int *)
    destruct b; try discriminate. bsplit.
    eapply sound_leaf with (b := SInt lo0 hi0 m0); eauto.
    + intros v1 B. symmetry. eapply validate_num_same; eauto.
    + intros B. cbn [apply_body] in *. destruct (validate_num_ok _ _ _ B) as [x [N I]].
      exists v. unfold validate_num. rewrite N. erewrite in_range_compat64; eauto.
  - (* Float *)
    destruct b; try discriminate. bsplit.
    eapply sound_leaf with (b := SFloat lo0 hi0 m0); eauto.
    + intros v1 B. symmetry. eapply validate_num_same; eauto.
    + intros B. cbn [apply_body] in *. destruct (validate_num_ok _ _ _ B) as [x [N I]].
      exists v. unfold validate_num. rewrite N. erewrite in_range_compat; eauto.
  - (* Str *)
    destruct b; try discriminate.
    eapply sound_leaf with (b := SStr m0); eauto;
      try (intros v1 B; inv B; reflexivity); try (intros _; eexists; reflexivity).
  - (* Enum: only when both Enum flags are off *)
    apply andb_true_iff in AV as [Q3 Q4].
    apply negb_true_iff in Q3. apply negb_true_iff in Q4.
    apply orb_true_iff in CP as [SC|CP].
    + bsplit. rewrite Q3, orb_false_l in H0.
      rewrite (conforms_frozen _ _ H C).
      destruct (apply false (SEnum vs m) (dflt (mods_of b))) eqn:A; [|discriminate].
      eexists; eauto.
    + destruct b; try discriminate. bsplit. eapply sound_enum_enum; eauto.
  - (* List *)
    destruct b; try discriminate. bsplit.
    simpl in NU, KB, SB, UB. apply andb_true_iff in SB as [SB1 SB2].
    assert (MN : negb (mn >? mn0) = true).
    { destruct (q_list_min q); simpl in *; auto. lia. }
    eapply sound_list; eauto.
    intros x Tx Cx. apply (IHa NU ltac:(assumption) b); eauto using wf_list.
  - (* Tuple *)
    destruct b; try discriminate. apply andb_true_iff in CP as [NO CP].
    simpl in NU, KB, SB, UB. apply andb_true_iff in SB as [_ SB].
    rewrite forallb_forall in NU, KB, SB, AV, UB.
    pose proof (wf_tuple _ _ _ _ Wa) as Wes. pose proof (wf_tuple _ _ _ _ Wb) as Woes.
    rewrite Forall_forall in *.
    eapply sound_tuple; eauto.
    intros e He oe Hoe CPe x Tx Cx. apply (H e He (NU e He) (AV e He) oe); auto.
  - (* schema-less Dict *)
    destruct b; try discriminate. bsplit. eapply sound_dict_none; eauto.
  - (* Dict with a schema *)
    destruct b; try discriminate. apply andb_true_iff in CP as [NO CP].
    destruct schema as [ofs|]; [|discriminate].
    simpl in NU, KB, SB, UB. apply andb_true_iff in KB as [KD KB]. rewrite forallb_forall in NU, KB, SB, AV, UB.
    pose proof (wf_dict _ _ Wa) as Wfs. pose proof (wf_dict _ _ Wb) as Wofs.
    rewrite Forall_forall in *.
    eapply sound_dict; eauto.
    intros key sa sb Isa Isb Cab x Tx Cx.
    apply (H _ Isa (NU _ Isa) (AV _ Isa) sb); auto;
      first [apply (Wfs _ Isa) | apply (Wofs _ Isb) | apply (KB _ Isb) | apply (SB _ Isb) | apply (UB _ Isb)].
  - (* Object *)
    destruct b; try discriminate. bsplit. eapply sound_obj; eauto.
  - (* Union with a safe dispatch *)
    simpl in NU. apply andb_true_iff in NU as [NU USc]. apply andb_true_iff in NU as [CS PU].
    apply andb_true_iff in CP as [NO CP].
    rewrite forallb_forall in USc, AV. pose proof (wf_union _ _ Wa) as Wcs. rewrite Forall_forall in H, Wcs.
    destruct b.
    all: try (eapply sound_union_recv; eauto;
              intros cc Ic Cc; exact (H cc Ic (USc cc Ic) (AV cc Ic) _ (Wcs cc Ic) Wb KB SB UB Cc v TV C); fail).
    (* a Union sender: its typed values are values of one of its candidates *)
    simpl in UB, KB, SB. apply andb_true_iff in UB as [CPb UB].
    rewrite forallb_forall in UB, KB, SB. pose proof (wf_union _ _ Wb) as Wocs. rewrite Forall_forall in Wocs.
    cbn [unfreeze with_mods mods_of] in C'.
    eapply sound_union_sender with (ocs := cs0) (mb := Mods (noneable m0) (default m0) false); eauto.
    intros c oc Ic Ioc Cc Coc.
    exact (H c Ic (USc c Ic) (AV c Ic) oc (Wcs c Ic) (Wocs oc Ioc) (KB oc Ioc) (SB oc Ioc) (UB oc Ioc) Cc v TV Coc).
  - (* Any *)
    destruct Wa as [_ N]. eapply sound_any; eauto.
Qed.

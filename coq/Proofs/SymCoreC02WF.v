(* SymCoreC02WF.v -- the operations the C02 extension adds keep the forest well-formed (the C01 invariant), and the
   step-level refinement / histories over op2 (base catalogue + slice assignment + slice deletion). *)
From Coq Require Import ZArith NArith List Bool Lia Permutation.
Import ListNotations.
From PG Require Import Common.Tactics Model.SymCoreDefs Model.SymCoreOps Model.SymCoreSpec Model.SymCoreC02
     Proofs.SymCoreBase Proofs.SymCoreWF Proofs.SymCoreWFOps Proofs.SymCoreClone Proofs.SymCoreIds Proofs.SymCoreC08 Proofs.SymCoreC02Read
     Proofs.SymCoreC02Frame Proofs.SymCoreC02Prim Proofs.SymCoreC02List Proofs.SymCoreC02Items Proofs.SymCoreC02Dict Proofs.SymCoreC02Step
     Proofs.PyListFacts Proofs.SymCoreC02Slice.
From PG Require Model.PyList Model.PyDict.
Local Open Scope Z_scope.

Lemma write_loop_wfs : forall q sc ivs st ps upd st' u e,
  wfs st -> Forall (fun iv => rv_ok (snd iv)) ivs -> write_loop q sc st ps ivs upd = (st', u, e) -> wfs st'.
Proof.
  induction ivs as [|[i rv] ivs IH]; simpl; intros st ps upd st' u e W F E.
  - inv E; auto.
  - inv F. destruct (lprim q sc st ps (KI i) rv) as [st1 p] eqn:L.
    pose proof (lprim_wfs _ _ _ _ _ _ _ _ W H1 L) as W1.
    destruct p; eauto. inv E; auto.
Qed.
Lemma slice_writes_ok : forall rvs s e, Forall rv_ok rvs -> Forall (fun iv : Z * rvalue => rv_ok (snd iv)) (slice_writes s e rvs).
Proof.
  induction rvs; simpl; intros; auto. inv H. constructor; auto. simpl. destruct (s >=? e); simpl; auto.
Qed.
Lemma ldel_many_wfs : forall st ps f st' b tid pa pt fl its,
  wfs st -> get_at st ps = Some (Node tid KList pa pt fl its) -> ldel_many st ps f = (st', b) -> wfs st'.
Proof.
  intros st ps f st' b tid pa pt fl its W G E. unfold ldel_many in E.
  destruct (cur_items_facts _ _ _ _ _ _ _ _ G) as (E1 & E2 & _). rewrite E1, E2 in E. clear E1 E2.
  destruct (container_facts _ _ _ _ _ _ _ _ W G) as (Ept & K & F).
  destruct (PyList.filter_pos f 0 its) as [|g gone] eqn:GN.
  - inv E; auto.
  - injection E as E1 E2. subst st' b.
    assert (WA : Forall (fun kv : key * node => exists ep pt0, wf_node ep pt0 (snd kv)) (g :: gone)).
    { rewrite <- GN. apply filter_pos_forall. apply (children_wf_any tid pt); auto. }
    assert (WU : wfs (update_at st ps (set_items (renum pt (PyList.filter_pos (fun i => negb (f i)) 0 its))))).
    { eapply wfs_replace_items; [exact W | exact W | exact G | auto | | ].
      * simpl. apply renum_keys.
      * apply renum_wf. apply child_wf_any_of. apply filter_pos_forall; auto. }
    exact (detach_all_wfs (g :: gone) _ WU WA).
Qed.

(* --- node ids stay pairwise distinct (the other half of C01's invariant) under the operations of the extension ------------------------ *)
Lemma write_loop_rel : forall q sc ivs st ps upd st' u e,
  WFI st -> Forall (fun iv => rv_ok (snd iv)) ivs -> write_loop q sc st ps ivs upd = (st', u, e) -> ids_rel st st'.
Proof.
  induction ivs as [|[i rv] ivs IH]; simpl; intros st ps upd st' u e W F E.
  - inv E. apply ids_rel_refl.
  - inv F. destruct (lprim q sc st ps (KI i) rv) as [st1 p] eqn:L.
    pose proof (lprim_ids _ _ _ _ _ _ _ _ W H1 L) as R1.
    pose proof (lprim_WFI _ _ _ _ _ _ _ _ W H1 L) as W1.
    destruct p; [eapply ids_rel_trans; [exact R1|eapply IH; eauto] | eapply ids_rel_trans; [exact R1|eapply IH; eauto] | inv E; auto].
Qed.
Lemma filter_pos_partition_ids : forall f (its : list (key * node)) i,
  Permutation (ids_items (PyList.filter_pos (fun j => negb (f j)) i its) ++ ids_items (PyList.filter_pos f i its)) (ids_items its).
Proof.
  induction its as [|[k c] its IH]; simpl; intros. constructor.
  specialize (IH (i + 1)). destruct (f i); simpl; rewrite ?ids_items_cons; perm.
Qed.
Lemma ldel_many_rel : forall st ps f st' b tid tk pa pt fl its,
  get_at st ps = Some (Node tid tk pa pt fl its) -> ldel_many st ps f = (st', b) -> ids_rel st st'.
Proof.
  intros st ps f st' b tid tk pa pt fl its G E. unfold ldel_many in E.
  destruct (cur_items_facts _ _ _ _ _ _ _ _ G) as (E1 & E2 & _). rewrite E1, E2 in E. clear E1 E2.
  destruct (PyList.filter_pos f 0 its) as [|g gone] eqn:GN.
  - inv E. apply ids_rel_refl.
  - injection E as E1 E2. subst st' b.
    change (detach_all (add_detached (update_at st ps (set_items (renum pt (PyList.filter_pos (fun i => negb (f i)) 0 its)))) (snd g)) gone)
      with (detach_all (update_at st ps (set_items (renum pt (PyList.filter_pos (fun i => negb (f i)) 0 its)))) (g :: gone)) || idtac.
    apply ids_rel_same.
    + rewrite (next_detach_all (g :: gone)). apply next_update_at.
    + eapply perm_trans. apply (detach_all_ids (g :: gone)).
      pose proof (replace_items_ids st st ps tid tk pa pt fl its (renum pt (PyList.filter_pos (fun i => negb (f i)) 0 its))
                    (Leaf LNone) [] (ids_items (g :: gone)) G eq_refl) as X.
      cbn [ids] in X. rewrite !app_nil_r in X. apply X; auto.
      rewrite ids_items_renum, <- GN. apply filter_pos_partition_ids.
Qed.

Lemma exec_x_rel : forall q sc st ps tid pa pt fl its rx st' out,
  WFI st -> get_at st ps = Some (Node tid KList pa pt fl its) ->
  (match rx with LSetSlice _ _ _ vs => Forall rv_ok vs | LDelSlice _ _ _ => True | _ => False end) ->
  exec_x q sc st ps fl its rx = (st', out) -> ids_rel st st'.
Proof.
  intros q sc st ps tid pa pt fl its rx st' out W G OK E.
  destruct rx; try contradiction; unfold exec_x in E;
    destruct (treats_as_sealed sc fl); try (inv E; apply ids_rel_refl);
    destruct (negb (writable_via_accessors sc fl)); try (inv E; apply ids_rel_refl);
    destruct (PyList.slice_indices a b c (zlen its)) as [[[start stop] step]|]; try (inv E; apply ids_rel_refl).
  - destruct (step =? 1).
    + destruct (write_loop q sc st ps (slice_writes start (Z.max start stop) vs) false) as [[st1 upd] err] eqn:WL.
      pose proof (write_loop_rel _ _ _ _ _ _ _ _ _ W (slice_writes_ok _ _ _ OK) WL) as R1.
      destruct err; [inv E; auto|].
      destruct (ldel_many st1 ps (fun i => (start + zlen vs <=? i) && (i <? Z.max start stop))) as [st2 del] eqn:DM.
      assert (R2 : ids_rel st1 st2).
      { unfold ldel_many in DM. destruct (get_at st1 ps) as [[l|tid1 k1 pa1 pt1 fl1 its1]|] eqn:G1.
        - unfold cur_items in DM. rewrite G1 in DM. simpl in DM. inv DM. apply ids_rel_refl.
        - fold (ldel_many st1 ps (fun i => (start + zlen vs <=? i) && (i <? Z.max start stop))) in DM. eapply ldel_many_rel; eauto.
        - unfold cur_items in DM. rewrite G1 in DM. simpl in DM. inv DM. apply ids_rel_refl. }
      inv E. destruct ((upd || del) && notify_on sc).
      * eapply ids_rel_trans; [exact R1|]. eapply ids_rel_trans; [exact R2|apply fix_chain_rel].
      * eapply ids_rel_trans; eauto.
    + destruct (negb (Nat.eqb (length (PyList.slice_range start stop step)) (length vs))); [inv E; apply ids_rel_refl|].
      match type of E with context [write_loop ?a ?b ?c ?d ?e ?f] => destruct (write_loop a b c d e f) as [[st1 upd] err] eqn:WL end.
      assert (R1 : ids_rel st st1).
      { eapply write_loop_rel; [exact W| |exact WL].
        assert (Forall (fun iv : Z * rvalue => rv_ok (snd iv)) (PyList.zip (PyList.slice_range start stop step) vs)).
        { generalize (PyList.slice_range start stop step). clear - OK. induction vs; destruct l; simpl; auto. inv OK. constructor; auto. }
        destruct (step <? 0); auto. apply Forall_rev; auto. }
      destruct err; inv E; auto. destruct (upd && notify_on sc); auto.
      eapply ids_rel_trans; [exact R1|apply fix_chain_rel].
  - destruct (ldel_many st ps (fun i => PyList.zmem i (PyList.slice_range start stop step))) as [st1 del] eqn:DM.
    pose proof (ldel_many_rel _ _ _ _ _ _ _ _ _ _ _ G DM) as R1.
    inv E. destruct (del && notify_on sc); auto. eapply ids_rel_trans; [exact R1|apply fix_chain_rel].
Qed.

Section StepX.
Variables (q : quirks) (ps : pos) (tid : N) (pa : option N) (fl : flags).
Hypothesis NQ : no_quirks q.

(* the Python call of an operation of the extension *)
Definition vxlop_of (x : xop value) : option (PyList.lop pv) :=
  match x with
  | LSetSlice a b c vs => Some (PyList.PLSetSlice a b c (map pval vs))
  | LDelSlice a b c => Some (PyList.PLDelSlice a b c)
  | _ => None
  end.
Definition vplain_xop (x : xop value) : bool :=
  match x with LSetSlice _ _ _ vs => forallb vplain vs | LDelSlice _ _ _ => true | _ => false end.
Lemma resolve_xlop : forall st x lo, vplain_xop x = true -> vxlop_of x = Some lo ->
  exists rx, resolve_xop st x = Some rx /\ plain_xop rx /\ xlop_of rx = Some lo /\ xkind_ok KList rx = true /\ is_result_xop rx = false.
Proof.
  intros st x lo P L. destruct x; simpl in P, L; try discriminate; inv L.
  - destruct (resolve_all_plain st vs P) as (rvs & R & PR & E). exists (LSetSlice a b c rvs). simpl. rewrite R. simpl. rewrite E. auto.
  - eexists; split; [reflexivity|]; simpl; auto.
Qed.

(* one step of the extension on a list *)
Theorem step_x_list_refines : forall st its sc x lo,
  WFI st -> at_is st ps tid KList pa fl its -> clean its -> anc_clean st ps -> permits sc fl ->
  vplain_xop x = true -> vxlop_of x = Some lo ->
  WFI (fst (step2 q st (Ext sc ps x))) /\
  exists its',
    at_is (fst (step2 q st (Ext sc ps x))) ps tid KList pa fl its' /\ clean its' /\ anc_clean (fst (step2 q st (Ext sc ps x))) ps /\
    evals its' = PyList.lstate pv_pyeq (evals its) lo /\
    out_class (snd (step2 q st (Ext sc ps x))) (py_lstep (evals its) lo).
Proof.
  intros st its sc x lo W R C A PM P L.
  destruct (resolve_xlop st x lo P L) as (rx & RX & PL & LO & KO & NR).
  assert (KO' : xkind_ok KList x = true) by (destruct x; simpl in *; try discriminate; auto).
  assert (SX : step_x q st sc ps x =
               (gc (length (roots st)) (next_id st) (is_result_xop rx) (fst (exec_x q sc st ps fl its rx)),
                snd (exec_x q sc st ps fl its rx))).
  { unfold step_x. unfold at_is in R. rewrite R. rewrite KO', RX. cbn [negb].
    destruct (exec_x q sc st ps fl its rx); reflexivity. }
  unfold step2. rewrite SX.
  destruct (exec_x q sc st ps fl its rx) as [st1 out] eqn:E. cbn [fst snd].
  pose proof (exec_x_list_refines q sc ps tid pa fl st its rx lo st1 out (proj1 W) R C A PM PL LO E) as H.
  assert (RL : ids_rel st st1).
  { eapply exec_x_rel; eauto. destruct rx; simpl in *; try discriminate; auto.
    eapply Forall_impl; [|exact PL]. apply plain_rv_ok. }
  pose proof (get_at_lt _ _ _ R) as LT.
  unfold PyList.lstate. fold (py_lstep (evals its) lo).
  destruct (py_lstep (evals its) lo) as [[l' ret]|e].
  - destruct H as [(its' & R' & C' & E' & K' & A' & W') RA].
    split. { eapply WFI_step; [exact W|apply gc_wfs; auto|]. eapply ids_rel_trans; [exact RL|apply gc_rel]. }
    exists its'. repeat split; auto.
    + apply get_at_gc; auto.
    + eapply anc_clean_gc; eauto.
    + destruct out; simpl; auto. destruct ret; simpl in RA; try contradiction; try discriminate;
        repeat match goal with H : exists _, _ |- _ => destruct H end; intuition discriminate.
  - destruct H as [ES EO]. subst. rewrite NR, gc_same. split; auto.
    exists its. repeat split; auto.
Qed.
End StepX.

(* --- histories over the whole list API: the base catalogue and the slice operations ------------------------------------------------- *)
Inductive hop : Type := HB (o : op value) | HX (x : xop value).
Definition hop2 (sc : scope) (ps : pos) (h : hop) : op2 :=
  match h with HB o => Base (mkSop sc ps o) | HX x => Ext sc ps x end.
Definition hlop_of (h : hop) : option (PyList.lop pv) := match h with HB o => vlop_of o | HX x => vxlop_of x end.
Definition hplain (h : hop) : bool := match h with HB o => vplain_lop o | HX x => vplain_xop x end.
Fixpoint lhist2_ok (fl : flags) (l : list pv) (h : list (scope * hop)) : Prop :=
  match h with
  | [] => True
  | (sc, o) :: h' =>
      permits sc fl /\ hplain o = true /\
      exists lo, hlop_of o = Some lo /\ lhist2_ok fl (PyList.lstate pv_pyeq l lo) h'
  end.
Fixpoint lhist2_py (l : list pv) (h : list (scope * hop)) : list pv :=
  match h with
  | [] => l
  | (_, o) :: h' => match hlop_of o with Some lo => lhist2_py (PyList.lstate pv_pyeq l lo) h' | None => l end
  end.
Definition on_pos2 (ps : pos) (h : list (scope * hop)) : list op2 := map (fun so => hop2 (fst so) ps (snd so)) h.

Section History2.
Variables (q : quirks) (ps : pos) (tid : N) (pa : option N) (fl : flags).
Hypothesis NQ : no_quirks q.

Theorem history2_list_refines : forall h st its,
  WFI st -> at_is st ps tid KList pa fl its -> clean its -> anc_clean st ps -> lhist2_ok fl (evals its) h ->
  exists its', at_is (run_ops2 q st (on_pos2 ps h)) ps tid KList pa fl its' /\ clean its' /\ anc_clean (run_ops2 q st (on_pos2 ps h)) ps /\
               WFI (run_ops2 q st (on_pos2 ps h)) /\ evals its' = lhist2_py (evals its) h.
Proof.
  induction h as [|[sc o] h IH]; intros st its W R C A OK; simpl in *.
  - exists its; auto.
  - destruct OK as (PM & P & lo & L & OK'). rewrite L.
    assert (S1 : WFI (fst (step2 q st (hop2 sc ps o))) /\
                 exists its1, at_is (fst (step2 q st (hop2 sc ps o))) ps tid KList pa fl its1 /\ clean its1 /\
                              anc_clean (fst (step2 q st (hop2 sc ps o))) ps /\
                              evals its1 = PyList.lstate pv_pyeq (evals its) lo).
    { destruct o as [o|x]; simpl in *.
      - destruct (step_list_refines q ps tid pa fl NQ st its sc o lo W R C A PM P L) as (its1 & R1 & C1 & A1 & E1 & _).
        split; [apply step_WFI; auto|]. exists its1; auto.
      - destruct (step_x_list_refines q ps tid pa fl st its sc x lo W R C A PM P L) as (W1 & its1 & R1 & C1 & A1 & E1 & _).
        split; auto. exists its1; auto. }
    destruct S1 as (W1 & its1 & R1 & C1 & A1 & E1).
    unfold run_ops2 in *.
    rewrite <- E1 in OK'. destruct (IH _ its1 W1 R1 C1 A1 OK') as (its' & R' & C' & A' & W' & E').
    exists its'. split; [auto|split; [auto|split; [auto|split; [auto|rewrite E', E1; reflexivity]]]].
Qed.
Corollary history2_list_erase : forall h st its,
  WFI st -> at_is st ps tid KList pa fl its -> clean its -> anc_clean st ps -> lhist2_ok fl (evals its) h ->
  option_map erase (get_at (run_ops2 q st (on_pos2 ps h)) ps) = Some (plist (lhist2_py (evals its) h)).
Proof.
  intros. destruct (history2_list_refines h st its H H0 H1 H2 H3) as (its' & R' & C' & A' & W' & E').
  rewrite R'. simpl. f_equal. rewrite <- E'. eapply erase_list_at; eauto. apply W'.
Qed.
End History2.

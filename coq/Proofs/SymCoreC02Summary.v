(* SymCoreC02Summary.v -- the conjunctions stated in Properties/C02.v, assembled from the lemmas of the other C02 proof files. *)
From Coq Require Import ZArith NArith List Bool.
From PG Require Import Common.Tactics Model.SymCoreDefs Model.SymCoreOps Model.SymCoreSpec Model.SymCoreC02
     Proofs.SymCoreWF Proofs.SymCoreIds Proofs.SymCoreC02Base Proofs.SymCoreC02Read Proofs.SymCoreC02Frame Proofs.SymCoreC02Prim
     Proofs.SymCoreC02List Proofs.SymCoreC02Dict Proofs.SymCoreC02Step Proofs.SymCoreC02Ext Proofs.PyListFacts
     Proofs.SymCoreC02Slice Proofs.SymCoreC02WF Proofs.SymCoreC02Examples.
From PG Require Model.PyList Model.PyDict.
Import ListNotations.
Local Open Scope Z_scope.

Lemma c02_spec_slice_positions_in_bounds_proof : forall a b c n s e st, 0 <= n -> PyList.slice_indices a b c n = Some (s, e, st) ->
  Forall (fun i => 0 <= i < n) (PyList.slice_range s e st) /\ NoDup (PyList.slice_range s e st).
Proof.
  intros. split. eapply slice_range_bounds; eauto. apply slice_range_nodup. eapply slice_indices_bounds; eauto.
Qed.

Lemma c02_history_list_proof : forall q ps tid pa fl, no_quirks q -> forall h st its,
  WF st -> at_is st ps tid KList pa fl its -> clean its -> anc_clean st ps -> lhist2_ok fl (evals its) h ->
  option_map erase (get_at (run_ops2 q st (on_pos2 ps h)) ps) = Some (plist (lhist2_py (evals its) h)) /\
  WF (run_ops2 q st (on_pos2 ps h)).
Proof.
  intros. apply WF_WFI in H0. split. eapply history2_list_erase; eauto.
  destruct (history2_list_refines q ps tid pa fl H h st its H0 H1 H2 H3 H4) as (? & ? & ? & ? & ? & ?). apply WF_WFI; auto.
Qed.
Lemma c02_history_dict_proof : forall q ps tid pa fl, no_quirks q -> forall h st its,
  wfs st -> at_is st ps tid KDict pa fl its -> clean its -> anc_clean st ps -> dhist_ok fl (eitems its) h ->
  option_map erase (get_at (run_ops q st (on_pos ps h)) ps) = Some (PNode KDict (dhist_py (eitems its) h)) /\
  wfs (run_ops q st (on_pos ps h)).
Proof.
  intros. split. eapply history_dict_erase; eauto.
  destruct (history_dict_refines q ps tid pa fl H h st its H0 H1 H2 H3 H4) as (? & ? & ? & ? & ? & ?); auto.
Qed.

Lemma c02_history_hypotheses_example_proof :
  WF ex_state /\
  (at_is ex_state (0%nat, []) 1%N KList None default_flags ex_list_items /\ clean ex_list_items /\ anc_clean ex_state (0%nat, []) /\
   lhist2_ok default_flags (evals ex_list_items) ex_list_history /\ lhist2_ok default_flags (evals ex_list_items) ex_mul_history) /\
  (at_is ex_state (1%nat, []) 3%N KDict None default_flags ex_dict_items /\ clean ex_dict_items /\ anc_clean ex_state (1%nat, []) /\
   dhist_ok default_flags (eitems ex_dict_items) ex_dict_history) /\
  (at_is ex_state ex_nested_pos 2%N KDict (Some 1%N) default_flags ex_nested_items /\ clean ex_nested_items /\
   anc_clean ex_state ex_nested_pos /\ dhist_ok default_flags (eitems ex_nested_items) ex_nested_history).
Proof.
  split; [apply WF_WFI; exact ex_state_WFI|]. destruct ex_list_hypotheses as (A1 & A2 & A3). destruct ex_dict_hypotheses as (B1 & B2 & B3).
  split; [exact (conj A1 (conj A2 (conj (anc_clean_root _ _) (conj A3 ex_mul_hypotheses))))|].
  split; [exact (conj B1 (conj B2 (conj (anc_clean_root _ _) B3)))|].
  exact ex_nested_hypotheses.
Qed.

Lemma c02_readback_list_proof : forall i0 pa pt fl its,
  let n := Node i0 KList pa pt fl its in
  r_len n = PyList.len (evals its) /\
  (forall i, py_lstep (evals its) (PyList.PLGet i) =
             match r_getitem n i with Some c => inl (evals its, PyList.LrVal (erase c)) | None => inr PyList.PyIndexError end) /\
  (forall a b c, py_lstep (evals its) (PyList.PLGetSlice a b c) =
                 match r_getslice n a b c with Some cs => inl (evals its, PyList.LrList (map erase cs)) | None => inr PyList.PyValueError end) /\
  (forall x, py_lstep (evals its) (PyList.PLContains x) = inl (evals its, PyList.LrBool (r_contains n x))) /\
  (forall x, py_lstep (evals its) (PyList.PLIndex x) =
             match r_find x its 0 with Some p => inl (evals its, PyList.LrInt (Z.of_nat p)) | None => inr PyList.PyValueError end) /\
  (forall x, py_lstep (evals its) (PyList.PLCount x) = inl (evals its, PyList.LrInt (r_count n x))) /\
  (forall o, py_lstep (evals its) (PyList.PLEq o) = inl (evals its, PyList.LrBool (node_pyeq n (plist o)))) /\
  pvals (erase n) = evals its.
Proof.
  intros. repeat split.
  - apply read_len. - apply read_getitem. - apply read_getslice. - apply read_contains. - apply read_index.
  - apply read_count. - apply read_list_eq. - apply pvals_eitems.
Qed.
Lemma c02_readback_dict_proof : forall i0 pa pt fl its,
  let n := Node i0 KDict pa pt fl its in
  py_dstep (eitems its) PyDict.PDLen = inl (eitems its, PyDict.DrInt (r_len n)) /\
  py_dstep (eitems its) PyDict.PDKeys = inl (eitems its, PyDict.DrKeys (r_keys n)) /\
  (forall k, py_dstep (eitems its) (PyDict.PDGet k) =
             match r_dget n k with Some c => inl (eitems its, PyDict.DrVal (erase c)) | None => inr PyList.PyKeyError end) /\
  (forall k, py_dstep (eitems its) (PyDict.PDContains k) = inl (eitems its, PyDict.DrBool (has_key k its))) /\
  py_dstep (eitems its) PyDict.PDItems = inl (eitems its, PyDict.DrDict (pitems (erase n))) /\
  (forall o, py_dstep (eitems its) (PyDict.PDEq o) = inl (eitems its, PyDict.DrBool (node_pyeq n (PNode KDict o)))).
Proof.
  intros. repeat split.
  - apply read_dict_len. - apply read_dict_keys. - apply read_dict_get. - apply read_dict_contains. - apply read_dict_eq.
Qed.

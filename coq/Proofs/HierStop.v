(* HierStop.v — utils.traverse with arbitrary visitors: the log is the full pre/post-order log cut after the first
   visitor call that returns False, and the result says whether there was none. *)
From PG Require Import Common.Tactics Model.KeyPath Model.Hier Proofs.KeyPathArith Proofs.HierTraverse Proofs.HierFlatten.
Local Open Scope Z_scope.

Section Stop.
  Variable pre post : list key -> pv -> bool.

  Definition ok_ev (e : ev) : bool := match e with EPre p x => pre p x | EPost p x => post p x end.

  (* keep the events up to and including the first one the visitor rejects *)
  Fixpoint cut_at (l : list ev) : list ev :=
    match l with [] => [] | e :: r => if ok_ev e then e :: cut_at r else [e] end.

  Lemma cut_at_app : forall a b, cut_at (a ++ b) = if forallb ok_ev a then a ++ cut_at b else cut_at a.
  Proof.
    induction a as [| e r IH]; intros b; [reflexivity |]. cbn [app cut_at forallb].
    destruct (ok_ev e); cbn [andb]; [| reflexivity]. rewrite IH. destruct (forallb ok_ev r); reflexivity.
  Qed.

  Lemma cut_at_all : forall l, forallb ok_ev l = true -> cut_at l = l.
  Proof.
    induction l as [| e r IH]; intros H; [reflexivity |]. cbn in *. apply andb_true_iff in H as [H1 H2].
    rewrite H1, IH; auto.
  Qed.

  Definition full (v : pv) (path : list key) : list ev := fst (trav TT TT v path).

  Definition stops_right (f : pv -> list key -> list ev * bool) (v : pv) : Prop :=
    forall path, fst (f v path) = cut_at (full v path) /\ snd (f v path) = forallb ok_ev (full v path).

  Lemma full_ok : forall v path, snd (trav TT TT v path) = true.
  Proof. intros. apply trav_leaves. Qed.

  Lemma go_dict_stop : forall f path kvs, Forall (fun kv => stops_right f (snd kv)) kvs ->
    fst (go_dict f path kvs) = cut_at (fst (go_dict (trav TT TT) path kvs)) /\
    snd (go_dict f path kvs) = forallb ok_ev (fst (go_dict (trav TT TT) path kvs)) /\
    snd (go_dict (trav TT TT) path kvs) = true.
  Proof.
    intros f path kvs H. induction H as [| [k c] r Hc _ IH]; cbn [go_dict]; [auto |].
    destruct (Hc (path ++ [k])) as [A B]. cbn [snd] in A, B. unfold full in A, B.
    pose proof (full_ok c (path ++ [k])) as T.
    destruct (trav TT TT c (path ++ [k])) as [flg fok]. cbn [fst snd] in *. subst fok.
    destruct IH as (C & D0 & E). destruct (go_dict (trav TT TT) path r) as [flg2 fok2]. cbn [fst snd] in *. subst fok2.
    destruct (f c (path ++ [k])) as [lg ok]. cbn [fst snd] in *. subst lg ok.
    rewrite cut_at_app, forallb_app. destruct (forallb ok_ev flg) eqn:F.
    - destruct (go_dict f path r) as [lg2 ok2]. cbn [fst snd] in *. subst. rewrite (cut_at_all flg F). auto.
    - cbn. auto.
  Qed.

  Lemma go_list_stop : forall f path l i, Forall (stops_right f) l ->
    fst (go_list f path l i) = cut_at (fst (go_list (trav TT TT) path l i)) /\
    snd (go_list f path l i) = forallb ok_ev (fst (go_list (trav TT TT) path l i)) /\
    snd (go_list (trav TT TT) path l i) = true.
  Proof.
    intros f path l i H. revert i. induction H as [| c r Hc _ IH]; intros i; cbn [go_list]; [auto |].
    destruct (Hc (path ++ [KInt i])) as [A B]. unfold full in A, B.
    pose proof (full_ok c (path ++ [KInt i])) as T.
    destruct (trav TT TT c (path ++ [KInt i])) as [flg fok]. cbn [fst snd] in *. subst fok.
    destruct (IH (i + 1)) as (C & D0 & E). destruct (go_list (trav TT TT) path r (i + 1)) as [flg2 fok2]. cbn [fst snd] in *. subst fok2.
    destruct (f c (path ++ [KInt i])) as [lg ok]. cbn [fst snd] in *. subst lg ok.
    rewrite cut_at_app, forallb_app. destruct (forallb ok_ev flg) eqn:F.
    - destruct (go_list f path r (i + 1)) as [lg2 ok2]. cbn [fst snd] in *. subst. rewrite (cut_at_all flg F). auto.
    - cbn. auto.
  Qed.

  Lemma kids_stop : forall f v path,
    match v with PList l => Forall (stops_right f) l | PDict kvs => Forall (fun kv => stops_right f (snd kv)) kvs | _ => True end ->
    fst (kids_of f v path) = cut_at (fst (kids_of (trav TT TT) v path)) /\
    snd (kids_of f v path) = forallb ok_ev (fst (kids_of (trav TT TT) v path)) /\
    snd (kids_of (trav TT TT) v path) = true.
  Proof.
    intros f v path H. destruct v; cbn [kids_of]; try (cbn; auto).
    - apply go_list_stop. assumption.
    - apply go_dict_stop. assumption.
  Qed.

  Theorem trav_stops_right : forall v, stops_right (trav pre post) v.
  Proof.
    apply pv_ind'; intros; intro path; unfold full; rewrite !trav_unfold;
      change (negb (TT path _)) with false; cbv iota;
      match goal with |- context [kids_of (trav pre post) ?v ?p] => destruct (kids_stop (trav pre post) v p) as (A & B & C); [try exact I; assumption |] end;
      destruct (kids_of (trav TT TT) _ path) as [kf kfok]; cbn [fst snd] in *; subst kfok;
      destruct (kids_of (trav pre post) _ path) as [lg ok]; cbn [fst snd] in *; subst lg ok;
      change (TT path _) with true; cbn [fst snd cut_at forallb ok_ev];
      (destruct (pre path _); cbn [negb andb]; [| auto]);
      (destruct (forallb ok_ev kf) eqn:F; cbn [fst snd];
        [ rewrite cut_at_app, F, forallb_app, F; cbn [cut_at forallb ok_ev andb];
          rewrite (cut_at_all kf F); destruct (post path _); auto
        | rewrite cut_at_app, F, forallb_app, F; auto ]).
  Qed.
End Stop.

(* stated without the section variables *)
Theorem traverse_early_stop : forall pre post v path,
  fst (trav pre post v path) = cut_at pre post (fst (trav TT TT v path)) /\
  snd (trav pre post v path) = forallb (ok_ev pre post) (fst (trav TT TT v path)).
Proof. intros. apply (trav_stops_right pre post v path). Qed.

(* ---- pg.traverse with arbitrary visitors: it returns False exactly when some visitor call answered STOP, and every
        logged visit is a node of the value under its canonical path --------------------------------------------------------- *)
Section Actions.
  Variable pre post : list key -> pv -> action.

  Definition stop_ev (e : ev) : bool := match e with EPre p x => is_stop (pre p x) | EPost p x => is_stop (post p x) end.

  Definition acts_right (f : pv -> list key -> list ev * bool) (v : pv) : Prop :=
    forall path, snd (f v path) = negb (existsb stop_ev (fst (f v path))) /\ incl (pres (fst (f v path))) (nodes v path).

  Lemma go_dict_acts : forall f path kvs, Forall (fun kv => acts_right f (snd kv)) kvs ->
    snd (go_dict f path kvs) = negb (existsb stop_ev (fst (go_dict f path kvs))) /\
    incl (pres (fst (go_dict f path kvs))) (nodes_dict nodes path kvs).
  Proof.
    intros f path kvs H. induction H as [| [k c] r Hc _ IH]; cbn [go_dict nodes_dict]; [split; [reflexivity | intros x []] |].
    destruct (Hc (path ++ [k])) as [A B]. cbn [snd] in A, B.
    destruct (f c (path ++ [k])) as [lg ok]. cbn [fst snd] in *. destruct ok.
    - destruct IH as [C D0]. destruct (go_dict f path r) as [lg2 ok2]. cbn [fst snd] in *.
      rewrite existsb_app, pres_app. symmetry in A. apply negb_true_iff in A. rewrite A. cbn [orb]. split; [exact C |].
      apply incl_app; [apply incl_appl | apply incl_appr]; assumption.
    - cbn [fst snd]. split; [exact A | apply incl_appl; assumption].
  Qed.

  Lemma go_list_acts : forall f path l i, Forall (acts_right f) l ->
    snd (go_list f path l i) = negb (existsb stop_ev (fst (go_list f path l i))) /\
    incl (pres (fst (go_list f path l i))) (nodes_list nodes path l i).
  Proof.
    intros f path l i H. revert i. induction H as [| c r Hc _ IH]; intros i; cbn [go_list nodes_list]; [split; [reflexivity | intros x []] |].
    destruct (Hc (path ++ [KInt i])) as [A B].
    destruct (f c (path ++ [KInt i])) as [lg ok]. cbn [fst snd] in *. destruct ok.
    - destruct (IH (i + 1)) as [C D0]. destruct (go_list f path r (i + 1)) as [lg2 ok2]. cbn [fst snd] in *.
      rewrite existsb_app, pres_app. symmetry in A. apply negb_true_iff in A. rewrite A. cbn [orb]. split; [exact C |].
      apply incl_app; [apply incl_appl | apply incl_appr]; assumption.
    - cbn [fst snd]. split; [exact A | apply incl_appl; assumption].
  Qed.

  Ltac fin_bool := repeat match goal with |- context [is_stop (post ?p ?x)] => destruct (is_stop (post p x)) end; reflexivity.

  Theorem strav_acts_right : forall v, acts_right (strav pre post) v.
  Proof.
    apply pv_ind'; intros; intro path; rewrite strav_unfold; cbv zeta.
    1-3: (destruct (pre path _) eqn:Pa; cbn [fst snd existsb stop_ev app pres flat_map kids_of]; rewrite ?Pa; cbn [is_stop orb negb];
          (split; [fin_bool | cbn; intros x [<- | []]; left; reflexivity])).
    - rewrite nodes_list_eq. destruct (pre path (PList l)) eqn:Pa; cbn [kids_of].
      1,3: (cbn [fst snd existsb stop_ev app pres flat_map]; rewrite ?Pa; cbn [is_stop orb negb];
            (split; [fin_bool | cbn; intros x [<- | []]; left; reflexivity])).
      destruct (go_list_acts (strav pre post) path l 0 H) as [A B].
      destruct (go_list (strav pre post) path l 0) as [lg ok]. cbn [fst snd] in *. split.
      + cbn [existsb stop_ev]. rewrite Pa. cbn [is_stop orb]. rewrite existsb_app. cbn [existsb stop_ev]. rewrite A.
        destruct (existsb stop_ev lg), (is_stop (post path (PList l))); reflexivity.
      + change (EPre path (PList l) :: lg ++ [EPost path (PList l)]) with ([EPre path (PList l)] ++ lg ++ [EPost path (PList l)]).
        rewrite !pres_app. cbn [pres flat_map app]. rewrite app_nil_r.
        intros x [<- | Hx]; [left; reflexivity | right; apply B; assumption].
    - rewrite nodes_dict_eq. destruct (pre path (PDict kvs)) eqn:Pa; cbn [kids_of].
      1,3: (cbn [fst snd existsb stop_ev app pres flat_map]; rewrite ?Pa; cbn [is_stop orb negb];
            (split; [fin_bool | cbn; intros x [<- | []]; left; reflexivity])).
      destruct (go_dict_acts (strav pre post) path kvs H) as [A B].
      destruct (go_dict (strav pre post) path kvs) as [lg ok]. cbn [fst snd] in *. split.
      + cbn [existsb stop_ev]. rewrite Pa. cbn [is_stop orb]. rewrite existsb_app. cbn [existsb stop_ev]. rewrite A.
        destruct (existsb stop_ev lg), (is_stop (post path (PDict kvs))); reflexivity.
      + change (EPre path (PDict kvs) :: lg ++ [EPost path (PDict kvs)]) with ([EPre path (PDict kvs)] ++ lg ++ [EPost path (PDict kvs)]).
        rewrite !pres_app. cbn [pres flat_map app]. rewrite app_nil_r.
        intros x [<- | Hx]; [left; reflexivity | right; apply B; assumption].
  Qed.
End Actions.

Theorem pg_traverse_actions : forall pre post v,
  snd (strav pre post v []) = negb (existsb (stop_ev pre post) (fst (strav pre post v []))) /\
  (forall p x, In (p, x) (pres (fst (strav pre post v []))) -> at_path v p x).
Proof.
  intros pre post v. destruct (strav_acts_right pre post v []) as [A B]. split; [exact A |].
  intros p x H. apply B in H. apply nodes_iff in H as (s & -> & Hs). exact Hs.
Qed.

(* SymCoreTypedOps.v — every operation preserves the schema invariant. *)
From Coq Require Import ZArith NArith List Bool.
Import ListNotations.
From PG Require Import Common.Tactics Model.SymCoreDefs Model.SymCoreOps Model.SymCoreTyped.
From PG Require Import Proofs.SymCoreBase Proofs.SymCoreWF Proofs.SymCoreWFOps Proofs.SymCoreClone.
From PG Require Import Proofs.SymCoreTypedBase Proofs.SymCoreTypedConf Proofs.SymCoreTypedCopy Proofs.SymCoreTypedState
                       Proofs.SymCoreTypedLit Proofs.SymCoreTypedPrims.
From PG Require Model.Typing.
Local Open Scope Z_scope.

(* --- where the target of a write is after the write ----------------------------------------------------------------- *)
Lemma get_in_update_in_same : forall p f t c, get_in p t = Some c -> get_in p (update_in p f t) = Some (f c).
Proof.
  induction p as [|k r IH]; intros f t c G; simpl in *; [inv G; auto|].
  destruct t as [l|i kd pa pt fl its]; simpl in *; [discriminate|].
  destruct (assoc k its) as [x|] eqn:A; [|discriminate].
  assert (assoc k (map_assoc k (update_in r f) its) = Some (update_in r f x)).
  { clear G. induction its as [|[k' v] r' IHi]; simpl in *; [discriminate|].
    destruct (key_eqb k k') eqn:E; simpl; rewrite E; auto. inv A. auto. }
  rewrite H. apply IH; auto.
Qed.
Lemma nth_error_set_nth_eq : forall A (l : list A) n x y, nth_error l n = Some y -> nth_error (set_nth n x l) n = Some x.
Proof. induction l; destruct n; simpl; intros; try discriminate; eauto. Qed.
Lemma get_at_update_at_same : forall st ps f c, get_at st ps = Some c -> get_at (update_at st ps f) ps = Some (f c).
Proof.
  intros st ps f c G. unfold get_at, update_at in *. destruct (get_root st (fst ps)) as [t|] eqn:R; [|discriminate].
  unfold get_root, set_root in *. simpl.
  destruct (nth_error (roots st) (fst ps)) as [[x|]|] eqn:E; try discriminate. inv R.
  rewrite (nth_error_set_nth_eq _ _ _ _ _ E). apply get_in_update_in_same; auto.
Qed.
Lemma restore_slot_live : forall i t rs rs' r x, restore_slot i t rs = Some rs' -> nth_error rs r = Some (Live x) -> nth_error rs' r = Some (Live x).
Proof.
  induction rs as [|s rs IH]; intros rs' r x R N; simpl in R; [discriminate|].
  destruct s as [y|j].
  - destruct (restore_slot i t rs) eqn:E; [|discriminate]. inv R. destruct r; simpl in *; auto.
  - destruct (N.eqb i j).
    + inv R. destruct r; simpl in *; auto; discriminate.
    + destruct (restore_slot i t rs) eqn:E; [|discriminate]. inv R. destruct r; simpl in *; auto.
Qed.
Lemma get_root_add_detached : forall st n r x, get_root st r = Some x -> get_root (add_detached st n) r = Some x.
Proof.
  intros st n r x G. unfold add_detached. destruct n as [l|i k pa pt fl its]; auto.
  unfold get_root in *. destruct (nth_error (roots st) r) as [[y|]|] eqn:E; try discriminate. inv G.
  destruct (restore_slot i (detach (Node i k pa pt fl its)) (roots st)) eqn:R; simpl.
  - rewrite (restore_slot_live _ _ _ _ _ _ R E). auto.
  - rewrite nth_error_app1; [rewrite E; auto|]. apply nth_error_Some. congruence.
Qed.
Lemma get_at_add_detached : forall st n ps x, get_at st ps = Some x -> get_at (add_detached st n) ps = Some x.
Proof.
  intros st n ps x G. unfold get_at in *. destruct (get_root st (fst ps)) as [t|] eqn:R; [|discriminate].
  rewrite (get_root_add_detached _ n _ _ R). auto.
Qed.


Section Ops.
Variable ev : env.
Variable P : bool.
Notation cnode := (cnode ev P).
Notation node_ok := (node_ok ev P).
Notation Conforms := (Conforms ev P).

(* --- additive measures of a list survive sorting / reversing --------------------------------------------------------- *)
Section Sum.
  Context {A : Type} (g : A -> Z).
  Fixpoint lsum (l : list A) : Z := match l with [] => 0 | x :: r => g x + lsum r end.
  Lemma lsum_app : forall a b, lsum (a ++ b) = lsum a + lsum b.
  Proof. induction a; cbn [app lsum]; intros; auto. rewrite IHa. ring. Qed.
  Lemma lsum_rev : forall l, lsum (rev l) = lsum l.
  Proof. induction l; cbn [rev lsum]; auto. rewrite lsum_app, IHl. cbn [lsum]. ring. Qed.
End Sum.
Lemma lsum_insert_sorted : forall A (g : Z * A -> Z) le x l, lsum g (insert_sorted le x l) = g x + lsum g l.
Proof.
  induction l as [|y r IH]; cbn [insert_sorted lsum]; [reflexivity|].
  destruct (le (fst x) (fst y)); cbn [lsum]; [reflexivity|]. rewrite IH. ring.
Qed.
Lemma lsum_stable_sort : forall A (g : Z * A -> Z) rv l, lsum g (stable_sort rv l) = lsum g l.
Proof. unfold stable_sort. induction l; cbn [fold_right lsum]; auto. rewrite lsum_insert_sorted, IHl. auto. Qed.
Lemma lsum_map_snd : forall A (g : A -> Z) (l : list (Z * A)), lsum g (map snd l) = lsum (fun x => g (snd x)) l.
Proof. induction l; simpl; auto. rewrite IHl. auto. Qed.
Lemma lsum_zip_keys : forall A (g : A -> Z) ks (l : list A), lsum (fun x => g (snd x)) (zip_keys ks l) = lsum g l.
Proof. intros A g ks l. revert ks. induction l; simpl; intros; auto. destruct ks; simpl; rewrite IHl; auto. Qed.
Lemma count_present_lsum : forall l, count_present l = lsum (fun kc => pres1 (snd kc)) l.
Proof. induction l as [|x r IH]; [reflexivity|]. rewrite count_present_cons, IH. reflexivity. Qed.
Lemma zlen_lsum : forall A (l : list A), zlen l = lsum (fun _ => 1) l.
Proof. unfold zlen. induction l; cbn [length lsum]; [reflexivity|]. rewrite Nat2Z.inj_succ, <- IHl. lia. Qed.

(* a list keeps its schema properties when its items are rearranged *)
Lemma node_ok_rearranged : forall fl its its',
  (forall Q : key * node -> Prop, Forall Q its -> Forall Q its') ->
  count_present its' = count_present its -> zlen its' = zlen its ->
  node_ok KList fl its -> node_ok KList fl its'.
Proof.
  intros fl its its' FA CP ZL H. unfold SymCoreTypedConf.node_ok in *.
  destruct (spec_at ev (f_spec fl)) as [sp|]; auto. destruct sp; auto.
  destruct H as (A & B & C). split; [|split].
  - apply FA. exact A.
  - rewrite CP. auto.
  - destruct mx; auto. rewrite ZL. auto.
Qed.
Lemma node_ok_rev : forall fl its, node_ok KList fl its -> node_ok KList fl (rev its).
Proof.
  intros fl its H. apply (node_ok_rearranged fl its (rev its)); [| | |exact H].
  - intros Q F. apply Forall_rev. auto.
  - rewrite !count_present_lsum. apply lsum_rev.
  - rewrite !zlen_lsum. apply lsum_rev.
Qed.
Lemma node_ok_sorted : forall fl rv ks its, node_ok KList fl its -> node_ok KList fl (map snd (stable_sort rv (zip_keys ks its))).
Proof.
  intros fl rv ks its H. apply (node_ok_rearranged fl its (map snd (stable_sort rv (zip_keys ks its)))); [| | |exact H].
  - intros Q F. apply sorted_forall. auto.
  - rewrite !count_present_lsum. set (g := fun kc : key * node => pres1 (snd kc)).
    rewrite (lsum_map_snd _ g), lsum_stable_sort. apply lsum_zip_keys.
  - rewrite !zlen_lsum. set (g := fun _ : key * node => 1).
    rewrite (lsum_map_snd _ g), lsum_stable_sort. apply lsum_zip_keys.
Qed.

(* --- the mutators of SymCoreOps built on the primitives ------------------------------------------------------------------- *)
Lemma ldel_core_conf : forall sc st ps idx tid pa pt fl its,
  Conforms st -> get_at st ps = Some (Node tid KList pa pt fl its) -> node_ok KList fl (remove_nth idx its) ->
  Conforms (fst (ldel_core sc st ps idx)).
Proof.
  intros sc st ps idx tid pa pt fl its C G NO. unfold ldel_core.
  destruct (cur_items_facts _ _ _ _ _ _ _ _ G) as (E1 & E2 & _). rewrite E1, E2.
  destruct (target_children _ _ _ _ _ _ _ _ _ _ C G) as (_ & F).
  destruct (nth_error its idx) as [[k0 old]|] eqn:NE; [|simpl; auto].
  assert (C2 : Conforms (add_detached (update_at st ps (set_items (renum pt (remove_nth idx its)))) old)).
  { apply conforms_add_detached.
    - eapply conforms_replace_items; eauto using roots_kept_refl.
      + apply node_ok_renum. auto.
      + apply Forall_cnode_renum. apply Forall_remove_nth. auto.
    - apply nth_error_In in NE. rewrite Forall_forall in F. exact (F _ NE). }
  simpl. destruct (notify_on sc); auto using fix_chain_conf.
Qed.

Lemma clear_core_conf : forall sc st ps tid tk pa pt fl its,
  Conforms st -> get_at st ps = Some (Node tid tk pa pt fl its) -> node_ok tk fl [] -> Conforms (clear_core sc st ps its).
Proof.
  intros sc st ps tid tk pa pt fl its C G NO.
  destruct (target_children _ _ _ _ _ _ _ _ _ _ C G) as (_ & F).
  assert (Conforms (detach_all (update_at st ps (set_items [])) its)).
  { apply detach_all_conf; auto. eapply conforms_replace_items; eauto using roots_kept_refl. }
  unfold clear_core. destruct its; auto. destruct (notify_on sc); auto using fix_chain_conf.
Qed.
Lemma reorder_core_conf : forall sc st ps tid pa pt fl its its',
  Conforms st -> get_at st ps = Some (Node tid KList pa pt fl its) ->
  node_ok KList fl its' -> Forall (fun kc => cnode (snd kc)) its' ->
  Conforms (reorder_core sc st ps pt its its').
Proof.
  intros sc st ps tid pa pt fl its its' C G NO F.
  assert (Conforms (update_at st ps (set_items (renum pt its')))).
  { eapply conforms_replace_items; eauto using roots_kept_refl.
    - apply node_ok_renum. auto.
    - apply Forall_cnode_renum. auto. }
  unfold reorder_core. destruct (negb (all_same its its') && notify_on sc); auto using fix_chain_conf.
Qed.

Lemma clone_root_conf : forall q deep st tid tk pa pt fl its ps c cs,
  Conforms st -> get_at st ps = Some (Node tid tk pa pt fl its) ->
  clone_at (q_copy_drops_missing q) deep None [] (Node tid tk None [] fl its) (next_id st, []) = (c, cs) ->
  Conforms (add_root (with_next st (fst cs)) c).
Proof.
  intros q deep st tid tk pa pt fl its ps c cs C G CL.
  apply conforms_add_root; [apply conforms_with_next; auto|].
  replace c with (fst (clone_at (q_copy_drops_missing q) deep None [] (Node tid tk None [] fl its) (next_id st, []))) by (rewrite CL; auto).
  apply cnode_clone_at. pose proof (conforms_get_at _ _ _ _ _ C G) as Cn. exact Cn.
Qed.

(* the values of an operation carry no value spec of their own *)
Definition op_free (o : op rvalue) : Prop :=
  match o with
  | LSet _ v | LAppend v | LInsert _ v | DSet _ _ v | DSetDefault _ v | OSet _ v => rv_free v
  | LExtend vs | LIAdd vs | LAdd vs => Forall rv_free vs
  | DUpdate kvs | DIOr kvs => Forall (fun kv => rv_free (snd kv)) kvs
  | Rebind pvs => Forall (fun kv => rv_free (snd kv)) pvs
  | _ => True
  end.
(* operations SymCoreOps.exec is used for (the batches and copies of lists, rebind and update are taken over by exec2) *)
Definition exec_op (o : op rvalue) : bool :=
  match o with
  | LExtend _ | LIAdd _ | LAdd _ | LMul _ | DUpdate _ | DIOr _ | Rebind _ => false
  | LIMul m => m <=? 0
  | _ => true
  end.
(* of these, the ones also used on a target that checks its members (they do not write a value) *)
Definition quiet_op (o : op rvalue) : bool :=
  match o with
  | LClear | LReverse | LSort _ _ | LIMul _ | DCopy | Clone _ | Seal _ | SetAW _ => true
  | _ => false
  end.

Ltac fin E := inv E; auto; try (destruct (notify_on _)); auto using fix_chain_conf, notified_conf.

Lemma exec_conf : forall q sc st ps tid tk pa tpth tfl its ro st' out,
  Conforms st -> get_at st ps = Some (Node tid tk pa tpth tfl its) -> kind_ok tk ro = true -> op_free ro -> exec_op ro = true ->
  (checks_members ev (Node tid tk pa tpth tfl its) = false \/ (quiet_op ro = true /\ node_ok tk tfl [])) ->
  exec q sc st ps tid tk tpth tfl its ro = (st', out) -> Conforms st'.
Proof.
  intros q sc st ps tid tk pa tpth tfl its ro st' out C G K OK XO T E.
  destruct (target_children _ _ _ _ _ _ _ _ _ _ C G) as (NO & F).
  assert (UN : checks_members ev (Node tid tk pa tpth tfl its) = false ->
               forall n, get_at st ps = Some n -> checks_members ev n = false).
  { intros CM n Gn. rewrite G in Gn. inv Gn. auto. }
  assert (ANY : checks_members ev (Node tid tk pa tpth tfl its) = false -> forall its', node_ok tk tfl its').
  { intros CM its'. eapply node_ok_any; eauto. }
  destruct ro; simpl in K, OK, XO, E; try discriminate;
    try (destruct tk; try discriminate; []);
    try (destruct (treats_as_sealed sc tfl); [inv E; auto; fail|]).
  - (* LSet *) destruct T as [T|(Q & _)]; [|discriminate].
    destruct (negb (writable_via_accessors sc tfl)); [inv E; auto|].
    destruct ((i <? - zlen its) || (i >=? zlen its)); [inv E; auto|].
    destruct (lprim q sc st ps (KI i) v) as [st1 p] eqn:L. pose proof (lprim_conf _ _ _ _ _ _ _ _ _ _ C OK (UN T) L).
    destruct p; fin E.
  - (* LDel *) destruct T as [T|(Q & _)]; [|discriminate].
    destruct (negb (writable_via_accessors sc tfl)); [inv E; auto|].
    destruct ((i <? - zlen its) || (i >=? zlen its)); [inv E; auto|].
    inv E. eapply ldel_core_conf; eauto.
  - (* LAppend *) destruct T as [T|(Q & _)]; [|discriminate].
    destruct (lprim q sc st ps (KI (zlen its)) v) as [st1 p] eqn:L. pose proof (lprim_conf _ _ _ _ _ _ _ _ _ _ C OK (UN T) L).
    destruct p; fin E.
  - (* LInsert *) destruct T as [T|(Q & _)]; [|discriminate].
    destruct (lprim q sc st ps (KI i) (RIns v)) as [st1 p] eqn:L.
    assert (rv_free (RIns v)) by (simpl; auto). pose proof (lprim_conf _ _ _ _ _ _ _ _ _ _ C H (UN T) L).
    destruct p; fin E.
  - (* LPop *) destruct T as [T|(Q & _)]; [|discriminate].
    destruct ((_ <? - zlen its) || (_ >=? zlen its)); [inv E; auto|].
    destruct (treats_as_sealed sc tfl); [inv E; auto|].
    destruct (ldel_core sc st ps _) as [st1 r] eqn:L. inv E.
    replace st' with (fst (ldel_core sc st ps (Z.to_nat ((match i with Some i0 => i0 | None => -1 end + zlen its) mod zlen its)))) by (rewrite L; auto).
    eapply ldel_core_conf; eauto.
  - (* LRemove *) destruct T as [T|(Q & _)]; [|discriminate].
    destruct (find_index _ its); [|inv E; auto].
    destruct (treats_as_sealed sc tfl); [inv E; auto|].
    destruct (negb (writable_via_accessors sc tfl)); [inv E; auto|].
    inv E. eapply ldel_core_conf; eauto.
  - (* LClear *)
    inv E. eapply clear_core_conf; eauto. destruct T as [T|(_ & T)]; auto.
  - (* LReverse *)
    inv E. eapply reorder_core_conf; eauto; [apply node_ok_rev; auto|apply Forall_rev; auto].
  - (* LSort *)
    inv E. eapply reorder_core_conf; eauto; [apply node_ok_sorted; auto|apply sorted_forall; auto].
  - (* LIMul *)
    rewrite XO in E. inv E. eapply clear_core_conf; eauto. destruct T as [T|(_ & T)]; auto.
  - (* LCopy *) destruct T as [T|(Q & _)]; [|discriminate].
    unfold new_list_from in E.
    destruct (clone_at (q_copy_drops_missing q) false None [] (Node 0%N KList None [] default_flags its) (next_id st, [])) as [c cs] eqn:CL.
    inv E. apply conforms_add_root; [apply conforms_with_next; auto|].
    replace c with (fst (clone_at (q_copy_drops_missing q) false None [] (Node 0%N KList None [] default_flags its) (next_id st, []))) by (rewrite CL; auto).
    apply cnode_clone_at. apply cnode_node. split; [apply node_ok_untyped; reflexivity|auto].
  - (* DSet *) destruct T as [T|(Q & _)]; [|discriminate].
    destruct (negb (writable_via_accessors sc tfl)); [inv E; auto|].
    destruct (dprim q sc st ps k v) as [st1 p] eqn:L. pose proof (dprim_conf _ _ _ _ _ _ _ _ _ _ C OK (UN T) L).
    destruct p; fin E.
  - (* DDel *) destruct T as [T|(Q & _)]; [|discriminate].
    destruct (negb (writable_via_accessors sc tfl)); [inv E; auto|].
    destruct (negb (has_key k its)); [inv E; auto|].
    destruct (dprim q sc st ps k (RLeaf LMissing)) as [st1 p] eqn:L.
    assert (rv_free (RLeaf LMissing)) by (simpl; auto). pose proof (dprim_conf _ _ _ _ _ _ _ _ _ _ C H (UN T) L).
    destruct p; fin E.
  - (* DPop *) destruct T as [T|(Q & _)]; [|discriminate].
    destruct (assoc k its); [|destruct d; inv E; auto].
    destruct (treats_as_sealed sc tfl); [inv E; auto|].
    destruct (dprim q sc st ps k (RLeaf LMissing)) as [st1 p] eqn:L.
    assert (rv_free (RLeaf LMissing)) by (simpl; auto). pose proof (dprim_conf _ _ _ _ _ _ _ _ _ _ C H (UN T) L).
    destruct p; fin E.
  - (* DPopItem *) destruct T as [T|(Q & _)]; [|discriminate].
    destruct (rev its) as [|[k old] r] eqn:R; [inv E; auto|]. inv E.
    assert (In (k, old) its). { apply in_rev. rewrite R. simpl; auto. }
    assert (Conforms (add_detached (update_at st ps (set_items (removelast its))) old)).
    { apply conforms_add_detached.
      - eapply conforms_replace_items; eauto using roots_kept_refl. apply removelast_forall; auto.
      - rewrite Forall_forall in F. exact (F _ H). }
    destruct (notify_on sc); auto using fix_chain_conf.
  - (* DClear *) destruct T as [T|(Q & _)]; [|discriminate].
    inv E. eapply clear_core_conf; eauto.
  - (* DSetDefault *) destruct T as [T|(Q & _)]; [|discriminate].
    assert (X : forall st1 p, dprim q sc st ps k v = (st1, p) -> Conforms st1) by (intros; eapply dprim_conf; eauto).
    destruct (assoc k its) as [old|].
    + destruct (is_missing old); [|inv E; auto].
      destruct (treats_as_sealed sc tfl); [inv E; auto|].
      destruct (negb (writable_via_accessors sc tfl)); [inv E; auto|].
      destruct (dprim q sc st ps k v) as [st1 p] eqn:L. specialize (X _ _ eq_refl).
      destruct p; fin E.
    + destruct (treats_as_sealed sc tfl); [inv E; auto|].
      destruct (negb (writable_via_accessors sc tfl)); [inv E; auto|].
      destruct (dprim q sc st ps k v) as [st1 p] eqn:L. specialize (X _ _ eq_refl).
      destruct p; fin E.
  - (* DCopy *)
    destruct (clone_at _ false None [] _ _) as [c cs] eqn:CL. inv E. eapply clone_root_conf; eauto.
  - (* OSet *) destruct T as [T|(Q & _)]; [|discriminate].
    destruct (negb (existsb (key_eqb k) (class_fields cls))); [inv E; auto|].
    destruct (treats_as_sealed sc tfl); [inv E; auto|].
    destruct (negb (writable_via_accessors sc tfl)); [inv E; auto|].
    destruct (oprim q sc st ps k v) as [st1 p] eqn:L. pose proof (oprim_conf _ _ _ _ _ _ _ _ _ _ C OK (UN T) L).
    destruct p; fin E.
  - (* Clone *)
    destruct (clone_at _ _ None [] _ _) as [c cs] eqn:CL. inv E. eapply clone_root_conf; eauto.
  - (* Seal *)
    inv E. apply conforms_update_at_total; auto. intros m Cm. split; [apply cnode_seal_rec; auto|].
    split; [apply face_seal_rec|apply is_missing_seal_rec].
  - (* SetAW *)
    inv E. apply conforms_update_at_total; auto. intros m Cm. split; [|split].
    + apply cnode_set_flags; auto. intros fl. split; reflexivity.
    + destruct m; simpl; auto.
    + destruct m; simpl; auto.
Qed.
End Ops.

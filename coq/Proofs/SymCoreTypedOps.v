(* SymCoreTypedOps.v — every operation preserves the schema invariant. *)
From Coq Require Import ZArith NArith List Bool.
Import ListNotations.
From PG Require Import Common.Tactics Model.SymCoreDefs Model.SymCoreOps Model.SymCoreTyped.
From PG Require Import Proofs.SymCoreBase Proofs.SymCoreWF Proofs.SymCoreWFOps Proofs.SymCoreClone.
From PG Require Import Proofs.SymCoreTypedBase Proofs.SymCoreTypedConf Proofs.SymCoreTypedCopy Proofs.SymCoreTypedState
                       Proofs.SymCoreTypedLit Proofs.SymCoreTypedPrims.
From PG Require Model.Typing.
Local Open Scope Z_scope.

(* --- where the target of a write is after the write ----------------------------------------------------------------- *)
Lemma get_in_update_in_same : forall p f t c, get_in p t = Some c -> get_in p (update_in p f t) = Some (f c).
Proof.
  induction p as [|k r IH]; intros f t c G; simpl in *; [inv G; auto|].
  destruct t as [l|i kd pa pt fl its]; simpl in *; [discriminate|].
  destruct (assoc k its) as [x|] eqn:A; [|discriminate].
  assert (assoc k (map_assoc k (update_in r f) its) = Some (update_in r f x)).
  { clear G. induction its as [|[k' v] r' IHi]; simpl in *; [discriminate|].
    destruct (key_eqb k k') eqn:E; simpl; rewrite E; auto. inv A. auto. }
  rewrite H. apply IH; auto.
Qed.
Lemma nth_error_set_nth_eq : forall A (l : list A) n x y, nth_error l n = Some y -> nth_error (set_nth n x l) n = Some x.
Proof. induction l; destruct n; simpl; intros; try discriminate; eauto. Qed.
Lemma get_at_update_at_same : forall st ps f c, get_at st ps = Some c -> get_at (update_at st ps f) ps = Some (f c).
Proof.
  intros st ps f c G. unfold get_at, update_at in *. destruct (get_root st (fst ps)) as [t|] eqn:R; [|discriminate].
  unfold get_root, set_root in *. simpl.
  destruct (nth_error (roots st) (fst ps)) as [[x|]|] eqn:E; try discriminate. inv R.
  rewrite (nth_error_set_nth_eq _ _ _ _ _ E). apply get_in_update_in_same; auto.
Qed.
Lemma restore_slot_live : forall i t rs rs' r x, restore_slot i t rs = Some rs' -> nth_error rs r = Some (Live x) -> nth_error rs' r = Some (Live x).
Proof.
  induction rs as [|s rs IH]; intros rs' r x R N; simpl in R; [discriminate|].
  destruct s as [y|j].
  - destruct (restore_slot i t rs) eqn:E; [|discriminate]. inv R. destruct r; simpl in *; auto.
  - destruct (N.eqb i j).
    + inv R. destruct r; simpl in *; auto; discriminate.
    + destruct (restore_slot i t rs) eqn:E; [|discriminate]. inv R. destruct r; simpl in *; auto.
Qed.
Lemma get_root_add_detached : forall st n r x, get_root st r = Some x -> get_root (add_detached st n) r = Some x.
Proof.
  intros st n r x G. unfold add_detached. destruct n as [l|i k pa pt fl its]; auto.
  unfold get_root in *. destruct (nth_error (roots st) r) as [[y|]|] eqn:E; try discriminate. inv G.
  destruct (restore_slot i (detach (Node i k pa pt fl its)) (roots st)) eqn:R; simpl.
  - rewrite (restore_slot_live _ _ _ _ _ _ R E). auto.
  - rewrite nth_error_app1; [rewrite E; auto|]. apply nth_error_Some. congruence.
Qed.
Lemma get_at_add_detached : forall st n ps x, get_at st ps = Some x -> get_at (add_detached st n) ps = Some x.
Proof.
  intros st n ps x G. unfold get_at in *. destruct (get_root st (fst ps)) as [t|] eqn:R; [|discriminate].
  rewrite (get_root_add_detached _ n _ _ R). auto.
Qed.


Section Ops.
Variable ev : env.
Variable P : bool.
Notation cnode := (cnode ev P).
Notation node_ok := (node_ok ev P).
Notation Conforms := (Conforms ev P).

(* --- additive measures of a list survive sorting / reversing --------------------------------------------------------- *)
Section Sum.
  Context {A : Type} (g : A -> Z).
  Fixpoint lsum (l : list A) : Z := match l with [] => 0 | x :: r => g x + lsum r end.
  Lemma lsum_app : forall a b, lsum (a ++ b) = lsum a + lsum b.
  Proof. induction a; cbn [app lsum]; intros; auto. rewrite IHa. ring. Qed.
  Lemma lsum_rev : forall l, lsum (rev l) = lsum l.
  Proof. induction l; cbn [rev lsum]; auto. rewrite lsum_app, IHl. cbn [lsum]. ring. Qed.
End Sum.
Lemma lsum_insert_sorted : forall A (g : Z * A -> Z) le x l, lsum g (insert_sorted le x l) = g x + lsum g l.
Proof.
  induction l as [|y r IH]; cbn [insert_sorted lsum]; [reflexivity|].
  destruct (le (fst x) (fst y)); cbn [lsum]; [reflexivity|]. rewrite IH. ring.
Qed.
Lemma lsum_stable_sort : forall A (g : Z * A -> Z) rv l, lsum g (stable_sort rv l) = lsum g l.
Proof. unfold stable_sort. induction l; cbn [fold_right lsum]; auto. rewrite lsum_insert_sorted, IHl. auto. Qed.
Lemma lsum_map_snd : forall A (g : A -> Z) (l : list (Z * A)), lsum g (map snd l) = lsum (fun x => g (snd x)) l.
Proof. induction l; simpl; auto. rewrite IHl. auto. Qed.
Lemma lsum_zip_keys : forall A (g : A -> Z) ks (l : list A), lsum (fun x => g (snd x)) (zip_keys ks l) = lsum g l.
Proof. intros A g ks l. revert ks. induction l; simpl; intros; auto. destruct ks; simpl; rewrite IHl; auto. Qed.
Lemma count_present_lsum : forall l, count_present l = lsum (fun kc => pres1 (snd kc)) l.
Proof. induction l as [|x r IH]; [reflexivity|]. rewrite count_present_cons, IH. reflexivity. Qed.
Lemma zlen_lsum : forall A (l : list A), zlen l = lsum (fun _ => 1) l.
Proof. unfold zlen. induction l; cbn [length lsum]; [reflexivity|]. rewrite Nat2Z.inj_succ, <- IHl. lia. Qed.

(* a list keeps its schema properties when its items are rearranged *)
Lemma node_ok_rearranged : forall fl its its',
  (forall Q : key * node -> Prop, Forall Q its -> Forall Q its') ->
  count_present its' = count_present its -> zlen its' = zlen its ->
  node_ok KList fl its -> node_ok KList fl its'.
Proof.
  intros fl its its' FA CP ZL H. unfold SymCoreTypedConf.node_ok in *.
  destruct (spec_at ev (f_spec fl)) as [sp|]; auto. destruct sp; auto.
  destruct H as (A & B & C). split; [|split].
  - apply FA. exact A.
  - rewrite CP. auto.
  - destruct mx; auto. rewrite ZL. auto.
Qed.
Lemma node_ok_rev : forall fl its, node_ok KList fl its -> node_ok KList fl (rev its).
Proof.
  intros fl its H. apply (node_ok_rearranged fl its (rev its)); [| | |exact H].
  - intros Q F. apply Forall_rev. auto.
  - rewrite !count_present_lsum. apply lsum_rev.
  - rewrite !zlen_lsum. apply lsum_rev.
Qed.
Lemma node_ok_sorted : forall fl rv ks its, node_ok KList fl its -> node_ok KList fl (map snd (stable_sort rv (zip_keys ks its))).
Proof.
  intros fl rv ks its H. apply (node_ok_rearranged fl its (map snd (stable_sort rv (zip_keys ks its)))); [| | |exact H].
  - intros Q F. apply sorted_forall. auto.
  - rewrite !count_present_lsum. set (g := fun kc : key * node => pres1 (snd kc)).
    rewrite (lsum_map_snd _ g), lsum_stable_sort. apply lsum_zip_keys.
  - rewrite !zlen_lsum. set (g := fun _ : key * node => 1).
    rewrite (lsum_map_snd _ g), lsum_stable_sort. apply lsum_zip_keys.
Qed.

(* --- the mutators of SymCoreOps built on the primitives ------------------------------------------------------------------- *)
Lemma ldel_core_conf : forall sc st ps idx tid pa pt fl its,
  Conforms st -> get_at st ps = Some (Node tid KList pa pt fl its) -> node_ok KList fl (remove_nth idx its) ->
  Conforms (fst (ldel_core sc st ps idx)).
Proof.
  intros sc st ps idx tid pa pt fl its C G NO. unfold ldel_core.
  destruct (cur_items_facts _ _ _ _ _ _ _ _ G) as (E1 & E2 & _). rewrite E1, E2.
  destruct (target_children _ _ _ _ _ _ _ _ _ _ C G) as (_ & F).
  destruct (nth_error its idx) as [[k0 old]|] eqn:NE; [|simpl; auto].
  assert (C2 : Conforms (add_detached (update_at st ps (set_items (renum pt (remove_nth idx its)))) old)).
  { apply conforms_add_detached.
    - eapply conforms_replace_items; eauto using roots_kept_refl.
      + apply node_ok_renum. auto.
      + apply Forall_cnode_renum. apply Forall_remove_nth. auto.
    - apply nth_error_In in NE. rewrite Forall_forall in F. exact (F _ NE). }
  simpl. destruct (notify_on sc); auto using fix_chain_conf.
Qed.

Lemma clear_core_conf : forall sc st ps tid tk pa pt fl its,
  Conforms st -> get_at st ps = Some (Node tid tk pa pt fl its) -> node_ok tk fl [] -> Conforms (clear_core sc st ps its).
Proof.
  intros sc st ps tid tk pa pt fl its C G NO.
  destruct (target_children _ _ _ _ _ _ _ _ _ _ C G) as (_ & F).
  assert (Conforms (detach_all (update_at st ps (set_items [])) its)).
  { apply detach_all_conf; auto. eapply conforms_replace_items; eauto using roots_kept_refl. }
  unfold clear_core. destruct its; auto. destruct (notify_on sc); auto using fix_chain_conf.
Qed.
Lemma reorder_core_conf : forall sc st ps tid pa pt fl its its',
  Conforms st -> get_at st ps = Some (Node tid KList pa pt fl its) ->
  node_ok KList fl its' -> Forall (fun kc => cnode (snd kc)) its' ->
  Conforms (reorder_core sc st ps pt its its').
Proof.
  intros sc st ps tid pa pt fl its its' C G NO F.
  assert (Conforms (update_at st ps (set_items (renum pt its')))).
  { eapply conforms_replace_items; eauto using roots_kept_refl.
    - apply node_ok_renum. auto.
    - apply Forall_cnode_renum. auto. }
  unfold reorder_core. destruct (negb (all_same its its') && notify_on sc); auto using fix_chain_conf.
Qed.

Lemma clone_root_conf : forall q deep st tid tk pa pt fl its ps c cs,
  Conforms st -> get_at st ps = Some (Node tid tk pa pt fl its) ->
  clone_at (q_copy_drops_missing q) deep None [] (Node tid tk None [] fl its) (next_id st, []) = (c, cs) ->
  Conforms (add_root (with_next st (fst cs)) c).
Proof.
  intros q deep st tid tk pa pt fl its ps c cs C G CL.
  apply conforms_add_root; [apply conforms_with_next; auto|].
  replace c with (fst (clone_at (q_copy_drops_missing q) deep None [] (Node tid tk None [] fl its) (next_id st, []))) by (rewrite CL; auto).
  apply cnode_clone_at. pose proof (conforms_get_at _ _ _ _ _ C G) as Cn. exact Cn.
Qed.

(* the values of an operation carry no value spec of their own *)
Definition op_free (o : op rvalue) : Prop :=
  match o with
  | LSet _ v | LAppend v | LInsert _ v | DSet _ _ v | DSetDefault _ v | OSet _ v => rv_free v
  | LExtend vs | LIAdd vs | LAdd vs => Forall rv_free vs
  | DUpdate kvs | DIOr kvs => Forall (fun kv => rv_free (snd kv)) kvs
  | Rebind pvs => Forall (fun kv => rv_free (snd kv)) pvs
  | _ => True
  end.
(* operations SymCoreOps.exec is used for (the batches and copies of lists, rebind and update are taken over by exec2) *)
Definition exec_op (o : op rvalue) : bool :=
  match o with
  | LExtend _ | LIAdd _ | LAdd _ | LMul _ | DUpdate _ | DIOr _ | Rebind _ => false
  | LIMul m => m <=? 0
  | _ => true
  end.
(* of these, the ones also used on a target that checks its members (they do not write a value) *)
Definition quiet_op (o : op rvalue) : bool :=
  match o with
  | LClear | LReverse | LSort _ _ | LIMul _ | DCopy | Clone _ | Seal _ | SetAW _ => true
  | _ => false
  end.

Definition clearing_op (o : op rvalue) : bool := match o with LClear | LIMul _ | DClear => true | _ => false end.

Ltac fin E := inv E; auto; try (destruct (notify_on _)); auto using fix_chain_conf, notified_conf.

Lemma exec_conf : forall q sc st ps tid tk pa tpth tfl its ro st' out,
  Conforms st -> get_at st ps = Some (Node tid tk pa tpth tfl its) -> kind_ok tk ro = true -> op_free ro -> exec_op ro = true ->
  (checks_members ev (Node tid tk pa tpth tfl its) = false \/ (quiet_op ro = true /\ (clearing_op ro = true -> node_ok tk tfl []))) ->
  exec q sc st ps tid tk tpth tfl its ro = (st', out) -> Conforms st'.
Proof.
  intros q sc st ps tid tk pa tpth tfl its ro st' out C G K OK XO T E.
  destruct (target_children _ _ _ _ _ _ _ _ _ _ C G) as (NO & F).
  assert (UN : checks_members ev (Node tid tk pa tpth tfl its) = false ->
               forall n, get_at st ps = Some n -> checks_members ev n = false).
  { intros CM n Gn. rewrite G in Gn. inv Gn. auto. }
  assert (ANY : checks_members ev (Node tid tk pa tpth tfl its) = false -> forall its', node_ok tk tfl its').
  { intros CM its'. eapply node_ok_any; eauto. }
  destruct ro; simpl in K, OK, XO, E; try discriminate;
    try (destruct tk; try discriminate; []);
    try (destruct (treats_as_sealed sc tfl); [inv E; auto; fail|]).
  - (* LSet *) destruct T as [T|(Q & _)]; [|discriminate].
    destruct (negb (writable_via_accessors sc tfl)); [inv E; auto|].
    destruct ((i <? - zlen its) || (i >=? zlen its)); [inv E; auto|].
    destruct (lprim q sc st ps (KI i) v) as [st1 p] eqn:L. pose proof (lprim_conf _ _ _ _ _ _ _ _ _ _ C OK (UN T) L).
    destruct p; fin E.
  - (* LDel *) destruct T as [T|(Q & _)]; [|discriminate].
    destruct (negb (writable_via_accessors sc tfl)); [inv E; auto|].
    destruct ((i <? - zlen its) || (i >=? zlen its)); [inv E; auto|].
    inv E. eapply ldel_core_conf; eauto.
  - (* LAppend *) destruct T as [T|(Q & _)]; [|discriminate].
    destruct (lprim q sc st ps (KI (zlen its)) v) as [st1 p] eqn:L. pose proof (lprim_conf _ _ _ _ _ _ _ _ _ _ C OK (UN T) L).
    destruct p; fin E.
  - (* LInsert *) destruct T as [T|(Q & _)]; [|discriminate].
    destruct (lprim q sc st ps (KI i) (RIns v)) as [st1 p] eqn:L.
    assert (rv_free (RIns v)) by (simpl; auto). pose proof (lprim_conf _ _ _ _ _ _ _ _ _ _ C H (UN T) L).
    destruct p; fin E.
  - (* LPop *) destruct T as [T|(Q & _)]; [|discriminate].
    destruct ((_ <? - zlen its) || (_ >=? zlen its)); [inv E; auto|].
    destruct (treats_as_sealed sc tfl); [inv E; auto|].
    destruct (ldel_core sc st ps _) as [st1 r] eqn:L. inv E.
    replace st' with (fst (ldel_core sc st ps (Z.to_nat ((match i with Some i0 => i0 | None => -1 end + zlen its) mod zlen its)))) by (rewrite L; auto).
    eapply ldel_core_conf; eauto.
  - (* LRemove *) destruct T as [T|(Q & _)]; [|discriminate].
    destruct (find_index _ its); [|inv E; auto].
    destruct (treats_as_sealed sc tfl); [inv E; auto|].
    destruct (negb (writable_via_accessors sc tfl)); [inv E; auto|].
    inv E. eapply ldel_core_conf; eauto.
  - (* LClear *)
    inv E. eapply clear_core_conf; eauto. destruct T as [T|(_ & T)]; auto.
  - (* LReverse *)
    inv E. eapply reorder_core_conf; eauto; [apply node_ok_rev; auto|apply Forall_rev; auto].
  - (* LSort *)
    inv E. eapply reorder_core_conf; eauto; [apply node_ok_sorted; auto|apply sorted_forall; auto].
  - (* LIMul *)
    rewrite XO in E. inv E. eapply clear_core_conf; eauto. destruct T as [T|(_ & T)]; auto.
  - (* LCopy *) destruct T as [T|(Q & _)]; [|discriminate].
    unfold new_list_from in E.
    destruct (clone_at (q_copy_drops_missing q) false None [] (Node 0%N KList None [] default_flags its) (next_id st, [])) as [c cs] eqn:CL.
    inv E. apply conforms_add_root; [apply conforms_with_next; auto|].
    replace c with (fst (clone_at (q_copy_drops_missing q) false None [] (Node 0%N KList None [] default_flags its) (next_id st, []))) by (rewrite CL; auto).
    apply cnode_clone_at. apply cnode_node. split; [apply node_ok_untyped; reflexivity|auto].
  - (* DSet *) destruct T as [T|(Q & _)]; [|discriminate].
    destruct (negb (writable_via_accessors sc tfl)); [inv E; auto|].
    destruct (dprim q sc st ps k v) as [st1 p] eqn:L. pose proof (dprim_conf _ _ _ _ _ _ _ _ _ _ C OK (UN T) L).
    destruct p; fin E.
  - (* DDel *) destruct T as [T|(Q & _)]; [|discriminate].
    destruct (negb (writable_via_accessors sc tfl)); [inv E; auto|].
    destruct (negb (has_key k its)); [inv E; auto|].
    destruct (dprim q sc st ps k (RLeaf LMissing)) as [st1 p] eqn:L.
    assert (rv_free (RLeaf LMissing)) by (simpl; auto). pose proof (dprim_conf _ _ _ _ _ _ _ _ _ _ C H (UN T) L).
    destruct p; fin E.
  - (* DPop *) destruct T as [T|(Q & _)]; [|discriminate].
    destruct (assoc k its); [|destruct d; inv E; auto].
    destruct (treats_as_sealed sc tfl); [inv E; auto|].
    destruct (dprim q sc st ps k (RLeaf LMissing)) as [st1 p] eqn:L.
    assert (rv_free (RLeaf LMissing)) by (simpl; auto). pose proof (dprim_conf _ _ _ _ _ _ _ _ _ _ C H (UN T) L).
    destruct p; fin E.
  - (* DPopItem *) destruct T as [T|(Q & _)]; [|discriminate].
    destruct (rev its) as [|[k old] r] eqn:R; [inv E; auto|]. inv E.
    assert (In (k, old) its). { apply in_rev. rewrite R. simpl; auto. }
    assert (Conforms (add_detached (update_at st ps (set_items (removelast its))) old)).
    { apply conforms_add_detached.
      - eapply conforms_replace_items; eauto using roots_kept_refl. apply removelast_forall; auto.
      - rewrite Forall_forall in F. exact (F _ H). }
    destruct (notify_on sc); auto using fix_chain_conf.
  - (* DClear *) destruct T as [T|(Q & _)]; [|discriminate].
    inv E. eapply clear_core_conf; eauto.
  - (* DSetDefault *) destruct T as [T|(Q & _)]; [|discriminate].
    assert (X : forall st1 p, dprim q sc st ps k v = (st1, p) -> Conforms st1) by (intros; eapply dprim_conf; eauto).
    destruct (assoc k its) as [old|].
    + destruct (is_missing old); [|inv E; auto].
      destruct (treats_as_sealed sc tfl); [inv E; auto|].
      destruct (negb (writable_via_accessors sc tfl)); [inv E; auto|].
      destruct (dprim q sc st ps k v) as [st1 p] eqn:L. specialize (X _ _ eq_refl).
      destruct p; fin E.
    + destruct (treats_as_sealed sc tfl); [inv E; auto|].
      destruct (negb (writable_via_accessors sc tfl)); [inv E; auto|].
      destruct (dprim q sc st ps k v) as [st1 p] eqn:L. specialize (X _ _ eq_refl).
      destruct p; fin E.
  - (* DCopy *)
    destruct (clone_at _ false None [] _ _) as [c cs] eqn:CL. inv E. eapply clone_root_conf; eauto.
  - (* OSet *) destruct T as [T|(Q & _)]; [|discriminate].
    destruct (negb (existsb (key_eqb k) (class_fields cls))); [inv E; auto|].
    destruct (treats_as_sealed sc tfl); [inv E; auto|].
    destruct (negb (writable_via_accessors sc tfl)); [inv E; auto|].
    destruct (oprim q sc st ps k v) as [st1 p] eqn:L. pose proof (oprim_conf _ _ _ _ _ _ _ _ _ _ C OK (UN T) L).
    destruct p; fin E.
  - (* Clone *)
    destruct (clone_at _ _ None [] _ _) as [c cs] eqn:CL. inv E. eapply clone_root_conf; eauto.
  - (* Seal *)
    inv E. apply conforms_update_at_total; auto. intros m Cm. split; [apply cnode_seal_rec; auto|].
    split; [apply face_seal_rec|apply is_missing_seal_rec].
  - (* SetAW *)
    inv E. apply conforms_update_at_total; auto. intros m Cm. split; [|split].
    + apply cnode_set_flags; auto. intros fl. split; reflexivity.
    + destruct m; simpl; auto.
    + destruct m; simpl; auto.
Qed.

(* --- constructing typed values ------------------------------------------------------------------------------------------ *)
Lemma tconstruct_conf : forall st k sp fl v n st1,
  good sp = true ->
  (k = KDict \/ k = KList \/ exists c fs m, k = KObj c /\ sp = Typing.SDict (Some fs) m) ->
  tconstruct false ev st k sp fl v = inl (n, st1) -> cnode n /\ roots st1 = roots st.
Proof.
  intros st k sp fl v n st1 G K T. unfold tconstruct in T.
  destruct (Typing.apply (f_partial fl) sp v) as [v0|] eqn:A; [|discriminate].
  remember (prune (Some sp) v0) as v' eqn:EV. clear EV.
  destruct v'; try (simpl in T; discriminate).
  - (* a list *)
    rewrite tlit_plist in T. cbn iota beta in T. cbn [f_spec] in T.
    match type of T with (if stored_ok _ _ _ ?lit _ then _ else _) = _ => destruct (stored_ok false (f_partial fl) sp lit (Typing.PList l)) eqn:SO; [|discriminate] end.
    destruct (stored_ok_parts _ _ _ _ SO) as (LP & ND & PR & FX).
    destruct K as [->|[->|(c & fs & m & -> & _)]]; try (rewrite lit_pv_dict in LP; discriminate).
    match type of T with (let '(_, _) := ?b in _) = _ => destruct b as [n0 nx] eqn:B end. inv T. split; auto.
    replace n with (fst (build false None [] (LitNode KList
        {| f_sealed := f_sealed fl; f_aw := f_aw fl; f_partial := f_partial fl; f_spec := ref_opt ev (bound_opt false (Some sp)) |} false
        (tlit_list ev (f_partial fl) (elem_opt (bound_opt false (Some sp))) l 0)) (next_id st))) by (rewrite B; auto).
    apply conf_root_list; auto.
  - (* a dict / the attribute dict of an object *)
    rewrite tlit_pdict in T. cbn iota beta in T. cbn [f_spec] in T.
    match type of T with (if stored_ok _ _ _ ?lit _ then _ else _) = _ => destruct (stored_ok false (f_partial fl) sp lit (Typing.PDict kvs)) eqn:SO; [|discriminate] end.
    destruct (stored_ok_parts _ _ _ _ SO) as (LP & ND & PR & FX).
    assert (KD : k = KDict \/ exists c fs m, k = KObj c /\ sp = Typing.SDict (Some fs) m).
    { destruct K as [->|[->|X]]; auto. rewrite lit_pv_list in LP. discriminate. }
    assert (LP' : lit_pv (tlit ev (f_partial fl) (Some sp) (Typing.PDict kvs)) = Typing.PDict kvs).
    { rewrite tlit_pdict. destruct KD as [->|(c & fs & m & -> & _)]; exact LP. }
    match type of T with (let '(_, _) := ?b in _) = _ => destruct b as [n0 nx] eqn:B end. inv T. split; auto.
    replace n with (fst (build false None [] (LitNode k
        {| f_sealed := f_sealed fl; f_aw := f_aw fl; f_partial := f_partial fl; f_spec := ref_opt ev (bound_opt true (Some sp)) |} false
        (tlit_dict ev (f_partial fl) (bound_opt true (Some sp)) kvs)) (next_id st))) by (rewrite B; auto).
    apply conf_root_dict; auto.
Qed.

Lemma troot_conf : forall st k r fl v n st1,
  good_env ev -> troot false ev st k r fl v = inl (n, st1) -> cnode n /\ roots st1 = roots st.
Proof.
  intros st k r fl v n st1 GE T. unfold troot in T.
  destruct k; destruct (spec_at ev r) as [sp|] eqn:SA; try discriminate.
  - destruct v; try discriminate. eapply tconstruct_conf; [eapply GE; eauto| |exact T]. auto.
  - destruct v; try discriminate. eapply tconstruct_conf; [eapply GE; eauto| |exact T]. auto.
  - destruct sp; try discriminate. destruct schema as [fs|]; try discriminate. destruct v; try discriminate.
    destruct (negb (N.eqb (class_ref ev cls) r)); [discriminate|].
    destruct (obj_args_ok fs (f_partial _) kvs); [|discriminate].
    eapply tconstruct_conf; [eapply GE; eauto| |exact T]. right. right. eauto.
Qed.

(* --- values after resolution ---------------------------------------------------------------------------------------------- *)
Lemma lit_no_obj_free : forall l, lit_no_obj l = true -> lit_spec_free l = true.
Proof.
  induction l using lit_ind'; simpl; intros F; auto.
  apply andb_true_iff in F as [F F3]. apply andb_true_iff in F as [F1 F2].
  rewrite F2, orb_true_r. simpl.
  induction H as [|[k0 c0] r0 Hc Hr IH]; simpl in *; auto.
  apply andb_true_iff in F3 as [A B]. rewrite (Hc A). simpl. apply IH. exact B.
Qed.
Lemma plain_lit_free : forall v, lit_spec_free (plain_lit v) = true.
Proof.
  induction v using TypingBasics.pv_ind'; try reflexivity.
  - simpl. generalize 0. induction H; intros z; simpl; auto. rewrite H. simpl. apply IHForall.
  - simpl. induction H as [|[k x] r Hx Hr IH]; simpl; auto. simpl in Hx. rewrite Hx. simpl. exact IH.
Qed.
Lemma resolve_t_free : forall st v x, resolve_t st v = Some x -> rv_free (r_rv x).
Proof.
  induction v; simpl; intros x R.
  - destruct l as [lf|k fl pl its]; [inv R; exact I|].
    destruct (lit_valid (LitNode k fl pl its) && lit_no_obj (LitNode k fl pl its)) eqn:E; inv R.
    apply andb_true_iff in E as [_ E]. cbn [r_rv rv_free]. apply lit_no_obj_free. exact E.
  - destruct (get_at st p) as [[l|i k pa pt fl its]|]; inv R; exact I.
  - destruct (resolve_t st v) as [r|]; [|discriminate]. specialize (IHv _ eq_refl).
    destruct (r_ins r); inv R; simpl; auto.
  - destruct (dict_keys_nodup (strip v) && Typing.pv_eqb (lit_pv (plain_lit (strip v))) (strip v)); inv R. simpl.
    pose proof (plain_lit_free (strip v)) as F. destruct (plain_lit (strip v)); simpl; auto.
Qed.
Lemma to_rv_free : forall x, rv_free (r_rv x) -> rv_free (to_rv x).
Proof. intros x H. unfold to_rv. destruct (r_ins x); simpl; auto. Qed.
Definition op_tfree (o : op rtv) : Prop := Forall (fun x => rv_free (to_rv x)) (op_values o).
Lemma mapM_forall : forall A B (f : A -> option B) (Q : B -> Prop) l l',
  (forall a b, f a = Some b -> Q b) -> mapM f l = Some l' -> Forall Q l'.
Proof.
  induction l as [|a r IH]; simpl; intros l' H M; [inv M; constructor|].
  destruct (f a) eqn:E; [|discriminate]. destruct (mapM f r) eqn:M2; [|discriminate]. inv M. constructor; eauto.
Qed.
Lemma mapM_snd_forall : forall K A B (f : A -> option B) (Q : B -> Prop) (l : list (K * A)) l',
  (forall a b, f a = Some b -> Q b) -> mapM_snd f l = Some l' -> Forall (fun kv => Q (snd kv)) l'.
Proof.
  unfold mapM_snd. induction l as [|[k a] r IH]; simpl; intros l' H M; [inv M; constructor|].
  destruct (f a) eqn:E; [|discriminate].
  destruct (mapM (fun kv : K * A => match f (snd kv) with Some b => Some (fst kv, b) | None => None end) r) eqn:M2; [|discriminate].
  inv M. constructor; simpl; eauto.
Qed.
Lemma resolve_op_tfree : forall st o ro, op_mapM (resolve_t st) o = Some ro -> op_tfree ro.
Proof.
  intros st o ro H.
  assert (X : forall a b, resolve_t st a = Some b -> rv_free (to_rv b)) by (intros; apply to_rv_free; eapply resolve_t_free; eauto).
  unfold op_tfree. destruct o; simpl in H;
    repeat match goal with
           | H : option_map _ ?x = Some _ |- _ => destruct x eqn:?; simpl in H; [|discriminate]
           end; inv H; simpl; auto; eauto using mapM_forall.
  - apply Forall_map. apply (mapM_snd_forall _ _ _ (resolve_t st) (fun b => rv_free (to_rv b)) kvs); auto.
  - apply Forall_map. apply (mapM_snd_forall _ _ _ (resolve_t st) (fun b => rv_free (to_rv b)) kvs); auto.
  - apply Forall_map. apply (mapM_snd_forall _ _ _ (resolve_t st) (fun b => rv_free (to_rv b)) pvs); auto.
Qed.

(* --- the typed loops -------------------------------------------------------------------------------------------------------- *)
Section Typed.
Variable q : quirks.
Hypothesis GE : good_env ev.

Lemma tprim_conf' : forall sc st cp k x st' p,
  Conforms st -> scope_ok P sc -> rv_free (to_rv x) -> tprim q false ev sc st cp k x = (st', p) -> Conforms st'.
Proof. intros. eapply tprim_conf; eauto. Qed.

Lemma textend_loop_conf : forall sc xs st ps upd st' u e,
  Conforms st -> scope_ok P sc -> Forall (fun x => rv_free (to_rv x)) xs ->
  textend_loop q false ev sc st ps xs upd = (st', u, e) -> Conforms st'.
Proof.
  induction xs as [|x r IH]; simpl; intros st ps upd st' u e C S F L; [inv L; auto|]. inv F.
  destruct (tprim q false ev sc st ps (KI (cur_len st ps)) x) as [st1 p] eqn:T.
  pose proof (tprim_conf' _ _ _ _ _ _ _ C S H1 T).
  destruct p; eauto. inv L; auto.
Qed.
Lemma textend_core_conf : forall sc xs st ps st' o,
  Conforms st -> scope_ok P sc -> Forall (fun x => rv_free (to_rv x)) xs ->
  textend_core q false ev sc st ps xs = (st', o) -> Conforms st'.
Proof.
  intros sc xs st ps st' o C S F L. unfold textend_core in L.
  destruct (textend_loop q false ev sc st ps xs false) as [[st1 u] e] eqn:E.
  pose proof (textend_loop_conf _ _ _ _ _ _ _ _ C S F E).
  destruct e; inv L; auto. destruct (u && notify_on sc); auto using fix_chain_conf.
Qed.

Lemma trebind_one_conf : forall sc st tp path x st' p c,
  Conforms st -> scope_ok P sc -> rv_free (to_rv x) -> trebind_one q false ev sc st tp path x = (st', p, c) -> Conforms st'.
Proof.
  intros sc st tp path x st' p c C S F L. unfold trebind_one in L.
  destruct path; [inv L; auto|].
  destruct (get_at st tp); [|inv L; auto].
  destruct (query_path n (removelast (k :: path))); [|inv L; auto].
  destruct (get_at st (fst tp, snd tp ++ l)) as [[|cid ck pa pt cfl its]|]; try (inv L; auto; fail).
  destruct (treats_as_sealed sc cfl); [inv L; auto|].
  destruct (tprim q false ev sc st (fst tp, snd tp ++ l) (last (k :: path) (KI 0)) x) as [st1 p1] eqn:T.
  inv L. eapply tprim_conf'; eauto.
Qed.
Lemma trebind_loop_conf : forall sc pvs st tp upd st' u e,
  Conforms st -> scope_ok P sc -> Forall (fun kv => rv_free (to_rv (snd kv))) pvs ->
  trebind_loop q false ev sc st tp pvs upd = (st', u, e) -> Conforms st'.
Proof.
  induction pvs as [|[p x] r IH]; simpl; intros st tp upd st' u e C S F L; [inv L; auto|]. inv F.
  destruct (trebind_one q false ev sc st tp p x) as [[st1 p1] c] eqn:R.
  pose proof (trebind_one_conf _ _ _ _ _ _ _ _ C S H1 R).
  destruct p1; [destruct c | destruct c | inv L; auto]; eauto.
Qed.
Lemma trebind_core_conf : forall sc st tp tk pvs nt st' o,
  Conforms st -> scope_ok P sc -> Forall (fun kv => rv_free (to_rv (snd kv))) pvs ->
  trebind_core q false ev sc st tp tk pvs nt = (st', o) -> Conforms st'.
Proof.
  intros sc st tp tk pvs nt st' o C S F L. unfold trebind_core in L.
  assert (F' : Forall (fun kv => rv_free (to_rv (snd kv))) (match tk with KList => sort_desc pvs | _ => pvs end)).
  { destruct tk; auto. apply sort_desc_forall; auto. }
  destruct (trebind_loop q false ev sc st tp _ []) as [[st1 u] e] eqn:E.
  pose proof (trebind_loop_conf _ _ _ _ _ _ _ _ C S F' E).
  destruct e; inv L; auto. destruct nt; auto using fix_chains_conf.
Qed.
End Typed.

Lemma conforms_same_roots : forall st st1, roots st1 = roots st -> Conforms st -> Conforms st1.
Proof. intros st st1 E C. unfold SymCoreTypedConf.Conforms in *. rewrite E. exact C. Qed.

Section Exec.
Variable q : quirks.
Hypothesis GE : good_env ev.

Lemma typed_remove_ok : forall tfl e mn mx m its idx,
  spec_at ev (f_spec tfl) = Some (Typing.SList e mn mx m) -> node_ok KList tfl its -> removable mn its 1 = true ->
  node_ok KList tfl (remove_nth idx its).
Proof.
  intros tfl e mn mx m its idx SA NO RM. unfold SymCoreTypedConf.node_ok in *. rewrite SA in *.
  destruct NO as (A & B & C). unfold removable in RM. apply negb_true_iff in RM.
  pose proof (count_present_remove_nth idx its). split; [|split].
  - apply Forall_remove_nth. auto.
  - lia.
  - destruct mx; auto. pose proof (zlen_remove_nth _ idx its). lia.
Qed.

Lemma rtv_items_free : forall (its : list (key * node)) n,
  Forall (fun x => rv_free (to_rv x)) (repeat_list n (map (fun kv => rtv_of_item (snd kv)) its)).
Proof.
  intros. apply repeat_list_forall. apply Forall_forall. intros x I. apply in_map_iff in I. destruct I as (kv & <- & _).
  unfold rtv_of_item. destruct (snd kv); simpl; exact I.
Qed.

Lemma exec_list_conf : forall sc st ps tid pa tpth tfl its e mn mx m o deleg st' out,
  Conforms st -> get_at st ps = Some (Node tid KList pa tpth tfl its) ->
  spec_at ev (f_spec tfl) = Some (Typing.SList e mn mx m) -> scope_ok P sc -> op_tfree o -> kind_ok KList o = true ->
  (forall pvs, o <> Rebind pvs) ->
  (forall s o', deleg = (s, o') -> quiet_op (op_rv o) = true -> exec_op (op_rv o) = true ->
     (clearing_op (op_rv o) = true -> node_ok KList tfl []) -> Conforms s) ->
  exec_list q false ev sc st ps tid tpth tfl its e mn mx (Typing.SList e mn mx m) o deleg = (st', out) -> Conforms st'.
Proof.
  intros sc st ps tid pa tpth tfl its e mn mx m o deleg st' out C G SA S OF K NR DG E.
  destruct (target_children _ _ _ _ _ _ _ _ _ _ C G) as (NO & F).
  assert (SP : forall cid ck pa0 pt cfl its0, get_at st ps = Some (Node cid ck pa0 pt cfl its0) ->
               spec_at ev (f_spec cfl) = Some (Typing.SList e mn mx m)).
  { intros. rewrite G in H. inv H. auto. }
  assert (EMPTY : mn >? 0 = false -> node_ok KList tfl []).
  { intros MN. unfold SymCoreTypedConf.node_ok in *. rewrite SA in *. destruct NO as (_ & _ & N3).
    split; [constructor|]. split; [rewrite count_present_nil; lia|].
    destruct mx; auto. unfold zlen in *. simpl. pose proof (Zle_0_nat (length its)). lia. }
  assert (NEW : forall v c st1, troot false ev st KList (f_spec tfl) (mkFlags false true false 0) (Typing.PList v) = inl (c, st1) ->
                cnode c /\ Conforms st1).
  { intros v c st1 T. destruct (troot_conf _ _ _ _ _ _ _ GE T) as (Cc & R). split; auto. eapply conforms_same_roots; eauto. }
  unfold op_tfree in OF.
  destruct o; simpl in K; try discriminate; unfold exec_list in E; simpl in OF;
    try (eapply DG; [exact E|reflexivity|reflexivity|simpl; intros; discriminate]; fail);
    try (destruct (treats_as_sealed sc tfl); [inv E; auto; fail|]).
  - (* LSet *) inv OF.
    destruct (negb (writable_via_accessors sc tfl)); [inv E; auto|].
    destruct ((i <? - zlen its) || (i >=? zlen its)); [inv E; auto|].
    destruct (tlprim q false ev sc st ps (KI i) v e mn mx) as [st1 p] eqn:L.
    pose proof (tlprim_conf _ _ _ _ _ _ _ _ _ _ _ _ _ _ C GE S SP L). destruct p; fin E.
  - (* LDel *)
    destruct (negb (writable_via_accessors sc tfl)); [inv E; auto|].
    destruct ((i <? - zlen its) || (i >=? zlen its)); [inv E; auto|].
    destruct (removable mn its 1) eqn:RM; [|inv E; auto]. simpl in E. inv E.
    eapply ldel_core_conf; eauto. eapply typed_remove_ok; eauto.
  - (* LAppend *) inv OF.
    destruct (full mx (zlen its)); [inv E; auto|].
    destruct (tlprim q false ev sc st ps (KI (zlen its)) v e mn mx) as [st1 p] eqn:L.
    pose proof (tlprim_conf _ _ _ _ _ _ _ _ _ _ _ _ _ _ C GE S SP L). destruct p; fin E.
  - (* LInsert *)
    destruct (full mx (zlen its)); [inv E; auto|].
    match type of E with match ?t with _ => _ end = _ => destruct t as [st1 p] eqn:L end.
    pose proof (tlprim_conf _ _ _ _ _ _ _ _ _ _ _ _ _ _ C GE S SP L). destruct p; fin E.
  - (* LExtend *)
    match type of E with (if ?c then _ else _) = _ => destruct c; [inv E; auto|] end.
    eapply textend_core_conf; eauto.
  - (* LPop *)
    destruct ((_ <? - zlen its) || (_ >=? zlen its)); [inv E; auto|].
    destruct (treats_as_sealed sc tfl); [inv E; auto|].
    destruct (removable mn its 1) eqn:RM; [|inv E; auto]. simpl in E.
    match type of E with (let '(_, _) := ?t in _) = _ => destruct t as [st1 r] eqn:L end. inv E.
    match type of L with ldel_core ?a ?b ?c ?d = _ => replace st' with (fst (ldel_core a b c d)) by (rewrite L; auto) end.
    eapply ldel_core_conf; eauto. eapply typed_remove_ok; eauto.
  - (* LRemove *)
    match type of E with match ?f with _ => _ end = _ => destruct f as [idx|]; [|inv E; auto] end.
    destruct (mn =? zlen its); [inv E; auto|].
    destruct (treats_as_sealed sc tfl); [inv E; auto|].
    destruct (negb (writable_via_accessors sc tfl)); [inv E; auto|].
    destruct (removable mn its 1) eqn:RM; [|inv E; auto]. simpl in E. inv E.
    eapply ldel_core_conf; eauto. eapply typed_remove_ok; eauto.
  - (* LClear *)
    destruct (mn >? 0) eqn:MN; [inv E; auto|]. eapply DG; [exact E|reflexivity|reflexivity|intros; apply EMPTY; reflexivity].
  - (* LIAdd *)
    match type of E with (if ?c then _ else _) = _ => destruct c; [inv E; auto|] end.
    eapply textend_core_conf; eauto.
  - (* LIMul *)
    destruct (n <=? 0) eqn:N0.
    + destruct (mn >? 0) eqn:MN; [inv E; auto|]. eapply DG; [exact E|reflexivity|simpl; exact N0|intros; apply EMPTY; reflexivity].
    + match type of E with (if ?c then _ else _) = _ => destruct c; [inv E; auto|] end.
      eapply textend_core_conf; [exact GE|exact C|exact S|apply rtv_items_free|exact E].
  - (* LAdd *)
    match type of E with match ?t with _ => _ end = _ => destruct t as [[c st1]|er] eqn:T; [|inv E; auto] end.
    destruct (NEW _ _ _ T) as (Cc & C1).
    destruct (treats_as_sealed sc default_flags); [inv E; auto|].
    match type of E with (if ?c then _ else _) = _ => destruct c; [inv E; auto|] end.
    match type of E with match ?t with _ => _ end = _ => destruct t as [s2 o2] eqn:X end.
    assert (Conforms s2).
    { eapply textend_core_conf; [exact GE| |exact S|exact OF|exact X]. apply conforms_add_root; auto. }
    destruct o2; inv E; auto.
  - (* LMul *)
    match type of E with (if ?c then _ else _) = _ => destruct c; [inv E; auto|] end.
    match type of E with match ?t with _ => _ end = _ => destruct t as [[c st1]|er] eqn:T; [|inv E; auto] end.
    destruct (NEW _ _ _ T) as (Cc & C1). inv E. apply conforms_add_root; auto.
  - (* LCopy *)
    match type of E with match ?t with _ => _ end = _ => destruct t as [[c st1]|er] eqn:T; [|inv E; auto] end.
    destruct (NEW _ _ _ T) as (Cc & C1). inv E. apply conforms_add_root; auto.
  - exfalso. eapply NR. reflexivity.
Qed.

Definition rebind_like {V} (o : op V) : bool := match o with Rebind _ | DUpdate _ | DIOr _ => true | _ => false end.

Lemma new_list_from_conf : forall st its c st1,
  Conforms st -> Forall (fun kc => cnode (snd kc)) its -> new_list_from q st its = (c, st1) -> cnode c /\ Conforms st1.
Proof.
  intros st its c st1 C F NL. unfold new_list_from in NL.
  destruct (clone_at (q_copy_drops_missing q) false None [] (Node 0%N KList None [] default_flags its) (next_id st, [])) as [c0 cs] eqn:CL.
  inv NL. split; [|apply conforms_with_next; auto].
  replace c with (fst (clone_at (q_copy_drops_missing q) false None [] (Node 0%N KList None [] default_flags its) (next_id st, []))) by (rewrite CL; auto).
  apply cnode_clone_at. apply cnode_node. split; [apply node_ok_untyped; reflexivity|auto].
Qed.

Lemma exec_ulist_conf : forall sc st ps tid pa tpth tfl its o deleg st' out,
  Conforms st -> get_at st ps = Some (Node tid KList pa tpth tfl its) -> scope_ok P sc -> op_tfree o -> rebind_like o = false ->
  (forall e mn mx m, spec_at ev (f_spec tfl) <> Some (Typing.SList e mn mx m)) ->
  (forall s o', deleg = (s, o') -> exec_op (op_rv o) = true -> Conforms s) ->
  exec_ulist q false ev sc st ps tfl its o deleg = (st', out) -> Conforms st'.
Proof.
  intros sc st ps tid pa tpth tfl its o deleg st' out C G S OF RL US DG E.
  destruct (target_children _ _ _ _ _ _ _ _ _ _ C G) as (NO & F).
  unfold op_tfree in OF.
  destruct o; simpl in RL; try discriminate; unfold exec_ulist in E; simpl in OF;
    try (eapply DG; [exact E|reflexivity]; fail);
    try (destruct (treats_as_sealed sc tfl); [inv E; auto; fail|]).
  - eapply textend_core_conf; eauto.
  - (* LRemove *)
    destruct (find_index _ its) as [idx|]; [|inv E; auto].
    destruct (treats_as_sealed sc tfl); [inv E; auto|].
    destruct (negb (writable_via_accessors sc tfl)); [inv E; auto|]. inv E.
    eapply ldel_core_conf; eauto. eapply (node_ok_any ev P tid KList pa tpth tfl its); [|exact NO].
    unfold checks_members, node_spec. simpl.
    destruct (spec_at ev (f_spec tfl)) as [sp|] eqn:SA; auto. destruct sp; auto. exfalso. exact (US _ _ _ _ eq_refl).
  - eapply textend_core_conf; eauto.
  - destruct (n <=? 0) eqn:N0.
    + eapply DG; [exact E|]. simpl. exact N0.
    + eapply textend_core_conf; [exact GE|exact C|exact S|apply rtv_items_free|exact E].
  - destruct (treats_as_sealed sc default_flags); [inv E; auto|].
    destruct (new_list_from q st its) as [c st1] eqn:NL.
    destruct (new_list_from_conf _ _ _ _ C F NL) as (Cc & C1).
    match type of E with match ?t with _ => _ end = _ => destruct t as [s2 o2] eqn:X end.
    assert (Conforms s2).
    { eapply textend_core_conf; [exact GE| |exact S|exact OF|exact X]. apply conforms_add_root; auto. }
    destruct o2; inv E; auto.
  - match type of E with (if ?c then _ else _) = _ => destruct c; [inv E; auto|] end.
    destruct (new_list_from q st []) as [c st1] eqn:NL.
    destruct (new_list_from_conf _ _ _ _ C (Forall_nil _) NL) as (Cc & C1).
    match type of E with match ?t with _ => _ end = _ => destruct t as [[s2 u] e2] eqn:X end.
    assert (Conforms s2).
    { eapply textend_loop_conf; [exact GE| |exact S|apply rtv_items_free|exact X]. apply conforms_add_root; auto. }
    destruct e2; inv E; auto.
Qed.

Lemma acc_mono : forall p p' f v, (p = true -> p' = true) -> acc p f v -> acc p' f v.
Proof. intros p p' f v H [A|(A & B)]; [left; auto|right; auto]. Qed.
Lemma child_ok_mono : forall p p' f c, (p = true -> p' = true) -> child_ok ev p f c -> child_ok ev p' f c.
Proof.
  intros p p' f c H C. destruct c as [l|i k pa pt fl its]; simpl in *; [eapply acc_mono; eauto|].
  destruct k; auto. eapply acc_mono; eauto.
Qed.
Lemma ordered_items_in : forall n kc, In kc (ordered_items ev n) -> In kc (nitems n).
Proof.
  intros n kc I. destruct n as [l|i k pa pt fl its]; simpl in *; auto.
  assert (X : forall fs, In kc (flat_map (fun kf : Typing.fkey * spec => match fst kf with
                  | Typing.KConst k0 => match assoc (KS k0) its with Some c => [(KS k0, c)] | None => [] end
                  | Typing.KDyn => [] end) fs ++ filter (fun kc0 => negb (is_const_key fs (fst kc0))) its) -> In kc its).
  { intros fs H. apply in_app_or in H. destruct H as [H|H].
    - apply in_flat_map in H. destruct H as ([fk sp] & _ & H). simpl in H. destruct fk; [|contradiction].
      destruct (assoc (KS k0) its) eqn:A; [|contradiction]. destruct H as [H|[]]. subst.
      destruct (assoc_in _ _ _ _ A) as (k' & E & I'). apply key_eqb_eq in E. subst. exact I'.
    - apply filter_In in H. tauto. }
  destruct k; auto; destruct (spec_at ev (f_spec fl)) as [sp|]; auto; destruct sp; auto; destruct schema; auto; eapply X; eauto.
Qed.

Lemma exec_dict_conf : forall sc st ps tid tk pa tpth tfl its fs m o deleg st' out,
  Conforms st -> get_at st ps = Some (Node tid tk pa tpth tfl its) -> tk <> KList ->
  spec_at ev (f_spec tfl) = Some (Typing.SDict (Some fs) m) -> scope_ok P sc -> op_tfree o -> kind_ok tk o = true ->
  rebind_like o = false ->
  (forall s o', deleg = (s, o') -> quiet_op (op_rv o) = true -> clearing_op (op_rv o) = false -> Conforms s) ->
  exec_dict q false ev sc st ps tid tk tpth tfl its fs (Typing.SDict (Some fs) m) o deleg = (st', out) -> Conforms st'.
Proof.
  intros sc st ps tid tk pa tpth tfl its fs m o deleg st' out C G KL SA S OF K RL DG E.
  destruct (target_children _ _ _ _ _ _ _ _ _ _ C G) as (NO & F).
  assert (SP : forall cid ck pa0 pt cfl its0, get_at st ps = Some (Node cid ck pa0 pt cfl its0) ->
               ck <> KList /\ spec_at ev (f_spec cfl) = Some (Typing.SDict (Some fs) m)).
  { intros. rewrite G in H. inv H. auto. }
  assert (MISS : rv_free (to_rv (mkRtv false (RLeaf LMissing) (Some Typing.PMissing)))) by exact I.
  unfold op_tfree in OF.
  destruct o; simpl in RL; try discriminate; unfold exec_dict in E; simpl in OF;
    try (destruct tk; try congruence; simpl in K; discriminate; fail);
    try (eapply DG; [exact E|reflexivity|reflexivity]; fail).
  - (* DSet *) inv OF.
    destruct (treats_as_sealed sc tfl); [inv E; auto|].
    destruct (negb (writable_via_accessors sc tfl)); [inv E; auto|].
    destruct (tdprim q false ev sc st ps k v fs) as [st1 p] eqn:L.
    pose proof (tdprim_conf _ _ _ _ _ _ _ _ _ _ _ _ C GE S SP L). destruct p; fin E.
  - (* DDel *)
    destruct (treats_as_sealed sc tfl); [inv E; auto|].
    destruct (negb (writable_via_accessors sc tfl)); [inv E; auto|].
    destruct (negb (has_key k its)); [inv E; auto|].
    match type of E with match ?t with _ => _ end = _ => destruct t as [st1 p] eqn:L end.
    pose proof (tdprim_conf _ _ _ _ _ _ _ _ _ _ _ _ C GE S SP L). destruct p; fin E.
  - (* DPop *)
    destruct (assoc k its); [|destruct d; inv E; auto].
    destruct (treats_as_sealed sc tfl); [inv E; auto|].
    match type of E with match ?t with _ => _ end = _ => destruct t as [st1 p] eqn:L end.
    pose proof (tdprim_conf _ _ _ _ _ _ _ _ _ _ _ _ C GE S SP L). destruct p; fin E.
  - (* DClear *)
    destruct (treats_as_sealed sc tfl); [inv E; auto|].
    set (pa' := accepts_partial sc tfl) in *.
    destruct (Typing.apply pa' (Typing.SDict (Some fs) m) (Typing.PDict [])) as [v0|] eqn:A; [|inv E; auto].
    remember (prune (Some (Typing.SDict (Some fs) m)) v0) as v' eqn:EV. clear EV.
    destruct v' as [ | | b0 | z0 | q0 | s0 | l0 | l0 | kvs | c0 i0]; try (simpl in E; inv E; exact C).
    rewrite tlit_pdict in E. cbn iota beta in E. simpl bound_opt in E.
    match type of E with (if negb ?c then _ else _) = _ => destruct c eqn:SO; [|simpl in E; inv E; auto] end.
    simpl negb in E. cbn iota in E.
    destruct (stored_ok_parts _ _ _ _ SO) as (LP & ND & PR & FX).
    assert (LP' : lit_pv (tlit ev pa' (Some (Typing.SDict (Some fs) m)) (Typing.PDict kvs)) = Typing.PDict kvs).
    { rewrite tlit_pdict. exact LP. }
    pose proof (GE _ _ SA) as Gs.
    rewrite build_node in E. cbv zeta in E. cbn [f_partial] in E.
    destruct (dict_members_conf ev P tk kvs fs m pa' pa' (next_id st) tpth KL Gs FX LP' ND PR) as (M1 & M2 & M3).
    destruct (build_items build tk pa' (next_id st) tpth (tlit_dict ev pa' (Some (Typing.SDict (Some fs) m)) kvs) 0 (N.succ (next_id st))) as [its0 nx'] eqn:BI.
    cbn [fst] in M1, M2, M3. unfold ctor_seal in E. cbn [f_sealed nitems] in E.
    assert (C1 : Conforms (update_at (with_next st nx') ps
                   (set_items (map (fun kc : key * node => (fst kc, set_par (Some tid) (snd kc))) its0)))).
    { eapply (conforms_replace_items ev P st (with_next st nx') ps tid tk pa tpth tfl its); [ |exact G|right; reflexivity| | ].
      - apply conforms_with_next; auto.
      - eapply node_ok_faces.
        + apply (faces_map (fun kc => set_par (Some tid) (snd kc))). intros kv. apply face_set_par.
        + symmetry. apply (count_present_map (fun kc => set_par (Some tid) (snd kc))). intros kv. destruct (snd kv); auto.
        + unfold SymCoreTypedConf.node_ok. rewrite SA.
          assert (B : Forall (fun kc => exists f, dict_field fs (fst kc) = Some f /\ child_ok ev (part P tfl) f (snd kc)) its0 /\
                      (forall s0, Typing.has_const s0 fs = true -> has_key (KS s0) its0 = true)).
          { split; auto. eapply Forall_impl; [|exact M2]. intros kc (f & DF & CO). exists f. split; auto.
            eapply child_ok_mono; [|exact CO]. intros PT. unfold pa' in PT. apply orb_true_iff in PT. destruct PT as [PT|PT].
            - eapply accepts_partial_cases; eauto.
            - unfold part. rewrite PT. apply orb_true_r. }
          destruct tk; try congruence; exact B.
      - apply Forall_map. simpl. eapply Forall_impl; [|exact M1]. intros kc Cc. apply cnode_set_par. auto. }
    assert (C2 : Conforms (detach_all (update_at (with_next st nx') ps
                   (set_items (map (fun kc : key * node => (fst kc, set_par (Some tid) (snd kc))) its0)))
                   (ordered_items ev (Node tid tk None tpth tfl its)))).
    { apply detach_all_conf; auto. apply Forall_forall. intros kc I0. apply ordered_items_in in I0. simpl in I0.
      rewrite Forall_forall in F. auto. }
    inv E. destruct (notify_on sc); auto using fix_chain_conf.
  - (* DSetDefault *) inv OF.
    assert (X : forall st1 p, tdprim q false ev sc st ps k v fs = (st1, p) -> Conforms st1) by (intros; eapply tdprim_conf; eauto).
    destruct (assoc k its) as [old|].
    + destruct (is_missing old); [|inv E; auto].
      destruct (treats_as_sealed sc tfl); [inv E; auto|].
      destruct (negb (writable_via_accessors sc tfl)); [inv E; auto|].
      destruct (tdprim q false ev sc st ps k v fs) as [st1 p] eqn:L. specialize (X _ _ eq_refl).
      destruct p; fin E.
    + destruct (treats_as_sealed sc tfl); [inv E; auto|].
      destruct (negb (writable_via_accessors sc tfl)); [inv E; auto|].
      destruct (tdprim q false ev sc st ps k v fs) as [st1 p] eqn:L. specialize (X _ _ eq_refl).
      destruct p; fin E.
  - (* OSet *) inv OF. destruct tk; try (inv E; auto; fail).
    destruct (negb (existsb (key_eqb k) (class_fields cls))); [inv E; auto|].
    destruct (treats_as_sealed sc tfl); [inv E; auto|].
    destruct (negb (writable_via_accessors sc tfl)); [inv E; auto|].
    destruct (tdprim q false ev sc st ps k v fs) as [st1 p] eqn:L.
    pose proof (tdprim_conf _ _ _ _ _ _ _ _ _ _ _ _ C GE S SP L). destruct p; fin E.
Qed.

Lemma kind_ok_rv : forall k o, kind_ok k (op_rv o) = kind_ok k o.
Proof. destruct o; unfold op_rv; simpl; auto; rewrite ?mapM_Some_map, ?mapM_snd_Some_map; simpl; auto. Qed.
Lemma Forall_map_snd : forall K A B (Q : B -> Prop) (g : A -> B) (kvs : list (K * A)),
  Forall (fun x => Q (g x)) (map snd kvs) -> Forall (fun kv => Q (snd kv)) (map (fun kv => (fst kv, g (snd kv))) kvs).
Proof. induction kvs as [|[k a] r IH]; simpl; intros H; auto. inv H. constructor; auto. Qed.
Lemma Forall_map_plain : forall A B (Q : B -> Prop) (g : A -> B) (l : list A),
  Forall (fun x => Q (g x)) l -> Forall Q (map g l).
Proof. induction l; simpl; intros H; auto. inv H. constructor; auto. Qed.
Lemma Forall_of_map_snd : forall K A (Q : A -> Prop) (kvs : list (K * A)),
  Forall Q (map snd kvs) -> Forall (fun kv => Q (snd kv)) kvs.
Proof. induction kvs as [|[k a] r IH]; simpl; intros H; auto. inv H. constructor; auto. Qed.
Lemma Forall_update_paths : forall (Q : rtv -> Prop) (kvs : list (key * rtv)),
  Forall Q (map snd kvs) -> Forall (fun kv : list key * rtv => Q (snd kv)) (map (fun kv => ([fst kv], snd kv)) kvs).
Proof. induction kvs as [|[k a] r IH]; simpl; intros H; auto. inv H. constructor; auto. Qed.
Lemma op_tfree_free : forall o, op_tfree o -> op_free (op_rv o).
Proof.
  unfold op_tfree. destruct o; unfold op_rv; simpl; intros H; auto;
    rewrite ?mapM_Some_map, ?mapM_snd_Some_map; simpl; auto;
    try (inv H; assumption); try (apply Forall_map_plain; exact H); try (apply Forall_map_snd; exact H).
Qed.
Lemma exec_op_nonlist : forall tk o, tk <> KList -> kind_ok tk o = true -> rebind_like o = false -> exec_op (op_rv o) = true.
Proof.
  intros tk o KL K RL. destruct o; simpl in RL; try discriminate; unfold op_rv; simpl;
    rewrite ?mapM_Some_map, ?mapM_snd_Some_map; simpl; auto; destruct tk; simpl in K; congruence.
Qed.

Lemma exec2_conf : forall sc st ps tid tk pa tpth tfl its o st' out,
  Conforms st -> get_at st ps = Some (Node tid tk pa tpth tfl its) -> kind_ok tk o = true -> scope_ok P sc -> op_tfree o ->
  exec2 q false ev sc st ps tid tk tpth tfl its o = (st', out) -> Conforms st'.
Proof.
  intros sc st ps tid tk pa tpth tfl its o st' out C G K S OF E.
  destruct (target_children _ _ _ _ _ _ _ _ _ _ C G) as (NO & F).
  pose proof (op_tfree_free _ OF) as OFR.
  assert (DGU : checks_members ev (Node tid tk pa tpth tfl its) = false -> exec_op (op_rv o) = true ->
                forall s o', exec q sc st ps tid tk tpth tfl its (op_rv o) = (s, o') -> Conforms s).
  { intros CM XO s o' X. eapply exec_conf; eauto. rewrite kind_ok_rv. auto. }
  assert (DGQ : quiet_op (op_rv o) = true -> (clearing_op (op_rv o) = true -> node_ok tk tfl []) -> exec_op (op_rv o) = true ->
                forall s o', exec q sc st ps tid tk tpth tfl its (op_rv o) = (s, o') -> Conforms s).
  { intros Q CL XO s o' X. eapply exec_conf; eauto. rewrite kind_ok_rv. auto. }
  assert (QX : quiet_op (op_rv o) = true -> (forall n, o <> LIMul n) -> exec_op (op_rv o) = true).
  { clear. intros Q N. destruct o; unfold op_rv in *; simpl in *; rewrite ?mapM_Some_map, ?mapM_snd_Some_map in *; simpl in *; try discriminate; auto.
    exfalso. eapply N; eauto. }
  unfold exec2 in E. unfold op_tfree in OF.
  destruct (rebind_like o) eqn:RL.
  - destruct o; simpl in RL; try discriminate; simpl in OF.
    + (* DUpdate *) destruct tk; simpl in K; try discriminate.
      eapply trebind_core_conf; [exact GE|exact C|exact S| |exact E]. apply (Forall_update_paths (fun x => rv_free (to_rv x))). exact OF.
    + destruct tk; simpl in K; try discriminate.
      eapply trebind_core_conf; [exact GE|exact C|exact S| |exact E]. apply (Forall_update_paths (fun x => rv_free (to_rv x))). exact OF.
    + destruct pvs as [|pv pvs']; [inv E; auto|].
      match type of E with (if ?c then _ else _) = _ => destruct c; [inv E; auto|] end.
      eapply trebind_core_conf; [exact GE|exact C|exact S| |exact E]. apply (Forall_of_map_snd _ _ (fun x => rv_free (to_rv x))). exact OF.
  - assert (E' : match tk, spec_at ev (f_spec tfl) with
                 | KList, Some (Typing.SList e mn mx m) => exec_list q false ev sc st ps tid tpth tfl its e mn mx (Typing.SList e mn mx m) o (exec q sc st ps tid tk tpth tfl its (op_rv o))
                 | KList, _ => exec_ulist q false ev sc st ps tfl its o (exec q sc st ps tid tk tpth tfl its (op_rv o))
                 | KDict, Some (Typing.SDict (Some fs) m) => exec_dict q false ev sc st ps tid tk tpth tfl its fs (Typing.SDict (Some fs) m) o (exec q sc st ps tid tk tpth tfl its (op_rv o))
                 | KObj _, Some (Typing.SDict (Some fs) m) => exec_dict q false ev sc st ps tid tk tpth tfl its fs (Typing.SDict (Some fs) m) o (exec q sc st ps tid tk tpth tfl its (op_rv o))
                 | KDict, Some (Typing.SDict None _) => match o with DPopItem => (st, Err EValue) | _ => exec q sc st ps tid tk tpth tfl its (op_rv o) end
                 | _, _ => exec q sc st ps tid tk tpth tfl its (op_rv o)
                 end = (st', out)).
    { destruct o; simpl in RL; try discriminate; exact E. }
    clear E. unfold checks_members, node_spec in DGU.
    destruct tk.
    + (* a dict *)
      destruct (spec_at ev (f_spec tfl)) as [sp|] eqn:SA.
      * destruct sp; try (eapply DGU; eauto; eapply exec_op_nonlist; eauto; congruence).
        destruct schema as [fs|].
        -- eapply exec_dict_conf; eauto; [congruence|].
           intros s o' X Q CL. eapply DGQ; eauto; [intros; congruence|].
           apply QX; auto. intros n0 ->. unfold op_rv in CL. simpl in CL. discriminate.
        -- destruct o; try (eapply DGU; eauto; eapply exec_op_nonlist; eauto; congruence). inv E'. auto.
      * eapply DGU; eauto. eapply exec_op_nonlist; eauto. congruence.
    + (* a list *)
      destruct (spec_at ev (f_spec tfl)) as [sp|] eqn:SA.
      * destruct sp; try (eapply exec_ulist_conf; eauto; congruence).
        eapply exec_list_conf; eauto. intros pvs ->. simpl in RL. discriminate.
      * eapply exec_ulist_conf; eauto. congruence.
    + (* an object *)
      destruct (spec_at ev (f_spec tfl)) as [sp|] eqn:SA.
      * destruct sp; try (eapply DGU; eauto; eapply exec_op_nonlist; eauto; congruence).
        destruct schema as [fs|]; [|eapply DGU; eauto; eapply exec_op_nonlist; eauto; congruence].
        eapply exec_dict_conf; eauto; [congruence|].
        intros s o' X Q CL. eapply DGQ; eauto; [intros; congruence|].
        apply QX; auto. intros n0 ->. unfold op_rv in CL. simpl in CL. discriminate.
      * eapply DGU; eauto. eapply exec_op_nonlist; eauto. congruence.
Qed.

Theorem step2_conf : forall st o, Conforms st -> scope_ok P (o2_scope o) -> Conforms (fst (step2 q false ev st o)).
Proof.
  intros st o C S. unfold step2.
  destruct (get_at st (o2_pos o)) as [[|tid tk tpa tpth tfl its]|] eqn:G; auto.
  destruct (negb (kind_ok tk (o2_op o))) eqn:K; auto.
  destruct (op_mapM (resolve_t st) (o2_op o)) as [ro|] eqn:R; auto.
  destruct (op_mapM_shape _ _ _ _ _ tk R) as (_ & _ & Kq).
  destruct (negb (guard ev (o2_scope o) st (o2_pos o) (Node tid tk tpa tpth tfl its) ro)); auto.
  destruct (exec2 q false ev (o2_scope o) st (o2_pos o) tid tk tpth tfl its ro) as [st1 out] eqn:E. simpl.
  apply conforms_gc. eapply exec2_conf; eauto.
  - rewrite Kq. apply negb_false_iff in K. exact K.
  - eapply resolve_op_tfree; eauto.
Qed.

Theorem run_ops2_conf : forall ops st, Conforms st -> Forall (fun o => scope_ok P (o2_scope o)) ops -> Conforms (run_ops2 q false ev st ops).
Proof.
  unfold run_ops2. induction ops as [|o r IH]; simpl; intros st C F; auto. inv F.
  apply IH; auto. apply step2_conf; auto.
Qed.
End Exec.

(* --- the initial forest ---------------------------------------------------------------------------------------------------- *)
Lemma init_root_conf : forall st r, good_env ev -> Conforms st -> Conforms (fst (init_root false ev st r)).
Proof.
  intros st r GE C. unfold init_root. destruct r as [l|k rf fl v].
  - destruct l as [lf|k fl pl its]; [simpl; apply conforms_add_slot; simpl; auto|].
    destruct (lit_valid (LitNode k fl pl its) && lit_no_obj (LitNode k fl pl its)) eqn:V; [|simpl; apply conforms_add_slot; simpl; auto].
    destruct (build false None [] (LitNode k fl pl its) (next_id st)) as [n nx] eqn:B. simpl.
    apply conforms_add_root; [apply conforms_with_next; auto|].
    replace n with (fst (build false None [] (LitNode k fl pl its) (next_id st))) by (rewrite B; auto).
    apply cnode_build_free. apply lit_no_obj_free. apply andb_true_iff in V. tauto.
  - destruct (troot false ev st k rf fl v) as [[n st1]|e] eqn:T; simpl.
    + destruct (troot_conf _ _ _ _ _ _ _ GE T) as (Cn & R). apply conforms_add_root; auto. eapply conforms_same_roots; eauto.
    + apply conforms_add_slot; simpl; auto.
Qed.
Lemma init_roots_conf : forall rs st, good_env ev -> Conforms st -> Conforms (fst (init_roots false ev st rs)).
Proof.
  induction rs as [|r rest IH]; simpl; intros st GE C; auto.
  pose proof (init_root_conf st r GE C) as C1. destruct (init_root false ev st r) as [st1 e]. simpl in C1.
  specialize (IH st1 GE C1). destruct (init_roots false ev st1 rest) as [st2 es]. simpl in *. exact IH.
Qed.
Lemma conforms_empty : Conforms empty_state.
Proof. constructor. Qed.
End Ops.

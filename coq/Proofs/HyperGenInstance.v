(* HyperGenInstance.v — per-run obligations: the definitions regenerated from the current source (Gen/HyperDefs.v) are what
   the hand-transcribed model Model/Hyper.v computes. *)
From PG Require Import Common.Tactics Model.Geno Model.Hyper Gen.HyperDefs.

(* Float._decode inside the concrete decoder *)
Lemma gen_float_decode : forall cdec w lo hi a d r, w (TFloat lo hi a) = true ->
  cdec_ cdec w (TFloat lo hi a) (d :: r) =
  match float_decode_gen lo hi (dvalue d) with Ok f => Ok (TLeaf (LfFlt f), r) | Err e => Err e end.
Proof.
  intros. simpl. rewrite H. unfold float_decode_gen. destruct (dvalue d); auto.
  destruct (f <? lo)%Z eqn:A, (f >? hi)%Z eqn:B; rewrite Z.gtb_ltb in B;
    destruct (lo <=? f)%Z eqn:C, (f <=? hi)%Z eqn:D; simpl; auto; lia.
Qed.

(* Float.encode inside the encoder *)
Lemma gen_float_encode : forall cenc w q lo hi a v, w (TFloat lo hi a) = true ->
  enc cenc w q (TFloat lo hi a) v =
  match v with
  | TLeaf l => match float_encode_gen lo hi l with Ok f => Ok [PFloat f] | Err e => Err e end
  | _ => Err E_VALUE end.
Proof.
  intros. simpl. rewrite H. destruct v; auto. unfold float_encode_gen. destruct l; auto.
  destruct (f <? lo)%Z eqn:A, (f >? hi)%Z eqn:B; rewrite Z.gtb_ltb in B;
    destruct (lo <=? f)%Z eqn:C, (f <=? hi)%Z eqn:D; simpl; auto; lia.
Qed.

(* try_encode swallows exactly the classes [catchable] says *)
Lemma gen_caught : forall e, catchable e = existsb (Nat.eqb e) caught_gen.
Proof. intros. unfold catchable, caught_gen, E_VALUE, E_KEY. simpl. rewrite orb_false_r. reflexivity. Qed.

(* the index test of Choices._decode *)
Lemma gen_pick : forall z n, pick (VInt z) n = Err E_VALUE <-> pick_refuses_gen z (Z.of_nat n) = true.
Proof.
  intros. unfold pick, pick_refuses_gen. rewrite Z.geb_leb.
  destruct (Z.of_nat n <=? z)%Z; [tauto|]. split; [|discriminate].
  destruct (0 <=? z)%Z; [discriminate|]. destruct (- Z.of_nat n <=? z)%Z; discriminate.
Qed.

(* Choices.encode enforces what decode enforces (the model's [enc] checks [constraint_ok dist srt] unconditionally) *)
Lemma gen_encode_checks : encode_checks_distinct_gen = true /\ encode_checks_sorted_gen = true.
Proof. split; reflexivity. Qed.

Definition generated_agree : Prop :=
  (forall cdec w lo hi a d r, w (TFloat lo hi a) = true ->
     cdec_ cdec w (TFloat lo hi a) (d :: r) =
     match float_decode_gen lo hi (dvalue d) with Ok f => Ok (TLeaf (LfFlt f), r) | Err e => Err e end) /\
  (forall cenc w q lo hi a v, w (TFloat lo hi a) = true ->
     enc cenc w q (TFloat lo hi a) v =
     match v with
     | TLeaf l => match float_encode_gen lo hi l with Ok f => Ok [PFloat f] | Err e => Err e end
     | _ => Err E_VALUE end) /\
  (forall e, catchable e = existsb (Nat.eqb e) caught_gen) /\
  (forall z n, pick (VInt z) n = Err E_VALUE <-> pick_refuses_gen z (Z.of_nat n) = true) /\
  encode_checks_distinct_gen = true /\ encode_checks_sorted_gen = true.
Lemma generated_agree_holds : generated_agree.
Proof.
  exact (conj gen_float_decode (conj gen_float_encode (conj gen_caught (conj gen_pick gen_encode_checks)))).
Qed.

(* SymCoreEventsQuery.v -- asking a node for a derived fact: with valid tables the answer is the fact of the current contents and
   the tables stay valid. *)
From PG Require Import Common.Tactics Model.SymCoreDefs Model.SymCoreOps Model.SymCoreSpec Model.SymCoreEvents Model.SymCoreEventsSpec
     Proofs.SymCoreBase Proofs.SymCoreWF Proofs.SymCoreClone.
From Coq Require Import NArith.

Lemma lookup_cons : forall A i j (v : A) t, lookup i ((j, v) :: t) = if N.eqb i j then Some v else lookup i t.
Proof. reflexivity. Qed.

(* ids of the symbolic nodes below *)
Lemma subnodes_ids : forall n, map nid0 (subnodes n) = ids n.
Proof.
  induction n using node_ind'; simpl; auto. f_equal.
  induction its as [|[ky c] r IHr]; simpl; auto. inv H. rewrite map_app. simpl in H2. rewrite H2. f_equal. auto.
Qed.
Lemma subnodes_node : forall n m, In m (subnodes n) -> is_node m = true.
Proof.
  induction n using node_ind'; simpl; intros; try contradiction. destruct H0 as [E|I]. subst; auto.
  apply in_flat_map in I. destruct I as [[ky c] [I1 I2]]. rewrite Forall_forall in H. eapply (H _ I1); eauto.
Qed.

(* what a query may add to a table: only entries (id of a node below, its value); it never changes an entry *)
Definition adds_only {A} (val : node -> A) (n : node) (t t' : list (N * A)) : Prop :=
  (forall j v, lookup j t = Some v -> lookup j t' = Some v) /\
  (forall j v, lookup j t' = Some v -> lookup j t = Some v \/ exists m, In m (subnodes n) /\ nid0 m = j /\ v = val m).
Lemma adds_only_refl : forall A (val : node -> A) n t, adds_only val n t t.
Proof. split; auto. Qed.
Lemma adds_only_trans : forall A (val : node -> A) n1 n2 t1 t2 t3 (sub : node -> Prop),
  adds_only val n1 t1 t2 -> adds_only val n2 t2 t3 ->
  (forall j v, lookup j t1 = Some v -> lookup j t3 = Some v) /\
  (forall j v, lookup j t3 = Some v -> lookup j t1 = Some v \/
      exists m, (In m (subnodes n1) \/ In m (subnodes n2)) /\ nid0 m = j /\ v = val m).
Proof.
  intros A val n1 n2 t1 t2 t3 _ [M1 N1] [M2 N2]. split; auto. intros j v L.
  destruct (N2 _ _ L) as [L2|(m & I & E & V)].
  - destruct (N1 _ _ L2) as [L1|(m & I & E & V)]; auto. right. exists m. auto.
  - right. exists m. auto.
Qed.

Definition ids_items' (its : list (key * node)) : list N := flat_map (fun kv => ids (snd kv)) its.
Lemma in_subnodes_ids : forall n m, In m (subnodes n) -> In (nid0 m) (ids n).
Proof. intros. rewrite <- subnodes_ids. apply in_map. auto. Qed.

(* --- sym_puresymbolic ------------------------------------------------------------------------------------------------------------- *)
Definition go_pure :=
  fix go (l : list (key * node)) (t : list (N * bool)) : bool * list (N * bool) :=
    match l with
    | [] => (false, t)
    | (_, c) :: r => let '(b, t1) := q_pure t c in if b then (true, t1) else go r t1
    end.
Lemma q_pure_node : forall i k pa pt fl its t,
  q_pure t (Node i k pa pt fl its) =
  match lookup i t with
  | Some v => (v, t)
  | None => let '(v, t') := go_pure its t in (v, (i, v) :: t')
  end.
Proof. reflexivity. Qed.

Definition items_nodes (its : list (key * node)) : list node := flat_map (fun kv => subnodes (snd kv)) its.
Definition adds_items {A} (val : node -> A) (its : list (key * node)) (t t' : list (N * A)) : Prop :=
  (forall j v, lookup j t = Some v -> lookup j t' = Some v) /\
  (forall j v, lookup j t' = Some v -> lookup j t = Some v \/ exists m, In m (items_nodes its) /\ nid0 m = j /\ v = val m).

Lemma go_pure_sound : forall its,
  Forall (fun kv => forall t, NoDup (ids (snd kv)) -> (forall m, In m (subnodes (snd kv)) -> ok_tbl val_pure t m) ->
                    fst (q_pure t (snd kv)) = val_pure (snd kv) /\ adds_only val_pure (snd kv) t (snd (q_pure t (snd kv)))) its ->
  forall t, NoDup (ids_items' its) -> (forall m, In m (items_nodes its) -> ok_tbl val_pure t m) ->
  fst (go_pure its t) = existsb (fun kv => val_pure (snd kv)) its /\ adds_items val_pure its t (snd (go_pure its t)).
Proof.
  induction its as [|[ky c] r IH]; intros F t ND V.
  - simpl. split; auto. split; auto.
  - inv F. simpl in H1. unfold ids_items' in ND. simpl in ND. apply nodup_app_inv in ND. destruct ND as (ND1 & ND2 & DJ).
    assert (Vc : forall m, In m (subnodes c) -> ok_tbl val_pure t m).
    { intros. apply V. unfold items_nodes. simpl. apply in_or_app. auto. }
    destruct (H1 t ND1 Vc) as [E1 [M1 N1]].
    simpl. destruct (q_pure t c) as [b t1] eqn:Q. simpl in *. subst b.
    destruct (val_pure c) eqn:VC.
    + simpl. split; auto. split; auto. intros j v L. destruct (N1 _ _ L) as [|(m & I & E & W)]; auto.
      right. exists m. split; auto. unfold items_nodes. simpl. apply in_or_app. auto.
    + assert (Vr : forall m, In m (items_nodes r) -> ok_tbl val_pure t1 m).
      { intros m I v L. destruct (N1 _ _ L) as [L0|(m' & I' & E & W)].
        - apply (V m); auto. unfold items_nodes. simpl. apply in_or_app. auto.
        - exfalso. apply (DJ (nid0 m)).
          + rewrite <- E. apply in_subnodes_ids. auto.
          + unfold items_nodes in I. apply in_flat_map in I. destruct I as [kv [I1 I2]]. apply in_flat_map. exists kv. split; auto.
            apply in_subnodes_ids. auto. }
      destruct (IH H2 t1 ND2 Vr) as [E2 [M2 N2]]. simpl. split; auto. split; auto.
      intros j v L. destruct (N2 _ _ L) as [L1|(m & I & E & W)].
      * destruct (N1 _ _ L1) as [|(m & I & E & W)]; auto. right. exists m. split; auto.
        unfold items_nodes. simpl. apply in_or_app. auto.
      * right. exists m. split; auto. unfold items_nodes. simpl. apply in_or_app. auto.
Qed.

Theorem q_pure_sound : forall n t, NoDup (ids n) -> (forall m, In m (subnodes n) -> ok_tbl val_pure t m) ->
  fst (q_pure t n) = val_pure n /\ adds_only val_pure n t (snd (q_pure t n)).
Proof.
  induction n using node_ind'; intros t ND V.
  - simpl. split; auto. apply adds_only_refl.
  - rewrite q_pure_node. destruct (lookup i t) as [v|] eqn:L.
    + simpl. split; [|apply adds_only_refl]. apply (V (Node i k pa pt fl its)); simpl; auto.
    + simpl in ND. inv ND.
      assert (Vi : forall m, In m (items_nodes its) -> ok_tbl val_pure t m) by (intros; apply V; simpl; auto).
      destruct (go_pure_sound its H t H3 Vi) as [E [M N]].
      destruct (go_pure its t) as [v t'] eqn:G. simpl in *. split; auto. split.
      * intros j w Lj. rewrite lookup_cons. destruct (N.eqb j i) eqn:Eji. apply N.eqb_eq in Eji. congruence. auto.
      * intros j w Lj. rewrite lookup_cons in Lj. destruct (N.eqb j i) eqn:Eji.
        -- apply N.eqb_eq in Eji. inv Lj. right. exists (Node i k pa pt fl its). simpl. auto.
        -- destruct (N _ _ Lj) as [|(m & I & E' & W)]; auto. right. exists m. simpl. auto.
Qed.

Lemma items_nodes_cons : forall ky c r, items_nodes ((ky, c) :: r) = subnodes c ++ items_nodes r.
Proof. reflexivity. Qed.
(* --- sym_missing / sym_nondefault ------------------------------------------------------------------------------------------------------ *)
Section Gen.
Variable lp : kind -> key -> leaf -> list (key * mv).
Variable rc : kind -> bool.
Notation qg := (q_gen lp rc).
Notation vg := (val_gen lp rc).
Definition go_gen (k : kind) :=
  fix go (l : list (key * node)) (t : list (N * mv)) : list (key * mv) * list (N * mv) :=
    match l with
    | [] => ([], t)
    | (ky, c) :: r =>
        match c with
        | Leaf lf => let '(l', t1) := go r t in (lp k ky lf ++ l', t1)
        | Node _ _ _ _ _ _ =>
            if rc k then
              let '(v, t1) := qg t c in
              let '(l', t2) := go r t1 in
              ((if mv_nonempty v then [(ky, v)] else []) ++ l', t2)
            else let '(l', t1) := go r t in ((ky, MRef) :: l', t1)
        end
    end.
Lemma q_gen_node : forall i k pa pt fl its t,
  qg t (Node i k pa pt fl its) =
  match lookup i t with
  | Some v => (v, t)
  | None => let '(l, t') := go_gen k its t in (MSub l, (i, MSub l) :: t')
  end.
Proof. reflexivity. Qed.
Lemma go_gen_cons_node : forall k ky ci ck cpa cpt cfl cits r t,
  go_gen k ((ky, Node ci ck cpa cpt cfl cits) :: r) t =
  if rc k then
    let '(v, t1) := qg t (Node ci ck cpa cpt cfl cits) in
    let '(l', t2) := go_gen k r t1 in ((if mv_nonempty v then [(ky, v)] else []) ++ l', t2)
  else let '(l', t1) := go_gen k r t in ((ky, MRef) :: l', t1).
Proof. reflexivity. Qed.
Lemma go_gen_cons_leaf : forall k ky lf r t,
  go_gen k ((ky, Leaf lf) :: r) t = let '(l', t1) := go_gen k r t in (lp k ky lf ++ l', t1).
Proof. reflexivity. Qed.
Definition item_val (k : kind) (kv : key * node) : list (key * mv) :=
  match snd kv with
  | Leaf lf => lp k (fst kv) lf
  | Node _ _ _ _ _ _ => if rc k then (if mv_nonempty (vg (snd kv)) then [(fst kv, vg (snd kv))] else []) else [(fst kv, MRef)]
  end.
Lemma item_val_node : forall k ky ci ck cpa cpt cfl cits,
  item_val k (ky, Node ci ck cpa cpt cfl cits) =
  if rc k then (if mv_nonempty (vg (Node ci ck cpa cpt cfl cits)) then [(ky, vg (Node ci ck cpa cpt cfl cits))] else [])
  else [(ky, MRef)].
Proof. reflexivity. Qed.
Lemma val_gen_node : forall i k pa pt fl its, vg (Node i k pa pt fl its) = MSub (flat_map (item_val k) its).
Proof. reflexivity. Qed.

Lemma go_gen_sound : forall k its,
  Forall (fun kv => forall t, NoDup (ids (snd kv)) -> (forall m, In m (subnodes (snd kv)) -> ok_tbl vg t m) ->
                    fst (qg t (snd kv)) = vg (snd kv) /\ adds_only vg (snd kv) t (snd (qg t (snd kv)))) its ->
  forall t, NoDup (ids_items' its) -> (forall m, In m (items_nodes its) -> ok_tbl vg t m) ->
  fst (go_gen k its t) = flat_map (item_val k) its /\ adds_items vg its t (snd (go_gen k its t)).
Proof.
  induction its as [|[ky c] r IH]; intros F t ND V.
  - simpl. split; auto. split; auto.
  - inv F. simpl in H1. unfold ids_items' in ND. simpl in ND. apply nodup_app_inv in ND. destruct ND as (ND1 & ND2 & DJ).
    assert (Vr0 : forall m, In m (items_nodes r) -> ok_tbl vg t m).
    { intros. apply V. rewrite items_nodes_cons. apply in_or_app. auto. }
    assert (widen : forall t', adds_items vg r t t' -> adds_items vg ((ky, c) :: r) t t').
    { intros t' [M N]. split; auto. intros j v L. destruct (N _ _ L) as [|(m & I & E & W)]; auto. right. exists m. split; auto.
      rewrite items_nodes_cons. apply in_or_app. auto. }
    destruct c as [lf|ci ck cpa cpt cfl cits].
    + (* a leaf item *)
      destruct (IH H2 t ND2 Vr0) as [E2 A2]. rewrite go_gen_cons_leaf. destruct (go_gen k r t) as [l' t1]. cbn [fst snd] in *. subst l'.
      split; auto.
    + destruct (rc k) eqn:RC.
      * assert (Vc : forall m, In m (subnodes (Node ci ck cpa cpt cfl cits)) -> ok_tbl vg t m).
        { intros. apply V. rewrite items_nodes_cons. apply in_or_app. auto. }
        destruct (H1 t ND1 Vc) as [E1 [M1 N1]].
        rewrite go_gen_cons_node, RC.
        destruct (qg t (Node ci ck cpa cpt cfl cits)) as [v t1] eqn:Q. simpl fst in E1. simpl snd in M1, N1. subst v.
        assert (Vr : forall m, In m (items_nodes r) -> ok_tbl vg t1 m).
        { intros m I v L. destruct (N1 _ _ L) as [L0|(m' & I' & E & W)].
          - apply (Vr0 m); auto.
          - exfalso. apply (DJ (nid0 m)).
            + rewrite <- E. apply in_subnodes_ids. auto.
            + unfold items_nodes in I. apply in_flat_map in I. destruct I as [kv [I1 I2]]. apply in_flat_map. exists kv. split; auto.
              apply in_subnodes_ids. auto. }
        destruct (IH H2 t1 ND2 Vr) as [E2 [M2 N2]].
        destruct (go_gen k r t1) as [l' t2]. cbn [fst snd] in *. subst l'. cbn [flat_map]. rewrite item_val_node, RC.
        split; auto. split; auto.
        intros j v L. destruct (N2 _ _ L) as [L1|(m & I & E & W)].
        -- destruct (N1 _ _ L1) as [|(m & I & E & W)]; auto. right. exists m. split; auto.
           rewrite items_nodes_cons. apply in_or_app. auto.
        -- right. exists m. split; auto. rewrite items_nodes_cons. apply in_or_app. auto.
      * destruct (IH H2 t ND2 Vr0) as [E2 A2]. rewrite go_gen_cons_node, RC.
        destruct (go_gen k r t) as [l' t1]. cbn [fst snd] in *. subst l'. cbn [flat_map]. rewrite item_val_node, RC. split; auto.
Qed.

Theorem q_gen_sound : forall n t, NoDup (ids n) -> (forall m, In m (subnodes n) -> ok_tbl vg t m) ->
  fst (qg t n) = vg n /\ adds_only vg n t (snd (qg t n)).
Proof.
  induction n using node_ind'; intros t ND V.
  - simpl. split; auto. apply adds_only_refl.
  - rewrite q_gen_node. destruct (lookup i t) as [v|] eqn:L.
    + simpl. split; [|apply adds_only_refl]. apply (V (Node i k pa pt fl its)); simpl; auto.
    + simpl in ND. inv ND.
      assert (Vi : forall m, In m (items_nodes its) -> ok_tbl vg t m) by (intros; apply V; simpl; auto).
      destruct (go_gen_sound k its H t H3 Vi) as [E [M NN]].
      destruct (go_gen k its t) as [l t'] eqn:G. simpl fst in E. simpl snd in M, NN. subst l. rewrite (val_gen_node i k pa pt fl its).
      split; auto. split.
      * intros j w Lj. simpl snd. rewrite lookup_cons. destruct (N.eqb j i) eqn:Eji. apply N.eqb_eq in Eji. congruence. auto.
      * intros j w Lj. simpl snd in Lj. rewrite lookup_cons in Lj. destruct (N.eqb j i) eqn:Eji.
        -- apply N.eqb_eq in Eji. inv Lj. right. exists (Node i k pa pt fl its). rewrite (val_gen_node i k pa pt fl its). simpl. auto.
        -- destruct (NN _ _ Lj) as [|(m & I & E' & W)]; auto. right. exists m. simpl. auto.
Qed.
End Gen.

(* --- on a well-formed forest ------------------------------------------------------------------------------------------------------------ *)
From PG Require Import Proofs.SymCoreWFOps Proofs.SymCoreIds.
Lemma live_ids : forall st, map nid0 (live_nodes st) = all_ids st.
Proof.
  intros. unfold live_nodes, all_ids. induction (roots st) as [|[t|i] r IH]; simpl; auto.
  rewrite map_app, subnodes_ids, IH. auto.
Qed.
Lemma nodup_map_inj : forall A B (f : A -> B) l a b, NoDup (map f l) -> In a l -> In b l -> f a = f b -> a = b.
Proof.
  induction l; simpl; intros; try contradiction. inv H. destruct H0, H1; subst; auto.
  - exfalso. apply H5. rewrite H2. apply in_map. auto.
  - exfalso. apply H5. rewrite <- H2. apply in_map. auto.
Qed.
Theorem live_unique : forall st n m, WFI st -> In n (live_nodes st) -> In m (live_nodes st) -> nid0 n = nid0 m -> n = m.
Proof.
  intros st n m [_ [ND _]] I1 I2 E. eapply (nodup_map_inj _ _ nid0); eauto. rewrite live_ids. auto.
Qed.
Lemma subnodes_trans : forall t n m, In n (subnodes t) -> In m (subnodes n) -> In m (subnodes t).
Proof.
  induction t using node_ind'; simpl; intros; try contradiction. destruct H0 as [E|I].
  - subst. auto.
  - right. apply in_flat_map in I. destruct I as [kv [I1 I2]]. apply in_flat_map. exists kv. split; auto.
    rewrite Forall_forall in H. eapply H; eauto.
Qed.
Lemma subnodes_nodup : forall t n, NoDup (ids t) -> In n (subnodes t) -> NoDup (ids n).
Proof.
  induction t using node_ind'; simpl; intros; try contradiction. destruct H1 as [E|I].
  - subst. auto.
  - inv H0. apply in_flat_map in I. destruct I as [kv [I1 I2]]. rewrite Forall_forall in H. eapply (H _ I1); eauto.
    clear - H4 I1. induction its; simpl in *; try contradiction. apply nodup_app_inv in H4. destruct I1; subst; tauto.
Qed.
Lemma live_sub : forall st n m, In n (live_nodes st) -> In m (subnodes n) -> In m (live_nodes st).
Proof.
  intros. unfold live_nodes in *. apply in_flat_map in H. destruct H as [s [I1 I2]]. apply in_flat_map. exists s. split; auto.
  destruct s; try contradiction. eapply subnodes_trans; eauto.
Qed.
Lemma live_nodup : forall st n, WFI st -> In n (live_nodes st) -> NoDup (ids n).
Proof.
  intros st n [_ [ND _]] I. unfold live_nodes in I. apply in_flat_map in I. destruct I as [s [I1 I2]]. destruct s as [t|]; try contradiction.
  eapply subnodes_nodup; eauto. unfold all_ids in ND. clear - ND I1. induction (roots st); simpl in *; try contradiction.
  apply nodup_app_inv in ND. destruct I1; subst; simpl in *; tauto.
Qed.
Lemma live_below : forall st n, WFI st -> In n (live_nodes st) -> (nid0 n < next_id st)%N.
Proof.
  intros st n [_ [_ B]] I. unfold ids_below in B. rewrite Forall_forall in B. apply B. rewrite <- live_ids. apply in_map. auto.
Qed.

(* one table: asking a live node keeps the table valid for every live node, below the counter, and answers with the value of the contents *)
Section OneTable.
Context {A : Type}.
Variable val : node -> A.
Variable ask : list (N * A) -> node -> A * list (N * A).
Hypothesis ask_sound : forall n t, NoDup (ids n) -> (forall m, In m (subnodes n) -> ok_tbl val t m) ->
  fst (ask t n) = val n /\ adds_only val n t (snd (ask t n)).
Lemma ask_live : forall st t n, WFI st -> In n (live_nodes st) ->
  (forall m, In m (live_nodes st) -> ok_tbl val t m) -> dom_below (next_id st) t ->
  fst (ask t n) = val n /\ (forall m, In m (live_nodes st) -> ok_tbl val (snd (ask t n)) m) /\ dom_below (next_id st) (snd (ask t n)).
Proof.
  intros st t n W I V D.
  destruct (ask_sound n t (live_nodup _ _ W I)) as [E [M NN]]. { intros. apply V. eapply live_sub; eauto. }
  split; auto. split.
  - intros m Im v L. destruct (NN _ _ L) as [L0|(m' & I' & E' & W')].
    + apply V; auto.
    + assert (Il : In m' (live_nodes st)) by (apply (live_sub st n m' I I')).
      assert (m' = m) by (apply (live_unique st m' m W Il Im E')). subst. auto.
  - intros j v L. destruct (NN _ _ L) as [L0|(m' & I' & E' & W')].
    + eapply D; eauto.
    + subst j. apply live_below; auto. apply (live_sub st n m' I I').
Qed.
End OneTable.

Theorem query_fresh : forall st c n f, WFI st -> Fresh (mkX st c) -> In n (live_nodes st) ->
  Fresh (mkX st (query c n f)) /\
  report_pure c n = val_pure n /\ report_miss c n = val_miss n /\ report_nond c n = val_nond n.
Proof.
  intros st c n f W [V [D1 [D2 D3]]] I. simpl in *.
  destruct (ask_live val_pure q_pure q_pure_sound st (t_pure c) n W I) as [E1 [V1 B1]]; auto. { intros; apply V; auto. }
  destruct (ask_live val_miss q_miss (q_gen_sound _ _) st (t_miss c) n W I) as [E2 [V2 B2]]; auto. { intros; apply V; auto. }
  destruct (ask_live val_nond q_nond (q_gen_sound _ _) st (t_nond c) n W I) as [E3 [V3 B3]]; auto. { intros; apply V; auto. }
  split; [|auto].
  unfold query. destruct (N.eqb f 0); [|destruct (N.eqb f 1)]; (split; [intros m Im; destruct (V m Im) as [X [Y Z]]; repeat split; simpl; auto | simpl; auto]).
Qed.

(* SymCoreTypedBase.v — first facts about the typed write path: a refused primitive write changes nothing. *)
From Coq Require Import ZArith NArith List Bool.
Import ListNotations.
From PG Require Import Common.Tactics Model.SymCoreDefs Model.SymCoreOps Model.SymCoreTyped.
From PG Require Model.Typing.
Local Open Scope Z_scope.

(* one case split on the head match / if of a hypothesis *)
Ltac dmh H :=
  match type of H with
  | context [match ?x with _ => _ end] => destruct x eqn:?
  | context [if ?b then _ else _] => destruct b eqn:?
  end.
Ltac err_same H := repeat (first [ progress (inv H; reflexivity) | discriminate H | congruence | dmh H ]).

Lemma lprim_err_same : forall q sc st cp k rv st' e, lprim q sc st cp k rv = (st', PErr e) -> st' = st.
Proof. intros q sc st cp k rv st' e H. unfold lprim in H. err_same H. Qed.

Lemma dprim_err_same : forall q sc st cp k rv st' e, dprim q sc st cp k rv = (st', PErr e) -> st' = st.
Proof. intros q sc st cp k rv st' e H. unfold dprim in H. err_same H. Qed.

Lemma oprim_err_same : forall q sc st cp k rv st' e, oprim q sc st cp k rv = (st', PErr e) -> st' = st.
Proof. intros q sc st cp k rv st' e H. unfold oprim in H. err_same H. Qed.

Lemma prim_err_same : forall q sc st cp k rv st' e, prim q sc st cp k rv = (st', PErr e) -> st' = st.
Proof.
  intros q sc st cp k rv st' e H. unfold prim in H.
  repeat (dmh H; try (inv H; reflexivity));
    eauto using lprim_err_same, dprim_err_same, oprim_err_same.
Qed.

Lemma tlprim_err_same : forall q nf ev sc st cp k x e0 mn mx st' e,
  tlprim q nf ev sc st cp k x e0 mn mx = (st', PErr e) -> st' = st.
Proof. intros q nf ev sc st cp k x e0 mn mx st' e H. unfold tlprim in H. err_same H. Qed.

Lemma tdprim_err_same : forall q nf ev sc st cp k x fs st' e,
  tdprim q nf ev sc st cp k x fs = (st', PErr e) -> st' = st.
Proof. intros q nf ev sc st cp k x fs st' e H. unfold tdprim in H. err_same H. Qed.

Lemma tprim_err_same : forall q nf ev sc st cp k x st' e,
  tprim q nf ev sc st cp k x = (st', PErr e) -> st' = st.
Proof.
  intros q nf ev sc st cp k x st' e H. unfold tprim in H.
  repeat (dmh H; try (inv H; reflexivity));
    eauto using tlprim_err_same, tdprim_err_same, prim_err_same.
Qed.

(* --- the end-of-step collection does nothing when no root slot was added ----------------------------------------- *)
Lemma gc_same : forall st keep, gc (length (roots st)) (next_id st) keep st = st.
Proof.
  intros [rs nx] keep. unfold gc. simpl. rewrite firstn_all, skipn_all. simpl. rewrite app_nil_r. reflexivity.
Qed.

(* operations that apply several values one after the other *)
Definition batch_op {V} (o : op V) : bool :=
  match o with LExtend _ | LIAdd _ | LIMul _ | DUpdate _ | DIOr _ | Rebind _ => true | _ => false end.
(* operations whose result is a new value; SymCore keeps the copy it was building when the extension of the copy fails *)
Definition copying_op {V} (o : op V) : bool := match o with LAdd _ | LMul _ => true | _ => false end.

Ltac prim_same :=
  repeat match goal with
  | E : lprim _ _ _ _ _ _ = (_, PErr _) |- _ => apply lprim_err_same in E; subst
  | E : dprim _ _ _ _ _ _ = (_, PErr _) |- _ => apply dprim_err_same in E; subst
  | E : oprim _ _ _ _ _ _ = (_, PErr _) |- _ => apply oprim_err_same in E; subst
  | E : prim _ _ _ _ _ _ = (_, PErr _) |- _ => apply prim_err_same in E; subst
  | E : tlprim _ _ _ _ _ _ _ _ _ _ _ = (_, PErr _) |- _ => apply tlprim_err_same in E; subst
  | E : tdprim _ _ _ _ _ _ _ _ _ = (_, PErr _) |- _ => apply tdprim_err_same in E; subst
  | E : tprim _ _ _ _ _ _ _ _ = (_, PErr _) |- _ => apply tprim_err_same in E; subst
  end.
Ltac err_same2 H := repeat (first [ progress (inv H; prim_same; reflexivity) | discriminate H | dmh H ]).

(* SymCoreOps.exec: an operation that is refused (any error) and neither a batch nor a copy leaves the state as it was *)
Lemma exec_err_same : forall q sc st ps tid tk tpth tfl its o st' e,
  batch_op o = false -> copying_op o = false ->
  exec q sc st ps tid tk tpth tfl its o = (st', Err e) -> st' = st.
Proof.
  intros q sc st ps tid tk tpth tfl its o st' e B C H.
  destruct o; simpl in B, C; try discriminate; unfold exec in H; err_same2 H.
Qed.

Lemma mapM_Some_map : forall A B (f : A -> B) l, mapM (fun x => Some (f x)) l = Some (map f l).
Proof. induction l; simpl; auto. rewrite IHl. reflexivity. Qed.
Lemma mapM_snd_Some_map : forall K A B (f : A -> B) (l : list (K * A)),
  mapM_snd (fun x => Some (f x)) l = Some (map (fun kv => (fst kv, f (snd kv))) l).
Proof. unfold mapM_snd. induction l; simpl; auto. rewrite IHl. reflexivity. Qed.

Lemma batch_op_rv : forall o, batch_op (op_rv o) = batch_op o.
Proof.
  destruct o; unfold op_rv; simpl; auto;
    rewrite ?mapM_Some_map, ?mapM_snd_Some_map; simpl; auto.
Qed.
Lemma copying_op_rv : forall o, copying_op (op_rv o) = copying_op o.
Proof.
  destruct o; unfold op_rv; simpl; auto;
    rewrite ?mapM_Some_map, ?mapM_snd_Some_map; simpl; auto.
Qed.

Lemma troot_state : forall nf ev st k r fl v n st1, troot nf ev st k r fl v = inl (n, st1) -> roots st1 = roots st.
Proof.
  intros nf ev st k r fl v n st1 H. unfold troot, tconstruct in H.
  repeat (dmh H; try discriminate); inv H; reflexivity.
Qed.

(* on a list bound to a List spec: every refused operation that is not a batch leaves the state as it was
   (also the copying ones: a copy that cannot be completed is not kept) *)
Lemma exec_list_err_same : forall q nf ev sc st ps tid tpth tfl its e0 mn mx sp o deleg st' e,
  batch_op o = false ->
  (forall s e', deleg = (s, Err e') -> s = st) ->
  exec_list q nf ev sc st ps tid tpth tfl its e0 mn mx sp o deleg = (st', Err e) -> st' = st.
Proof.
  intros q nf ev sc st ps tid tpth tfl its e0 mn mx sp o deleg st' e B DG H.
  destruct o; simpl in B; try discriminate; unfold exec_list in H;
    try (eapply DG; exact H); err_same2 H; try (eapply DG; eassumption).
Qed.

Lemma exec_dict_err_same : forall q nf ev sc st ps tid tk tpth tfl its fs sp o deleg st' e,
  batch_op o = false ->
  (forall s e', deleg = (s, Err e') -> s = st) ->
  exec_dict q nf ev sc st ps tid tk tpth tfl its fs sp o deleg = (st', Err e) -> st' = st.
Proof.
  intros q nf ev sc st ps tid tk tpth tfl its fs sp o deleg st' e B DG H.
  destruct o; simpl in B; try discriminate; unfold exec_dict in H;
    try (eapply DG; exact H); err_same2 H; try (eapply DG; eassumption).
Qed.

Lemma op_mapM_shape : forall A B (f : A -> option B) o o' k,
  op_mapM f o = Some o' -> batch_op o' = batch_op o /\ copying_op o' = copying_op o /\ kind_ok k o' = kind_ok k o.
Proof.
  intros A B f o o' k H.
  destruct o; simpl in H; try (inv H; auto; fail);
    match type of H with option_map _ ?x = _ => destruct x; simpl in H; inv H; auto end.
Qed.

Lemma exec2_err_same : forall q nf ev sc st ps tid tk tpth tfl its o st' e,
  batch_op o = false ->
  (copying_op o = false \/ exists e0 mn mx m, tk = KList /\ spec_at ev (f_spec tfl) = Some (Typing.SList e0 mn mx m)) ->
  exec2 q nf ev sc st ps tid tk tpth tfl its o = (st', Err e) -> st' = st.
Proof.
  intros q nf ev sc st ps tid tk tpth tfl its o st' e B C H.
  assert (DG : copying_op o = false -> forall s e', exec q sc st ps tid tk tpth tfl its (op_rv o) = (s, Err e') -> s = st).
  { intros C' s e' E. eapply exec_err_same; [| |exact E]; rewrite ?batch_op_rv, ?copying_op_rv; auto. }
  unfold exec2 in H.
  destruct C as [C|(e0 & mn & mx & m & K & S)].
  - specialize (DG C).
    destruct o; simpl in B; try discriminate;
      repeat (first [ eapply exec_list_err_same in H; [exact H|auto|exact DG]
                    | eapply exec_dict_err_same in H; [exact H|auto|exact DG]
                    | solve [eapply DG; exact H]
                    | progress (inv H; reflexivity)
                    | progress (unfold exec_ulist in H)
                    | dmh H ]).
  - subst tk. rewrite S in H.
    destruct o; simpl in B; try discriminate;
      try (eapply exec_list_err_same in H; [exact H|auto|]; intros s e' E;
           eapply exec_err_same; [| |exact E]; rewrite ?batch_op_rv, ?copying_op_rv; simpl; auto; fail).
    all: unfold exec_list in H; err_same2 H.
Qed.

(* the step: a refused operation that is not a batch, on a target that checks its members, leaves the whole state as it was *)
Theorem step2_rejected_unchanged : forall q nf ev st o st' e,
  step2 q nf ev st o = (st', Err e) -> batch_op (o2_op o) = false ->
  (forall n, get_at st (o2_pos o) = Some n -> checks_members ev n = true) ->
  st' = st.
Proof.
  intros q nf ev st o st' e H B CM. unfold step2 in H.
  destruct (get_at st (o2_pos o)) as [[|tid tk tpa tpth tfl its]|] eqn:G; try (inv H; reflexivity).
  specialize (CM _ eq_refl).
  destruct (negb (kind_ok tk (o2_op o))) eqn:K; [inv H; reflexivity|].
  destruct (op_mapM (resolve_t st) (o2_op o)) as [ro|] eqn:R; [|inv H; reflexivity].
  destruct (op_mapM_shape _ _ _ _ _ tk R) as (Bq & Cq & Kq).
  destruct (negb (guard ev (o2_scope o) st (o2_pos o) (Node tid tk tpa tpth tfl its) ro)); [inv H; reflexivity|].
  destruct (exec2 q nf ev (o2_scope o) st (o2_pos o) tid tk tpth tfl its ro) as [st1 out] eqn:E.
  inv H.
  assert (st1 = st).
  { eapply exec2_err_same; [rewrite Bq; exact B| |exact E].
    destruct (copying_op ro) eqn:CO; [right|left; reflexivity].
    rewrite Cq in CO. apply negb_false_iff in K.
    unfold checks_members, node_spec in CM.
    destruct (o2_op o); simpl in CO, K; try discriminate; destruct tk; try discriminate;
      destruct (spec_at ev (f_spec tfl)) as [[]|]; try discriminate; eauto 8. }
  subst. apply gc_same.
Qed.

(* --- batches: what is left is the effect of the elements before the refused one ---------------------------------- *)
Lemma trebind_loop_prefix : forall q nf ev sc pvs st tp upd st' upd' e,
  trebind_loop q nf ev sc st tp pvs upd = (st', upd', Some e) ->
  exists pre p x post,
    pvs = pre ++ (p, x) :: post /\
    trebind_loop q nf ev sc st tp pre upd = (st', upd', None) /\
    exists c, trebind_one q nf ev sc st' tp p x = (st', PErr e, c).
Proof.
  induction pvs as [|[p x] r IH]; intros st tp upd st' upd' e H; simpl in H; [discriminate|].
  destruct (trebind_one q nf ev sc st tp p x) as [[s1 pr] c] eqn:O.
  destruct pr.
  - apply IH in H. destruct H as (pre & p' & x' & post & E & L & T).
    exists ((p, x) :: pre), p', x', post. split; [subst; reflexivity|]. split; [|exact T].
    simpl. rewrite O. destruct c; exact L.
  - destruct c as [cid|].
    + apply IH in H. destruct H as (pre & p' & x' & post & E & L & T).
      exists ((p, x) :: pre), p', x', post. split; [subst; reflexivity|]. split; [|exact T].
      simpl. rewrite O. exact L.
    + apply IH in H. destruct H as (pre & p' & x' & post & E & L & T).
      exists ((p, x) :: pre), p', x', post. split; [subst; reflexivity|]. split; [|exact T].
      simpl. rewrite O. exact L.
  - assert (s1 = st).
    { clear H. unfold trebind_one in O. repeat (dmh O; try (inv O; reflexivity)).
      inv O. prim_same. reflexivity. }
    subst s1. inv H. exists [], p, x, r. split; [reflexivity|]. split; [reflexivity|]. eauto.
Qed.

Lemma textend_loop_prefix : forall q nf ev sc xs st ps upd st' upd' e,
  textend_loop q nf ev sc st ps xs upd = (st', upd', Some e) ->
  exists pre x post u,
    xs = pre ++ x :: post /\
    textend_loop q nf ev sc st ps pre upd = (st', u, None) /\
    tprim q nf ev sc st' ps (KI (cur_len st' ps)) x = (st', PErr e).
Proof.
  induction xs as [|x r IH]; intros st ps upd st' upd' e H; simpl in H; [discriminate|].
  destruct (tprim q nf ev sc st ps (KI (cur_len st ps)) x) as [s1 pr] eqn:O.
  destruct pr.
  - apply IH in H. destruct H as (pre & x' & post & u & E & L & T).
    exists (x :: pre), x', post, u. split; [subst; reflexivity|]. split; [|exact T]. simpl. rewrite O. exact L.
  - apply IH in H. destruct H as (pre & x' & post & u & E & L & T).
    exists (x :: pre), x', post, u. split; [subst; reflexivity|]. split; [|exact T]. simpl. rewrite O. exact L.
  - inv H. pose proof (tprim_err_same _ _ _ _ _ _ _ _ _ _ O). subst.
    exists [], x, r, upd'. split; [reflexivity|]. split; [reflexivity|exact O].
Qed.

(* MemFSTree.v — the directory tree of Model/MemFS.v: lookups after updates, frame lemmas, well-formedness. *)
From PG Require Import Common.Tactics Model.Json Model.MemFS Proofs.JsonProofs.
From Coq Require Import NArith.

Lemma str_eq_dec : forall a b : str, {a = b} + {a <> b}.
Proof. intros a b. destruct (str_eqb a b) eqn:E; [left; apply str_eqb_eq; exact E | right; apply str_eqb_neq; exact E]. Qed.

(* --- one directory ----------------------------------------------------------------------------------- *)
Lemma alookup_aset_same : forall k n es, alookup k (aset k n es) = Some n.
Proof.
  induction es as [|[k' n'] es IH]; simpl; [rewrite str_eqb_refl; reflexivity|].
  destruct (str_eqb k k') eqn:E; simpl; rewrite E; [reflexivity | exact IH].
Qed.
Lemma alookup_aset_other : forall k' k n es, k' <> k -> alookup k' (aset k n es) = alookup k' es.
Proof.
  intros k' k n es Hne. apply str_eqb_neq in Hne.
  induction es as [|[k2 n2] es IH]; simpl; [rewrite Hne; reflexivity|].
  destruct (str_eqb k k2) eqn:E; simpl.
  - apply str_eqb_eq in E. subst k2. rewrite Hne. reflexivity.
  - destruct (str_eqb k' k2); [reflexivity | exact IH].
Qed.
Lemma alookup_aremove_other : forall k' k es, k' <> k -> alookup k' (aremove k es) = alookup k' es.
Proof.
  intros k' k es Hne. apply str_eqb_neq in Hne.
  induction es as [|[k2 n2] es IH]; simpl; [reflexivity|].
  destruct (str_eqb k k2) eqn:E; simpl.
  - apply str_eqb_eq in E. subst k2. rewrite Hne. reflexivity.
  - destruct (str_eqb k' k2); [reflexivity | exact IH].
Qed.
Lemma alookup_aremove_same : forall k es, names_nodup es = true -> alookup k (aremove k es) = None.
Proof.
  induction es as [|[k2 n2] es IH]; simpl; intro H; [reflexivity|].
  apply andb_true_iff in H. destruct H as [H1 H2].
  destruct (str_eqb k k2) eqn:E; simpl.
  - apply str_eqb_eq in E. subst k2. destruct (alookup k es); [discriminate | reflexivity].
  - rewrite E. apply IH. exact H2.
Qed.
Lemma alookup_app_new : forall k' k n es,
  alookup k' (es ++ [(k, n)]) = match alookup k' es with Some x => Some x | None => if str_eqb k' k then Some n else None end.
Proof.
  induction es as [|[k2 n2] es IH]; simpl; [reflexivity|]. destruct (str_eqb k' k2); [reflexivity | exact IH].
Qed.

Lemma names_nodup_aset : forall k n es, names_nodup es = true -> names_nodup (aset k n es) = true.
Proof.
  induction es as [|[k2 n2] es IH]; simpl; intro H; [reflexivity|].
  apply andb_true_iff in H. destruct H as [H1 H2].
  destruct (str_eqb k k2) eqn:E; simpl.
  - rewrite H1, H2. reflexivity.
  - rewrite IH by assumption. rewrite andb_true_r.
    rewrite alookup_aset_other; [exact H1|]. intro X. subst k2. rewrite str_eqb_refl in E. discriminate.
Qed.
Lemma names_nodup_aremove : forall k es, names_nodup es = true -> names_nodup (aremove k es) = true.
Proof.
  induction es as [|[k2 n2] es IH]; simpl; intro H; [reflexivity|].
  apply andb_true_iff in H. destruct H as [H1 H2].
  destruct (str_eqb k k2) eqn:E; simpl; [exact H2|].
  rewrite IH by assumption. rewrite andb_true_r.
  rewrite alookup_aremove_other; [exact H1|]. intro X. subst k2. rewrite str_eqb_refl in E. discriminate.
Qed.
Lemma names_nodup_app_new : forall k n es, names_nodup es = true -> alookup k es = None -> names_nodup (es ++ [(k, n)]) = true.
Proof.
  induction es as [|[k2 n2] es IH]; simpl; intros H Hl; [reflexivity|].
  apply andb_true_iff in H. destruct H as [H1 H2].
  destruct (str_eqb k k2) eqn:E; [discriminate|].
  rewrite IH by assumption. rewrite andb_true_r. rewrite alookup_app_new.
  destruct (alookup k2 es); [discriminate|]. rewrite str_eqb_sym, E. reflexivity.
Qed.

Lemma kids_wf_aset : forall k n es, wf_node n = true -> forallb (fun kn => wf_node (snd kn)) es = true ->
  forallb (fun kn => wf_node (snd kn)) (aset k n es) = true.
Proof.
  induction es as [|[k2 n2] es IH]; simpl; intros Hn H; [rewrite Hn; reflexivity|].
  apply andb_true_iff in H. destruct H as [H1 H2].
  destruct (str_eqb k k2); simpl; [rewrite Hn, H2; reflexivity | rewrite H1, IH by assumption; reflexivity].
Qed.
Lemma kids_wf_aremove : forall k es, forallb (fun kn => wf_node (snd kn)) es = true ->
  forallb (fun kn => wf_node (snd kn)) (aremove k es) = true.
Proof.
  induction es as [|[k2 n2] es IH]; simpl; intro H; [reflexivity|].
  apply andb_true_iff in H. destruct H as [H1 H2].
  destruct (str_eqb k k2); simpl; [exact H2 | rewrite H1, IH by assumption; reflexivity].
Qed.
Lemma kids_wf_lookup : forall k es ch, forallb (fun kn => wf_node (snd kn)) es = true -> alookup k es = Some ch -> wf_node ch = true.
Proof.
  induction es as [|[k2 n2] es IH]; simpl; intros ch H Hl; [discriminate|].
  apply andb_true_iff in H. destruct H as [H1 H2].
  destruct (str_eqb k k2); [inv Hl; exact H1 | eapply IH; eassumption].
Qed.

(* --- paths --------------------------------------------------------------------------------------------- *)
Lemma file_at_nil : forall n, file_at n [] = match n with NFile c => Some c | NDir _ => None end.
Proof. destruct n; reflexivity. Qed.
Lemma file_at_file_cons : forall c x r, file_at (NFile c) (x :: r) = None.
Proof. reflexivity. Qed.
Lemma file_at_dir_cons : forall es x r,
  file_at (NDir es) (x :: r) = match alookup x es with Some ch => file_at ch r | None => None end.
Proof. intros. unfold file_at. simpl. destruct (alookup x es); reflexivity. Qed.

(* updating the directory reached by pcs: what is seen below it *)
Lemma locate_upd_dir_below : forall g pcs root es rest,
  locate root pcs = LFound (NDir es) -> locate (upd_dir g root pcs) (pcs ++ rest) = locate (NDir (g es)) rest.
Proof.
  induction pcs as [|c pcs IH]; intros root es rest H.
  - simpl in H. inv H. reflexivity.
  - simpl in H. destruct root as [|es0]; [discriminate|].
    destruct (alookup c es0) as [ch|] eqn:E; [|discriminate].
    simpl. rewrite E. simpl. rewrite alookup_aset_same. apply IH. exact H.
Qed.
(* ... and everywhere else nothing changes for files *)
Lemma file_at_upd_dir_frame : forall g pcs root es cs',
  locate root pcs = LFound (NDir es) -> (forall rest, cs' <> pcs ++ rest) ->
  file_at (upd_dir g root pcs) cs' = file_at root cs'.
Proof.
  induction pcs as [|c pcs IH]; intros root es cs' H Hne.
  - exfalso. apply (Hne cs'). reflexivity.
  - simpl in H. destruct root as [|es0]; [discriminate|].
    destruct (alookup c es0) as [ch|] eqn:E; [|discriminate].
    simpl. rewrite E. destruct cs' as [|c' r']; [reflexivity|].
    rewrite !file_at_dir_cons.
    destruct (str_eq_dec c' c) as [Ec|Ec].
    + subst c'. rewrite alookup_aset_same, E. eapply IH; [exact H|].
      intros rest X. apply (Hne rest). simpl. congruence.
    + rewrite alookup_aset_other by assumption. reflexivity.
Qed.

Lemma file_at_upd_file_same : forall f cs root old,
  locate root cs = LFound (NFile old) -> file_at (upd_file f root cs) cs = Some (f old).
Proof.
  induction cs as [|c cs IH]; intros root old H.
  - simpl in H. inv H. reflexivity.
  - simpl in H. destruct root as [|es0]; [discriminate|].
    destruct (alookup c es0) as [ch|] eqn:E; [|discriminate].
    simpl. rewrite E. rewrite file_at_dir_cons. rewrite alookup_aset_same. apply IH. exact H.
Qed.
Lemma file_at_upd_file_frame : forall f cs root old cs',
  locate root cs = LFound (NFile old) -> cs' <> cs -> file_at (upd_file f root cs) cs' = file_at root cs'.
Proof.
  induction cs as [|c cs IH]; intros root old cs' H Hne.
  - simpl in H. inv H. simpl. destruct cs'; [contradiction | reflexivity].
  - simpl in H. destruct root as [|es0]; [discriminate|].
    destruct (alookup c es0) as [ch|] eqn:E; [|discriminate].
    simpl. rewrite E. destruct cs' as [|c' r']; [reflexivity|].
    rewrite !file_at_dir_cons.
    destruct (str_eq_dec c' c) as [Ec|Ec].
    + subst c'. rewrite alookup_aset_same, E. eapply IH; [exact H|]. congruence.
    + rewrite alookup_aset_other by assumption. reflexivity.
Qed.

Lemma locate_app : forall a root b n, locate root a = LFound n -> locate root (a ++ b) = locate n b.
Proof.
  induction a as [|c a IH]; intros root b n H; [simpl in H; inv H; reflexivity|].
  simpl in H. simpl. destruct root as [|es]; [discriminate|]. destruct (alookup c es); [|discriminate]. apply IH. exact H.
Qed.
Lemma locate_app_none : forall a root b, locate root a = LNone -> locate root (a ++ b) = LNone.
Proof.
  induction a as [|c a IH]; intros root b H; [discriminate|].
  simpl in H. simpl. destruct root as [|es]; [discriminate|]. destruct (alookup c es); [|reflexivity]. apply IH. exact H.
Qed.

(* --- well-formedness is kept ------------------------------------------------------------------------------ *)
Lemma wf_upd_dir : forall g pcs root,
  (forall es : list (str * node), names_nodup es = true -> forallb (fun kn => wf_node (snd kn)) es = true ->
              names_nodup (g es) = true /\ forallb (fun kn : str * node => wf_node (snd kn)) (g es) = true) ->
  wf_node root = true -> wf_node (upd_dir g root pcs) = true.
Proof.
  induction pcs as [|c pcs IH]; intros root Hg H.
  - destruct root as [|es]; [exact H|]. simpl in *. apply andb_true_iff in H. destruct H as [H1 H2].
    destruct (Hg es H1 H2) as [A B]. rewrite A, B. reflexivity.
  - destruct root as [|es]; [exact H|]. simpl. destruct (alookup c es) as [ch|] eqn:E; [|exact H].
    simpl in *. apply andb_true_iff in H. destruct H as [H1 H2].
    rewrite names_nodup_aset by assumption. simpl.
    apply kids_wf_aset; [|assumption]. apply IH; [assumption|]. eapply kids_wf_lookup; eassumption.
Qed.
Lemma wf_upd_file : forall f cs root, wf_node root = true -> wf_node (upd_file f root cs) = true.
Proof.
  induction cs as [|c cs IH]; intros root H.
  - destruct root; [reflexivity | exact H].
  - destruct root as [|es]; [exact H|]. simpl. destruct (alookup c es) as [ch|] eqn:E; [|exact H].
    simpl in *. apply andb_true_iff in H. destruct H as [H1 H2].
    rewrite names_nodup_aset by assumption. simpl.
    apply kids_wf_aset; [|assumption]. apply IH. eapply kids_wf_lookup; eassumption.
Qed.
Lemma wf_mkchain : forall cs, wf_node (mkchain cs) = true.
Proof. induction cs; simpl; [reflexivity|]. rewrite IHcs. reflexivity. Qed.
Lemma file_at_mkchain : forall cs cs', file_at (mkchain cs) cs' = None.
Proof.
  induction cs as [|c cs IH]; intro cs'; destruct cs' as [|x r]; try reflexivity.
  simpl. rewrite file_at_dir_cons. simpl. destruct (str_eqb x c); [apply IH | reflexivity].
Qed.

Lemma kids_wf_app_new : forall (k : str) n (es : list (str * node)), wf_node n = true ->
  forallb (fun kn => wf_node (snd kn)) es = true ->
  forallb (fun kn => wf_node (snd kn)) (es ++ [(k, n)]) = true.
Proof. intros. rewrite forallb_app. simpl. rewrite H, H0. reflexivity. Qed.

Lemma mkdirs_at_spec : forall cs root root', wf_node root = true -> mkdirs_at root cs = FOk root' ->
  wf_node root' = true /\ forall cs', file_at root' cs' = file_at root cs'.
Proof.
  induction cs as [|c cs IH]; intros root root' Hwf H.
  - simpl in H. inv H. split; [assumption | reflexivity].
  - simpl in H. destruct root as [|es]; [discriminate|].
    simpl in Hwf. apply andb_true_iff in Hwf. destruct Hwf as [W1 W2].
    destruct (alookup c es) as [ch|] eqn:E.
    + destruct ch as [|es']; [discriminate|].
      destruct (mkdirs_at (NDir es') cs) as [ch'|] eqn:Em; [|discriminate]. inv H.
      destruct (IH _ _ (kids_wf_lookup _ _ _ W2 E) Em) as [Wc Hc].
      split.
      * simpl. rewrite names_nodup_aset by assumption. simpl. apply kids_wf_aset; assumption.
      * intros [|x r]; [reflexivity|]. rewrite !file_at_dir_cons.
        destruct (str_eq_dec x c) as [Ex|Ex].
        -- subst x. rewrite alookup_aset_same, E. apply Hc.
        -- rewrite alookup_aset_other by assumption. reflexivity.
    + inv H. split.
      * simpl. rewrite names_nodup_app_new by assumption. simpl. apply kids_wf_app_new; [apply wf_mkchain | assumption].
      * intros [|x r]; [reflexivity|]. rewrite !file_at_dir_cons. rewrite alookup_app_new.
        destruct (alookup x es) as [y|] eqn:Ex; [reflexivity|].
        destruct (str_eqb x c); [apply file_at_mkchain | reflexivity].
Qed.

(* JsonOptsProofs.v — to_json with hide_default_values / hide_frozen, then from_json, gives the value back. *)
From PG Require Import Common.Tactics Model.Json Model.JsonOpts Proofs.JsonProofs Proofs.JsonStrProofs.
From Coq Require Import NArith.
Local Open Scope Z_scope.

(* the emitted members as a standalone function (the inner fix of to_json_o) *)
Fixpoint emit_x (o : opts) (ctx : classtabx) (fxs : list fieldx) (fs : list (str * pv)) {struct fs} : list (key * jv) :=
  match fs with
  | [] => []
  | nx :: fs' =>
      match fxs with
      | fx :: fxs' => (if hidden o fx (snd nx) then [] else [(KS (fst nx), to_json_o o ctx (snd nx))]) ++ emit_x o ctx fxs' fs'
      | [] => (KS (fst nx), to_json_o o ctx (snd nx)) :: emit_x o ctx [] fs'
      end
  end.
Lemma to_json_o_obj : forall o ctx c fs,
  to_json_o o ctx (PObj c fs) =
  JDict ((KS s_type, JStr c) :: emit_x o ctx (match slookup c ctx with Some fxs => fxs | None => [] end) fs).
Proof.
  intros. simpl. f_equal. f_equal.
  generalize (match slookup c ctx with Some fxs => fxs | None => [] end).
  induction fs as [|nx fs IH]; intro fxs; [reflexivity|]. destruct fxs as [|fx fxs]; simpl; rewrite IH; reflexivity.
Qed.

(* the aligned members of an object of the domain *)
Inductive aligned (o : opts) (ctx : classtabx) : list fieldx -> list (str * pv) -> Prop :=
| al_nil : aligned o ctx [] []
| al_cons : forall fx fxs n x fs, fx_name fx = n -> okx o ctx x -> member_fine o fx x -> aligned o ctx fxs fs ->
            aligned o ctx (fx :: fxs) ((n, x) :: fs).
Lemma okx_obj : forall o ctx c fs, okx o ctx (PObj c fs) ->
  exists fxs, slookup c ctx = Some fxs /\ aligned o ctx fxs fs.
Proof.
  intros o ctx c fs H. simpl in H. destruct (slookup c ctx) as [fxs|]; [|contradiction]. exists fxs. split; [reflexivity|].
  revert fxs H. induction fs as [|[n x] fs IH]; intros [|fx fxs] H; try contradiction; [constructor|].
  destruct H as [A [B [C D]]]. constructor; auto.
Qed.

Lemma ctx_ok_lookup : forall ctx c fxs, ctx_ok ctx = true -> slookup c ctx = Some fxs ->
  special_typename c = false /\ fx_names_ok fxs = true.
Proof.
  induction ctx as [|[c' f'] ctx IH]; simpl; intros c fxs Hok Hl; [discriminate|].
  repeat (apply andb_true_iff in Hok; destruct Hok as [Hok ?]).
  destruct (str_eqb c c') eqn:E.
  - apply str_eqb_eq in E. subst. inv Hl. split; [apply negb_true_iff; assumption | assumption].
  - eapply IH; eassumption.
Qed.
Lemma slookup_ct_of : forall ctx c fxs, slookup c ctx = Some fxs -> slookup c (ct_of ctx) = Some (map fx_name fxs).
Proof.
  induction ctx as [|[c' f'] ctx IH]; simpl; intros c fxs H; [discriminate|].
  destruct (str_eqb c c'); [inv H; reflexivity | apply IH; exact H].
Qed.

Section Opts.
  Variable q : quirks.
  Variable o : opts.
  Variable ctx : classtabx.
  Hypothesis Hctx : ctx_ok ctx = true.

  Definition okl (l : list pv) : Prop := okx o ctx (PTuple l).
  Lemma okl_in : forall l x, okl l -> In x l -> okx o ctx x.
  Proof. induction l as [|y l IH]; intros x H Hin; [contradiction|]. destruct H as [A B]. destruct Hin as [E|Hin]; [subst; exact A | apply IH; assumption]. Qed.
  Lemma okd_in : forall (d : list (key * pv)) kv,
    (fix go (d : list (key * pv)) : Prop := match d with [] => True | kv :: r => okx o ctx (snd kv) /\ go r end) d ->
    In kv d -> okx o ctx (snd kv).
  Proof. induction d as [|y d IH]; intros kv H Hin; [contradiction|]. destruct H as [A B]. destruct Hin as [E|Hin]; [subst; exact A | apply IH; assumption]. Qed.
  Lemma aligned_in : forall fxs fs n x, aligned o ctx fxs fs -> In (n, x) fs -> okx o ctx x.
  Proof. induction 1; intros Hin; [contradiction|]. destruct Hin as [E|Hin]; [inv E; assumption | auto]. Qed.

  (* --- resolve ------------------------------------------------------------------------------------------------ *)
  Lemma resolve_emit : forall fxs fs,
    (forall n x, In (n, x) fs -> resolve (ct_of ctx) (to_json_o o ctx x) = Ok tt) ->
    mapM (fun kv : key * jv => resolve (ct_of ctx) (snd kv)) (emit_x o ctx fxs fs) = Ok (map (fun _ => tt) (emit_x o ctx fxs fs)).
  Proof.
    intros fxs fs. revert fxs. induction fs as [|[n x] fs IH]; intros fxs H; [reflexivity|].
    assert (Hx : resolve (ct_of ctx) (to_json_o o ctx x) = Ok tt) by (apply (H n x); left; reflexivity).
    assert (Hr : forall n0 x0, In (n0, x0) fs -> resolve (ct_of ctx) (to_json_o o ctx x0) = Ok tt) by (intros; eapply H; right; eassumption).
    destruct fxs as [|fx fxs]; simpl.
    - rewrite Hx. rewrite IH by assumption. reflexivity.
    - destruct (hidden o fx x); simpl; [apply IH; assumption|]. rewrite Hx. rewrite IH by assumption. reflexivity.
  Qed.

  Lemma resolve_to_json_o : forall v, okx o ctx v -> resolve (ct_of ctx) (to_json_o o ctx v) = Ok tt.
  Proof.
    induction v as [| | | | |l IH|l IH|d IH|c fs IH] using pv_ind'; intro H; try reflexivity; rewrite Forall_forall in IH.
    - destruct H as [_ H]. simpl. rewrite mapM_map. rewrite (mapM_ok_in _ (fun _ => tt)); [reflexivity|].
      intros x Hx. apply IH; [exact Hx | eapply okl_in; eassumption].
    - simpl. rewrite mapM_map. rewrite (mapM_ok_in _ (fun _ => tt)); [reflexivity|].
      intros x Hx. apply IH; [exact Hx | eapply okl_in; eassumption].
    - destruct H as [H1 [H2 H3]]. simpl. rewrite lookup_map_values. rewrite (has_key_false_lookup _ _ H1). simpl.
      rewrite mapM_map. simpl. rewrite (mapM_ok_in _ (fun _ => tt)); [reflexivity|].
      intros kv Hx. apply IH; [exact Hx | eapply okd_in; eassumption].
    - destruct (okx_obj _ _ _ _ H) as [fxs [El Hal]]. rewrite to_json_o_obj. rewrite El.
      destruct (ctx_ok_lookup _ _ _ Hctx El) as [Hs _].
      simpl. rewrite Hs. rewrite (slookup_ct_of _ _ _ El).
      rewrite resolve_emit; [reflexivity|].
      intros n x Hin. apply (IH (n, x) Hin). eapply aligned_in; eassumption.
  Qed.

  (* --- build ----------------------------------------------------------------------------------------------------- *)
  Definition tuple_fine_o (v : pv) : Prop := q_empty_tuple q = false \/ no_empty_tuple v = true.

  (* the keyword arguments the loader sees: the members that were not left out *)
  Fixpoint kept (fxs : list fieldx) (fs : list (str * pv)) {struct fs} : list (key * pv) :=
    match fs with
    | [] => []
    | nx :: fs' =>
        match fxs with
        | fx :: fxs' => (if hidden o fx (snd nx) then [] else [(KS (fst nx), snd nx)]) ++ kept fxs' fs'
        | [] => (KS (fst nx), snd nx) :: kept [] fs'
        end
    end.

  Lemma build_emit : forall fxs fs,
    (forall n x, In (n, x) fs -> build_o q ctx (to_json_o o ctx x) = Ok x) ->
    (forall n x, In (n, x) fs -> str_eqb n s_type = false) ->
    mapM (fun kv : key * jv => if true && is_type_key (fst kv) then Ok None
                               else rbind (build_o q ctx (snd kv)) (fun v => Ok (Some (fst kv, v))))
         (emit_x o ctx fxs fs) = Ok (map Some (kept fxs fs)).
  Proof.
    intros fxs fs. revert fxs. induction fs as [|[n x] fs IH]; intros fxs H Hn; [reflexivity|].
    assert (Hx : build_o q ctx (to_json_o o ctx x) = Ok x) by (apply (H n x); left; reflexivity).
    assert (Hnx : str_eqb n s_type = false) by (apply (Hn n x); left; reflexivity).
    assert (IH' : forall fxs0, mapM (fun kv : key * jv => if true && is_type_key (fst kv) then Ok None
                               else rbind (build_o q ctx (snd kv)) (fun v => Ok (Some (fst kv, v))))
                        (emit_x o ctx fxs0 fs) = Ok (map Some (kept fxs0 fs))).
    { intro fxs0. apply IH; intros; [eapply H | eapply Hn]; right; eassumption. }
    assert (Hone : (if true && is_type_key (KS n) then Ok None else rbind (build_o q ctx (to_json_o o ctx x)) (fun v => Ok (Some (KS n, v)))) = Ok (Some (KS n, x))).
    { rewrite is_type_key_KS, Hnx. simpl. rewrite Hx. reflexivity. }
    destruct fxs as [|fx fxs]; cbn [emit_x kept fst snd].
    - cbn [mapM fst snd]. rewrite Hone. rewrite IH'. reflexivity.
    - destruct (hidden o fx x); cbn [app]; [apply IH'|]. cbn [mapM fst snd]. rewrite Hone. rewrite IH'. reflexivity.
  Qed.

  (* what the loader finds for a field name among the kept members *)
  Lemma kept_names : forall fxs fs k v, In (k, v) (kept fxs fs) -> exists n, k = KS n /\ In (n, v) fs.
  Proof.
    intros fxs fs. revert fxs. induction fs as [|[n x] fs IH]; intros fxs k v H; [contradiction|].
    destruct fxs as [|fx fxs]; cbn [kept fst snd] in H.
    - destruct H as [E|H]; [inv E; eexists; split; [reflexivity | left; reflexivity]|].
      destruct (IH _ _ _ H) as [m [A B]]. exists m. split; [exact A | right; exact B].
    - apply in_app_or in H. destruct H as [H|H].
      + destruct (hidden o fx x); [contradiction|]. destruct H as [E|[]]. inv E. eexists; split; [reflexivity | left; reflexivity].
      + destruct (IH _ _ _ H) as [m [A B]]. exists m. split; [exact A | right; exact B].
  Qed.
  Lemma lookup_notin : forall (l : list (key * pv)) n, (forall k v, In (k, v) l -> k <> KS n) -> lookup (KS n) l = None.
  Proof.
    induction l as [|[k v] l IH]; intros n H; [reflexivity|]. simpl.
    destruct k as [s| |]; simpl; try (apply IH; intros; eapply H; right; eassumption).
    destruct (str_eqb n s) eqn:E; [apply str_eqb_eq in E; subst; exfalso; eapply (H (KS s) v); [left; reflexivity | reflexivity]|].
    apply IH. intros; eapply H; right; eassumption.
  Qed.
  Lemma aligned_names : forall fxs fs n x, aligned o ctx fxs fs -> In (n, x) fs -> flookup_x n fxs <> None.
  Proof.
    induction 1; intro Hin; [contradiction|]. simpl. destruct Hin as [E|Hin].
    - inv E. rewrite str_eqb_refl. discriminate.
    - destruct (str_eqb n (fx_name fx)); [discriminate | auto].
  Qed.

  Lemma fill_kept : forall fxs fs, aligned o ctx fxs fs -> fx_names_ok fxs = true -> forall pre,
    (forall k v, In (k, v) pre -> forall fx, In fx fxs -> k <> KS (fx_name fx)) ->
    fill fxs (pre ++ kept fxs fs) = Ok fs.
  Proof.
    induction 1 as [|fx fxs n x fs En Hx Hm Hal IH]; intros Hnd pre Hpre; [reflexivity|].
    simpl in Hnd. apply andb_true_iff in Hnd. destruct Hnd as [Hnd1 Hnd]. apply andb_true_iff in Hnd1. destruct Hnd1 as [_ Hfresh].
    destruct (flookup_x (fx_name fx) fxs) eqn:Efl; [discriminate|]. subst n.
    assert (Hrest_no : forall k v, In (k, v) (kept fxs fs) -> k <> KS (fx_name fx)).
    { intros k v Hin E. destruct (kept_names _ _ _ _ Hin) as [m [A B]]. rewrite A in E. inv E.
      apply (aligned_names _ _ _ _ Hal B). exact Efl. }
    cbn [fill kept fst snd].
    (* the tail, with the head member moved into the prefix *)
    assert (Htail : fill fxs (pre ++ (if hidden o fx x then [] else [(KS (fx_name fx), x)]) ++ kept fxs fs) = Ok fs).
    { rewrite app_assoc. apply IH; [exact Hnd|].
      intros k v Hin fx' Hfx'. apply in_app_or in Hin. destruct Hin as [Hin|Hin].
      - eapply Hpre; [exact Hin | right; exact Hfx'].
      - destruct (hidden o fx x); [contradiction|]. destruct Hin as [E2|[]]. injection E2 as Ek Ev. rewrite <- Ek. intro E. injection E as H0.
        clear - Hfx' H0 Efl. induction fxs as [|g fxs IHf]; [contradiction|]. simpl in Efl.
        destruct (str_eqb (fx_name fx) (fx_name g)) eqn:Eg; [discriminate|].
        destruct Hfx' as [X|X]; [subst g; rewrite H0, str_eqb_refl in Eg; discriminate | apply IHf; assumption]. }
    rewrite Htail.
    assert (Hpre_no : lookup (KS (fx_name fx)) pre = None).
    { apply lookup_notin. intros k v Hin. eapply Hpre; [exact Hin | left; reflexivity]. }
    rewrite lookup_app_none by exact Hpre_no.
    destruct Hm as [Hh Hf].
    destruct (hidden o fx x) eqn:Eh.
    - cbn [app]. rewrite (lookup_notin _ _ Hrest_no). rewrite (Hh eq_refl). reflexivity.
    - cbn [app lookup]. unfold key_eqb. rewrite str_eqb_refl.
      destruct (fx_frozen fx) eqn:Efz; [|reflexivity].
      destruct (Hf eq_refl) as [Hd Hrefl]. rewrite Hd, Hrefl. reflexivity.
  Qed.

  Lemma kept_checks : forall fxs fs, aligned o ctx fxs fs ->
    forallb (fun kv : key * pv => is_str_key (fst kv)) (kept fxs fs) = true /\
    forallb (fun kv : key * pv => match fst kv with KS s => match flookup_x s fxs with Some _ => true | None => false end | _ => false end) (kept fxs fs) = true.
  Proof.
    intros fxs fs Hal. split; apply forallb_forall; intros [k v] Hin; destruct (kept_names _ _ _ _ Hin) as [m [A B]]; subst k; simpl; [reflexivity|].
    pose proof (aligned_names _ _ _ _ Hal B) as Hn. destruct (flookup_x m fxs); [reflexivity | contradiction].
  Qed.

  Lemma build_all_o : forall l,
    (forall x, In x l -> okx o ctx x -> tuple_fine_o x -> build_o q ctx (to_json_o o ctx x) = Ok x) ->
    okl l -> (q_empty_tuple q = false \/ forallb no_empty_tuple l = true) ->
    mapM (build_o q ctx) (map (to_json_o o ctx) l) = Ok l.
  Proof.
    intros l IH H Ht. rewrite mapM_map. rewrite (mapM_ok_in _ (fun x => x)); [rewrite map_id; reflexivity|].
    intros x Hx. apply IH; [exact Hx | eapply okl_in; eassumption|].
    destruct Ht as [Ht|Ht]; [left; exact Ht | right]. rewrite forallb_forall in Ht. auto.
  Qed.

  Lemma to_json_o_is_str : forall v m, to_json_o o ctx v = JStr m -> v = PStr m.
  Proof. destruct v; simpl; intros m H; try discriminate; congruence. Qed.

  Lemma build_to_json_o : forall v, okx o ctx v -> tuple_fine_o v -> build_o q ctx (to_json_o o ctx v) = Ok v.
  Proof.
    induction v as [| | | | |l IH|l IH|d IH|c fs IH] using pv_ind'; intros H Ht; try reflexivity; rewrite Forall_forall in IH.
    - destruct H as [Hm H].
      assert (Hall : mapM (build_o q ctx) (map (to_json_o o ctx) l) = Ok l).
      { apply build_all_o; [auto | exact H | destruct Ht as [Ht|Ht]; [left|right]; assumption]. }
      change (to_json_o o ctx (PList l)) with (JList (map (to_json_o o ctx) l)).
      destruct l as [|x r]; [reflexivity|].
      change (map (to_json_o o ctx) (x :: r)) with (to_json_o o ctx x :: map (to_json_o o ctx) r) in *.
      destruct (to_json_o o ctx x) eqn:Ex; simpl; try (rewrite <- Ex; rewrite Hall; reflexivity);
        try (simpl in Hall; rewrite Hall; reflexivity).
      apply to_json_o_is_str in Ex. subst x. simpl in Hm. rewrite Hm. simpl in Hall. rewrite Hall. reflexivity.
    - assert (Hall : mapM (build_o q ctx) (map (to_json_o o ctx) l) = Ok l).
      { apply build_all_o; [auto | exact H | destruct Ht as [Ht|Ht]; [left; assumption | right]].
        simpl in Ht. destruct l; [discriminate | assumption]. }
      simpl. destruct l as [|x r].
      + simpl. destruct Ht as [Ht|Ht]; [rewrite Ht; reflexivity | discriminate].
      + change (map (to_json_o o ctx) (x :: r)) with (to_json_o o ctx x :: map (to_json_o o ctx) r) in *. rewrite Hall. reflexivity.
    - destruct H as [H1 [H2 H3]].
      simpl. rewrite lookup_map_values. rewrite (has_key_false_lookup _ _ H1). simpl.
      rewrite mapM_map. simpl.
      rewrite (mapM_ok_in _ Some); [simpl; rewrite somes_map_Some; reflexivity|].
      intros [k x] Hx. simpl. pose proof (IH _ Hx) as E. simpl in E. rewrite E; [reflexivity | apply (okd_in d (k, x)); assumption |].
      destruct Ht as [Ht|Ht]; [left; exact Ht | right]. simpl in Ht. rewrite forallb_forall in Ht. apply (Ht _ Hx).
    - destruct (okx_obj _ _ _ _ H) as [fxs [El Hal]]. rewrite to_json_o_obj. rewrite El.
      destruct (ctx_ok_lookup _ _ _ Hctx El) as [Hs Hnd].
      simpl. rewrite Hs. rewrite El.
      assert (Hnames : forall n x, In (n, x) fs -> str_eqb n s_type = false).
      { clear - Hal Hnd. induction Hal; intros n0 x0 Hin; [contradiction|].
        simpl in Hnd. apply andb_true_iff in Hnd. destruct Hnd as [A B]. apply andb_true_iff in A. destruct A as [A _].
        destruct Hin as [E|Hin]; [inv E; apply negb_true_iff; exact A | eapply IHHal; eassumption]. }
      rewrite build_emit; [|intros n x Hin; apply (IH (n, x) Hin); [eapply aligned_in; eassumption|] | exact Hnames].
      2:{ destruct Ht as [Ht|Ht]; [left; exact Ht | right]. simpl in Ht. rewrite forallb_forall in Ht. apply (Ht _ Hin). }
      simpl. rewrite somes_map_Some. unfold mk_obj_o.
      destruct (kept_checks _ _ Hal) as [C1 C2]. rewrite C1, C2. simpl.
      rewrite <- (app_nil_l (kept fxs fs)). rewrite (fill_kept _ _ Hal Hnd []); [reflexivity | intros k v []].
  Qed.

  Theorem opts_roundtrip : forall v, okx o ctx v -> tuple_fine_o v ->
    from_json_o q ctx (to_json_o o ctx v) = Ok v.
  Proof.
    intros v H Ht. unfold from_json_o. rewrite resolve_to_json_o by assumption. simpl. apply build_to_json_o; assumption.
  Qed.
End Opts.

(* --- closed statement, witnesses ----------------------------------------------------------------------------------------- *)
Theorem options_roundtrip : forall q o ctx v, ctx_ok ctx = true -> okx o ctx v ->
  (q_empty_tuple q = false \/ no_empty_tuple v = true) ->
  from_json_o q ctx (to_json_o o ctx v) = Ok v.
Proof. intros. apply opts_roundtrip; assumption. Qed.

(* class I: x = 1, y = 'a';  class O: n = None, a = I(), b = I(x=7), l = [I(x=7)], z frozen 7, r required *)
Definition s_I : str := [73%N].
Definition s_O : str := [79%N].
Definition fI (x : pv) : pv := PObj s_I [([120%N], x); ([121%N], PStr [97%N])].
Definition ex_ctx : classtabx :=
  [ (s_I, [ {| fx_name := [120%N]; fx_default := Some (PInt 1); fx_frozen := false |};
            {| fx_name := [121%N]; fx_default := Some (PStr [97%N]); fx_frozen := false |} ]);
    (s_O, [ {| fx_name := [110%N]; fx_default := Some PNone; fx_frozen := false |};
            {| fx_name := [97%N]; fx_default := Some (fI (PInt 1)); fx_frozen := false |};
            {| fx_name := [98%N]; fx_default := Some (fI (PInt 7)); fx_frozen := false |};
            {| fx_name := [108%N]; fx_default := Some (PList [fI (PInt 7)]); fx_frozen := false |};
            {| fx_name := [122%N]; fx_default := Some (PInt 7); fx_frozen := true |};
            {| fx_name := [114%N]; fx_default := None; fx_frozen := false |} ]) ].
Definition o_all : opts := {| o_hide_default := true; o_hide_frozen := true |}.
(* O(n=I(), a=I(), b=I(), l=[], r=[I(x=7)]): an all-default instance where the default is None / I(x=7), an empty list
   where the default is not empty — the inputs of seeded change C05-c *)
Definition ex_ov : pv :=
  PObj s_O [([110%N], fI (PInt 1)); ([97%N], fI (PInt 1)); ([98%N], fI (PInt 1)); ([108%N], PList []); ([122%N], PInt 7);
            ([114%N], PList [fI (PInt 7)])].
Example ex_options_domain : ctx_ok ex_ctx = true /\ okx o_all ex_ctx ex_ov /\ no_empty_tuple ex_ov = true.
Proof.
  split; [reflexivity|]. split; [|reflexivity].
  unfold ex_ov, okx, ex_ctx, fI. simpl.
  repeat split; try reflexivity; try exact I;
    try (match goal with H : _ = true |- _ => vm_compute in H; discriminate H end);
    try (intro X; vm_compute in X; try discriminate X; repeat split; reflexivity).
Qed.
Example ex_options_json :
  to_json_o o_all ex_ctx ex_ov =
  JDict [(KS s_type, JStr s_O); (KS [110%N], JDict [(KS s_type, JStr s_I)]); (KS [98%N], JDict [(KS s_type, JStr s_I)]);
         (KS [108%N], JList []); (KS [114%N], JList [JDict [(KS s_type, JStr s_I); (KS [120%N], JInt 7)]])] /\
  from_json_o q_all ex_ctx (to_json_o o_all ex_ctx ex_ov) = Ok ex_ov.
Proof. vm_compute. split; reflexivity. Qed.

(* base.eq is Python ==: True in a field whose default is 1 is left out and comes back as 1 *)
Theorem bool_for_int_default_refuted :
  let v := PObj s_I [([120%N], PBool true); ([121%N], PStr [97%N])] in
  from_json_o q_none ex_ctx (to_json_o o_all ex_ctx v) = Ok (fI (PInt 1)) /\ v <> fI (PInt 1).
Proof. split; [vm_compute; reflexivity | discriminate]. Qed.

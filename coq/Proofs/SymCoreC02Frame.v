(* SymCoreC02Frame.v -- how the state transformers of SymCore act on one root and on the erasure of its items
   (the lemmas under the refinement proofs of C02). *)
From Coq Require Import ZArith NArith List Bool Lia.
Import ListNotations.
From PG Require Import Common.Tactics Model.SymCoreDefs Model.SymCoreOps Model.SymCoreSpec Model.SymCoreC02
     Proofs.SymCoreBase Proofs.SymCoreWF Proofs.SymCoreWFOps Proofs.SymCoreClone Proofs.SymCoreC02Read.
From PG Require Model.PyList Model.PyDict.
Local Open Scope Z_scope.

(* the container the history is about: a root of the forest *)
Definition root_is (st : state) (r : nat) (tid : N) (k : kind) (fl : flags) (its : list (key * node)) : Prop :=
  get_root st r = Some (Node tid k None [] fl its).
(* no stored item is the MISSING_VALUE marker (it only gets there through the extensions) *)
Definition clean (its : list (key * node)) : Prop := Forall (fun kv => is_missing (snd kv) = false) its.
(* live roots stay what they are *)
Definition keeps_roots (st st' : state) : Prop := forall r t, get_root st r = Some t -> get_root st' r = Some t.
Definition keeps_other (r : nat) (st st' : state) : Prop := forall r' t, r' <> r -> get_root st r' = Some t -> get_root st' r' = Some t.

Lemma keeps_roots_refl : forall st, keeps_roots st st.
Proof. red; auto. Qed.
Lemma keeps_roots_trans : forall a b c, keeps_roots a b -> keeps_roots b c -> keeps_roots a c.
Proof. unfold keeps_roots; intros; auto. Qed.
Lemma keeps_other_refl : forall r st, keeps_other r st st.
Proof. red; auto. Qed.
Lemma keeps_other_trans : forall r a b c, keeps_other r a b -> keeps_other r b c -> keeps_other r a c.
Proof. unfold keeps_other; intros; eauto. Qed.
Lemma keeps_roots_other : forall r a b, keeps_roots a b -> keeps_other r a b.
Proof. unfold keeps_roots, keeps_other; intros; auto. Qed.

Lemma get_at_root : forall st r, get_at st (r, []) = get_root st r.
Proof. intros; unfold get_at; simpl. destruct (get_root st r); reflexivity. Qed.

(* --- set_nth on the root list ----------------------------------------------------------------------------- *)
Lemma nth_error_set_nth_same : forall A (l : list A) n x, (n < length l)%nat -> nth_error (set_nth n x l) n = Some x.
Proof. induction l; destruct n; simpl; intros; try lia; auto. apply IHl; lia. Qed.
Lemma nth_error_set_nth_other : forall A (l : list A) n m x, n <> m -> nth_error (set_nth n x l) m = nth_error l m.
Proof. induction l; destruct n, m; simpl; intros; try congruence; auto. Qed.
Lemma get_root_lt : forall st r t, get_root st r = Some t -> (r < length (roots st))%nat.
Proof. unfold get_root; intros. apply nth_error_Some. destruct (nth_error (roots st) r); congruence. Qed.
Lemma get_root_set_root_same : forall st r t, (r < length (roots st))%nat -> get_root (set_root st r (Live t)) r = Some t.
Proof. intros; unfold get_root, set_root; simpl. rewrite nth_error_set_nth_same; auto. Qed.

Lemma get_root_update_at_same : forall st r f t, get_root st r = Some t -> get_root (update_at st (r, []) f) r = Some (f t).
Proof.
  intros. unfold update_at; simpl. rewrite H. simpl. apply get_root_set_root_same. eapply get_root_lt; eauto.
Qed.
Lemma get_root_update_at_other : forall st r p f r', r' <> r -> get_root (update_at st (r, p) f) r' = get_root st r'.
Proof.
  intros. unfold update_at; simpl. destruct (get_root st r); auto. apply get_root_set_root_other; auto.
Qed.
Lemma keeps_other_update_at : forall st r p f, keeps_other r st (update_at st (r, p) f).
Proof. red; intros. rewrite get_root_update_at_other; auto. Qed.
Lemma roots_length_update_at : forall st ps f, length (roots (update_at st ps f)) = length (roots st).
Proof.
  intros; unfold update_at. destruct (get_root st (fst ps)); auto. simpl.
  generalize (fst ps). generalize (roots st). induction l; destruct n0; simpl; auto.
Qed.

Lemma get_root_with_next : forall st nx r, get_root (with_next st nx) r = get_root st r.
Proof. reflexivity. Qed.
Lemma get_root_add_root : forall st t r x, get_root st r = Some x -> get_root (add_root st t) r = Some x.
Proof.
  intros. pose proof (get_root_lt _ _ _ H). unfold get_root, add_root in *; simpl. rewrite nth_error_app1; auto.
Qed.
Lemma get_root_add_root_new : forall st t, get_root (add_root st t) (length (roots st)) = Some t.
Proof. intros; unfold get_root, add_root; simpl. rewrite nth_error_app2, Nat.sub_diag; auto. Qed.

Lemma restore_slot_keeps : forall i t rs rs' r x, restore_slot i t rs = Some rs' -> nth_error rs r = Some (Live x) -> nth_error rs' r = Some (Live x).
Proof.
  induction rs as [|s rs IH]; simpl; intros; try discriminate.
  destruct s.
  - destruct (restore_slot i t rs) eqn:E; inv H. destruct r; simpl in *; eauto.
  - destruct (N.eqb i i0).
    + inv H. destruct r; simpl in *; eauto. discriminate.
    + destruct (restore_slot i t rs) eqn:E; inv H. destruct r; simpl in *; eauto.
Qed.
Lemma keeps_roots_add_detached : forall st n, keeps_roots st (add_detached st n).
Proof.
  red; intros. destruct n; simpl; auto.
  destruct (restore_slot id (detach (Node id k par pth fl items)) (roots st)) eqn:E.
  - unfold get_root in *; simpl. destruct (nth_error (roots st) r) as [[x|]|] eqn:N; try discriminate.
    erewrite restore_slot_keeps; eauto.
  - apply get_root_add_root; auto.
Qed.
Lemma keeps_roots_detach_all : forall its st, keeps_roots st (detach_all st its).
Proof.
  unfold detach_all. induction its; simpl; intros. apply keeps_roots_refl.
  eapply keeps_roots_trans; [apply keeps_roots_add_detached | apply IHits].
Qed.

Lemma fix_chain_root : forall st r, fix_chain st (r, []) = update_at st (r, []) purge_list.
Proof. reflexivity. Qed.

Lemma nth_error_firstn_lt : forall A (l : list A) n r, (r < n)%nat -> nth_error (firstn n l) r = nth_error l r.
Proof. induction l; destruct n, r; simpl; intros; auto; try lia. apply IHl; lia. Qed.
Lemma get_root_gc : forall old base keep st r t, (r < old)%nat -> get_root st r = Some t -> get_root (gc old base keep st) r = Some t.
Proof.
  intros. pose proof (get_root_lt _ _ _ H0). unfold get_root, gc in *; simpl.
  rewrite nth_error_app1. 2:{ rewrite firstn_length. lia. }
  rewrite nth_error_firstn_lt; auto.
Qed.

(* --- erasure of the list surgery --------------------------------------------------------------------------------- *)
Lemma erase_set_path : forall n p, erase (set_path p n) = erase n.
Proof.
  induction n using node_ind'; intros; simpl; auto.
  destruct (path_eqb pt p); auto. simpl. f_equal. rewrite map_map. apply map_ext_in. intros kv I; simpl.
  rewrite Forall_forall in H. rewrite H; auto.
Qed.
Lemma erase_set_par : forall n p, erase (set_par p n) = erase n.
Proof. destruct n; reflexivity. Qed.
Lemma erase_detach : forall n, erase (detach n) = erase n.
Proof. intros; unfold detach. rewrite erase_set_path, erase_set_par; auto. Qed.
Lemma erase_reindex_child : forall cp i c, erase (reindex_child cp i c) = erase c.
Proof.
  intros. destruct c; [reflexivity|]. unfold reindex_child.
  destruct (last_key pth); [destruct (key_eqb k0 (KI i))|]; auto; apply erase_set_path.
Qed.
Lemma is_missing_reindex_child : forall cp i c, is_missing (reindex_child cp i c) = is_missing c.
Proof.
  intros. destruct c; [reflexivity|]. unfold reindex_child.
  destruct (last_key pth); [destruct (key_eqb k0 (KI i))|]; auto; simpl;
    destruct (path_eqb pth (cp ++ [KI i])); reflexivity.
Qed.
Lemma evals_renum_from : forall cp l i, evals (renum_from cp i l) = evals l.
Proof. induction l as [|[k c] l IH]; simpl; intros; auto. rewrite erase_reindex_child, IH; auto. Qed.
Lemma evals_renum : forall cp l, evals (renum cp l) = evals l.
Proof. intros; apply evals_renum_from. Qed.
Lemma clean_renum_from : forall cp l i, clean l -> clean (renum_from cp i l).
Proof.
  unfold clean. induction l as [|[k c] l IH]; simpl; intros; auto. inv H. constructor; auto.
  simpl in *. rewrite is_missing_reindex_child; auto.
Qed.
Lemma clean_renum : forall cp l, clean l -> clean (renum cp l).
Proof. intros; apply clean_renum_from; auto. Qed.
Lemma filter_clean : forall l, clean l -> filter (fun kv : key * node => negb (is_missing (snd kv))) l = l.
Proof. induction 1; simpl; auto. rewrite H, IHForall; auto. Qed.
Lemma purge_list_clean : forall i pa pt fl its, clean its ->
  purge_list (Node i KList pa pt fl its) = Node i KList pa pt fl (renum pt its).
Proof. intros; simpl. rewrite filter_clean; auto. Qed.
Lemma purge_list_other : forall i k pa pt fl its, k <> KList -> purge_list (Node i k pa pt fl its) = Node i k pa pt fl its.
Proof. intros; destruct k; simpl; congruence. Qed.

Lemma evals_app : forall a b, evals (a ++ b) = evals a ++ evals b.
Proof. intros; apply map_app. Qed.
Lemma evals_rev : forall l, evals (rev l) = rev (evals l).
Proof. intros; apply map_rev. Qed.
Lemma evals_set_nth : forall l p k nw, evals (set_nth p (k, nw) l) = PyList.replace_nth p (erase nw) (evals l).
Proof. induction l; destruct p; simpl; intros; auto. rewrite IHl; auto. Qed.
Lemma evals_remove_nth : forall l p, evals (remove_nth p l) = PyList.delete_nth p (evals l).
Proof. induction l; destruct p; simpl; intros; auto. rewrite IHl; auto. Qed.
Lemma evals_insert_at : forall l p x, (p <= length l)%nat ->
  evals (insert_at p x l) = firstn p (evals l) ++ erase (snd x) :: skipn p (evals l).
Proof.
  induction l; destruct p; simpl; intros; auto; try lia. rewrite IHl; auto; lia.
Qed.
Lemma clean_app : forall a b, clean a -> clean b -> clean (a ++ b).
Proof. intros; apply Forall_app; auto. Qed.
Lemma clean_rev : forall l, clean l -> clean (rev l).
Proof. intros; apply Forall_rev; auto. Qed.

(* erasing a list node whose keys are the positions gives the plain list of its item values *)
Lemma eitems_positions : forall l i, positions i (map fst l) -> eitems l = number_from i (evals l).
Proof.
  induction l as [|[k c] l IH]; simpl; intros; auto. destruct H as [E P]. simpl in E; subst. rewrite (IH (i + 1)); auto.
Qed.
Lemma erase_list_node : forall st r tid fl its, wfs st -> root_is st r tid KList fl its ->
  erase (Node tid KList None [] fl its) = plist (evals its).
Proof.
  intros. red in H0. rewrite <- get_at_root in H0.
  destruct (container_facts _ _ _ _ _ _ _ _ H H0) as (_ & K & _). simpl in K.
  rewrite erase_node. unfold plist. f_equal. apply eitems_positions; auto.
Qed.

(* --- erasure of the dict surgery ----------------------------------------------------------------------------------- *)
Lemma eitems_set_assoc : forall k nw l, eitems (set_assoc k nw l) = PyDict.dset key_eqb k (erase nw) (eitems l).
Proof. induction l as [|[k' v] l IH]; simpl; auto. destruct (key_eqb k k'); simpl; auto. rewrite IH; auto. Qed.
Lemma eitems_remove_assoc : forall k l, eitems (remove_assoc k l) = PyDict.ddel key_eqb k (eitems l).
Proof. induction l as [|[k' v] l IH]; simpl; auto. destruct (key_eqb k k'); simpl; auto. rewrite IH; auto. Qed.
Lemma eitems_removelast : forall l, eitems (removelast l) = removelast (eitems l).
Proof.
  induction l as [|kv l IH]; simpl; auto. destruct l; simpl in *; auto. rewrite IH; auto.
Qed.
Lemma eitems_rev : forall l, eitems (rev l) = rev (eitems l).
Proof. intros; apply map_rev. Qed.
Lemma clean_set_assoc : forall k nw l, is_missing nw = false -> clean l -> clean (set_assoc k nw l).
Proof.
  unfold clean. induction l as [|[k' v] l IH]; simpl; intros. constructor; auto.
  inv H0. destruct (key_eqb k k'); constructor; auto.
Qed.
Lemma clean_remove_assoc : forall k l, clean l -> clean (remove_assoc k l).
Proof. intros; apply Forall_remove_assoc; auto. Qed.
Lemma clean_assoc : forall k l v, clean l -> assoc k l = Some v -> is_missing v = false.
Proof.
  unfold clean. induction l as [|[k' v'] l IH]; simpl; intros; try discriminate. inv H.
  destruct (key_eqb k k'). inv H0; auto. eauto.
Qed.

(* --- what a literal becomes ------------------------------------------------------------------------------------------- *)
Lemma erase_seal_rec : forall b n, erase (seal_rec b n) = erase n.
Proof.
  induction n using node_ind'; simpl; auto. f_equal. rewrite map_map. apply map_ext_in; intros kv I; simpl.
  rewrite Forall_forall in H. rewrite H; auto.
Qed.
Lemma erase_ctor_seal : forall n, erase (ctor_seal n) = erase n.
Proof. destruct n; simpl; auto. destruct (f_sealed fl); auto. apply (erase_seal_rec true (Node id k par pth fl items)). Qed.
Definition plit_items (k : kind) : list (key * lit) -> Z -> list (key * pv) :=
  fix go (l : list (key * lit)) (i : Z) : list (key * pv) :=
    match l with
    | [] => []
    | (kk, c) :: r => ((match k with KList => KI i | _ => kk end), plit c) :: go r (i + 1)
    end.
Lemma plit_node : forall k fl pl its, plit (LitNode k fl pl its) = PNode k (plit_items k its 0).
Proof. reflexivity. Qed.
Theorem build_erase : forall l ctx pa p nx, erase (fst (build ctx pa p l nx)) = plit l.
Proof.
  induction l using lit_ind'; intros.
  - Transparent build. simpl. Opaque build. reflexivity.
  - rewrite build_node, plit_node. cbv zeta.
    set (fl' := if plain then mkFlags false true ctx 0 else fl).
    assert (E : forall its0 i nx0, Forall (fun kv => forall ctx pa p nx, erase (fst (build ctx pa p (snd kv) nx)) = plit (snd kv)) its0 ->
                eitems (fst (build_items build k (f_partial fl') nx p its0 i nx0)) = plit_items k its0 i).
    { clear. induction its0 as [|[kk c] r IH]; simpl; intros; auto. inv H.
      destruct (build (f_partial fl') (Some nx) (p ++ [match k with KList => KI i | _ => kk end]) c nx0) as [c' n1] eqn:B.
      specialize (IH (i + 1) n1 H3).
      destruct (build_items build k (f_partial fl') nx p r (i + 1) n1) as [r' n2]. simpl in *.
      rewrite IH. f_equal. f_equal. specialize (H2 (f_partial fl') (Some nx) (p ++ [match k with KList => KI i | _ => kk end]) nx0).
      rewrite B in H2. exact H2. }
    specialize (E its 0 (N.succ nx) H).
    destruct (build_items build k (f_partial fl') nx p its 0 (N.succ nx)) as [its' nx']. cbn [fst snd] in *.
    rewrite erase_ctor_seal, erase_node. f_equal. exact E.
Qed.
Lemma build_not_missing : forall ctx pa p k fl pl its nx, is_missing (fst (build ctx pa p (LitNode k fl pl its) nx)) = false.
Proof.
  intros. pose proof (build_is_node ctx pa p k fl pl its nx). destruct (fst (build ctx pa p (LitNode k fl pl its) nx)); simpl in *; auto; discriminate.
Qed.

(* ======================= any position, not only a root ================================================================ *)
(* the container an operation addresses, wherever it sits *)
Definition at_is (st : state) (ps : pos) (tid : N) (k : kind) (pa : option N) (fl : flags) (its : list (key * node)) : Prop :=
  get_at st ps = Some (Node tid k pa (snd ps) fl its).
(* no list on the way from the root down to (and excluding) the target holds the MISSING_VALUE marker *)
Definition anc_clean (st : state) (ps : pos) : Prop :=
  forall pre suf i pa pt fl its, snd ps = pre ++ suf -> suf <> [] ->
    get_at st (fst ps, pre) = Some (Node i KList pa pt fl its) -> clean its.

Lemma assoc_map_assoc : forall A k (g : A -> A) l, assoc k (map_assoc k g l) = option_map g (assoc k l).
Proof. induction l as [|[k' v] l IH]; simpl; auto. destruct (key_eqb k k') eqn:E; simpl; rewrite E; auto. Qed.
Lemma get_in_update_in_prefix : forall pre suf f t,
  get_in pre (update_in (pre ++ suf) f t) = option_map (update_in suf f) (get_in pre t).
Proof.
  induction pre as [|k pre IH]; intros; simpl; auto.
  destruct t as [l|i kd pa pt fl its]; simpl; auto.
  rewrite assoc_map_assoc. destruct (assoc k its); simpl; auto.
Qed.
Lemma get_at_update_at_prefix : forall st r pre suf f,
  get_at (update_at st (r, pre ++ suf) f) (r, pre) = option_map (update_in suf f) (get_at st (r, pre)).
Proof.
  intros. unfold update_at, get_at. simpl. destruct (get_root st r) as [t|] eqn:G.
  - rewrite get_root_set_root_same by (eapply get_root_lt; eauto). apply get_in_update_in_prefix.
  - rewrite G. reflexivity.
Qed.
Lemma get_at_update_at_same : forall st ps f t, get_at st ps = Some t -> get_at (update_at st ps f) ps = Some (f t).
Proof.
  intros. destruct ps as [r p]. pose proof (get_at_update_at_prefix st r p [] f) as H0.
  rewrite app_nil_r in H0. rewrite H0, H. reflexivity.
Qed.
Lemma get_at_update_at_other : forall st r p f r' p', r' <> r -> get_at (update_at st (r, p) f) (r', p') = get_at st (r', p').
Proof. intros. unfold get_at. simpl. rewrite get_root_update_at_other; auto. Qed.
Lemma keeps_roots_get_at : forall st st' ps t, keeps_roots st st' -> get_at st ps = Some t -> get_at st' ps = Some t.
Proof.
  unfold get_at; intros. destruct (get_root st (fst ps)) eqn:G; try discriminate. rewrite (H _ _ G). auto.
Qed.
Lemma same_roots_get_at : forall st st1 ps, roots st1 = roots st -> get_at st1 ps = get_at st ps.
Proof. intros; unfold get_at, get_root; rewrite H; auto. Qed.
Lemma get_at_gc : forall old base keep st ps t, (fst ps < old)%nat -> get_at st ps = Some t -> get_at (gc old base keep st) ps = Some t.
Proof.
  unfold get_at; intros. destruct (get_root st (fst ps)) eqn:G; try discriminate. rewrite (get_root_gc _ _ _ _ _ _ H G). auto.
Qed.
Lemma get_at_lt : forall st ps t, get_at st ps = Some t -> (fst ps < length (roots st))%nat.
Proof. unfold get_at; intros. destruct (get_root st (fst ps)) eqn:G; try discriminate. eapply get_root_lt; eauto. Qed.

(* on a well-formed clean list, change notification (drop the markers, re-index) changes nothing *)
Lemma map_assoc_id : forall A k (g : A -> A) l, (forall v, assoc k l = Some v -> g v = v) -> map_assoc k g l = l.
Proof.
  induction l as [|[k' v] l IH]; simpl; intros; auto. destruct (key_eqb k k') eqn:E.
  - rewrite H; auto.
  - f_equal. apply IH. auto.
Qed.
Lemma update_in_id : forall p f t, (forall c, get_in p t = Some c -> f c = c) -> update_in p f t = t.
Proof.
  induction p as [|k p IH]; intros; simpl in *; auto.
  destruct t as [l|i kd pa pt fl its]; auto. f_equal. apply map_assoc_id. intros v A. apply IH. intros c G. apply H. simpl. rewrite A. auto.
Qed.
Lemma set_nth_same : forall A (l : list A) n x, nth_error l n = Some x -> set_nth n x l = l.
Proof. induction l; destruct n; simpl; intros; try discriminate; auto. inv H; auto. f_equal; auto. Qed.
Lemma update_at_id : forall st ps f, (forall c, get_at st ps = Some c -> f c = c) -> update_at st ps f = st.
Proof.
  intros. unfold update_at. destruct (get_root st (fst ps)) as [t|] eqn:G; auto.
  rewrite update_in_id. 2:{ intros c GI. apply H. unfold get_at. rewrite G. auto. }
  unfold set_root. unfold get_root in G. destruct (nth_error (roots st) (fst ps)) as [[x|]|] eqn:N; inv G.
  rewrite set_nth_same; auto. destruct st; reflexivity.
Qed.
Lemma last_key_app : forall p k, last_key (p ++ [k]) = Some k.
Proof. intros; unfold last_key. rewrite rev_app_distr. reflexivity. Qed.
Lemma renum_from_id : forall cid cp l i, positions i (map fst l) -> Forall (child_wf cid cp) l -> renum_from cp i l = l.
Proof.
  induction l as [|[k c] l IH]; simpl; intros; auto. destruct H as [E P]. simpl in E. subst k. inv H0.
  rewrite IH; auto. f_equal. f_equal. red in H2. simpl in H2. destruct c; simpl; auto.
  apply wf_node_unfold in H2. destruct H2 as (_ & E & _). subst pth. rewrite last_key_app, key_eqb_refl. reflexivity.
Qed.
Lemma purge_list_id : forall ep pt n, wf_node ep pt n -> (forall i pa p fl its, n = Node i KList pa p fl its -> clean its) -> purge_list n = n.
Proof.
  intros. destruct n as [l|i k pa p fl its]; auto. destruct k; auto.
  apply wf_node_unfold in H. destruct H as (_ & E & K & F). subst p.
  simpl. rewrite filter_clean by (eapply H0; eauto). f_equal. eapply renum_from_id; eauto.
Qed.
Lemma inits_prefix : forall A (p pre : list A), In pre (inits p) -> exists suf, p = pre ++ suf.
Proof.
  induction p; simpl; intros.
  - destruct H; [subst; exists []; auto|contradiction].
  - destruct H. subst. eexists; reflexivity.
    apply in_map_iff in H. destruct H as (x & E & I). subst. destruct (IHp _ I) as (suf & ES). exists suf. simpl. congruence.
Qed.
Theorem fix_chain_id : forall st ps, wfs st ->
  (forall pre suf i pa pt fl its, snd ps = pre ++ suf -> get_at st (fst ps, pre) = Some (Node i KList pa pt fl its) -> clean its) ->
  fix_chain st ps = st.
Proof.
  intros st ps W H. unfold fix_chain.
  assert (P : forall pre, In pre (prefixes_desc (snd ps)) -> exists suf, snd ps = pre ++ suf).
  { intros pre I. unfold prefixes_desc in I. apply in_rev in I. apply inits_prefix; auto. }
  induction (prefixes_desc (snd ps)) as [|pre l IH]; simpl; auto.
  rewrite update_at_id.
  - apply IH. intros; apply P; right; auto.
  - intros c G. destruct (P pre (or_introl eq_refl)) as (suf & ES).
    destruct (wfs_get_at _ _ _ W G) as (ep & WN). eapply purge_list_id; eauto.
    intros; subst c. eapply H; eauto.
Qed.

(* replacing the items of the target keeps the lists above it clean *)
Lemma is_missing_update_in_set_items : forall p x c, is_missing (update_in p (set_items x) c) = is_missing c.
Proof. destruct p; destruct c; reflexivity. Qed.
Lemma keeps_roots_get_at_eq : forall st st' r p t, keeps_roots st st' -> get_root st r = Some t -> get_at st' (r, p) = get_at st (r, p).
Proof. intros. unfold get_at. simpl. rewrite (H _ _ H0), H0. reflexivity. Qed.
Lemma anc_clean_update_items : forall st ps its', anc_clean st ps -> anc_clean (update_at st ps (set_items its')) ps.
Proof.
  unfold anc_clean. intros st [r p] its' AC pre suf i pa pt fl its E NE G. simpl in *. subst p.
  rewrite get_at_update_at_prefix in G.
  destruct (get_at st (r, pre)) as [n|] eqn:GA; try discriminate. simpl in G. inv G.
  destruct suf as [|k suf]; try congruence. destruct n as [l|i0 k0 pa0 pt0 fl0 its0]; simpl in H0; try discriminate.
  inv H0. specialize (AC pre (k :: suf) i pa pt fl its0 eq_refl NE GA).
  unfold clean in *. apply Forall_map_assoc; auto. intros v Hv. simpl in *. rewrite is_missing_update_in_set_items. auto.
Qed.
Lemma anc_clean_keeps : forall st st' ps, keeps_roots st st' -> (exists t, get_root st (fst ps) = Some t) -> anc_clean st ps -> anc_clean st' ps.
Proof.
  unfold anc_clean. intros st st' [r p] K [t G] AC pre suf i pa pt fl its E NE GA. simpl in *.
  rewrite (keeps_roots_get_at_eq _ _ _ _ _ K G) in GA. eauto.
Qed.
Lemma anc_clean_same_roots : forall st st1 ps, roots st1 = roots st -> anc_clean st ps -> anc_clean st1 ps.
Proof. unfold anc_clean; intros. rewrite (same_roots_get_at _ _ _ H) in H3. eauto. Qed.
Lemma get_at_root_some : forall st ps t, get_at st ps = Some t -> exists t0, get_root st (fst ps) = Some t0.
Proof. unfold get_at; intros. destruct (get_root st (fst ps)); eauto; discriminate. Qed.

Lemma keeps_other_get_at : forall r st st' ps t, keeps_other r st st' -> fst ps <> r -> get_at st ps = Some t -> get_at st' ps = Some t.
Proof.
  unfold get_at; intros. destruct (get_root st (fst ps)) eqn:G; try discriminate. rewrite (H _ _ H0 G). auto.
Qed.
Lemma anc_clean_keeps_other : forall r st st' ps, keeps_other r st st' -> fst ps <> r -> (exists t, get_root st (fst ps) = Some t) ->
  anc_clean st ps -> anc_clean st' ps.
Proof.
  unfold anc_clean. intros r st st' [r0 p] K NE [t G] AC pre suf i pa pt fl its E NS GA. simpl in *.
  assert (get_at st' (r0, pre) = get_at st (r0, pre)) by (unfold get_at; simpl; rewrite (K _ _ NE G), G; auto).
  rewrite H in GA. eauto.
Qed.
Lemma anc_clean_root : forall st r, anc_clean st (r, []).
Proof. unfold anc_clean; simpl; intros. destruct pre; destruct suf; simpl in *; try discriminate; congruence. Qed.
(* new items for a list: re-indexed, they are well-formed children again *)
Lemma wfs_list_items : forall st ps tid pa pt fl its its',
  wfs st -> get_at st ps = Some (Node tid KList pa pt fl its) -> Forall (child_wf_any tid pt) its' ->
  wfs (update_at st ps (set_items (renum pt its'))).
Proof.
  intros. eapply wfs_replace_items; [exact H | exact H | exact H0 | auto | | ].
  - simpl. apply renum_keys.
  - apply renum_wf. auto.
Qed.
Lemma wfs_no_items : forall st ps tid k pa pt fl its, k <> KObj 0%N -> (forall c, k <> KObj c) ->
  wfs st -> get_at st ps = Some (Node tid k pa pt fl its) -> wfs (update_at st ps (set_items [])).
Proof.
  intros. eapply wfs_replace_items; [exact H1 | exact H1 | exact H2 | auto | | constructor].
  destruct k; simpl; auto. constructor. exfalso; eapply H0; eauto.
Qed.

Lemma anc_clean_same_root : forall st st' ps, get_root st' (fst ps) = get_root st (fst ps) -> anc_clean st ps -> anc_clean st' ps.
Proof.
  unfold anc_clean. intros st st' [r p] G AC pre suf i pa pt fl its E NS GA. simpl in *.
  assert (get_at st' (r, pre) = get_at st (r, pre)) by (unfold get_at; simpl; rewrite G; auto).
  rewrite H in GA. eauto.
Qed.
Lemma anc_clean_gc : forall old base keep st ps t, (fst ps < old)%nat -> get_at st ps = Some t -> anc_clean st ps ->
  anc_clean (gc old base keep st) ps.
Proof.
  intros. destruct (get_at_root_some _ _ _ H0) as [t0 G]. eapply anc_clean_same_root; [|exact H1].
  rewrite (get_root_gc _ _ _ _ _ _ H G). auto.
Qed.
Lemma erase_list_at : forall st ps tid pa fl its, wfs st -> at_is st ps tid KList pa fl its ->
  erase (Node tid KList pa (snd ps) fl its) = plist (evals its).
Proof.
  intros. destruct (container_facts _ _ _ _ _ _ _ _ H H0) as (_ & K & _). simpl in K.
  rewrite erase_node. unfold plist. f_equal. apply eitems_positions; auto.
Qed.

(* SymCoreC02Frame.v -- how the state transformers of SymCore act on one root and on the erasure of its items
   (the lemmas under the refinement proofs of C02). *)
From Coq Require Import ZArith NArith List Bool Lia.
Import ListNotations.
From PG Require Import Common.Tactics Model.SymCoreDefs Model.SymCoreOps Model.SymCoreSpec Model.SymCoreC02
     Proofs.SymCoreBase Proofs.SymCoreWF Proofs.SymCoreWFOps Proofs.SymCoreClone Proofs.SymCoreC02Read.
From PG Require Model.PyList Model.PyDict.
Local Open Scope Z_scope.

(* the container the history is about: a root of the forest *)
Definition root_is (st : state) (r : nat) (tid : N) (k : kind) (fl : flags) (its : list (key * node)) : Prop :=
  get_root st r = Some (Node tid k None [] fl its).
(* no stored item is the MISSING_VALUE marker (it only gets there through the extensions) *)
Definition clean (its : list (key * node)) : Prop := Forall (fun kv => is_missing (snd kv) = false) its.
(* live roots stay what they are *)
Definition keeps_roots (st st' : state) : Prop := forall r t, get_root st r = Some t -> get_root st' r = Some t.
Definition keeps_other (r : nat) (st st' : state) : Prop := forall r' t, r' <> r -> get_root st r' = Some t -> get_root st' r' = Some t.

Lemma keeps_roots_refl : forall st, keeps_roots st st.
Proof. red; auto. Qed.
Lemma keeps_roots_trans : forall a b c, keeps_roots a b -> keeps_roots b c -> keeps_roots a c.
Proof. unfold keeps_roots; intros; auto. Qed.
Lemma keeps_other_refl : forall r st, keeps_other r st st.
Proof. red; auto. Qed.
Lemma keeps_other_trans : forall r a b c, keeps_other r a b -> keeps_other r b c -> keeps_other r a c.
Proof. unfold keeps_other; intros; eauto. Qed.
Lemma keeps_roots_other : forall r a b, keeps_roots a b -> keeps_other r a b.
Proof. unfold keeps_roots, keeps_other; intros; auto. Qed.

Lemma get_at_root : forall st r, get_at st (r, []) = get_root st r.
Proof. intros; unfold get_at; simpl. destruct (get_root st r); reflexivity. Qed.

(* --- set_nth on the root list ----------------------------------------------------------------------------- *)
Lemma nth_error_set_nth_same : forall A (l : list A) n x, (n < length l)%nat -> nth_error (set_nth n x l) n = Some x.
Proof. induction l; destruct n; simpl; intros; try lia; auto. apply IHl; lia. Qed.
Lemma nth_error_set_nth_other : forall A (l : list A) n m x, n <> m -> nth_error (set_nth n x l) m = nth_error l m.
Proof. induction l; destruct n, m; simpl; intros; try congruence; auto. Qed.
Lemma get_root_lt : forall st r t, get_root st r = Some t -> (r < length (roots st))%nat.
Proof. unfold get_root; intros. apply nth_error_Some. destruct (nth_error (roots st) r); congruence. Qed.
Lemma get_root_set_root_same : forall st r t, (r < length (roots st))%nat -> get_root (set_root st r (Live t)) r = Some t.
Proof. intros; unfold get_root, set_root; simpl. rewrite nth_error_set_nth_same; auto. Qed.

Lemma get_root_update_at_same : forall st r f t, get_root st r = Some t -> get_root (update_at st (r, []) f) r = Some (f t).
Proof.
  intros. unfold update_at; simpl. rewrite H. simpl. apply get_root_set_root_same. eapply get_root_lt; eauto.
Qed.
Lemma get_root_update_at_other : forall st r p f r', r' <> r -> get_root (update_at st (r, p) f) r' = get_root st r'.
Proof.
  intros. unfold update_at; simpl. destruct (get_root st r); auto. apply get_root_set_root_other; auto.
Qed.
Lemma keeps_other_update_at : forall st r p f, keeps_other r st (update_at st (r, p) f).
Proof. red; intros. rewrite get_root_update_at_other; auto. Qed.
Lemma roots_length_update_at : forall st ps f, length (roots (update_at st ps f)) = length (roots st).
Proof.
  intros; unfold update_at. destruct (get_root st (fst ps)); auto. simpl.
  generalize (fst ps). generalize (roots st). induction l; destruct n0; simpl; auto.
Qed.

Lemma get_root_with_next : forall st nx r, get_root (with_next st nx) r = get_root st r.
Proof. reflexivity. Qed.
Lemma get_root_add_root : forall st t r x, get_root st r = Some x -> get_root (add_root st t) r = Some x.
Proof.
  intros. pose proof (get_root_lt _ _ _ H). unfold get_root, add_root in *; simpl. rewrite nth_error_app1; auto.
Qed.
Lemma get_root_add_root_new : forall st t, get_root (add_root st t) (length (roots st)) = Some t.
Proof. intros; unfold get_root, add_root; simpl. rewrite nth_error_app2, Nat.sub_diag; auto. Qed.

Lemma restore_slot_keeps : forall i t rs rs' r x, restore_slot i t rs = Some rs' -> nth_error rs r = Some (Live x) -> nth_error rs' r = Some (Live x).
Proof.
  induction rs as [|s rs IH]; simpl; intros; try discriminate.
  destruct s.
  - destruct (restore_slot i t rs) eqn:E; inv H. destruct r; simpl in *; eauto.
  - destruct (N.eqb i i0).
    + inv H. destruct r; simpl in *; eauto. discriminate.
    + destruct (restore_slot i t rs) eqn:E; inv H. destruct r; simpl in *; eauto.
Qed.
Lemma keeps_roots_add_detached : forall st n, keeps_roots st (add_detached st n).
Proof.
  red; intros. destruct n; simpl; auto.
  destruct (restore_slot id (detach (Node id k par pth fl items)) (roots st)) eqn:E.
  - unfold get_root in *; simpl. destruct (nth_error (roots st) r) as [[x|]|] eqn:N; try discriminate.
    erewrite restore_slot_keeps; eauto.
  - apply get_root_add_root; auto.
Qed.
Lemma keeps_roots_detach_all : forall its st, keeps_roots st (detach_all st its).
Proof.
  unfold detach_all. induction its; simpl; intros. apply keeps_roots_refl.
  eapply keeps_roots_trans; [apply keeps_roots_add_detached | apply IHits].
Qed.

Lemma fix_chain_root : forall st r, fix_chain st (r, []) = update_at st (r, []) purge_list.
Proof. reflexivity. Qed.

Lemma nth_error_firstn_lt : forall A (l : list A) n r, (r < n)%nat -> nth_error (firstn n l) r = nth_error l r.
Proof. induction l; destruct n, r; simpl; intros; auto; try lia. apply IHl; lia. Qed.
Lemma get_root_gc : forall old base keep st r t, (r < old)%nat -> get_root st r = Some t -> get_root (gc old base keep st) r = Some t.
Proof.
  intros. pose proof (get_root_lt _ _ _ H0). unfold get_root, gc in *; simpl.
  rewrite nth_error_app1. 2:{ rewrite firstn_length. lia. }
  rewrite nth_error_firstn_lt; auto.
Qed.

(* --- erasure of the list surgery --------------------------------------------------------------------------------- *)
Lemma erase_set_path : forall n p, erase (set_path p n) = erase n.
Proof.
  induction n using node_ind'; intros; simpl; auto.
  destruct (path_eqb pt p); auto. simpl. f_equal. rewrite map_map. apply map_ext_in. intros kv I; simpl.
  rewrite Forall_forall in H. rewrite H; auto.
Qed.
Lemma erase_set_par : forall n p, erase (set_par p n) = erase n.
Proof. destruct n; reflexivity. Qed.
Lemma erase_detach : forall n, erase (detach n) = erase n.
Proof. intros; unfold detach. rewrite erase_set_path, erase_set_par; auto. Qed.
Lemma erase_reindex_child : forall cp i c, erase (reindex_child cp i c) = erase c.
Proof.
  intros. destruct c; [reflexivity|]. unfold reindex_child.
  destruct (last_key pth); [destruct (key_eqb k0 (KI i))|]; auto; apply erase_set_path.
Qed.
Lemma is_missing_reindex_child : forall cp i c, is_missing (reindex_child cp i c) = is_missing c.
Proof.
  intros. destruct c; [reflexivity|]. unfold reindex_child.
  destruct (last_key pth); [destruct (key_eqb k0 (KI i))|]; auto; simpl;
    destruct (path_eqb pth (cp ++ [KI i])); reflexivity.
Qed.
Lemma evals_renum_from : forall cp l i, evals (renum_from cp i l) = evals l.
Proof. induction l as [|[k c] l IH]; simpl; intros; auto. rewrite erase_reindex_child, IH; auto. Qed.
Lemma evals_renum : forall cp l, evals (renum cp l) = evals l.
Proof. intros; apply evals_renum_from. Qed.
Lemma clean_renum_from : forall cp l i, clean l -> clean (renum_from cp i l).
Proof.
  unfold clean. induction l as [|[k c] l IH]; simpl; intros; auto. inv H. constructor; auto.
  simpl in *. rewrite is_missing_reindex_child; auto.
Qed.
Lemma clean_renum : forall cp l, clean l -> clean (renum cp l).
Proof. intros; apply clean_renum_from; auto. Qed.
Lemma filter_clean : forall l, clean l -> filter (fun kv : key * node => negb (is_missing (snd kv))) l = l.
Proof. induction 1; simpl; auto. rewrite H, IHForall; auto. Qed.
Lemma purge_list_clean : forall i pa pt fl its, clean its ->
  purge_list (Node i KList pa pt fl its) = Node i KList pa pt fl (renum pt its).
Proof. intros; simpl. rewrite filter_clean; auto. Qed.
Lemma purge_list_other : forall i k pa pt fl its, k <> KList -> purge_list (Node i k pa pt fl its) = Node i k pa pt fl its.
Proof. intros; destruct k; simpl; congruence. Qed.

Lemma evals_app : forall a b, evals (a ++ b) = evals a ++ evals b.
Proof. intros; apply map_app. Qed.
Lemma evals_rev : forall l, evals (rev l) = rev (evals l).
Proof. intros; apply map_rev. Qed.
Lemma evals_set_nth : forall l p k nw, evals (set_nth p (k, nw) l) = PyList.replace_nth p (erase nw) (evals l).
Proof. induction l; destruct p; simpl; intros; auto. rewrite IHl; auto. Qed.
Lemma evals_remove_nth : forall l p, evals (remove_nth p l) = PyList.delete_nth p (evals l).
Proof. induction l; destruct p; simpl; intros; auto. rewrite IHl; auto. Qed.
Lemma evals_insert_at : forall l p x, (p <= length l)%nat ->
  evals (insert_at p x l) = firstn p (evals l) ++ erase (snd x) :: skipn p (evals l).
Proof.
  induction l; destruct p; simpl; intros; auto; try lia. rewrite IHl; auto; lia.
Qed.
Lemma clean_app : forall a b, clean a -> clean b -> clean (a ++ b).
Proof. intros; apply Forall_app; auto. Qed.
Lemma clean_rev : forall l, clean l -> clean (rev l).
Proof. intros; apply Forall_rev; auto. Qed.

(* erasing a list node whose keys are the positions gives the plain list of its item values *)
Lemma eitems_positions : forall l i, positions i (map fst l) -> eitems l = number_from i (evals l).
Proof.
  induction l as [|[k c] l IH]; simpl; intros; auto. destruct H as [E P]. simpl in E; subst. rewrite (IH (i + 1)); auto.
Qed.
Lemma erase_list_node : forall st r tid fl its, wfs st -> root_is st r tid KList fl its ->
  erase (Node tid KList None [] fl its) = plist (evals its).
Proof.
  intros. red in H0. rewrite <- get_at_root in H0.
  destruct (container_facts _ _ _ _ _ _ _ _ H H0) as (_ & K & _). simpl in K.
  rewrite erase_node. unfold plist. f_equal. apply eitems_positions; auto.
Qed.

(* --- erasure of the dict surgery ----------------------------------------------------------------------------------- *)
Lemma eitems_set_assoc : forall k nw l, eitems (set_assoc k nw l) = PyDict.dset key_eqb k (erase nw) (eitems l).
Proof. induction l as [|[k' v] l IH]; simpl; auto. destruct (key_eqb k k'); simpl; auto. rewrite IH; auto. Qed.
Lemma eitems_remove_assoc : forall k l, eitems (remove_assoc k l) = PyDict.ddel key_eqb k (eitems l).
Proof. induction l as [|[k' v] l IH]; simpl; auto. destruct (key_eqb k k'); simpl; auto. rewrite IH; auto. Qed.
Lemma eitems_removelast : forall l, eitems (removelast l) = removelast (eitems l).
Proof.
  induction l as [|kv l IH]; simpl; auto. destruct l; simpl in *; auto. rewrite IH; auto.
Qed.
Lemma eitems_rev : forall l, eitems (rev l) = rev (eitems l).
Proof. intros; apply map_rev. Qed.
Lemma clean_set_assoc : forall k nw l, is_missing nw = false -> clean l -> clean (set_assoc k nw l).
Proof.
  unfold clean. induction l as [|[k' v] l IH]; simpl; intros. constructor; auto.
  inv H0. destruct (key_eqb k k'); constructor; auto.
Qed.
Lemma clean_remove_assoc : forall k l, clean l -> clean (remove_assoc k l).
Proof. intros; apply Forall_remove_assoc; auto. Qed.
Lemma clean_assoc : forall k l v, clean l -> assoc k l = Some v -> is_missing v = false.
Proof.
  unfold clean. induction l as [|[k' v'] l IH]; simpl; intros; try discriminate. inv H.
  destruct (key_eqb k k'). inv H0; auto. eauto.
Qed.

(* --- what a literal becomes ------------------------------------------------------------------------------------------- *)
Lemma erase_seal_rec : forall b n, erase (seal_rec b n) = erase n.
Proof.
  induction n using node_ind'; simpl; auto. f_equal. rewrite map_map. apply map_ext_in; intros kv I; simpl.
  rewrite Forall_forall in H. rewrite H; auto.
Qed.
Lemma erase_ctor_seal : forall n, erase (ctor_seal n) = erase n.
Proof. destruct n; simpl; auto. destruct (f_sealed fl); auto. apply (erase_seal_rec true (Node id k par pth fl items)). Qed.
Definition plit_items (k : kind) : list (key * lit) -> Z -> list (key * pv) :=
  fix go (l : list (key * lit)) (i : Z) : list (key * pv) :=
    match l with
    | [] => []
    | (kk, c) :: r => ((match k with KList => KI i | _ => kk end), plit c) :: go r (i + 1)
    end.
Lemma plit_node : forall k fl pl its, plit (LitNode k fl pl its) = PNode k (plit_items k its 0).
Proof. reflexivity. Qed.
Theorem build_erase : forall l ctx pa p nx, erase (fst (build ctx pa p l nx)) = plit l.
Proof.
  induction l using lit_ind'; intros.
  - Transparent build. simpl. Opaque build. reflexivity.
  - rewrite build_node, plit_node. cbv zeta.
    set (fl' := if plain then mkFlags false true ctx 0 else fl).
    assert (E : forall its0 i nx0, Forall (fun kv => forall ctx pa p nx, erase (fst (build ctx pa p (snd kv) nx)) = plit (snd kv)) its0 ->
                eitems (fst (build_items build k (f_partial fl') nx p its0 i nx0)) = plit_items k its0 i).
    { clear. induction its0 as [|[kk c] r IH]; simpl; intros; auto. inv H.
      destruct (build (f_partial fl') (Some nx) (p ++ [match k with KList => KI i | _ => kk end]) c nx0) as [c' n1] eqn:B.
      specialize (IH (i + 1) n1 H3).
      destruct (build_items build k (f_partial fl') nx p r (i + 1) n1) as [r' n2]. simpl in *.
      rewrite IH. f_equal. f_equal. specialize (H2 (f_partial fl') (Some nx) (p ++ [match k with KList => KI i | _ => kk end]) nx0).
      rewrite B in H2. exact H2. }
    specialize (E its 0 (N.succ nx) H).
    destruct (build_items build k (f_partial fl') nx p its 0 (N.succ nx)) as [its' nx']. cbn [fst snd] in *.
    rewrite erase_ctor_seal, erase_node. f_equal. exact E.
Qed.
Lemma build_not_missing : forall ctx pa p k fl pl its nx, is_missing (fst (build ctx pa p (LitNode k fl pl its) nx)) = false.
Proof.
  intros. pose proof (build_is_node ctx pa p k fl pl its nx). destruct (fst (build ctx pa p (LitNode k fl pl its) nx)); simpl in *; auto; discriminate.
Qed.

(* JsonTextProofs.v — json.loads (json.dumps j) = j for the model of Model/JsonText.v. *)
From PG Require Import Common.Tactics Model.Json Model.JsonText Proofs.JsonProofs Proofs.JsonStrProofs.
From Coq Require Import NArith Decimal DecimalZ DecimalPos DecimalN.
Local Open Scope N_scope.

(* --- hexadecimal ------------------------------------------------------------------------------------------- *)
Lemma hex_val_digit : forall n, n < 16 -> hex_val (hex_digit n) = Some n.
Proof.
  intros n H. unfold hex_digit, hex_val.
  destruct (n <? 10) eqn:E.
  - apply N.ltb_lt in E. replace ((48 <=? 48 + n) && (48 + n <=? 57)) with true by (symmetry; apply andb_true_iff; split; apply N.leb_le; lia).
    f_equal. lia.
  - apply N.ltb_ge in E.
    replace ((48 <=? 87 + n) && (87 + n <=? 57)) with false by (symmetry; apply andb_false_iff; right; apply N.leb_gt; lia).
    replace ((97 <=? 87 + n) && (87 + n <=? 102)) with true by (symmetry; apply andb_true_iff; split; apply N.leb_le; lia).
    f_equal. lia.
Qed.

Lemma parse_hex4_hex4 : forall c r, c < 65536 -> parse_hex4 (hex4 c ++ r) = Some (c, r).
Proof.
  intros c r H. unfold hex4, parse_hex4. simpl.
  assert (A : c / 4096 < 16) by (apply N.div_lt_upper_bound; lia).
  assert (B : (c / 256) mod 16 < 16) by (apply N.mod_lt; lia).
  assert (C : (c / 16) mod 16 < 16) by (apply N.mod_lt; lia).
  assert (D : c mod 16 < 16) by (apply N.mod_lt; lia).
  rewrite !hex_val_digit by assumption. f_equal. f_equal.
  pose proof (N.div_mod c 16). pose proof (N.div_mod (c / 16) 16). pose proof (N.div_mod (c / 256) 16).
  assert (E1 : c / 16 / 16 = c / 256) by (rewrite N.div_div by lia; reflexivity).
  assert (E2 : c / 256 / 16 = c / 4096) by (rewrite N.div_div by lia; reflexivity).
  assert (E3 : c / 4096 = (c / 4096) mod 16) by (symmetry; apply N.mod_small; assumption).
  rewrite E1 in *. rewrite E2 in *. lia.
Qed.

(* --- string literals ----------------------------------------------------------------------------------------- *)

Inductive esc_view (c : N) : str -> Prop :=
| ev_simple : forall e, simple_escape e = Some c -> N.eqb e 117 = false -> esc_view c [92; e]
| ev_plain : N.eqb c 34 = false -> N.eqb c 92 = false -> N.ltb c 32 = false -> esc_view c [c]
| ev_u : c < 65536 -> esc_view c (uesc c)
| ev_pair : 65536 <= c -> c < 1114112 ->
            esc_view c (uesc (55296 + (c - 65536) / 1024) ++ uesc (56320 + (c - 65536) mod 1024)).

Lemma esc_char_view : forall c, valid_cp c = true -> esc_view c (esc_char c).
Proof.
  intros c Hv. unfold valid_cp in Hv. apply N.ltb_lt in Hv. unfold esc_char.
  destruct (c =? 34) eqn:E1; [apply N.eqb_eq in E1; subst; apply ev_simple; reflexivity|].
  destruct (c =? 92) eqn:E2; [apply N.eqb_eq in E2; subst; apply ev_simple; reflexivity|].
  destruct (c =? 10) eqn:E3; [apply N.eqb_eq in E3; subst; apply ev_simple; reflexivity|].
  destruct (c =? 13) eqn:E4; [apply N.eqb_eq in E4; subst; apply ev_simple; reflexivity|].
  destruct (c =? 9) eqn:E5; [apply N.eqb_eq in E5; subst; apply ev_simple; reflexivity|].
  destruct (c =? 8) eqn:E6; [apply N.eqb_eq in E6; subst; apply ev_simple; reflexivity|].
  destruct (c =? 12) eqn:E7; [apply N.eqb_eq in E7; subst; apply ev_simple; reflexivity|].
  destruct ((32 <=? c) && (c <=? 126)) eqn:E8.
  - apply andb_true_iff in E8. destruct E8 as [A B]. apply N.leb_le in A. apply ev_plain; try assumption. apply N.ltb_ge. exact A.
  - destruct (c <? 65536) eqn:E9; [apply ev_u; apply N.ltb_lt; exact E9|].
    apply N.ltb_ge in E9. apply ev_pair; assumption.
Qed.

Lemma peek_low_quote : forall rest, peek_low (34 :: rest) = None.
Proof. intro rest. unfold peek_low. destruct rest; reflexivity. Qed.

Lemma peek_low_uesc : forall v X, v < 65536 -> peek_low (uesc v ++ X) = if is_low v then Some (v, X) else None.
Proof.
  intros v X H. unfold uesc. change ((92 :: 117 :: hex4 v) ++ X) with (92 :: 117 :: (hex4 v ++ X)).
  unfold peek_low. change ((92 =? 92) && (117 =? 117)) with true. cbv iota.
  rewrite parse_hex4_hex4 by assumption. reflexivity.
Qed.

Lemma hi_bounds : forall c, 65536 <= c -> c < 1114112 ->
  55296 <= 55296 + (c - 65536) / 1024 /\ 55296 + (c - 65536) / 1024 <= 56319.
Proof.
  intros c A B. split; [lia|].
  assert ((c - 65536) / 1024 < 1024) by (apply N.div_lt_upper_bound; lia). lia.
Qed.
Lemma lo_bounds : forall c, 56320 <= 56320 + (c - 65536) mod 1024 /\ 56320 + (c - 65536) mod 1024 <= 57343.
Proof.
  intro c. split; [lia|]. assert ((c - 65536) mod 1024 < 1024) by (apply N.mod_lt; lia). lia.
Qed.

Lemma peek_low_not_low : forall d X, valid_cp d = true -> is_low d = false -> peek_low (esc_char d ++ X) = None.
Proof.
  intros d X Hv Hl. destruct (esc_char_view d Hv) as [e He Hne|H1 H2 H3|Hlt|Hge Hlt].
  - change ([92; e] ++ X) with (92 :: e :: X). unfold peek_low. rewrite Hne. rewrite andb_false_r. reflexivity.
  - change ([d] ++ X) with (d :: X). unfold peek_low. destruct X as [|b X]; [reflexivity|]. rewrite H2. reflexivity.
  - rewrite peek_low_uesc by assumption. rewrite Hl. reflexivity.
  - rewrite <- app_assoc. destruct (hi_bounds d Hge Hlt) as [A B].
    rewrite peek_low_uesc by lia.
    replace (is_low (55296 + (d - 65536) / 1024)) with false; [reflexivity|].
    symmetry. unfold is_low. apply andb_false_iff. left. apply N.leb_gt. lia.
Qed.

Lemma esc_str_cons : forall c s, esc_str (c :: s) = esc_char c ++ esc_str s.
Proof. reflexivity. Qed.

Lemma parse_chars_S : forall f c r, parse_chars (S f) (c :: r) =
  if c =? 34 then Some ([], r)
  else if c =? 92 then
    match r with
    | [] => None
    | e :: r1 =>
        if e =? 117 then
          match parse_hex4 r1 with
          | None => None
          | Some (v, r2) =>
              if is_high v then
                match peek_low r2 with
                | Some (lo, r3) => cons_res (65536 + (v - 55296) * 1024 + (lo - 56320)) (parse_chars f r3)
                | None => cons_res v (parse_chars f r2)
                end
              else cons_res v (parse_chars f r2)
          end
        else match simple_escape e with
             | Some d => cons_res d (parse_chars f r1)
             | None => None
             end
    end
  else if c <? 32 then None
  else cons_res c (parse_chars f r).
Proof. reflexivity. Qed.

Lemma parse_chars_esc : forall s fuel rest,
  forallb valid_cp s = true -> no_surrogate_pair s = true -> (length s < fuel)%nat ->
  parse_chars fuel (esc_str s ++ 34 :: rest) = Some (s, rest).
Proof.
  induction s as [|c s IH]; intros fuel rest Hv Hp Hf.
  - destruct fuel; [inversion Hf|]. reflexivity.
  - destruct fuel as [|f]; [inversion Hf|]. simpl in Hf.
    simpl in Hv. apply andb_true_iff in Hv. destruct Hv as [Hc Hv].
    simpl in Hp. apply andb_true_iff in Hp. destruct Hp as [Hpair Hp].
    assert (IH' : parse_chars f (esc_str s ++ 34 :: rest) = Some (s, rest)) by (apply IH; try assumption; lia).
    rewrite esc_str_cons, <- app_assoc.
    set (R := esc_str s ++ 34 :: rest) in *.
    assert (Hpeek : is_high c = true -> peek_low R = None).
    { intro Hh. unfold R. destruct s as [|d s'].
      - simpl. apply peek_low_quote.
      - rewrite Hh in Hpair. simpl in Hpair. apply negb_true_iff in Hpair.
        simpl in Hv. apply andb_true_iff in Hv. destruct Hv as [Hd _].
        rewrite esc_str_cons, <- app_assoc. apply peek_low_not_low; assumption. }
    destruct (esc_char_view c Hc) as [e He Hne|H1 H2 H3|Hlt|Hge Hlt].
    + change ([92; e] ++ R) with (92 :: e :: R). rewrite parse_chars_S.
      change (92 =? 34) with false. change (92 =? 92) with true. cbv iota. rewrite Hne. rewrite He. rewrite IH'. reflexivity.
    + change ([c] ++ R) with (c :: R). rewrite parse_chars_S. rewrite H1, H2, H3. rewrite IH'. reflexivity.
    + unfold uesc. change ((92 :: 117 :: hex4 c) ++ R) with (92 :: 117 :: (hex4 c ++ R)). rewrite parse_chars_S.
      change (92 =? 34) with false. change (92 =? 92) with true. change (117 =? 117) with true. cbv iota.
      rewrite parse_hex4_hex4 by assumption.
      destruct (is_high c) eqn:Eh; [rewrite (Hpeek eq_refl)|]; rewrite IH'; reflexivity.
    + rewrite <- app_assoc. destruct (hi_bounds c Hge Hlt) as [A B]. destruct (lo_bounds c) as [C D].
      unfold uesc at 1.
      change ((92 :: 117 :: hex4 (55296 + (c - 65536) / 1024)) ++ uesc (56320 + (c - 65536) mod 1024) ++ R)
        with (92 :: 117 :: (hex4 (55296 + (c - 65536) / 1024) ++ uesc (56320 + (c - 65536) mod 1024) ++ R)).
      rewrite parse_chars_S.
      change (92 =? 34) with false. change (92 =? 92) with true. change (117 =? 117) with true. cbv iota.
      rewrite parse_hex4_hex4 by lia.
      replace (is_high (55296 + (c - 65536) / 1024)) with true
        by (symmetry; unfold is_high; apply andb_true_iff; split; apply N.leb_le; lia).
      rewrite peek_low_uesc by lia.
      replace (is_low (56320 + (c - 65536) mod 1024)) with true
        by (symmetry; unfold is_low; apply andb_true_iff; split; apply N.leb_le; lia).
      rewrite IH'. unfold cons_res.
      assert (Ec : 65536 + (55296 + (c - 65536) / 1024 - 55296) * 1024 + (56320 + (c - 65536) mod 1024 - 56320) = c).
      { pose proof (N.div_mod (c - 65536) 1024). lia. }
      rewrite Ec. reflexivity.
Qed.

Lemma length_esc_char : forall c, (1 <= length (esc_char c))%nat.
Proof.
  intro c. unfold esc_char.
  repeat match goal with |- context [if ?b then _ else _] => destruct b end; try rewrite app_length; simpl; lia.
Qed.
Lemma length_esc_str : forall s, (length s <= length (esc_str s))%nat.
Proof.
  induction s as [|c s IH]; [reflexivity|]. unfold esc_str in *. simpl. rewrite app_length.
  pose proof (length_esc_char c). lia.
Qed.

Lemma parse_string_dump : forall s rest, forallb valid_cp s = true -> no_surrogate_pair s = true ->
  parse_string (esc_str s ++ 34 :: rest) = Some (s, rest).
Proof.
  intros s rest Hv Hp. unfold parse_string. apply parse_chars_esc; try assumption.
  rewrite app_length. pose proof (length_esc_str s). simpl. lia.
Qed.

(* --- numbers ---------------------------------------------------------------------------------------------------- *)
Definition delimited (rest : str) : Prop := match rest with [] => True | c :: _ => num_char c = false end.

Lemma span_num_app : forall t rest, forallb num_char t = true -> delimited rest -> span_num (t ++ rest) = (t, rest).
Proof.
  induction t as [|c t IH]; intros rest Ht Hd.
  - simpl. destruct rest as [|c r]; [reflexivity|]. simpl in Hd. simpl. rewrite Hd. reflexivity.
  - simpl in Ht. apply andb_true_iff in Ht. destruct Ht as [A B]. simpl. rewrite A. rewrite IH by assumption. reflexivity.
Qed.

Lemma uint_str_digits : forall u, forallb is_digit (uint_str u) = true.
Proof. induction u; simpl; try reflexivity; exact IHu. Qed.
Lemma is_digit_num_char : forall c, is_digit c = true -> num_char c = true.
Proof. intros c H. unfold num_char. rewrite H. reflexivity. Qed.
Lemma forallb_impl : forall {A} (p q : A -> bool) l, (forall x, p x = true -> q x = true) -> forallb p l = true -> forallb q l = true.
Proof. intros A p q l H. induction l; simpl; intro X; [reflexivity|]. apply andb_true_iff in X. destruct X. rewrite H, IHl by assumption. reflexivity. Qed.

Lemma to_uint_unorm : forall p, unorm (Pos.to_uint p) = Pos.to_uint p.
Proof.
  intro p. pose proof (DecimalPos.Unsigned.to_of (Pos.to_uint p)) as H. rewrite DecimalPos.Unsigned.of_to in H. simpl in H. congruence.
Qed.
Lemma unorm_D0 : forall u u', unorm u = D0 u' -> u' = Nil.
Proof. induction u; simpl; intros u' H; try discriminate; [inv H; reflexivity | apply IHu; exact H]. Qed.
Lemma to_uint_no_leading_zero : forall p u', Pos.to_uint p <> D0 u'.
Proof.
  intros p u' E. pose proof (to_uint_unorm p) as H. rewrite E in H at 2. apply unorm_D0 in H. subst u'.
  apply (DecimalPos.Unsigned.to_uint_nonzero p). exact E.
Qed.

Lemma digits_ok_to_uint : forall p, digits_ok (uint_str (Pos.to_uint p)) = true.
Proof.
  intro p. pose proof (to_uint_no_leading_zero p) as Hz. pose proof (Unsigned.to_uint_nonnil p) as Hn.
  pose proof (uint_str_digits (Pos.to_uint p)) as Hd.
  destruct (Pos.to_uint p) as [|u|u|u|u|u|u|u|u|u|u]; try contradiction; try (exfalso; eapply Hz; reflexivity);
    cbn [uint_str] in *; unfold digits_ok; rewrite Hd; reflexivity.
Qed.

Lemma int_token_int_str : forall z, int_token (int_str z) = true.
Proof.
  intro z. unfold int_str. destruct z; simpl Z.to_int.
  - reflexivity.
  - pose proof (digits_ok_to_uint p) as H. pose proof (uint_str_digits (Pos.to_uint p)) as D. unfold int_token.
    destruct (uint_str (Pos.to_uint p)) as [|c r] eqn:E; [discriminate|].
    destruct (c =? 45) eqn:X; [|exact H]. apply N.eqb_eq in X. subst c. discriminate.
  - unfold int_token. change (45 =? 45) with true. cbv iota. apply digits_ok_to_uint.
Qed.

(* --- values ------------------------------------------------------------------------------------------------------- *)
Fixpoint jfuel (j : jv) : nat :=
  match j with
  | JList l => S (list_sum (map (fun x => S (jfuel x)) l))
  | JDict d => S (list_sum (map (fun kv => S (jfuel (snd kv))) d))
  | _ => 1%nat
  end.

Lemma skip_ws_prefix : forall w s, forallb is_ws w = true -> skip_ws (w ++ s) = skip_ws s.
Proof.
  induction w as [|c w IH]; intros s H; [reflexivity|]. simpl in H. apply andb_true_iff in H. destruct H as [A B].
  simpl. rewrite A. apply IH. exact B.
Qed.
Lemma skip_ws_nows : forall c r, is_ws c = false -> skip_ws (c :: r) = c :: r.
Proof. intros c r H. simpl. rewrite H. reflexivity. Qed.

Lemma num_char_not_ws : forall c, num_char c = true -> is_ws c = false.
Proof.
  intros c H. unfold num_char, is_digit in H. unfold is_ws.
  repeat (apply orb_true_iff in H; destruct H as [H|H]);
    try (apply andb_true_iff in H; destruct H as [A B]; apply N.leb_le in A; apply N.leb_le in B);
    try (apply N.eqb_eq in H; subst c; reflexivity);
    repeat (apply orb_false_iff; split); apply N.eqb_neq; lia.
Qed.

Section TextProofs.
  Variable float_repr : Z -> Z -> str.
  Variable float_repr_negzero : str.
  Variable parse_float_tok : str -> option fl.

  (* the assumed behaviour of Python's float repr / float(): a number token that is not an int token and reads back *)
  Definition float_ok (t : str) (f : fl) : Prop :=
    forallb num_char t = true /\ (2 <= length t)%nat /\ int_token t = false /\ parse_float_tok t = Some f.
  (* ... required of the finite floats that occur in the value only *)
  Fixpoint floats_ok (j : jv) : Prop :=
    match j with
    | JFloat (FFin m e) => float_ok (float_repr m e) (FFin m e)
    | JFloat FNegZero => float_ok float_repr_negzero FNegZero
    | JList l => (fix go (l : list jv) : Prop := match l with [] => True | x :: r => floats_ok x /\ go r end) l
    | JDict d => (fix go (d : list (key * jv)) : Prop := match d with [] => True | kv :: r => floats_ok (snd kv) /\ go r end) d
    | _ => True
    end.
  Definition floats_ok_list (l : list jv) : Prop := floats_ok (JList l).
  Definition floats_ok_dict (d : list (key * jv)) : Prop := floats_ok (JDict d).

  Notation dumps := (dumps float_repr float_repr_negzero).
  Notation parse_value := (parse_value parse_float_tok).
  Notation parse_elems := (parse_elems parse_float_tok).
  Notation parse_members := (parse_members parse_float_tok).
  Notation parse_atom := (parse_atom parse_float_tok).

  (* a number token is not one of the literals *)
  Definition token_shape (t : str) : Prop := match t with [] => False | [a] => a <> 45 | _ => True end.
  Lemma token_not_literal : forall t rest, forallb num_char t = true -> token_shape t -> delimited rest ->
    parse_atom (t ++ rest) =
      match parse_number parse_float_tok t with Some j => Some (j, rest) | None => None end.
  Proof.
    intros t rest Ht Hl Hd. unfold parse_atom.
    assert (Hspan : span_num (t ++ rest) = (t, rest)) by (apply span_num_app; assumption).
    destruct t as [|a t]; [contradiction|].
    simpl in Ht. apply andb_true_iff in Ht. destruct Ht as [Ha Ht].
    assert (H1 : forall x l, num_char x = false -> strip_prefix (x :: l) ((a :: t) ++ rest) = None).
    { intros x l Hx. simpl. destruct (x =? a) eqn:X; [apply N.eqb_eq in X; subst; congruence | reflexivity]. }
    unfold t_null, t_true, t_false, t_nan, t_inf.
    rewrite !H1 by reflexivity.
    assert (Hn : strip_prefix t_ninf ((a :: t) ++ rest) = None).
    { assert (Hc : forall x l y s0, strip_prefix (x :: l) (y :: s0) = if x =? y then strip_prefix l s0 else None) by reflexivity.
      unfold t_ninf, t_inf. change ((a :: t) ++ rest) with (a :: (t ++ rest)). rewrite Hc.
      destruct (45 =? a) eqn:X; [|reflexivity].
      apply N.eqb_eq in X. subst a. destruct t as [|b t]; [simpl in Hl; contradiction|].
      simpl in Ht. apply andb_true_iff in Ht. destruct Ht as [Hb _].
      change ((b :: t) ++ rest) with (b :: (t ++ rest)). rewrite Hc.
      destruct (73 =? b) eqn:Y; [apply N.eqb_eq in Y; subst b; discriminate | reflexivity]. }
    rewrite Hn. rewrite Hspan. reflexivity.
  Qed.

  Lemma int_str_token : forall z, forallb num_char (int_str z) = true.
  Proof.
    intro z. unfold int_str. destruct (Z.to_int z); simpl; try (apply andb_true_iff; split; [reflexivity|]);
      eapply forallb_impl; [apply is_digit_num_char | apply uint_str_digits | apply is_digit_num_char | apply uint_str_digits].
  Qed.

  Lemma int_str_shape : forall z, token_shape (int_str z).
  Proof.
    intro z. pose proof (int_token_int_str z) as Hi. unfold token_shape.
    destruct (int_str z) as [|a [|b t]]; [discriminate | | exact I].
    intro X. subst a. unfold int_token in Hi. simpl in Hi. discriminate.
  Qed.

  Lemma parse_atom_int : forall z rest, delimited rest -> parse_atom (int_str z ++ rest) = Some (JInt z, rest).
  Proof.
    intros z rest Hd. rewrite token_not_literal; [|apply int_str_token | apply int_str_shape | exact Hd].
    unfold parse_number. rewrite int_token_int_str. rewrite parse_int_int_str. reflexivity.
  Qed.

  Lemma parse_atom_float : forall t f rest, float_ok t f -> delimited rest -> parse_atom (t ++ rest) = Some (JFloat f, rest).
  Proof.
    intros t f rest [A [B [C D]]] Hd. rewrite token_not_literal; [|exact A | | exact Hd].
    - unfold parse_number. rewrite C, D. reflexivity.
    - unfold token_shape. destruct t as [|a [|b t]]; simpl in B; try lia; exact I.
  Qed.

  (* --- unfolding the three mutually recursive parsers --------------------------------------------------------- *)
  Lemma parse_value_S : forall f s, parse_value (S f) s =
    match skip_ws s with
    | [] => None
    | c :: r =>
        if c =? 34 then match parse_string r with Some (x, r') => Some (JStr x, r') | None => None end
        else if c =? 91 then
          match skip_ws r with
          | c2 :: r2 => if c2 =? 93 then Some (JList [], r2)
                        else match parse_elems f r with Some (l, r') => Some (JList l, r') | None => None end
          | [] => None
          end
        else if c =? 123 then
          match skip_ws r with
          | c2 :: r2 => if c2 =? 125 then Some (JDict [], r2)
                        else match parse_members f r with Some (d, r') => Some (JDict (dict_of_pairs d), r') | None => None end
          | [] => None
          end
        else parse_atom (c :: r)
    end.
  Proof. reflexivity. Qed.
  Lemma parse_elems_S : forall f s, parse_elems (S f) s =
    match parse_value f s with
    | None => None
    | Some (v, r) =>
        match skip_ws r with
        | c :: r' => if c =? 44 then match parse_elems f r' with Some (l, r'') => Some (v :: l, r'') | None => None end
                     else if c =? 93 then Some ([v], r') else None
        | [] => None
        end
    end.
  Proof. reflexivity. Qed.
  Lemma parse_members_S : forall f s, parse_members (S f) s =
    match skip_ws s with
    | c :: r =>
        if c =? 34 then
          match parse_string r with
          | None => None
          | Some (k, r1) =>
              match skip_ws r1 with
              | c2 :: r2 =>
                  if c2 =? 58 then
                    match parse_value f r2 with
                    | None => None
                    | Some (v, r3) =>
                        match skip_ws r3 with
                        | c3 :: r4 =>
                            if c3 =? 44 then match parse_members f r4 with Some (d, r5) => Some ((KS k, v) :: d, r5) | None => None end
                            else if c3 =? 125 then Some ([(KS k, v)], r4) else None
                        | [] => None
                        end
                    end
                  else None
              | [] => None
              end
          end
        else None
    | [] => None
    end.
  Proof. reflexivity. Qed.

  Lemma num_char_plain : forall a, num_char a = true ->
    is_ws a = false /\ (a =? 34) = false /\ (a =? 91) = false /\ (a =? 123) = false.
  Proof.
    intros a H. split; [apply num_char_not_ws; exact H|].
    unfold num_char, is_digit in H.
    repeat (apply orb_true_iff in H; destruct H as [H|H]);
      try (apply andb_true_iff in H; destruct H as [A B]; apply N.leb_le in A; apply N.leb_le in B);
      try (apply N.eqb_eq in H; subst a; repeat split; reflexivity);
      repeat split; apply N.eqb_neq; lia.
  Qed.

  (* a text that starts like an atom is handed to parse_atom *)
  Lemma pv_atom : forall f w a T rest, forallb is_ws w = true ->
    is_ws a = false -> (a =? 34) = false -> (a =? 91) = false -> (a =? 123) = false ->
    parse_value (S f) (w ++ (a :: T) ++ rest) = parse_atom ((a :: T) ++ rest).
  Proof.
    intros f w a T rest Hw H1 H2 H3 H4. rewrite parse_value_S. rewrite skip_ws_prefix by assumption.
    change ((a :: T) ++ rest) with (a :: (T ++ rest)). rewrite skip_ws_nows by assumption. rewrite H2, H3, H4. reflexivity.
  Qed.
  Lemma pv_token : forall f w t rest, forallb is_ws w = true -> forallb num_char t = true -> t <> [] ->
    parse_value (S f) (w ++ t ++ rest) = parse_atom (t ++ rest).
  Proof.
    intros f w t rest Hw Ht Hn. destruct t as [|a T]; [contradiction|].
    simpl in Ht. apply andb_true_iff in Ht. destruct Ht as [Ha _].
    destruct (num_char_plain a Ha) as [A [B [C D]]]. apply pv_atom; assumption.
  Qed.

  Definition dmember (kv : key * jv) : str := dump_key (fst kv) ++ 58 :: 32 :: dumps (snd kv).
  Notation sep := (fun y : list N => 44 :: 32 :: y).

  Lemma delimited_items : forall (l : list str) rest c, delimited (concat (map sep l) ++ c :: rest) \/ True.
  Proof. intros. right. exact I. Qed.

  Lemma list_sum_cons : forall a l, list_sum (a :: l) = (a + list_sum l)%nat.
  Proof. reflexivity. Qed.

  Definition P (j : jv) : Prop := forall fuel w rest,
    (jfuel j <= fuel)%nat -> forallb is_ws w = true -> delimited rest -> sj_ok j = true -> cps_ok j = true -> floats_ok j ->
    parse_value fuel (w ++ dumps j ++ rest) = Some (j, rest).

  Lemma elems_ok : forall l, Forall P l -> l <> [] -> forall fuel w rest,
    (list_sum (map (fun x => S (jfuel x)) l) <= fuel)%nat -> forallb is_ws w = true ->
    forallb sj_ok l = true -> forallb cps_ok l = true -> floats_ok_list l ->
    parse_elems fuel (w ++ dump_items (map dumps l) ++ 93 :: rest) = Some (l, rest).
  Proof.
    induction l as [|x l IH]; intros HP Hne fuel w rest Hf Hw Hs Hc Hfl; [contradiction|].
    destruct Hfl as [Fx Fl].
    inv HP. rename H1 into Px. rename H2 into Pl.
    simpl in Hs, Hc. apply andb_true_iff in Hs. destruct Hs as [Sx Sl]. apply andb_true_iff in Hc. destruct Hc as [Cx Cl].
    cbn [map] in Hf. rewrite list_sum_cons in Hf.
    destruct fuel as [|f]; [lia|]. rewrite parse_elems_S.
    cbn [map]. unfold dump_items. rewrite <- !app_assoc.
    set (REST := concat (map sep (map dumps l)) ++ 93 :: rest).
    assert (HR : delimited REST /\ skip_ws REST = REST).
    { unfold REST. destruct l as [|y l]; simpl; split; reflexivity. }
    destruct HR as [HR1 HR2].
    rewrite (Px f w REST) by (try assumption; lia). rewrite HR2.
    unfold REST. destruct l as [|y l].
    - simpl. reflexivity.
    - cbn [map concat].
      replace (((44 :: 32 :: dumps y) ++ concat (map sep (map dumps l))) ++ 93 :: rest)
        with (44 :: ([32] ++ dump_items (map dumps (y :: l)) ++ 93 :: rest))
        by (unfold dump_items; cbn [map List.app]; reflexivity).
      cbv beta iota. change (44 =? 44) with true. cbv beta iota.
      rewrite (IH Pl ltac:(discriminate) f [32] rest); try assumption; try reflexivity. lia.
  Qed.

  Definition member_ok (kv : key * jv) : bool :=
    match fst kv with KS s => no_surrogate_pair s && forallb valid_cp s | _ => false end.

  Lemma dump_items_member : forall ks x d c rest,
    dump_items (map dmember ((KS ks, x) :: d)) ++ c :: rest =
    34 :: esc_str ks ++ 34 :: 58 :: 32 :: dumps x ++ concat (map sep (map dmember d)) ++ c :: rest.
  Proof.
    intros. unfold dump_items. cbn [map]. unfold dmember at 1. unfold dump_key, dump_str. cbn [fst snd].
    repeat rewrite <- app_assoc. cbn [List.app]. repeat rewrite <- app_assoc. cbn [List.app]. reflexivity.
  Qed.

  Lemma members_ok : forall d, Forall (fun kv => P (snd kv)) d -> d <> [] -> forall fuel w rest,
    (list_sum (map (fun kv => S (jfuel (snd kv))) d) <= fuel)%nat -> forallb is_ws w = true ->
    forallb member_ok d = true -> forallb (fun kv => sj_ok (snd kv)) d = true -> forallb (fun kv => cps_ok (snd kv)) d = true ->
    floats_ok_dict d ->
    parse_members fuel (w ++ dump_items (map dmember d) ++ 125 :: rest) = Some (d, rest).
  Proof.
    induction d as [|[k x] d IH]; intros HP Hne fuel w rest Hf Hw Hm Hs Hc Hfl; [contradiction|].
    destruct Hfl as [Fx Fd]. simpl in Fx.
    inv HP. rename H1 into Px. rename H2 into Pd. simpl in Px.
    simpl in Hm, Hs, Hc. apply andb_true_iff in Hm. destruct Hm as [Mk Md].
    apply andb_true_iff in Hs. destruct Hs as [Sx Sd]. apply andb_true_iff in Hc. destruct Hc as [Cx Cd].
    unfold member_ok in Mk. simpl in Mk. destruct k as [ks| |]; try discriminate.
    apply andb_true_iff in Mk. destruct Mk as [K1 K2].
    cbn [map] in Hf. rewrite list_sum_cons in Hf. simpl snd in Hf.
    destruct fuel as [|f]; [lia|]. rewrite parse_members_S.
    set (REST := concat (map sep (map dmember d)) ++ 125 :: rest).
    assert (HR : delimited REST /\ skip_ws REST = REST).
    { unfold REST. destruct d as [|y d]; simpl; split; reflexivity. }
    destruct HR as [HR1 HR2].
    rewrite dump_items_member. fold REST.
    change (34 :: esc_str ks ++ 34 :: 58 :: 32 :: dumps x ++ REST) with (34 :: (esc_str ks ++ 34 :: (58 :: [32] ++ dumps x ++ REST))).
    rewrite skip_ws_prefix by assumption. rewrite skip_ws_nows by reflexivity.
    change (34 =? 34) with true. cbv beta iota.
    rewrite parse_string_dump by assumption.
    rewrite skip_ws_nows by reflexivity. change (58 =? 58) with true. cbv beta iota.
    rewrite (Px f [32] REST) by (try assumption; try reflexivity; lia). rewrite HR2.
    unfold REST. destruct d as [|y d].
    - simpl. reflexivity.
    - cbn [map concat].
      replace (((44 :: 32 :: dmember y) ++ concat (map sep (map dmember d))) ++ 125 :: rest)
        with (44 :: ([32] ++ dump_items (map dmember (y :: d)) ++ 125 :: rest))
        by (unfold dump_items; cbn [map List.app]; reflexivity).
      cbv beta iota. change (44 =? 44) with true. cbv beta iota.
      rewrite (IH Pd ltac:(discriminate) f [32] rest); try assumption; try reflexivity. lia.
  Qed.

  Lemma sj_ok_members : forall d, sj_ok (JDict d) = true -> cps_ok (JDict d) = true ->
    keys_nodup d = true /\ forallb member_ok d = true /\ forallb (fun kv => sj_ok (snd kv)) d = true /\ forallb (fun kv => cps_ok (snd kv)) d = true.
  Proof.
    intros d Hs Hc. simpl in Hs, Hc. apply andb_true_iff in Hs. destruct Hs as [Hn Hs]. split; [exact Hn|].
    rewrite forallb_forall in Hs, Hc.
    repeat split; apply forallb_forall; intros [k v] Hin; specialize (Hs _ Hin); specialize (Hc _ Hin); simpl in *;
      apply andb_true_iff in Hs; destruct Hs as [A B]; apply andb_true_iff in Hc; destruct Hc as [C D]; try assumption.
    unfold member_ok. simpl. destruct k; try discriminate. rewrite A, C. reflexivity.
  Qed.

  Theorem parse_dumps : forall j, P j.
  Proof.
    induction j as [| b | z | fl0 | s | l IH | d IH] using jv_ind'; unfold P; intros fuel w rest Hf Hw Hd Hs Hc Hfl;
      (destruct fuel as [|f]; [simpl in Hf; lia|]).
    - change (dumps JNull) with t_null. unfold t_null. rewrite pv_atom by (try assumption; reflexivity). reflexivity.
    - destruct b; [change (dumps (JBool true)) with t_true; unfold t_true | change (dumps (JBool false)) with t_false; unfold t_false];
        rewrite pv_atom by (try assumption; reflexivity); reflexivity.
    - change (dumps (JInt z)) with (int_str z).
      rewrite pv_token; [apply parse_atom_int; exact Hd | exact Hw | apply int_str_token |].
      pose proof (int_str_shape z) as X. intro E. rewrite E in X. exact X.
    - destruct fl0 as [m e| | | |].
      + change (dumps (JFloat (FFin m e))) with (float_repr m e). destruct Hfl as [A [B [C D]]].
        rewrite pv_token; [apply parse_atom_float; [split; [exact A | split; [exact B | split; [exact C | exact D]]] | exact Hd] | exact Hw | exact A |].
        intro E. rewrite E in B. simpl in B. lia.
      + change (dumps (JFloat FNan)) with t_nan. unfold t_nan. rewrite pv_atom by (try assumption; reflexivity). reflexivity.
      + change (dumps (JFloat FPInf)) with t_inf. unfold t_inf. rewrite pv_atom by (try assumption; reflexivity). reflexivity.
      + change (dumps (JFloat FNInf)) with t_ninf. unfold t_ninf, t_inf. rewrite pv_atom by (try assumption; reflexivity). reflexivity.
      + change (dumps (JFloat FNegZero)) with float_repr_negzero. destruct Hfl as [A [B [C D]]].
        rewrite pv_token; [apply parse_atom_float; [split; [exact A | split; [exact B | split; [exact C | exact D]]] | exact Hd] | exact Hw | exact A |].
        intro E. rewrite E in B. simpl in B. lia.
    - change (dumps (JStr s)) with (dump_str s). unfold dump_str. rewrite parse_value_S.
      rewrite skip_ws_prefix by assumption. cbn [List.app]. rewrite skip_ws_nows by reflexivity.
      change (34 =? 34) with true. cbv beta iota. rewrite <- app_assoc. cbn [List.app].
      simpl in Hs, Hc. rewrite parse_string_dump by assumption. reflexivity.
    - change (dumps (JList l)) with (91 :: dump_items (map dumps l) ++ [93]). rewrite parse_value_S.
      rewrite skip_ws_prefix by assumption. cbn [List.app]. rewrite skip_ws_nows by reflexivity.
      change (91 =? 34) with false. change (91 =? 91) with true. cbv beta iota.
      rewrite <- app_assoc. cbn [List.app].
      destruct l as [|x l].
      + simpl. reflexivity.
      + assert (Hhead : exists c r, skip_ws (dump_items (map dumps (x :: l)) ++ 93 :: rest) = c :: r /\ (c =? 93) = false).
        { cbn [map]. unfold dump_items. rewrite <- app_assoc.
          destruct x as [| [|] | z | [m e| | | |] | s | lx | dx]; try (eexists; eexists; split; [reflexivity | reflexivity]).
          - change (dumps (JInt z)) with (int_str z). pose proof (int_str_token z) as T. pose proof (int_str_shape z) as Sh.
            destruct (int_str z) as [|a t]; [contradiction|]. simpl in T. apply andb_true_iff in T. destruct T as [Ta _].
            destruct (num_char_plain a Ta) as [A _]. cbn [List.app]. rewrite skip_ws_nows by assumption.
            eexists; eexists; split; [reflexivity|]. apply N.eqb_neq. intro E. subst a. discriminate.
          - change (dumps (JFloat (FFin m e))) with (float_repr m e). destruct Hfl as [[A [B _]] _].
            destruct (float_repr m e) as [|a t]; [simpl in B; lia|]. simpl in A. apply andb_true_iff in A. destruct A as [Ta _].
            destruct (num_char_plain a Ta) as [A' _]. cbn [List.app]. rewrite skip_ws_nows by assumption.
            eexists; eexists; split; [reflexivity|]. apply N.eqb_neq. intro E. subst a. discriminate.
          - change (dumps (JFloat FNegZero)) with float_repr_negzero. destruct Hfl as [[A [B _]] _].
            destruct float_repr_negzero as [|a t]; [simpl in B; lia|]. simpl in A. apply andb_true_iff in A. destruct A as [Ta _].
            destruct (num_char_plain a Ta) as [A' _]. cbn [List.app]. rewrite skip_ws_nows by assumption.
            eexists; eexists; split; [reflexivity|]. apply N.eqb_neq. intro E. subst a. discriminate. }
        destruct Hhead as [c [r [E1 E2]]]. rewrite E1, E2.
        simpl in Hs, Hc. simpl in Hf.
        rewrite <- (app_nil_l (dump_items (map dumps (x :: l)) ++ 93 :: rest)).
        rewrite (elems_ok (x :: l) IH ltac:(discriminate) f [] rest); try assumption; try reflexivity. simpl. lia.
    - change (dumps (JDict d)) with (123 :: dump_items (map dmember d) ++ [125]). rewrite parse_value_S.
      rewrite skip_ws_prefix by assumption. cbn [List.app]. rewrite skip_ws_nows by reflexivity.
      change (123 =? 34) with false. change (123 =? 91) with false. change (123 =? 123) with true. cbv beta iota.
      rewrite <- app_assoc. cbn [List.app].
      destruct d as [|[k x] d].
      + simpl. reflexivity.
      + destruct (sj_ok_members _ Hs Hc) as [Hn [Hm [Hs' Hc']]].
        assert (Hk : exists ks, k = KS ks).
        { simpl in Hm. apply andb_true_iff in Hm. destruct Hm as [M _]. unfold member_ok in M. simpl in M. destruct k; try discriminate. eexists; reflexivity. }
        destruct Hk as [ks Ek]. subst k.
        assert (E1 : skip_ws (dump_items (map dmember ((KS ks, x) :: d)) ++ 125 :: rest)
                     = 34 :: esc_str ks ++ 34 :: 58 :: 32 :: dumps x ++ concat (map sep (map dmember d)) ++ 125 :: rest).
        { rewrite dump_items_member. reflexivity. }
        rewrite E1. change (34 =? 125) with false. cbv beta iota.
        simpl in Hf.
        rewrite <- (app_nil_l (dump_items (map dmember ((KS ks, x) :: d)) ++ 125 :: rest)).
        rewrite (members_ok ((KS ks, x) :: d) IH ltac:(discriminate) f [] rest); try assumption; try reflexivity; [|simpl; lia].
        rewrite dict_of_pairs_nodup by assumption. reflexivity.
  Qed.

  (* --- json.loads (json.dumps j) ---------------------------------------------------------------------------------- *)
  Lemma length_seps : forall (f : jv -> nat) (g : jv -> str) l, (forall x, In x l -> (f x <= length (g x))%nat) ->
    (list_sum (map (fun x => S (f x)) l) <= length (concat (map sep (map g l))))%nat.
  Proof.
    induction l as [|x l IH]; intro H; [simpl; lia|].
    cbn [map concat]. rewrite list_sum_cons. rewrite app_length. simpl length.
    pose proof (H x (or_introl eq_refl)). assert (forall y, In y l -> (f y <= length (g y))%nat) by (intros; apply H; right; assumption).
    specialize (IH H1). lia.
  Qed.

  Lemma floats_ok_in : forall l x, floats_ok_list l -> In x l -> floats_ok x.
  Proof. induction l as [|y l IH]; intros x H Hin; [contradiction|]. destruct H as [A B]. destruct Hin as [E|Hin]; [subst; exact A | apply IH; assumption]. Qed.
  Lemma floats_ok_in_dict : forall d kv, floats_ok_dict d -> In kv d -> floats_ok (snd kv).
  Proof. induction d as [|y d IH]; intros x H Hin; [contradiction|]. destruct H as [A B]. destruct Hin as [E|Hin]; [subst; exact A | apply IH; assumption]. Qed.

  Lemma jfuel_le_length : forall j, floats_ok j -> (jfuel j <= length (dumps j))%nat.
  Proof.
    induction j as [| b | z | fl0 | s | l IH | d IH] using jv_ind'; intro Hfl.
    - simpl. lia.
    - destruct b; simpl; lia.
    - change (dumps (JInt z)) with (int_str z). pose proof (int_str_shape z). destruct (int_str z); [contradiction | simpl; lia].
    - destruct fl0 as [m e| | | |]; try (simpl; lia).
      + change (dumps (JFloat (FFin m e))) with (float_repr m e). destruct Hfl as [_ [B _]]. simpl. lia.
      + change (dumps (JFloat FNegZero)) with float_repr_negzero. destruct Hfl as [_ [B _]]. simpl. lia.
    - simpl. lia.
    - change (dumps (JList l)) with (91 :: dump_items (map dumps l) ++ [93]).
      simpl length. rewrite app_length. simpl length. rewrite Forall_forall in IH.
      assert (IH' : forall x, In x l -> (jfuel x <= length (dumps x))%nat) by (intros x Hx; apply IH; [exact Hx | eapply floats_ok_in; eassumption]).
      clear IH. rename IH' into IH.
      destruct l as [|x l]; [simpl; lia|].
      change (jfuel (JList (x :: l))) with (S (S (jfuel x) + list_sum (map (fun y => S (jfuel y)) l))).
      cbn [map]. unfold dump_items. rewrite app_length.
      pose proof (IH x (or_introl eq_refl)).
      pose proof (length_seps jfuel dumps l (fun y Hy => IH y (or_intror Hy))). lia.
    - change (dumps (JDict d)) with (123 :: dump_items (map dmember d) ++ [125]).
      simpl length. rewrite app_length. simpl length. rewrite Forall_forall in IH.
      assert (IH' : forall kv, In kv d -> (jfuel (snd kv) <= length (dumps (snd kv)))%nat) by (intros kv Hx; apply IH; [exact Hx | eapply floats_ok_in_dict; eassumption]).
      clear IH. rename IH' into IH.
      destruct d as [|[k x] d]; [simpl; lia|].
      change (jfuel (JDict ((k, x) :: d))) with (S (S (jfuel x) + list_sum (map (fun kv => S (jfuel (snd kv))) d))).
      cbn [map]. unfold dump_items. rewrite app_length.
      assert (Hm : forall kv, (jfuel (snd kv) <= length (dumps (snd kv)))%nat -> (jfuel (snd kv) <= length (dmember kv))%nat).
      { intros kv H. unfold dmember. rewrite app_length. simpl. lia. }
      pose proof (Hm (k, x) (IH (k, x) (or_introl eq_refl))) as H0.
      assert (H1 : (list_sum (map (fun kv => S (jfuel (snd kv))) d) <= length (concat (map sep (map dmember d))))%nat).
      { clear - IH Hm. induction d as [|kv d IHd]; [simpl; lia|].
        cbn [map concat]. rewrite list_sum_cons. rewrite app_length. simpl length.
        pose proof (Hm kv (IH kv (or_intror (or_introl eq_refl)))).
        assert (forall y, In y ((k, x) :: d) -> (jfuel (snd y) <= length (dumps (snd y)))%nat).
        { intros y [E|Hy]; [subst; apply IH; left; reflexivity | apply IH; right; right; exact Hy]. }
        specialize (IHd H0). lia. }
      simpl snd in H0. lia.
  Qed.

  Theorem loads_dumps : forall j, sj_ok j = true -> cps_ok j = true -> floats_ok j ->
    loads parse_float_tok (dumps j) = Some j.
  Proof.
    intros j Hs Hc Hfl. unfold loads.
    pose proof (parse_dumps j (S (length (dumps j))) [] []) as H. cbn [List.app] in H. rewrite app_nil_r in H.
    rewrite H; [reflexivity | pose proof (jfuel_le_length j Hfl); lia | reflexivity | exact I | exact Hs | exact Hc | exact Hfl].
  Qed.
End TextProofs.

(* --- from values to their JSON trees ---------------------------------------------------------------------------------- *)
Lemma valid_small : forall s, Forall (fun c => c < 55296) s -> forallb valid_cp s = true.
Proof. induction 1; simpl; [reflexivity|]. rewrite IHForall. unfold valid_cp. replace (x <? 1114112) with true by (symmetry; apply N.ltb_lt; lia). reflexivity. Qed.

Lemma cps_ok_encode : forall j, jv_ok j = true -> cps_ok j = true -> cps_ok (encode_keys j) = true.
Proof.
  induction j as [| | | | |l IH|d IH] using jv_ind'; intros Hj Hc; try exact Hc; rewrite Forall_forall in IH.
  - simpl in *. rewrite forallb_forall in *. intros x Hx. apply in_map_iff in Hx. destruct Hx as [y [E Hy]]. subst. auto.
  - rewrite encode_dict_eq by assumption. simpl in Hj. apply andb_true_iff in Hj. destruct Hj as [_ Hj].
    simpl in *. rewrite forallb_forall in *. intros x Hx. apply in_map_iff in Hx. destruct Hx as [[k y] [E Hy]]. subst.
    specialize (Hj _ Hy). specialize (Hc _ Hy). simpl in *.
    apply andb_true_iff in Hj. destruct Hj as [_ Hjy]. apply andb_true_iff in Hc. destruct Hc as [Hk Hcy].
    pose proof (IH _ Hy Hjy Hcy) as E. simpl in E. rewrite E. rewrite andb_true_r.
    destruct k as [s|z|b]; simpl; [exact Hk | | destruct b; reflexivity].
    apply valid_small. repeat (constructor; [reflexivity|]). apply int_str_small.
Qed.

Lemma valid_marker : forallb valid_cp s_marker = true. Proof. reflexivity. Qed.
Lemma valid_type : forallb valid_cp s_type = true. Proof. reflexivity. Qed.

Lemma cps_ok_to_json : forall v, pv_cps_ok v = true -> cps_ok (to_json v) = true.
Proof.
  induction v as [| | | | s|l IH|l IH|d IH|c fs IH] using pv_ind'; intro H; try reflexivity; try exact H; rewrite Forall_forall in IH.
  - simpl in *. rewrite forallb_forall in *. intros x Hx. apply in_map_iff in Hx. destruct Hx as [y [E Hy]]. subst. auto.
  - simpl in *. rewrite forallb_forall in *. intros x Hx. apply in_map_iff in Hx. destruct Hx as [y [E Hy]]. subst. auto.
  - simpl in *. rewrite forallb_forall in *. intros x Hx. apply in_map_iff in Hx. destruct Hx as [[k y] [E Hy]]. subst.
    specialize (H _ Hy). simpl in *. apply andb_true_iff in H. destruct H as [A B]. rewrite A. simpl. apply (IH _ Hy). exact B.
  - simpl in H. apply andb_true_iff in H. destruct H as [Hc H].
    change (to_json (PObj c fs)) with (JDict ((KS s_type, JStr c) :: map (fun kv => (KS (fst kv), to_json (snd kv))) fs)).
    simpl. rewrite Hc. simpl. rewrite forallb_forall in *. intros x Hx. apply in_map_iff in Hx. destruct Hx as [[k y] [E Hy]]. subst.
    specialize (H _ Hy). simpl in *. apply andb_true_iff in H. destruct H as [A B]. rewrite A. simpl. apply (IH _ Hy). exact B.
Qed.

Lemma nofloat_encode : forall j, jv_ok j = true -> jv_nofloat j = true -> jv_nofloat (encode_keys j) = true.
Proof.
  induction j as [| | | | |l IH|d IH] using jv_ind'; intros Hj Hc; try exact Hc; rewrite Forall_forall in IH.
  - simpl in *. rewrite forallb_forall in *. intros x Hx. apply in_map_iff in Hx. destruct Hx as [y [E Hy]]. subst. auto.
  - rewrite encode_dict_eq by assumption. simpl in Hj. apply andb_true_iff in Hj. destruct Hj as [_ Hj].
    simpl in *. rewrite forallb_forall in *. intros x Hx. apply in_map_iff in Hx. destruct Hx as [[k y] [E Hy]]. subst.
    specialize (Hj _ Hy). specialize (Hc _ Hy). simpl in *. apply andb_true_iff in Hj. destruct Hj as [_ Hjy]. apply (IH _ Hy Hjy Hc).
Qed.
Lemma nofloat_to_json : forall v, pv_nofloat v = true -> jv_nofloat (to_json v) = true.
Proof.
  induction v as [| | | | s|l IH|l IH|d IH|c fs IH] using pv_ind'; intro H; try reflexivity; try exact H; rewrite Forall_forall in IH.
  - simpl in *. rewrite forallb_forall in *. intros x Hx. apply in_map_iff in Hx. destruct Hx as [y [E Hy]]. subst. auto.
  - simpl in *. rewrite forallb_forall in *. intros x Hx. apply in_map_iff in Hx. destruct Hx as [y [E Hy]]. subst. auto.
  - simpl in *. rewrite forallb_forall in *. intros x Hx. apply in_map_iff in Hx. destruct Hx as [[k y] [E Hy]]. subst. simpl. apply (IH _ Hy). apply (H _ Hy).
  - change (to_json (PObj c fs)) with (JDict ((KS s_type, JStr c) :: map (fun kv => (KS (fst kv), to_json (snd kv))) fs)).
    simpl in *. rewrite forallb_forall in *. intros x Hx. apply in_map_iff in Hx. destruct Hx as [[k y] [E Hy]]. subst. simpl. apply (IH _ Hy). apply (H _ Hy).
Qed.
Lemma nofloat_floats_ok : forall fr fnz pf j, jv_nofloat j = true -> floats_ok fr fnz pf j.
Proof.
  intros fr fnz pf. induction j as [| | | f | |l IH|d IH] using jv_ind'; intro H; try exact I.
  - destruct f; try exact I; discriminate.
  - simpl in H. induction l as [|x l IHl]; [exact I|]. inv IH. simpl in H. apply andb_true_iff in H. destruct H as [A B].
    split; [apply H2; exact A | apply IHl; assumption].
  - simpl in H. induction d as [|x d IHd]; [exact I|]. inv IH. simpl in H. apply andb_true_iff in H. destruct H as [A B].
    split; [apply H2; exact A | apply IHd; assumption].
Qed.

(* --- to_json_str / from_json_str with the concrete text layer --------------------------------------------------------------- *)
Theorem text_roundtrip : forall fr fnz pf q ct v,
  ct_ok ct = true -> ser_ok ct v = true -> str_ok v = true -> pv_cps_ok v = true ->
  (q_empty_tuple q = false \/ no_empty_tuple v = true) ->
  floats_ok fr fnz pf (to_sj v) ->
  of_str str (loads pf) q ct (to_str str (dumps fr fnz) v) = Ok v.
Proof.
  intros fr fnz pf q ct v Hct Hs Hst Hcp Ht Hfl. unfold of_str, to_str.
  assert (Hj : jv_ok (to_json v) = true) by (apply (jv_ok_to_json ct Hct); assumption).
  rewrite loads_dumps; [apply sj_roundtrip_general; assumption | apply sj_ok_encode; exact Hj | | exact Hfl].
  unfold to_sj. apply cps_ok_encode; [exact Hj | apply cps_ok_to_json; exact Hcp].
Qed.

(* without finite floats nothing is assumed about the text layer at all *)
Theorem text_roundtrip_nofloat : forall fr fnz pf q ct v,
  ct_ok ct = true -> ser_ok ct v = true -> str_ok v = true -> pv_cps_ok v = true -> pv_nofloat v = true ->
  (q_empty_tuple q = false \/ no_empty_tuple v = true) ->
  of_str str (loads pf) q ct (to_str str (dumps fr fnz) v) = Ok v.
Proof.
  intros fr fnz pf q ct v Hct Hs Hst Hcp Hnf Ht. apply text_roundtrip; try assumption.
  apply nofloat_floats_ok. unfold to_sj. apply nofloat_encode; [apply (jv_ok_to_json ct Hct); assumption | apply nofloat_to_json; exact Hnf].
Qed.

(* the hypothesis about floats is satisfiable: a toy float syntax "<m>e<e>" meaning m * 2^-e *)
Definition toy_repr (m e : Z) : str := int_str m ++ 101 :: int_str e.
Example ex_text : 
  let v := PDict [(KS [97; 233; 128512]%N, PList [PInt (-12); PNone; PTuple [PStr [34; 10; 55357]%N]]); (KI 7, PFloat FNan)] in
  pv_cps_ok v = true /\ pv_nofloat v = true /\ str_ok v = true /\
  of_str str (loads (fun _ => None)) q_all ex_ct (to_str str (dumps toy_repr []) v) = Ok v.
Proof. vm_compute. repeat split. Qed.

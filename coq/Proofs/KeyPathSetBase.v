(* KeyPathSetBase.v — association-list facts, well-formed tries, and the set a trie denotes. *)
From PG Require Import Common.Tactics Model.KeyPath Proofs.KeyPathArith.

(* ---- an induction principle that reaches below the child lists ----------------------------------------- *)
Fixpoint tnode_ind' (P : tnode -> Prop) (HT : P TTrue)
    (HD : forall kids, Forall (fun mv => P (snd mv)) kids -> P (TDict kids)) (n : tnode) : P n :=
  match n with
  | TTrue => HT
  | TDict kids =>
      HD kids ((fix go (l : trie) : Forall (fun mv => P (snd mv)) l :=
                  match l with
                  | [] => Forall_nil _
                  | mv :: r => Forall_cons mv (tnode_ind' P HT HD (snd mv)) (go r)
                  end) kids)
  end.

(* ---- keys ------------------------------------------------------------------------------------------------- *)
Lemma mkey_eqb_eq : forall a b, mkey_eqb a b = true <-> a = b.
Proof.
  destruct a, b; simpl; split; intros H; try discriminate; try congruence.
  - apply key_eqb_eq in H. congruence.
  - inv H. apply key_eqb_refl.
Qed.
Lemma mkey_eqb_refl : forall a, mkey_eqb a a = true.
Proof. intros; apply mkey_eqb_eq; reflexivity. Qed.
Lemma mkey_eqb_neq : forall a b, a <> b -> mkey_eqb a b = false.
Proof. intros a b H. destruct (mkey_eqb a b) eqn:E; auto. apply mkey_eqb_eq in E. contradiction. Qed.
Lemma mkey_dec : forall a b : mkey, {a = b} + {a <> b}.
Proof.
  intros a b. destruct (mkey_eqb a b) eqn:E.
  - left. apply mkey_eqb_eq. assumption.
  - right. intros H. subst. rewrite mkey_eqb_refl in E. discriminate.
Qed.

Definition keys_of (l : trie) : list mkey := map fst l.

(* ---- aget / aset / adel -------------------------------------------------------------------------------------- *)
Lemma aget_aset_same : forall m v l, aget m (aset m v l) = Some v.
Proof.
  induction l as [| [m' v'] r IH]; simpl.
  - rewrite mkey_eqb_refl. reflexivity.
  - destruct (mkey_eqb m m') eqn:E; simpl; rewrite E; auto.
Qed.

Lemma aget_aset_other : forall m m' v l, m <> m' -> aget m' (aset m v l) = aget m' l.
Proof.
  intros m m' v l H. induction l as [| [m0 v0] r IH]; simpl.
  - rewrite mkey_eqb_neq; auto.
  - destruct (mkey_eqb m m0) eqn:E; simpl.
    + apply mkey_eqb_eq in E. subst m0. rewrite !(mkey_eqb_neq m' m) by auto. reflexivity.
    + rewrite IH. reflexivity.
Qed.

Lemma aget_adel_other : forall m m' l, m <> m' -> aget m' (adel m l) = aget m' l.
Proof.
  intros m m' l H. induction l as [| [m0 v0] r IH]; simpl; auto.
  destruct (mkey_eqb m m0) eqn:E; simpl.
  - apply mkey_eqb_eq in E. subst m0. rewrite mkey_eqb_neq; auto.
  - rewrite IH. reflexivity.
Qed.

Lemma aget_none_notin : forall m l, aget m l = None <-> ~ In m (keys_of l).
Proof.
  induction l as [| [m0 v0] r IH]; simpl.
  - split; auto.
  - destruct (mkey_eqb m m0) eqn:E.
    + apply mkey_eqb_eq in E. subst. split; [discriminate | intros H; exfalso; apply H; auto].
    + rewrite IH. split; intros H.
      * intros [F | F]; [subst; rewrite mkey_eqb_refl in E; discriminate | auto].
      * intros F. apply H. auto.
Qed.

Lemma aget_adel_same : forall m l, NoDup (keys_of l) -> aget m (adel m l) = None.
Proof.
  induction l as [| [m0 v0] r IH]; simpl; intros H; auto.
  inv H. destruct (mkey_eqb m m0) eqn:E; simpl.
  - apply mkey_eqb_eq in E. subst. apply aget_none_notin. assumption.
  - rewrite E. auto.
Qed.

Lemma aget_in : forall m v l, aget m l = Some v -> In (m, v) l.
Proof.
  induction l as [| [m0 v0] r IH]; simpl; intros H; [discriminate|].
  destruct (mkey_eqb m m0) eqn:E.
  - apply mkey_eqb_eq in E. inv H. auto.
  - auto.
Qed.

Lemma in_aget : forall m v l, NoDup (keys_of l) -> In (m, v) l -> aget m l = Some v.
Proof.
  induction l as [| [m0 v0] r IH]; simpl; intros Hn H; [contradiction|].
  inv Hn. destruct H as [H | H].
  - inv H. rewrite mkey_eqb_refl. reflexivity.
  - destruct (mkey_eqb m m0) eqn:E.
    + apply mkey_eqb_eq in E. subst. exfalso. apply H2. change m0 with (fst (m0, v)). apply in_map. assumption.
    + auto.
Qed.

Lemma NoDup_snoc : forall (A : Type) (l : list A) (x : A), NoDup l -> ~ In x l -> NoDup (l ++ [x]).
Proof.
  induction l as [| a l IH]; simpl; intros x H Hx.
  - constructor; auto.
  - inv H. constructor.
    + rewrite in_app_iff. simpl. intros [F | [F | []]]; auto.
    + apply IH; auto.
Qed.

Lemma keys_aset : forall m v l, keys_of (aset m v l) = if ahas m l then keys_of l else keys_of l ++ [m].
Proof.
  unfold ahas. induction l as [| [m0 v0] r IH]; simpl; auto.
  destruct (mkey_eqb m m0) eqn:E; simpl; auto.
  rewrite IH. destruct (aget m r); reflexivity.
Qed.

Lemma nodup_aset : forall m v l, NoDup (keys_of l) -> NoDup (keys_of (aset m v l)).
Proof.
  intros m v l H. rewrite keys_aset. unfold ahas. destruct (aget m l) eqn:E; auto.
  apply aget_none_notin in E. apply NoDup_snoc; auto.
Qed.

(* ---- well-formed tries ------------------------------------------------------------------------------------------
   every '$' entry is True; every other entry is keyed by a key that is not the marker and holds a non-empty,
   well-formed dict; keys are unique (Python dict).  All tries built through the API from marker-free paths are
   well-formed (proved per operation below). *)
Definition clean (q : quirks) (k : key) : Prop := inj q k = MK k.
Definition nonempty_dict (n : tnode) : Prop := match n with TDict (_ :: _) => True | _ => False end.

Fixpoint wf (q : quirks) (n : tnode) : Prop :=
  match n with
  | TTrue => True
  | TDict kids =>
      NoDup (keys_of kids) /\
      (fix all (l : trie) : Prop :=
         match l with
         | [] => True
         | (MTerm, v) :: r => v = TTrue /\ all r
         | (MK k, v) :: r => (clean q k /\ nonempty_dict v /\ wf q v) /\ all r
         end) kids
  end.

Definition entry_ok (q : quirks) (mv : mkey * tnode) : Prop :=
  match fst mv with
  | MTerm => snd mv = TTrue
  | MK k => clean q k /\ nonempty_dict (snd mv) /\ wf q (snd mv)
  end.

Lemma wf_dict : forall q kids, wf q (TDict kids) <-> NoDup (keys_of kids) /\ Forall (entry_ok q) kids.
Proof.
  intros q kids. cbn [wf]. apply and_iff_compat_l.
  induction kids as [| [m v] r IH].
  - split; auto.
  - destruct m; rewrite IH; split.
    + intros [H1 H2]. constructor; auto.
    + intros H. inv H. auto.
    + intros [H1 H2]. constructor; auto.
    + intros H. inv H. auto.
Qed.

Lemma wf_empty : forall q, wf q (TDict []).
Proof. intros. apply wf_dict. split; constructor. Qed.

Lemma wf_entry : forall q kids m v, wf q (TDict kids) -> aget m kids = Some v -> entry_ok q (m, v).
Proof.
  intros q kids m v H E. apply wf_dict in H as [_ H]. rewrite Forall_forall in H.
  apply H. apply aget_in. assumption.
Qed.

Lemma wf_child : forall q kids k v, wf q (TDict kids) -> aget (MK k) kids = Some v ->
  exists ck, v = TDict ck /\ ck <> [] /\ wf q v.
Proof.
  intros q kids k v H E. pose proof (wf_entry _ _ _ _ H E) as (_ & Hn & Hw). simpl in Hn, Hw.
  destruct v as [| [| x ck]]; simpl in Hn; try contradiction. eexists; split; [reflexivity|]. split; [discriminate | assumption].
Qed.

Lemma entry_ok_aset : forall q m v kids, Forall (entry_ok q) kids -> entry_ok q (m, v) -> Forall (entry_ok q) (aset m v kids).
Proof.
  intros q m v kids H Hv. induction kids as [| [m0 v0] r IH]; simpl.
  - constructor; auto.
  - inv H. destruct (mkey_eqb m m0) eqn:E.
    + apply mkey_eqb_eq in E. subst. constructor; auto.
    + constructor; auto.
Qed.

Lemma wf_aset : forall q m v kids, wf q (TDict kids) -> entry_ok q (m, v) -> wf q (TDict (aset m v kids)).
Proof.
  intros q m v kids H Hv. apply wf_dict in H as [H1 H2]. apply wf_dict. split.
  - apply nodup_aset. assumption.
  - apply entry_ok_aset; assumption.
Qed.

Lemma keys_adel : forall m l, NoDup (keys_of l) -> NoDup (keys_of (adel m l)) /\ (forall x, In x (adel m l) -> In x l).
Proof.
  induction l as [| [m0 v0] r IH]; simpl; intros H.
  - split; auto.
  - inv H. destruct (mkey_eqb m m0) eqn:E.
    + split; auto.
    + destruct (IH H3) as [A B]. split.
      * simpl. constructor; auto. intros F. apply H2.
        apply in_map_iff in F as ([m1 v1] & F1 & F2). simpl in F1. subst. change m0 with (fst (m0, v1)). apply in_map. auto.
      * intros x [F | F]; auto.
Qed.

Lemma wf_adel : forall q m kids, wf q (TDict kids) -> wf q (TDict (adel m kids)).
Proof.
  intros q m kids H. apply wf_dict in H as [H1 H2]. apply wf_dict. destruct (keys_adel m kids H1) as [A B]. split; auto.
  rewrite Forall_forall in *. auto.
Qed.

(* ---- the set a trie denotes: membership of a path ------------------------------------------------------------------- *)
Fixpoint memb (q : quirks) (ks : list key) (n : tnode) : bool :=
  match n with
  | TTrue => false
  | TDict kids =>
      match ks with
      | [] => ahas MTerm kids
      | k :: r => match aget (inj q k) kids with Some c => memb q r c | None => false end
      end
  end.

Definition cleanp (q : quirks) (p : list key) : Prop := Forall (clean q) p.

Lemma no_quirks_clean : forall q p, no_quirks q -> cleanp q p.
Proof.
  intros q p H. unfold cleanp, clean, inj. apply Forall_forall. intros k _. rewrite H. reflexivity.
Qed.

(* without the dollar quirk every path is clean; with it, exactly the paths without a '$' key *)
Lemma clean_iff : forall q k, clean q k <-> (q_dollar q = true -> k <> KStr [c_dollar]).
Proof.
  intros q k. unfold clean, inj. destruct (q_dollar q); simpl.
  - destruct (key_eqb k (KStr [c_dollar])) eqn:E.
    + apply key_eqb_eq in E. split; [discriminate | intros H; exfalso; apply H; auto].
    + split; auto. intros _ _ F. subst. rewrite key_eqb_refl in E. discriminate.
  - split; auto. intros _ F. discriminate.
Qed.

(* __contains__ never raises on a well-formed trie and a clean path, and computes membership *)
Lemma contains_memb : forall q ks kids, wf q (TDict kids) -> cleanp q ks ->
  contains_go q ks (TDict kids) = Some (memb q ks (TDict kids)).
Proof.
  induction ks as [| k r IH]; intros kids Hw Hc; simpl; auto.
  inv Hc. rewrite H1. destruct (aget (MK k) kids) eqn:E; auto.
  destruct (wf_child _ _ _ _ Hw E) as (ck & -> & _ & Hck). apply IH; auto.
Qed.

Lemma memb_empty : forall q ks, memb q ks (TDict []) = false.
Proof. destruct ks; reflexivity. Qed.

(* KeyPathParse.v — parse (format ks) = ks for every list of admissible keys (no bound on lengths). *)
From Coq Require Import Decimal DecimalZ DecimalPos.
From PG Require Import Common.Tactics Model.KeyPathDigits Model.KeyPath.
Local Open Scope N_scope.

(* ---- characters ---------------------------------------------------------------------------- *)
Lemma special_not_digit : forall c, is_special c = true -> is_digit_char c = false.
Proof.
  intros c H. unfold is_special in H.
  apply orb_true_iff in H as [H | H]; [apply orb_true_iff in H as [H | H] |];
    apply N.eqb_eq in H; subst; vm_compute; reflexivity.
Qed.

Lemma dash_not_special : is_special c_dash = false.
Proof. reflexivity. Qed.

Lemma special_cases : forall c, is_special c = false ->
  N.eqb c c_close = false /\ N.eqb c c_open = false /\ N.eqb c c_dot = false.
Proof.
  intros c H. unfold is_special in H.
  apply orb_false_iff in H as [H H3]. apply orb_false_iff in H as [H1 H2]. auto.
Qed.

(* ---- decimal printing ---------------------------------------------------------------------- *)
Definition ascii_digit (c : N) : Prop := 48 <= c <= 57.

Lemma uint_cps_digits : forall u, Forall ascii_digit (uint_cps u).
Proof. induction u; simpl; constructor; auto; unfold ascii_digit; lia. Qed.

Lemma ascii_digit_cases : forall c, ascii_digit c ->
  c = 48 \/ c = 49 \/ c = 50 \/ c = 51 \/ c = 52 \/ c = 53 \/ c = 54 \/ c = 55 \/ c = 56 \/ c = 57.
Proof. unfold ascii_digit; intros; lia. Qed.

Lemma ascii_digit_facts : forall c, ascii_digit c ->
  is_special c = false /\ is_digit_char c = true /\ N.eqb c c_dash = false.
Proof.
  intros c H. apply ascii_digit_cases in H.
  repeat (destruct H as [H | H]; [subst; vm_compute; auto |]). subst; vm_compute; auto.
Qed.

Lemma digits_uint_cps : forall u, digits_uint (uint_cps u) = Some u.
Proof.
  induction u; cbn [uint_cps digits_uint]; auto;
    match goal with |- context [dclass ?c] => replace (dclass c) with (Decimal (c - 48)) by (vm_compute; reflexivity) end;
    rewrite IHu; reflexivity.
Qed.

Lemma uint_cps_nonnil : forall u, u <> Nil -> uint_cps u <> [].
Proof. destruct u; simpl; congruence. Qed.

Lemma isdigit_digits : forall s, s <> [] -> Forall ascii_digit s -> isdigit s = true.
Proof.
  intros s Hn H. destruct s; [congruence|]. unfold isdigit.
  apply forallb_forall. intros x Hx. rewrite Forall_forall in H.
  apply ascii_digit_facts; auto.
Qed.

Lemma lstrip_digits : forall s, Forall ascii_digit s -> lstrip_dash s = s.
Proof.
  intros s H. destruct s; auto. simpl. inv H.
  destruct (ascii_digit_facts n H2) as (_ & _ & E). rewrite E. reflexivity.
Qed.

Lemma count_dash_digits : forall s, Forall ascii_digit s -> count_dash s = O.
Proof.
  intros s H. destruct s; auto. simpl. inv H.
  destruct (ascii_digit_facts n H2) as (_ & _ & E). rewrite E. reflexivity.
Qed.

Lemma to_int_nonnil : forall z, match Z.to_int z with Pos u | Neg u => u <> Nil end.
Proof.
  destruct z; simpl; try apply Unsigned.to_uint_nonnil. discriminate.
Qed.

Lemma z_cps_no_special : forall z, Forall (fun c => is_special c = false) (z_cps z).
Proof.
  intros z. unfold z_cps. destruct (Z.to_int z); [| constructor; [reflexivity|]];
    (eapply Forall_impl; [| apply uint_cps_digits]); intros a Ha; apply ascii_digit_facts; auto.
Qed.

Lemma z_cps_numeric : forall z, isdigit (lstrip_dash (z_cps z)) = true /\ py_int (z_cps z) = Some z.
Proof.
  intros z. unfold z_cps, py_int.
  pose proof (to_int_nonnil z) as Hn. pose proof (DecimalZ.of_to z) as Hz.
  destruct (Z.to_int z) as [u | u]; pose proof (uint_cps_digits u) as Hd.
  - rewrite (lstrip_digits _ Hd), (count_dash_digits _ Hd), digits_uint_cps. split.
    + apply isdigit_digits; auto using uint_cps_nonnil.
    + simpl in Hz. congruence.
  - change (lstrip_dash (c_dash :: uint_cps u)) with (lstrip_dash (uint_cps u)).
    change (count_dash (c_dash :: uint_cps u)) with (S (count_dash (uint_cps u))).
    rewrite (lstrip_digits _ Hd), (count_dash_digits _ Hd), digits_uint_cps. split.
    + apply isdigit_digits; auto using uint_cps_nonnil.
    + simpl in Hz. congruence.
Qed.

(* ---- a key with a delimiter is never taken for a number ----------------------------------------- *)
Lemma special_not_numeric : forall s, has_special s = true -> isdigit (lstrip_dash s) = false.
Proof.
  induction s as [| c r IH]; intros H; [discriminate|].
  simpl in H. simpl. destruct (N.eqb c c_dash) eqn:E.
  - apply N.eqb_eq in E. subst. rewrite dash_not_special in H. simpl in H. auto.
  - unfold isdigit. apply not_true_is_false. intros F.
    rewrite forallb_forall in F.
    apply orb_true_iff in H as [H | H].
    + pose proof (F c (or_introl eq_refl)) as G. rewrite (special_not_digit _ H) in G. discriminate.
    + apply existsb_exists in H as (x & Hx & Hs).
      pose proof (F x (or_intror Hx)) as G. rewrite (special_not_digit _ Hs) in G. discriminate.
Qed.

(* ---- the state machine on runs of characters ------------------------------------------------------ *)
Lemma step_plain : forall c r cur d acc, is_special c = false ->
  parse_go (c :: r) cur d acc = parse_go r (cur ++ [c]) d acc.
Proof.
  intros c r cur d acc H. destruct (special_cases c H) as (E1 & E2 & E3).
  cbn [parse_go]. rewrite E1, E2, E3. reflexivity.
Qed.

Lemma run_plain : forall s rest cur d acc, Forall (fun c => is_special c = false) s ->
  parse_go (s ++ rest) cur d acc = parse_go rest (cur ++ s) d acc.
Proof.
  induction s as [| c r IH]; intros rest cur d acc H.
  - rewrite app_nil_r. reflexivity.
  - inv H. rewrite <- app_comm_cons, step_plain by assumption.
    rewrite IH by assumption. rewrite <- app_assoc. reflexivity.
Qed.

(* inside brackets: a string whose brackets balance (relative depth n back to 0) never closes the key *)
Lemma run_inside : forall s n rest cur acc d0, bal n s = true ->
  parse_go (s ++ rest) cur (S d0 + n) acc = parse_go rest (cur ++ s) (S d0) acc.
Proof.
  induction s as [| c r IH]; intros n rest cur acc d0 H.
  - simpl in H. destruct n; [| discriminate]. rewrite app_nil_r, Nat.add_0_r. reflexivity.
  - simpl in H. rewrite <- app_comm_cons. cbn [parse_go].
    destruct (N.eqb c c_open) eqn:Eo.
    + assert (N.eqb c c_close = false) as Ec by (apply N.eqb_eq in Eo; subst c; reflexivity).
      rewrite Ec. cbn [Nat.add].
      replace (S (S (d0 + n))) with (S d0 + S n)%nat by lia.
      rewrite IH by assumption. rewrite <- app_assoc. reflexivity.
    + destruct (N.eqb c c_close) eqn:Ec.
      * destruct n as [| n']; [discriminate|].
        replace (S d0 + S n')%nat with (S (S (d0 + n'))) by lia. cbn iota.
        replace (S (d0 + n')) with (S d0 + n')%nat by lia.
        rewrite IH by assumption. rewrite <- app_assoc. reflexivity.
      * cbn [Nat.add is_zero]. rewrite andb_false_r.
        change (S (d0 + n)) with (S d0 + n)%nat.
        rewrite IH by assumption. rewrite <- app_assoc. reflexivity.
Qed.

(* ---- _append_key ------------------------------------------------------------------------------- *)
Definition pending (cur : list N) : list key := match cur with [] => [] | _ => [KStr cur] end.

Lemma append_pending : forall acc cur, append_key acc cur false false = Some (acc ++ pending cur).
Proof. intros acc [| c r]; simpl; [rewrite app_nil_r |]; reflexivity. Qed.

Lemma append_special : forall acc s, has_special s = true ->
  append_key acc s true true = Some (acc ++ [KStr s]).
Proof. intros acc s H. unfold append_key. rewrite (special_not_numeric s H). reflexivity. Qed.

Lemma append_int : forall acc z, append_key acc (z_cps z) true true = Some (acc ++ [KInt z]).
Proof.
  intros acc z. unfold append_key. destruct (z_cps_numeric z) as [H1 H2]. rewrite H1, H2. reflexivity.
Qed.

Lemma no_special_forall : forall s, has_special s = false -> Forall (fun c => is_special c = false) s.
Proof.
  induction s; intros H; constructor; simpl in H; apply orb_false_iff in H as [H1 H2]; auto.
Qed.

(* ---- the round trip, generalised over the machine state at a key boundary --------------------------- *)
Lemma parse_fmt_go : forall ks first cur acc,
  Forall key_ok ks -> has_special cur = false -> (first = true -> cur = []) ->
  parse_go (fmt_go true first ks) cur 0 acc = POk (acc ++ pending cur ++ ks).
Proof.
  induction ks as [| k ks IH]; intros first cur acc Hok Hcur Hfirst.
  - cbn [fmt_go parse_go]. rewrite append_pending, app_nil_r. reflexivity.
  - inv Hok. rename H1 into Hk, H2 into Hks. cbn [fmt_go].
    destruct k as [s | z].
    + (* string key *)
      unfold key_ok in Hk. cbn [key_okb] in Hk. apply andb_true_iff in Hk as [Hne Hbal].
      cbn [fmt_key andb]. destruct (has_special s) eqn:Hs.
      * (* bracketed *)
        rewrite <- app_comm_cons. cbn [parse_go].
        change (N.eqb c_open c_close) with false. change (N.eqb c_open c_open) with true. cbn iota.
        rewrite append_pending.
        rewrite <- app_assoc.
        rewrite (run_inside s 0 _ [] _ 0 Hbal). cbn [app].
        cbn [parse_go]. change (N.eqb c_close c_close) with true. cbn iota.
        rewrite (append_special _ s Hs).
        rewrite IH by (auto; discriminate). cbn [pending app].
        rewrite <- !app_assoc. destruct cur; reflexivity.
      * (* dotted *)
        destruct first.
        -- rewrite (Hfirst eq_refl). cbn [app].
           rewrite (run_plain s _ [] 0 acc (no_special_forall s Hs)). cbn [app].
           rewrite IH by (auto; discriminate).
           destruct s; [discriminate|]. reflexivity.
        -- cbn [app]. cbn [parse_go].
           change (N.eqb c_dot c_close) with false. change (N.eqb c_dot c_open) with false.
           change (N.eqb c_dot c_dot) with true. cbn [andb is_zero].
           rewrite append_pending.
           rewrite (run_plain s _ [] 0 _ (no_special_forall s Hs)). cbn [app].
           rewrite IH by (auto; discriminate).
           destruct s; [discriminate|]. cbn [pending]. rewrite <- !app_assoc. reflexivity.
    + (* integer key *)
      cbn [fmt_key]. rewrite <- app_comm_cons. cbn [parse_go].
      change (N.eqb c_open c_close) with false. change (N.eqb c_open c_open) with true. cbn iota.
      rewrite append_pending. rewrite <- app_assoc.
      rewrite (run_plain (z_cps z) _ [] 1 _ (z_cps_no_special z)). cbn [app].
      cbn [parse_go]. change (N.eqb c_close c_close) with true. cbn iota.
      rewrite append_int.
      rewrite IH by (auto; discriminate). cbn [pending app].
      rewrite <- !app_assoc. reflexivity.
Qed.

Theorem parse_format : forall ks, Forall key_ok ks -> parse (format ks) = POk ks.
Proof.
  intros ks H. unfold parse, format. rewrite parse_fmt_go; auto.
Qed.

Theorem format_injective : forall ks ks', Forall key_ok ks -> Forall key_ok ks' ->
  format ks = format ks' -> ks = ks'.
Proof.
  intros ks ks' H H' E. pose proof (parse_format ks H) as P. rewrite E, (parse_format ks' H') in P. congruence.
Qed.

(* key_ok is inhabited by every shape the property names *)
Example key_ok_examples :
  Forall key_ok [KStr [48]; KInt 0; KStr [97; 46; 98]; KStr [91; 48; 93]; KInt (-12); KStr [178]; KStr [45; 49]; KStr [36]].
Proof. repeat constructor. Qed.

(* SymCoreC08.v — write protection (property C08). *)
From PG Require Import Common.Tactics Model.SymCoreDefs Model.SymCoreOps Proofs.SymCoreBase.
From Coq Require Import NArith.
Local Open Scope Z_scope.

(* --- scope precedence ------------------------------------------------------------------------ *)
Definition push_sealed (o : option bool) (sc : scope) : scope :=
  mkScope (sc_sealed sc ++ [o]) (sc_aw sc) (sc_notify sc) (sc_partial sc).
Definition push_aw (o : option bool) (sc : scope) : scope :=
  mkScope (sc_sealed sc) (sc_aw sc ++ [o]) (sc_notify sc) (sc_partial sc).

Lemma innermost_app : forall A (d x : A) l, innermost d (l ++ [x]) = x.
Proof. intros; unfold innermost; apply last_last. Qed.

Lemma scope_precedence_sealed : forall sc fl,
  treats_as_sealed sc fl = match sealed_scope sc with Some b => b | None => f_sealed fl end.
Proof. reflexivity. Qed.
Lemma innermost_sealed_wins : forall sc o fl,
  treats_as_sealed (push_sealed o sc) fl = match o with Some b => b | None => f_sealed fl end.
Proof. intros; unfold treats_as_sealed, sealed_scope, push_sealed; simpl; rewrite innermost_app; auto. Qed.
Lemma innermost_aw_wins : forall sc o fl,
  writable_via_accessors (push_aw o sc) fl = match o with Some b => b | None => f_aw fl end.
Proof. intros; unfold writable_via_accessors, push_aw; simpl; rewrite innermost_app; auto. Qed.
Lemma no_scope_uses_flags : forall fl,
  treats_as_sealed (mkScope [] [] [] []) fl = f_sealed fl /\ writable_via_accessors (mkScope [] [] [] []) fl = f_aw fl.
Proof. split; reflexivity. Qed.

(* --- seal is deep ------------------------------------------------------------------------------ *)
Definition sealed_is (b : bool) (n : node) : Prop :=
  match n with Node _ _ _ _ fl _ => f_sealed fl = b | Leaf _ => True end.
Lemma seal_rec_deep : forall b n, every (sealed_is b) (seal_rec b n).
Proof.
  intros b n; induction n using node_ind'; simpl; auto.
  fold seal_rec. split; auto.
  apply every_items. apply Forall_map. simpl.
  eapply Forall_impl; [|exact H]. auto.
Qed.
(* ... and changes nothing else: ids, kinds, keys, annotations, the other flags *)
Fixpoint unsealed_view (n : node) : node :=
  match n with
  | Leaf l => Leaf l
  | Node i k pa pt fl its =>
      Node i k pa pt (mkFlags false (f_aw fl) (f_partial fl) (f_spec fl)) (map (fun kv => (fst kv, unsealed_view (snd kv))) its)
  end.
Lemma seal_rec_only_flag : forall b n, unsealed_view (seal_rec b n) = unsealed_view n.
Proof.
  intros b n; induction n using node_ind'; simpl; auto.
  f_equal. rewrite map_map; simpl. apply map_ext_Forall. auto.
  eapply Forall_impl; [|exact H]. simpl; intros; f_equal; auto.
Qed.
Lemma unseal_seal : forall n, seal_rec false (seal_rec true n) = seal_rec false n.
Proof.
  intros n; induction n using node_ind'; simpl; auto.
  f_equal. rewrite map_map; simpl. apply map_ext_Forall.
  eapply Forall_impl; [|exact H]. simpl; intros; f_equal; auto.
Qed.

(* --- every mutator refuses on a target that is treated as sealed ---------------------------------------- *)
From PG Require Import Model.SymCoreSpec.

Lemma state_eta : forall st, mkState (roots st) (next_id st) = st.
Proof. destruct st; reflexivity. Qed.
Lemma gc_same : forall st b, gc (length (roots st)) (next_id st) b st = st.
Proof.
  intros; unfold gc. rewrite firstn_all, skipn_all. simpl. rewrite app_nil_r. apply state_eta.
Qed.

Ltac crush_exec :=
  repeat (simpl in *; auto; try congruence;
          match goal with
          | H : ?x = true |- context [if ?x then _ else _] => rewrite H
          | H : ?x = false |- context [if ?x then _ else _] => rewrite H
          | |- context [match ?x with _ => _ end] => destruct x eqn:?
          end).

Lemma exec_sealed_unchanged : forall q sc st ps tid tk tpth tfl its (o : op rvalue),
  treats_as_sealed sc tfl = true -> mutating o = true -> rebind_like o = false ->
  fst (exec q sc st ps tid tk tpth tfl its o) = st.
Proof.
  intros. destruct o; simpl in *; try discriminate; rewrite ?H; simpl; auto; crush_exec.
Qed.

Lemma exec_sealed_refuses : forall q sc st ps tid tk tpth tfl its (o : op rvalue),
  treats_as_sealed sc tfl = true -> mutating o = true -> rebind_like o = false ->
  kind_ok tk o = true -> applicable tk its o = true ->
  snd (exec q sc st ps tid tk tpth tfl its o) = Err EWrite.
Proof.
  intros. destruct o; simpl in *; try discriminate; rewrite ?H; simpl; auto;
    unfold has_key in *; crush_exec.
  all: match goal with H : ?x = true, H' : negb ?x = true |- _ => rewrite H in H'; discriminate end.
Qed.

(* resolving the values keeps the operation *)
Lemma resolve_op_same : forall st o ro, resolve_op st o = Some ro ->
  mutating ro = mutating o /\ rebind_like ro = rebind_like o /\ accessor_op ro = accessor_op o /\
  (forall tk, kind_ok tk ro = kind_ok tk o) /\ (forall tk its, applicable tk its ro = applicable tk its o).
Proof.
  intros. destruct o; simpl in H;
    repeat match goal with
           | H : option_map _ ?x = Some _ |- _ => destruct x eqn:?; simpl in H; [|discriminate]
           end; inv H; repeat split; auto.
Qed.

Lemma step_unfold : forall q st o tid tk pa pt fl its ro,
  get_at st (o_pos o) = Some (Node tid tk pa pt fl its) -> kind_ok tk (o_op o) = true ->
  resolve_op st (o_op o) = Some ro ->
  step q st o = (gc (length (roots st)) (next_id st) (is_result_op ro) (fst (exec q (o_scope o) st (o_pos o) tid tk pt fl its ro)),
               snd (exec q (o_scope o) st (o_pos o) tid tk pt fl its ro)).
Proof.
  intros. unfold step. rewrite H, H0, H1. simpl. destruct (exec _ _ _ _ _ _ _ _ _); reflexivity.
Qed.
Lemma step_na : forall q st o tid tk pa pt fl its,
  get_at st (o_pos o) = Some (Node tid tk pa pt fl its) ->
  kind_ok tk (o_op o) = false \/ resolve_op st (o_op o) = None -> step q st o = (st, Err ENA).
Proof.
  intros. unfold step. rewrite H. destruct H0 as [E|E]; rewrite E; simpl; auto.
  destruct (kind_ok tk (o_op o)); auto.
Qed.

Theorem sealed_refuses : forall q st o tid tk pa pt fl its,
  get_at st (o_pos o) = Some (Node tid tk pa pt fl its) ->
  treats_as_sealed (o_scope o) fl = true -> mutating (o_op o) = true -> rebind_like (o_op o) = false ->
  fst (step q st o) = st /\
  (kind_ok tk (o_op o) = true -> resolvable st (o_op o) -> applicable tk its (o_op o) = true ->
   step q st o = (st, Err EWrite)).
Proof.
  intros q st o tid tk pa pt fl its Hg Hs Hm Hr.
  assert (U : fst (step q st o) = st).
  { destruct (kind_ok tk (o_op o)) eqn:K; [|erewrite step_na; eauto].
    destruct (resolve_op st (o_op o)) as [ro|] eqn:R; [|erewrite step_na; eauto].
    erewrite step_unfold; eauto. simpl.
    destruct (resolve_op_same _ _ _ R) as (M & B & _).
    rewrite exec_sealed_unchanged; auto; try congruence. apply gc_same. }
  split; auto. intros K [ro R] Ap.
  destruct (resolve_op_same _ _ _ R) as (M & B & _ & KK & AA).
  rewrite (surjective_pairing (step q st o)). rewrite U. f_equal.
  erewrite step_unfold; eauto. simpl.
  apply exec_sealed_refuses; first [assumption | congruence | rewrite KK; assumption | rewrite AA; assumption].
Qed.

(* --- accessors --------------------------------------------------------------------------------------------- *)
Lemma exec_accessor_refuses : forall q sc st ps tid tk tpth tfl its (o : op rvalue),
  writable_via_accessors sc tfl = false -> accessor_op o = true -> kind_ok tk o = true -> applicable tk its o = true ->
  exec q sc st ps tid tk tpth tfl its o = (st, Err EWrite).
Proof.
  intros. destruct o; simpl in *; try discriminate; rewrite ?H; simpl; auto;
    destruct (treats_as_sealed sc tfl); simpl; auto; crush_exec.
  all: match goal with H : ?x = true, H' : negb ?x = true |- _ => rewrite H in H'; discriminate end.
Qed.
Theorem accessor_refuses : forall q st o tid tk pa pt fl its,
  get_at st (o_pos o) = Some (Node tid tk pa pt fl its) ->
  writable_via_accessors (o_scope o) fl = false -> accessor_op (o_op o) = true ->
  kind_ok tk (o_op o) = true -> resolvable st (o_op o) -> applicable tk its (o_op o) = true ->
  step q st o = (st, Err EWrite).
Proof.
  intros q st o tid tk pa pt fl its Hg Hw Ha K [ro R] Ap.
  destruct (resolve_op_same _ _ _ R) as (M & B & A & KK & AA).
  erewrite step_unfold; eauto.
  rewrite exec_accessor_refuses; first [assumption | congruence | rewrite KK; assumption | rewrite AA; assumption | idtac].
  simpl. rewrite gc_same. reflexivity.
Qed.

(* --- inside `with pg.as_sealed(True)` nothing can be changed (rebind and its aliases included) ----------------- *)
Lemma rebind_one_sealed_scope : forall q sc st tp path rv,
  sealed_scope sc = Some true -> exists e, rebind_one q sc st tp path rv = (st, PErr e, None).
Proof.
  intros. unfold rebind_one. destruct path; [eauto|].
  destruct (get_at st tp); [|eauto].
  destruct (query_path n (removelast (k :: path))); [|eauto].
  destruct (get_at st (fst tp, snd tp ++ l)) as [[|]|]; eauto.
  unfold treats_as_sealed; rewrite H. eauto.
Qed.
Lemma rebind_loop_sealed_scope : forall q sc st tp pvs upd,
  sealed_scope sc = Some true ->
  rebind_loop q sc st tp pvs upd = (st, upd, match pvs with [] => None | _ => snd (rebind_loop q sc st tp pvs upd) end).
Proof.
  intros. destruct pvs as [|[p rv] r]; simpl; auto.
  destruct (rebind_one_sealed_scope q sc st tp p rv H) as [e E]. rewrite E. reflexivity.
Qed.
Lemma rebind_core_sealed_scope : forall q sc st tp tk pvs nt,
  sealed_scope sc = Some true -> fst (rebind_core q sc st tp tk pvs nt) = st.
Proof.
  intros. unfold rebind_core.
  rewrite rebind_loop_sealed_scope; auto.
  destruct (match tk with KList => sort_desc pvs | _ => pvs end) eqn:E.
  - simpl. destruct nt; auto.
  - destruct (snd (rebind_loop q sc st tp (p :: l) [])); simpl; auto. destruct nt; auto.
Qed.
Theorem as_sealed_scope_freezes : forall q st o,
  sealed_scope (o_scope o) = Some true -> mutating (o_op o) = true -> fst (step q st o) = st.
Proof.
  intros q st o Hs Hm.
  destruct (get_at st (o_pos o)) as [[|tid tk pa pt fl its]|] eqn:G; try (unfold step; rewrite G; reflexivity).
  assert (S : treats_as_sealed (o_scope o) fl = true) by (unfold treats_as_sealed; rewrite Hs; auto).
  destruct (rebind_like (o_op o)) eqn:B.
  2:{ eapply sealed_refuses; eauto. }
  destruct (kind_ok tk (o_op o)) eqn:K; [|erewrite step_na; eauto].
  destruct (resolve_op st (o_op o)) as [ro|] eqn:R; [|erewrite step_na; eauto].
  erewrite step_unfold; eauto. simpl.
  destruct (resolve_op_same _ _ _ R) as (M & BB & _).
  assert (E : fst (exec q (o_scope o) st (o_pos o) tid tk pt fl its ro) = st).
  { destruct ro; simpl in BB; rewrite B in BB; try discriminate; simpl.
    - apply rebind_core_sealed_scope; auto.
    - apply rebind_core_sealed_scope; auto.
    - destruct pvs; auto. destruct tk; try apply rebind_core_sealed_scope; auto.
      rewrite S; auto. }
  rewrite E. apply gc_same.
Qed.

(* a sealed pg.Object refuses rebind as a whole *)
Theorem sealed_object_refuses_rebind : forall q st o tid c pa pt fl its pvs,
  get_at st (o_pos o) = Some (Node tid (KObj c) pa pt fl its) ->
  treats_as_sealed (o_scope o) fl = true -> o_op o = Rebind pvs -> pvs <> [] -> resolvable st (o_op o) ->
  step q st o = (st, Err EWrite).
Proof.
  intros q st o tid c pa pt fl its pvs G S E NE [ro R].
  erewrite step_unfold; eauto; [|rewrite E; auto].
  rewrite E in R. simpl in R. destruct (resolve_kvs st pvs) eqn:RK; simpl in R; [|discriminate]. inv R.
  assert (l <> []).
  { destruct pvs; [congruence|]. simpl in RK. destruct p. destruct (resolve st v); [|discriminate].
    destruct (resolve_kvs st pvs); [|discriminate]. inv RK. congruence. }
  simpl. destruct l; [congruence|]. rewrite S. simpl. rewrite gc_same. reflexivity.
Qed.
(* the owner of a written key that is treated as sealed refuses that key and nothing is written *)
Theorem rebind_sealed_owner_refuses : forall q sc st tp path rv tgt app cid ck cpa cpt cfl cits,
  path <> [] -> get_at st tp = Some tgt -> query_path tgt (removelast path) = Some app ->
  get_at st (fst tp, snd tp ++ app) = Some (Node cid ck cpa cpt cfl cits) ->
  treats_as_sealed sc cfl = true ->
  rebind_one q sc st tp path rv = (st, PErr EWrite, None).
Proof.
  intros. unfold rebind_one. destruct path; [congruence|]. rewrite H0, H1, H2, H3. reflexivity.
Qed.

(* --- rebind does not look at the accessor flag (neither the object's nor the scope's) ---------------------------------------- *)
Definition same_but_accessors (sc sc' : scope) : Prop :=
  sc_sealed sc' = sc_sealed sc /\ sc_notify sc' = sc_notify sc /\ sc_partial sc' = sc_partial sc.
Lemma rebind_one_ignores_accessors : forall q a b b' c d st tp path rv,
  rebind_one q (mkScope a b' c d) st tp path rv = rebind_one q (mkScope a b c d) st tp path rv.
Proof. reflexivity. Qed.
Lemma rebind_loop_ignores_accessors : forall q a b b' c d pvs st tp upd,
  rebind_loop q (mkScope a b' c d) st tp pvs upd = rebind_loop q (mkScope a b c d) st tp pvs upd.
Proof.
  induction pvs as [|[p rv] r]; simpl; intros; auto.
  rewrite (rebind_one_ignores_accessors q a b b' c d).
  destruct (rebind_one q (mkScope a b c d) st tp p rv) as [[st1 p1] c1].
  destruct p1; auto; destruct c1; auto.
Qed.
Lemma rebind_core_ignores_accessors : forall q a b b' c d st tp tk pvs nt,
  rebind_core q (mkScope a b' c d) st tp tk pvs nt = rebind_core q (mkScope a b c d) st tp tk pvs nt.
Proof. intros. unfold rebind_core. rewrite (rebind_loop_ignores_accessors q a b b' c d). reflexivity. Qed.
Theorem rebind_ignores_accessors : forall q sc sc' st ps tid tk tpth tfl tfl' its pvs,
  same_but_accessors sc sc' -> f_sealed tfl' = f_sealed tfl ->
  exec q sc' st ps tid tk tpth tfl' its (Rebind pvs) = exec q sc st ps tid tk tpth tfl its (Rebind pvs).
Proof.
  intros q [a b c d] [a' b' c' d'] st ps tid tk tpth tfl tfl' its pvs (E1 & E2 & E3) EF. simpl in *. subst.
  unfold treats_as_sealed, sealed_scope. simpl. rewrite EF. destruct pvs; auto.
  rewrite (rebind_core_ignores_accessors q a b b' c d). reflexivity.
Qed.

(* --- the Seal step: the node at the position is replaced by its deeply (un)sealed version, nothing else changes ----------------- *)
Lemma assoc_map_assoc_same : forall A k (f : A -> A) l v, assoc k l = Some v -> assoc k (map_assoc k f l) = Some (f v).
Proof.
  induction l as [|[k1 v1] r]; simpl; intros; try discriminate.
  destruct (key_eqb k k1) eqn:E; simpl; rewrite E; auto. inv H; auto.
Qed.
Lemma get_in_update_in_same : forall p f t c, get_in p t = Some c -> get_in p (update_in p f t) = Some (f c).
Proof.
  induction p; simpl; intros. inv H; auto.
  destruct t as [l|i k pa pt fl its]; simpl in *; [discriminate|].
  destruct (assoc a its) as [c0|] eqn:A; [|discriminate].
  erewrite assoc_map_assoc_same; eauto.
Qed.
Lemma nth_error_set_nth_same : forall A (l : list A) n x, (n < length l)%nat -> nth_error (set_nth n x l) n = Some x.
Proof. induction l; intros; destruct n; simpl in *; auto; try lia. apply IHl; lia. Qed.
Lemma get_at_update_at_same : forall st ps f c, get_at st ps = Some c -> get_at (update_at st ps f) ps = Some (f c).
Proof.
  unfold get_at, update_at; intros. destruct (get_root st (fst ps)) as [t|] eqn:E; [|discriminate].
  unfold get_root, set_root in *. simpl.
  destruct (nth_error (roots st) (fst ps)) as [[t'|]|] eqn:NE; try discriminate. inv E.
  rewrite nth_error_set_nth_same. apply get_in_update_in_same; auto.
  apply nth_error_Some. congruence.
Qed.
Lemma gc_noop : forall n base k st', length (roots st') = n -> gc n base k st' = st'.
Proof.
  intros. unfold gc. subst n. rewrite firstn_all, skipn_all. simpl. rewrite app_nil_r. destruct st'; reflexivity.
Qed.
Lemma length_set_nth' : forall A (l : list A) n x, length (set_nth n x l) = length l.
Proof. induction l; intros; destruct n; simpl; auto. Qed.
Lemma length_update_at : forall st ps f, length (roots (update_at st ps f)) = length (roots st).
Proof. intros. unfold update_at. destruct (get_root st (fst ps)); auto. simpl. apply length_set_nth'. Qed.
Theorem seal_step : forall q st sc ps b tgt,
  get_at st ps = Some tgt -> is_node tgt = true ->
  fst (step q st (mkSop sc ps (Seal b))) = update_at st ps (seal_rec b) /\
  get_at (fst (step q st (mkSop sc ps (Seal b)))) ps = Some (seal_rec b tgt) /\
  every (sealed_is b) (seal_rec b tgt).
Proof.
  intros. destruct tgt as [|tid tk pa pt fl its]; [discriminate|].
  assert (E : fst (step q st (mkSop sc ps (Seal b))) = update_at st ps (seal_rec b)).
  { unfold step. simpl. rewrite H. simpl. apply gc_noop. apply length_update_at. }
  rewrite E. split; auto. split.
  - apply get_at_update_at_same; auto.
  - apply seal_rec_deep.
Qed.

(* JsonProofs.v — proofs about Model/Json.v: the object-form round trip. *)
From PG Require Import Common.Tactics Model.Json.
From Coq Require Import NArith.
Local Open Scope Z_scope.

(* --- induction over values (nested lists) -------------------------------------------------- *)
Section PvInd.
  Variable P : pv -> Prop.
  Hypothesis HNone : P PNone.
  Hypothesis HBool : forall b, P (PBool b).
  Hypothesis HInt : forall z, P (PInt z).
  Hypothesis HFloat : forall f, P (PFloat f).
  Hypothesis HStr : forall s, P (PStr s).
  Hypothesis HList : forall l, Forall P l -> P (PList l).
  Hypothesis HTuple : forall l, Forall P l -> P (PTuple l).
  Hypothesis HDict : forall d, Forall (fun kv => P (snd kv)) d -> P (PDict d).
  Hypothesis HObj : forall c fs, Forall (fun kv => P (snd kv)) fs -> P (PObj c fs).
  Fixpoint pv_ind' (v : pv) : P v :=
    match v with
    | PNone => HNone
    | PBool b => HBool b
    | PInt z => HInt z
    | PFloat f => HFloat f
    | PStr s => HStr s
    | PList l => HList l ((fix go (l : list pv) : Forall P l :=
                             match l with [] => Forall_nil _ | x :: r => Forall_cons _ (pv_ind' x) (go r) end) l)
    | PTuple l => HTuple l ((fix go (l : list pv) : Forall P l :=
                               match l with [] => Forall_nil _ | x :: r => Forall_cons _ (pv_ind' x) (go r) end) l)
    | PDict d => HDict d ((fix go (d : list (key * pv)) : Forall (fun kv => P (snd kv)) d :=
                             match d with [] => Forall_nil _ | kv :: r => Forall_cons _ (pv_ind' (snd kv)) (go r) end) d)
    | PObj c fs => HObj c fs ((fix go (d : list (str * pv)) : Forall (fun kv => P (snd kv)) d :=
                                 match d with [] => Forall_nil _ | kv :: r => Forall_cons _ (pv_ind' (snd kv)) (go r) end) fs)
    end.
End PvInd.

Section JvInd.
  Variable P : jv -> Prop.
  Hypothesis HNull : P JNull.
  Hypothesis HBool : forall b, P (JBool b).
  Hypothesis HInt : forall z, P (JInt z).
  Hypothesis HFloat : forall f, P (JFloat f).
  Hypothesis HStr : forall s, P (JStr s).
  Hypothesis HList : forall l, Forall P l -> P (JList l).
  Hypothesis HDict : forall d, Forall (fun kv => P (snd kv)) d -> P (JDict d).
  Fixpoint jv_ind' (v : jv) : P v :=
    match v with
    | JNull => HNull
    | JBool b => HBool b
    | JInt z => HInt z
    | JFloat f => HFloat f
    | JStr s => HStr s
    | JList l => HList l ((fix go (l : list jv) : Forall P l :=
                             match l with [] => Forall_nil _ | x :: r => Forall_cons _ (jv_ind' x) (go r) end) l)
    | JDict d => HDict d ((fix go (d : list (key * jv)) : Forall (fun kv => P (snd kv)) d :=
                             match d with [] => Forall_nil _ | kv :: r => Forall_cons _ (jv_ind' (snd kv)) (go r) end) d)
    end.
End JvInd.

(* --- strings and keys ------------------------------------------------------------------------ *)
Lemma str_eqb_eq : forall a b, str_eqb a b = true <-> a = b.
Proof.
  induction a as [|x a IH]; destruct b as [|y b]; simpl; split; intro H; try reflexivity; try discriminate.
  - apply andb_true_iff in H. destruct H as [H1 H2]. apply N.eqb_eq in H1. apply IH in H2. congruence.
  - inv H. rewrite N.eqb_refl. simpl. apply IH. reflexivity.
Qed.
Lemma str_eqb_refl : forall a, str_eqb a a = true.
Proof. intro a. apply str_eqb_eq. reflexivity. Qed.
Lemma str_eqb_neq : forall a b, str_eqb a b = false <-> a <> b.
Proof.
  intros a b. split; intro H.
  - intro E. apply str_eqb_eq in E. congruence.
  - destruct (str_eqb a b) eqn:E; [|reflexivity]. apply str_eqb_eq in E. contradiction.
Qed.
Lemma str_eqb_sym : forall a b, str_eqb a b = str_eqb b a.
Proof.
  intros a b. destruct (str_eqb a b) eqn:E.
  - apply str_eqb_eq in E. subst. symmetry. apply str_eqb_refl.
  - symmetry. apply str_eqb_neq. apply str_eqb_neq in E. congruence.
Qed.

Lemma smem_In : forall s l, smem s l = true <-> In s l.
Proof.
  induction l as [|x l IH]; simpl; split; intro H; try discriminate; try contradiction.
  - apply orb_true_iff in H. destruct H as [H|H]; [left; apply str_eqb_eq in H; congruence | right; apply IH; exact H].
  - apply orb_true_iff. destruct H as [H|H]; [left; subst; apply str_eqb_refl | right; apply IH; exact H].
Qed.
Lemma strs_eqb_eq : forall a b, strs_eqb a b = true -> a = b.
Proof.
  induction a as [|x a IH]; destruct b as [|y b]; simpl; intro H; try reflexivity; try discriminate.
  apply andb_true_iff in H. destruct H as [H1 H2]. apply str_eqb_eq in H1. apply IH in H2. congruence.
Qed.

(* --- mapM -------------------------------------------------------------------------------------- *)
Lemma mapM_map : forall {A B C} (f : B -> result C) (g : A -> B) l, mapM f (map g l) = mapM (fun x => f (g x)) l.
Proof. induction l as [|x l IH]; simpl; [reflexivity|]. rewrite IH. reflexivity. Qed.
Lemma mapM_ok : forall {A B} (f : A -> result B) (g : A -> B) l,
  Forall (fun x => f x = Ok (g x)) l -> mapM f l = Ok (map g l).
Proof.
  induction 1 as [|x l Hx Hl IH]; simpl; [reflexivity|]. rewrite Hx, IH. reflexivity.
Qed.
Lemma mapM_ext_in : forall {A B} (f g : A -> result B) l, (forall x, In x l -> f x = g x) -> mapM f l = mapM g l.
Proof.
  induction l as [|x l IH]; simpl; intro H; [reflexivity|].
  rewrite (H x (or_introl eq_refl)), IH; [reflexivity|]. intros; apply H; right; assumption.
Qed.

Lemma lookup_map_values : forall {V W} (h : V -> W) k (d : list (key * V)),
  lookup k (map (fun kv => (fst kv, h (snd kv))) d) = option_map h (lookup k d).
Proof.
  induction d as [|[k' v] d IH]; simpl; [reflexivity|]. destruct (key_eqb k k'); [reflexivity | exact IH].
Qed.
Lemma has_key_false_lookup : forall {V} k (d : list (key * V)), has_key k d = false -> lookup k d = None.
Proof. unfold has_key. intros V k d H. destruct (lookup k d); [discriminate | reflexivity]. Qed.

Lemma somes_map_Some : forall {A} (l : list A), somes (map Some l) = l.
Proof. induction l; simpl; congruence. Qed.

(* --- the class table ------------------------------------------------------------------------------ *)
Lemma ct_ok_lookup : forall ct c fs, ct_ok ct = true -> slookup c ct = Some fs ->
  special_typename c = false /\ smem s_type fs = false /\ str_nodup fs = true.
Proof.
  induction ct as [|[c' fs'] ct IH]; simpl; intros c fs Hok Hl; [discriminate|].
  repeat (apply andb_true_iff in Hok; destruct Hok as [Hok ?]).
  destruct (str_eqb c c') eqn:E.
  - apply str_eqb_eq in E. subst. inv Hl.
    repeat split; [apply negb_true_iff; assumption | apply negb_true_iff; assumption | assumption].
  - eapply IH; eassumption.
Qed.

Lemma is_type_key_KS : forall s, is_type_key (KS s) = str_eqb s s_type.
Proof. reflexivity. Qed.

(* keyword arguments in schema order *)
Lemma collect_skip : forall rest f v kvs, smem f rest = false ->
  collect rest ((KS f, v) :: kvs) = collect rest kvs.
Proof.
  induction rest as [|g rest IH]; simpl; intros f v kvs H; [reflexivity|].
  apply orb_false_iff in H. destruct H as [H1 H2].
  rewrite str_eqb_sym in H1. rewrite H1. rewrite IH by assumption. reflexivity.
Qed.
Lemma collect_self : forall (fs : list (str * pv)), str_nodup (map fst fs) = true ->
  collect (map fst fs) (map (fun kv => (KS (fst kv), snd kv)) fs) = Some fs.
Proof.
  induction fs as [|[f v] fs IH]; simpl; intro H; [reflexivity|].
  apply andb_true_iff in H. destruct H as [H1 H2]. apply negb_true_iff in H1.
  rewrite str_eqb_refl. rewrite collect_skip by assumption. rewrite IH by assumption. reflexivity.
Qed.

(* --- object form ------------------------------------------------------------------------------------ *)
Lemma mapM_ok_in : forall {A B} (f : A -> result B) (g : A -> B) l,
  (forall x, In x l -> f x = Ok (g x)) -> mapM f l = Ok (map g l).
Proof. intros. apply mapM_ok. apply Forall_forall. assumption. Qed.

Lemma to_json_is_str : forall v m, to_json v = JStr m -> v = PStr m.
Proof. destruct v; simpl; intros m H; try discriminate; congruence. Qed.

Section ObjectForm.
  Variable q : quirks.
  Variable ct : classtab.
  Hypothesis Hct : ct_ok ct = true.

  Lemma resolve_to_json : forall v, ser_ok ct v = true -> resolve ct (to_json v) = Ok tt.
  Proof.
    induction v as [| | | | |l IH|l IH|d IH|c fs IH] using pv_ind'; simpl; intro H; try reflexivity;
      rewrite Forall_forall in IH.
    - apply andb_true_iff in H. destruct H as [_ H]. rewrite forallb_forall in H.
      rewrite mapM_map. rewrite (mapM_ok_in _ (fun _ => tt)); [reflexivity|]. auto.
    - rewrite forallb_forall in H.
      rewrite mapM_map. rewrite (mapM_ok_in _ (fun _ => tt)); [reflexivity|]. auto.
    - apply andb_true_iff in H. destruct H as [H12 H3]. apply andb_true_iff in H12. destruct H12 as [H1 H2].
      apply negb_true_iff in H1. rewrite lookup_map_values. rewrite (has_key_false_lookup _ _ H1). simpl.
      rewrite forallb_forall in H3.
      rewrite mapM_map. simpl. rewrite (mapM_ok_in _ (fun _ => tt)); [reflexivity|]. auto.
    - apply andb_true_iff in H. destruct H as [H1 H2].
      destruct (slookup c ct) as [fields|] eqn:El; [|discriminate].
      destruct (ct_ok_lookup _ _ _ Hct El) as [Hs _]. try rewrite str_eqb_refl; simpl. rewrite Hs.
      rewrite forallb_forall in H2.
      rewrite mapM_map. simpl. rewrite (mapM_ok_in _ (fun _ => tt)); [reflexivity|]. auto.
  Qed.

  (* the hypothesis about the open finding: either the flag is off or the value has no () *)
  Definition tuple_fine (v : pv) : Prop := q_empty_tuple q = false \/ no_empty_tuple v = true.

  Lemma tuple_fine_in : forall (l : list pv) x,
    (q_empty_tuple q = false \/ forallb no_empty_tuple l = true) -> In x l -> tuple_fine x.
  Proof.
    intros l x [H|H] Hx; [left; assumption | right]. rewrite forallb_forall in H. auto.
  Qed.
  Lemma tuple_fine_in_snd : forall {K} (d : list (K * pv)) kv,
    (q_empty_tuple q = false \/ forallb (fun kv => no_empty_tuple (snd kv)) d = true) -> In kv d -> tuple_fine (snd kv).
  Proof.
    intros K d kv [H|H] Hx; [left; assumption | right]. rewrite forallb_forall in H. auto.
  Qed.

  Lemma build_all : forall l,
    (forall x, In x l -> ser_ok ct x = true -> tuple_fine x -> build q ct (to_json x) = Ok x) ->
    forallb (ser_ok ct) l = true -> (q_empty_tuple q = false \/ forallb no_empty_tuple l = true) ->
    mapM (build q ct) (map to_json l) = Ok l.
  Proof.
    intros l IH H Ht. rewrite forallb_forall in H.
    rewrite mapM_map. rewrite (mapM_ok_in _ (fun x => x)); [rewrite map_id; reflexivity|].
    intros x Hx. apply IH; auto. eapply tuple_fine_in; eassumption.
  Qed.

  Lemma build_to_json : forall v, ser_ok ct v = true -> tuple_fine v -> build q ct (to_json v) = Ok v.
  Proof.
    induction v as [| | | | |l IH|l IH|d IH|c fs IH] using pv_ind'; intros H Ht; try reflexivity;
      rewrite Forall_forall in IH.
    - (* list *)
      simpl in H. apply andb_true_iff in H. destruct H as [Hm H]. apply negb_true_iff in Hm.
      assert (Hall : mapM (build q ct) (map to_json l) = Ok l).
      { apply build_all; [auto | assumption | destruct Ht as [Ht|Ht]; [left|right]; assumption]. }
      change (to_json (PList l)) with (JList (map to_json l)).
      destruct l as [|x r]; [reflexivity|].
      change (map to_json (x :: r)) with (to_json x :: map to_json r) in *.
      destruct (to_json x) eqn:Ex; simpl; try (rewrite <- Ex; rewrite Hall; reflexivity);
        try (simpl in Hall; rewrite Hall; reflexivity).
      apply to_json_is_str in Ex. subst x. simpl in Hm. rewrite Hm.
      simpl in Hall. rewrite Hall. reflexivity.
    - (* tuple *)
      simpl in H.
      assert (Hall : mapM (build q ct) (map to_json l) = Ok l).
      { apply build_all; [auto | assumption | destruct Ht as [Ht|Ht]; [left; assumption | right]].
        simpl in Ht. destruct l; [discriminate | assumption]. }
      simpl. destruct l as [|x r].
      + simpl. destruct Ht as [Ht|Ht]; [rewrite Ht; reflexivity | discriminate].
      + change (map to_json (x :: r)) with (to_json x :: map to_json r) in *.
        rewrite Hall. reflexivity.
    - (* dict *)
      simpl in H. apply andb_true_iff in H. destruct H as [H12 H3]. apply andb_true_iff in H12. destruct H12 as [H1 H2].
      apply negb_true_iff in H1. rewrite forallb_forall in H3.
      simpl. rewrite lookup_map_values. rewrite (has_key_false_lookup _ _ H1). simpl.
      rewrite mapM_map. simpl.
      rewrite (mapM_ok_in _ Some); [simpl; rewrite somes_map_Some; reflexivity|].
      intros [k x] Hx. simpl. pose proof (IH _ Hx) as E. simpl in E. rewrite E; [reflexivity | apply (H3 _ Hx) |].
      apply (tuple_fine_in_snd d (k, x)); [|assumption]. destruct Ht as [Ht|Ht]; [left|right]; assumption.
    - (* object *)
      simpl in H. apply andb_true_iff in H. destruct H as [H1 H2].
      destruct (slookup c ct) as [fields|] eqn:El; [|discriminate].
      destruct (ct_ok_lookup _ _ _ Hct El) as [Hs [Hty Hnd]].
      apply strs_eqb_eq in H1. subst fields. rewrite forallb_forall in H2.
      simpl. rewrite Hs. rewrite El.
      rewrite mapM_map. simpl.
      rewrite (mapM_ok_in _ (fun kv => Some (KS (fst kv), snd kv))).
      + simpl. rewrite <- (map_map (fun kv => (KS (fst kv), snd kv)) Some). rewrite somes_map_Some.
        unfold mk_obj.
        replace (forallb (fun kv : key * pv => is_str_key (fst kv)) (map (fun kv : str * pv => (KS (fst kv), snd kv)) fs)) with true.
        2:{ symmetry. apply forallb_forall. intros kv Hkv. apply in_map_iff in Hkv. destruct Hkv as [y [Hy _]]. subst. reflexivity. }
        replace (forallb (fun kv : key * pv => match fst kv with KS s => smem s (map fst fs) | _ => false end)
                   (map (fun kv : str * pv => (KS (fst kv), snd kv)) fs)) with true.
        2:{ symmetry. apply forallb_forall. intros kv Hkv. apply in_map_iff in Hkv. destruct Hkv as [y [Hy Hin]]. subst. simpl.
            apply smem_In. apply in_map. assumption. }
        simpl. rewrite collect_self by assumption. reflexivity.
      + intros [f x] Hx. simpl.
        assert (Hne : str_eqb f s_type = false).
        { apply str_eqb_neq. intro E. subst f. apply (in_map fst) in Hx. simpl in Hx. apply smem_In in Hx. congruence. }
        rewrite Hne. simpl. pose proof (IH _ Hx) as E. simpl in E. rewrite E; [reflexivity | apply (H2 _ Hx) |].
        apply (tuple_fine_in_snd fs (f, x)); [|assumption]. destruct Ht as [Ht|Ht]; [left|right]; assumption.
  Qed.

  Theorem json_roundtrip_general : forall v, ser_ok ct v = true -> tuple_fine v -> from_json q ct (to_json v) = Ok v.
  Proof.
    intros v H Ht. unfold from_json. rewrite resolve_to_json by assumption. simpl. apply build_to_json; assumption.
  Qed.
End ObjectForm.

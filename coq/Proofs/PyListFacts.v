(* PyListFacts.v -- facts about the reference semantics of list (sanity of the specification itself and the algebra the
   refinement proofs need): slice.indices stays in bounds, ranges are duplicate-free, consecutive replacements /
   insertions / deletions are splices. *)
From Coq Require Import ZArith List Bool Lia.
Import ListNotations.
From PG Require Import Common.Tactics Model.PyList.
Local Open Scope Z_scope.

Lemma replace_nth_length : forall A (l : list A) p x, length (replace_nth p x l) = length l.
Proof. induction l; destruct p; simpl; intros; auto. Qed.
Lemma replace_nth_comm : forall A (l : list A) i j x y, i <> j -> replace_nth i x (replace_nth j y l) = replace_nth j y (replace_nth i x l).
Proof. induction l; destruct i, j; simpl; intros; auto; try congruence. f_equal; auto. Qed.

(* --- ranges ------------------------------------------------------------------------------------------------------------ *)
Lemma range_from_in : forall count s st i, In i (range_from s st count) -> exists k, 0 <= k < Z.of_nat count /\ i = s + k * st.
Proof.
  induction count; simpl; intros; try contradiction. destruct H.
  - exists 0. lia.
  - apply IHcount in H. destruct H as (k & B & E). exists (k + 1). lia.
Qed.
Lemma range_from_length : forall count s st, length (range_from s st count) = count.
Proof. induction count; simpl; intros; auto. Qed.
Lemma range_from_nodup : forall count s st, st <> 0 -> NoDup (range_from s st count).
Proof.
  induction count; simpl; intros; constructor; auto.
  intro I. apply range_from_in in I. destruct I as (k & B & E). nia.
Qed.
Lemma slice_len_nonneg : forall s e st, 0 <= slice_len s e st.
Proof.
  intros; unfold slice_len. destruct (st <? 0) eqn:?.
  - destruct (e <? s) eqn:?; try lia. assert (0 <= (s - e - 1) / - st) by (apply Z.div_pos; lia). lia.
  - destruct (s <? e) eqn:?; try lia. destruct (Z.eq_dec st 0). subst; rewrite Zdiv_0_r; lia.
    assert (0 <= (e - s - 1) / st) by (apply Z.div_pos; lia). lia.
Qed.

(* slice(a, b, c).indices(n) normalises into the list: every position of the slice exists *)
Lemma slice_indices_bounds : forall a b c n s e st, 0 <= n -> slice_indices a b c n = Some (s, e, st) ->
  st <> 0 /\ (0 < st -> 0 <= s <= n /\ 0 <= e <= n) /\ (st < 0 -> -1 <= s <= n - 1 /\ -1 <= e <= n - 1).
Proof.
  intros a b c n s e st N H. unfold slice_indices in H.
  set (step := match c with Some x => x | None => 1 end) in *.
  destruct (step =? 0) eqn:Z; try discriminate. inv H.
  split; [lia|]. unfold slice_adjust.
  split; intros; destruct a, b; repeat match goal with |- context [if ?x then _ else _] => destruct x eqn:? end; lia.
Qed.
Lemma slice_range_bounds : forall a b c n s e st, 0 <= n -> slice_indices a b c n = Some (s, e, st) ->
  Forall (fun i => 0 <= i < n) (slice_range s e st).
Proof.
  intros a b c n s e st N H. destruct (slice_indices_bounds _ _ _ _ _ _ _ N H) as (NZ & P & M).
  apply Forall_forall. intros i I. unfold slice_range in I. apply range_from_in in I. destruct I as (k & B & E).
  pose proof (slice_len_nonneg s e st) as LN. rewrite Z2Nat.id in B by auto.
  unfold slice_len in B.
  destruct (st <? 0) eqn:S.
  - destruct (M ltac:(lia)) as [Bs Be]. destruct (e <? s) eqn:ES; try lia.
    assert (D : - st * ((s - e - 1) / - st) <= s - e - 1) by (apply Z.mul_div_le; lia). nia.
  - destruct (P ltac:(lia)) as [Bs Be]. destruct (s <? e) eqn:ES; try lia.
    assert (D : st * ((e - s - 1) / st) <= e - s - 1) by (apply Z.mul_div_le; lia). nia.
Qed.
Lemma slice_range_nodup : forall s e st, st <> 0 -> NoDup (slice_range s e st).
Proof. intros; apply range_from_nodup; auto. Qed.

(* --- a batch of replacements at distinct positions does not depend on the order ------------------------------------------------- *)
Section Batch.
  Context {A : Type}.
  Definition put (acc : list A) (iv : Z * A) : list A := replace_nth (Z.to_nat (fst iv)) (snd iv) acc.
  Lemma put_comm : forall acc x y, 0 <= fst x -> 0 <= fst y -> fst x <> fst y -> put (put acc x) y = put (put acc y) x.
  Proof. intros; unfold put. apply replace_nth_comm. lia. Qed.
  Lemma fold_put_push : forall l acc x, 0 <= fst x -> Forall (fun y => 0 <= fst y /\ fst y <> fst x) l ->
    put (fold_left put l acc) x = fold_left put l (put acc x).
  Proof.
    induction l; simpl; intros; auto. inv H0. destruct H3. rewrite IHl; auto. f_equal. apply put_comm; auto.
  Qed.
  Lemma fold_put_rev : forall l acc, Forall (fun y => 0 <= fst y) l -> NoDup (map fst l) ->
    fold_left put (rev l) acc = fold_left put l acc.
  Proof.
    induction l; simpl; intros; auto. inv H. inv H0.
    rewrite fold_left_app. simpl. rewrite IHl; auto. apply fold_put_push; auto.
    apply Forall_forall. intros y I. rewrite Forall_forall in H4. split; auto.
    intro E. apply H2. rewrite <- E. apply in_map; auto.
  Qed.
End Batch.
Lemma zip_fst_incl : forall A B (a : list A) (b : list B) x, In x (map fst (zip a b)) -> In x a.
Proof. induction a; destruct b; simpl; intros; try contradiction. destruct H; auto. right; eauto. Qed.
Lemma zip_fst_nodup : forall A B (a : list A) (b : list B), NoDup a -> NoDup (map fst (zip a b)).
Proof.
  induction a; destruct b; simpl; intros; try constructor. inv H.
  - intro I. apply zip_fst_incl in I. auto.
  - inv H; auto.
Qed.
Lemma zip_map_r : forall A B C (f : B -> C) (a : list A) (b : list B), zip a (map f b) = map (fun x => (fst x, f (snd x))) (zip a b).
Proof. induction a; destruct b; simpl; auto. f_equal; auto. Qed.
Lemma zip_forall_fst : forall A B (P : A -> Prop) (a : list A) (b : list B), Forall P a -> Forall (fun x => P (fst x)) (zip a b).
Proof. induction a; destruct b; simpl; intros; auto. inv H. constructor; auto. Qed.

(* --- positions filtered by a predicate ------------------------------------------------------------------------------------------ *)
Lemma filter_pos_map : forall A B (g : A -> B) f l i, map g (filter_pos f i l) = filter_pos f i (map g l).
Proof. induction l; simpl; intros; auto. destruct (f i); simpl; rewrite IHl; auto. Qed.
Lemma filter_pos_none : forall A f (l : list A) i, filter_pos f i l = [] -> filter_pos (fun j => negb (f j)) i l = l.
Proof. induction l; simpl; intros; auto. destruct (f i); try discriminate. simpl. f_equal; auto. Qed.
Lemma filter_pos_forall : forall A (P : A -> Prop) f l i, Forall P l -> Forall P (filter_pos f i l).
Proof. induction l; simpl; intros; auto. inv H. destruct (f i); auto. Qed.
Lemma filter_pos_ext : forall A f g (l : list A) i, (forall j, i <= j -> f j = g j) -> filter_pos f i l = filter_pos g i l.
Proof. induction l; simpl; intros; auto. rewrite (H i) by lia. rewrite (IHl (i + 1)); auto. intros; apply H; lia. Qed.
(* deleting the positions lo .. hi-1 *)
Lemma filter_pos_range : forall A (l : list A) i lo hi, i <= lo <= hi ->
  filter_pos (fun j => negb ((lo <=? j) && (j <? hi))) i l = firstn (Z.to_nat (lo - i)) l ++ skipn (Z.to_nat (hi - i)) l.
Proof.
  induction l; simpl; intros.
  - rewrite firstn_nil, skipn_nil. reflexivity.
  - destruct (Z.eq_dec lo i).
    + subst lo. replace (Z.to_nat (i - i)) with O by lia. simpl.
      destruct (Z.eq_dec hi i).
      * subst hi. replace (Z.to_nat (i - i)) with O by lia. simpl.
        replace ((i <=? i) && (i <? i)) with false by lia. simpl. f_equal.
        rewrite (filter_pos_ext _ _ (fun _ => true)). 2:{ intros; lia. }
        clear. generalize (i + 1). induction l; simpl; intros; auto. f_equal; auto.
      * replace ((i <=? i) && (i <? hi)) with true by lia. simpl.
        replace (Z.to_nat (hi - i)) with (S (Z.to_nat (hi - (i + 1)))) by lia. simpl.
        rewrite (filter_pos_ext _ _ (fun j => negb ((i + 1 <=? j) && (j <? hi)))). 2:{ intros; f_equal; f_equal; lia. }
        rewrite IHl by lia. replace (Z.to_nat (i + 1 - (i + 1))) with O by lia. reflexivity.
    + replace ((lo <=? i) && (i <? hi)) with false by lia. simpl.
      replace (Z.to_nat (lo - i)) with (S (Z.to_nat (lo - (i + 1)))) by lia.
      replace (Z.to_nat (hi - i)) with (S (Z.to_nat (hi - (i + 1)))) by lia. simpl. f_equal. apply IHl. lia.
Qed.

(* --- consecutive replacements and insertions are a splice ------------------------------------------------------------------------- *)
Lemma replace_nth_app_r : forall A (a b : list A) p x, (length a <= p)%nat -> replace_nth p x (a ++ b) = a ++ replace_nth (p - length a) x b.
Proof.
  induction a; simpl; intros. rewrite Nat.sub_0_r; auto.
  destruct p; try lia. simpl. f_equal. apply IHa. lia.
Qed.
Lemma replace_head_skipn : forall A (l : list A) p x, (p < length l)%nat -> replace_nth O x (skipn p l) = x :: skipn (S p) l.
Proof.
  induction l; destruct p; simpl; intros; try lia; auto. apply IHl. lia.
Qed.

(* --- l[s:e] = vs done one write after the other (replace while inside the slice, insert afterwards) ------------------------------------ *)
Fixpoint splice_writes {A} (L : list A) (s e : Z) (vs : list A) : list A :=
  match vs with
  | [] => L
  | v :: vs' =>
      if s >=? e then splice_writes (insert L s v) (s + 1) e vs'
      else splice_writes (replace_nth (Z.to_nat s) v L) (s + 1) e vs'
  end.
Lemma insert_in_range : forall A (L : list A) s v, 0 <= s <= len L ->
  insert L s v = firstn (Z.to_nat s) L ++ v :: skipn (Z.to_nat s) L.
Proof.
  intros. unfold insert, insert_pos. replace (s <? 0) with false by lia. rewrite Z.min_l by lia. reflexivity.
Qed.
Lemma firstn_succ_mid : forall A p (L : list A) v R, (p <= length L)%nat -> firstn (S p) (firstn p L ++ v :: R) = firstn p L ++ [v].
Proof.
  intros. rewrite firstn_app. rewrite firstn_length_le by auto.
  rewrite firstn_all2 by (rewrite firstn_length_le; auto). replace (S p - p)%nat with 1%nat by lia. reflexivity.
Qed.
Lemma skipn_succ_mid : forall A p (L : list A) v R, (p <= length L)%nat -> skipn (S p) (firstn p L ++ v :: R) = R.
Proof.
  intros. rewrite skipn_app. rewrite firstn_length_le by auto.
  rewrite skipn_all2 by (rewrite firstn_length_le; auto). replace (S p - p)%nat with 1%nat by lia. reflexivity.
Qed.
Lemma splice_insert_phase : forall A (vs L : list A) s e, 0 <= s <= len L -> e <= s ->
  splice_writes L s e vs = firstn (Z.to_nat s) L ++ vs ++ skipn (Z.to_nat s) L.
Proof.
  induction vs as [|v vs IH]; intros; simpl.
  - rewrite firstn_skipn. reflexivity.
  - replace (s >=? e) with true by lia. rewrite insert_in_range by auto.
    set (p := Z.to_nat s). assert (P : (p <= length L)%nat) by (unfold p, len in *; lia).
    rewrite IH.
    + replace (Z.to_nat (s + 1)) with (S p) by (unfold p; lia).
      rewrite firstn_succ_mid, skipn_succ_mid by auto. rewrite <- app_assoc. reflexivity.
    + unfold len in *. rewrite app_length. simpl. rewrite firstn_length_le by auto. rewrite skipn_length. lia.
    + lia.
Qed.
Lemma firstn_replace_nth : forall A (L : list A) p v, (p < length L)%nat -> firstn (S p) (replace_nth p v L) = firstn p L ++ [v].
Proof. induction L; destruct p; simpl; intros; try lia; auto. f_equal. apply IHL. lia. Qed.
Lemma skipn_replace_nth : forall A (L : list A) p k v, (p < k)%nat -> skipn k (replace_nth p v L) = skipn k L.
Proof. induction L; destruct p, k; simpl; intros; try lia; auto. apply IHL. lia. Qed.
Lemma splice_replace_phase : forall A (vs L : list A) s e, 0 <= s <= e -> e <= len L ->
  splice_writes L s e vs = firstn (Z.to_nat s) L ++ vs ++ skipn (Z.to_nat (Z.min (s + len vs) e)) L.
Proof.
  induction vs as [|v vs IH]; intros; simpl.
  - unfold len; simpl. rewrite Z.add_0_r, Z.min_l by lia. rewrite firstn_skipn. reflexivity.
  - destruct (s >=? e) eqn:G.
    + assert (s = e) by lia. subst e.
      change (if s >=? s then _ else _) with (splice_writes L s s (v :: vs)) || idtac.
      pose proof (splice_insert_phase A (v :: vs) L s s ltac:(lia) ltac:(lia)) as SI. simpl in SI. rewrite G in SI. rewrite SI.
      rewrite Z.min_r by (unfold len; lia). reflexivity.
    + set (p := Z.to_nat s). assert (P : (p < length L)%nat) by (unfold p, len in *; lia).
      rewrite IH; try lia.
      2:{ unfold len in *. rewrite replace_nth_length. lia. }
      replace (Z.to_nat (s + 1)) with (S p) by (unfold p; lia).
      rewrite firstn_replace_nth by auto.
      rewrite skipn_replace_nth. 2:{ unfold p, len. simpl length. lia. }
      rewrite <- app_assoc. simpl. f_equal. f_equal. f_equal. f_equal. unfold len. simpl length. lia.
Qed.
Lemma skipn_skipn' : forall A a b (l : list A), skipn a (skipn b l) = skipn (a + b) l.
Proof.
  induction b; simpl; intros. rewrite Nat.add_0_r; auto.
  destruct l. rewrite !skipn_nil; auto. rewrite Nat.add_succ_r. simpl. apply IHb.
Qed.
(* the whole assignment: the writes, then the deletion of what is left of the slice *)
Lemma splice_then_delete : forall A (vs L : list A) s e, 0 <= s <= e -> e <= len L ->
  filter_pos (fun j => negb ((s + len vs <=? j) && (j <? e))) 0 (splice_writes L s e vs) =
  firstn (Z.to_nat s) L ++ vs ++ skipn (Z.to_nat e) L.
Proof.
  intros. rewrite splice_replace_phase by auto.
  destruct (Z_le_gt_dec e (s + len vs)).
  - rewrite Z.min_r by lia.
    rewrite (filter_pos_ext _ _ (fun _ => true)). 2:{ intros; lia. }
    generalize (firstn (Z.to_nat s) L ++ vs ++ skipn (Z.to_nat e) L). generalize 0.
    intros z l0; revert z; induction l0; simpl; intros; auto. f_equal; auto.
  - rewrite Z.min_l by lia. rewrite filter_pos_range by (unfold len in *; lia).
    rewrite !Z.sub_0_r.
    set (p := Z.to_nat s). assert (P : (p <= length L)%nat) by (unfold p, len in *; lia).
    assert (LN : Z.to_nat (s + len vs) = (p + length vs)%nat) by (unfold p, len; lia).
    rewrite LN.
    rewrite app_assoc. rewrite firstn_app.
    assert (LA : length (firstn p L ++ vs) = (p + length vs)%nat) by (rewrite app_length, firstn_length_le; auto).
    rewrite LA, Nat.sub_diag. simpl. rewrite app_nil_r. rewrite firstn_all2 by lia.
    rewrite skipn_app. rewrite LA. rewrite skipn_all2 by lia. simpl.
    rewrite skipn_skipn'. rewrite <- app_assoc. f_equal. f_equal. f_equal. unfold len in *. lia.
Qed.

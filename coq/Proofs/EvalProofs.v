(* Proofs about Model/EvalModel.v: a plan satisfying [shape_ok] makes evaluate() do exactly what plain execution does. *)
From PG Require Import Common.Tactics Common.Tr Gen.PermTable Model.EvalModel.
From Coq Require Import NArith.
Local Open Scope N_scope.

Lemma kinds_distinct : N.eqb k_Expr k_Assign = false.
Proof. vm_compute. reflexivity. Qed.

Lemma estep_eqb_eq a b : estep_eqb a b = true -> a = b.
Proof.
  destruct a, b; simpl; try discriminate; try reflexivity;
    intros H; apply Bool.eqb_prop in H; subst; reflexivity.
Qed.

Lemma plan_eqb_eq a : forall b, plan_eqb a b = true -> a = b.
Proof.
  induction a as [|x r IH]; intros [|y s]; simpl; try discriminate; try reflexivity.
  intros H. apply andb_true_iff in H. destruct H as [H1 H2].
  apply estep_eqb_eq in H1. apply IH in H2. subst. reflexivity.
Qed.

Lemma split_last_app p body last : split_last p = Some (body, last) -> p = body ++ [last].
Proof.
  unfold split_last. destruct (rev p) as [|l r] eqn:E; [discriminate|].
  intros [= <- <-]. rewrite <- (rev_involutive p), E. simpl. reflexivity.
Qed.

Lemma split_last_none p : split_last p = None -> p = [].
Proof.
  unfold split_last. destruct (rev p) as [|l r] eqn:E; [|discriminate].
  intros _. rewrite <- (rev_involutive p), E. reflexivity.
Qed.

Lemma plain_app a b : plain (a ++ b) = plain a ++ plain b.
Proof. unfold plain. apply flat_map_app. Qed.

Lemma effects_app a b : effects (a ++ b) = effects a ++ effects b.
Proof. unfold effects. apply filter_app. Qed.

Lemma last_store_app n a b :
  last_store n (a ++ b) = match last_store n b with Some e => Some e | None => last_store n a end.
Proof.
  induction a as [|x r IH]; simpl.
  - destruct (last_store n b); reflexivity.
  - rewrite IH. destruct (last_store n b); reflexivity.
Qed.

Definition has_name (n : N) (ts : list target) : bool :=
  existsb (fun t => match t with TName m => N.eqb m n | _ => false end) ts.

Lemma last_store_stores n e ts :
  last_store n (map (store e) ts) = if has_name n ts then Some e else None.
Proof.
  induction ts as [|t r IH]; simpl; [reflexivity|].
  rewrite IH. destruct (has_name n r) eqn:Hr.
  - rewrite orb_true_r. reflexivity.
  - rewrite orb_false_r. destruct t as [m|c]; simpl; [destruct (N.eqb m n); reflexivity | reflexivity].
Qed.

Lemma last_store_names n e ns :
  last_store n (map (fun m => EvStoreName m e) ns) = if existsb (fun m => N.eqb m n) ns then Some e else None.
Proof.
  induction ns as [|m r IH]; simpl; [reflexivity|].
  rewrite IH. destruct (existsb (fun m0 => N.eqb m0 n) r); [rewrite orb_true_r; reflexivity|].
  rewrite orb_false_r. destruct (N.eqb m n); reflexivity.
Qed.

Lemma name_targets_has n ts :
  existsb (fun m => N.eqb m n) (flat_map (fun t => match t with TName k => [k] | _ => [] end) ts) = has_name n ts.
Proof.
  induction ts as [|t r IH]; simpl; [reflexivity|].
  destruct t as [m|c]; simpl; rewrite IH; reflexivity.
Qed.

Lemma effects_no_complex e ts :
  existsb (fun t => negb (is_name t)) ts = false -> effects (map (store e) ts) = [].
Proof.
  induction ts as [|t r IH]; simpl; [reflexivity|].
  intros H. apply orb_false_iff in H. destruct H as [H1 H2].
  destruct t as [m|c]; simpl in *; [apply IH; exact H2 | discriminate].
Qed.

Lemma effects_cons_name n e l : effects (EvStoreName n e :: l) = effects l.
Proof. reflexivity. Qed.
Lemma effects_cons_expr e l : effects (EvExpr e :: l) = EvExpr e :: effects l.
Proof. reflexivity. Qed.

Lemma effects_names e ns : effects (map (fun m => EvStoreName m e) ns) = [].
Proof. induction ns as [|m r IH]; simpl; [reflexivity | exact IH]. Qed.

(* what evaluate() does on the last statement when the plan is the good one *)
Definition good_tail (last : stmt) (e : N) : list ev :=
  [EvExpr e]
  ++ (EvStoreName result_name e ::
      map (fun n => EvStoreName n e) (if is_assign last && (false || negb (has_complex last)) then name_targets last else []))
  ++ (if is_assign last && has_complex last then map (store e) (s_targets last) else []) .

Lemma shape_ok_parts sh : shape_ok sh = true ->
  forallb (fun k => N.eqb k k_Expr || N.eqb k k_Assign) (sh_kinds sh) = true /\
  sh_popped sh = [ExecBody; EvalLast; BindResultNames false; ExecComplexAssign true] /\
  sh_other sh = [ExecBody; BindResultLastGlobal].
Proof.
  unfold shape_ok. intros H. apply andb_true_iff in H. destruct H as [H H3].
  apply andb_true_iff in H. destruct H as [H1 H2].
  apply plan_eqb_eq in H2. apply plan_eqb_eq in H3. auto.
Qed.

Lemma evaluate_events_unfold sh p body last :
  shape_ok sh = true -> split_last p = Some (body, last) ->
  evaluate_events sh p =
    match s_value last with
    | Some e => if existsb (N.eqb (s_kind last)) (sh_kinds sh) then plain body ++ good_tail last e else plain p
    | None => plain p
    end.
Proof.
  intros Hok Hs. apply shape_ok_parts in Hok. destruct Hok as [_ [Hp Ho]].
  unfold evaluate_events. rewrite Hs, Hp, Ho. unfold good_tail.
  destruct (s_value last) as [e|]; [destruct (existsb (N.eqb (s_kind last)) (sh_kinds sh))|];
    cbn [flat_map run_step app]; rewrite ?app_nil_r; try reflexivity.
Qed.

Lemma popped_kind sh last :
  shape_ok sh = true -> existsb (N.eqb (s_kind last)) (sh_kinds sh) = true -> is_expr last = true \/ is_assign last = true.
Proof.
  intros Hok Hk. apply shape_ok_parts in Hok. destruct Hok as [Hks _].
  apply existsb_exists in Hk. destruct Hk as [k [Hin Heq]]. apply N.eqb_eq in Heq.
  rewrite forallb_forall in Hks. specialize (Hks k Hin). apply orb_true_iff in Hks.
  unfold is_expr, is_assign. rewrite Heq. exact Hks.
Qed.

Lemma expr_not_assign s : is_expr s = true -> is_assign s = false.
Proof.
  unfold is_expr, is_assign. intros H. apply N.eqb_eq in H. rewrite H. exact kinds_distinct.
Qed.

(* ---- the program's own events ---------------------------------------------------------------------------------- *)
Definition targets_wf (ts : list target) : bool :=
  forallb (fun t => match t with TName n => negb (N.eqb n result_name) | _ => true end) ts.

Lemma stmt_wf_targets s : stmt_wf s = true -> targets_wf (s_targets s) = true.
Proof. unfold stmt_wf, targets_wf. intros H. apply andb_true_iff in H. tauto. Qed.

Lemma program_events_app a b : program_events (a ++ b) = program_events a ++ program_events b.
Proof. unfold program_events. apply filter_app. Qed.

Lemma program_events_stores e ts : targets_wf ts = true -> program_events (map (store e) ts) = map (store e) ts.
Proof.
  unfold program_events, targets_wf. induction ts as [|t r IH]; simpl; [reflexivity|].
  intros H. apply andb_true_iff in H. destruct H as [H1 H2].
  destruct t as [m|c]; cbn [store no_result]; [rewrite H1|]; rewrite (IH H2); reflexivity.
Qed.

Lemma stores_all_names e ts : existsb (fun t => negb (is_name t)) ts = false ->
  map (fun n => EvStoreName n e) (flat_map (fun t => match t with TName k => [k] | _ => [] end) ts) = map (store e) ts.
Proof.
  induction ts as [|t r IH]; simpl; [reflexivity|].
  intros H. apply orb_false_iff in H. destruct H as [H1 H2].
  destruct t as [m|c]; simpl in *; [rewrite (IH H2); reflexivity | discriminate].
Qed.

Lemma program_events_plain_stmt s : stmt_wf s = true -> program_events (plain_stmt s) = plain_stmt s.
Proof.
  intros H. unfold plain_stmt. destruct (s_value s) as [e|]; [|reflexivity].
  destruct (is_expr s); [reflexivity|]. destruct (is_assign s); [|reflexivity].
  change (EvExpr e :: map (store e) (s_targets s)) with ([EvExpr e] ++ map (store e) (s_targets s)).
  rewrite program_events_app, (program_events_stores e _ (stmt_wf_targets s H)). reflexivity.
Qed.

Lemma program_events_plain p : prog_wf p = true -> program_events (plain p) = plain p.
Proof.
  unfold prog_wf, plain. induction p as [|s r IH]; simpl; [reflexivity|].
  intros H. apply andb_true_iff in H. destruct H as [H1 H2].
  rewrite program_events_app, (program_events_plain_stmt s H1), (IH H2). reflexivity.
Qed.

Lemma last_wf p body last : prog_wf p = true -> p = body ++ [last] -> stmt_wf last = true.
Proof.
  intros Hwf Hp. unfold prog_wf in Hwf. rewrite forallb_forall in Hwf. apply Hwf. rewrite Hp.
  apply in_or_app. right. left. reflexivity.
Qed.

Lemma body_wf p body last : prog_wf p = true -> p = body ++ [last] -> prog_wf body = true.
Proof.
  intros Hwf Hp. unfold prog_wf in *. rewrite forallb_forall in *. intros x Hx. apply Hwf. rewrite Hp.
  apply in_or_app. left. exact Hx.
Qed.

(* 0. Apart from binding __result__, evaluate() does exactly what plain execution does: the same events (expression
      evaluations, statement executions, name bindings and stores through complex targets), each once, in the same order. *)
Theorem events_equal_plain sh p :
  shape_ok sh = true -> prog_wf p = true -> program_events (evaluate_events sh p) = plain p.
Proof.
  intros Hok Hwf. destruct (split_last p) as [[body last]|] eqn:Hs.
  - rewrite (evaluate_events_unfold sh p body last Hok Hs).
    pose proof (split_last_app _ _ _ Hs) as Hp.
    destruct (s_value last) as [e|] eqn:Hv; [|apply program_events_plain; exact Hwf].
    destruct (existsb (N.eqb (s_kind last)) (sh_kinds sh)) eqn:Hk; [|apply program_events_plain; exact Hwf].
    pose proof (last_wf p body last Hwf Hp) as Hl. pose proof (body_wf p body last Hwf Hp) as Hb.
    rewrite program_events_app, (program_events_plain body Hb). rewrite Hp, plain_app. f_equal.
    cbn [plain flat_map]. rewrite app_nil_r. unfold plain_stmt, good_tail. rewrite Hv.
    destruct (popped_kind sh last Hok Hk) as [He | Ha].
    + rewrite He, (expr_not_assign _ He). cbn. reflexivity.
    + rewrite Ha. destruct (is_expr last) eqn:He; [rewrite (expr_not_assign _ He) in Ha; discriminate|].
      cbn [andb orb]. rewrite !program_events_app.
      change (program_events [EvExpr e]) with [EvExpr e]. cbn [app]. f_equal.
      destruct (has_complex last) eqn:Hc; cbn [negb map].
      * change (program_events [EvStoreName result_name e]) with (@nil ev). cbn [app].
        apply program_events_stores. exact (stmt_wf_targets last Hl).
      * change (EvStoreName result_name e :: map (fun n => EvStoreName n e) (name_targets last))
          with ([EvStoreName result_name e] ++ map (fun n => EvStoreName n e) (name_targets last)).
        rewrite program_events_app. change (program_events [EvStoreName result_name e]) with (@nil ev).
        change (program_events []) with (@nil ev). rewrite app_nil_r. cbn [app].
        unfold name_targets. unfold has_complex in Hc. rewrite (stores_all_names e _ Hc).
        apply program_events_stores. exact (stmt_wf_targets last Hl).
  - apply split_last_none in Hs. subst. reflexivity.
Qed.

Lemma effects_program_events l : effects (program_events l) = effects l.
Proof.
  unfold effects, program_events. induction l as [|x r IH]; simpl; [reflexivity|].
  destruct x; cbn [no_result effectful]; try (cbn [filter effectful]; rewrite IH; reflexivity).
  destruct (negb (N.eqb n result_name)); cbn [filter effectful]; exact IH.
Qed.

Lemma last_store_program_events n l : n <> result_name -> last_store n (program_events l) = last_store n l.
Proof.
  intros Hn. unfold program_events. induction l as [|x r IH]; simpl; [reflexivity|].
  destruct x as [e|i|m e|t e]; cbn [no_result]; try (cbn [filter last_store]; rewrite IH; reflexivity).
  destruct (N.eqb m result_name) eqn:Em; cbn [negb filter last_store]; rewrite IH; [|reflexivity].
  apply N.eqb_eq in Em. subst m. destruct (last_store n r); [reflexivity|].
  destruct (N.eqb result_name n) eqn:E; [apply N.eqb_eq in E; congruence | reflexivity].
Qed.

(* 1. every side effect happens exactly once, in the order of plain execution *)
Lemma effects_equal sh p :
  shape_ok sh = true -> prog_wf p = true -> effects (evaluate_events sh p) = effects (plain p).
Proof.
  intros Hok Hwf. rewrite <- (effects_program_events (evaluate_events sh p)), (events_equal_plain sh p Hok Hwf). reflexivity.
Qed.

(* 2. every program name ends up bound to the same expression value *)
Lemma bindings_equal sh p n :
  shape_ok sh = true -> prog_wf p = true -> n <> result_name ->
  last_store n (evaluate_events sh p) = last_store n (plain p).
Proof.
  intros Hok Hwf Hn. rewrite <- (last_store_program_events n (evaluate_events sh p) Hn), (events_equal_plain sh p Hok Hwf).
  reflexivity.
Qed.

(* 3. the result is the value of the last statement when it is popped *)
Lemma result_is_last_value sh p body last e :
  shape_ok sh = true -> prog_wf p = true -> split_last p = Some (body, last) -> s_value last = Some e ->
  existsb (N.eqb (s_kind last)) (sh_kinds sh) = true ->
  last_store result_name (evaluate_events sh p) = Some e.
Proof.
  intros Hok Hwf Hs Hv Hk. rewrite (evaluate_events_unfold sh p body last Hok Hs), Hv, Hk.
  pose proof (split_last_app _ _ _ Hs) as Hp.
  pose proof (last_wf p body last Hwf Hp) as Hl.
  rewrite last_store_app. unfold good_tail.
  assert (forall ts, targets_wf ts = true -> has_name result_name ts = false) as Hnr.
  { unfold targets_wf. induction ts as [|t r IH]; simpl; [reflexivity|]. intros H. apply andb_true_iff in H. destruct H as [H1 H2].
    rewrite (IH H2), orb_false_r. destruct t as [m|c]; [|reflexivity]. apply negb_true_iff in H1. exact H1. }
  assert (has_name result_name (s_targets last) = false) as Hno by (apply Hnr; exact (stmt_wf_targets last Hl)).
  rewrite !last_store_app.
  set (ns := if is_assign last && (false || negb (has_complex last)) then name_targets last else []).
  change (EvStoreName result_name e :: map (fun n0 => EvStoreName n0 e) ns)
    with ([EvStoreName result_name e] ++ map (fun n0 => EvStoreName n0 e) ns).
  rewrite last_store_app, last_store_names.
  assert (existsb (fun m => N.eqb m result_name) ns = false) as Hn2.
  { unfold ns. destruct (is_assign last && (false || negb (has_complex last))); [|reflexivity].
    unfold name_targets. rewrite name_targets_has. exact Hno. }
  rewrite Hn2.
  destruct (is_assign last && has_complex last).
  - rewrite last_store_stores, Hno. cbn. reflexivity.
  - cbn. reflexivity.
Qed.

(* re-executing the right-hand side (ExecComplexAssign false) is NOT what plain execution does *)
Example reevaluating_plan_refuted :
  let sh := {| sh_kinds := [k_Expr; k_Assign]; sh_popped := [ExecBody; EvalLast; BindResultNames false; ExecComplexAssign false];
               sh_other := [ExecBody; BindResultLastGlobal] |} in
  let p := [ {| s_kind := k_Assign; s_value := Some 7; s_targets := [TComplex 3]; s_id := 1 |} ] in
  prog_wf p = true /\ effects (evaluate_events sh p) <> effects (plain p).
Proof. cbv zeta. split; [vm_compute; reflexivity | vm_compute; discriminate]. Qed.

(* binding the name targets first and then running the whole assignment (BindResultNames true, the code before the repair
   of the target order) performs the stores in another order than plain execution: `x[i] = i = 2` stores at the new i *)
Example names_first_plan_refuted :
  let sh := {| sh_kinds := [k_Expr; k_Assign]; sh_popped := [ExecBody; EvalLast; BindResultNames true; ExecComplexAssign true];
               sh_other := [ExecBody; BindResultLastGlobal] |} in
  let p := [ {| s_kind := k_Assign; s_value := Some 7; s_targets := [TComplex 3; TName 5]; s_id := 1 |} ] in
  prog_wf p = true /\ program_events (evaluate_events sh p) <> plain p.
Proof. cbv zeta. split; [vm_compute; reflexivity | vm_compute; discriminate]. Qed.

(* popping every statement that has a value attribute (the defect repaired in 41aa311) is refuted as well *)
Example popping_augassign_refuted :
  let sh := {| sh_kinds := [k_Expr; k_Assign; k_AugAssign]; sh_popped := [ExecBody; EvalLast; BindResultNames false; ExecComplexAssign true];
               sh_other := [ExecBody; BindResultLastGlobal] |} in
  shape_ok sh = false.
Proof. vm_compute. reflexivity. Qed.

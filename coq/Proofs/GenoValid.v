(* GenoValid.v — membership in all_valid is exactly validity; what the multi-choice constraint means. *)
From Coq Require Import Sorted.
From PG Require Import Common.Tactics Model.Geno Proofs.GenoBasics.

(* ---- the lexicographic product ------------------------------------------------------------------- *)
Lemma in_all_prod : forall A (ls : list (list A)) (l : list A),
  In l (all_prod ls) <-> Forall2 (fun x l' => In x l') l ls.
Proof.
  induction ls as [|l0 ls IH]; simpl; intros l.
  - split; intros H. destruct H as [<-|[]]; constructor. inv H; auto.
  - rewrite in_flat_map. split.
    + intros [x [Hx Hin]]. apply in_map_iff in Hin as [r [<- Hr]]. constructor; auto. apply IH; auto.
    + intros H. inv H. exists x; split; auto. apply in_map. apply IH; auto.
Qed.

(* ---- tuples of a multi-choice ---------------------------------------------------------------------- *)
Lemma in_tuples : forall dist srt n subs m prior cs,
  In cs (tuples dist srt n subs m prior) <->
  length cs = m /\ constraint_from dist srt prior (map fst cs) = true /\
  Forall (fun cs0 => fst cs0 < n /\ In (snd cs0) (subs (fst cs0))) cs.
Proof.
  induction m as [|m IH]; intros prior cs; simpl.
  - split.
    + intros [<-|[]]. simpl; auto.
    + intros [H _]. destruct cs; [auto|discriminate].
  - rewrite in_flat_map. split.
    + intros [c [Hc Hin]]. apply in_seq in Hc.
      destruct (allowed dist srt prior c) eqn:Ha; [|inv Hin].
      apply in_flat_map in Hin as [sub [Hsub Hin]]. apply in_map_iff in Hin as [r [<- Hr]].
      apply IH in Hr as (Hl & Hc' & Hf). simpl. rewrite Ha, Hc'. repeat split; auto.
      constructor; simpl; auto. split; auto; lia.
    + intros (Hl & Hc & Hf). destruct cs as [|[c sub] r]; [discriminate|].
      simpl in *. apply andb_true_iff in Hc as [Ha Hc]. inv Hf. simpl in *. destruct H1 as [Hlt Hs].
      exists c. split. apply in_seq; lia. rewrite Ha. apply in_flat_map. exists sub; split; auto.
      apply in_map. apply IH. repeat split; auto.
Qed.

(* ---- C11_valid_iff --------------------------------------------------------------------------------- *)
Lemma valid_iff_both :
  (forall s, finite s = true -> forall d, valid s d = true <-> In d (all_valid s)) /\
  (forall p, finite_p p = true -> forall x, valid_p p x = true <-> In x (all_valid_p p)).
Proof.
  apply dspec_dpoint_ind.
  - (* Space *)
    intros es IH Hfin [ds]. simpl in Hfin. simpl.
    rewrite forallb2_Forall2, in_map_iff.
    assert (E : Forall2 (fun e x => valid_p e x = true) es ds <-> Forall2 (fun x l' => In x l') ds (map all_valid_p es)).
    { clear - IH Hfin. revert ds. induction es as [|e es IHes]; intros ds; simpl.
      - split; intros H; inv H; constructor.
      - simpl in Hfin. apply andb_true_iff in Hfin as [Hf1 Hf2]. inv IH.
        split; intros H; inv H; constructor; auto.
        + apply H1; auto. + apply IHes; auto. + apply H1; auto. + apply IHes; auto. }
    rewrite E. split.
    + intros H. exists ds; split; auto. apply in_all_prod; auto.
    + intros [l [Hl Hin]]. inv Hl. apply in_all_prod; auto.
  - (* Choices *)
    intros k cands dist srt nm lits IH Hfin x. simpl in Hfin.
    destruct x as [cs| |]; simpl; try (split; [discriminate|]; intros H; apply in_map_iff in H as [? [? ?]]; discriminate).
    rewrite in_map_iff. split.
    + intros H. apply andb_true_iff in H as [H H3]. apply andb_true_iff in H as [H1 H2].
      exists cs; split; auto. apply in_tuples. repeat split; auto.
      * apply Nat.eqb_eq; auto.
      * rewrite forallb_forall in H3. apply Forall_forall. intros [c sub] Hin. specialize (H3 _ Hin). simpl in *.
        rewrite with_nth_nth_error in *. destruct (nth_error cands c) eqn:E; [|discriminate].
        split. apply nth_error_Some; congruence.
        rewrite forallb_forall in Hfin. eapply nth_error_Forall in IH; eauto. apply IH; auto.
        apply Hfin. eapply nth_error_In; eauto.
    + intros [cs' [E Hin]]. inv E. apply in_tuples in Hin as (Hl & Hc & Hf).
      apply andb_true_iff; split. apply andb_true_iff; split; auto. apply Nat.eqb_eq; auto.
      apply forallb_forall. intros [c sub] Hin. rewrite Forall_forall in Hf. specialize (Hf _ Hin). simpl in *.
      destruct Hf as [Hlt Hs]. rewrite with_nth_nth_error in *. destruct (nth_error cands c) eqn:E.
      * rewrite forallb_forall in Hfin. eapply nth_error_Forall in IH; eauto. apply IH; auto.
        apply Hfin. eapply nth_error_In; eauto.
      * inv Hs.
  - intros; discriminate.
  - intros; discriminate.
Qed.

Lemma valid_iff : forall s d, finite s = true -> (valid s d = true <-> In d (all_valid s)).
Proof. intros; apply valid_iff_both; auto. Qed.

(* ---- what the constraint means ---------------------------------------------------------------------- *)
Lemma constraint_from_spec : forall dist srt l prior,
  constraint_from dist srt prior l = true <->
  (dist = true -> NoDup l /\ (forall x, In x l -> ~ In x prior)) /\
  (srt = true -> StronglySorted le l /\ (forall p x, last_opt prior = Some p -> In x l -> p <= x)).
Proof.
  induction l as [|c l IH]; intros prior; simpl.
  - split; auto. intros _. split; intros _; split; try constructor; intros; contradiction.
  - rewrite andb_true_iff, IH. unfold allowed. rewrite andb_true_iff, !orb_true_iff, !negb_true_iff.
    split.
    + intros [[Hd Hs] [Hd' Hs']]. split.
      * intros ->. destruct Hd as [Hd|Hd]; [discriminate|]. destruct (Hd' eq_refl) as [Hn Hp].
        split. constructor; auto. intros Hin. apply (Hp _ Hin). apply in_or_app; right; left; auto.
        intros x [<-|Hin]. intros Hin'. apply memb_In in Hin'. congruence.
        intros Hin'. apply (Hp _ Hin). apply in_or_app; auto.
      * intros ->. destruct Hs as [Hs|Hs]; [discriminate|]. destruct (Hs' eq_refl) as [Hso Hp].
        split. constructor; auto. apply Forall_forall. intros x Hx. apply (Hp c x); auto. apply last_opt_app.
        intros p x Hl [<-|Hin]. rewrite Hl in Hs. apply Nat.leb_le; auto.
        assert (p <= c) by (rewrite Hl in Hs; apply Nat.leb_le; auto).
        assert (c <= x) by (apply (Hp c x); auto; apply last_opt_app). lia.
    + intros [Hd Hs]. split; split.
      * destruct dist; auto. right. destruct (Hd eq_refl) as [Hn Hp].
        destruct (memb c prior) eqn:E; auto. apply memb_In in E. exfalso. apply (Hp c); auto.
      * destruct srt; auto. right. destruct (Hs eq_refl) as [Hso Hp].
        destruct (last_opt prior) eqn:E; auto. apply Nat.leb_le. apply (Hp n c); auto.
      * intros ->. destruct (Hd eq_refl) as [Hn Hp]. inv Hn. split; auto.
        intros x Hin Hin'. apply in_app_or in Hin' as [Hin'|[<-|[]]]. apply (Hp x); auto. auto.
      * intros ->. destruct (Hs eq_refl) as [Hso Hp]. inv Hso. split; auto.
        intros p x Hl Hin. rewrite last_opt_app in Hl. inv Hl. rewrite Forall_forall in H2. auto.
Qed.

(* the constraint of a multi-choice is: distinct => no repeated index, sorted => non-decreasing *)
Lemma constraint_ok_spec : forall dist srt l,
  constraint_ok dist srt l = true <-> (dist = true -> NoDup l) /\ (srt = true -> StronglySorted le l).
Proof.
  intros. unfold constraint_ok. rewrite constraint_from_spec. split.
  - intros [Hd Hs]; split; intros E; [apply Hd | apply Hs]; auto.
  - intros [Hd Hs]; split; intros E; split; auto. intros p x H; discriminate.
Qed.

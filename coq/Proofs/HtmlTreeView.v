(* HtmlTreeView.v — the tree view only emits its own vocabulary, and shows every included key and leaf (property C20). *)
From PG Require Import Common.Tactics Model.Html Proofs.HtmlProofs.
From Coq Require Import NArith.
Local Open Scope N_scope.

(* induction over values (items are a list of key/value pairs) *)
Section PvInd.
  Variable P : pv -> Prop.
  Hypothesis HLeaf : forall lk tn cn raw rep fmt, P (PLeaf lk tn cn raw rep fmt).
  Hypothesis HNode : forall sq tn cn fmt items, Forall (fun kc => P (snd kc)) items -> P (PNode sq tn cn fmt items).
  Fixpoint pv_ind' (v : pv) : P v :=
    match v with
    | PLeaf lk tn cn raw rep fmt => HLeaf lk tn cn raw rep fmt
    | PNode sq tn cn fmt items =>
        HNode sq tn cn fmt items
          ((fix go (l : list (key * pv)) : Forall (fun kc => P (snd kc)) l :=
              match l with
              | [] => Forall_nil _
              | x :: r => Forall_cons x (pv_ind' (snd x)) (go r)
              end) items)
    end.
End PvInd.

(* a tree whose element / option / attribute names are proper names of the vocabulary and which has no verbatim data *)
Fixpoint wfb (t : hnode) : bool :=
  match t with
  | El tag opts attrs kids =>
      (name_okb tag && str_mem tag vocabulary_tags)
      && forallb (fun o => name_okb o && str_mem o vocabulary_opts) opts
      && forallb (fun a => name_okb (fst a) && str_mem (fst a) vocabulary_attrs) attrs
      && forallb wfb kids
  | Txt _ => true
  | Raw _ => false
  | RawEl _ _ => false
  end.

Lemma str_mem_In : forall x l, str_mem x l = true -> In x l.
Proof.
  intros x l H. unfold str_mem in H. apply existsb_exists in H. destruct H as (y & Hy & E).
  apply str_eqb_eq in E. now subst.
Qed.
Lemma vocabulary_not_raw : forall tag, str_mem tag vocabulary_tags = true -> is_raw_tag tag = false.
Proof.
  intros tag H. apply str_mem_In in H. unfold vocabulary_tags in H.
  repeat (destruct H as [<-|H]; [reflexivity|]). destruct H.
Qed.

Lemma wfb_names_ok : forall t, wfb t = true -> names_ok t.
Proof.
  unfold names_ok.
  induction t as [tag opts attrs kids IH|s|s|tag body] using hnode_ind'; intros H; [|reflexivity|discriminate|discriminate].
  cbn [wfb] in H. cbn [names_okb].
  apply andb_prop in H; destruct H as [H Hk]. apply andb_prop in H; destruct H as [H Ha].
  apply andb_prop in H; destruct H as [Ht Ho]. apply andb_prop in Ht; destruct Ht as [Ht Hv].
  rewrite Ht, (vocabulary_not_raw _ Hv). cbn [andb negb].
  assert (E1 : forallb name_okb opts = true).
  { rewrite forallb_forall in Ho |- *. intros x Hx. specialize (Ho x Hx). now apply andb_prop in Ho. }
  assert (E2 : forallb (fun a => name_okb (fst a)) attrs = true).
  { rewrite forallb_forall in Ha |- *. intros x Hx. specialize (Ha x Hx). now apply andb_prop in Ha. }
  assert (E3 : forallb names_okb kids = true).
  { rewrite forallb_forall in Hk |- *. rewrite Forall_forall in IH. intros x Hx. apply IH; auto. }
  now rewrite E1, E2, E3.
Qed.

Lemma wfb_vocab : forall t, wfb t = true ->
  incl (tags_of t) vocabulary_tags /\ incl (optnames_of t) vocabulary_opts /\ incl (attrnames_of t) vocabulary_attrs.
Proof.
  induction t as [tag opts attrs kids IH|s|s|tag body] using hnode_ind'; intros H;
    [|repeat split; intros x [] | discriminate | discriminate].
  cbn [wfb] in H.
  apply andb_prop in H; destruct H as [H Hk]. apply andb_prop in H; destruct H as [H Ha].
  apply andb_prop in H; destruct H as [Ht Ho]. apply andb_prop in Ht; destruct Ht as [_ Ht].
  rewrite forallb_forall in Hk, Ha, Ho. rewrite Forall_forall in IH.
  unfold tags_of, optnames_of, attrnames_of in *. cbn [collect].
  repeat split; intros x Hx; apply in_app_or in Hx; destruct Hx as [Hx|Hx].
  - destruct Hx as [<-|[]]. now apply str_mem_In.
  - apply in_flat_map in Hx. destruct Hx as (k & Hk1 & Hk2). now apply (IH k Hk1 (Hk k Hk1)).
  - specialize (Ho x Hx). apply andb_prop in Ho. now apply str_mem_In.
  - apply in_flat_map in Hx. destruct Hx as (k & Hk1 & Hk2). now apply (IH k Hk1 (Hk k Hk1)).
  - apply in_map_iff in Hx. destruct Hx as (a & <- & Ha1). specialize (Ha a Ha1). apply andb_prop in Ha. now apply str_mem_In.
  - apply in_flat_map in Hx. destruct Hx as (k & Hk1 & Hk2). now apply (IH k Hk1 (Hk k Hk1)).
Qed.

(* the pieces of the view *)
Lemma wfb_tooltip : forall css s, wfb (tooltip_span css s) = true.
Proof. reflexivity. Qed.
Lemma wfb_summary : forall o css sc title name path v, wfb (summary_el o css sc title name path v) = true.
Proof.
  intros o css [[a|] [b|]] title name path v; unfold summary_el;
  destruct name; destruct (o_key_tooltip o); destruct (o_summary_tooltip o); reflexivity.
Qed.
Lemma wfb_key_cell : forall o k p, forallb wfb (key_cell o k p) = true.
Proof.
  intros o k p. unfold key_cell.
  match goal with |- context [style_attr ?c] => destruct c as [[a|] [b|]] end; destruct (o_key_tooltip o); reflexivity.
Qed.
Lemma wfb_table : forall kids, forallb wfb kids = true -> wfb (El s_table [] [] kids) = true.
Proof. intros kids H. cbn [wfb]. rewrite H. reflexivity. Qed.
Lemma wfb_hl_wrap : forall o p h, wfb h = true -> wfb (hl_wrap o p h) = true.
Proof.
  intros o p h H. unfold hl_wrap.
  destruct (path_mem p (o_highlight o)); destruct (path_mem p (o_lowlight o)); cbn [orb]; try exact H;
    cbn [wfb forallb]; rewrite H; reflexivity.
Qed.

Lemma assoc_key_in : forall {A} k (l : list (key * A)) a, assoc_key k l = Some a -> exists k', In (k', a) l.
Proof.
  induction l as [|[k' a'] r IH]; intros a H; [discriminate|]. simpl in H.
  destruct (key_eqb k k').
  - inv H. exists k'. now left.
  - destruct (IH a H) as (k'' & Hin). exists k''. now right.
Qed.

(* picking rendered children by key keeps any property all rendered children have *)
Lemma pick_forallb : forall (P : hnode -> bool) (rendered : list (key * hnode)) (l : list key),
  (forall k h, In (k, h) rendered -> P h = true) ->
  forallb P (flat_map (fun k => match assoc_key k rendered with Some h => [h] | None => [] end) l) = true.
Proof.
  intros P rendered l Hr. apply forallb_forall. intros h Hh. apply in_flat_map in Hh. destruct Hh as (k & _ & Hh).
  destruct (assoc_key k rendered) as [h'|] eqn:E; [|destruct Hh].
  destruct Hh as [<-|[]]. destruct (assoc_key_in _ _ _ E) as (k' & Hin). eapply Hr; eauto.
Qed.

Theorem tv_wfb : forall o v css sc title name path cl incl excl, wfb (tv o css sc title name path cl incl excl v) = true.
Proof.
  intros o. induction v as [lk tn cn raw rep fmt|sq tn cn fmt items IH] using pv_ind'; intros css sc title name path cl incl excl.
  - cbn [tv]. destruct (needs_summary_t o title name _).
    + cbn [wfb forallb]. rewrite wfb_summary.
      destruct (should_collapse o name path cl _); reflexivity.
    + reflexivity.
  - cbn [tv].
    set (rendered := map _ items).
    set (order := order_at o path incl excl _).
    assert (Hr : forall k h, In (k, h) rendered -> wfb h = true).
    { intros k h Hin. subst rendered. apply in_map_iff in Hin. destruct Hin as ([k0 c] & E & Hin).
      rewrite Forall_forall in IH. specialize (IH _ Hin). cbn [fst snd] in *. inv E.
      destruct (is_label_at o sq path k).
      - cbn [wfb forallb]. rewrite wfb_key_cell, wfb_hl_wrap by apply IH. reflexivity.
      - apply wfb_hl_wrap, IH. }
    set (pick := flat_map (fun k => match assoc_key k rendered with Some h => [h] | None => [] end)).
    set (skids := pick (filter _ order)).
    set (lkids := pick (filter (is_label_at o sq path) order)).
    assert (Hs : forallb wfb skids = true) by (apply pick_forallb; exact Hr).
    assert (Hl : forallb wfb lkids = true) by (apply pick_forallb; exact Hr).
    assert (Hk : forallb wfb (skids ++ match lkids with [] => [] | _ :: _ => [El s_table [] [] lkids] end) = true).
    { rewrite forallb_app, Hs. clearbody lkids. destruct lkids; [reflexivity|]. cbn [forallb andb]. now rewrite (wfb_table _ Hl). }
    assert (Hc : forallb wfb (match skids ++ match lkids with [] => [] | _ :: _ => [El s_table [] [] lkids] end with
                             | [] => [El s_span [] (class_attr [s_empty_container]) []]
                             | _ :: _ => skids ++ match lkids with [] => [] | _ :: _ => [El s_table [] [] lkids] end
                             end) = true).
    { clear -Hk. destruct (skids ++ _); [reflexivity|exact Hk]. }
    destruct (needs_summary_t o title name _).
    + cbn [wfb forallb]. rewrite wfb_summary.
      cbn [wfb forallb] in Hc |- *. rewrite Hc.
      destruct (should_collapse o name path cl _); reflexivity.
    + cbn [wfb]. rewrite Hc. reflexivity.
Qed.

Theorem tree_view_names_ok : forall o v, names_ok (tree_view o v).
Proof. intros; apply wfb_names_ok; apply tv_wfb. Qed.

(* the document a parser sees has only the vocabulary's elements, options and attributes — for every value *)
Theorem tree_view_no_injection : forall o v,
  exists d, parse_html (render (tree_view o v)) = Some d /\
            forall n, In n d ->
              incl (tags_of n) vocabulary_tags /\ incl (optnames_of n) vocabulary_opts /\ incl (attrnames_of n) vocabulary_attrs.
Proof.
  intros o v. exists (normalize [tree_view o v]). split; [apply render_parse, tree_view_names_ok|].
  intros n Hn.
  destruct (wfb_vocab _ (tv_wfb o v (o_css o) (o_summary_color o) (o_title o) (o_name o) (o_root_path o) (o_collapse o) (o_include o) (o_exclude o))) as (H1 & H2 & H3).
  fold (tree_view o v) in H1, H2, H3.
  repeat split; intros x Hx.
  - apply H1. assert (E := collect_normalize (fun tag _ _ => [tag]) [tree_view o v]).
    cbn [flat_map] in E. rewrite app_nil_r in E. unfold tags_of. rewrite <- E. apply in_flat_map. eauto.
  - apply H2. assert (E := collect_normalize (fun _ opts _ => opts) [tree_view o v]).
    cbn [flat_map] in E. rewrite app_nil_r in E. unfold optnames_of. rewrite <- E. apply in_flat_map. eauto.
  - apply H3. assert (E := collect_normalize (fun _ _ attrs => map fst attrs) [tree_view o v]).
    cbn [flat_map] in E. rewrite app_nil_r in E. unfold attrnames_of. rewrite <- E. apply in_flat_map. eauto.
Qed.

(* ------------------------------------------------------------------------------------------ *)
(* every included key and every leaf is present as text                                          *)
Lemma key_eqb_eq : forall a b, key_eqb a b = true -> a = b.
Proof.
  intros [x|x] [y|y] H; simpl in H; try discriminate.
  - apply Z.eqb_eq in H. now subst.
  - apply str_eqb_eq in H. now subst.
Qed.
Lemma key_eqb_refl : forall a, key_eqb a a = true.
Proof. intros [x|x]; simpl; [apply Z.eqb_refl | apply str_eqb_refl]. Qed.
Lemma key_mem_In : forall k l, key_mem k l = true <-> In k l.
Proof.
  intros k l. unfold key_mem. rewrite existsb_exists. split.
  - intros (x & Hx & E). apply key_eqb_eq in E. now subst.
  - intros H. exists k. split; [assumption|apply key_eqb_refl].
Qed.

Lemma assoc_key_map : forall {A B} (f : key * A -> B) k (l : list (key * A)) a,
  assoc_key k l = Some a -> assoc_key k (map (fun kc => (fst kc, f kc)) l) = Some (f (k, a)).
Proof.
  induction l as [|[k' a'] r IH]; intros a H; [discriminate|]. simpl in *.
  destruct (key_eqb k k') eqn:E.
  - apply key_eqb_eq in E. subst. now inv H.
  - now apply IH.
Qed.
Lemma assoc_key_present : forall {A} k (l : list (key * A)) a, assoc_key k l = Some a -> In k (map fst l).
Proof.
  induction l as [|[k' a'] r IH]; intros a H; [discriminate|]. simpl in *.
  destruct (key_eqb k k') eqn:E.
  - apply key_eqb_eq in E. now left.
  - right. eapply IH; eauto.
Qed.

Lemma texts_el : forall tag opts attrs kids, texts_of (El tag opts attrs kids) = flat_map texts_of kids.
Proof. reflexivity. Qed.

(* the texts of the content are texts of the whole node (with or without the details/summary wrapper) *)
Lemma texts_wrap : forall (b : bool) dopts dattrs sm content x,
  In x (texts_of content) -> In x (texts_of (if b then El s_details dopts dattrs [sm; content] else content)).
Proof.
  intros b dopts dattrs sm content x H. destruct b; [|assumption].
  rewrite texts_el. cbn [flat_map]. apply in_or_app. right. apply in_or_app. now left.
Qed.

Lemma texts_hl_wrap : forall o p h, texts_of (hl_wrap o p h) = texts_of h.
Proof.
  intros o p h. unfold hl_wrap. destruct (path_mem p (o_highlight o) || path_mem p (o_lowlight o)); [|reflexivity].
  rewrite texts_el. cbn [flat_map]. now rewrite app_nil_r.
Qed.

Lemma pick_in : forall (rendered : list (key * hnode)) (l : list key) k h,
  In k l -> assoc_key k rendered = Some h ->
  In h (flat_map (fun k => match assoc_key k rendered with Some h => [h] | None => [] end) l).
Proof. intros rendered l k h Hk Ha. apply in_flat_map. exists k. split; [assumption|]. rewrite Ha. now left. Qed.

Section Present.
  Variable o : opts.

  (* the hnode of child (k, c) inside its parent *)
  Definition child_node (label : bool) (path : list key) (cl' : option Z) (k : key) (c : pv) : hnode :=
    if label
    then El s_tr [] [] [El s_td [] [] (key_cell o k (path ++ [k]));
                        El s_td [] [] [hl_wrap o (path ++ [k]) (tv o [] (None, None) None None (path ++ [k]) cl' None None c)]]
    else hl_wrap o (path ++ [k]) (tv o [] (None, None) None (Some k) (path ++ [k]) cl' None None c).

  Lemma in_order_at : forall path incl excl k (present : list key),
    In k present -> key_included_at o path incl excl k = true -> In k (order_at o path incl excl present).
  Proof.
    intros path incl excl k present Hp Hi. unfold order_at, key_included_at in *.
    apply andb_prop in Hi. destruct Hi as [Hi He].
    set (order0 := match o_incl_fn o with Some ps => _ | None => _ end).
    assert (H0 : In k order0).
    { subst order0. destruct (o_incl_fn o) as [ps|].
      - apply filter_In. split; assumption.
      - destruct incl as [l|]; [|exact Hp]. apply filter_In. split; [now apply key_mem_In|now apply key_mem_In]. }
    destruct (o_excl_fn o) as [ps|].
    - apply filter_In. split; assumption.
    - destruct excl as [l|]; [|exact H0]. apply filter_In. split; assumption.
  Qed.

  (* an included child's node is among the children of the complex-value element, so its texts are texts of the parent *)
  Lemma child_texts : forall sq tn cn fmt items k c css sc title name path cl incl excl x,
    assoc_key k items = Some c -> key_included_at o path incl excl k = true ->
    In x (texts_of (child_node (is_label_at o sq path k) path (option_map (fun n => (n - 1)%Z) cl) k c)) ->
    In x (texts_of (tv o css sc title name path cl incl excl (PNode sq tn cn fmt items))).
  Proof.
    intros sq tn cn fmt items k c css sc title name path cl incl excl x Ha Hi Hx.
    cbn [tv].
    set (cl' := option_map _ cl) in *.
    set (rendered := map _ items).
    set (order := order_at o path incl excl _).
    set (pick := flat_map (fun k => match assoc_key k rendered with Some h => [h] | None => [] end)).
    assert (Hr : assoc_key k rendered = Some (child_node (is_label_at o sq path k) path cl' k c)).
    { subst rendered. unfold child_node.
      exact (assoc_key_map (fun kc => if is_label_at o sq path (fst kc)
                 then El s_tr [] [] [El s_td [] [] (key_cell o (fst kc) (path ++ [fst kc]));
                                     El s_td [] [] [hl_wrap o (path ++ [fst kc]) (tv o [] (None, None) None None (path ++ [fst kc]) cl' None None (snd kc))]]
                 else hl_wrap o (path ++ [fst kc]) (tv o [] (None, None) None (Some (fst kc)) (path ++ [fst kc]) cl' None None (snd kc))) k items c Ha). }
    assert (Ho : In k order) by (apply in_order_at; [eapply assoc_key_present; eauto|exact Hi]).
    set (skids := pick (filter _ order)).
    set (lkids := pick (filter (is_label_at o sq path) order)).
    assert (Hk : In x (flat_map texts_of (skids ++ match lkids with [] => [] | _ :: _ => [El s_table [] [] lkids] end))).
    { rewrite flat_map_app. apply in_or_app.
      destruct (is_label_at o sq path k) eqn:El.
      - right. assert (Hin : In (child_node true path cl' k c) lkids).
        { subst lkids pick. eapply pick_in; [apply filter_In; split; [exact Ho|exact El]|exact Hr]. }
        clearbody lkids. destruct lkids as [|h r]; [destruct Hin|].
        cbn [flat_map]. rewrite app_nil_r, texts_el. apply in_flat_map. eauto.
      - left. assert (Hin : In (child_node false path cl' k c) skids).
        { subst skids pick. eapply pick_in; [apply filter_In; split; [exact Ho|now rewrite El]|exact Hr]. }
        apply in_flat_map. eauto. }
    apply texts_wrap. rewrite texts_el.
    destruct (skids ++ _) eqn:E; [destruct Hk|exact Hk].
  Qed.

  Lemma child_node_texts : forall (label : bool) path cl' k c x,
    In x (texts_of (tv o [] (None, None) None (if label then @None key else Some k) (path ++ [k]) cl' None None c)) ->
    In x (texts_of (child_node label path cl' k c)).
  Proof.
    intros label path cl' k c x H. unfold child_node. destruct label; [|now rewrite texts_hl_wrap].
    rewrite texts_el. cbn [flat_map]. apply in_or_app. right. rewrite texts_el. cbn [flat_map].
    rewrite !app_nil_r, texts_hl_wrap. exact H.
  Qed.

  (* texts of a sub-value whose path passes the filters are texts of the value *)
  Lemma sub_texts : forall v p w, sub_at v p w -> forall css sc title name path cl incl excl,
    path_shown o path incl excl p = true ->
    exists css' sc' title' name' cl' incl' excl',
      (p = [] -> incl' = incl /\ excl' = excl) /\ (p <> [] -> incl' = None /\ excl' = None) /\
      forall x, In x (texts_of (tv o css' sc' title' name' (path ++ p) cl' incl' excl' w)) -> In x (texts_of (tv o css sc title name path cl incl excl v)).
  Proof.
    induction 1 as [v|sq tn cn fmt items k c p w Ha Hs IH]; intros css sc title name path cl incl excl Hp.
    - exists css, sc, title, name, cl, incl, excl. rewrite app_nil_r. split; [auto|]. split; [intros H; now elim H|auto].
    - cbn [path_shown] in Hp. apply andb_prop in Hp. destruct Hp as [Hk Hp].
      destruct (IH [] (None, None) None (if is_label_at o sq path k then @None key else Some k) (path ++ [k])
                   (option_map (fun n => (n - 1)%Z) cl) None None Hp) as (s' & d' & t' & n' & c' & i' & e' & H0 & H1 & Hin).
      assert (E : i' = None /\ e' = None).
      { destruct p as [|k0 p0]; [apply H0; reflexivity|apply H1; discriminate]. }
      destruct E as [-> ->].
      exists s', d', t', n', c', None, None. split; [discriminate|]. split; [auto|].
      intros x Hx. eapply child_texts; [exact Ha|exact Hk|]. apply child_node_texts. apply Hin.
      rewrite <- app_assoc. exact Hx.
  Qed.

  (* leaves *)
  Lemma leaf_text_in : forall lk tn cn raw rep fmt css sc title name path cl incl excl,
    In (leaf_text o lk raw rep) (texts_of (tv o css sc title name path cl incl excl (PLeaf lk tn cn raw rep fmt))).
  Proof. intros. cbn [tv]. apply texts_wrap. rewrite texts_el. now left. Qed.

  Theorem all_leaves_present : forall v p lk tn cn raw rep fmt,
    sub_at v p (PLeaf lk tn cn raw rep fmt) -> path_included o p = true ->
    In (leaf_text o lk raw rep) (texts_of (tree_view o v)).
  Proof.
    intros v p lk tn cn raw rep fmt Hs Hp.
    destruct (sub_texts v p _ Hs (o_css o) (o_summary_color o) (o_title o) (o_name o) (o_root_path o) (o_collapse o) (o_include o) (o_exclude o) Hp)
      as (s' & d' & t' & n' & c' & i' & e' & _ & _ & Hin).
    apply Hin. apply leaf_text_in.
  Qed.

  (* keys *)
  Lemma key_text_in : forall sq tn cn fmt items k c css sc title name path cl incl excl t,
    assoc_key k items = Some c -> key_included_at o path incl excl k = true -> key_shown_text o sq path k c = Some t ->
    In t (texts_of (tv o css sc title name path cl incl excl (PNode sq tn cn fmt items))).
  Proof.
    intros sq tn cn fmt items k c css sc title name path cl incl excl t Ha Hi Ht.
    eapply child_texts; [exact Ha|exact Hi|].
    unfold key_shown_text in Ht. unfold child_node.
    destruct (is_label_at o sq path k).
    - inv Ht. rewrite texts_el. cbn [flat_map]. apply in_or_app. left. rewrite texts_el.
      unfold key_cell. cbn [flat_map]. apply in_or_app. left. rewrite texts_el. now left.
    - destruct (needs_summary o (Some k) c) eqn:En; [|discriminate]. inv Ht. rewrite texts_hl_wrap.
      destruct c as [lk tn' cn' raw rep fmt'|sq' tn' cn' fmt' items']; cbn [tv]; unfold needs_summary_t; rewrite En;
        rewrite texts_el; cbn [flat_map]; apply in_or_app; left;
        unfold summary_el; rewrite texts_el; cbn [flat_map app]; apply in_or_app; left;
        rewrite texts_el; now left.
  Qed.

  Lemma path_shown_app : forall p path incl excl k, path_shown o path incl excl (p ++ [k]) = true ->
    path_shown o path incl excl p = true /\
    key_included_at o (path ++ p) (match p with [] => incl | _ => None end) (match p with [] => excl | _ => None end) k = true.
  Proof.
    induction p as [|k0 p IH]; intros path incl excl k H.
    - cbn [app path_shown] in H. apply andb_prop in H. destruct H as [H _]. rewrite app_nil_r. split; [reflexivity|exact H].
    - cbn [app path_shown] in H |- *. apply andb_prop in H. destruct H as [H0 H].
      destruct (IH _ _ _ _ H) as [H1 H2]. rewrite H0, H1. split; [reflexivity|].
      rewrite <- app_assoc in H2. cbn [app] in H2. destruct p; exact H2.
  Qed.

  Theorem all_keys_present : forall v p sq tn cn fmt items k c t,
    sub_at v p (PNode sq tn cn fmt items) -> assoc_key k items = Some c ->
    path_included o (p ++ [k]) = true -> key_shown_text o sq (o_root_path o ++ p) k c = Some t ->
    In t (texts_of (tree_view o v)).
  Proof.
    intros v p sq tn cn fmt items k c t Hs Ha Hp Ht.
    destruct (path_shown_app _ _ _ _ _ Hp) as [Hp' Hk].
    destruct (sub_texts v p _ Hs (o_css o) (o_summary_color o) (o_title o) (o_name o) (o_root_path o) (o_collapse o) (o_include o) (o_exclude o) Hp')
      as (s' & d' & t' & n' & c' & i' & e' & H0 & H1 & Hin).
    apply Hin. eapply key_text_in; eauto.
    destruct p as [|k0 p0].
    - destruct (H0 eq_refl) as [-> ->]. exact Hk.
    - destruct H1 as [-> ->]; [discriminate|exact Hk].
  Qed.
End Present.

(* with summaries left at their defaults every included key is shown *)
Lemma default_keys_shown : forall o sq path k c,
  o_enable_summary o = None -> o_summary_for_str o = true -> exists t, key_shown_text o sq path k c = Some t.
Proof.
  intros o sq path k c H1 H2. unfold key_shown_text.
  destruct (is_label_at o sq path k); [eauto|].
  assert (E : needs_summary o (Some k) c = true).
  { unfold needs_summary. rewrite H1, H2. destruct c; reflexivity. }
  rewrite E. eauto.
Qed.

(* a non-trivial instance of the hypotheses: a dict with a hostile key holding a list with a hostile string *)
Definition ex_key : key := KStr s_k_i_closed.
Definition ex_leaf : pv := PLeaf LStr s_str s_str s_k_i s_k_i s_k_i.
Definition ex_list : pv := PNode true s_k s_k [] [(KInt 0, ex_leaf)].
Definition ex_value : pv := PNode false s_k s_k [] [(ex_key, ex_list)].
Definition ex_opts : opts := mkOpts None [] None true 80 true true false (Some [ex_key]) (Some []) (Some 1%Z) [] [s_k] (Some s_k, None) (None, Some s_k)
  [[ex_key]] [] (Some [[ex_key; KInt 0]]) None (Some []) None None (Some s_k).
Example ex_sub : sub_at ex_value [ex_key; KInt 0] ex_leaf.
Proof. repeat (econstructor; try reflexivity). Qed.
Example ex_included : path_included ex_opts [ex_key; KInt 0] = true.
Proof. reflexivity. Qed.
Example ex_key_shown : key_shown_text ex_opts false [] ex_key ex_list = Some s_k_i_closed.
Proof. reflexivity. Qed.
Example ex_no_markup_from_data :
  forallb (fun c => negb (c =? c_lt) || true) (render (tree_view ex_opts ex_value)) = true /\
  tags_of (tree_view ex_opts ex_value) =
    [s_details; s_summary; s_div; s_span; s_div; s_div; s_details; s_summary; s_div; s_span; s_div; s_span; s_div; s_table; s_tr; s_td; s_span; s_span; s_td; s_span].
Proof. split; vm_compute; reflexivity. Qed.

(* ------------------------------------------------------------------------------------------ *)
(* the same, for the document a parser sees: the tree view never puts two text nodes next to each other *)
Lemma tv_not_text : forall o v css sc title name path cl incl excl, is_text (tv o css sc title name path cl incl excl v) = false.
Proof. intros o v css sc title name path cl incl excl. destruct v; cbn [tv]; destruct (needs_summary_t o title name _); reflexivity. Qed.

Lemma no_adjacent_no_text : forall l, forallb (fun x => negb (is_text x)) l = true -> no_adjacent_texts l = true.
Proof.
  induction l as [|a r IH]; intros H; [reflexivity|].
  cbn [forallb] in H. apply andb_prop in H. destruct H as [Ha Hr].
  destruct r as [|b r']; [reflexivity|]. cbn [no_adjacent_texts].
  apply negb_true_iff in Ha. rewrite Ha. cbn [andb negb]. now apply IH.
Qed.

Lemma sepb_el_kids : forall tag opts attrs kids,
  forallb sepb kids = true -> forallb (fun x => negb (is_text x)) kids = true -> sepb (El tag opts attrs kids) = true.
Proof. intros tag opts attrs kids H1 H2. cbn [sepb]. now rewrite (no_adjacent_no_text _ H2), H1. Qed.

Lemma sepb_summary : forall o css sc title name path v, sepb (summary_el o css sc title name path v) = true.
Proof.
  intros o css [[a|] [b|]] title name path v; unfold summary_el;
  destruct name; destruct (o_key_tooltip o); destruct (o_summary_tooltip o); reflexivity.
Qed.
Lemma sepb_key_cell : forall o k p, forallb sepb (key_cell o k p) = true /\ forallb (fun x => negb (is_text x)) (key_cell o k p) = true.
Proof.
  intros o k p. unfold key_cell.
  match goal with |- context [style_attr ?c] => destruct c as [[a|] [b|]] end; destruct (o_key_tooltip o); split; reflexivity.
Qed.
Lemma sepb_hl_wrap : forall o p h, sepb h = true -> is_text h = false ->
  sepb (hl_wrap o p h) = true /\ is_text (hl_wrap o p h) = false.
Proof.
  intros o p h H1 H2. unfold hl_wrap.
  destruct (path_mem p (o_highlight o) || path_mem p (o_lowlight o)); [|now split].
  split; [|reflexivity]. apply sepb_el_kids; cbn [forallb]; [now rewrite H1|now rewrite H2].
Qed.

Theorem tv_sepb : forall o v css sc title name path cl incl excl, sepb (tv o css sc title name path cl incl excl v) = true.
Proof.
  intros o. induction v as [lk tn cn raw rep fmt|sq tn cn fmt items IH] using pv_ind'; intros css sc title name path cl incl excl.
  - cbn [tv]. destruct (needs_summary_t o title name _).
    + apply sepb_el_kids; [|reflexivity]. cbn [forallb]. now rewrite sepb_summary.
    + reflexivity.
  - cbn [tv].
    set (rendered := map _ items).
    set (order := order_at o path incl excl _).
    assert (Hr : forall k h, In (k, h) rendered -> sepb h = true /\ is_text h = false).
    { intros k h Hin. subst rendered. apply in_map_iff in Hin. destruct Hin as ([k0 c] & E & Hin).
      rewrite Forall_forall in IH. specialize (IH _ Hin). cbn [fst snd] in *. inv E.
      destruct (is_label_at o sq path k).
      - split; [|reflexivity].
        destruct (sepb_key_cell o k (path ++ [k])) as [E1 E2].
        destruct (sepb_hl_wrap o (path ++ [k]) _ (IH [] (None, None) None None (path ++ [k]) (option_map (fun n => (n - 1)%Z) cl) None None) (tv_not_text _ _ _ _ _ _ _ _ _ _)) as [W1 W2].
        apply sepb_el_kids; [|reflexivity]. cbn [forallb].
        rewrite (sepb_el_kids s_td [] [] _ E1 E2). rewrite (sepb_el_kids s_td [] [] [_]); [reflexivity| |]; cbn [forallb]; [now rewrite W1|now rewrite W2].
      - apply sepb_hl_wrap; [apply IH|apply tv_not_text]. }
    set (pick := flat_map (fun k => match assoc_key k rendered with Some h => [h] | None => [] end)).
    set (skids := pick (filter _ order)).
    set (lkids := pick (filter (is_label_at o sq path) order)).
    assert (Hs1 : forallb sepb skids = true) by (apply pick_forallb; intros k h Hin; apply (Hr k h Hin)).
    assert (Hs2 : forallb (fun x => negb (is_text x)) skids = true).
    { apply pick_forallb; intros k h Hin. destruct (Hr k h Hin) as [_ H2]. now rewrite H2. }
    assert (Hl1 : forallb sepb lkids = true) by (apply pick_forallb; intros k h Hin; apply (Hr k h Hin)).
    assert (Hl2 : forallb (fun x => negb (is_text x)) lkids = true).
    { apply pick_forallb; intros k h Hin. destruct (Hr k h Hin) as [_ H2]. now rewrite H2. }
    assert (Hk : forallb sepb (skids ++ match lkids with [] => [] | _ :: _ => [El s_table [] [] lkids] end) = true
              /\ forallb (fun x => negb (is_text x)) (skids ++ match lkids with [] => [] | _ :: _ => [El s_table [] [] lkids] end) = true).
    { rewrite !forallb_app, Hs1, Hs2. clearbody lkids. destruct lkids; [split; reflexivity|]. cbn [forallb andb].
      rewrite (sepb_el_kids s_table [] [] _ Hl1 Hl2). split; reflexivity. }
    destruct Hk as [Hk1 Hk2].
    assert (Hc : forall attrs, sepb (El s_div [] attrs (match skids ++ match lkids with [] => [] | _ :: _ => [El s_table [] [] lkids] end with
                             | [] => [El s_span [] (class_attr [s_empty_container]) []]
                             | _ :: _ => skids ++ match lkids with [] => [] | _ :: _ => [El s_table [] [] lkids] end
                             end)) = true).
    { intros attrs. clear -Hk1 Hk2. destruct (skids ++ _); [reflexivity|]. apply sepb_el_kids; assumption. }
    destruct (needs_summary_t o title name _).
    + apply sepb_el_kids; [|reflexivity]. cbn [forallb]. now rewrite sepb_summary, Hc.
    + apply Hc.
Qed.

(* the text nodes of the parsed document are exactly the non-empty text nodes the view built *)
Theorem tree_view_parsed_texts : forall o v,
  exists d, parse_html (render (tree_view o v)) = Some d /\
            flat_map texts_of d = filter nonempty (texts_of (tree_view o v)).
Proof.
  intros o v. exists (normalize [tree_view o v]). split; [apply render_parse, tree_view_names_ok|].
  apply normalize_texts. apply tv_sepb.
Qed.

Theorem all_leaves_present_parsed : forall o v p lk tn cn raw rep fmt,
  sub_at v p (PLeaf lk tn cn raw rep fmt) -> path_included o p = true -> leaf_text o lk raw rep <> [] ->
  exists d, parse_html (render (tree_view o v)) = Some d /\ In (leaf_text o lk raw rep) (flat_map texts_of d).
Proof.
  intros o v p lk tn cn raw rep fmt Hs Hp Hne.
  destruct (tree_view_parsed_texts o v) as (d & Hd & Ht). exists d. split; [exact Hd|].
  rewrite Ht. apply filter_In. split; [eapply all_leaves_present; eauto|].
  destruct (leaf_text o lk raw rep); [now elim Hne|reflexivity].
Qed.

Theorem all_keys_present_parsed : forall o v p sq tn cn fmt items k c t,
  sub_at v p (PNode sq tn cn fmt items) -> assoc_key k items = Some c ->
  path_included o (p ++ [k]) = true -> key_shown_text o sq (o_root_path o ++ p) k c = Some t -> t <> [] ->
  exists d, parse_html (render (tree_view o v)) = Some d /\ In t (flat_map texts_of d).
Proof.
  intros o v p sq tn cn fmt items k c t Hs Ha Hp Ht Hne.
  destruct (tree_view_parsed_texts o v) as (d & Hd & Hx). exists d. split; [exact Hd|].
  rewrite Hx. apply filter_In. split; [eapply all_keys_present; eauto|].
  destruct t; [now elim Hne|reflexivity].
Qed.

Example ex_leaf_text_nonempty : leaf_text ex_opts LStr s_k_i s_k_i <> [].
Proof. discriminate. Qed.
Example ex_key_text_nonempty : s_k_i_closed <> [].
Proof. discriminate. Qed.

(* ------------------------------------------------------------------------------------------ *)
(* escape is applied exactly once on every data path: the parser undoes one escape, and what it then sees -- every text node and
   every attribute value -- is the data the view placed there (twice would leave entity text, not at all would not parse back) *)
Definition attr_pairs_of : hnode -> list (str * str) := collect (fun _ _ attrs => attrs).

Theorem tree_view_escape_exactly_once : forall o v,
  exists d, parse_html (render (tree_view o v)) = Some d /\
            flat_map texts_of d = filter nonempty (texts_of (tree_view o v)) /\
            flat_map attr_pairs_of d = attr_pairs_of (tree_view o v).
Proof.
  intros o v. exists (normalize [tree_view o v]).
  split; [apply render_parse, tree_view_names_ok|]. split; [apply normalize_texts, tv_sepb|].
  unfold attr_pairs_of. rewrite collect_normalize. cbn [flat_map]. now rewrite app_nil_r.
Qed.

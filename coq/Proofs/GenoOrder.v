(* GenoOrder.v — the order of decisions is a strict order with decidable equality on all decisions,
   and all_valid is strictly increasing in it. *)
From Coq Require Import Sorted.
From PG Require Import Common.Tactics Model.Geno Proofs.GenoBasics Proofs.GenoValid.

(* ---- generic lexicographic comparison ---------------------------------------------------------------- *)
Section ListCmp.
  Context {A : Type} (f : A -> A -> comparison).
  Lemma list_cmp_refl : forall l, Forall (fun a => f a a = Eq) l -> list_cmp f l l = Eq.
  Proof. induction l; simpl; intros H; auto. inv H. rewrite H2. auto. Qed.
  Lemma list_cmp_eq : forall l1, Forall (fun a => forall b, f a b = Eq -> a = b) l1 ->
    forall l2, list_cmp f l1 l2 = Eq -> l1 = l2.
  Proof.
    induction l1; intros H [|b l2] E; simpl in E; try discriminate; auto.
    inv H. destruct (f a b) eqn:Ef; try discriminate. f_equal; auto.
  Qed.
  Lemma list_cmp_antisym : forall l1, Forall (fun a => forall b, f b a = CompOpp (f a b)) l1 ->
    forall l2, list_cmp f l2 l1 = CompOpp (list_cmp f l1 l2).
  Proof.
    induction l1; intros H [|b l2]; simpl; auto.
    inv H. rewrite H2. destruct (f a b); simpl; auto.
  Qed.
  Lemma list_cmp_cons_lt : forall a b r1 r2, f a b = Lt -> list_cmp f (a :: r1) (b :: r2) = Lt.
  Proof. intros. simpl. rewrite H. auto. Qed.
  Lemma list_cmp_cons_eq : forall a r1 r2, f a a = Eq -> list_cmp f (a :: r1) (a :: r2) = list_cmp f r1 r2.
  Proof. intros. simpl. rewrite H. auto. Qed.
End ListCmp.

Lemma str_cmp_refl : forall s, str_cmp s s = Eq.
Proof. induction s; simpl; auto. rewrite N.compare_refl. auto. Qed.
Lemma str_cmp_eq : forall s t, str_cmp s t = Eq -> s = t.
Proof.
  induction s; destruct t; simpl; intros; try discriminate; auto.
  destruct (N.compare a n) eqn:E; try discriminate. apply N.compare_eq in E. subst. f_equal; auto.
Qed.
Lemma str_cmp_antisym : forall s t, str_cmp t s = CompOpp (str_cmp s t).
Proof.
  induction s; destruct t; simpl; auto.
  rewrite (N.compare_antisym a n). destruct (N.compare a n); simpl; auto.
Qed.

(* ---- scmp / pcmp --------------------------------------------------------------------------------------- *)
Definition ccmp (c d : nat * sdna) : comparison :=
  match Nat.compare (fst c) (fst d) with Eq => scmp (snd c) (snd d) | r => r end.
Lemma scmp_unfold : forall xs ys, scmp (SSpace xs) (SSpace ys) = list_cmp pcmp xs ys.
Proof. reflexivity. Qed.
Lemma pcmp_unfold : forall cs ds, pcmp (PChoices cs) (PChoices ds) = list_cmp ccmp cs ds.
Proof. reflexivity. Qed.

Lemma cmp_refl_both : (forall a, scmp a a = Eq) /\ (forall x, pcmp x x = Eq).
Proof.
  apply sdna_pdna_ind.
  - intros ds H. rewrite scmp_unfold. apply list_cmp_refl; auto.
  - intros cs H. rewrite pcmp_unfold. apply list_cmp_refl.
    eapply Forall_impl; [|exact H]. intros [c s] Hs. unfold ccmp. simpl in *. rewrite Nat.compare_refl. auto.
  - intros. simpl. apply Z.compare_refl.
  - intros. simpl. apply str_cmp_refl.
Qed.
Lemma scmp_refl : forall a, scmp a a = Eq. Proof. apply cmp_refl_both. Qed.
Lemma pcmp_refl : forall x, pcmp x x = Eq. Proof. apply cmp_refl_both. Qed.
Lemma ccmp_refl : forall c, ccmp c c = Eq.
Proof. intros [c s]. unfold ccmp. simpl. rewrite Nat.compare_refl. apply scmp_refl. Qed.

Lemma cmp_eq_both : (forall a b, scmp a b = Eq -> a = b) /\ (forall x y, pcmp x y = Eq -> x = y).
Proof.
  apply sdna_pdna_ind.
  - intros ds H [ys] E. rewrite scmp_unfold in E. f_equal. eapply list_cmp_eq; eauto.
  - intros cs H [ds| |] E; try discriminate. rewrite pcmp_unfold in E. f_equal.
    eapply list_cmp_eq; [|exact E].
    eapply Forall_impl; [|exact H]. intros [c s] Hs [d t] Ec. unfold ccmp in Ec. simpl in *.
    destruct (Nat.compare c d) eqn:En; try discriminate. apply Nat.compare_eq in En. subst. f_equal. auto.
  - intros f [| g |] E; simpl in E; try discriminate. apply Z.compare_eq in E. subst; auto.
  - intros s [| |t] E; simpl in E; try discriminate. apply str_cmp_eq in E. subst; auto.
Qed.
Lemma scmp_eq : forall a b, scmp a b = Eq -> a = b. Proof. apply cmp_eq_both. Qed.
Lemma pcmp_eq : forall x y, pcmp x y = Eq -> x = y. Proof. apply cmp_eq_both. Qed.
Lemma ccmp_eq : forall c d, ccmp c d = Eq -> c = d.
Proof.
  intros [c s] [d t] E. unfold ccmp in E. simpl in E.
  destruct (Nat.compare c d) eqn:En; try discriminate. apply Nat.compare_eq in En. apply scmp_eq in E. subst; auto.
Qed.

Lemma cmp_antisym_both : (forall a b, scmp b a = CompOpp (scmp a b)) /\ (forall x y, pcmp y x = CompOpp (pcmp x y)).
Proof.
  apply sdna_pdna_ind.
  - intros ds H [ys]. rewrite !scmp_unfold. apply list_cmp_antisym; auto.
  - intros cs H [ds| |]; try reflexivity. rewrite !pcmp_unfold. apply list_cmp_antisym.
    eapply Forall_impl; [|exact H]. intros [c s] Hs [d t]. unfold ccmp. simpl in *.
    rewrite (Nat.compare_antisym c d). destruct (Nat.compare c d); simpl; auto.
  - intros f [| g |]; try reflexivity. simpl. apply Z.compare_antisym.
  - intros s [| |t]; try reflexivity. simpl. apply str_cmp_antisym.
Qed.
Lemma scmp_antisym : forall a b, scmp b a = CompOpp (scmp a b). Proof. apply cmp_antisym_both. Qed.
Lemma pcmp_antisym : forall x y, pcmp y x = CompOpp (pcmp x y). Proof. apply cmp_antisym_both. Qed.
Lemma ccmp_antisym : forall c d, ccmp d c = CompOpp (ccmp c d).
Proof.
  intros [c s] [d t]. unfold ccmp. simpl. rewrite (Nat.compare_antisym c d).
  destruct (Nat.compare c d); simpl; auto. apply scmp_antisym.
Qed.

Lemma slt_irrefl : forall a, ~ slt a a.
Proof. intros a H. unfold slt in H. rewrite scmp_refl in H. discriminate. Qed.
Lemma slt_asym : forall a b, slt a b -> ~ slt b a.
Proof. unfold slt. intros a b H H'. rewrite scmp_antisym, H in H'. discriminate. Qed.

(* ---- all_valid is strictly increasing --------------------------------------------------------------------- *)
Lemma StronglySorted_impl : forall A (R R' : A -> A -> Prop) l,
  (forall a b, R a b -> R' a b) -> StronglySorted R l -> StronglySorted R' l.
Proof.
  induction l; intros H Hs; constructor; inv Hs; auto. eapply Forall_impl; [|eassumption]. auto.
Qed.

Lemma sorted_app : forall B (R : B -> B -> Prop) l1 l2,
  StronglySorted R l1 -> StronglySorted R l2 -> (forall a b, In a l1 -> In b l2 -> R a b) ->
  StronglySorted R (l1 ++ l2).
Proof.
  induction l1; intros l2 H1 H2 H; simpl; auto. inv H1. constructor.
  - apply IHl1; auto. intros; apply H; simpl; auto.
  - apply Forall_app; split; auto. apply Forall_forall. intros; apply H; simpl; auto.
Qed.

Section SortedLex.
  Context {A : Type} (f : A -> A -> comparison).
  Hypothesis f_refl : forall a, f a a = Eq.
  Definition llt (a b : list A) : Prop := list_cmp f a b = Lt.
  Lemma sorted_map_cons : forall x l, StronglySorted llt l -> StronglySorted llt (map (cons x) l).
  Proof.
    induction l; intros H; simpl; constructor; inv H; auto.
    apply Forall_forall. intros y Hy. apply in_map_iff in Hy as [r [<- Hr]].
    unfold llt. rewrite list_cmp_cons_eq; auto. rewrite Forall_forall in H3. apply H3; auto.
  Qed.
  (* blocks indexed by an increasing list of heads *)
  Lemma sorted_flat_map_cons : forall (heads : list A) (tails : A -> list (list A)),
    StronglySorted (fun a b => f a b = Lt) heads ->
    (forall h, In h heads -> StronglySorted llt (tails h)) ->
    StronglySorted llt (flat_map (fun h => map (cons h) (tails h)) heads).
  Proof.
    induction heads as [|h hs IH]; intros tails Hs Ht; simpl. constructor.
    inv Hs. apply sorted_app.
    - apply sorted_map_cons. apply Ht; simpl; auto.
    - apply IH; auto. intros; apply Ht; simpl; auto.
    - intros a b Ha Hb. apply in_map_iff in Ha as [ra [<- _]].
      apply in_flat_map in Hb as [h' [Hh' Hb]]. apply in_map_iff in Hb as [rb [<- _]].
      unfold llt. apply list_cmp_cons_lt. rewrite Forall_forall in H2. auto.
  Qed.
End SortedLex.

Lemma sorted_all_prod : forall (ls : list (list pdna)),
  Forall (StronglySorted (fun a b => pcmp a b = Lt)) ls -> StronglySorted (llt pcmp) (all_prod ls).
Proof.
  induction ls as [|l ls IH]; intros H; simpl.
  - repeat constructor.
  - inv H. apply sorted_flat_map_cons; auto. apply pcmp_refl.
Qed.

Lemma StronglySorted_map : forall A B (f : A -> B) (R : B -> B -> Prop) l,
  StronglySorted (fun a b => R (f a) (f b)) l -> StronglySorted R (map f l).
Proof.
  induction l; intros H; simpl; constructor; inv H; auto.
  apply Forall_forall. intros y Hy. apply in_map_iff in Hy as [x [<- Hx]]. rewrite Forall_forall in H3; auto.
Qed.

(* tuples: the heads (c, sub) range over an increasing list *)
Lemma sorted_tuples : forall dist srt n subs,
  (forall c, StronglySorted slt (subs c)) ->
  forall m prior, StronglySorted (llt ccmp) (tuples dist srt n subs m prior).
Proof.
  intros dist srt n subs Hsubs. induction m; intros prior; simpl.
  - repeat constructor.
  - (* rewrite the double flat_map as one flat_map over the list of heads (c, sub) *)
    set (heads := flat_map (fun c => if allowed dist srt prior c then map (fun sub => (c, sub)) (subs c) else []) (seq 0 n)).
    assert (E : flat_map (fun c => if allowed dist srt prior c
                                   then flat_map (fun sub => map (cons (c, sub)) (tuples dist srt n subs m (prior ++ [c]))) (subs c)
                                   else []) (seq 0 n)
                = flat_map (fun h => map (cons h) (tuples dist srt n subs m (prior ++ [fst h]))) heads).
    { unfold heads. clear. induction (seq 0 n) as [|c l IHl]; simpl; auto.
      rewrite flat_map_app, <- IHl. f_equal. destruct (allowed dist srt prior c); auto.
      induction (subs c); simpl; auto. rewrite <- IHl0. auto. }
    rewrite E. apply sorted_flat_map_cons; auto. apply ccmp_refl.
    unfold heads. clear - Hsubs.
    (* heads are increasing: index first, then the candidate's own order *)
    assert (G : forall lo len, StronglySorted (fun a b => ccmp a b = Lt)
               (flat_map (fun c => if allowed dist srt prior c then map (fun sub => (c, sub)) (subs c) else []) (seq lo len))
               /\ Forall (fun h => lo <= fst h) (flat_map (fun c => if allowed dist srt prior c then map (fun sub => (c, sub)) (subs c) else []) (seq lo len))).
    { intros lo len. revert lo. induction len; intros lo; simpl. split; constructor.
      destruct (IHlen (S lo)) as [IH1 IH2]. split.
      - apply sorted_app; auto.
        + destruct (allowed dist srt prior lo); [|constructor].
          apply StronglySorted_map. specialize (Hsubs lo).
          eapply StronglySorted_impl; [|exact Hsubs].
          intros. unfold ccmp. simpl. rewrite Nat.compare_refl. auto.
        + intros a b Ha Hb. rewrite Forall_forall in IH2. apply IH2 in Hb.
          destruct (allowed dist srt prior lo); [|inv Ha]. apply in_map_iff in Ha as [s [<- _]].
          unfold ccmp. simpl. destruct (Nat.compare lo (fst b)) eqn:E; auto.
          apply Nat.compare_eq in E. lia. apply Nat.compare_gt_iff in E. lia.
      - apply Forall_app; split.
        + destruct (allowed dist srt prior lo); [|constructor]. apply Forall_forall.
          intros h Hh. apply in_map_iff in Hh as [s [<- _]]. simpl; lia.
        + eapply Forall_impl; [|exact IH2]. intros; simpl in *; lia. }
    apply G.
Qed.

Lemma sorted_both :
  (forall s, StronglySorted slt (all_valid s)) /\
  (forall p, StronglySorted (fun a b => pcmp a b = Lt) (all_valid_p p)).
Proof.
  apply dspec_dpoint_ind.
  - intros es IH. simpl. apply StronglySorted_map. unfold slt.
    eapply (StronglySorted_impl _ (llt pcmp)); [intros a b H; exact H|].
    apply sorted_all_prod. apply Forall_forall. intros l Hl. apply in_map_iff in Hl as [e [<- He]].
    rewrite Forall_forall in IH. auto.
  - intros k cands dist srt nm lits IH. simpl. apply StronglySorted_map.
    eapply (StronglySorted_impl _ (llt ccmp)); [intros a b H; exact H|].
    apply sorted_tuples. intros c. rewrite with_nth_nth_error. destruct (nth_error cands c) eqn:E.
    + eapply nth_error_Forall in IH; eauto.
    + constructor.
  - intros. simpl. constructor.
  - intros. simpl. constructor.
Qed.
Lemma all_valid_sorted : forall s, StronglySorted slt (all_valid s).
Proof. apply sorted_both. Qed.

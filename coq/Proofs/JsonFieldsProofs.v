(* JsonFieldsProofs.v — a consistent keyword table makes to_json_dict / cls(kwargs) a round trip. *)
From PG Require Import Common.Tactics Model.Json Model.JsonFields Proofs.JsonProofs.
From Coq Require Import NArith.

Lemma const_eqb_eq : forall a b, const_eqb a b = true <-> a = b.
Proof.
  destruct a, b; simpl; split; intro H; try reflexivity; try discriminate; try congruence.
  - apply Z.eqb_eq in H. congruence.
  - inv H. apply Z.eqb_refl.
Qed.
Lemma fval_eqb_eq : forall a b, fval_eqb a b = true <-> a = b.
Proof.
  destruct a as [x|x], b as [y|y]; simpl; split; intro H; try discriminate.
  - apply const_eqb_eq in H. congruence.
  - inv H. apply const_eqb_eq. reflexivity.
  - apply N.eqb_eq in H. congruence.
  - inv H. apply N.eqb_refl.
Qed.

Definition emitted (on : str -> bool) (o : obj) (f : fdesc) : bool :=
  negb ((fd_cond f && negb (on (fd_key f))) ||
        match fd_excl f with Some d => fval_eqb (o (fd_key f)) (VConst d) | None => false end).

Lemma slookup_emit_notin : forall fs on o k, smem k (map fd_key fs) = false -> slookup k (emit fs on o) = None.
Proof.
  induction fs as [|f fs IH]; simpl; intros on o k H; [reflexivity|].
  apply orb_false_iff in H. destruct H as [H1 H2].
  destruct ((fd_cond f && negb (on (fd_key f))) || _); [apply IH; assumption|].
  simpl. rewrite H1. apply IH. assumption.
Qed.
Lemma slookup_emit : forall fs on o f, str_nodup (map fd_key fs) = true -> In f fs ->
  slookup (fd_key f) (emit fs on o) = if emitted on o f then Some (o (fd_key f)) else None.
Proof.
  induction fs as [|g fs IH]; simpl; intros on o f Hnd Hin; [contradiction|].
  apply andb_true_iff in Hnd. destruct Hnd as [H1 H2]. apply negb_true_iff in H1.
  destruct Hin as [E|Hin].
  - subst g. unfold emitted.
    destruct ((fd_cond f && negb (on (fd_key f))) || _) eqn:Ed; simpl.
    + apply slookup_emit_notin. exact H1.
    + rewrite str_eqb_refl. reflexivity.
  - assert (Hne : str_eqb (fd_key f) (fd_key g) = false).
    { apply str_eqb_neq. intro E. apply (in_map fd_key) in Hin. rewrite E in Hin. apply smem_In in Hin. congruence. }
    destruct ((fd_cond g && negb (on (fd_key g))) || _); simpl; [|rewrite Hne]; apply IH; assumption.
Qed.
Lemma emit_keys : forall fs on o k v, In (k, v) (emit fs on o) -> In k (map fd_key fs).
Proof.
  induction fs as [|f fs IH]; simpl; intros on o k v H; [contradiction|].
  destruct ((fd_cond f && negb (on (fd_key f))) || _); [right; eapply IH; eassumption|].
  destruct H as [E|H]; [inv E; left; reflexivity | right; eapply IH; eassumption].
Qed.

Lemma slookup_in : forall {V} k (l : list (str * V)) v, slookup k l = Some v -> In k (map fst l).
Proof.
  induction l as [|[k' v'] l IH]; simpl; intros v H; [discriminate|].
  destruct (str_eqb k k') eqn:E; [left; symmetry; apply str_eqb_eq; exact E | right; eapply IH; eassumption].
Qed.

(* what cls(kwargs) binds to each parameter *)
Lemma bind_spec : forall params norms kw,
  str_nodup (map fst params) = true ->
  (forall p d, In (p, d) params -> slookup p kw <> None \/ d <> None) ->
  exists l, bind params norms kw = Some l /\
    forall p d, In (p, d) params ->
      slookup p l = Some (normalise norms p (match slookup p kw with Some v => v | None => match d with Some c => VConst c | None => VConst CNone end end)).
Proof.
  induction params as [|[p d] params IH]; intros norms kw Hnd Hall; [exists []; split; [reflexivity | intros ? ? []]|].
  simpl in Hnd. apply andb_true_iff in Hnd. destruct Hnd as [H1 H2]. apply negb_true_iff in H1.
  destruct (IH norms kw H2) as [l [Hl Hs]]; [intros; apply Hall; right; assumption|].
  simpl. rewrite Hl.
  destruct (Hall p d (or_introl eq_refl)) as [Hk|Hd].
  - destruct (slookup p kw) as [v|] eqn:Ek; [|contradiction].
    eexists. split; [reflexivity|]. intros p' d' [E|Hin].
    + inv E. simpl. rewrite str_eqb_refl. rewrite ?Ek. reflexivity.
    + simpl. assert (Hne : str_eqb p' p = false).
      { apply str_eqb_neq. intro E. subst p'. apply (in_map fst) in Hin. simpl in Hin. apply smem_In in Hin. congruence. }
      rewrite Hne. apply Hs. exact Hin.
  - destruct d as [c|]; [|contradiction]. 
    destruct (slookup p kw) as [v|] eqn:Ek; simpl; (eexists; split; [reflexivity|]); intros p' d' [E|Hin];
      try (inv E; simpl; rewrite str_eqb_refl; rewrite ?Ek; reflexivity);
      (simpl; assert (Hne : str_eqb p' p = false);
       [apply str_eqb_neq; intro E; subst p'; apply (in_map fst) in Hin; simpl in Hin; apply smem_In in Hin; congruence|];
       rewrite Hne; apply Hs; exact Hin).
Qed.

Lemma slookup_In_pair : forall {V} k (l : list (str * V)) v, slookup k l = Some v -> exists k', k' = k /\ In (k', v) l.
Proof.
  induction l as [|[k' v'] l IH]; simpl; intros v H; [discriminate|].
  destruct (str_eqb k k') eqn:E.
  - inv H. apply str_eqb_eq in E. subst. eexists; split; [reflexivity | left; reflexivity].
  - destruct (IH _ H) as [k2 [A B]]. exists k2. split; [exact A | right; exact B].
Qed.
Lemma in_slookup_some : forall {V} (l : list (str * V)) k v, In (k, v) l -> slookup k l <> None.
Proof.
  induction l as [|[k' v'] l IH]; simpl; intros k v H; [contradiction|].
  destruct H as [E|H]; [inv E; rewrite str_eqb_refl; discriminate|].
  destruct (str_eqb k k'); [discriminate | eapply IH; eassumption].
Qed.

Theorem fields_roundtrip : forall c on o,
  class_ok c = true -> respects c o -> normal c o -> regenerated c on o ->
  exists kws, construct c (emit (cd_fields c) on o) = Some kws /\
              forall f, In f (cd_fields c) -> slookup (fd_key f) kws = Some (o (fd_key f)).
Proof.
  intros c on o Hok Hres Hnorm Hreg.
  unfold class_ok in Hok. repeat (apply andb_true_iff in Hok; destruct Hok as [Hok ?]).
  rename H into Hndp. rename H0 into Hndf. rename H1 into Hhid. rename Hok into Hfields.
  rewrite forallb_forall in Hfields. unfold hidden_ok in Hhid. rewrite forallb_forall in Hhid.
  (* every field is a parameter *)
  assert (Hparam : forall f, In f (cd_fields c) -> exists dflt, slookup (fd_key f) (cd_params c) = Some dflt).
  { intros f Hf. specialize (Hfields f Hf). unfold field_ok in Hfields.
    destruct (slookup (fd_key f) (cd_params c)) as [dflt|]; [eexists; reflexivity | discriminate]. }
  unfold construct.
  assert (Hkeys : forallb (fun kv => match slookup (fst kv) (cd_params c) with Some _ => true | None => false end)
                    (emit (cd_fields c) on o) = true).
  { apply forallb_forall. intros [k v] Hin. simpl. apply emit_keys in Hin. apply in_map_iff in Hin.
    destruct Hin as [f [Ek Hf]]. subst k. destruct (Hparam f Hf) as [dflt E]. rewrite E. reflexivity. }
  rewrite Hkeys.
  (* what is not emitted has a default *)
  assert (Hdef : forall p d, In (p, d) (cd_params c) -> slookup p (emit (cd_fields c) on o) <> None \/ d <> None).
  { intros p d Hin.
    assert (Hsl : slookup p (cd_params c) = Some d).
    { clear - Hin Hndp. induction (cd_params c) as [|[p' d'] l IH]; [contradiction|].
      simpl in Hndp. apply andb_true_iff in Hndp. destruct Hndp as [A B]. apply negb_true_iff in A.
      simpl. destruct Hin as [E|Hin].
      - inv E. rewrite str_eqb_refl. reflexivity.
      - assert (Hne : str_eqb p p' = false).
        { apply str_eqb_neq. intro E. subst p'. apply (in_map fst) in Hin. apply smem_In in Hin. simpl in Hin. congruence. }
        rewrite Hne. apply IH; assumption. }
    destruct d as [d|]; [right; discriminate|]. left.
    pose proof (Hhid _ Hin) as Hh. simpl in Hh. apply orb_true_iff in Hh. destruct Hh as [Hh|Hh]; [|discriminate].
    apply smem_In in Hh. unfold fkeys in Hh. apply in_map_iff in Hh. destruct Hh as [f [Ek Hf]]. subst p.
    rewrite (slookup_emit _ on o f Hndf Hf).
    assert (Hem : emitted on o f = true).
    { specialize (Hfields f Hf). unfold field_ok in Hfields. rewrite Hsl in Hfields.
      apply andb_true_iff in Hfields. destruct Hfields as [Hc He].
      unfold emitted. apply negb_true_iff. apply orb_false_iff. split.
      - destruct (fd_cond f); [|reflexivity]. simpl in Hc. rewrite andb_false_r in Hc. discriminate.
      - destruct (fd_excl f) as [d|] eqn:Ex; [|reflexivity].
        destruct (fval_eqb (o (fd_key f)) (VConst d)) eqn:Ev; [|reflexivity].
        apply fval_eqb_eq in Ev. exfalso. eapply Hres; eassumption. }
    rewrite Hem. discriminate. }
  destruct (bind_spec (cd_params c) (cd_norms c) (emit (cd_fields c) on o) Hndp Hdef) as [l [Hl Hs]].
  exists l. split; [exact Hl|].
  intros f Hf. destruct (Hparam f Hf) as [dflt Esl].
  destruct (slookup_In_pair _ _ _ Esl) as [k' [Ek Hin]]. subst k'.
  rewrite (Hs _ _ Hin). rewrite (slookup_emit _ on o f Hndf Hf).
  pose proof (Hfields f Hf) as Hfo. unfold field_ok in Hfo. rewrite Esl in Hfo.
  apply andb_true_iff in Hfo. destruct Hfo as [Hc He].
  destruct (emitted on o f) eqn:Em; [rewrite Hnorm; reflexivity|].
  unfold emitted in Em. apply negb_false_iff in Em. apply orb_true_iff in Em. destruct Em as [Em|Em].
  - apply andb_true_iff in Em. destruct Em as [Ec Eon]. apply negb_true_iff in Eon.
    destruct (Hreg f Hf Ec Eon) as [d0 [A B]]. rewrite Esl in A. inv A. rewrite B. reflexivity.
  - destruct (fd_excl f) as [d|] eqn:Ex; [|discriminate]. apply fval_eqb_eq in Em.
    destruct dflt as [d0|].
    + apply orb_true_iff in He. destruct He as [He|He].
      * apply fval_eqb_eq in He. rewrite He, Em. reflexivity.
      * exfalso. eapply Hres; eassumption.
    + exfalso. eapply Hres; eassumption.
Qed.

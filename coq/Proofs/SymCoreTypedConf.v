(* SymCoreTypedConf.v — the schema invariant [Conforms] and its basic structural facts.

   Conforms is local: every node that carries a schema satisfies, for each of its immediate members,
     - a leaf member is a value its field's spec accepts and maps to itself ([acc]: under allow_partial = false, or
       under allow_partial = true when the node was made partial: its own flag, or a history that used an
       allow_partial(True) scope);
     - a dict / list member is routed by the field to a Dict / List spec (or to Any) and carries exactly the spec the
       field binds it to; it then answers for its own members (this is what value_spec.apply(child) checks on a
       symbolic child: same spec, nothing re-validated);
     - only declared keys, every declared key present, sizes within bounds.                                         *)
From Coq Require Import ZArith NArith List Bool.
Import ListNotations.
From PG Require Import Common.Tactics Model.SymCoreDefs Model.SymCoreOps Model.SymCoreTyped.
From PG Require Import Proofs.SymCoreBase Proofs.SymCoreWF Proofs.SymCoreTypedBase.
From PG Require Model.Typing.
Local Open Scope Z_scope.

Notation apply := Typing.apply.

Section Conf.
Variable ev : env.
Variable P : bool.

Definition acc (p : bool) (f : spec) (v : pv) : Prop :=
  apply false f v = Typing.Ok v \/ (p = true /\ apply true f v = Typing.Ok v).

(* [route], [obj_pv]: Model/SymCoreTyped.v.  A dict / list member carries the spec its field binds; a field that routes it to Any
   binds nothing, and the member answers for itself with whatever spec it carries *)
Definition carries (fl : flags) (o : option spec) : Prop :=
  match o with Some b => f_spec fl = ref_of ev b | None => True end.

Definition child_ok (p : bool) (f : spec) (c : node) : Prop :=
  match c with
  | Leaf l => acc p f (leaf_pv l)
  | Node _ KDict _ _ fl _ => route true f = true /\ carries fl (bound_for true f)
  | Node _ KList _ _ fl _ => route false f = true /\ carries fl (bound_for false f)
  | Node _ (KObj c) _ _ _ _ => acc p f (obj_pv c)
  end.

Definition part (fl : flags) : bool := f_partial fl || P.

Definition node_ok (k : kind) (fl : flags) (its : list (key * node)) : Prop :=
  match spec_at ev (f_spec fl) with
  | None => True
  | Some sp =>
      match k, sp with
      | KList, Typing.SList e mn mx _ =>
          Forall (fun kc => child_ok (part fl) e (snd kc)) its /\
          mn <= count_present its /\
          match mx with Some m => zlen its <= m | None => True end
      | KDict, Typing.SDict (Some fs) _ | KObj _, Typing.SDict (Some fs) _ =>
          Forall (fun kc => exists f, dict_field fs (fst kc) = Some f /\ child_ok (part fl) f (snd kc)) its /\
          (forall s, Typing.has_const s fs = true -> has_key (KS s) its = true)
      | KDict, Typing.SDict None _ => True
      | _, _ => False
      end
  end.

Fixpoint cnode (n : node) : Prop :=
  match n with
  | Leaf _ => True
  | Node _ k _ _ fl its =>
      node_ok k fl its /\
      (fix all (l : list (key * node)) : Prop := match l with [] => True | kc :: r => cnode (snd kc) /\ all r end) its
  end.

Definition cslot (s : slot) : Prop := match s with Live t => cnode t | Moved _ => True end.
Definition Conforms (st : state) : Prop := Forall cslot (roots st).

(* --- unfolding ------------------------------------------------------------------------------------------- *)
Lemma cnode_items : forall (l : list (key * node)),
  (fix all (l : list (key * node)) : Prop := match l with [] => True | kc :: r => cnode (snd kc) /\ all r end) l
  <-> Forall (fun kc => cnode (snd kc)) l.
Proof.
  induction l as [|kc r IH]; simpl; split; intros; auto.
  - destruct H; constructor; auto. apply IH; auto.
  - inv H; split; auto. apply IH; auto.
Qed.
Lemma cnode_node : forall i k pa pt fl its,
  cnode (Node i k pa pt fl its) <-> node_ok k fl its /\ Forall (fun kc => cnode (snd kc)) its.
Proof. intros. simpl. rewrite cnode_items. tauto. Qed.
Lemma cnode_leaf : forall l, cnode (Leaf l).
Proof. simpl; auto. Qed.

(* child_ok looks at a member only through its kind, its bound spec and (for a leaf) its value *)
Definition same_face (a b : node) : Prop :=
  match a, b with
  | Leaf x, Leaf y => leaf_pv x = leaf_pv y
  | Node _ k _ _ fl _, Node _ k' _ _ fl' _ => k = k' /\ f_spec fl = f_spec fl'
  | _, _ => False
  end.
Lemma same_face_refl : forall a, same_face a a.
Proof. destruct a; simpl; auto. Qed.
Lemma child_ok_face : forall p f a b, same_face a b -> child_ok p f a -> child_ok p f b.
Proof.
  intros p f a b S H. destruct a as [x|i k pa pt fl its], b as [y|i' k' pa' pt' fl' its']; simpl in S; try contradiction.
  - simpl in *. rewrite <- S. exact H.
  - destruct S as (-> & E). destruct k'; simpl in *; unfold carries in *; rewrite <- ?E; auto.
Qed.
Lemma carries_eq : forall fl o, f_spec fl = ref_opt ev o -> carries fl o.
Proof. intros fl [b|] H; simpl in *; auto. Qed.

(* --- cnode does not look at parent links, paths, the sealed / accessor flags ------------------------------------ *)
Lemma face_set_path : forall p n, same_face n (set_path p n).
Proof. destruct n; simpl; auto. destruct (path_eqb pth p); simpl; auto. Qed.
Lemma face_set_par : forall p n, same_face n (set_par p n).
Proof. destruct n; simpl; auto. Qed.

Lemma Forall2_len : forall A B (R : A -> B -> Prop) l l', Forall2 R l l' -> length l = length l'.
Proof. induction 1; simpl; auto. Qed.

Definition faces (its its' : list (key * node)) : Prop :=
  Forall2 (fun a b => fst a = fst b /\ same_face (snd a) (snd b)) its its'.

Lemma faces_has_key : forall its its' k, faces its its' -> has_key k its' = has_key k its.
Proof.
  intros its its' k F. unfold has_key. induction F; simpl; auto.
  destruct x as [kx cx], y as [ky cy]. destruct H as (E & _). simpl in E. subst ky.
  destruct (key_eqb k kx); auto.
Qed.
Lemma faces_dict_part : forall p fs its its', faces its its' ->
  Forall (fun kc => exists f, dict_field fs (fst kc) = Some f /\ child_ok p f (snd kc)) its ->
  Forall (fun kc => exists f, dict_field fs (fst kc) = Some f /\ child_ok p f (snd kc)) its'.
Proof.
  intros p fs its its' F A. induction F; inv A; constructor; auto.
  destruct H as (E & S). destruct H2 as (f & D & C). exists f. rewrite <- E. split; auto. eapply child_ok_face; eauto.
Qed.
Lemma faces_list_part : forall p e its its', faces its its' ->
  Forall (fun kc => child_ok p e (snd kc)) its -> Forall (fun kc => child_ok p e (snd kc)) its'.
Proof.
  intros p e its its' F A. induction F; inv A; constructor; auto. destruct H. eapply child_ok_face; eauto.
Qed.

Lemma node_ok_faces : forall k fl its its',
  faces its its' -> count_present its = count_present its' ->
  node_ok k fl its -> node_ok k fl its'.
Proof.
  intros k fl its its' F CP H. unfold node_ok in *.
  destruct (spec_at ev (f_spec fl)) as [sp|]; auto.
  assert (LEN : zlen its = zlen its'). { unfold zlen. erewrite Forall2_len; eauto. }
  destruct k.
  - destruct sp; auto. destruct schema; auto. destruct H as (A & B). split.
    + eapply faces_dict_part; eauto.
    + intros s Hs. rewrite (faces_has_key _ _ _ F). auto.
  - destruct sp; auto. destruct H as (A & B & C). split; [|split].
    + eapply faces_list_part; eauto.
    + rewrite <- CP; auto.
    + destruct mx; auto. rewrite <- LEN; auto.
  - destruct sp; auto. destruct schema; auto. destruct H as (A & B). split.
    + eapply faces_dict_part; eauto.
    + intros s Hs. rewrite (faces_has_key _ _ _ F). auto.
Qed.

(* items rewritten member by member, each member keeping its face *)
Lemma faces_map : forall (h : key * node -> node) its,
  (forall kv, same_face (snd kv) (h kv)) -> faces its (map (fun kv => (fst kv, h kv)) its).
Proof. intros h its Hf. unfold faces. induction its; simpl; constructor; simpl; auto. Qed.
Lemma count_present_map : forall (h : key * node -> node) its,
  (forall kv, is_missing (h kv) = is_missing (snd kv)) ->
  count_present (map (fun kv => (fst kv, h kv)) its) = count_present its.
Proof.
  intros h its Hm. unfold count_present, zlen. f_equal.
  induction its as [|kv r IH]; simpl; auto. rewrite Hm. destruct (negb (is_missing (snd kv))); simpl; auto.
Qed.
Lemma node_ok_map : forall k fl (h : key * node -> node) its,
  (forall kv, same_face (snd kv) (h kv)) -> (forall kv, is_missing (h kv) = is_missing (snd kv)) ->
  node_ok k fl its -> node_ok k fl (map (fun kv => (fst kv, h kv)) its).
Proof.
  intros. eapply node_ok_faces; eauto using faces_map. symmetry. apply count_present_map; auto.
Qed.

Lemma is_missing_set_path : forall p n, is_missing (set_path p n) = is_missing n.
Proof. destruct n; simpl; auto. destruct (path_eqb pth p); auto. Qed.

Lemma cnode_set_path : forall n p, cnode n -> cnode (set_path p n).
Proof.
  induction n using node_ind'; intros p C; simpl; auto.
  destruct (path_eqb pt p); auto.
  apply cnode_node in C. destruct C as (NO & F). apply cnode_node. split.
  - apply (node_ok_map k fl (fun kv => set_path (p ++ [fst kv]) (snd kv))); auto.
    + intros; apply face_set_path.
    + intros; apply is_missing_set_path.
  - apply Forall_map. simpl. rewrite Forall_forall in *. intros kv I. apply H; auto.
Qed.
Lemma cnode_set_par : forall n p, cnode n -> cnode (set_par p n).
Proof. destruct n; simpl; auto. Qed.
Lemma cnode_detach : forall n, cnode n -> cnode (detach n).
Proof. intros. unfold detach. apply cnode_set_path. apply cnode_set_par. auto. Qed.
Lemma face_detach : forall n, same_face n (detach n).
Proof.
  intros. unfold detach. destruct n; simpl; auto. destruct (path_eqb pth []); simpl; auto.
Qed.

(* the sealed / accessor_writable flags do not matter *)
Definition same_schema_flags (f g : flags) : Prop := f_partial f = f_partial g /\ f_spec f = f_spec g.
Lemma node_ok_flags : forall k fl fl' its, same_schema_flags fl fl' -> node_ok k fl its -> node_ok k fl' its.
Proof.
  intros k fl fl' its (E1 & E2) H. unfold node_ok, part in *. rewrite <- E1, <- E2. exact H.
Qed.
Lemma face_seal_rec : forall b n, same_face n (seal_rec b n).
Proof. destruct n; simpl; auto. Qed.
Lemma is_missing_seal_rec : forall b n, is_missing (seal_rec b n) = is_missing n.
Proof. destruct n; simpl; auto. Qed.
Lemma cnode_seal_rec : forall b n, cnode n -> cnode (seal_rec b n).
Proof.
  induction n using node_ind'; intros C; [exact I|].
  cbn [seal_rec]. apply cnode_node in C. destruct C as (NO & F). apply cnode_node. split.
  - eapply node_ok_flags with (fl := fl); [unfold same_schema_flags; simpl; split; reflexivity|].
    apply (node_ok_map k fl (fun kv => seal_rec b (snd kv))); auto.
    + intros; apply face_seal_rec.
    + intros; apply is_missing_seal_rec.
  - apply Forall_map. simpl. rewrite Forall_forall in *. intros kv I. apply H; auto.
Qed.
Lemma cnode_set_flags : forall f n, (forall fl, same_schema_flags fl (f fl)) -> cnode n -> cnode (set_flags f n).
Proof.
  destruct n as [l|i k pa pt fl its]; simpl; intros Hf C; auto.
  destruct C as (NO & F). split; auto. eapply node_ok_flags; eauto.
Qed.

(* lists: the keys are positions (ignored by node_ok), MISSING_VALUE placeholders may be dropped *)
Inductive lfaces : list (key * node) -> list (key * node) -> Prop :=
| lf_nil : lfaces [] []
| lf_keep : forall a b l l', same_face (snd a) (snd b) -> is_missing (snd b) = is_missing (snd a) -> lfaces l l' -> lfaces (a :: l) (b :: l')
| lf_drop : forall a l l', is_missing (snd a) = true -> lfaces l l' -> lfaces (a :: l) l'.
Lemma lfaces_refl : forall l, lfaces l l.
Proof. induction l; constructor; auto. apply same_face_refl. Qed.
Lemma lfaces_count : forall l l', lfaces l l' -> count_present l' = count_present l.
Proof.
  unfold count_present, zlen. intros l l' H. f_equal. induction H; simpl; auto.
  - rewrite H0. destruct (negb (is_missing (snd a))); simpl; auto.
  - rewrite H. simpl. auto.
Qed.
Lemma lfaces_len : forall l l', lfaces l l' -> zlen l' <= zlen l.
Proof. unfold zlen. intros l l' H. induction H; simpl; lia. Qed.
Lemma lfaces_forall : forall p e l l', lfaces l l' ->
  Forall (fun kc => child_ok p e (snd kc)) l -> Forall (fun kc => child_ok p e (snd kc)) l'.
Proof.
  intros p e l l' H F. induction H; inv F; auto. constructor; auto. eapply child_ok_face; eauto.
Qed.
Lemma node_ok_lfaces : forall fl its its', lfaces its its' -> node_ok KList fl its -> node_ok KList fl its'.
Proof.
  intros fl its its' L H. unfold node_ok in *. destruct (spec_at ev (f_spec fl)) as [sp|]; auto.
  destruct sp; auto. destruct H as (A & B & C). split; [|split].
  - eapply lfaces_forall; eauto.
  - rewrite (lfaces_count _ _ L). auto.
  - destruct mx; auto. pose proof (lfaces_len _ _ L). lia.
Qed.
(* kinds other than lists never drop an item *)
Lemma node_ok_untyped : forall k fl its', spec_at ev (f_spec fl) = None -> node_ok k fl its'.
Proof. intros. unfold node_ok. rewrite H. exact I. Qed.

(* a member of a conforming node conforms *)
Lemma cnode_child : forall i k pa pt fl its kc, cnode (Node i k pa pt fl its) -> In kc its -> cnode (snd kc).
Proof. intros. apply cnode_node in H. destruct H as (_ & F). rewrite Forall_forall in F. auto. Qed.
Lemma cnode_get_in : forall p n m, cnode n -> get_in p n = Some m -> cnode m.
Proof.
  induction p as [|k r IH]; intros n m C G; simpl in G.
  - inv G; auto.
  - destruct (assoc k (nitems n)) as [c|] eqn:A; [|discriminate].
    destruct n as [l|i kd pa pt fl its]; simpl in A; [discriminate|].
    destruct (assoc_in _ _ _ _ A) as (k' & _ & I). eapply IH; [|exact G].
    eapply (cnode_child _ _ _ _ _ _ (k', c)); eauto.
Qed.
End Conf.

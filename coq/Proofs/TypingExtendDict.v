(* TypingExtendDict.v — Schema.extend for Dict specs: compat is reflexive (inherited fields), and a child
   Dict that declares no new key narrows its base Dict. *)
From PG Require Import Common.Tactics Model.Typing Proofs.TypingBasics Proofs.TypingApply Proofs.TypingDict
                       Proofs.TypingApplyDict Proofs.TypingCompat Proofs.TypingCompatDict Proofs.TypingExtend
                       Proofs.TypingTheorems Proofs.TypingExtendFrozen Proofs.TypingUnion Proofs.TypingUnionCompat
                       Proofs.TypingUnionExtend.
Local Open Scope Z_scope.
Local Arguments Z.mul : simpl never.

(* ------------------------------------------------------------------------------------------ *)
(** * compat is reflexive (specs without Union) *)

Lemma range_compat_refl : forall lo hi, range_compat lo hi lo hi = true.
Proof. unfold range_compat. intros [l|] [h|]; simpl; auto; try lia. Qed.

Lemma none_ok_refl : forall m, none_ok m m = true.
Proof. unfold none_ok. intros m. destruct (noneable m); reflexivity. Qed.

Lemma frozen_ok_refl : forall q m, frozen_ok q m m = true.
Proof.
  unfold frozen_ok. intros q m. destruct (frozen m); simpl; rewrite ?orb_true_r; auto.
  rewrite py_eq_refl. apply orb_true_r.
Qed.

Lemma py_in_self : forall v vs, In v vs -> py_in v vs = true.
Proof. unfold py_in. intros. apply existsb_exists. exists v. split; auto. apply py_eq_refl. Qed.

Lemma forall2b_refl : forall (f : spec -> spec -> bool) l, Forall (fun x => f x x = true) l -> forall2b f l l = true.
Proof. induction 1; simpl; auto. rewrite H, IHForall. reflexivity. Qed.

Lemma all_typed_within_self : forall vs t, enum_vtype vs = Some [t] -> existsb is_missing vs = false ->
  all_typed_within vs t = true.
Proof.
  intros vs t VT NM. destruct (enum_vtype_sound _ _ VT) as [t' [E SND]]. inv E.
  unfold all_typed_within. apply forallb_forall. intros w Iw.
  destruct (pv_is_none w) as [X|NN]; [subst; reflexivity|].
  destruct (SND _ Iw NN) as [tw [Tw Sw]].
  destruct w; try congruence; simpl in Tw |- *; inv Tw; auto.
Qed.

Theorem compat_refl : forall q s, no_union s = true -> sizes_ok s = true -> enums_ok s = true ->
  keys_ok s = true -> compat q s s = true.
Proof.
  intros q. induction s using spec_ind'; intros NU SZ EN KO; rewrite compat_eq; unfold compat1; cbn [mods_of];
    rewrite frozen_ok_refl; cbn [andb]; rewrite ?none_ok_refl; cbn [andb]; auto.
  - apply range_compat_refl.
  - apply range_compat_refl.
  - (* Enum *)
    apply orb_true_iff. right.
    simpl in EN. apply andb_true_iff in EN as [_ EN]. apply negb_true_iff in EN.
    apply andb_true_iff. split.
    + apply forallb_forall. intros v Iv. apply py_in_self; auto.
    + unfold enum_types_ok. cbn [enum_vals]. destruct (q_enum_subset q); auto. cbn [orb].
      destruct (enum_vtype vs) as [[|t [|t2 r2]]|] eqn:VT; auto.
      * destruct t; auto; apply all_typed_within_self; auto.
      * destruct t; reflexivity.
  - (* List *)
    simpl in NU, SZ, EN, KO. apply andb_true_iff in SZ as [SZ1 SZ2].
    rewrite IHs by auto. rewrite !andb_true_r.
    apply andb_true_iff. split. { destruct (q_list_min q); simpl; auto. lia. }
    unfold size_max_ok. destruct mx; auto. lia.
  - (* Tuple *)
    simpl in NU, SZ, EN, KO. apply andb_true_iff in SZ as [SZ1 SZ2]. apply andb_true_iff in SZ1 as [SZ1 SZ3].
    rewrite forallb_forall in NU, SZ2, EN, KO. rewrite Forall_forall in H.
    assert (R : Forall (fun x => compat q x x = true) es) by (apply Forall_forall; intros; apply H; auto).
    destruct (fixed_length mn mx) eqn:FX.
    + rewrite Z.eqb_refl. simpl. apply forall2b_refl; auto.
    + simpl in SZ3. destruct es as [|e es']; [discriminate|].
      inv R. rewrite H2. rewrite andb_true_r.
      apply andb_true_iff. split. lia. destruct mx; auto. lia.
  - (* Dict with a schema *)
    simpl in NU, SZ, EN, KO. apply andb_true_iff in KO as [KD KO].
    rewrite forallb_forall in NU, SZ, EN, KO. rewrite Forall_forall in H.
    unfold schema_compat. apply andb_true_iff. split.
    + apply forallb_forall. intros [k sp] I. simpl. rewrite (In_field_of _ _ _ KD I). reflexivity.
    + apply forallb_forall. intros [k sp] I. simpl. rewrite (In_field_of _ _ _ KD I).
      apply (H _ I); [apply (NU _ I) | apply (SZ _ I) | apply (EN _ I) | apply (KO _ I)].
  - (* Object *)
    apply is_subclass_refl.
  - simpl in NU. discriminate.
Qed.

(* ------------------------------------------------------------------------------------------ *)
(** * Schema.extend when the child declares no new key *)

Lemma fields_extend_inv : forall f (bfs : list (fkey * spec)) fs fs',
  fields_extend f bfs fs = Ok fs' ->
  forall k s', In (k, s') fs' ->
  (exists sc sb, In (k, sc) fs /\ field_of k bfs = Some sb /\ f sc sb = Ok s') \/
  (In (k, s') fs /\ field_of k bfs = None).
Proof.
  induction fs as [|[k0 s0] r IH]; simpl; intros fs' H k s' I.
  - inv H. contradiction.
  - destruct (field_of k0 bfs) as [sb0|] eqn:F0.
    + destruct (f s0 sb0) as [s0'|] eqn:E0; simpl in H; [|discriminate].
      destruct (fields_extend f bfs r) as [r'|] eqn:Er; simpl in H; inv H.
      destruct I as [X|I].
      * inv X. left. exists s0, sb0. auto.
      * destruct (IH _ eq_refl _ _ I) as [[sc [sb [A [B C]]]]|[A B]]; [left; exists sc, sb|right]; auto.
    + destruct (fields_extend f bfs r) as [r'|] eqn:Er; simpl in H; inv H.
      destruct I as [X|I].
      * inv X. right. auto.
      * destruct (IH _ eq_refl _ _ I) as [[sc [sb [A [B C]]]]|[A B]]; [left; exists sc, sb|right]; auto.
Qed.

Definition merge_map (fs' : list (fkey * spec)) (kf : fkey * spec) : fkey * spec :=
  match field_of (fst kf) fs' with Some s' => (fst kf, s') | None => kf end.

Lemma field_of_merge_map : forall fs' k bfs,
  field_of k (map (merge_map fs') bfs) =
  match field_of k bfs with
  | Some sb => Some (match field_of k fs' with Some s' => s' | None => sb end)
  | None => None
  end.
Proof.
  induction bfs as [|[k0 s0] r IH]; simpl; auto. unfold merge_map at 1. simpl.
  destruct (field_of k0 fs') eqn:F; simpl; destruct (fkey_eqb k k0) eqn:E; auto;
    apply fkey_eqb_eq in E; subst; rewrite F; reflexivity.
Qed.

Lemma merged_no_new : forall bfs fs',
  (forall kf, In kf fs' -> field_of (fst kf) bfs <> None) ->
  merged_schema bfs fs' = map (merge_map fs') bfs.
Proof.
  intros bfs fs' H. unfold merged_schema. fold (merge_map fs').
  replace (filter (fun kf => match field_of (fst kf) bfs with Some _ => false | None => true end) fs') with (@nil (fkey * spec)).
  - apply app_nil_r.
  - symmetry. induction fs' as [|kf r IH]; simpl; auto.
    destruct (field_of (fst kf) bfs) eqn:F.
    + apply IH. intros; apply H; right; auto.
    + exfalso. apply (H kf); auto. left; reflexivity.
Qed.

Lemma map_merge_keys : forall fs' bfs, map fst (map (merge_map fs') bfs) = map fst bfs.
Proof.
  induction bfs as [|kf r IH]; simpl; auto. rewrite IH. f_equal.
  unfold merge_map. destruct (field_of (fst kf) fs'); reflexivity.
Qed.

Theorem extend_dict_schema : forall q fs m bfs mb c',
  no_quirks q -> frozen m = false -> frozen mb = false ->
  keys_distinct fs = true -> keys_distinct bfs = true ->
  Forall (fun kf => goodf (snd kf)) fs ->
  Forall (fun kf => basef (snd kf) /\ wf (snd kf)) bfs ->
  (forall kf, In kf fs -> field_of (fst kf) bfs <> None) ->
  extend q (SDict (Some fs) m) (SDict (Some bfs) mb) = Ok c' ->
  compat q (SDict (Some bfs) mb) c' = true /\
  (forall v, total v = true -> conforms c' v -> accepts (SDict (Some bfs) mb) v).
Proof.
  intros q fs m bfs mb c' NQ Fc Fb KDc KDb Gfs Bbfs NOKEY H.
  pose proof NQ as (Q1 & Q2 & Q3 & Q4 & Q5).
  rewrite Forall_forall in Gfs, Bbfs.
  (* the call *)
  unfold extend in H. cbn [mods_of is_enum] in H. rewrite Fb, Fc in H. cbn [andb] in H.
  rewrite extend_in_eq in H. unfold extend_in1, frozen_base_bad in H.
  cbn [mods_of is_enum is_any is_union same_class] in H. rewrite Fb, Fc in H. cbn [andb negb orb bind] in H.
  cbn [mods_of] in H.
  destruct (negb (noneable mb) && noneable m) eqn:NO; [discriminate|]. apply none_ok_from_check in NO.
  cbn [extend_class] in H.
  destruct (fields_extend (extend_in q) bfs fs) as [fs'|] eqn:FE; cbn [bind] in H; [|discriminate].
  (* no new key in fs' either *)
  assert (NOKEY' : forall kf, In kf fs' -> field_of (fst kf) bfs <> None).
  { intros [k s'] I. simpl. destruct (fields_extend_inv _ _ _ _ FE _ _ I) as [[sc [sb [A [B C]]]]|[A B]].
    - congruence.
    - exfalso. apply (NOKEY _ A). exact B. }
  rewrite (merged_no_new _ _ NOKEY') in H.
  set (merged := map (merge_map fs') bfs) in *.
  pose proof (keys_distinct_map fs fs' (fields_extend_keys _ _ _ _ FE) KDc) as KD'.
  (* every merged field: the base field is compatible with it, and it is wf / keys_ok *)
  assert (FIELD : forall k sb, In (k, sb) bfs ->
            exists s', field_of k merged = Some s' /\ compat q sb s' = true /\ wf s' /\ keys_ok s' = true).
  { intros k sb I. pose proof (In_field_of _ _ _ KDb I) as Fk.
    unfold merged. rewrite field_of_merge_map, Fk.
    destruct (Bbfs _ I) as [Bsb Wsb]. simpl in Bsb, Wsb.
    destruct (field_of k fs') as [s'|] eqn:F'.
    - exists s'. split; auto. apply field_of_In' in F'.
      destruct (fields_extend_inv _ _ _ _ FE _ _ F') as [[sc [sb' [A [B C]]]]|[A B]]; [|congruence].
      rewrite Fk in B. inv B.
      destruct (extend_compat_frozen q NQ sc (Gfs _ A) sb' s' Bsb C) as [CP (NU' & NS' & EN' & SZ' & W')].
      repeat split; auto. apply no_schema_keys_ok; auto.
    - exists sb. split; auto. destruct Bsb as (NUb & NSb & SZb & ENb & NFb).
      repeat split; auto.
      + apply compat_refl; auto. apply no_schema_keys_ok; auto.
      + apply no_schema_keys_ok; auto. }
  (* the shape of the result *)
  assert (SH : exists m', c' = SDict (Some merged) m' /\ noneable m' = noneable m /\ frozen m' = false).
  { destruct (revalidate_inv _ _ H) as [E|[d E]]; subst c'.
    - exists m. auto.
    - exists (Mods (noneable m) (Some d) (frozen m)). simpl. auto. }
  destruct SH as [m' [E [Nm Fm]]]. subst c'.
  assert (KM : keys_distinct merged = true).
  { eapply (keys_distinct_map bfs merged); eauto. unfold merged. apply map_merge_keys. }
  assert (CP : compat q (SDict (Some bfs) mb) (SDict (Some merged) m') = true).
  { rewrite compat_eq. unfold compat1. cbn [mods_of]. rewrite compat1_frozen_ok by auto. cbn [andb].
    apply andb_true_iff. split. { unfold none_ok in *. rewrite Nm. exact NO. }
    unfold schema_compat. apply andb_true_iff. split.
    - apply forallb_forall. intros [k s'] I. simpl. unfold merged in I. apply in_map_iff in I as [[k0 s0] [E I]].
      unfold merge_map in E. simpl in E.
      assert (K : k = k0) by (destruct (field_of k0 fs'); inv E; auto). subst k.
      rewrite (In_field_of _ _ _ KDb I). reflexivity.
    - apply forallb_forall. intros [k sb] I. simpl. destruct (FIELD _ _ I) as [s' [F [C _]]]. rewrite F. exact C. }
  split; auto.
  intros v T Cv.
  assert (NUb : no_union (SDict (Some bfs) mb) = true).
  { simpl. apply forallb_forall. intros kf I. destruct (Bbfs _ I) as [(A & _) _]. exact A. }
  eapply (compat_sound q NQ _ NUb (SDict (Some merged) m')); eauto.
  - (* wf of the base *)
    apply wf_split. split. { unfold frozen_value_ok. cbn [mods_of]. congruence. }
    simpl. apply Forall_forall. intros kf I. destruct (Bbfs _ I) as [_ W]. exact W.
  - (* wf of the result *)
    apply wf_split. split. { unfold frozen_value_ok. cbn [mods_of]. congruence. }
    simpl. apply Forall_forall. intros [k s'] I. simpl.
    unfold merged in I. apply in_map_iff in I as [[k0 s0] [E I]].
    destruct (FIELD _ _ I) as [s'' [F [_ [W _]]]].
    assert (X : field_of k0 merged = Some s').
    { apply In_field_of; auto. unfold merged. apply in_map_iff. exists (k0, s0). split; auto.
      unfold merge_map in *. simpl in *. destruct (field_of k0 fs'); inv E; reflexivity. }
    unfold merge_map in E. simpl in E. assert (k = k0) by (destruct (field_of k0 fs'); inv E; auto). subst k.
    rewrite X in F. inv F. exact W.
  - (* keys_ok of the result *)
    simpl. rewrite KM. simpl. apply forallb_forall. intros [k s'] I. simpl.
    unfold merged in I. apply in_map_iff in I as [[k0 s0] [E I]].
    destruct (FIELD _ _ I) as [s'' [F [_ [_ K]]]].
    assert (X : field_of k0 merged = Some s').
    { apply In_field_of; auto. unfold merged. apply in_map_iff. exists (k0, s0). split; auto.
      unfold merge_map in *. simpl in *. destruct (field_of k0 fs'); inv E; reflexivity. }
    rewrite X in F. inv F. exact K.
Qed.

(* ------------------------------------------------------------------------------------------ *)
(** * Schema.is_compatible is sound (schema level) *)

Theorem schema_compat_sound : forall q fs m ofs mb,
  union_safe (SDict (Some fs) m) = true -> avoids q (SDict (Some fs) m) = true ->
  wf (SDict (Some fs) m) -> wf (SDict (Some ofs) mb) ->
  keys_ok (SDict (Some ofs) mb) = true -> sizes_ok (SDict (Some ofs) mb) = true ->
  union_plain (SDict (Some ofs) mb) = true ->
  frozen_ok q m mb = true -> none_ok m mb = true ->
  schema_compat (compat q) fs ofs = true ->
  forall v, total v = true -> conforms (SDict (Some ofs) mb) v -> accepts (SDict (Some fs) m) v.
Proof.
  intros q fs m ofs mb US AV Wa Wb KB SB UB FO NO SC v T C.
  eapply (compat_sound_union q _ US AV (SDict (Some ofs) mb)); eauto.
  rewrite compat_eq. unfold compat1. cbn [mods_of]. rewrite FO, NO, SC. reflexivity.
Qed.

(* the hypotheses of extend_dict_schema are satisfiable: a class-like schema overriding one field *)
Example ex_dict_extend :
  let base := SDict (Some [(KConst (S_ 120), SInt None (Some 5) m0); (KConst (S_ 121), SStr (Mods true None false))]) m0 in
  let child := SDict (Some [(KConst (S_ 120), SInt (Some 1) None m0)]) m0 in
  exists c', extend noq child base = Ok c' /\
             c' = SDict (Some [(KConst (S_ 120), SInt (Some 1) (Some 5) m0); (KConst (S_ 121), SStr (Mods true None false))])
                        m0.
Proof. eexists. split; vm_compute; reflexivity. Qed.
